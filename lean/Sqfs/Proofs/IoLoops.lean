/-
Helper lemmas for C12 (`Sqfs/Props/C12.lean`): the retry loops of file.c / ostream.c / unix.c.
-/
import Sqfs.Spec.IoLoops
namespace Sqfs.IoLoops

theorem noHard_cons {e : Ev} {sc : List Ev} (h : noHard (e :: sc) = true) :
    e.hard = false ∧ noHard sc = true := by
  simpa [noHard] using h

/-- On a script without hard events a call is either interrupted (and the script gets shorter) or transfers
`m ≤ cap` bytes, at least one when one is possible. -/
theorem call_noHard (os : OS) (c : Call) (cap : Nat) (h : noHard os.sc = true) :
    (∃ os', os.call c cap = (.eintr, os') ∧ noHard os'.sc = true ∧ os'.sc.length < os.sc.length) ∨
    (∃ m os', os.call c cap = (.n m, os') ∧ noHard os'.sc = true ∧ os'.sc.length ≤ os.sc.length ∧
        m ≤ cap ∧ (0 < cap → 0 < m)) := by
  obtain ⟨sc, log⟩ := os
  cases sc with
  | nil => right; exact ⟨cap, _, rfl, by simp [noHard], by simp, Nat.le_refl _, fun h => h⟩
  | cons e sc =>
    obtain ⟨he, hn⟩ := noHard_cons h
    cases e with
    | part k =>
      right
      refine ⟨min (k + 1) cap, _, rfl, hn, by simp, Nat.min_le_right _ _, fun h => ?_⟩
      omega
    | eintr => left; exact ⟨_, rfl, hn, by simp⟩
    | err => simp [Ev.hard] at he
    | zero => simp [Ev.hard] at he

/-- Any call, any script: the script never grows, an `EINTR` consumes an event, a count never exceeds `cap`. -/
theorem call_any (os : OS) (c : Call) (cap : Nat) :
    ∃ r os', os.call c cap = (r, os') ∧ os'.sc.length ≤ os.sc.length ∧
      (r = .eintr → os'.sc.length < os.sc.length) ∧ (∀ m, r = .n m → m ≤ cap) := by
  obtain ⟨sc, log⟩ := os
  cases sc with
  | nil => exact ⟨.n cap, _, rfl, by simp, by simp, by simp⟩
  | cons e sc =>
    cases e with
    | part k => exact ⟨.n (min (k + 1) cap), _, rfl, by simp, by simp, by simp; omega⟩
    | eintr => exact ⟨.eintr, _, rfl, by simp, by simp, by simp⟩
    | err => exact ⟨.err, _, rfl, by simp, by simp, by simp⟩
    | zero => exact ⟨.n 0, _, rfl, by simp, by simp, by simp⟩

theorem take_drop_step (l : Bytes) (off k size : Nat) (hk : k ≤ size) :
    (l.drop off).take k ++ (l.drop (off + k)).take (size - k) = (l.drop off).take size := by
  have : size = k + (size - k) := by omega
  conv => rhs; rw [this, List.take_add, List.drop_drop]

/-! ### stdio_read_at -/

/-- status of a read of `size` bytes at `off` from a file: only a read that reaches past the end fails -/
def readAtRc (file : Bytes) (off size : Nat) : Err :=
  if size = 0 ∨ off + size ≤ file.length then .ok else .oob

theorem readAtLoop_spec (file : Bytes) : ∀ (fuel off size : Nat) (acc : Bytes) (os : OS),
    noHard os.sc = true → os.sc.length + size < fuel →
    ∃ os', readAtLoop file fuel off size acc os =
      (readAtRc file off size, acc ++ (file.drop off).take size, os') := by
  intro fuel
  induction fuel with
  | zero => intro off size acc os _ h; omega
  | succ fuel ih =>
    intro off size acc os hn hf
    unfold readAtLoop
    by_cases hs : size = 0
    · subst hs; simp [readAtRc]
    · simp only [hs, if_false]
      rcases call_noHard os ⟨2, size, off⟩ (min size (file.length - off)) hn with
        ⟨os', hc, hn', hl⟩ | ⟨m, os', hc, hn', hl, hm, hpos⟩
      · rw [hc]; exact ih off size acc os' hn' (by omega)
      · rw [hc]
        cases m with
        | zero =>
          refine ⟨os', ?_⟩
          have h0 : file.length - off = 0 := by omega
          have h2 : (file.drop off).take size = [] := by
            rw [List.take_eq_nil_iff]; right; rw [List.drop_eq_nil_iff]; omega
          have : readAtRc file off size = .oob := by simp only [readAtRc]; rw [if_neg]; omega
          simp [this, h2]
        | succ k =>
          obtain ⟨os'', h'⟩ := ih (off + (k+1)) (size - (k+1)) (acc ++ (file.drop off).take (k+1)) os' hn' (by omega)
          refine ⟨os'', ?_⟩
          simp only []
          rw [h']
          have hk : k + 1 ≤ size := by omega
          have : readAtRc file (off + (k+1)) (size - (k+1)) = readAtRc file off size := by
            simp only [readAtRc]
            have : (size - (k + 1) = 0 ∨ off + (k + 1) + (size - (k + 1)) ≤ file.length) ↔
                (size = 0 ∨ off + size ≤ file.length) := by omega
            simp only [this]
          rw [this, List.append_assoc, take_drop_step _ _ _ _ hk]

/-- every script: the loop ends within its fuel, and success means the whole range was stored -/
theorem readAtLoop_any (file : Bytes) : ∀ (fuel off size : Nat) (acc : Bytes) (os : OS),
    os.sc.length + size < fuel →
    (readAtLoop file fuel off size acc os).1 ≠ .fuel ∧
    ((readAtLoop file fuel off size acc os).1 = .ok →
      (readAtLoop file fuel off size acc os).2.1 = acc ++ (file.drop off).take size ∧
      (size = 0 ∨ off + size ≤ file.length)) := by
  intro fuel
  induction fuel with
  | zero => intro off size acc os h; omega
  | succ fuel ih =>
    intro off size acc os hf
    unfold readAtLoop
    by_cases hs : size = 0
    · subst hs; simp
    · simp only [hs, if_false]
      obtain ⟨r, os', hc, hl, hi, hm⟩ := call_any os ⟨2, size, off⟩ (min size (file.length - off))
      rw [hc]
      cases r with
      | eintr =>
        have := hi rfl
        have h := ih off size acc os' (by omega)
        simpa [hs] using h
      | err => simp
      | n m =>
        have hm' := hm m rfl
        cases m with
        | zero => simp
        | succ k =>
          simp only []
          obtain ⟨h1, h2⟩ := ih (off + (k+1)) (size - (k+1)) (acc ++ (file.drop off).take (k+1)) os' (by omega)
          refine ⟨h1, fun hok => ?_⟩
          obtain ⟨h3, h4⟩ := h2 hok
          have hk : k + 1 ≤ size := by omega
          refine ⟨?_, by omega⟩
          rw [h3, List.append_assoc, take_drop_step _ _ _ _ hk]

/-! ### stdio_write_at -/

theorem pwrite_prefix_length (f : Bytes) (off : Nat) :
    ((f ++ List.replicate (off - f.length) 0).take off).length = off := by
  simp; omega

theorem pwriteBytes_split (f : Bytes) (off k : Nat) (d : Bytes) (hk : k ≤ d.length) :
    pwriteBytes (pwriteBytes f off (d.take k)) (off + k) (d.drop k) = pwriteBytes f off d := by
  unfold pwriteBytes
  generalize hP : (f ++ List.replicate (off - f.length) 0).take off = P
  have hPl : P.length = off := by rw [← hP]; exact pwrite_prefix_length f off
  have hk1 : (d.take k).length = k := by simp; omega
  have hlen : (P ++ d.take k ++ f.drop (off + (d.take k).length)).length ≥ off + k := by
    simp [hPl, hk1]
  have h0 : off + k - (P ++ d.take k ++ f.drop (off + (d.take k).length)).length = 0 := by omega
  rw [h0]
  simp only [List.replicate_zero, List.append_nil]
  have h1 : (P ++ d.take k ++ f.drop (off + (d.take k).length)).take (off + k) = P ++ d.take k := by
    apply List.take_left'
    simp [hPl, hk1]
  have h2 : (P ++ d.take k ++ f.drop (off + (d.take k).length)).drop (off + k + (d.drop k).length)
      = f.drop (off + d.length) := by
    have : off + k + (d.drop k).length = (P ++ d.take k).length + (d.drop k).length := by simp [hPl, hk1]
    rw [this, List.drop_append, hk1, List.drop_drop]
    have hl2 : (d.drop k).length = d.length - k := by simp
    have hl3 : (P ++ d.take k).length = off + k := by simp [hPl, hk1]
    rw [List.drop_eq_nil_iff.2 (by omega), List.nil_append]
    congr 1
    omega
  rw [h1, h2]
  simp [List.append_assoc]

theorem pwriteBytes_length_ge (f : Bytes) (off : Nat) (d : Bytes) :
    off + d.length ≤ (pwriteBytes f off d).length := by
  unfold pwriteBytes
  have := pwrite_prefix_length f off
  simp only [List.length_append, this]
  omega

/-- the file after `stdio_write_at(off, data)`: unchanged by an empty write (no `pwrite` is issued) -/
def writeAtFile (file : Bytes) (off : Nat) (data : Bytes) : Bytes :=
  if data.length = 0 then file else pwriteBytes file off data

theorem writeAtFile_step (f : Bytes) (off k : Nat) (d : Bytes) (hk : k + 1 ≤ d.length) :
    writeAtFile (pwriteBytes f off (d.take (k + 1))) (off + (k + 1)) (d.drop (k + 1)) = writeAtFile f off d := by
  unfold writeAtFile
  have hd : ¬ d.length = 0 := by omega
  simp only [hd, if_false]
  by_cases h : (d.drop (k + 1)).length = 0
  · simp only [h, if_true]
    have : d.take (k + 1) = d := by
      apply List.take_of_length_le
      simp at h; omega
    rw [this]
  · simp only [h, if_false]
    exact pwriteBytes_split f off (k + 1) d hk

theorem writeAtLoop_spec : ∀ (fuel : Nat) (file : Bytes) (off : Nat) (data : Bytes) (os : OS),
    noHard os.sc = true → os.sc.length + data.length < fuel →
    ∃ os', writeAtLoop fuel file off data os = (.ok, writeAtFile file off data, off + data.length, os') := by
  intro fuel
  induction fuel with
  | zero => intro file off data os _ h; omega
  | succ fuel ih =>
    intro file off data os hn hf
    unfold writeAtLoop
    by_cases hs : data.length = 0
    · simp [hs, writeAtFile]
    · simp only [hs, if_false]
      rcases call_noHard os ⟨3, data.length, off⟩ data.length hn with
        ⟨os', hc, hn', hl⟩ | ⟨m, os', hc, hn', hl, hm, hpos⟩
      · rw [hc]; exact ih file off data os' hn' (by omega)
      · rw [hc]
        cases m with
        | zero => omega
        | succ k =>
          simp only []
          obtain ⟨os'', h'⟩ := ih (pwriteBytes file off (data.take (k+1))) (off + (k+1)) (data.drop (k+1)) os' hn'
            (by simp; omega)
          refine ⟨os'', ?_⟩
          rw [h', writeAtFile_step _ _ _ _ hm]
          simp; omega

theorem writeAtLoop_any : ∀ (fuel : Nat) (file : Bytes) (off : Nat) (data : Bytes) (os : OS),
    os.sc.length + data.length < fuel →
    (writeAtLoop fuel file off data os).1 ≠ .fuel ∧
    ((writeAtLoop fuel file off data os).1 = .ok →
      (writeAtLoop fuel file off data os).2.1 = writeAtFile file off data ∧
      (writeAtLoop fuel file off data os).2.2.1 = off + data.length) := by
  intro fuel
  induction fuel with
  | zero => intro file off data os h; omega
  | succ fuel ih =>
    intro file off data os hf
    unfold writeAtLoop
    by_cases hs : data.length = 0
    · simp [hs, writeAtFile]
    · simp only [hs, if_false]
      obtain ⟨r, os', hc, hl, hi, hm⟩ := call_any os ⟨3, data.length, off⟩ data.length
      rw [hc]
      cases r with
      | eintr =>
        have := hi rfl
        have h := ih file off data os' (by omega)
        simpa [hs] using h
      | err => simp
      | n m =>
        have hm' := hm m rfl
        cases m with
        | zero => simp
        | succ k =>
          simp only []
          obtain ⟨h1, h2⟩ := ih (pwriteBytes file off (data.take (k+1))) (off + (k+1)) (data.drop (k+1)) os'
            (by simp; omega)
          refine ⟨h1, fun hok => ?_⟩
          obtain ⟨h3, h4⟩ := h2 hok
          rw [h3, h4, writeAtFile_step _ _ _ _ hm']
          simp; omega

/-! ### ostream.c -/

/-- the state a complete `write_all(data)` leaves: the bytes land at the descriptor's position (a gap left by an
earlier seek whose `ftruncate` failed reads as zeros) -/
def wrRes (st : OStream) (data : Bytes) : OStream :=
  if data.length = 0 then st
  else { st with out := st.out ++ List.replicate st.skew 0 ++ data, size := st.size + data.length, skew := 0 }

theorem wrRes_step (st : OStream) (data : Bytes) (k : Nat) (hk : k + 1 ≤ data.length) :
    wrRes { st with out := st.out ++ List.replicate st.skew 0 ++ data.take (k + 1), skew := 0, size := st.size + (k + 1) }
      (data.drop (k + 1)) = wrRes st data := by
  obtain ⟨o, sz, sp, ns, sk⟩ := st
  unfold wrRes
  have hd : ¬ data.length = 0 := by omega
  simp only [hd, if_false]
  by_cases h : (data.drop (k + 1)).length = 0
  · simp only [h, if_true]
    have hl : data.length = k + 1 := by simp at h; omega
    have : data.take (k + 1) = data := List.take_of_length_le (by omega)
    rw [this, hl]
  · have hl : (data.drop (k + 1)).length = data.length - (k + 1) := by simp
    have hsz : sz + (k + 1) + (data.length - (k + 1)) = sz + data.length := by omega
    have hne : ¬ (data.length - (k + 1) = 0) := by omega
    simp only [List.replicate_zero, List.append_nil, List.append_assoc, List.take_append_drop, hl, hsz, hne, if_false]

theorem wrRes_skew0 (st : OStream) (data : Bytes) (h : st.skew = 0) :
    wrRes st data = { st with out := st.out ++ data, size := st.size + data.length } := by
  obtain ⟨o, sz, sp, ns, sk⟩ := st
  simp only at h
  subst h
  unfold wrRes
  by_cases hd : data.length = 0
  · have : data = [] := List.eq_nil_of_length_eq_zero hd
    subst this
    simp
  · simp [hd]

theorem writeAllLoop_spec : ∀ (fuel : Nat) (st : OStream) (data : Bytes) (os : OS),
    noHard os.sc = true → os.sc.length + data.length < fuel →
    ∃ os', writeAllLoop fuel st data os = (.ok, wrRes st data, os') ∧ noHard os'.sc = true := by
  intro fuel
  induction fuel with
  | zero => intro st data os _ h; omega
  | succ fuel ih =>
    intro st data os hn hf
    unfold writeAllLoop
    by_cases hs : data.length = 0
    · exact ⟨os, by simp [hs, wrRes], hn⟩
    · simp only [hs, if_false]
      rcases call_noHard os ⟨1, data.length, st.out.length⟩ data.length hn with
        ⟨os', hc, hn', hl⟩ | ⟨m, os', hc, hn', hl, hm, hpos⟩
      · rw [hc]; exact ih st data os' hn' (by omega)
      · rw [hc]
        cases m with
        | zero => omega
        | succ k =>
          simp only []
          obtain ⟨os'', h', hn''⟩ := ih { st with out := st.out ++ List.replicate st.skew 0 ++ data.take (k + 1), skew := 0, size := st.size + (k + 1) } (data.drop (k+1)) os' hn' (by simp; omega)
          exact ⟨os'', by rw [h', wrRes_step st data k hm], hn''⟩

/-- every script: the loop ends within its fuel, never touches the pending hole, and success means that exactly
the state of a complete write was reached -/
theorem writeAllLoop_any : ∀ (fuel : Nat) (st : OStream) (data : Bytes) (os : OS),
    os.sc.length + data.length < fuel →
    (writeAllLoop fuel st data os).1 ≠ .fuel ∧
    (writeAllLoop fuel st data os).2.1.sparse = st.sparse ∧
    (writeAllLoop fuel st data os).2.1.noSparse = st.noSparse ∧
    ((writeAllLoop fuel st data os).1 = .ok → (writeAllLoop fuel st data os).2.1 = wrRes st data) := by
  intro fuel
  induction fuel with
  | zero => intro st data os h; omega
  | succ fuel ih =>
    intro st data os hf
    unfold writeAllLoop
    by_cases hs : data.length = 0
    · simp [hs, wrRes]
    · simp only [hs, if_false]
      obtain ⟨r, os', hc, hl, hi, hm⟩ := call_any os ⟨1, data.length, st.out.length⟩ data.length
      rw [hc]
      cases r with
      | eintr =>
        have := hi rfl
        have h := ih st data os' (by omega)
        simpa [hs] using h
      | err => simp
      | n m =>
        have hm' := hm m rfl
        cases m with
        | zero => simp
        | succ k =>
          simp only []
          obtain ⟨h1, h2, h3, h4⟩ := ih { st with out := st.out ++ List.replicate st.skew 0 ++ data.take (k + 1), skew := 0, size := st.size + (k + 1) } (data.drop (k+1)) os' (by simp; omega)
          refine ⟨h1, h2, h3, fun hok => ?_⟩
          rw [h4 hok, wrRes_step st data k hm']

theorem writeAll_spec (st : OStream) (data : Bytes) (os : OS) (hn : noHard os.sc = true) :
    ∃ os', writeAll st data os = (.ok, wrRes st data, os') ∧ noHard os'.sc = true :=
  writeAllLoop_spec _ st data os hn (by omega)

theorem writeAll_any (st : OStream) (data : Bytes) (os : OS) :
    (writeAll st data os).1 ≠ .fuel ∧
    (writeAll st data os).2.1.sparse = st.sparse ∧
    (writeAll st data os).2.1.noSparse = st.noSparse ∧
    ((writeAll st data os).1 = .ok → (writeAll st data os).2.1 = wrRes st data) :=
  writeAllLoop_any _ st data os (by omega)

/-- what the client has appended so far: the bytes in the file, then zeros up to the descriptor's position
(`skew`, 0 unless an `ftruncate` failed), then the pending hole -/
def logical (st : OStream) : Bytes := st.out ++ List.replicate (st.skew + st.sparse) 0

theorem replicate_split (a b : Nat) (h : b ≤ a) :
    (List.replicate b 0 : Bytes) ++ List.replicate (a - b) 0 = List.replicate a 0 := by
  rw [List.replicate_append_replicate]; congr 1; omega

/-- the state the `NO_SPARSE` loop of `realize_sparse` leaves when nothing fails -/
def spRes (st : OStream) : OStream :=
  if st.sparse = 0 then st
  else { st with out := st.out ++ List.replicate st.skew 0 ++ List.replicate st.sparse 0,
                 size := st.size + st.sparse, sparse := 0, skew := 0 }

theorem spRes_step (st : OStream) (diff : Nat) (h0 : 0 < diff) (hd : diff ≤ st.sparse) :
    spRes { wrRes st (List.replicate diff 0) with sparse := (wrRes st (List.replicate diff 0)).sparse - diff } =
      spRes st := by
  obtain ⟨o, sz, sp, ns, sk⟩ := st
  simp only at hd
  have h1 : ¬ diff = 0 := by omega
  have h2 : ¬ sp = 0 := by omega
  simp only [wrRes, spRes, List.length_replicate, h1, h2, if_false]
  by_cases h3 : sp - diff = 0
  · have : diff = sp := by omega
    subst this
    simp
  · simp only [h3, if_false, List.replicate_zero, List.append_nil, List.append_assoc, replicate_split _ _ hd]
    congr 1
    omega

theorem sparseLoop_spec (bufsz : Nat) (hb : 0 < bufsz) : ∀ (fuel : Nat) (st : OStream) (os : OS),
    noHard os.sc = true → st.sparse < fuel →
    ∃ os', sparseLoop bufsz fuel st os = (.ok, spRes st, os') ∧ noHard os'.sc = true := by
  intro fuel
  induction fuel with
  | zero => intro st os _ h; omega
  | succ fuel ih =>
    intro st os hn hf
    unfold sparseLoop
    by_cases hs : st.sparse = 0
    · exact ⟨os, by simp [hs, spRes], hn⟩
    · simp only [hs, if_false]
      generalize hd : (if st.sparse > bufsz then bufsz else st.sparse) = diff
      have hd1 : 0 < diff ∧ diff ≤ st.sparse := by
        rw [← hd]; split <;> omega
      obtain ⟨os', hw, hn'⟩ := writeAll_spec st (List.replicate diff 0) os hn
      rw [hw]
      simp only []
      have hsp : (wrRes st (List.replicate diff 0)).sparse = st.sparse := by
        unfold wrRes; split <;> rfl
      obtain ⟨os'', h', hn''⟩ := ih { wrRes st (List.replicate diff 0) with sparse := (wrRes st (List.replicate diff 0)).sparse - diff } os' hn' (by simp only [hsp]; omega)
      exact ⟨os'', by rw [h', spRes_step st diff hd1.1 hd1.2], hn''⟩

theorem sparseLoop_any (bufsz : Nat) (hb : 0 < bufsz) : ∀ (fuel : Nat) (st : OStream) (os : OS),
    st.sparse < fuel →
    (sparseLoop bufsz fuel st os).1 ≠ .fuel ∧
    (sparseLoop bufsz fuel st os).2.1.noSparse = st.noSparse ∧
    ((sparseLoop bufsz fuel st os).1 = .ok → (sparseLoop bufsz fuel st os).2.1 = spRes st) := by
  intro fuel
  induction fuel with
  | zero => intro st os h; omega
  | succ fuel ih =>
    intro st os hf
    unfold sparseLoop
    by_cases hs : st.sparse = 0
    · simp [hs, spRes]
    · simp only [hs, if_false]
      generalize hd : (if st.sparse > bufsz then bufsz else st.sparse) = diff
      have hd1 : 0 < diff ∧ diff ≤ st.sparse := by
        rw [← hd]; split <;> omega
      obtain ⟨w1, w2, w3, w4⟩ := writeAll_any st (List.replicate diff 0) os
      generalize hr : writeAll st (List.replicate diff 0) os = r at *
      obtain ⟨e, st', os'⟩ := r
      cases e with
      | ok =>
        simp only []
        simp only at w2 w3 w4
        have hst : st' = wrRes st (List.replicate diff 0) := w4 trivial
        obtain ⟨h1, h2, h3⟩ := ih { st' with sparse := st'.sparse - diff } os' (by simp; omega)
        refine ⟨h1, by rw [h2]; exact w3, fun hok => ?_⟩
        rw [h3 hok, hst, spRes_step st diff hd1.1 hd1.2]
      | io => simp_all
      | oob => simp_all
      | compressor => simp_all
      | corrupted => simp_all
      | fuel => simp_all
      | nullDeref => simp_all

theorem ftruncLoop_spec : ∀ (fuel len : Nat) (os : OS), noHard os.sc = true → os.sc.length < fuel →
    ∃ os', ftruncLoop fuel len os = (.ok, os') ∧ noHard os'.sc = true := by
  intro fuel
  induction fuel with
  | zero => intro len os _ h; omega
  | succ fuel ih =>
    intro len os hn hf
    unfold ftruncLoop
    rcases call_noHard os ⟨4, len, len⟩ 1 hn with ⟨os', hc, hn', hl⟩ | ⟨m, os', hc, hn', hl, hm, hpos⟩
    · rw [hc]; exact ih len os' hn' (by omega)
    · rw [hc]; exact ⟨os', rfl, hn'⟩

theorem ftruncLoop_any : ∀ (fuel len : Nat) (os : OS), os.sc.length < fuel →
    (ftruncLoop fuel len os).1 ≠ .fuel := by
  intro fuel
  induction fuel with
  | zero => intro len os h; omega
  | succ fuel ih =>
    intro len os hf
    unfold ftruncLoop
    obtain ⟨r, os', hc, hl, hi, hm⟩ := call_any os ⟨4, len, len⟩ 1
    rw [hc]
    cases r with
    | eintr => have := hi rfl; exact ih len os' (by omega)
    | err => simp
    | n m => simp

/-- the state `realize_sparse` leaves when nothing fails -/
def realizeRes (o : OStream) : OStream :=
  if o.sparse = 0 then o
  else if o.noSparse then spRes o
  else { o with out := o.out ++ List.replicate (o.skew + o.sparse) 0, sparse := 0, skew := 0 }

theorem realizeRes_facts (o : OStream) :
    (realizeRes o).out ++ List.replicate (realizeRes o).skew 0 = logical o ∧ (realizeRes o).sparse = 0 ∧
    (realizeRes o).noSparse = o.noSparse ∧ (o.skew = 0 → (realizeRes o).skew = 0 ∧ (realizeRes o).out = logical o) := by
  obtain ⟨out, sz, sp, ns, sk⟩ := o
  unfold realizeRes spRes logical
  by_cases hs : sp = 0
  · subst hs; simp
  · cases ns <;> simp [hs, ← List.replicate_append_replicate]

/-- On a script without hard events `realize_sparse` materialises the pending hole — by writing zeros or by
`lseek`+`ftruncate`, with the same bytes in the file either way. -/
theorem realizeSparse_det (st : OStream) (os : OS) (hn : noHard os.sc = true) :
    ∃ os', realizeSparse st os = (.ok, realizeRes st, os') ∧ noHard os'.sc = true := by
  unfold realizeSparse realizeRes
  by_cases hs : st.sparse = 0
  · exact ⟨os, by simp [hs], hn⟩
  · simp only [hs, if_false]
    by_cases hf : st.noSparse = true
    · simp only [hf, if_true]
      obtain ⟨os', h, hn'⟩ := sparseLoop_spec (if st.sparse > 1024 then 1024 else st.sparse)
        (by split <;> omega) (st.sparse + 1) st os hn (by omega)
      exact ⟨os', h, hn'⟩
    · simp only [hf]
      obtain ⟨os', h, hn'⟩ := ftruncLoop_spec (os.sc.length + 1) (st.out.length + st.skew + st.sparse) os hn (by omega)
      simp only [Bool.false_eq_true, if_false, h]
      exact ⟨os', rfl, hn'⟩

theorem realizeSparse_any (st : OStream) (os : OS) :
    (realizeSparse st os).1 ≠ .fuel ∧ (realizeSparse st os).2.1.noSparse = st.noSparse ∧
    ((realizeSparse st os).1 = .ok → (realizeSparse st os).2.1 = realizeRes st) := by
  unfold realizeSparse realizeRes
  by_cases hs : st.sparse = 0
  · simp [hs]
  · simp only [hs, if_false]
    by_cases hf : st.noSparse = true
    · simp only [hf, if_true]
      have := sparseLoop_any (if st.sparse > 1024 then 1024 else st.sparse) (by split <;> omega) (st.sparse + 1) st os
        (by omega)
      rw [hf] at this
      exact this
    · simp only [hf]
      have := ftruncLoop_any (os.sc.length + 1) (st.out.length + st.skew + st.sparse) os (by omega)
      generalize ftruncLoop (os.sc.length + 1) (st.out.length + st.skew + st.sparse) os = r at *
      obtain ⟨e, os'⟩ := r
      cases e <;> simp_all

/-- the bytes an operation appends -/
def oopBytes : OOp → Bytes
  | .data d => d
  | .hole n => List.replicate n 0
  | .flush => []

theorem logical_append_hole (st : OStream) (n k : Nat) :
    logical { st with sparse := st.sparse + n, size := k } = logical st ++ List.replicate n 0 := by
  simp [logical, ← List.replicate_append_replicate, Nat.add_assoc]

/-- the state one client call leaves when nothing fails -/
def stepRes (st : OStream) : OOp → OStream
  | .hole n => { st with sparse := st.sparse + n, size := st.size + n }
  | .flush => realizeRes st
  | .data d => if d.length = 0 then { st with sparse := st.sparse + d.length, size := st.size + d.length }
               else wrRes (realizeRes st) d

theorem wrRes_facts (st : OStream) (d : Bytes) (hs : st.sparse = 0) :
    logical (wrRes st d) = logical st ++ d ∧ (wrRes st d).sparse = 0 ∧ (wrRes st d).noSparse = st.noSparse ∧
    (st.skew = 0 → (wrRes st d).skew = 0) ∧ (d.length ≠ 0 → (wrRes st d).skew = 0) := by
  obtain ⟨out, sz, sp, ns, sk⟩ := st
  simp only at hs
  subst hs
  unfold wrRes logical
  by_cases hd : d.length = 0
  · have : d = [] := List.eq_nil_of_length_eq_zero hd
    subst this
    simp
  · simp [hd]

theorem stepRes_facts (st : OStream) (op : OOp) :
    logical (stepRes st op) = logical st ++ oopBytes op ∧ (stepRes st op).noSparse = st.noSparse ∧
    (st.skew = 0 → (stepRes st op).skew = 0) ∧
    (op = .flush → (stepRes st op).sparse = 0 ∧ (st.skew = 0 → (stepRes st op).out = logical st)) := by
  obtain ⟨h1, h2, h3, h4⟩ := realizeRes_facts st
  cases op with
  | hole n => exact ⟨by simp [stepRes, logical_append_hole, oopBytes], rfl, fun h => h, by simp⟩
  | flush =>
    refine ⟨?_, h3, fun h => (h4 h).1, fun _ => ⟨h2, fun h => (h4 h).2⟩⟩
    simp only [stepRes, oopBytes, List.append_nil]
    simp only [logical, h2, Nat.add_zero]
    exact h1
  | data d =>
    simp only [stepRes, oopBytes]
    by_cases hd : d.length = 0
    · have : d = [] := List.eq_nil_of_length_eq_zero hd
      subst this
      simp [logical]
    · simp only [hd, if_false]
      obtain ⟨w1, w2, w3, w4, w5⟩ := wrRes_facts (realizeRes st) d h2
      refine ⟨?_, by rw [w3, h3], fun _ => w5 hd, by simp⟩
      rw [w1]
      congr 1
      simp only [logical, h2, Nat.add_zero]
      exact h1

theorem ostreamStep_det (st : OStream) (op : OOp) (os : OS) (hn : noHard os.sc = true) :
    ∃ os', ostreamStep st op os = (.ok, stepRes st op, os') ∧ noHard os'.sc = true := by
  cases op with
  | hole n => exact ⟨os, rfl, hn⟩
  | flush => exact realizeSparse_det st os hn
  | data d =>
    simp only [ostreamStep, fileAppend, stepRes]
    by_cases hd : d.length = 0
    · exact ⟨os, by simp [hd], hn⟩
    · simp only [hd, if_false]
      obtain ⟨os', h, hn'⟩ := realizeSparse_det st os hn
      rw [h]
      exact writeAll_spec (realizeRes st) d os' hn'

theorem ostreamStep_spec (st : OStream) (op : OOp) (os : OS) (hn : noHard os.sc = true) :
    ∃ st' os', ostreamStep st op os = (.ok, st', os') ∧ noHard os'.sc = true ∧
      logical st' = logical st ++ oopBytes op ∧ st'.noSparse = st.noSparse ∧ (st.skew = 0 → st'.skew = 0) ∧
      (op = .flush → st'.sparse = 0 ∧ (st.skew = 0 → st'.out = logical st)) := by
  obtain ⟨os', h, hn'⟩ := ostreamStep_det st op os hn
  obtain ⟨f1, f2, f3, f4⟩ := stepRes_facts st op
  exact ⟨_, os', h, hn', f1, f2, f3, f4⟩

theorem ostreamStep_any (st : OStream) (op : OOp) (os : OS) :
    (ostreamStep st op os).1 ≠ .fuel ∧ (ostreamStep st op os).2.1.noSparse = st.noSparse ∧
    ((ostreamStep st op os).1 = .ok → (ostreamStep st op os).2.1 = stepRes st op) := by
  cases op with
  | hole n => simp [ostreamStep, fileAppend, stepRes]
  | flush => exact realizeSparse_any st os
  | data d =>
    simp only [ostreamStep, fileAppend, stepRes]
    by_cases hd : d.length = 0
    · simp [hd]
    · simp only [hd, if_false]
      obtain ⟨h1, h2, h3⟩ := realizeSparse_any st os
      generalize realizeSparse st os = r at *
      obtain ⟨e, st', os'⟩ := r
      cases e with
      | ok =>
        simp only [] at h2 h3 ⊢
        have hst : st' = realizeRes st := h3 trivial
        obtain ⟨w1, w2, w3, w4⟩ := writeAll_any st' d os'
        refine ⟨w1, by rw [w3, h2], fun hok => ?_⟩
        rw [w4 hok, hst]
      | io => simp_all
      | oob => simp_all
      | compressor => simp_all
      | corrupted => simp_all
      | fuel => simp_all
      | nullDeref => simp_all

end Sqfs.IoLoops
