/-
C17 — lemmas about the export table as dir_writer.c builds it (`Sqfs/Model/C17Export.lean`): the growing array never
stores out of bounds, never exposes an indeterminate cell, and its cells below `used` are exactly the ideal table
`Sqfs.Pack.addExport`/`exportTable`; `sqfs_write_table` keeps the bytes and produces `⌈n / 8192⌉` blocks; every inode
number of a numbered tree is the root's or is passed to `add_entry` for some directory.
-/
import Sqfs.Model.C17Export
import Sqfs.Proofs.Export
import Sqfs.Proofs.MetaWriter
import Sqfs.Proofs.Numbering
namespace Sqfs.C17Export
open Sqfs.Pack

theorem growCount_ge : ∀ (f n cap : Nat), 1 ≤ n → cap ≤ f + n → cap ≤ growCount f n cap := by
  intro f
  induction f with
  | zero => intro n cap _ h; simp [growCount]; omega
  | succ f ih =>
    intro n cap hn h
    simp only [growCount]
    split
    · exact ih (n * 2) cap (by omega) (by omega)
    · omega

theorem addExport_getElem? (t : List UInt64) (n : Nat) (r : UInt64) (hn : 1 ≤ n) (i : Nat) :
    (addExport t n r)[i]? = if i = n - 1 then some r else if i < t.length then t[i]? else if i < n then some noRef else none := by
  unfold addExport
  grind

theorem setCapacity_cells (a : Arr) (c : Nat) :
    ∃ k, (setCapacity a c).cells = a.cells ++ List.replicate k none ∧ c ≤ (setCapacity a c).cells.length
      ∧ (setCapacity a c).used = a.used := by
  unfold setCapacity
  split
  · exact ⟨0, by simp, by assumption, rfl⟩
  · rename_i h
    refine ⟨_, rfl, ?_, rfl⟩
    have hg : c ≤ growCount c (if a.cells.length = 0 then 128 else a.cells.length * 2) c :=
      growCount_ge c _ c (by split <;> omega) (by omega)
    simp only [List.length_append, List.length_replicate]
    omega

/-- the cells below `used` hold exactly the ideal table -/
def Inv (a : Arr) (t : List UInt64) : Prop :=
  a.used = t.length ∧ a.used ≤ a.cells.length ∧ ∀ i, i < t.length → a.cells[i]? = some (t[i]?)

theorem init_inv : Inv init [] := by
  refine ⟨rfl, by simp [init], ?_⟩
  intro i hi; simp at hi

theorem addEntry_inv (a : Arr) (t : List UInt64) (inum : Nat) (iref : UInt64) (h : Inv a t) (hn : 1 ≤ inum) :
    ∃ a', addEntry a inum iref = .ok a' ∧ Inv a' (addExport t inum iref) := by
  obtain ⟨hu, hle, hc⟩ := h
  obtain ⟨k, hk, hcap, hused⟩ := setCapacity_cells a inum
  unfold addEntry
  simp only [show ¬ inum < 1 by omega, if_false]
  generalize setCapacity a inum = a1 at hk hcap hused
  have hl1 : a1.cells.length = a.cells.length + k := by rw [hk]; simp
  have hlen : (addExport t inum iref).length = max t.length inum := addExport_length t inum iref hn
  by_cases hge : inum - 1 ≥ a1.used
  · have hl2 : (List.take a1.used a1.cells ++ List.replicate (inum - a1.used) (some noRef) ++ List.drop inum a1.cells).length
        = a1.cells.length := by
      simp only [List.length_append, List.length_take, List.length_replicate, List.length_drop]; omega
    simp only [hge, if_true, fillFF, hcap]
    rw [if_pos (by rw [hl2]; omega)]
    refine ⟨_, rfl, ?_, ?_, ?_⟩
    · simp only [hlen]; omega
    · simp only [List.length_set, hl2]; omega
    · intro i hi
      rw [addExport_getElem? t inum iref hn i]
      have := hc i
      grind
  · simp only [hge, if_false]
    rw [if_pos (by omega)]
    refine ⟨_, rfl, ?_, ?_, ?_⟩
    · simp only [hlen]; omega
    · simp only [List.length_set]; omega
    · intro i hi
      rw [addExport_getElem? t inum iref hn i]
      have := hc i
      grind


theorem addAll_inv : ∀ (es : List (Nat × UInt64)) (a : Arr) (t : List UInt64), Inv a t → (∀ e ∈ es, 1 ≤ e.1) →
    ∃ a', addAll a es = .ok a' ∧ Inv a' (es.foldl (fun t e => addExport t e.1 e.2) t) := by
  intro es
  induction es with
  | nil => intro a t h _; exact ⟨a, rfl, h⟩
  | cons e es ih =>
    intro a t h he
    obtain ⟨n, r⟩ := e
    obtain ⟨a1, h1, i1⟩ := addEntry_inv a t n r h (he (n, r) (by simp))
    obtain ⟨a2, h2, i2⟩ := ih a1 _ i1 (fun e he' => he e (List.mem_cons_of_mem _ he'))
    exact ⟨a2, by simp only [addAll, h1, h2], by simpa using i2⟩

theorem collect_map_some (t : List UInt64) : collect (t.map some) = .ok (t.flatMap le64) := by
  induction t with
  | nil => rfl
  | cons v t ih => simp only [List.map_cons, collect, ih, List.flatMap_cons]

theorem inv_take (a : Arr) (t : List UInt64) (h : Inv a t) : a.cells.take a.used = t.map some := by
  obtain ⟨hu, hle, hc⟩ := h
  apply List.ext_getElem?
  intro i
  have := hc i
  grind

theorem tableBytes_inv (a : Arr) (t : List UInt64) (h : Inv a t) : tableBytes a = .ok (t.flatMap le64) := by
  unfold tableBytes
  rw [if_pos h.2.1, inv_take a t h, collect_map_some]

/-! ### `sqfs_write_table` on the table bytes -/
open Sqfs.MetaWriter Sqfs.Consts in
theorem chunksOf_flatten : ∀ (f : Nat) (d : MetaWriter.Bytes), d.length < f → (chunksOf f d).flatten = d := by
  intro f
  induction f with
  | zero => intro d h; omega
  | succ f ih =>
    intro d h
    simp only [chunksOf]
    split
    · rename_i he; simp [he]
    · rename_i he
      have hpos : 0 < d.length := List.length_pos_iff.mpr he
      have : (d.drop metaBlockSize).length < f := by
        simp only [List.length_drop]; have := mb_pos; omega
      rw [List.flatten_cons, ih _ this, List.take_append_drop]

theorem sum_full (l : List MetaWriter.Block) (h : ∀ b ∈ l, b.raw.length = Consts.metaBlockSize) :
    ((l.map (·.raw)).flatten).length = l.length * Consts.metaBlockSize := by
  induction l with
  | nil => simp
  | cons b l ih =>
    simp only [List.map_cons, List.flatten_cons, List.length_append, List.length_cons]
    rw [ih (fun x hx => h x (List.mem_cons_of_mem _ hx)), h b (by simp)]
    rw [Nat.add_mul]; omega

theorem locs_length (l : List MetaWriter.Block) : ∀ (acc : List Nat × Nat),
    (l.foldl (fun (acc : List Nat × Nat) b => (acc.1 ++ [acc.2], acc.2 + 2 + b.stored.length)) acc).1.length
      = acc.1.length + l.length := by
  induction l with
  | nil => intro acc; simp
  | cons b l ih => intro acc; simp only [List.foldl_cons, ih, List.length_append, List.length_cons, List.length_nil]; omega

/-- what `sqfs_write_table` makes of `data`: reading the blocks back gives `data`, there are `⌈|data| / 8192⌉`
blocks, each with its location -/
theorem writeTable_spec (cmp : MetaWriter.Codec) (data : MetaWriter.Bytes) :
    (((MetaWriter.writeTable cmp data).1.map (·.raw)).flatten = data)
    ∧ (MetaWriter.writeTable cmp data).1.length = (data.length + (Consts.metaBlockSize - 1)) / Consts.metaBlockSize
    ∧ (MetaWriter.writeTable cmp data).2.length = (MetaWriter.writeTable cmp data).1.length
    ∧ (∀ b ∈ (MetaWriter.writeTable cmp data).1, 1 ≤ b.raw.length ∧ b.raw.length ≤ Consts.metaBlockSize) := by
  obtain ⟨full, last, h1, _, h3, h4, h5, _, h7⟩ := MetaWriter.run_shape cmp (MetaWriter.chunksOf (data.length + 1) data)
  rw [chunksOf_flatten _ _ (Nat.lt_succ_self _)] at h7
  have hout : (MetaWriter.writeTable cmp data).1 = full ++ last := h1
  refine ⟨by rw [hout]; exact h7, ?_, ?_, ?_⟩
  · rw [hout]
    have hmb : Consts.metaBlockSize = 8192 := rfl
    have hfull := sum_full full h3
    rcases last with _ | ⟨b, _ | ⟨c, l⟩⟩
    · simp only [List.append_nil] at h7 ⊢
      rw [← h7, hfull, hmb]; omega
    · have hb := h5 b (by simp)
      rw [← h7, List.map_append, List.flatten_append]
      simp only [List.map_cons, List.map_nil, List.flatten_cons, List.flatten_nil, List.append_nil, List.length_append,
        List.length_cons, List.length_nil, hfull]
      rw [hmb] at hb ⊢; omega
    · simp at h4
  · unfold MetaWriter.writeTable
    simp only [locs_length]; simp
  · intro b hb
    rw [hout] at hb
    rcases List.mem_append.1 hb with hb | hb
    · rw [h3 b hb]; exact ⟨MetaWriter.mb_pos, Nat.le_refl _⟩
    · have := h5 b hb; omega


/-! ### numbered trees -/
open Sqfs.Numbering in
theorem nums_covered : (∀ t : NTree, ∀ m ∈ numsT t, m ∈ topNum t ∨ m ∈ entriesT t)
    ∧ (∀ l : List NTree, ∀ m ∈ numsL l, m ∈ entriesL l) := by
  have key : ∀ t : NTree, ∀ m ∈ numsT t, m ∈ topNum t ∨ m ∈ entriesT t := by
    intro t
    refine NTree.rec (motive_1 := fun t => ∀ m ∈ numsT t, m ∈ topNum t ∨ m ∈ entriesT t)
      (motive_2 := fun l => ∀ m ∈ numsL l, m ∈ entriesL l) ?_ ?_ ?_ ?_ ?_ t
    · intro n m hm; left; simpa [numsT, topNum] using hm
    · intro _ m hm; simp [numsT] at hm
    · intro n cs ih m hm
      simp only [numsT, List.mem_append, List.mem_singleton] at hm
      rcases hm with hm | hm
      · right; simpa [entriesT] using ih m hm
      · left; simp [topNum, hm]
    · intro m hm; simp [numsL] at hm
    · intro t r iht ihr m hm
      simp only [numsL, List.mem_append] at hm
      simp only [entriesL, List.mem_append]
      rcases hm with hm | hm
      · left; exact iht m hm
      · right; exact ihr m hm
  refine ⟨key, ?_⟩
  intro l
  induction l with
  | nil => intro m hm; simp [numsL] at hm
  | cons t r ih =>
    intro m hm
    simp only [numsL, List.mem_append] at hm
    simp only [entriesL, List.mem_append]
    rcases hm with hm | hm
    · left; exact key t m hm
    · right; exact ih m hm

end Sqfs.C17Export
