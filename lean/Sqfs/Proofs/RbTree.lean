import Sqfs.Model.RbTree
/-!
Lemmas about the model of `rbtree.c` (`Sqfs.Model.RbTree`) for C19's `rbtree_copy_equiv`:
`copyNode_spec` (what `copy_node` leaves in the store), `lookupSt_shape` (lookup over the store = lookup on the tree
value), `insert_wf` (every node made by `rbtree_insert` has the layout `copy_node` relies on).
-/
namespace Sqfs.Rb

/-- the tree value with `f` applied to every node's `data[]` -/
def Tree.mapData (f : List UInt8 → List UInt8) : Tree → Tree
  | .nil => .nil
  | .node l r o red d => .node (l.mapData f) (r.mapData f) o red (f d)

theorem Tree.mapData_depth (f : List UInt8 → List UInt8) (t : Tree) : (t.mapData f).depth = t.depth := by
  induction t with
  | nil => rfl
  | node l r o red d ihl ihr => simp [Tree.mapData, Tree.depth, ihl, ihr]

theorem copyLen_sub (c : Cfg) : copyLen c - nodeHdr = c.keyPad + c.valueSize := by
  unfold copyLen; omega

/-- a node with the layout of `mknode` is copied byte for byte -/
theorem copyData_wf (c : Cfg) (d : List UInt8) (h : d.length = c.keyPad + c.valueSize) : copyData c d = d := by
  have h1 : d.take (c.keyPad + c.valueSize) = d := List.take_of_length_le (by omega)
  simp only [copyData, copyLen_sub, h1]
  rw [← h]
  simp

theorem mapData_wf (c : Cfg) (t : Tree) (h : WfTree c t) : t.mapData (copyData c) = t := by
  induction t with
  | nil => rfl
  | node l r o red d ihl ihr =>
    obtain ⟨_, hd, hl, hr⟩ := h
    simp [Tree.mapData, ihl hl, ihr hr, copyData_wf c d hd]

/-! ### shapes -/

theorem Shape.congr {cells cells' : Nat → Option Cell} {lo hi : Nat} {p : Option Nat} {t : Tree}
    (h : Shape cells lo hi p t) (heq : ∀ i, lo ≤ i → i < hi → cells' i = cells i) : Shape cells' lo hi p t := by
  induction h with
  | nil => exact .nil
  | node h1 h2 h3 _ _ ihl ihr => exact .node h1 h2 (by rw [heq _ h1 h2]; exact h3) ihl ihr

theorem Shape.mono {cells : Nat → Option Cell} {lo hi lo' hi' : Nat} {p : Option Nat} {t : Tree}
    (h : Shape cells lo hi p t) (h1 : lo' ≤ lo) (h2 : hi ≤ hi') : Shape cells lo' hi' p t := by
  induction h with
  | nil => exact .nil
  | node a b c _ _ ihl ihr => exact .node (by omega) (by omega) c ihl ihr

theorem Shape.none_inv {cells : Nat → Option Cell} {lo hi : Nat} {t : Tree} (h : Shape cells lo hi none t) : t = .nil := by
  cases h; rfl

theorem Shape.some_inv {cells : Nat → Option Cell} {lo hi a : Nat} {t : Tree} (h : Shape cells lo hi (some a) t) :
    ∃ c l r, lo ≤ a ∧ a < hi ∧ cells a = some c ∧ Shape cells lo hi c.left l ∧ Shape cells lo hi c.right r ∧
      t = .node l r c.off c.red c.data := by
  cases h with
  | node h1 h2 h3 hl hr => exact ⟨_, _, _, h1, h2, h3, hl, hr, rfl⟩

/-- a pointer represents at most one tree value -/
theorem Shape.unique {cells : Nat → Option Cell} {lo hi lo' hi' : Nat} {p : Option Nat} {t t' : Tree}
    (h : Shape cells lo hi p t) (h' : Shape cells lo' hi' p t') : t = t' := by
  induction h generalizing t' with
  | nil => exact (Shape.none_inv h').symm
  | node _ _ h3 _ _ ihl ihr =>
    obtain ⟨c', l', r', _, _, hc', hl', hr', rfl⟩ := Shape.some_inv h'
    rw [h3] at hc'; cases hc'
    rw [ihl hl', ihr hr']

/-! ### `copy_node` -/

/-- what one call that copies a (possibly NULL) child pointer guarantees -/
def ChildOk (f : List UInt8 → List UInt8) (st : Store) (p : Option Nat) (t : Tree) (res : Option (Store × Option Nat)) : Prop :=
  ∃ st' p', res = some (st', p') ∧ st.next ≤ st'.next ∧ (∀ i, i < st.next → st'.cells i = st.cells i) ∧
    Shape st'.cells st.next st'.next p' (t.mapData f)

theorem modCell_next (st : Store) (a : Nat) (f : Cell → Cell) : (modCell st a f).next = st.next := by
  unfold modCell; split <;> rfl

theorem modCell_other (st : Store) (a : Nat) (f : Cell → Cell) (i : Nat) (h : i ≠ a) : (modCell st a f).cells i = st.cells i := by
  unfold modCell; split
  · simp [setCell, h]
  · rfl

theorem modCell_self (st : Store) (a : Nat) (f : Cell → Cell) (c : Cell) (h : st.cells a = some c) :
    (modCell st a f).cells a = some (f c) := by
  unfold modCell; rw [h]; simp [setCell]

theorem copyNode_spec (c : Cfg) : ∀ (fuel : Nat) (st : Store) (a : Nat) (t : Tree),
    Shape st.cells 0 st.next (some a) t → t.depth ≤ fuel →
    ∃ st' out, copyNode c fuel st a = some (st', out) ∧ out = st.next ∧ st.next < st'.next ∧
      (∀ i, i < st.next → st'.cells i = st.cells i) ∧
      Shape st'.cells st.next st'.next (some out) (t.mapData (copyData c)) := by
  intro fuel
  induction fuel with
  | zero =>
    intro st a t hs hd
    obtain ⟨_, _, _, _, _, _, _, _, rfl⟩ := Shape.some_inv hs
    simp [Tree.depth] at hd
  | succ fuel ih =>
    intro st a t hs hd
    obtain ⟨n, l, r, _, halt, hn, hl, hr, rfl⟩ := Shape.some_inv hs
    have hdl : l.depth ≤ fuel := by simp [Tree.depth] at hd; omega
    have hdr : r.depth ≤ fuel := by simp [Tree.depth] at hd; omega
    -- the child step, from the induction hypothesis
    have child : ∀ (s : Store) (p : Option Nat) (u : Tree), Shape s.cells 0 s.next p u → u.depth ≤ fuel →
        ChildOk (copyData c) s p u (copyChild (copyNode c fuel) s p) := by
      intro s p u hsu hdu
      cases p with
      | none =>
        rw [Shape.none_inv hsu]
        exact ⟨s, none, rfl, Nat.le_refl _, fun _ _ => rfl, .nil⟩
      | some b =>
        obtain ⟨s', out, he, ho, hlt, hfr, hsh⟩ := ih s b u hsu hdu
        exact ⟨s', some out, by simp [copyChild, he], Nat.le_of_lt hlt, hfr, hsh⟩
    -- the fresh node
    simp only [copyNode, hn, Store.alloc]
    obtain ⟨cell0, ec0⟩ : ∃ x : Cell, x = ⟨none, none, n.off, n.red, copyData c n.data⟩ := ⟨_, rfl⟩
    obtain ⟨st1, e1⟩ : ∃ s : Store, s = ⟨setCell st.cells st.next cell0, st.next + 1⟩ := ⟨_, rfl⟩
    rw [← ec0, ← e1]
    have hst1n : st1.next = st.next + 1 := by rw [e1]
    have hst1_old : ∀ i, i < st.next → st1.cells i = st.cells i := by
      intro i hi; rw [e1]; simp only [setCell]; rw [if_neg (by omega)]
    have hst1_new : st1.cells st.next = some cell0 := by rw [e1]; simp [setCell]
    -- left child
    have hl1 : Shape st1.cells 0 st1.next n.left l :=
      (hl.congr (fun i _ hi => hst1_old i hi)).mono (Nat.le_refl _) (by omega)
    obtain ⟨st2, l', he2, hn2, hfr2, hsh2⟩ := child st1 n.left l hl1 hdl
    simp only [he2]
    obtain ⟨st3, e3⟩ : ∃ s : Store, s = modCell st2 st.next fun x => { x with left := l' } := ⟨_, rfl⟩
    rw [← e3]
    have hst2_new : st2.cells st.next = some cell0 := by rw [hfr2 _ (by omega)]; exact hst1_new
    have hst3n : st3.next = st2.next := by rw [e3]; exact modCell_next _ _ _
    have hst3_old : ∀ i, i < st.next → st3.cells i = st.cells i := by
      intro i hi
      rw [e3, modCell_other _ _ _ _ (by omega), hfr2 _ (by omega)]; exact hst1_old i hi
    -- right child
    have hr3 : Shape st3.cells 0 st3.next n.right r :=
      (hr.congr (fun i _ hi => hst3_old i hi)).mono (Nat.le_refl _) (by omega)
    obtain ⟨st4, r', he4, hn4, hfr4, hsh4⟩ := child st3 n.right r hr3 hdr
    simp only [he4]
    obtain ⟨st5, e5⟩ : ∃ s : Store, s = modCell st4 st.next fun x => { x with right := r' } := ⟨_, rfl⟩
    rw [← e5]
    have hst3_new : st3.cells st.next = some { cell0 with left := l' } := by rw [e3]; exact modCell_self _ _ _ _ hst2_new
    have hst4_new : st4.cells st.next = some { cell0 with left := l' } := by rw [hfr4 _ (by omega)]; exact hst3_new
    have hst5_new : st5.cells st.next = some { cell0 with left := l', right := r' } := by
      rw [e5]; exact modCell_self _ _ _ _ hst4_new
    have hst5n : st5.next = st4.next := by rw [e5]; exact modCell_next _ _ _
    refine ⟨st5, st.next, rfl, rfl, by omega, ?_, ?_⟩
    · intro i hi
      rw [e5, modCell_other _ _ _ _ (by omega), hfr4 _ (by omega)]; exact hst3_old i hi
    · have hL : Shape st5.cells st.next st5.next l' (l.mapData (copyData c)) := by
        refine (hsh2.congr ?_).mono (by omega) (by omega)
        intro i h1 h2
        rw [e5, modCell_other _ _ _ _ (by omega), hfr4 _ (by omega), e3, modCell_other _ _ _ _ (by omega)]
      have hR : Shape st5.cells st.next st5.next r' (r.mapData (copyData c)) := by
        refine (hsh4.congr ?_).mono (by omega) (by omega)
        intro i h1 h2
        rw [e5, modCell_other _ _ _ _ (by omega)]
      have := Shape.node (cells := st5.cells) (lo := st.next) (hi := st5.next) (a := st.next)
        (c := { cell0 with left := l', right := r' }) (Nat.le_refl _) (by omega) hst5_new hL hR
      rw [ec0] at this
      simpa [Tree.mapData] using this

/-! ### lookup -/

/-- `rbtree_lookup` over the store finds what the lookup on the represented tree value finds -/
theorem lookupSt_shape (cmp : List UInt8 → List UInt8 → Ordering) (key : List UInt8) {cells : Nat → Option Cell} {lo hi : Nat} :
    ∀ (fuel : Nat) {p : Option Nat} {t : Tree}, Shape cells lo hi p t → t.depth ≤ fuel →
      lookupSt cmp cells fuel p key = t.lookup cmp key := by
  intro fuel
  induction fuel with
  | zero =>
    intro p t hs hd
    cases hs with
    | nil => simp [lookupSt, Tree.lookup]
    | node => simp [Tree.depth] at hd
  | succ fuel ih =>
    intro p t hs hd
    cases hs with
    | nil => simp [lookupSt, Tree.lookup]
    | node h1 h2 h3 hl hr =>
      have hdl := ih hl (by simp [Tree.depth] at hd; omega)
      have hdr := ih hr (by simp [Tree.depth] at hd; omega)
      simp only [lookupSt, h3, Tree.lookup]
      split <;> simp_all

/-! ### `rbtree_insert` keeps the node layout -/

theorem fit_length (n : Nat) (l : List UInt8) : (fit n l).length = n := by
  simp [fit]

theorem mknode_wf (c : Cfg) (key value : List UInt8) : WfTree c (mknode c key value) := by
  simp [mknode, WfTree, fit_length]

theorem flipOne_wf (c : Cfg) (t : Tree) (h : WfTree c t) : WfTree c (flipOne t) := by
  cases t <;> simp_all [flipOne, WfTree]

theorem flipColors_wf (c : Cfg) (t : Tree) (h : WfTree c t) : WfTree c (flipColors t) := by
  cases t with
  | nil => simp [flipColors, WfTree]
  | node l r o red d =>
    obtain ⟨h1, h2, h3, h4⟩ := h
    exact ⟨h1, h2, flipOne_wf c l h3, flipOne_wf c r h4⟩

theorem rotateRight_wf (c : Cfg) (t : Tree) (h : WfTree c t) : WfTree c (rotateRight t) := by
  unfold rotateRight
  split
  · simp_all [WfTree]
  · exact h

theorem rotateLeft_wf (c : Cfg) (t : Tree) (h : WfTree c t) : WfTree c (rotateLeft t) := by
  unfold rotateLeft
  split
  · simp_all [WfTree]
  · exact h

theorem balance_wf (c : Cfg) (t : Tree) (h : WfTree c t) : WfTree c (balance t) := by
  have h1 : WfTree c (bal1 t) := by
    unfold bal1; split
    · exact rotateLeft_wf c t h
    · exact h
  have h2 : WfTree c (bal2 (bal1 t)) := by
    unfold bal2; split
    · exact rotateRight_wf c _ h1
    · exact h1
  unfold balance bal3; split
  · exact flipColors_wf c _ h2
  · exact h2

theorem subtreeInsert_wf (c : Cfg) (lt : List UInt8 → List UInt8 → Bool) (new : Tree) (hn : WfTree c new) :
    ∀ t, WfTree c t → WfTree c (subtreeInsert lt new t) := by
  intro t
  induction t with
  | nil => intro _; exact hn
  | node l r o red d ihl ihr =>
    intro h
    obtain ⟨h1, h2, h3, h4⟩ := h
    unfold subtreeInsert
    split
    · exact balance_wf c _ ⟨h1, h2, ihl h3, h4⟩
    · exact balance_wf c _ ⟨h1, h2, h3, ihr h4⟩

theorem blacken_wf (c : Cfg) (t : Tree) (h : WfTree c t) : WfTree c (blacken t) := by
  cases t <;> simp_all [blacken, WfTree]

/-- every tree built by `rbtree_insert` from the empty tree consists of nodes with `mknode`'s layout -/
theorem insert_wf (c : Cfg) (lt : List UInt8 → List UInt8 → Bool) (t : Tree) (key value : List UInt8) (h : WfTree c t) :
    WfTree c (insert c lt t key value) :=
  blacken_wf c _ (subtreeInsert_wf c lt _ (mknode_wf c key value) t h)

/-- `rbtree_init`: the padded key size is the key size rounded up to a multiple of `sizeof(void *)` -/
theorem init_some (ks vs : Nat) (c : Cfg) (h : init ks vs = some c) :
    c.keySize = ks ∧ c.valueSize = vs ∧ c.keyPad = padOf ks := by
  unfold init at h
  simp only [] at h
  split at h; · cases h
  split at h; · cases h
  split at h; · cases h
  split at h; · cases h
  cases h; exact ⟨rfl, rfl, rfl⟩

theorem padOf_ge (ks : Nat) : ks ≤ padOf ks := by
  unfold padOf; simp only []; split <;> omega

theorem padOf_aligned (ks : Nat) : padOf ks % ptrSize = 0 := by
  have hp : 0 < ptrSize := by decide
  unfold padOf; simp only []
  split
  · rename_i h
    have h1 := Nat.mod_lt ks hp
    have h2 := Nat.div_add_mod ks ptrSize
    have : ks + (ptrSize - ks % ptrSize) = ptrSize * (ks / ptrSize + 1) := by
      rw [Nat.mul_add, Nat.mul_one]; omega
    rw [this, Nat.mul_mod_right]
  · rename_i h; simpa using h

theorem build_wf (c : Cfg) (lt : List UInt8 → List UInt8 → Bool) (kvs : List (List UInt8 × List UInt8)) : WfTree c (build c lt kvs) := by
  unfold build
  suffices h : ∀ t, WfTree c t → WfTree c (kvs.foldl (fun t kv => insert c lt t kv.1 kv.2) t) from h _ trivial
  induction kvs with
  | nil => intro t h; exact h
  | cons kv rest ih => intro t h; exact ih _ (insert_wf c lt t kv.1 kv.2 h)

/-! ### every tree value has a representation in node memory (`writeTree`) -/

theorem writeTree_spec : ∀ (t : Tree) (st : Store),
    st.next ≤ (writeTree st t).1.next ∧ (∀ i, i < st.next → (writeTree st t).1.cells i = st.cells i) ∧
    Shape (writeTree st t).1.cells st.next (writeTree st t).1.next (writeTree st t).2 t := by
  intro t
  induction t with
  | nil => intro st; exact ⟨Nat.le_refl _, fun _ _ => rfl, .nil⟩
  | node l r o red d ihl ihr =>
    intro st
    simp only [writeTree, Store.alloc]
    obtain ⟨cell0, ec0⟩ : ∃ x : Cell, x = ⟨none, none, o, red, d⟩ := ⟨_, rfl⟩
    obtain ⟨st1, e1⟩ : ∃ s : Store, s = ⟨setCell st.cells st.next cell0, st.next + 1⟩ := ⟨_, rfl⟩
    rw [← ec0, ← e1]
    have hst1n : st1.next = st.next + 1 := by rw [e1]
    have hst1_old : ∀ i, i < st.next → st1.cells i = st.cells i := by
      intro i hi; rw [e1]; simp only [setCell]; rw [if_neg (by omega)]
    have hst1_new : st1.cells st.next = some cell0 := by rw [e1]; simp [setCell]
    obtain ⟨hn2, hfr2, hsh2⟩ := ihl st1
    obtain ⟨hn3, hfr3, hsh3⟩ := ihr (writeTree st1 l).1
    generalize hw2 : writeTree st1 l = w2 at *
    obtain ⟨st2, l'⟩ := w2
    generalize hw3 : writeTree st2 r = w3 at *
    obtain ⟨st3, r'⟩ := w3
    simp only at *
    have hst3_new : st3.cells st.next = some cell0 := by rw [hfr3 _ (by omega), hfr2 _ (by omega)]; exact hst1_new
    refine ⟨by rw [modCell_next]; omega, ?_, ?_⟩
    · intro i hi
      rw [modCell_other _ _ _ _ (by omega), hfr3 _ (by omega), hfr2 _ (by omega)]; exact hst1_old i hi
    · rw [modCell_next]
      have hL : Shape (modCell st3 st.next fun x => { x with left := l', right := r' }).cells st.next st3.next l' l := by
        refine (hsh2.congr ?_).mono (by omega) (by omega)
        intro i h1 h2
        rw [modCell_other _ _ _ _ (by omega), hfr3 _ (by omega)]
      have hR : Shape (modCell st3 st.next fun x => { x with left := l', right := r' }).cells st.next st3.next r' r := by
        refine (hsh3.congr ?_).mono (by omega) (by omega)
        intro i h1 h2
        rw [modCell_other _ _ _ _ (by omega)]
      have := Shape.node (lo := st.next) (hi := st3.next) (a := st.next)
        (c := { cell0 with left := l', right := r' }) (Nat.le_refl _) (by omega)
        (modCell_self st3 st.next (fun x => { x with left := l', right := r' }) cell0 hst3_new) hL hR
      rw [ec0] at this
      simpa using this

theorem wfTreeB_iff (c : Cfg) (t : Tree) : wfTreeB c t = true ↔ WfTree c t := by
  induction t with
  | nil => simp [wfTreeB, WfTree]
  | node l r o red d ihl ihr => simp [wfTreeB, WfTree, ihl, ihr, and_assoc]

end Sqfs.Rb
