import Sqfs.Proofs.Obj
/-!
Reference-count soundness for the object heap of `Sqfs.Model.Obj`.

`Bal h U P PB Z` — heap `h` is *balanced* with respect to
* `U x`  : number of references to object `x` held by the user,
* `P`    : references held by code that is in the middle of a hook (pending `sqfs_drop`s, or references a copy
           hook has acquired for an object it has not published yet),
* `PB`   : buffers held the same way (pending `free`s / fresh allocations of a copy hook),
* `Z`    : objects whose destroy hook is running (their slots have been moved to `P`/`PB`).

Balanced means: every live object has both hooks and a reference count equal to the number of references that
exist to it (user + pending + slots of live objects); nothing refers to a dead object; every live buffer has
exactly one owner; internal pointers point into the owner's own buffers; references go to smaller ids.
-/
namespace Sqfs.Obj

/-! ### finite sums over object ids -/

def sumTo : Nat → (Nat → Nat) → Nat
  | 0, _ => 0
  | n + 1, f => sumTo n f + f n

theorem sumTo_congr {n : Nat} {f g : Nat → Nat} (h : ∀ i, i < n → f i = g i) : sumTo n f = sumTo n g := by
  induction n with
  | zero => rfl
  | succ n ih =>
    simp only [sumTo]
    rw [ih (fun i hi => h i (Nat.lt_succ_of_lt hi)), h n (Nat.lt_succ_self n)]

theorem sumTo_zero {n : Nat} {f : Nat → Nat} (h : ∀ i, i < n → f i = 0) : sumTo n f = 0 := by
  induction n with
  | zero => rfl
  | succ n ih =>
    simp only [sumTo]
    rw [ih (fun i hi => h i (Nat.lt_succ_of_lt hi)), h n (Nat.lt_succ_self n)]

/-- take one index out of the sum -/
theorem sumTo_split {n : Nat} (f : Nat → Nat) {i : Nat} (hi : i < n) :
    sumTo n f = sumTo n (fun j => if j = i then 0 else f j) + f i := by
  induction n with
  | zero => omega
  | succ n ih =>
    simp only [sumTo]
    by_cases h : i = n
    · subst h
      have : sumTo i (fun j => if j = i then 0 else f j) = sumTo i f :=
        sumTo_congr (fun j hj => by simp [Nat.ne_of_lt hj])
      simp [this]
    · have hi' : i < n := by omega
      rw [ih hi']
      have : (if n = i then 0 else f n) = f n := by simp [Ne.symm h]
      rw [this]; omega

theorem sumTo_extend {n m : Nat} {f : Nat → Nat} (hnm : n ≤ m) (h : ∀ i, n ≤ i → i < m → f i = 0) : sumTo m f = sumTo n f := by
  induction m with
  | zero => have : n = 0 := by omega
            subst this; rfl
  | succ m ih =>
    by_cases hm : n = m + 1
    · subst hm; rfl
    · have : n ≤ m := by omega
      simp only [sumTo]
      rw [ih this (fun i h1 h2 => h i h1 (by omega)), h m this (by omega)]; rfl

theorem sumTo_eq_zero_iff {n : Nat} {f : Nat → Nat} : sumTo n f = 0 ↔ ∀ i, i < n → f i = 0 := by
  induction n with
  | zero => simp [sumTo]
  | succ n ih =>
    simp only [sumTo, Nat.add_eq_zero_iff, ih]
    constructor
    · rintro ⟨h1, h2⟩ i hi
      by_cases h : i = n
      · subst h; exact h2
      · exact h1 i (by omega)
    · intro h
      exact ⟨fun i hi => h i (by omega), h n (by omega)⟩

/-! ### the invariant -/

/-- contribution of object `y` to the number of slots (selected by `sel`) holding `x` -/
def slotAt (sel : Obj → List (Option Nat)) (h : Heap) (Z : List Nat) (x y : Nat) : Nat :=
  if y ∈ Z then 0 else match h.objs y with
    | some oy => (sel oy).count (some x)
    | none => 0

/-- number of slots of live objects outside `Z` that hold `x` -/
def slotCount (sel : Obj → List (Option Nat)) (h : Heap) (Z : List Nat) (x : Nat) : Nat :=
  sumTo h.nobj (slotAt sel h Z x)

abbrev refCount := slotCount (·.refs)
abbrev bufCount := slotCount (·.bufs)

structure Bal (h : Heap) (U : Nat → Nat) (P PB Z : List Nat) : Prop where
  ok : h.crash = none
  live : ∀ x ox, h.objs x = some ox → x ∉ Z →
    ox.destroy = true ∧ ox.copy = true ∧ ox.rc = U x + P.count x + refCount h Z x ∧ 1 ≤ ox.rc ∧
    (∀ r, some r ∈ ox.refs → r < x) ∧ (∀ v, some v ∈ ox.views → some v ∈ ox.bufs)
  bound : ∀ x, (h.objs x).isSome → x < h.nobj
  dead : ∀ x, (h.objs x = none ∨ x ∈ Z) → U x = 0 ∧ P.count x = 0 ∧ refCount h Z x = 0
  bufLive : ∀ b, (h.bufs b).isSome → PB.count b + bufCount h Z b = 1
  bufDead : ∀ b, h.bufs b = none → PB.count b = 0 ∧ bufCount h Z b = 0
  bufBound : ∀ b, (h.bufs b).isSome → b < h.nbuf

/-! ### counting lemmas -/

theorem count_filterMap_id (l : List (Option Nat)) (x : Nat) : (l.filterMap id).count x = l.count (some x) := by
  induction l with
  | nil => rfl
  | cons a t ih =>
    cases a with
    | none => simp [ih]
    | some v =>
      simp only [List.filterMap_cons, id, List.count_cons, ih]
      by_cases h : v = x <;> simp [h]

theorem foldl_opt {α : Type} (f : α → Nat → α) (l : List (Option Nat)) (a : α) :
    l.foldl (fun h r => r.elim h (f h)) a = (l.filterMap id).foldl f a := by
  induction l generalizing a with
  | nil => rfl
  | cons x t ih => cases x <;> simp [List.foldl_cons, ih]

theorem slotCount_congr (sel : Obj → List (Option Nat)) {h h' : Heap} {Z Z' : List Nat} {x : Nat}
    (hn : h'.nobj = h.nobj) (hy : ∀ y, y < h.nobj → slotAt sel h' Z' x y = slotAt sel h Z x y) :
    slotCount sel h' Z' x = slotCount sel h Z x := by
  unfold slotCount; rw [hn]; exact sumTo_congr hy

/-- moving a live object into `Z` removes exactly its slots from the count -/
theorem slotCount_toZ (sel : Obj → List (Option Nat)) {h : Heap} {Z : List Nat} {x : Nat} {ox : Obj}
    (hx : h.objs x = some ox) (hz : x ∉ Z) (hb : x < h.nobj) (y : Nat) :
    slotCount sel h Z y = slotCount sel h (x :: Z) y + (sel ox).count (some y) := by
  unfold slotCount
  rw [sumTo_split (slotAt sel h Z y) hb]
  have h1 : slotAt sel h Z y x = (sel ox).count (some y) := by simp [slotAt, hz, hx]
  rw [h1]
  congr 1
  apply sumTo_congr
  intro j _
  by_cases hj : j = x
  · subst hj; simp [slotAt]
  · simp [slotAt, hj, List.mem_cons]

theorem slotAt_congr (sel : Obj → List (Option Nat)) {h h' : Heap} {Z : List Nat} {x y : Nat}
    (hm : (h'.objs y).map sel = (h.objs y).map sel) : slotAt sel h' Z x y = slotAt sel h Z x y := by
  unfold slotAt
  split
  · rfl
  · cases h1 : h.objs y <;> cases h2 : h'.objs y <;> simp_all

/-- heaps with the same object slots (reference counts may differ) count alike -/
theorem slotCount_congr' (sel : Obj → List (Option Nat)) {h h' : Heap} {Z : List Nat} (x : Nat)
    (hn : h'.nobj = h.nobj) (hm : ∀ y, (h'.objs y).map sel = (h.objs y).map sel) :
    slotCount sel h' Z x = slotCount sel h Z x :=
  slotCount_congr sel hn (fun y _ => slotAt_congr sel (hm y))

theorem Bal.mem_live {h : Heap} {U : Nat → Nat} {P PB Z : List Nat} (hb : Bal h U P PB Z) {x : Nat} (hp : x ∈ P) :
    ∃ ox, h.objs x = some ox ∧ x ∉ Z := by
  have hc : P.count x ≠ 0 := by
    have := List.count_pos_iff.mpr hp; omega
  cases hx : h.objs x with
  | none => exact absurd (hb.dead x (Or.inl hx)).2.1 hc
  | some ox =>
    refine ⟨ox, rfl, fun hz => ?_⟩
    exact absurd (hb.dead x (Or.inr hz)).2.1 hc

/-- changing the reference count of a live object together with the pending references to it -/
theorem Bal.setRc {h : Heap} {U : Nat → Nat} {x : Nat} {P P' PB Z : List Nat} {ox : Obj} {r' : Nat}
    (hb : Bal h U P PB Z) (hx : h.objs x = some ox) (hz : x ∉ Z)
    (hP : ∀ y, y ≠ x → P'.count y = P.count y)
    (hr : r' = U x + P'.count x + refCount h Z x) (h1r : 1 ≤ r') :
    Bal { h with objs := upd h.objs x (some { ox with rc := r' }) } U P' PB Z := by
  have hR' : ∀ (sel : Obj → List (Option Nat)), (∀ (o : Obj) (r : Nat), sel { o with rc := r } = sel o) → ∀ y,
      slotCount sel { h with objs := upd h.objs x (some { ox with rc := r' }) } Z y = slotCount sel h Z y := by
    intro sel hsel y
    refine slotCount_congr' (h := h) sel y rfl ?_
    intro j
    by_cases hj : j = x
    · subst hj; simp [hx, hsel]
    · simp [upd, hj]
  have hR : ∀ y, refCount { h with objs := upd h.objs x (some { ox with rc := r' }) } Z y = refCount h Z y :=
    hR' _ (fun _ _ => rfl)
  have hB : ∀ y, bufCount { h with objs := upd h.objs x (some { ox with rc := r' }) } Z y = bufCount h Z y :=
    hR' _ (fun _ _ => rfl)
  refine ⟨hb.ok, ?_, ?_, ?_, ?_, ?_, hb.bufBound⟩
  · intro y oy hy hyz
    by_cases hj : y = x
    · subst hj
      simp only [upd_same, Option.some.injEq] at hy
      subst hy
      obtain ⟨h1, h2, _, _, h5, h6⟩ := hb.live y ox hx hyz
      refine ⟨h1, h2, ?_, h1r, h5, h6⟩
      show r' = _
      rw [hR y]; exact hr
    · simp only [upd, hj, if_false] at hy
      obtain ⟨h1, h2, h3, h4, h5, h6⟩ := hb.live y oy hy hyz
      refine ⟨h1, h2, ?_, h4, h5, h6⟩
      rw [hR y, hP y hj]; exact h3
  · intro y hy
    by_cases hj : y = x
    · subst hj; exact hb.bound y (by simp [hx])
    · simp only [upd, hj, if_false] at hy; exact hb.bound y hy
  · intro y hy
    have hyx : y ≠ x := by
      rintro rfl
      rcases hy with hy | hy
      · simp at hy
      · exact hz hy
    have hy' : h.objs y = none ∨ y ∈ Z := by
      rcases hy with hy | hy
      · left; simpa [upd, hyx] using hy
      · right; exact hy
    obtain ⟨h1, h2, h3⟩ := hb.dead y hy'
    refine ⟨h1, ?_, ?_⟩
    · rw [hP y hyx]; exact h2
    · rw [hR y]; exact h3
  · intro b hbv
    rw [hB b]; exact hb.bufLive b hbv
  · intro b hbv
    rw [hB b]; exact hb.bufDead b hbv

/-- `sqfs_drop` of an object with other references left: the pending reference is consumed -/
theorem Bal.dec {h : Heap} {U : Nat → Nat} {x : Nat} {P PB Z : List Nat} {ox : Obj}
    (hb : Bal h U (x :: P) PB Z) (hx : h.objs x = some ox) (hrc : ¬ ox.rc ≤ 1) :
    Bal { h with objs := upd h.objs x (some { ox with rc := ox.rc - 1 }) } U P PB Z := by
  obtain ⟨_, _, hz⟩ := hb.mem_live (List.mem_cons_self)
  have h3 := (hb.live x ox hx hz).2.2.1
  simp only [List.count_cons_self] at h3
  exact hb.setRc hx hz (fun y hy => by rw [List.count_cons_of_ne (Ne.symm hy)]) (by omega) (by omega)

/-- `sqfs_grab`: one more pending reference -/
theorem Bal.grabbed {h : Heap} {U : Nat → Nat} {x : Nat} {P PB Z : List Nat} {ox : Obj}
    (hb : Bal h U P PB Z) (hx : h.objs x = some ox) (hz : x ∉ Z) :
    Bal (Sqfs.Obj.grab h x) U (x :: P) PB Z := by
  have h3 := (hb.live x ox hx hz).2.2.1
  have : Sqfs.Obj.grab h x = { h with objs := upd h.objs x (some { ox with rc := ox.rc + 1 }) } := by
    simp [Sqfs.Obj.grab, hb.ok, hx]
  rw [this]
  exact hb.setRc hx hz (fun y hy => by rw [List.count_cons_of_ne (Ne.symm hy)]) (by simp only [List.count_cons_self]; omega) (by omega)

theorem foldl_freeSlot (l : List (Option Nat)) (a : Heap) : l.foldl freeSlot a = (l.filterMap id).foldl freeBuf a := by
  induction l generalizing a with
  | nil => rfl
  | cons x t ih => cases x <;> simp [List.foldl_cons, freeSlot, ih]

/-- the destroy hook starts: the object's slots become pending drops / frees -/
theorem Bal.toZ {h : Heap} {U : Nat → Nat} {x : Nat} {P PB Z : List Nat} {ox : Obj}
    (hb : Bal h U (x :: P) PB Z) (hx : h.objs x = some ox) (hrc : ox.rc ≤ 1) :
    Bal h U (ox.refs.filterMap id ++ P) (ox.bufs.filterMap id ++ PB) (x :: Z) := by
  obtain ⟨_, _, hz⟩ := hb.mem_live (List.mem_cons_self)
  have hxb : x < h.nobj := hb.bound x (by simp [hx])
  obtain ⟨_, _, h3, _, h5, _⟩ := hb.live x ox hx hz
  simp only [List.count_cons_self] at h3
  have hU : U x = 0 := by omega
  have hPx : P.count x = 0 := by omega
  have hRx : refCount h Z x = 0 := by omega
  have hsplitR : ∀ y, refCount h Z y = refCount h (x :: Z) y + ox.refs.count (some y) :=
    fun y => slotCount_toZ _ hx hz hxb y
  have hsplitB : ∀ b, bufCount h Z b = bufCount h (x :: Z) b + ox.bufs.count (some b) :=
    fun b => slotCount_toZ _ hx hz hxb b
  have hself : ox.refs.count (some x) = 0 := by
    apply List.count_eq_zero.mpr
    intro hm
    exact absurd (h5 x hm) (Nat.lt_irrefl x)
  refine ⟨hb.ok, ?_, hb.bound, ?_, ?_, ?_, hb.bufBound⟩
  · intro y oy hy hyz
    simp only [List.mem_cons, not_or] at hyz
    obtain ⟨h1, h2, h3', h4, h5', h6⟩ := hb.live y oy hy hyz.2
    refine ⟨h1, h2, ?_, h4, h5', h6⟩
    rw [List.count_cons_of_ne (Ne.symm hyz.1), hsplitR y] at h3'
    rw [List.count_append, count_filterMap_id]; omega
  · intro y hy
    by_cases hyx : y = x
    · subst hyx
      refine ⟨hU, ?_, ?_⟩
      · rw [List.count_append, count_filterMap_id, hself, hPx]
      · have := hsplitR y; omega
    · have hy' : h.objs y = none ∨ y ∈ Z := by
        rcases hy with hy | hy
        · exact Or.inl hy
        · simp only [List.mem_cons] at hy
          rcases hy with hy | hy
          · exact absurd hy hyx
          · exact Or.inr hy
      obtain ⟨h1, h2, h3'⟩ := hb.dead y hy'
      rw [List.count_cons_of_ne (Ne.symm hyx)] at h2
      have := hsplitR y
      refine ⟨h1, ?_, by omega⟩
      rw [List.count_append, count_filterMap_id]; omega
  · intro b hbv
    have := hb.bufLive b hbv
    rw [hsplitB b] at this
    rw [List.count_append, count_filterMap_id]; omega
  · intro b hbv
    have := hb.bufDead b hbv
    rw [hsplitB b] at this
    rw [List.count_append, count_filterMap_id]; omega

theorem Bal.freeBuf {h : Heap} {U : Nat → Nat} {b : Nat} {P PB Z : List Nat}
    (hb : Bal h U P (b :: PB) Z) : Bal (Sqfs.Obj.freeBuf h b) U P PB Z := by
  have hlive : (h.bufs b).isSome := by
    cases hv : h.bufs b with
    | none => have := (hb.bufDead b hv).1; simp at this
    | some _ => rfl
  obtain ⟨bf, hbf⟩ := Option.isSome_iff_exists.mp hlive
  have heq : Sqfs.Obj.freeBuf h b = { h with bufs := upd h.bufs b none } := by
    simp [Sqfs.Obj.freeBuf, hb.ok, hbf]
  rw [heq]
  refine ⟨hb.ok, hb.live, hb.bound, hb.dead, ?_, ?_, ?_⟩
  · intro b' hb'
    have hne : b' ≠ b := by rintro rfl; simp at hb'
    simp only [upd, hne, if_false] at hb'
    have := hb.bufLive b' hb'
    rw [List.count_cons_of_ne (Ne.symm hne)] at this
    exact this
  · intro b' hb'
    by_cases hne : b' = b
    · subst hne
      have := hb.bufLive b' hlive
      simp only [List.count_cons_self] at this
      show PB.count b' = 0 ∧ bufCount h Z b' = 0
      omega
    · simp only [upd, hne, if_false] at hb'
      have := hb.bufDead b' hb'
      rw [List.count_cons_of_ne (Ne.symm hne)] at this
      exact this
  · intro b' hb'
    have hne : b' ≠ b := by rintro rfl; simp at hb'
    simp only [upd, hne, if_false] at hb'
    exact hb.bufBound b' hb'

theorem Bal.freeBufs {U : Nat → Nat} {P Z : List Nat} (L : List Nat) : ∀ {h : Heap} {PB : List Nat},
    Bal h U P (L ++ PB) Z → Bal (L.foldl Sqfs.Obj.freeBuf h) U P PB Z := by
  induction L with
  | nil => intro h PB hb; exact hb
  | cons b t ih => intro h PB hb; exact ih (Bal.freeBuf hb)

/-- the destroy hook ends: `free(obj)` -/
theorem Bal.freeObj {h : Heap} {U : Nat → Nat} {x : Nat} {P PB Z : List Nat}
    (hb : Bal h U P PB (x :: Z)) : Bal (Sqfs.Obj.freeObj h x) U P PB Z := by
  have heq : Sqfs.Obj.freeObj h x = { h with objs := upd h.objs x none } := by
    simp [Sqfs.Obj.freeObj, hb.ok]
  rw [heq]
  have hC : ∀ (sel : Obj → List (Option Nat)) y,
      slotCount sel { h with objs := upd h.objs x none } Z y = slotCount sel h (x :: Z) y := by
    intro sel y
    refine slotCount_congr (h := h) sel rfl ?_
    intro j _
    by_cases hj : j = x
    · subst hj; simp [slotAt]
    · simp [slotAt, upd, hj, List.mem_cons]
  refine ⟨hb.ok, ?_, ?_, ?_, ?_, ?_, hb.bufBound⟩
  · intro y oy hy hyz
    have hyx : y ≠ x := by rintro rfl; simp at hy
    simp only [upd, hyx, if_false] at hy
    have := hb.live y oy hy (by simp [List.mem_cons, hyx, hyz])
    rw [show refCount _ Z y = refCount h (x :: Z) y from hC _ y]
    exact this
  · intro y hy
    have hyx : y ≠ x := by rintro rfl; simp at hy
    simp only [upd, hyx, if_false] at hy
    exact hb.bound y hy
  · intro y hy
    rw [show refCount _ Z y = refCount h (x :: Z) y from hC _ y]
    apply hb.dead
    by_cases hyx : y = x
    · right; simp [hyx]
    · rcases hy with hy | hy
      · left; simpa [upd, hyx] using hy
      · right; simp [List.mem_cons, hy]
  · intro b hbv
    rw [show bufCount _ Z b = bufCount h (x :: Z) b from hC _ b]; exact hb.bufLive b hbv
  · intro b hbv
    rw [show bufCount _ Z b = bufCount h (x :: Z) b from hC _ b]; exact hb.bufDead b hbv

theorem drop_succ_eq (n : Nat) (h : Heap) (x : Nat) (ox : Obj) (hc : h.crash = none) (hx : h.objs x = some ox) :
    Sqfs.Obj.drop (n + 1) h x =
      if ox.rc ≤ 1 then
        (if ox.destroy then
          Sqfs.Obj.freeObj ((ox.bufs.filterMap id).foldl Sqfs.Obj.freeBuf ((ox.refs.filterMap id).foldl (Sqfs.Obj.drop n) h)) x
        else h.fail .nullHook)
      else { h with objs := upd h.objs x (some { ox with rc := ox.rc - 1 }) } := by
  rw [Sqfs.Obj.drop]
  simp only [hc, hx, foldl_opt (Sqfs.Obj.drop n), foldl_freeSlot]

/-- **`sqfs_drop` is sound on balanced heaps**: dropping a held reference never calls a NULL hook, never touches a
freed object, never frees twice, and leaves a balanced heap in which that reference is gone. -/
theorem Bal.drop : ∀ (n : Nat) {h : Heap} {U : Nat → Nat} {x : Nat} {P PB Z : List Nat},
    Bal h U (x :: P) PB Z → x < n → Bal (Sqfs.Obj.drop n h x) U P PB Z := by
  intro n
  induction n with
  | zero => intro h U x P PB Z _ hx; omega
  | succ n ih =>
    intro h U x P PB Z hb hxn
    obtain ⟨ox, hx, hz⟩ := hb.mem_live (List.mem_cons_self)
    have hlist : ∀ (L : List Nat) {h : Heap} {P PB Z : List Nat}, (∀ l ∈ L, l < n) →
        Bal h U (L ++ P) PB Z → Bal (L.foldl (Sqfs.Obj.drop n) h) U P PB Z := by
      intro L
      induction L with
      | nil => intro h P PB Z _ hb; exact hb
      | cons l t iht =>
        intro h P PB Z hl hb
        exact iht (fun l' hl' => hl l' (List.mem_cons_of_mem _ hl')) (ih hb (hl l List.mem_cons_self))
    rw [drop_succ_eq n h x ox hb.ok hx]
    by_cases hrc : ox.rc ≤ 1
    · have hd : ox.destroy = true := (hb.live x ox hx hz).1
      have h5 := (hb.live x ox hx hz).2.2.2.2.1
      simp only [hrc, if_true, hd]
      apply Bal.freeObj
      apply Bal.freeBufs
      apply hlist
      · intro l hl
        have : some l ∈ ox.refs := by
          have := List.mem_filterMap.mp hl
          obtain ⟨a, ha, hal⟩ := this
          simp only [id] at hal; subst hal; exact ha
        have := h5 l this
        omega
      · exact hb.toZ hx hrc
    · simp only [hrc, if_false]
      exact hb.dec hx hrc

/-- a list of pending drops -/
theorem Bal.dropList (n : Nat) {U : Nat → Nat} : ∀ (L : List Nat) {h : Heap} {P PB Z : List Nat}, (∀ l ∈ L, l < n) →
    Bal h U (L ++ P) PB Z → Bal (L.foldl (Sqfs.Obj.drop n) h) U P PB Z := by
  intro L
  induction L with
  | nil => intro h P PB Z _ hb; exact hb
  | cons l t iht =>
    intro h P PB Z hl hb
    exact iht (fun l' hl' => hl l' (List.mem_cons_of_mem _ hl')) (Bal.drop n hb (hl l List.mem_cons_self))

/-- `Bal` depends on the pending lists only through multiplicities -/
theorem Bal.perm {h : Heap} {U : Nat → Nat} {P P' PB PB' Z : List Nat} (hb : Bal h U P PB Z)
    (hP : ∀ x, P'.count x = P.count x) (hPB : ∀ b, PB'.count b = PB.count b) : Bal h U P' PB' Z := by
  refine ⟨hb.ok, ?_, hb.bound, ?_, ?_, ?_, hb.bufBound⟩
  · intro x ox hx hz; rw [hP x]; exact hb.live x ox hx hz
  · intro x hx; rw [hP x]; exact hb.dead x hx
  · intro b hv; rw [hPB b]; exact hb.bufLive b hv
  · intro b hv; rw [hPB b]; exact hb.bufDead b hv

/-- a reference held by the user is handed to code that is about to drop it -/
theorem Bal.userToPending {h : Heap} {U : Nat → Nat} {x : Nat} {P PB Z : List Nat} (hb : Bal h U P PB Z) (hu : 1 ≤ U x) :
    Bal h (fun y => if y = x then U x - 1 else U y) (x :: P) PB Z := by
  refine ⟨hb.ok, ?_, hb.bound, ?_, hb.bufLive, hb.bufDead, hb.bufBound⟩
  · intro y oy hy hz
    obtain ⟨h1, h2, h3, h4, h5, h6⟩ := hb.live y oy hy hz
    refine ⟨h1, h2, ?_, h4, h5, h6⟩
    by_cases hyx : y = x
    · subst hyx; simp only [if_true, List.count_cons_self]; omega
    · simp only [hyx, if_false]; rw [List.count_cons_of_ne (Ne.symm hyx)]; exact h3
  · intro y hy
    obtain ⟨h1, h2, h3⟩ := hb.dead y hy
    have hyx : y ≠ x := by rintro rfl; omega
    simp only [hyx, if_false]
    rw [List.count_cons_of_ne (Ne.symm hyx)]
    exact ⟨h1, h2, h3⟩

theorem Bal.pendingToUser {h : Heap} {U : Nat → Nat} {x : Nat} {P PB Z : List Nat} (hb : Bal h U (x :: P) PB Z) :
    Bal h (fun y => if y = x then U x + 1 else U y) P PB Z := by
  obtain ⟨ox, hx, hxz⟩ := hb.mem_live List.mem_cons_self
  refine ⟨hb.ok, ?_, hb.bound, ?_, hb.bufLive, hb.bufDead, hb.bufBound⟩
  · intro y oy hy hz
    obtain ⟨h1, h2, h3, h4, h5, h6⟩ := hb.live y oy hy hz
    refine ⟨h1, h2, ?_, h4, h5, h6⟩
    by_cases hyx : y = x
    · subst hyx; simp only [if_true, List.count_cons_self] at *; omega
    · simp only [hyx, if_false]; rw [List.count_cons_of_ne (Ne.symm hyx)] at h3; exact h3
  · intro y hy
    obtain ⟨h1, h2, h3⟩ := hb.dead y hy
    have hyx : y ≠ x := by
      rintro rfl
      rcases hy with hy | hy
      · rw [hx] at hy; cases hy
      · exact hxz hy
    simp only [hyx, if_false]
    rw [List.count_cons_of_ne (Ne.symm hyx)] at h2
    exact ⟨h1, h2, h3⟩

/-- **no leak**: when nobody holds a reference any more, a balanced heap is empty -/
theorem Bal.empty_of_no_refs {h : Heap} {U : Nat → Nat} (hb : Bal h U [] [] []) (hU : ∀ x, U x = 0) :
    (∀ x, h.objs x = none) ∧ (∀ b, h.bufs b = none) := by
  have hobj : ∀ k x, h.nobj ≤ x + k → h.objs x = none := by
    intro k
    induction k with
    | zero =>
      intro x hx
      cases hv : h.objs x with
      | none => rfl
      | some ox => have := hb.bound x (by simp [hv]); omega
    | succ k ih =>
      intro x hx
      cases hv : h.objs x with
      | none => rfl
      | some ox =>
        exfalso
        obtain ⟨_, _, h3, h4, _, _⟩ := hb.live x ox hv (by simp)
        rw [hU x] at h3
        simp only [List.count_nil, Nat.zero_add] at h3
        have hne : refCount h [] x ≠ 0 := by omega
        have : ¬ ∀ y, y < h.nobj → slotAt (·.refs) h [] x y = 0 := fun hall => hne (sumTo_eq_zero_iff.mpr hall)
        apply this
        intro y hy
        unfold slotAt
        simp only [List.not_mem_nil, if_false]
        cases hvy : h.objs y with
        | none => rfl
        | some oy =>
          simp only
          apply List.count_eq_zero.mpr
          intro hm
          have hlt := (hb.live y oy hvy (by simp)).2.2.2.2.1 x hm
          have := ih y (by omega)
          rw [hvy] at this; cases this
  refine ⟨fun x => hobj (h.nobj) x (by omega), ?_⟩
  intro b
  cases hv : h.bufs b with
  | none => rfl
  | some bf =>
    exfalso
    have := hb.bufLive b (by simp [hv])
    simp only [List.count_nil, Nat.zero_add] at this
    have hz : bufCount h [] b = 0 := by
      apply sumTo_zero
      intro y _
      unfold slotAt
      simp [hobj h.nobj y (by omega)]
    omega

/-- **every interleaving of releases is safe**: the user drops the references in `ds` (any order, any mix of
objects), never more of an object than held: no crash, and the heap stays balanced for what is still held -/
theorem Bal.dropAll (n : Nat) : ∀ (ds : List Nat) {h : Heap} {U : Nat → Nat}, Bal h U [] [] [] →
    (∀ x, ds.count x ≤ U x) → (∀ x ∈ ds, x < n) →
    Bal (ds.foldl (Sqfs.Obj.drop n) h) (fun x => U x - ds.count x) [] [] [] := by
  intro ds
  induction ds with
  | nil => intro h U hb _ _; simpa using hb
  | cons d t ih =>
    intro h U hb hc hn
    have hd : 1 ≤ U d := by have := hc d; simp only [List.count_cons_self] at this; omega
    have h1 := (hb.userToPending hd).drop n (hn d List.mem_cons_self)
    have h2 := ih h1 (by
      intro x
      have := hc x
      by_cases hx : x = d
      · subst hx; simp only [List.count_cons_self] at this; simp only [if_true]; omega
      · rw [List.count_cons_of_ne (Ne.symm hx)] at this; simp only [hx, if_false]; exact this)
      (fun x hx => hn x (List.mem_cons_of_mem _ hx))
    simp only [List.foldl_cons]
    have heq : (fun x => (if x = d then U d - 1 else U x) - t.count x) = (fun x => U x - (d :: t).count x) := by
      funext x
      by_cases hx : x = d
      · subst hx; simp only [if_true, List.count_cons_self]; omega
      · simp only [hx, if_false]; rw [List.count_cons_of_ne (Ne.symm hx)]
    rw [← heq]; exact h2

/-! ### allocation -/

theorem slotCount_bufs_only (sel : Obj → List (Option Nat)) {h : Heap} {Z : List Nat} (x : Nat) (bufs' : Nat → Option Buf) (nb : Nat) :
    slotCount sel { h with bufs := bufs', nbuf := nb } Z x = slotCount sel h Z x := rfl

/-- a fresh buffer, held by the code that allocated it -/
theorem Bal.allocBuf {h : Heap} {U : Nat → Nat} {P PB Z : List Nat} (hb : Bal h U P PB Z) (bf : Buf) :
    Bal { h with bufs := upd h.bufs h.nbuf (some bf), nbuf := h.nbuf + 1 } U P (h.nbuf :: PB) Z := by
  have hfree : h.bufs h.nbuf = none := by
    cases hv : h.bufs h.nbuf with
    | none => rfl
    | some _ => have := hb.bufBound h.nbuf (by simp [hv]); omega
  obtain ⟨hd1, hd2⟩ := hb.bufDead _ hfree
  refine ⟨hb.ok, hb.live, hb.bound, hb.dead, ?_, ?_, ?_⟩
  · intro b hv
    by_cases hbn : b = h.nbuf
    · subst hbn
      simp only [List.count_cons_self]
      show PB.count h.nbuf + 1 + bufCount h Z h.nbuf = 1
      omega
    · simp only [upd, hbn, if_false] at hv
      rw [List.count_cons_of_ne (Ne.symm hbn)]
      exact hb.bufLive b hv
  · intro b hv
    have hbn : b ≠ h.nbuf := by rintro rfl; simp at hv
    simp only [upd, hbn, if_false] at hv
    rw [List.count_cons_of_ne (Ne.symm hbn)]
    exact hb.bufDead b hv
  · intro b hv
    by_cases hbn : b = h.nbuf
    · subst hbn; show h.nbuf < h.nbuf + 1; omega
    · simp only [upd, hbn, if_false] at hv
      have := hb.bufBound b hv
      show b < h.nbuf + 1; omega

/-- publishing a new object whose slots are exactly what the allocating code holds -/
theorem Bal.allocObj {h : Heap} {U : Nat → Nat} {P PB : List Nat} {c : Obj}
    (hb : Bal h U (c.refs.filterMap id ++ P) (c.bufs.filterMap id ++ PB) [])
    (hd : c.destroy = true) (hc : c.copy = true) (hrc : c.rc = 1)
    (hr : ∀ r, some r ∈ c.refs → r < h.nobj) (hv : ∀ v, some v ∈ c.views → some v ∈ c.bufs) :
    Bal { h with objs := upd h.objs h.nobj (some c), nobj := h.nobj + 1 } U (h.nobj :: P) PB [] := by
  have hfree : h.objs h.nobj = none := by
    cases hv : h.objs h.nobj with
    | none => rfl
    | some _ => have := hb.bound h.nobj (by simp [hv]); omega
  have hC : ∀ (sel : Obj → List (Option Nat)) y,
      slotCount sel { h with objs := upd h.objs h.nobj (some c), nobj := h.nobj + 1 } [] y = slotCount sel h [] y + (sel c).count (some y) := by
    intro sel y
    show sumTo (h.nobj + 1) _ = _
    simp only [sumTo]
    congr 1
    · apply sumTo_congr
      intro j hj
      have : j ≠ h.nobj := by omega
      simp [slotAt, upd, this]
    · simp [slotAt]
  obtain ⟨hU, hPc, hRc⟩ := hb.dead _ (Or.inl hfree)
  rw [List.count_append, count_filterMap_id] at hPc
  have hself : c.refs.count (some h.nobj) = 0 := by omega
  refine ⟨hb.ok, ?_, ?_, ?_, ?_, ?_, hb.bufBound⟩
  · intro y oy hy _
    by_cases hyn : y = h.nobj
    · subst hyn
      simp only [upd_same, Option.some.injEq] at hy
      subst hy
      refine ⟨hd, hc, ?_, by omega, hr, hv⟩
      rw [show refCount _ [] h.nobj = refCount h [] h.nobj + c.refs.count (some h.nobj) from hC _ _]
      simp only [List.count_cons_self]
      have : refCount h [] h.nobj = 0 := hRc
      omega
    · simp only [upd, hyn, if_false] at hy
      obtain ⟨h1, h2, h3, h4, h5, h6⟩ := hb.live y oy hy (by simp)
      refine ⟨h1, h2, ?_, h4, h5, h6⟩
      rw [show refCount _ [] y = refCount h [] y + c.refs.count (some y) from hC _ _]
      rw [List.count_cons_of_ne (Ne.symm hyn)]
      rw [List.count_append, count_filterMap_id] at h3
      omega
  · intro y hy
    by_cases hyn : y = h.nobj
    · subst hyn; show h.nobj < h.nobj + 1; omega
    · simp only [upd, hyn, if_false] at hy
      have := hb.bound y hy
      show y < h.nobj + 1; omega
  · intro y hy
    have hyn : y ≠ h.nobj := by
      rintro rfl
      rcases hy with hy | hy
      · simp at hy
      · simp at hy
    have hy' : h.objs y = none ∨ y ∈ ([] : List Nat) := by
      rcases hy with hy | hy
      · left; simpa [upd, hyn] using hy
      · simp at hy
    obtain ⟨h1, h2, h3⟩ := hb.dead y hy'
    rw [List.count_append, count_filterMap_id] at h2
    refine ⟨h1, ?_, ?_⟩
    · rw [List.count_cons_of_ne (Ne.symm hyn)]; omega
    · rw [show refCount _ [] y = refCount h [] y + c.refs.count (some y) from hC _ _]
      have : refCount h [] y = 0 := h3
      omega
  · intro b hbv
    have := hb.bufLive b hbv
    rw [List.count_append, count_filterMap_id] at this
    rw [show bufCount _ [] b = bufCount h [] b + c.bufs.count (some b) from hC _ _]
    omega
  · intro b hbv
    have := hb.bufDead b hbv
    rw [List.count_append, count_filterMap_id] at this
    rw [show bufCount _ [] b = bufCount h [] b + c.bufs.count (some b) from hC _ _]
    omega

/-- a reference the user holds is a reference to a live object -/
theorem Bal.user_live {h : Heap} {U : Nat → Nat} {P PB Z : List Nat} (hb : Bal h U P PB Z) {x : Nat} (hu : 1 ≤ U x) :
    (h.objs x).isSome ∧ x < h.nobj := by
  cases hv : h.objs x with
  | none => have := (hb.dead x (Or.inl hv)).1; omega
  | some ox => exact ⟨rfl, hb.bound x (by simp [hv])⟩

/-- `Bal.dropAll` for `sqfsDrop` (fuel = number of object ids) -/
theorem Bal.dropAllTop : ∀ (ds : List Nat) {h : Heap} {U : Nat → Nat}, Bal h U [] [] [] →
    (∀ x, ds.count x ≤ U x) →
    Bal (ds.foldl sqfsDrop h) (fun x => U x - ds.count x) [] [] [] := by
  intro ds
  induction ds with
  | nil => intro h U hb _; simpa using hb
  | cons d t ih =>
    intro h U hb hc
    have hd : 1 ≤ U d := by have := hc d; simp only [List.count_cons_self] at this; omega
    have h1 := (hb.userToPending hd).drop h.nobj (hb.user_live hd).2
    have h2 := ih h1 (by
      intro x
      have := hc x
      by_cases hx : x = d
      · subst hx; simp only [List.count_cons_self] at this; simp only [if_true]; omega
      · rw [List.count_cons_of_ne (Ne.symm hx)] at this; simp only [hx, if_false]; exact this)
    simp only [List.foldl_cons]
    have heq : (fun x => (if x = d then U d - 1 else U x) - t.count x) = (fun x => U x - (d :: t).count x) := by
      funext x
      by_cases hx : x = d
      · subst hx; simp only [if_true, List.count_cons_self]; omega
      · simp only [hx, if_false]; rw [List.count_cons_of_ne (Ne.symm hx)]
    rw [← heq]; exact h2

end Sqfs.Obj
