/-
Helper lemmas for C09: the ticket-accounting invariant `InvA` and the wake-up invariant `InvB` of the
`Pool` model are preserved by every step (of the relation that admits spurious wake-ups, hence also by the
strict one), for any number of workers and any configuration.
-/
import Sqfs.Spec.Pool
namespace Sqfs.Pool
open List

/-! ### generic list facts -/

theorem sum_map_set {α : Type} (g : α → Nat) (l : List α) (i : Nat) (a b : α) (h : l[i]? = some a) :
    ((l.set i b).map g).sum + g a = (l.map g).sum + g b := by
  induction l generalizing i with
  | nil => simp at h
  | cons x xs ih =>
    cases i with
    | zero =>
      simp only [getElem?_cons_zero, Option.some.injEq] at h; subst h
      simp only [set_cons_zero, map_cons, sum_cons]; omega
    | succ i =>
      simp only [getElem?_cons_succ] at h
      have := ih i h
      simp only [set_cons_succ, map_cons, sum_cons]; omega

theorem count_flatMap_set {α : Type} (f : α → List Nat) (l : List α) (i : Nat) (a b : α) (t : Nat)
    (h : l[i]? = some a) :
    count t ((l.set i b).flatMap f) + count t (f a) = count t (l.flatMap f) + count t (f b) := by
  rw [count_flatMap, count_flatMap]
  exact sum_map_set (count t ∘ f) l i a b h

theorem mem_flatMap_set {α β : Type} (f : α → List β) (l : List α) (i : Nat) (b : α) (x : β)
    (h : x ∈ (l.set i b).flatMap f) : x ∈ l.flatMap f ∨ x ∈ f b := by
  rw [mem_flatMap] at h
  obtain ⟨a, ha, hx⟩ := h
  rcases mem_or_eq_of_mem_set ha with h1 | h1
  · left; exact mem_flatMap.2 ⟨a, h1, hx⟩
  · right; subst h1; exact hx

theorem flatMap_map_same {α β : Type} (f : α → List β) (g : α → α) (l : List α) (h : ∀ x, f (g x) = f x) :
    (l.map g).flatMap f = l.flatMap f := by
  rw [flatMap_map]; congr 1; funext x; exact h x

theorem count_range'_one (t a n : Nat) : count t (range' a n) = if a ≤ t ∧ t < a + n then 1 else 0 := by
  induction n generalizing a with
  | zero => simp
  | succ n ih =>
    rw [range'_succ, count_cons, ih]
    by_cases h1 : a = t
    · subst h1
      have h2 : ¬ (a + 1 ≤ a ∧ a < a + 1 + n) := by omega
      have h3 : a ≤ a ∧ a < a + (n + 1) := by omega
      simp [h2, h3]
    · have : (a == t) = false := by simp [h1]
      simp only [this]
      by_cases h2 : a + 1 ≤ t ∧ t < a + 1 + n
      · have : a ≤ t ∧ t < a + (n + 1) := by omega
        simp [h2, this]
      · have : ¬ (a ≤ t ∧ t < a + (n + 1)) := by omega
        simp [h2, this]

/-! ### projections of the state used by the invariants -/

def tks (l : List Item) : List Nat := l.map Item.ticket

def WPc.held : WPc → List Item
  | .working it => [it]
  | .finishing it _ => [it]
  | _ => []

/-- ticket held by a worker whose callback has not run yet -/
def WPc.tkW : WPc → List Nat
  | .working it => [it.ticket]
  | _ => []

/-- ticket held by a worker whose callback has run -/
def WPc.tkF : WPc → List Nat
  | .finishing it _ => [it.ticket]
  | _ => []

def heldItems (s : State) : List Item := s.workers.flatMap WPc.held
def tkW (s : State) : List Nat := s.workers.flatMap WPc.tkW
def tkF (s : State) : List Nat := s.workers.flatMap WPc.tkF

@[simp] theorem held_wakeW (pc : WPc) : (wakeW pc).held = pc.held := by cases pc <;> rfl
@[simp] theorem tkW_wakeW (pc : WPc) : (wakeW pc).tkW = pc.tkW := by cases pc <;> rfl
@[simp] theorem tkF_wakeW (pc : WPc) : (wakeW pc).tkF = pc.tkF := by cases pc <;> rfl

theorem flatMap_held_wakeAll (ws : List WPc) : (wakeAll ws).flatMap WPc.held = ws.flatMap WPc.held :=
  flatMap_map_same _ _ _ held_wakeW
theorem flatMap_tkW_wakeAll (ws : List WPc) : (wakeAll ws).flatMap WPc.tkW = ws.flatMap WPc.tkW :=
  flatMap_map_same _ _ _ tkW_wakeW
theorem flatMap_tkF_wakeAll (ws : List WPc) : (wakeAll ws).flatMap WPc.tkF = ws.flatMap WPc.tkF :=
  flatMap_map_same _ _ _ tkF_wakeW

/-! ### `store_completed` -/

theorem mem_insertDone (it x : Item) (l : List Item) : x ∈ insertDone it l ↔ x = it ∨ x ∈ l := by
  induction l with
  | nil => simp [insertDone]
  | cons h t ih =>
    unfold insertDone
    split
    · simp
    · simp [ih, or_left_comm]

theorem count_tks_insertDone (it : Item) (l : List Item) (t : Nat) :
    count t (tks (insertDone it l)) = count t (tks l) + if it.ticket = t then 1 else 0 := by
  induction l with
  | nil => simp [insertDone, tks, count_cons]
  | cons h r ih =>
    unfold insertDone
    split
    · simp [tks, count_cons]
    · simp only [tks, map_cons, count_cons] at *
      rw [ih]; omega

theorem mem_tks_insertDone (it : Item) (l : List Item) (t : Nat) :
    t ∈ tks (insertDone it l) ↔ t = it.ticket ∨ t ∈ tks l := by
  simp only [tks, mem_map, mem_insertDone]
  constructor
  · rintro ⟨x, hx | hx, rfl⟩
    · left; rw [hx]
    · right; exact ⟨x, hx, rfl⟩
  · rintro (h | ⟨x, hx, rfl⟩)
    · exact ⟨it, Or.inl rfl, h.symm⟩
    · exact ⟨x, Or.inr hx, rfl⟩

theorem sorted_insertDone (it : Item) (l : List Item) (hs : (tks l).Pairwise (· < ·))
    (hn : it.ticket ∉ tks l) : (tks (insertDone it l)).Pairwise (· < ·) := by
  induction l with
  | nil => simp [insertDone, tks]
  | cons h r ih =>
    simp only [tks, map_cons, pairwise_cons, mem_cons, not_or] at hs hn
    unfold insertDone
    split
    · rename_i hge
      have hlt : it.ticket < h.ticket := by omega
      simp only [tks, map_cons, pairwise_cons, mem_cons]
      refine ⟨?_, hs.1, hs.2⟩
      intro a ha
      rcases ha with rfl | ha
      · exact hlt
      · exact Nat.lt_trans hlt (hs.1 a ha)
    · rename_i hlt
      have ih' := ih hs.2 hn.2
      have e : tks (h :: insertDone it r) = h.ticket :: tks (insertDone it r) := rfl
      rw [e, pairwise_cons]
      refine ⟨?_, ih'⟩
      intro a ha
      rcases (mem_tks_insertDone it r a).1 ha with rfl | ha
      · omega
      · exact hs.1 a ha

/-! ### the drain loop of `submit` -/

theorem drain_spec (l : List Item) (nd : Nat) :
    l = (drain l nd).1 ++ (drain l nd).2.1 ∧
    tks (drain l nd).1 = range' nd (drain l nd).1.length ∧
    (drain l nd).2.2 = nd + (drain l nd).1.length := by
  induction l generalizing nd with
  | nil => simp [drain, tks]
  | cons it r ih =>
    unfold drain
    split
    · rename_i h
      obtain ⟨h1, h2, h3⟩ := ih (nd + 1)
      refine ⟨?_, ?_, ?_⟩
      · simp only [cons_append]; rw [← h1]
      · simp only [tks, map_cons, length_cons, range'_succ] at *
        rw [h2, h]
      · simp only [length_cons]; rw [h3]; omega
    · simp [tks]

theorem flatMap_set_same {α β : Type} (f : α → List β) (l : List α) (i : Nat) (a b : α)
    (h : l[i]? = some a) (hf : f b = f a) : (l.set i b).flatMap f = l.flatMap f := by
  induction l generalizing i with
  | nil => simp
  | cons x xs ih =>
    cases i with
    | zero =>
      simp only [getElem?_cons_zero, Option.some.injEq] at h; subst h
      simp only [set_cons_zero, flatMap_cons, hf]
    | succ i =>
      simp only [getElem?_cons_succ] at h
      simp only [set_cons_succ, flatMap_cons, ih i h]

theorem mem_flatMap_of_getElem? {α β : Type} (f : α → List β) (l : List α) (i : Nat) (a : α) (x : β)
    (h : l[i]? = some a) (hx : x ∈ f a) : x ∈ l.flatMap f :=
  mem_flatMap.2 ⟨a, mem_of_getElem? h, hx⟩

theorem count_le_flatMap {α : Type} (f : α → List Nat) (l : List α) (i : Nat) (a : α) (t : Nat)
    (h : l[i]? = some a) : count t (f a) ≤ count t (l.flatMap f) := by
  induction l generalizing i with
  | nil => simp at h
  | cons x xs ih =>
    cases i with
    | zero =>
      simp only [getElem?_cons_zero, Option.some.injEq] at h; subst h
      simp only [flatMap_cons, count_append]; omega
    | succ i =>
      simp only [getElem?_cons_succ] at h
      have h1 := ih i h
      simp only [flatMap_cons, count_append]; omega

/-! ### ticket accounting invariant -/

/-- the main thread is on the slow path of `dequeue` -/
def MPc.inDeq : MPc → Prop
  | .deqLock => True
  | .deqWait _ => True
  | _ => False

structure InvA (s : State) : Prop where
  /-- every item in the pool carries the data that was submitted under its ticket -/
  data : ∀ it, (it ∈ s.queue ∨ it ∈ s.done ∨ it ∈ s.safeDone ∨ it ∈ heldItems s) →
    s.submitted[it.ticket]? = some it.data
  ret : s.returned = s.submitted.take s.returned.length
  safe : tks s.safeDone = range' s.returned.length s.safeDone.length
  nd : s.nextDeq = s.returned.length + s.safeDone.length
  nt : s.nextTicket = s.submitted.length
  doneSorted : (tks s.done).Pairwise (· < ·)
  doneGe : ∀ t ∈ tks s.done, s.nextDeq ≤ t
  /-- every ticket issued so far is in exactly one place -/
  perm : (range s.returned.length ++ tks s.safeDone ++ tks s.done ++ tkF s ++ tkW s ++ tks s.queue).Perm
    (range s.nextTicket)
  ic : s.itemCount + s.returned.length = s.submitted.length
  mainDeq : s.main.inDeq → s.safeDone = [] ∧ s.itemCount ≠ 0
  /-- the callbacks run so far are exactly those of the tickets that are past `working` -/
  startedPerm : (s.started.map (·.2.ticket)).Perm
    (range s.returned.length ++ tks s.safeDone ++ tks s.done ++ tkF s)
  startedData : ∀ p ∈ s.started, s.submitted[p.2.ticket]? = some p.2.data

theorem invA_init (n : Nat) : InvA (init n) := by
  have hh : ∀ n, (replicate n WPc.start).flatMap WPc.held = [] := by
    intro n; induction n with
    | zero => rfl
    | succ n ih => simp [replicate_succ, WPc.held, ih]
  have hw : ∀ n, (replicate n WPc.start).flatMap WPc.tkW = [] := by
    intro n; induction n with
    | zero => rfl
    | succ n ih => simp [replicate_succ, WPc.tkW, ih]
  have hf : ∀ n, (replicate n WPc.start).flatMap WPc.tkF = [] := by
    intro n; induction n with
    | zero => rfl
    | succ n ih => simp [replicate_succ, WPc.tkF, ih]
  constructor <;> simp [init, tks, heldItems, tkW, tkF, hh, hw, hf, MPc.inDeq]

/-- changes that touch none of the fields the invariant reads -/
theorem InvA.frame {s s' : State} (h : InvA s)
    (hq : s'.queue = s.queue) (hd : s'.done = s.done) (hsd : s'.safeDone = s.safeDone)
    (hnt : s'.nextTicket = s.nextTicket) (hnd : s'.nextDeq = s.nextDeq) (hic : s'.itemCount = s.itemCount)
    (hsub : s'.submitted = s.submitted) (hst : s'.started = s.started) (hret : s'.returned = s.returned)
    (hh : heldItems s' = heldItems s) (hw : tkW s' = tkW s) (hf : tkF s' = tkF s)
    (hm : s'.main.inDeq → s.safeDone = [] ∧ s.itemCount ≠ 0) : InvA s' := by
  constructor
  all_goals simp only [hq, hd, hsd, hnt, hnd, hic, hsub, hst, hret, hh, hw, hf]
  · exact h.data
  · exact h.ret
  · exact h.safe
  · exact h.nd
  · exact h.nt
  · exact h.doneSorted
  · exact h.doneGe
  · exact h.perm
  · exact h.ic
  · exact hm
  · exact h.startedPerm
  · exact h.startedData

theorem held_nil_tk {pc : WPc} (h : pc.held = []) : pc.tkW = [] ∧ pc.tkF = [] := by
  cases pc <;> simp_all [WPc.held, WPc.tkW, WPc.tkF]

/-- `get_next_work_item` by a worker that holds no item -/
theorem InvA.getNextWork {s : State} {i : Nat} {pc : WPc} (h : InvA s) (hi : s.workers[i]? = some pc)
    (hpc : pc.held = []) : InvA (getNextWork s i) := by
  obtain ⟨hpw, hpf⟩ := held_nil_tk hpc
  unfold Sqfs.Pool.getNextWork
  split
  · exact h.frame rfl rfl rfl rfl rfl rfl rfl rfl rfl
      (flatMap_set_same _ _ _ _ _ hi (by rw [hpc]; rfl))
      (flatMap_set_same _ _ _ _ _ hi (by rw [hpw]; rfl))
      (flatMap_set_same _ _ _ _ _ hi (by rw [hpf]; rfl)) h.mainDeq
  · split
    · exact h.frame rfl rfl rfl rfl rfl rfl rfl rfl rfl
        (flatMap_set_same _ _ _ _ _ hi (by rw [hpc]; rfl))
        (flatMap_set_same _ _ _ _ _ hi (by rw [hpw]; rfl))
        (flatMap_set_same _ _ _ _ _ hi (by rw [hpf]; rfl)) h.mainDeq
    · rename_i it q hq
      have hF : tkF { s with queue := q, workers := s.workers.set i (.working it) } = tkF s :=
        flatMap_set_same _ _ _ _ _ hi (by rw [hpf]; rfl)
      have hW : ∀ t, count t (tkW { s with queue := q, workers := s.workers.set i (.working it) })
          = count t (tkW s) + count t [it.ticket] := by
        intro t
        have := count_flatMap_set WPc.tkW s.workers i pc (.working it) t hi
        rw [hpw, count_nil, Nat.add_zero] at this
        exact this
      constructor
      · intro x hx
        apply h.data
        rcases hx with hx | hx | hx | hx
        · left; rw [hq]; exact mem_cons_of_mem _ hx
        · right; left; exact hx
        · right; right; left; exact hx
        · rcases mem_flatMap_set WPc.held s.workers i _ x hx with h1 | h1
          · right; right; right; exact h1
          · left; simp only [WPc.held, mem_singleton] at h1; rw [hq, h1]; exact mem_cons_self
      · exact h.ret
      · exact h.safe
      · exact h.nd
      · exact h.nt
      · exact h.doneSorted
      · exact h.doneGe
      · refine perm_iff_count.2 fun t => ?_
        have hp := perm_iff_count.1 h.perm t
        simp only [count_append, hF, hW, hq, tks, map_cons, count_cons, count_nil] at hp ⊢
        omega
      · exact h.ic
      · exact h.mainDeq
      · rw [hF]; exact h.startedPerm
      · exact h.startedData

/-- the callback runs: `working it → finishing it rc` -/
theorem InvA.runCb {s : State} {i : Nat} {it : Item} (rc : Int) (h : InvA s)
    (hi : s.workers[i]? = some (.working it)) :
    InvA { s with workers := s.workers.set i (.finishing it rc), started := s.started ++ [(i, it)] } := by
  have hH : (s.workers.set i (.finishing it rc)).flatMap WPc.held = s.workers.flatMap WPc.held :=
    flatMap_set_same _ _ _ _ _ hi rfl
  have hW : ∀ t, count t ((s.workers.set i (.finishing it rc)).flatMap WPc.tkW) + count t [it.ticket]
      = count t (s.workers.flatMap WPc.tkW) := by
    intro t
    have := count_flatMap_set WPc.tkW s.workers i _ (.finishing it rc) t hi
    simpa [WPc.tkW] using this
  have hF : ∀ t, count t ((s.workers.set i (.finishing it rc)).flatMap WPc.tkF)
      = count t (s.workers.flatMap WPc.tkF) + count t [it.ticket] := by
    intro t
    have := count_flatMap_set WPc.tkF s.workers i _ (.finishing it rc) t hi
    simpa [WPc.tkF] using this
  have hmem : it ∈ heldItems s := mem_flatMap_of_getElem? _ _ _ _ _ hi (by simp [WPc.held])
  constructor
  · intro x hx; simp only [heldItems, hH] at hx; exact h.data x hx
  · exact h.ret
  · exact h.safe
  · exact h.nd
  · exact h.nt
  · exact h.doneSorted
  · exact h.doneGe
  · refine perm_iff_count.2 fun t => ?_
    have hp := perm_iff_count.1 h.perm t
    have h1 := hW t; have h2 := hF t
    simp only [count_append, tkW, tkF] at hp ⊢
    omega
  · exact h.ic
  · exact h.mainDeq
  · refine perm_iff_count.2 fun t => ?_
    have hp := perm_iff_count.1 h.startedPerm t
    have h2 := hF t
    simp only [count_append, map_append, map_cons, map_nil, tkF] at hp ⊢
    omega
  · intro p hp
    rcases mem_append.1 hp with hp | hp
    · exact h.startedData p hp
    · simp only [mem_singleton] at hp; subst hp
      exact h.data it (Or.inr (Or.inr (Or.inr hmem)))

theorem wakeMain_inDeq (m : MPc) : (wakeMain m).inDeq ↔ m.inDeq := by
  cases m <;> simp [wakeMain, MPc.inDeq]

/-- `store_completed`: `finishing it rc` puts `it` into `done` -/
theorem InvA.storeDone {s : State} {i : Nat} {it : Item} {rc : Int} (st : Int) (h : InvA s)
    (hi : s.workers[i]? = some (.finishing it rc)) :
    InvA { s with done := insertDone it s.done, status := st, main := wakeMain s.main,
                  workers := s.workers.set i .start } := by
  have hW : (s.workers.set i .start).flatMap WPc.tkW = s.workers.flatMap WPc.tkW :=
    flatMap_set_same _ _ _ _ _ hi rfl
  have hF : ∀ t, count t ((s.workers.set i .start).flatMap WPc.tkF) + count t [it.ticket]
      = count t (s.workers.flatMap WPc.tkF) := by
    intro t
    have := count_flatMap_set WPc.tkF s.workers i _ .start t hi
    simpa [WPc.tkF] using this
  have hmem : it ∈ heldItems s := mem_flatMap_of_getElem? _ _ _ _ _ hi (by simp [WPc.held])
  -- the ticket being stored is nowhere else
  have hcnt := perm_iff_count.1 h.perm it.ticket
  have hF0 := hF it.ticket
  simp only [count_append, count_range, count_singleton, beq_self_eq_true, if_true, tkF] at hcnt hF0
  have hsafe0 : count it.ticket (tks s.safeDone) = 0 := by grind
  have hdone0 : count it.ticket (tks s.done) = 0 := by grind
  have hret0 : ¬ it.ticket < s.returned.length := by grind
  have hnotin : it.ticket ∉ tks s.done := fun hm => by
    have := count_pos_iff.2 hm; omega
  have hge : s.nextDeq ≤ it.ticket := by
    rw [h.safe, count_range'_one] at hsafe0
    rw [h.nd]
    split at hsafe0
    · omega
    · omega
  constructor
  · intro x hx
    apply h.data
    rcases hx with hx | hx | hx | hx
    · left; exact hx
    · rcases (mem_insertDone it x s.done).1 hx with h1 | h1
      · subst h1; right; right; right; exact hmem
      · right; left; exact h1
    · right; right; left; exact hx
    · rcases mem_flatMap_set WPc.held s.workers i _ x hx with h1 | h1
      · right; right; right; exact h1
      · simp [WPc.held] at h1
  · exact h.ret
  · exact h.safe
  · exact h.nd
  · exact h.nt
  · exact sorted_insertDone it s.done h.doneSorted hnotin
  · intro t ht
    rcases (mem_tks_insertDone it s.done t).1 ht with h1 | h1
    · rw [h1]; exact hge
    · exact h.doneGe t h1
  · refine perm_iff_count.2 fun t => ?_
    have hp := perm_iff_count.1 h.perm t
    have h2 := hF t
    simp only [count_append, count_tks_insertDone, tkW, tkF, hW, count_singleton, beq_iff_eq] at hp h2 ⊢
    omega
  · exact h.ic
  · intro hm; exact h.mainDeq ((wakeMain_inDeq _).1 hm)
  · refine perm_iff_count.2 fun t => ?_
    have hp := perm_iff_count.1 h.startedPerm t
    have h2 := hF t
    simp only [count_append, count_tks_insertDone, tkF, count_singleton, beq_iff_eq] at hp h2 ⊢
    omega
  · exact h.startedData

theorem getElem?_append_some {α : Type} (l l' : List α) (i : Nat) (a : α) (h : l[i]? = some a) :
    (l ++ l')[i]? = some a := by
  obtain ⟨hl, _⟩ := List.getElem?_eq_some_iff.1 h
  rw [getElem?_append_left hl]; exact h

/-- the enqueue half of `submit` (`status == 0`) -/
theorem InvA.enqueue {s : State} (d : Nat) (h : InvA s) (hm : ¬ s.main.inDeq) :
    InvA { s with queue := s.queue ++ [⟨s.nextTicket, d⟩], nextTicket := s.nextTicket + 1,
                  itemCount := s.itemCount + 1, submitted := s.submitted ++ [d] } := by
  constructor
  · intro x hx
    rcases hx with hx | hx | hx | hx
    · rcases mem_append.1 hx with h1 | h1
      · exact getElem?_append_some _ _ _ _ (h.data x (Or.inl h1))
      · simp only [mem_singleton] at h1; subst h1
        simp [h.nt]
    · exact getElem?_append_some _ _ _ _ (h.data x (Or.inr (Or.inl hx)))
    · exact getElem?_append_some _ _ _ _ (h.data x (Or.inr (Or.inr (Or.inl hx))))
    · exact getElem?_append_some _ _ _ _ (h.data x (Or.inr (Or.inr (Or.inr hx))))
  · have hle : s.returned.length ≤ s.submitted.length := by have := h.ic; omega
    show s.returned = (s.submitted ++ [d]).take s.returned.length
    rw [take_append_of_le_length hle]; exact h.ret
  · exact h.safe
  · exact h.nd
  · show s.nextTicket + 1 = (s.submitted ++ [d]).length
    rw [length_append, h.nt]; rfl
  · exact h.doneSorted
  · exact h.doneGe
  · refine perm_iff_count.2 fun t => ?_
    have hp := perm_iff_count.1 h.perm t
    simp only [count_append, tks, map_append, map_cons, map_nil, count_singleton, count_range, beq_iff_eq,
      tkW, tkF] at hp ⊢
    grind
  · have := h.ic
    show s.itemCount + 1 + s.returned.length = (s.submitted ++ [d]).length
    rw [length_append]; simp; omega
  · intro hx; exact absurd hx hm
  · exact h.startedPerm
  · intro p hp; exact getElem?_append_some _ _ _ _ (h.startedData p hp)

/-- the `try_dequeue_done → safe_done` loop of `submit` -/
theorem InvA.drain {s : State} (h : InvA s) (hm : ¬ s.main.inDeq) :
    InvA { s with done := (drain s.done s.nextDeq).2.1, safeDone := s.safeDone ++ (drain s.done s.nextDeq).1,
                  nextDeq := (drain s.done s.nextDeq).2.2 } := by
  obtain ⟨hsplit, hmv, hnd⟩ := drain_spec s.done s.nextDeq
  generalize (Sqfs.Pool.drain s.done s.nextDeq).1 = mv at *
  generalize (Sqfs.Pool.drain s.done s.nextDeq).2.1 = rest at *
  generalize (Sqfs.Pool.drain s.done s.nextDeq).2.2 = nd' at *
  have htk : tks s.done = tks mv ++ tks rest := by rw [hsplit]; simp [tks]
  have hsorted := h.doneSorted
  rw [htk, pairwise_append] at hsorted
  constructor
  · intro x hx
    apply h.data
    rcases hx with hx | hx | hx | hx
    · left; exact hx
    · right; left; rw [hsplit]; exact mem_append_right _ hx
    · rcases mem_append.1 hx with h1 | h1
      · right; right; left; exact h1
      · right; left; rw [hsplit]; exact mem_append_left _ h1
    · right; right; right; exact hx
  · exact h.ret
  · show tks (s.safeDone ++ mv) = range' s.returned.length (s.safeDone ++ mv).length
    have : tks (s.safeDone ++ mv) = tks s.safeDone ++ tks mv := by simp [tks]
    rw [this, h.safe, hmv, h.nd, length_append]
    have := @range'_append s.returned.length s.safeDone.length mv.length 1
    rw [Nat.one_mul] at this; exact this
  · show nd' = s.returned.length + (s.safeDone ++ mv).length
    rw [hnd, h.nd, length_append]; omega
  · exact h.nt
  · exact hsorted.2.1
  · intro t ht
    show nd' ≤ t
    have h1 : s.nextDeq ≤ t := h.doneGe t (by rw [htk]; exact mem_append_right _ ht)
    have h2 : t ∉ tks mv := fun hmem => by
      have := hsorted.2.2 t hmem t ht; omega
    rw [hmv] at h2
    have h3 : count t (range' s.nextDeq mv.length) = 0 := by
      rcases Nat.eq_zero_or_pos (count t (range' s.nextDeq mv.length)) with h0 | h0
      · exact h0
      · exact absurd (count_pos_iff.1 h0) h2
    rw [count_range'_one] at h3
    rw [hnd]
    grind
  · refine perm_iff_count.2 fun t => ?_
    have hp := perm_iff_count.1 h.perm t
    have e1 : tks (s.safeDone ++ mv) = tks s.safeDone ++ tks mv := by simp [tks]
    simp only [count_append, htk, e1, tkW, tkF] at hp ⊢
    omega
  · exact h.ic
  · intro hx; exact absurd hx hm
  · refine perm_iff_count.2 fun t => ?_
    have hp := perm_iff_count.1 h.startedPerm t
    have e1 : tks (s.safeDone ++ mv) = tks s.safeDone ++ tks mv := by simp [tks]
    simp only [count_append, htk, e1, tkF] at hp ⊢
    omega
  · exact h.startedData

theorem take_succ_of_getElem? {α : Type} (l : List α) (k : Nat) (a : α) (h : l[k]? = some a) :
    l.take (k + 1) = l.take k ++ [a] := by
  rw [take_add_one, h]; rfl

/-- `dequeue`, fast path: pop the head of `safe_done` -/
theorem InvA.deqFast {s : State} {it : Item} {r : List Item} (c : List Op) (h : InvA s) (hs : s.safeDone = it :: r)
    (hic : s.itemCount ≠ 0) : InvA (deqReturn { s with safeDone := r, calls := c } it) := by
  have hsafe := h.safe
  rw [hs] at hsafe
  simp only [tks, map_cons, length_cons, range'_succ, cons.injEq] at hsafe
  obtain ⟨htk, hrest⟩ := hsafe
  have hdata := h.data it (Or.inr (Or.inr (Or.inl (by rw [hs]; exact mem_cons_self))))
  rw [htk] at hdata
  have hnd := h.nd
  rw [hs] at hnd
  simp only [length_cons] at hnd
  constructor
  · intro x hx
    apply h.data
    rcases hx with hx | hx | hx | hx
    · left; exact hx
    · right; left; exact hx
    · right; right; left; rw [hs]; exact mem_cons_of_mem _ hx
    · right; right; right; exact hx
  · show s.returned ++ [it.data] = s.submitted.take (s.returned ++ [it.data]).length
    rw [length_append, length_singleton, take_succ_of_getElem? _ _ _ hdata, ← h.ret]
  · show tks r = range' (s.returned ++ [it.data]).length r.length
    rw [length_append, length_singleton]; exact hrest
  · show s.nextDeq = (s.returned ++ [it.data]).length + r.length
    rw [length_append, length_singleton]; omega
  · exact h.nt
  · exact h.doneSorted
  · exact h.doneGe
  · refine perm_iff_count.2 fun t => ?_
    have hp := perm_iff_count.1 h.perm t
    show count t (range (s.returned ++ [it.data]).length ++ tks r ++ tks s.done ++ tkF s ++ tkW s ++ tks s.queue)
      = count t (range s.nextTicket)
    rw [length_append, length_singleton]
    simp only [count_append, hs, tks, map_cons, count_cons, count_range, beq_iff_eq, htk] at hp ⊢
    grind
  · have := h.ic
    show s.itemCount - 1 + (s.returned ++ [it.data]).length = s.submitted.length
    rw [length_append, length_singleton]; omega
  · intro hx; exact absurd hx (by simp [deqReturn, MPc.inDeq])
  · refine perm_iff_count.2 fun t => ?_
    have hp := perm_iff_count.1 h.startedPerm t
    show count t (map (fun x => x.2.ticket) s.started)
      = count t (range (s.returned ++ [it.data]).length ++ tks r ++ tks s.done ++ tkF s)
    rw [length_append, length_singleton]
    simp only [count_append, hs, tks, map_cons, count_cons, count_range, beq_iff_eq, htk] at hp ⊢
    grind
  · exact h.startedData

/-- `dequeue`, slow path: `try_dequeue_done` succeeds -/
theorem InvA.deqPop {s : State} {it : Item} {r : List Item} (h : InvA s) (hd : s.done = it :: r)
    (ht : it.ticket = s.nextDeq) (hm : s.main.inDeq) :
    InvA (deqReturn { s with done := r, nextDeq := s.nextDeq + 1 } it) := by
  obtain ⟨hsd, hic⟩ := h.mainDeq hm
  have hnd := h.nd
  rw [hsd] at hnd
  simp only [length_nil, Nat.add_zero] at hnd
  have hdata := h.data it (Or.inr (Or.inl (by rw [hd]; exact mem_cons_self)))
  rw [ht, hnd] at hdata
  have hsorted := h.doneSorted
  rw [hd] at hsorted
  simp only [tks, map_cons, pairwise_cons] at hsorted
  constructor
  · intro x hx
    apply h.data
    rcases hx with hx | hx | hx | hx
    · left; exact hx
    · right; left; rw [hd]; exact mem_cons_of_mem _ hx
    · right; right; left; exact hx
    · right; right; right; exact hx
  · show s.returned ++ [it.data] = s.submitted.take (s.returned ++ [it.data]).length
    rw [length_append, length_singleton, take_succ_of_getElem? _ _ _ hdata, ← h.ret]
  · show tks s.safeDone = range' (s.returned ++ [it.data]).length s.safeDone.length
    rw [hsd]; rfl
  · show s.nextDeq + 1 = (s.returned ++ [it.data]).length + s.safeDone.length
    rw [length_append, length_singleton, hsd, hnd]; rfl
  · exact h.nt
  · exact hsorted.2
  · intro t htm
    show s.nextDeq + 1 ≤ t
    have := hsorted.1 t htm
    omega
  · refine perm_iff_count.2 fun t => ?_
    have hp := perm_iff_count.1 h.perm t
    show count t (range (s.returned ++ [it.data]).length ++ tks s.safeDone ++ tks r ++ tkF s ++ tkW s ++ tks s.queue)
      = count t (range s.nextTicket)
    rw [length_append, length_singleton]
    simp only [count_append, hd, hsd, tks, map_cons, map_nil, count_nil, count_cons, count_range, beq_iff_eq,
      ht, hnd] at hp ⊢
    grind
  · have := h.ic
    show s.itemCount - 1 + (s.returned ++ [it.data]).length = s.submitted.length
    rw [length_append, length_singleton]; omega
  · intro hx; exact absurd hx (by simp [deqReturn, MPc.inDeq])
  · refine perm_iff_count.2 fun t => ?_
    have hp := perm_iff_count.1 h.startedPerm t
    show count t (map (fun x => x.2.ticket) s.started)
      = count t (range (s.returned ++ [it.data]).length ++ tks s.safeDone ++ tks r ++ tkF s)
    rw [length_append, length_singleton]
    simp only [count_append, hd, hsd, tks, map_cons, map_nil, count_nil, count_cons, count_range, beq_iff_eq,
      ht, hnd] at hp ⊢
    grind
  · exact h.startedData

theorem getElem?_set_self' {α : Type} (l : List α) (i : Nat) (a b : α) (h : l[i]? = some a) :
    (l.set i b)[i]? = some b := by
  obtain ⟨hl, _⟩ := List.getElem?_eq_some_iff.1 h
  rw [getElem?_set]; simp [hl]

theorem invA_stepWorker (cfg : Cfg) {s s' : State} (i : Nat) (spur : Bool) (h : InvA s)
    (hs : stepWorker cfg s i spur = some s') : InvA s' := by
  unfold stepWorker at hs
  split at hs
  · simp at hs
  · rename_i hi
    split at hs
    · simp at hs
    · simp only [Option.some.injEq] at hs; subst hs
      exact h.getNextWork hi rfl
  · rename_i sig hi
    split at hs
    · simp only [Option.some.injEq] at hs; subst hs
      exact h.getNextWork hi rfl
    · simp at hs
  · rename_i it hi
    split at hs
    · simp at hs
    · simp only [Option.some.injEq] at hs; subst hs
      exact h.runCb _ hi
  · rename_i it rc hi
    split at hs
    · simp at hs
    · simp only [Option.some.injEq] at hs; subst hs
      exact (h.storeDone _ hi).getNextWork (pc := .start) (getElem?_set_self' _ _ _ _ hi) rfl
  · simp at hs

theorem invA_submitBody {s : State} (d : Nat) (h : InvA s) (hm : ¬ s.main.inDeq) : InvA (submitBody s d) := by
  unfold submitBody
  by_cases hst : s.status = 0
  · simp only [hst, if_true]
    have h1 := (h.enqueue d hm).drain hm
    exact h1.frame rfl rfl rfl rfl rfl rfl rfl rfl rfl
      (flatMap_held_wakeAll _) (flatMap_tkW_wakeAll _) (flatMap_tkF_wakeAll _)
      (fun hx => absurd hx (by simp [MPc.inDeq]))
  · simp only [hst, if_false]
    have h1 := h.drain hm
    exact h1.frame rfl rfl rfl rfl rfl rfl rfl rfl rfl
      (flatMap_held_wakeAll _) (flatMap_tkW_wakeAll _) (flatMap_tkF_wakeAll _)
      (fun hx => absurd hx (by simp [MPc.inDeq]))

theorem invA_deqTry (cfg : Cfg) {s : State} (h : InvA s) (hm : s.main.inDeq) : InvA (deqTry cfg s) := by
  have hwait : InvA (deqWaitOrNull cfg s) := by
    unfold deqWaitOrNull
    split
    · exact h.frame rfl rfl rfl rfl rfl rfl rfl rfl rfl rfl rfl rfl (fun hx => absurd hx (by simp [MPc.inDeq]))
    · exact h.frame rfl rfl rfl rfl rfl rfl rfl rfl rfl rfl rfl rfl (fun _ => h.mainDeq hm)
  unfold deqTry
  split
  · exact hwait
  · rename_i it r hd
    split
    · rename_i ht
      exact h.deqPop hd ht hm
    · exact hwait

theorem invA_stepMain (cfg : Cfg) {s s' : State} (c : MChoice) (h : InvA s)
    (hs : stepMain cfg s c = some s') : InvA s' := by
  unfold stepMain at hs
  split at hs
  · -- idle, submit
    simp only [Option.some.injEq] at hs; subst hs
    exact h.frame rfl rfl rfl rfl rfl rfl rfl rfl rfl rfl rfl rfl (fun hx => absurd hx (by simp [MPc.inDeq]))
  · -- idle, dequeue
    rename_i hmain
    split at hs
    · simp only [Option.some.injEq] at hs; subst hs
      exact h.frame rfl rfl rfl rfl rfl rfl rfl rfl rfl rfl rfl rfl
        (fun hx => absurd hx (by simp [hmain, MPc.inDeq]))
    · rename_i hic
      split at hs
      · rename_i it r hsd
        simp only [Option.some.injEq] at hs; subst hs
        exact h.deqFast _ hsd hic
      · rename_i hsd
        simp only [Option.some.injEq] at hs; subst hs
        exact h.frame rfl rfl rfl rfl rfl rfl rfl rfl rfl rfl rfl rfl (fun _ => ⟨hsd, hic⟩)
  · simp only [Option.some.injEq] at hs; subst hs
    exact h.frame rfl rfl rfl rfl rfl rfl rfl rfl rfl rfl rfl rfl (fun hx => absurd hx (by simp [MPc.inDeq]))
  · simp only [Option.some.injEq] at hs; subst hs
    exact h.frame rfl rfl rfl rfl rfl rfl rfl rfl rfl rfl rfl rfl (fun hx => absurd hx (by simp [MPc.inDeq]))
  · -- submitLock
    rename_i d hmain
    simp only [Option.some.injEq] at hs; subst hs
    exact invA_submitBody d h (by simp [hmain, MPc.inDeq])
  · -- deqLock
    rename_i hmain
    simp only [Option.some.injEq] at hs; subst hs
    exact invA_deqTry cfg h (by simp [hmain, MPc.inDeq])
  · -- deqWait
    rename_i sig spur hmain
    split at hs
    · simp only [Option.some.injEq] at hs; subst hs
      exact invA_deqTry cfg h (by simp [hmain, MPc.inDeq])
    · simp at hs
  · simp only [Option.some.injEq] at hs; subst hs
    exact h.frame rfl rfl rfl rfl rfl rfl rfl rfl rfl rfl rfl rfl (fun hx => absurd hx (by simp [MPc.inDeq]))
  · -- destroyLock
    simp only [Option.some.injEq] at hs; subst hs
    refine h.frame rfl rfl rfl rfl rfl rfl rfl rfl rfl
      (flatMap_held_wakeAll _) (flatMap_tkW_wakeAll _) (flatMap_tkF_wakeAll _) ?_
    intro hx; exfalso; revert hx
    show ¬ (if s.workers.length = 0 then MPc.finished else MPc.join 0).inDeq
    split <;> simp [MPc.inDeq]
  · -- join
    split at hs
    · split at hs
      · simp only [Option.some.injEq] at hs; subst hs
        exact h.frame rfl rfl rfl rfl rfl rfl rfl rfl rfl rfl rfl rfl (fun hx => absurd hx (by simp [MPc.inDeq]))
      · simp only [Option.some.injEq] at hs; subst hs
        exact h.frame rfl rfl rfl rfl rfl rfl rfl rfl rfl rfl rfl rfl (fun hx => absurd hx (by simp [MPc.inDeq]))
    · simp at hs
  · simp at hs

theorem invA_step (cfg : Cfg) {s s' : State} (c : Choice) (h : InvA s) (hs : step cfg s c = some s') :
    InvA s' := by
  cases c with
  | main c => exact invA_stepMain cfg c h hs
  | worker i spur => exact invA_stepWorker cfg i spur h hs

theorem invA_reachable {cfg : Cfg} {n : Nat} {s : State} (hr : Reachable cfg n s) : InvA s := by
  induction hr with
  | init => exact invA_init n
  | step c _ hs ih => exact invA_step cfg c ih hs

/-! ### wake-up invariant (no lost wake-up) -/

theorem getElem?_set_cases {α : Type} (l : List α) (i j : Nat) (a b : α) (h : (l.set i a)[j]? = some b) :
    (i = j ∧ b = a) ∨ (i ≠ j ∧ l[j]? = some b) := by
  rw [getElem?_set] at h
  by_cases hij : i = j
  · left
    simp only [hij, if_true] at h
    split at h
    · simp only [Option.some.injEq] at h; exact ⟨hij, h.symm⟩
    · simp at h
  · right
    simp only [hij, if_false] at h
    exact ⟨hij, h⟩

/-- the main thread has passed the lock of `destroy` -/
def MPc.inJoin : MPc → Prop
  | .join _ => True
  | .finished => True
  | _ => False

structure InvB (cfg : Cfg) (s : State) : Prop where
  /-- a worker that waits on `queue_cond` without having been signalled has nothing to do: the queue is empty
  and `destroy` has not yet taken the lock (every `submit` and `destroy` broadcasts) -/
  waitQ : ∀ i : Nat, s.workers[i]? = some (WPc.waitQ false) → s.queue = [] ∧ ¬ s.main.inJoin
  /-- a worker only exits after the status became non-zero -/
  exited : ∀ i : Nat, s.workers[i]? = some WPc.exited → s.status ≠ 0
  joinSt : s.main.inJoin → s.status ≠ 0
  joinLt : ∀ j, s.main = .join j → j < s.workers.length
  /-- the main thread waits on `done_cond` unsignalled only while nothing is dequeuable (every
  `store_completed` broadcasts) and — repaired code — the status is still zero -/
  deqWait : s.main = .deqWait false →
    (∀ it r, s.done = it :: r → it.ticket ≠ s.nextDeq) ∧ (cfg.repaired = true → s.status = 0)

theorem invB_init (cfg : Cfg) (n : Nat) : InvB cfg (init n) := by
  constructor
  · intro i hi
    simp only [init, getElem?_replicate] at hi
    split at hi <;> simp at hi
  · intro i hi
    simp only [init, getElem?_replicate] at hi
    split at hi <;> simp at hi
  · intro h; simp [init, MPc.inJoin] at h
  · intro j h; simp [init] at h
  · intro h; simp [init] at h

theorem wakeMain_inJoin (m : MPc) : (wakeMain m).inJoin ↔ m.inJoin := by
  cases m <;> simp [wakeMain, MPc.inJoin]

theorem getElem?_wakeAll_ne (ws : List WPc) (j : Nat) : (wakeAll ws)[j]? ≠ some (.waitQ false) := by
  simp only [wakeAll, getElem?_map]
  cases ws[j]? with
  | none => simp
  | some pc => cases pc <;> simp [wakeW]

theorem getElem?_wakeAll_exited (ws : List WPc) (j : Nat) (h : (wakeAll ws)[j]? = some .exited) :
    ws[j]? = some .exited := by
  simp only [wakeAll, getElem?_map] at h
  cases hj : ws[j]? with
  | none => simp [hj] at h
  | some pc => cases pc <;> simp_all [wakeW]

/-- main-thread moves that change neither workers nor queue/done/status/next_dequeue_ticket -/
theorem InvB.frameMain {cfg : Cfg} {s s' : State} (h : InvB cfg s)
    (hw : s'.workers = s.workers) (hq : s'.queue = s.queue) (hst : s'.status = s.status)
    (hj : ¬ s'.main.inJoin) (hdw : s'.main ≠ .deqWait false) : InvB cfg s' := by
  constructor
  · intro i hi; rw [hw] at hi; rw [hq]; exact ⟨(h.waitQ i hi).1, hj⟩
  · intro i hi; rw [hw] at hi; rw [hst]; exact h.exited i hi
  · intro hx; exact absurd hx hj
  · intro j hx; exact absurd (by rw [hx]; trivial) hj
  · intro hx; exact absurd hx hdw

theorem InvB.getNextWork {cfg : Cfg} {s : State} {i : Nat} (h : InvB cfg s) (_hlt : i < s.workers.length) :
    InvB cfg (getNextWork s i) := by
  unfold Sqfs.Pool.getNextWork
  split
  · rename_i hst
    constructor
    · intro j hj
      rcases getElem?_set_cases _ _ _ _ _ hj with ⟨_, hb⟩ | ⟨_, hj⟩
      · simp at hb
      · exact h.waitQ j hj
    · intro j _; exact hst
    · exact h.joinSt
    · intro j hj; simp only [length_set]; exact h.joinLt j hj
    · exact h.deqWait
  · rename_i hst
    have hst0 : s.status = 0 := by
      rcases Decidable.em (s.status = 0) with h0 | h0
      · exact h0
      · exact absurd h0 hst
    split
    · rename_i hq
      constructor
      · intro j hj
        rcases getElem?_set_cases _ _ _ _ _ hj with ⟨_, _⟩ | ⟨_, hj⟩
        · exact ⟨hq, fun hx => h.joinSt hx hst0⟩
        · exact h.waitQ j hj
      · intro j hj
        rcases getElem?_set_cases _ _ _ _ _ hj with ⟨_, hb⟩ | ⟨_, hj⟩
        · simp at hb
        · exact h.exited j hj
      · exact h.joinSt
      · intro j hj; simp only [length_set]; exact h.joinLt j hj
      · exact h.deqWait
    · rename_i it q hq
      constructor
      · intro j hj
        rcases getElem?_set_cases _ _ _ _ _ hj with ⟨_, hb⟩ | ⟨_, hj⟩
        · simp at hb
        · have := (h.waitQ j hj).1
          rw [hq] at this; simp at this
      · intro j hj
        rcases getElem?_set_cases _ _ _ _ _ hj with ⟨_, hb⟩ | ⟨_, hj⟩
        · simp at hb
        · exact h.exited j hj
      · exact h.joinSt
      · intro j hj; simp only [length_set]; exact h.joinLt j hj
      · exact h.deqWait

theorem invB_stepWorker (cfg : Cfg) {s s' : State} (i : Nat) (spur : Bool) (h : InvB cfg s)
    (hs : stepWorker cfg s i spur = some s') : InvB cfg s' := by
  unfold stepWorker at hs
  split at hs
  · simp at hs
  · rename_i hi
    have hlt : i < s.workers.length := (List.getElem?_eq_some_iff.1 hi).1
    split at hs
    · simp at hs
    · simp only [Option.some.injEq] at hs; subst hs
      exact h.getNextWork hlt
  · rename_i sig hi
    have hlt : i < s.workers.length := (List.getElem?_eq_some_iff.1 hi).1
    split at hs
    · simp only [Option.some.injEq] at hs; subst hs
      exact h.getNextWork hlt
    · simp at hs
  · rename_i it hi
    split at hs
    · simp at hs
    · simp only [Option.some.injEq] at hs; subst hs
      constructor
      · intro j hj
        rcases getElem?_set_cases _ _ _ _ _ hj with ⟨_, hb⟩ | ⟨_, hj⟩
        · simp at hb
        · exact h.waitQ j hj
      · intro j hj
        rcases getElem?_set_cases _ _ _ _ _ hj with ⟨_, hb⟩ | ⟨_, hj⟩
        · simp at hb
        · exact h.exited j hj
      · exact h.joinSt
      · intro j hj; simp only [length_set]; exact h.joinLt j hj
      · exact h.deqWait
  · rename_i it rc hi
    have hlt : i < s.workers.length := (List.getElem?_eq_some_iff.1 hi).1
    split at hs
    · simp at hs
    · simp only [Option.some.injEq] at hs; subst hs
      refine InvB.getNextWork ?_ (by simp only [length_set]; exact hlt)
      have hsticky : s.status ≠ 0 → (if rc ≠ 0 ∧ s.status = 0 then rc else s.status) ≠ 0 := by
        intro h0; split
        · rename_i hc; exact absurd hc.2 h0
        · exact h0
      constructor
      · intro j hj
        rcases getElem?_set_cases _ _ _ _ _ hj with ⟨_, hb⟩ | ⟨_, hj⟩
        · simp at hb
        · exact ⟨(h.waitQ j hj).1, fun hx => (h.waitQ j hj).2 ((wakeMain_inJoin _).1 hx)⟩
      · intro j hj
        rcases getElem?_set_cases _ _ _ _ _ hj with ⟨_, hb⟩ | ⟨_, hj⟩
        · simp at hb
        · exact hsticky (h.exited j hj)
      · intro hx; exact hsticky (h.joinSt ((wakeMain_inJoin _).1 hx))
      · intro j hj
        simp only [length_set]
        apply h.joinLt j
        revert hj
        show wakeMain s.main = .join j → s.main = .join j
        cases s.main <;> simp [wakeMain]
      · intro hx
        exfalso; revert hx
        show wakeMain s.main ≠ .deqWait false
        cases s.main <;> simp [wakeMain]
  · simp at hs

theorem invB_deqTry (cfg : Cfg) {s : State} (h : InvB cfg s) (_hj : ¬ s.main.inJoin) : InvB cfg (deqTry cfg s) := by
  have hwait : (∀ it r, s.done = it :: r → it.ticket ≠ s.nextDeq) → InvB cfg (deqWaitOrNull cfg s) := by
    intro hnd
    unfold deqWaitOrNull
    split
    · exact h.frameMain rfl rfl rfl (by simp [MPc.inJoin]) (by simp)
    · rename_i hc
      constructor
      · intro i hi; exact ⟨(h.waitQ i hi).1, by simp [MPc.inJoin]⟩
      · exact h.exited
      · intro hx; simp [MPc.inJoin] at hx
      · intro j hx; simp at hx
      · intro _
        refine ⟨hnd, ?_⟩
        intro hr
        simp only [hr, Bool.true_and, decide_eq_true_eq] at hc
        exact Decidable.not_not.1 hc
  unfold deqTry
  split
  · rename_i hd
    exact hwait (by intro it r hx; rw [hd] at hx; simp at hx)
  · rename_i it r hd
    split
    · exact h.frameMain rfl rfl rfl (by simp [deqReturn, MPc.inJoin]) (by simp [deqReturn])
    · rename_i hne
      exact hwait (by
        intro it' r' hx
        rw [hd] at hx
        simp only [cons.injEq] at hx
        rw [← hx.1]; exact hne)

theorem invB_stepMain (cfg : Cfg) {s s' : State} (c : MChoice) (h : InvB cfg s)
    (hs : stepMain cfg s c = some s') : InvB cfg s' := by
  unfold stepMain at hs
  split at hs
  · simp only [Option.some.injEq] at hs; subst hs
    exact h.frameMain rfl rfl rfl (by simp [MPc.inJoin]) (by simp)
  · rename_i hmain
    split at hs
    · simp only [Option.some.injEq] at hs; subst hs
      exact h.frameMain rfl rfl rfl (by simp [hmain, MPc.inJoin]) (by simp [hmain])
    · split at hs
      · simp only [Option.some.injEq] at hs; subst hs
        exact h.frameMain rfl rfl rfl (by simp [deqReturn, MPc.inJoin]) (by simp [deqReturn])
      · simp only [Option.some.injEq] at hs; subst hs
        exact h.frameMain rfl rfl rfl (by simp [MPc.inJoin]) (by simp)
  · simp only [Option.some.injEq] at hs; subst hs
    exact h.frameMain rfl rfl rfl (by simp [MPc.inJoin]) (by simp)
  · simp only [Option.some.injEq] at hs; subst hs
    exact h.frameMain rfl rfl rfl (by simp [MPc.inJoin]) (by simp)
  · -- submitLock: queue grows, every worker is woken
    rename_i d hmain
    simp only [Option.some.injEq] at hs; subst hs
    have hst : (submitBody s d).status = s.status := by
      unfold submitBody; by_cases h0 : s.status = 0 <;> simp [h0]
    have hws : (submitBody s d).workers = wakeAll s.workers := by
      unfold submitBody; by_cases h0 : s.status = 0 <;> simp [h0]
    have hm : (submitBody s d).main = .idle := by
      unfold submitBody; rfl
    constructor
    · intro i hi; rw [hws] at hi; exact absurd hi (getElem?_wakeAll_ne _ _)
    · intro i hi; rw [hws] at hi; rw [hst]; exact h.exited i (getElem?_wakeAll_exited _ _ hi)
    · intro hx; rw [hm] at hx; simp [MPc.inJoin] at hx
    · intro j hx; rw [hm] at hx; simp at hx
    · intro hx; rw [hm] at hx; simp at hx
  · rename_i hmain
    simp only [Option.some.injEq] at hs; subst hs
    exact invB_deqTry cfg h (by simp [hmain, MPc.inJoin])
  · rename_i sig spur hmain
    split at hs
    · simp only [Option.some.injEq] at hs; subst hs
      exact invB_deqTry cfg h (by simp [hmain, MPc.inJoin])
    · simp at hs
  · simp only [Option.some.injEq] at hs; subst hs
    exact h.frameMain rfl rfl rfl (by simp [MPc.inJoin]) (by simp)
  · -- destroyLock
    simp only [Option.some.injEq] at hs; subst hs
    constructor
    · intro i hi; exact absurd hi (getElem?_wakeAll_ne _ _)
    · intro i _; show (-1 : Int) ≠ 0; decide
    · intro _; show (-1 : Int) ≠ 0; decide
    · intro j hx
      show j < (wakeAll s.workers).length
      simp only [wakeAll, length_map]
      revert hx
      show (if s.workers.length = 0 then MPc.finished else MPc.join 0) = MPc.join j → j < s.workers.length
      split
      · simp
      · intro hx; simp only [MPc.join.injEq] at hx; omega
    · intro hx; exfalso; revert hx
      show (if s.workers.length = 0 then MPc.finished else MPc.join 0) ≠ MPc.deqWait false
      split <;> simp
  · -- join
    rename_i i hmain
    have hin : s.main.inJoin := by rw [hmain]; trivial
    split at hs
    · split at hs
      · rename_i hlt
        simp only [Option.some.injEq] at hs; subst hs
        constructor
        · intro j hj; exact absurd hin (h.waitQ j hj).2
        · exact h.exited
        · intro _; exact h.joinSt hin
        · intro j hx; simp only [MPc.join.injEq] at hx; show j < s.workers.length; omega
        · intro hx; simp at hx
      · simp only [Option.some.injEq] at hs; subst hs
        constructor
        · intro j hj; exact absurd hin (h.waitQ j hj).2
        · exact h.exited
        · intro _; exact h.joinSt hin
        · intro j hx; simp at hx
        · intro hx; simp at hx
    · simp at hs
  · simp at hs

theorem invB_step (cfg : Cfg) {s s' : State} (c : Choice) (h : InvB cfg s) (hs : step cfg s c = some s') :
    InvB cfg s' := by
  cases c with
  | main c => exact invB_stepMain cfg c h hs
  | worker i spur => exact invB_stepWorker cfg i spur h hs

theorem invB_reachable {cfg : Cfg} {n : Nat} {s : State} (hr : Reachable cfg n s) : InvB cfg s := by
  induction hr with
  | init => exact invB_init cfg n
  | step c _ hs ih => exact invB_step cfg c ih hs

/-! ### number of workers, enabledness -/

theorem getNextWork_length (s : State) (i : Nat) : (getNextWork s i).workers.length = s.workers.length := by
  unfold getNextWork
  split
  · simp
  · split <;> simp

theorem step_length (cfg : Cfg) {s s' : State} (c : Choice) (hs : step cfg s c = some s') :
    s'.workers.length = s.workers.length := by
  cases c with
  | worker i spur =>
    simp only [step] at hs
    unfold stepWorker at hs
    split at hs
    · simp at hs
    · split at hs
      · simp at hs
      · simp only [Option.some.injEq] at hs; subst hs; exact getNextWork_length _ _
    · split at hs
      · simp only [Option.some.injEq] at hs; subst hs; exact getNextWork_length _ _
      · simp at hs
    · split at hs
      · simp at hs
      · simp only [Option.some.injEq] at hs; subst hs; simp
    · split at hs
      · simp at hs
      · simp only [Option.some.injEq] at hs; subst hs; rw [getNextWork_length]; simp
    · simp at hs
  | main c =>
    simp only [step] at hs
    unfold stepMain at hs
    split at hs
    · simp only [Option.some.injEq] at hs; subst hs; rfl
    · split at hs
      · simp only [Option.some.injEq] at hs; subst hs; rfl
      · split at hs
        · simp only [Option.some.injEq] at hs; subst hs; rfl
        · simp only [Option.some.injEq] at hs; subst hs; rfl
    · simp only [Option.some.injEq] at hs; subst hs; rfl
    · simp only [Option.some.injEq] at hs; subst hs; rfl
    · simp only [Option.some.injEq] at hs; subst hs
      unfold submitBody; by_cases h0 : s.status = 0 <;> simp [h0, wakeAll]
    · simp only [Option.some.injEq] at hs; subst hs
      unfold deqTry deqWaitOrNull deqReturn; split <;> (try split) <;> (try split) <;> rfl
    · split at hs
      · simp only [Option.some.injEq] at hs; subst hs
        unfold deqTry deqWaitOrNull deqReturn; split <;> (try split) <;> (try split) <;> rfl
      · simp at hs
    · simp only [Option.some.injEq] at hs; subst hs; rfl
    · simp only [Option.some.injEq] at hs; subst hs; simp [wakeAll]
    · split at hs
      · split at hs
        · simp only [Option.some.injEq] at hs; subst hs; rfl
        · simp only [Option.some.injEq] at hs; subst hs; rfl
      · simp at hs
    · simp at hs

theorem workers_length_reachable {cfg : Cfg} {n : Nat} {s : State} (hr : Reachable cfg n s) :
    s.workers.length = n := by
  induction hr with
  | init => simp [init]
  | step c _ hs ih => rw [step_length cfg c hs, ih]

/-- a worker that is neither an unsignalled waiter nor gone can take a strict step -/
theorem worker_can_step (cfg : Cfg) (s : State) (i : Nat) (pc : WPc) (hi : s.workers[i]? = some pc)
    (h1 : pc ≠ .waitQ false) (h2 : pc ≠ .exited) :
    ∃ s', stepStrict cfg s (.worker i false) = some s' := by
  simp only [stepStrict, Choice.strict, Bool.not_false, if_true, step]
  unfold stepWorker
  rw [hi]
  cases pc with
  | start => exact ⟨_, rfl⟩
  | waitQ sig =>
    cases sig with
    | true => exact ⟨_, rfl⟩
    | false => exact absurd rfl h1
  | working it => exact ⟨_, rfl⟩
  | finishing it rc => exact ⟨_, rfl⟩
  | exited => exact absurd rfl h2

/-- if `next_dequeue_ticket` is in `done` it is its head (so `try_dequeue_done` succeeds) -/
theorem done_head_of_mem {s : State} (h : InvA s) (hm : s.nextDeq ∈ tks s.done) :
    ∃ it r, s.done = it :: r ∧ it.ticket = s.nextDeq := by
  cases hd : s.done with
  | nil => rw [hd] at hm; simp [tks] at hm
  | cons it r =>
    refine ⟨it, r, rfl, ?_⟩
    have hs := h.doneSorted
    have hg := h.doneGe
    rw [hd] at hs hg hm
    simp only [tks, map_cons, pairwise_cons, mem_cons] at hs hg hm
    rcases hm with h1 | h1
    · exact h1.symm
    · have := hs.1 _ h1
      have := hg it.ticket (Or.inl rfl)
      omega

/-! ### failure reporting invariant -/

structure InvC (cfg : Cfg) (s : State) : Prop where
  /-- the `rc` a worker carries to `store_completed` is what the callback returned for that item -/
  finRc : ∀ (i : Nat) (it : Item) (rc : Int), s.workers[i]? = some (WPc.finishing it rc) → rc = cfg.rcOf it.data
  /-- a non-zero status is the return value of a callback that ran (or −1 set by `destroy`) -/
  statusFrom : s.status ≠ 0 → s.main.inJoin ∨ ∃ p ∈ s.started, cfg.rcOf p.2.data = s.status
  /-- a failure is never lost: once the failing worker has passed `store_completed` the status is non-zero -/
  failSeen : ∀ p ∈ s.started, cfg.rcOf p.2.data ≠ 0 → s.status ≠ 0 ∨ p.2.ticket ∈ tkF s

theorem invC_init (cfg : Cfg) (n : Nat) : InvC cfg (init n) := by
  constructor
  · intro i it rc hi
    simp only [init, getElem?_replicate] at hi
    split at hi <;> simp at hi
  · intro h; simp [init] at h
  · intro p hp; simp [init] at hp

theorem InvC.frame {cfg : Cfg} {s s' : State} (h : InvC cfg s)
    (hfin : ∀ (i : Nat) (it : Item) (rc : Int), s'.workers[i]? = some (WPc.finishing it rc) →
      ∃ j : Nat, s.workers[j]? = some (WPc.finishing it rc))
    (hst : s'.status = s.status) (hstarted : s'.started = s.started)
    (hjoin : s.main.inJoin → s'.main.inJoin) (htk : tkF s' = tkF s) : InvC cfg s' := by
  constructor
  · intro i it rc hi
    obtain ⟨j, hj⟩ := hfin i it rc hi
    exact h.finRc j it rc hj
  · intro h0
    rw [hst] at h0 ⊢
    rw [hstarted]
    rcases h.statusFrom h0 with h1 | h1
    · exact Or.inl (hjoin h1)
    · exact Or.inr h1
  · intro p hp hrc
    rw [hstarted] at hp
    rw [hst, htk]
    exact h.failSeen p hp hrc

theorem getElem?_wakeAll_finishing (ws : List WPc) (j : Nat) (it : Item) (rc : Int)
    (h : (wakeAll ws)[j]? = some (.finishing it rc)) : ws[j]? = some (.finishing it rc) := by
  simp only [wakeAll, getElem?_map] at h
  cases hj : ws[j]? with
  | none => simp [hj] at h
  | some pc => cases pc <;> simp_all [wakeW]

theorem InvC.getNextWork {cfg : Cfg} {s : State} {i : Nat} {pc : WPc} (h : InvC cfg s)
    (hi : s.workers[i]? = some pc) (hpc : pc.held = []) : InvC cfg (getNextWork s i) := by
  obtain ⟨_, hpf⟩ := held_nil_tk hpc
  unfold Sqfs.Pool.getNextWork
  split
  · refine h.frame ?_ rfl rfl id (flatMap_set_same _ _ _ _ _ hi (by rw [hpf]; rfl))
    intro j it rc hj
    rcases getElem?_set_cases _ _ _ _ _ hj with ⟨_, hb⟩ | ⟨_, hj⟩
    · simp at hb
    · exact ⟨j, hj⟩
  · split
    · refine h.frame ?_ rfl rfl id (flatMap_set_same _ _ _ _ _ hi (by rw [hpf]; rfl))
      intro j it rc hj
      rcases getElem?_set_cases _ _ _ _ _ hj with ⟨_, hb⟩ | ⟨_, hj⟩
      · simp at hb
      · exact ⟨j, hj⟩
    · refine h.frame ?_ rfl rfl id (flatMap_set_same _ _ _ _ _ hi (by rw [hpf]; rfl))
      intro j it rc hj
      rcases getElem?_set_cases _ _ _ _ _ hj with ⟨_, hb⟩ | ⟨_, hj⟩
      · simp at hb
      · exact ⟨j, hj⟩

/-- the item a `finishing` worker holds has a `started` entry with the same data -/
theorem started_of_finishing {s : State} (hA : InvA s) {i : Nat} {it : Item} {rc : Int}
    (hi : s.workers[i]? = some (.finishing it rc)) : ∃ p ∈ s.started, p.2.ticket = it.ticket ∧ p.2.data = it.data := by
  have hmemF : it.ticket ∈ tkF s := mem_flatMap_of_getElem? _ _ _ _ _ hi (by simp [WPc.tkF])
  have : it.ticket ∈ s.started.map (·.2.ticket) := by
    rw [hA.startedPerm.mem_iff]
    simp only [mem_append]
    exact Or.inr hmemF
  obtain ⟨p, hp, hpt⟩ := mem_map.1 this
  refine ⟨p, hp, hpt, ?_⟩
  have h1 := hA.startedData p hp
  have h2 := hA.data it (Or.inr (Or.inr (Or.inr (mem_flatMap_of_getElem? _ _ _ _ _ hi (by simp [WPc.held])))))
  rw [hpt, h2] at h1
  exact (Option.some.inj h1).symm

theorem invC_stepWorker (cfg : Cfg) {s s' : State} (i : Nat) (spur : Bool) (hA : InvA s) (h : InvC cfg s)
    (hs : stepWorker cfg s i spur = some s') : InvC cfg s' := by
  unfold stepWorker at hs
  split at hs
  · simp at hs
  · rename_i hi
    split at hs
    · simp at hs
    · simp only [Option.some.injEq] at hs; subst hs
      exact h.getNextWork hi rfl
  · rename_i sig hi
    split at hs
    · simp only [Option.some.injEq] at hs; subst hs
      exact h.getNextWork hi rfl
    · simp at hs
  · -- the callback runs
    rename_i it hi
    split at hs
    · simp at hs
    · simp only [Option.some.injEq] at hs; subst hs
      have hF : ∀ t, count t ((s.workers.set i (.finishing it (cfg.rcOf it.data))).flatMap WPc.tkF)
          = count t (s.workers.flatMap WPc.tkF) + count t [it.ticket] := by
        intro t
        have := count_flatMap_set WPc.tkF s.workers i _ (.finishing it (cfg.rcOf it.data)) t hi
        simpa [WPc.tkF] using this
      constructor
      · intro j it' rc hj
        rcases getElem?_set_cases _ _ _ _ _ hj with ⟨_, hb⟩ | ⟨_, hj⟩
        · simp only [WPc.finishing.injEq] at hb
          rw [hb.1, hb.2]
        · exact h.finRc j it' rc hj
      · intro h0
        rcases h.statusFrom h0 with h1 | ⟨p, hp, hprc⟩
        · exact Or.inl h1
        · exact Or.inr ⟨p, mem_append_left _ hp, hprc⟩
      · intro p hp hrc
        rcases mem_append.1 hp with hp | hp
        · rcases h.failSeen p hp hrc with h1 | h1
          · exact Or.inl h1
          · right
            have := count_pos_iff.2 h1
            apply count_pos_iff.1
            have h2 := hF p.2.ticket
            simp only [tkF] at this ⊢
            omega
        · simp only [mem_singleton] at hp; subst hp
          right
          apply count_pos_iff.1
          have h2 := hF it.ticket
          simp only [count_singleton, beq_self_eq_true, if_true] at h2
          simp only [tkF]
          omega
  · -- store_completed
    rename_i it rc hi
    split at hs
    · simp at hs
    · simp only [Option.some.injEq] at hs; subst hs
      have hrc := h.finRc i it rc hi
      have hF : ∀ t, count t ((s.workers.set i .start).flatMap WPc.tkF) + count t [it.ticket]
          = count t (s.workers.flatMap WPc.tkF) := by
        intro t
        have := count_flatMap_set WPc.tkF s.workers i _ .start t hi
        simpa [WPc.tkF] using this
      obtain ⟨p0, hp0, hp0t, hp0d⟩ := started_of_finishing hA hi
      refine InvC.getNextWork (pc := .start) ?_ (getElem?_set_self' _ _ _ _ hi) rfl
      constructor
      · intro j it' rc' hj
        rcases getElem?_set_cases _ _ _ _ _ hj with ⟨_, hb⟩ | ⟨_, hj⟩
        · simp at hb
        · exact h.finRc j it' rc' hj
      · intro h0
        show (wakeMain s.main).inJoin ∨ ∃ p ∈ s.started, cfg.rcOf p.2.data = (if rc ≠ 0 ∧ s.status = 0 then rc else s.status)
        by_cases hc : rc ≠ 0 ∧ s.status = 0
        · right
          refine ⟨p0, hp0, ?_⟩
          rw [if_pos hc, hp0d, hrc]
        · have h0' : s.status ≠ 0 := by
            intro hx
            apply h0
            show (if rc ≠ 0 ∧ s.status = 0 then rc else s.status) = 0
            rw [if_neg hc]; exact hx
          rw [if_neg hc]
          rcases h.statusFrom h0' with h1 | h1
          · exact Or.inl ((wakeMain_inJoin _).2 h1)
          · exact Or.inr h1
      · intro p hp hprc
        show (if rc ≠ 0 ∧ s.status = 0 then rc else s.status) ≠ 0 ∨ p.2.ticket ∈ (s.workers.set i .start).flatMap WPc.tkF
        rcases h.failSeen p hp hprc with h1 | h1
        · left
          by_cases hc : rc ≠ 0 ∧ s.status = 0
          · exact absurd hc.2 h1
          · rw [if_neg hc]; exact h1
        · by_cases ht : p.2.ticket = it.ticket
          · left
            -- same ticket, hence same data, hence this very failure
            have hd : p.2.data = it.data := by
              have h1 := hA.startedData p hp
              have h2 := hA.startedData p0 hp0
              rw [ht] at h1; rw [hp0t] at h2
              rw [h1] at h2
              rw [← hp0d]; exact Option.some.inj h2
            have hne : rc ≠ 0 := by rw [hrc, ← hd]; exact hprc
            by_cases h0 : s.status = 0
            · rw [if_pos ⟨hne, h0⟩]; exact hne
            · rw [if_neg (fun hc => h0 hc.2)]; exact h0
          · right
            apply count_pos_iff.1
            have := count_pos_iff.2 h1
            have h2 := hF p.2.ticket
            have h3 : count p.2.ticket [it.ticket] = 0 := by
              simp only [count_singleton, beq_iff_eq]
              rw [if_neg (fun hx => ht hx.symm)]
            simp only [tkF] at this
            omega
  · simp at hs

theorem invC_stepMain (cfg : Cfg) {s s' : State} (c : MChoice) (h : InvC cfg s)
    (hs : stepMain cfg s c = some s') : InvC cfg s' := by
  have keep : ∀ (i : Nat) (it : Item) (rc : Int), s.workers[i]? = some (WPc.finishing it rc) →
      ∃ j : Nat, s.workers[j]? = some (WPc.finishing it rc) := fun i _ _ hi => ⟨i, hi⟩
  unfold stepMain at hs
  split at hs
  · simp only [Option.some.injEq] at hs; subst hs
    rename_i hmain
    exact h.frame keep rfl rfl (by simp [hmain, MPc.inJoin]) rfl
  · rename_i hmain
    split at hs
    · simp only [Option.some.injEq] at hs; subst hs
      exact h.frame keep rfl rfl id rfl
    · split at hs
      · simp only [Option.some.injEq] at hs; subst hs
        exact h.frame keep rfl rfl (by simp [hmain, MPc.inJoin]) rfl
      · simp only [Option.some.injEq] at hs; subst hs
        exact h.frame keep rfl rfl (by simp [hmain, MPc.inJoin]) rfl
  · simp only [Option.some.injEq] at hs; subst hs
    rename_i hmain
    exact h.frame keep rfl rfl (by simp [hmain, MPc.inJoin]) rfl
  · simp only [Option.some.injEq] at hs; subst hs
    rename_i hmain
    exact h.frame keep rfl rfl (by simp [hmain, MPc.inJoin]) rfl
  · rename_i d hmain
    simp only [Option.some.injEq] at hs; subst hs
    have hst : (submitBody s d).status = s.status := by
      unfold submitBody; by_cases h0 : s.status = 0 <;> simp [h0]
    have hws : (submitBody s d).workers = wakeAll s.workers := by
      unfold submitBody; by_cases h0 : s.status = 0 <;> simp [h0]
    have hsta : (submitBody s d).started = s.started := by
      unfold submitBody; by_cases h0 : s.status = 0 <;> simp [h0]
    refine h.frame ?_ hst hsta (by simp [hmain, MPc.inJoin]) ?_
    · intro j it rc hj; rw [hws] at hj; exact ⟨j, getElem?_wakeAll_finishing _ _ _ _ hj⟩
    · simp only [tkF, hws]; exact flatMap_tkF_wakeAll _
  · rename_i hmain
    simp only [Option.some.injEq] at hs; subst hs
    refine h.frame ?_ ?_ ?_ (by simp [hmain, MPc.inJoin]) ?_ <;>
      (unfold deqTry deqWaitOrNull deqReturn; split <;> (try split) <;> (try split) <;> first | rfl | exact keep)
  · rename_i sig spur hmain
    split at hs
    · simp only [Option.some.injEq] at hs; subst hs
      refine h.frame ?_ ?_ ?_ (by simp [hmain, MPc.inJoin]) ?_ <;>
        (unfold deqTry deqWaitOrNull deqReturn; split <;> (try split) <;> (try split) <;> first | rfl | exact keep)
    · simp at hs
  · simp only [Option.some.injEq] at hs; subst hs
    rename_i hmain
    exact h.frame keep rfl rfl (by simp [hmain, MPc.inJoin]) rfl
  · -- destroyLock
    simp only [Option.some.injEq] at hs; subst hs
    have hj : (if s.workers.length = 0 then MPc.finished else MPc.join 0).inJoin := by
      split <;> trivial
    constructor
    · intro j it rc hj'
      exact h.finRc j it rc (getElem?_wakeAll_finishing _ _ _ _ hj')
    · intro _; exact Or.inl hj
    · intro p _ _; left; show (-1 : Int) ≠ 0; decide
  · split at hs
    · split at hs
      · simp only [Option.some.injEq] at hs; subst hs
        exact h.frame keep rfl rfl (fun _ => trivial) rfl
      · simp only [Option.some.injEq] at hs; subst hs
        exact h.frame keep rfl rfl (fun _ => trivial) rfl
    · simp at hs
  · simp at hs

theorem invC_reachable {cfg : Cfg} {n : Nat} {s : State} (hr : Reachable cfg n s) : InvC cfg s := by
  induction hr with
  | init => exact invC_init cfg n
  | step c hr' hs ih =>
    cases c with
    | main c => exact invC_stepMain cfg c ih hs
    | worker i spur => exact invC_stepWorker cfg i spur (invA_reachable hr') ih hs

/-! ### two workers never hold the same ticket -/

theorem count_flatMap_append {α : Type} (f g : α → List Nat) (l : List α) (t : Nat) :
    count t (l.flatMap fun a => f a ++ g a) = count t (l.flatMap f) + count t (l.flatMap g) := by
  induction l with
  | nil => simp
  | cons x xs ih => simp only [flatMap_cons, count_append, ih]; omega

theorem count_two_le_flatMap {α : Type} (f : α → List Nat) (l : List α) (i j : Nat) (a b : α) (t : Nat)
    (hi : l[i]? = some a) (hj : l[j]? = some b) (hij : i ≠ j) (c : α) (hc : f c = []) :
    count t (f a) + count t (f b) ≤ count t (l.flatMap f) := by
  have h1 := count_flatMap_set f l i a c t hi
  have hj' : (l.set i c)[j]? = some b := by rw [getElem?_set]; simp [hij, hj]
  have h2 := count_le_flatMap f (l.set i c) j b t hj'
  rw [hc, count_nil] at h1
  omega

theorem count_le_one_of_nodup (l : List Nat) (t : Nat) (h : l.Nodup) : count t l ≤ 1 := by
  induction l with
  | nil => simp
  | cons x xs ih =>
    rw [nodup_cons] at h
    rw [count_cons]
    by_cases hx : x = t
    · subst hx
      have : count x xs = 0 := by
        rcases Nat.eq_zero_or_pos (count x xs) with h0 | h0
        · exact h0
        · exact absurd (count_pos_iff.1 h0) h.1
      simp [this]
    · have := ih h.2
      simp [hx]; exact this

theorem getNextWork_started (s : State) (i : Nat) : (getNextWork s i).started = s.started := by
  unfold getNextWork
  split
  · rfl
  · split <;> rfl

/-! ### termination measure for API calls (strict relation) -/

def wWeight : WPc → Nat
  | .start => 1
  | .waitQ true => 1
  | .waitQ false => 0
  | .working _ => 2
  | .finishing _ _ => 1
  | .exited => 0

def mWeight (n : Nat) : MPc → Nat
  | .idle => 0
  | .submitLock _ => 1
  | .deqLock => 2
  | .deqWait true => 1
  | .deqWait false => 0
  | .statusLock => 1
  | .destroyLock => 3 * n + 1
  | .join i => n - i
  | .finished => 0

/-- work still to be done before every thread is blocked or gone: 6 per queued item, 2 per worker step still
possible without new input, plus the main thread's own remaining steps inside the current call -/
def mu (s : State) : Nat :=
  6 * s.queue.length + 2 * (s.workers.map wWeight).sum + mWeight s.workers.length s.main

theorem sum_wWeight_wakeAll (ws : List WPc) : ((wakeAll ws).map wWeight).sum ≤ (ws.map wWeight).sum + ws.length := by
  induction ws with
  | nil => simp [wakeAll]
  | cons pc r ih =>
    simp only [wakeAll, map_cons, sum_cons, length_cons] at ih ⊢
    have : wWeight (wakeW pc) ≤ wWeight pc + 1 := by
      cases pc with
      | waitQ sig => cases sig <;> simp [wakeW, wWeight]
      | _ => simp [wakeW, wWeight]
    omega

theorem mWeight_wakeMain_le (n : Nat) (m : MPc) : mWeight n (wakeMain m) ≤ mWeight n m + 1 := by
  cases m with
  | deqWait sig => cases sig <;> simp [wakeMain, mWeight]
  | _ => simp [wakeMain]

theorem mu_getNextWork (s : State) (i : Nat) (pc : WPc) (hi : s.workers[i]? = some pc) :
    mu (getNextWork s i) + 2 * wWeight pc ≤ mu s := by
  have hsum := fun b => sum_map_set wWeight s.workers i pc b hi
  unfold getNextWork
  split
  · have := hsum .exited
    simp only [mu, length_set, wWeight] at this ⊢
    omega
  · split
    · have := hsum (.waitQ false)
      simp only [mu, length_set, wWeight] at this ⊢
      omega
    · rename_i it q hq
      have := hsum (.working it)
      simp only [mu, length_set, wWeight, hq, length_cons] at this ⊢
      omega

/-- every strict step that leaves the main thread inside its API call decreases the measure -/
theorem mu_decreases (cfg : Cfg) {s s' : State} (c : Choice) (hs : stepStrict cfg s c = some s')
    (hin : mainInCall s = true) (hin' : mainInCall s' = true) : mu s' < mu s := by
  unfold stepStrict at hs
  split at hs
  case isFalse => simp at hs
  rename_i hstrict
  cases c with
  | worker i spur =>
    have hsp : spur = false := by cases spur <;> simp_all [Choice.strict]
    subst hsp
    simp only [step] at hs
    unfold stepWorker at hs
    split at hs
    · simp at hs
    · rename_i hi
      simp only [Bool.false_eq_true, if_false, Option.some.injEq] at hs; subst hs
      have := (mu_getNextWork s i _ hi)
      simp only [wWeight] at this; omega
    · rename_i sig hi
      cases sig with
      | false => simp at hs
      | true =>
        simp only [Bool.true_bne, Bool.not_false, if_true, Option.some.injEq] at hs
        subst hs
        have := (mu_getNextWork s i _ hi)
        simp only [wWeight] at this; omega
    · rename_i it hi
      simp only [Bool.false_eq_true, if_false, Option.some.injEq] at hs; subst hs
      have := sum_map_set wWeight s.workers i _ (.finishing it (cfg.rcOf it.data)) hi
      simp only [mu, length_set, wWeight] at this ⊢
      omega
    · rename_i it rc hi
      simp only [Bool.false_eq_true, if_false, Option.some.injEq] at hs; subst hs
      have h1 := sum_map_set wWeight s.workers i _ .start hi
      have h2 := (mu_getNextWork
        { s with done := insertDone it s.done, status := if rc ≠ 0 ∧ s.status = 0 then rc else s.status,
                 main := wakeMain s.main, workers := s.workers.set i .start } i .start
        (getElem?_set_self' _ _ _ _ hi))
      have h3 := mWeight_wakeMain_le s.workers.length s.main
      simp only [mu, length_set, wWeight] at h1 h2 h3 ⊢
      omega
    · simp at hs
  | main mc =>
    cases mc with
    | call op =>
      -- the main thread is inside a call: it cannot make another one
      simp only [step] at hs
      unfold stepMain at hs
      unfold mainInCall at hin
      split at hs <;> simp_all
    | cont spur =>
      have hsp : spur = false := by cases spur <;> simp_all [Choice.strict]
      subst hsp
      simp only [step] at hs
      cases hm : s.main with
      | idle => simp [mainInCall, hm] at hin
      | finished => simp [mainInCall, hm] at hin
      | submitLock d =>
        simp only [stepMain, hm, Option.some.injEq] at hs; subst hs
        have : (submitBody s d).main = .idle := by unfold submitBody; rfl
        simp [mainInCall, this] at hin'
      | deqLock =>
        simp only [stepMain, hm, Option.some.injEq] at hs; subst hs
        revert hin'
        unfold deqTry deqWaitOrNull deqReturn
        split <;> (try split) <;> (try split) <;> simp [mainInCall, mu, mWeight, hm]
      | deqWait sig =>
        cases sig with
        | false => simp [stepMain, hm] at hs
        | true =>
          simp only [stepMain, hm, Bool.true_bne, Bool.not_false, if_true,
            Option.some.injEq] at hs
          subst hs
          revert hin'
          unfold deqTry deqWaitOrNull deqReturn
          split <;> (try split) <;> (try split) <;> simp [mainInCall, mu, mWeight, hm]
      | statusLock =>
        simp only [stepMain, hm, Option.some.injEq] at hs; subst hs
        simp [mainInCall] at hin'
      | destroyLock =>
        simp only [stepMain, hm, Option.some.injEq] at hs; subst hs
        have hw := sum_wWeight_wakeAll s.workers
        by_cases h0 : s.workers.length = 0
        · simp [mainInCall, h0] at hin'
        · simp only [mu, hm, mWeight, h0, if_false, wakeAll, length_map] at hw ⊢
          omega
      | join i =>
        simp only [stepMain, hm] at hs
        split at hs
        · split at hs
          · rename_i hlt
            simp only [Option.some.injEq] at hs; subst hs
            simp only [mu, hm, mWeight]
            omega
          · simp only [Option.some.injEq] at hs; subst hs
            simp [mainInCall] at hin'
        · simp at hs

theorem rets_ne_self (l : List Ret) (x : Ret) : l ≠ l ++ [x] := by
  intro h
  have := congrArg List.length h
  simp at this

/-! ### a failure-free threaded pool refines the serial pool -/

/-- simulation relation: the serial pool run on the calls that have *returned* has produced the same return
values, and (until `destroy` returns) its queue is what the threaded pool still owes the caller -/
def InvR (cfg : Cfg) (s : State) : Prop :=
  ∃ cdone : List Op, s.calls = cdone ++ (mainPending s.main).toList ∧
    (Serial.run cfg.rcOf Serial.init cdone).rets = s.rets ∧
    (s.main ≠ .finished →
      (Serial.run cfg.rcOf Serial.init cdone).queue = s.submitted.drop s.returned.length ∧
      (Serial.run cfg.rcOf Serial.init cdone).status = 0)

theorem invR_init (cfg : Cfg) (n : Nat) : InvR cfg (init n) :=
  ⟨[], rfl, rfl, fun _ => ⟨rfl, rfl⟩⟩

/-- steps that change nothing the relation looks at -/
theorem InvR.frame {cfg : Cfg} {s s' : State} (h : InvR cfg s) (hc : s'.calls = s.calls)
    (hp : mainPending s'.main = mainPending s.main) (hr : s'.rets = s.rets) (hsub : s'.submitted = s.submitted)
    (hret : s'.returned = s.returned) (hf : s'.main ≠ .finished → s.main ≠ .finished) : InvR cfg s' := by
  obtain ⟨cdone, h1, h2, h3⟩ := h
  exact ⟨cdone, by rw [hc, hp]; exact h1, by rw [hr]; exact h2, fun hx => by rw [hsub, hret]; exact h3 (hf hx)⟩

theorem mainPending_wakeMain (m : MPc) : mainPending (wakeMain m) = mainPending m := by
  cases m <;> rfl

theorem wakeMain_finished (m : MPc) : wakeMain m ≠ .finished → m ≠ .finished := by
  cases m <;> simp [wakeMain]

theorem getNextWork_frame (s : State) (i : Nat) :
    (getNextWork s i).calls = s.calls ∧ (getNextWork s i).main = s.main ∧ (getNextWork s i).rets = s.rets ∧
    (getNextWork s i).submitted = s.submitted ∧ (getNextWork s i).returned = s.returned := by
  unfold getNextWork
  split
  · exact ⟨rfl, rfl, rfl, rfl, rfl⟩
  · split <;> exact ⟨rfl, rfl, rfl, rfl, rfl⟩

theorem invR_stepWorker (cfg : Cfg) {s s' : State} (i : Nat) (spur : Bool) (h : InvR cfg s)
    (hs : stepWorker cfg s i spur = some s') : InvR cfg s' := by
  unfold stepWorker at hs
  split at hs
  · simp at hs
  · split at hs
    · simp at hs
    · simp only [Option.some.injEq] at hs; subst hs
      obtain ⟨a, b, c, d, e⟩ := getNextWork_frame s i
      exact h.frame a (by rw [b]) c d e (by rw [b]; exact id)
  · split at hs
    · simp only [Option.some.injEq] at hs; subst hs
      obtain ⟨a, b, c, d, e⟩ := getNextWork_frame s i
      exact h.frame a (by rw [b]) c d e (by rw [b]; exact id)
    · simp at hs
  · split at hs
    · simp at hs
    · simp only [Option.some.injEq] at hs; subst hs
      exact h.frame rfl rfl rfl rfl rfl id
  · rename_i it rc hi
    split at hs
    · simp at hs
    · simp only [Option.some.injEq] at hs; subst hs
      obtain ⟨a, b, c, d, e⟩ := getNextWork_frame
        { s with done := insertDone it s.done, status := if rc ≠ 0 ∧ s.status = 0 then rc else s.status,
                 main := wakeMain s.main, workers := s.workers.set i .start } i
      refine h.frame a ?_ c d e ?_
      · rw [b]; exact mainPending_wakeMain _
      · rw [b]; exact wakeMain_finished _
  · simp at hs

/-- one more completed call: the serial pool makes the same call -/
theorem InvR.complete {cfg : Cfg} {s' : State} {cdone : List Op} (op : Op)
    (hcalls : s'.calls = (cdone ++ [op]) ++ (mainPending s'.main).toList)
    (hrets : (Serial.call cfg.rcOf (Serial.run cfg.rcOf Serial.init cdone) op).rets = s'.rets)
    (hq : s'.main ≠ .finished →
      (Serial.call cfg.rcOf (Serial.run cfg.rcOf Serial.init cdone) op).queue = s'.submitted.drop s'.returned.length ∧
      (Serial.call cfg.rcOf (Serial.run cfg.rcOf Serial.init cdone) op).status = 0) : InvR cfg s' := by
  refine ⟨cdone ++ [op], hcalls, ?_, ?_⟩
  · rw [Serial.run_append]; exact hrets
  · rw [Serial.run_append]; exact hq

theorem drop_eq_cons_of_getElem? {α : Type} (l : List α) (k : Nat) (a : α) (h : l[k]? = some a) :
    l.drop k = a :: l.drop (k + 1) := by
  obtain ⟨hk, ha⟩ := List.getElem?_eq_some_iff.1 h
  rw [← ha]; exact drop_eq_getElem_cons hk

theorem invR_stepMain (cfg : Cfg) {n : Nat} {s s' : State} (c : MChoice) (hok : ∀ d, cfg.rcOf d = 0)
    (hreach : Reachable cfg n s) (h : InvR cfg s) (hs : stepMain cfg s c = some s') : InvR cfg s' := by
  have hA := invA_reachable hreach
  have hC := invC_reachable hreach
  have hst0 : ¬ s.main.inJoin → s.status = 0 := by
    intro hj
    rcases Decidable.em (s.status = 0) with h0 | h0
    · exact h0
    · rcases hC.statusFrom h0 with h1 | ⟨p, _, hp⟩
      · exact absurd h1 hj
      · rw [hok] at hp; exact absurd hp.symm h0
  obtain ⟨cdone, h1, h2, h3⟩ := h
  -- handing back item `it` with `it.ticket = returned.length`
  have hand : ∀ it : Item, s.submitted[s.returned.length]? = some it.data → s.main ≠ .finished →
      (Serial.call cfg.rcOf (Serial.run cfg.rcOf Serial.init cdone) .dequeue).rets = s.rets ++ [.deq (some it.data)] ∧
      (Serial.call cfg.rcOf (Serial.run cfg.rcOf Serial.init cdone) .dequeue).queue
        = s.submitted.drop (s.returned ++ [it.data]).length ∧
      (Serial.call cfg.rcOf (Serial.run cfg.rcOf Serial.init cdone) .dequeue).status = 0 := by
    intro it hd hnf
    obtain ⟨hq, hz⟩ := h3 hnf
    rw [drop_eq_cons_of_getElem? _ _ _ hd] at hq
    simp only [Serial.call, hq, h2, hok, hz, length_append, length_singleton]
    simp
  -- the slow path of dequeue, from `deqLock` or a woken `deqWait`
  have hdeq : s.main.inDeq → s.calls = cdone ++ [.dequeue] → InvR cfg (deqTry cfg s) := by
    intro hin hcalls
    have hnf : s.main ≠ .finished := by intro hx; rw [hx] at hin; exact hin
    have h0 := hst0 (by intro hx; cases hmm : s.main <;> simp_all [MPc.inJoin, MPc.inDeq])
    obtain ⟨hsd, _⟩ := hA.mainDeq hin
    have hnd := hA.nd
    rw [hsd] at hnd
    simp only [length_nil, Nat.add_zero] at hnd
    have hwait : InvR cfg (deqWaitOrNull cfg s) := by
      unfold deqWaitOrNull
      split
      · rename_i hc
        simp only [Bool.and_eq_true, decide_eq_true_eq] at hc
        exact absurd h0 hc.2
      · exact ⟨cdone, by simp [mainPending, hcalls], h2, fun _ => h3 hnf⟩
    unfold deqTry
    split
    · exact hwait
    · rename_i it r hd
      split
      · rename_i ht
        have hdat := hA.data it (Or.inr (Or.inl (by rw [hd]; exact mem_cons_self)))
        rw [ht, hnd] at hdat
        obtain ⟨r1, r2, r3⟩ := hand it hdat hnf
        exact InvR.complete (cdone := cdone) .dequeue (by simp [deqReturn, mainPending, hcalls]) r1 (fun _ => ⟨r2, r3⟩)
      · exact hwait
  cases hm : s.main with
  | idle =>
    have hp : (mainPending s.main).toList = [] := by rw [hm]; rfl
    rw [hp, append_nil] at h1
    have hnf : s.main ≠ .finished := by rw [hm]; simp
    cases c with
    | cont spur => simp [stepMain, hm] at hs
    | call op =>
      cases op with
      | submit d =>
        simp only [stepMain, hm, Option.some.injEq] at hs; subst hs
        exact ⟨cdone, by simp [mainPending, h1], h2, fun _ => h3 hnf⟩
      | getStatus =>
        simp only [stepMain, hm, Option.some.injEq] at hs; subst hs
        exact ⟨cdone, by simp [mainPending, h1], h2, fun _ => h3 hnf⟩
      | destroy =>
        simp only [stepMain, hm, Option.some.injEq] at hs; subst hs
        exact ⟨cdone, by simp [mainPending, h1], h2, fun _ => h3 hnf⟩
      | dequeue =>
        simp only [stepMain, hm] at hs
        split at hs
        · -- empty pool: NULL
          rename_i hic
          simp only [Option.some.injEq] at hs; subst hs
          obtain ⟨hq, hz⟩ := h3 hnf
          have hlen : s.returned.length = s.submitted.length := by have := hA.ic; omega
          rw [hlen, drop_length] at hq
          refine InvR.complete (cdone := cdone) .dequeue (by simp [mainPending, hm, h1]) ?_ ?_
          · simp [Serial.call, hq, h2]
          · intro _; simp only [Serial.call, hq]; rw [hlen, drop_length]; exact ⟨rfl, hz⟩
        · split at hs
          · -- fast path
            rename_i hic it r hsd
            simp only [Option.some.injEq] at hs; subst hs
            have hsafe := hA.safe
            rw [hsd] at hsafe
            simp only [tks, map_cons, length_cons, range'_succ, cons.injEq] at hsafe
            have hd := hA.data it (Or.inr (Or.inr (Or.inl (by rw [hsd]; exact mem_cons_self))))
            rw [hsafe.1] at hd
            obtain ⟨r1, r2, r3⟩ := hand it hd hnf
            exact InvR.complete (cdone := cdone) .dequeue (by simp [deqReturn, mainPending, h1]) r1 (fun _ => ⟨r2, r3⟩)
          · simp only [Option.some.injEq] at hs; subst hs
            exact ⟨cdone, by simp [mainPending, h1], h2, fun _ => h3 hnf⟩
  | finished =>
    cases c <;> simp [stepMain, hm] at hs
  | submitLock d =>
    have hnf : s.main ≠ .finished := by rw [hm]; simp
    have h0 := hst0 (by rw [hm]; simp [MPc.inJoin])
    cases c with
    | call op => simp [stepMain, hm] at hs
    | cont spur =>
      cases spur with
      | true => simp [stepMain, hm] at hs
      | false =>
        simp only [stepMain, hm, Option.some.injEq] at hs; subst hs
        obtain ⟨hq, hz⟩ := h3 hnf
        have hle : s.returned.length ≤ s.submitted.length := by have := hA.ic; omega
        rw [hm] at h1
        refine InvR.complete (cdone := cdone) (.submit d) (by simp [submitBody, h0, mainPending] at h1 ⊢; exact h1) ?_ ?_
        · simp [Serial.call, hz, h2, submitBody, h0]
        · intro _
          simp only [Serial.call, hz, submitBody, h0]
          simp [hq, drop_append_of_le_length hle]
  | statusLock =>
    have h0 := hst0 (by rw [hm]; simp [MPc.inJoin])
    have hnf : s.main ≠ .finished := by rw [hm]; simp
    cases c with
    | call op => simp [stepMain, hm] at hs
    | cont spur =>
      cases spur with
      | true => simp [stepMain, hm] at hs
      | false =>
        simp only [stepMain, hm, Option.some.injEq] at hs; subst hs
        obtain ⟨hq, hz⟩ := h3 hnf
        rw [hm] at h1
        refine InvR.complete (cdone := cdone) .getStatus (by simp [mainPending] at h1 ⊢; exact h1) ?_ ?_
        · simp [Serial.call, hz, h2, h0]
        · intro _; exact ⟨by simp [Serial.call, hq], by simp [Serial.call, hz]⟩
  | destroyLock =>
    cases c with
    | call op => simp [stepMain, hm] at hs
    | cont spur =>
      cases spur with
      | true => simp [stepMain, hm] at hs
      | false =>
        simp only [stepMain, hm, Option.some.injEq] at hs; subst hs
        rw [hm] at h1
        by_cases hn : s.workers.length = 0
        · refine InvR.complete (cdone := cdone) .destroy (by simp [hn, mainPending] at h1 ⊢; exact h1) ?_ ?_
          · simp [Serial.call, h2, hn]
          · intro hx; simp [hn] at hx
        · refine ⟨cdone, by simp [hn, mainPending] at h1 ⊢; exact h1, by simp [hn, h2], ?_⟩
          intro _; exact h3 (by rw [hm]; simp)
  | join i =>
    cases c with
    | call op => simp [stepMain, hm] at hs
    | cont spur =>
      cases spur with
      | true => simp [stepMain, hm] at hs
      | false =>
        simp only [stepMain, hm] at hs
        rw [hm] at h1
        split at hs
        · split at hs
          · simp only [Option.some.injEq] at hs; subst hs
            exact ⟨cdone, by simp [mainPending] at h1 ⊢; exact h1, h2, fun _ => h3 (by rw [hm]; simp)⟩
          · simp only [Option.some.injEq] at hs; subst hs
            refine InvR.complete (cdone := cdone) .destroy (by simp [mainPending] at h1 ⊢; exact h1) ?_ ?_
            · simp [Serial.call, h2]
            · intro hx; simp at hx
        · simp at hs
  | deqLock =>
    rw [hm] at h1
    cases c with
    | call op => simp [stepMain, hm] at hs
    | cont spur =>
      cases spur with
      | true => simp [stepMain, hm] at hs
      | false =>
        simp only [stepMain, hm, Option.some.injEq] at hs; subst hs
        exact hdeq (by rw [hm]; trivial) (by simpa [mainPending] using h1)
  | deqWait sig =>
    rw [hm] at h1
    cases c with
    | call op => simp [stepMain, hm] at hs
    | cont spur =>
      simp only [stepMain, hm] at hs
      split at hs
      · simp only [Option.some.injEq] at hs; subst hs
        exact hdeq (by rw [hm]; trivial) (by simpa [mainPending] using h1)
      · simp at hs

theorem invR_reachable {cfg : Cfg} {n : Nat} {s : State} (hok : ∀ d, cfg.rcOf d = 0) (hr : Reachable cfg n s) :
    InvR cfg s := by
  induction hr with
  | init => exact invR_init cfg n
  | step c hr' hs ih =>
    cases c with
    | main c => exact invR_stepMain cfg c hok hr' ih hs
    | worker i spur => exact invR_stepWorker cfg i spur ih hs

end Sqfs.Pool
