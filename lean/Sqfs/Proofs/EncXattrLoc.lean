/-
C01 — `locations[]` of the xattr id table: the (repaired) loop of `write_id_table` records the start of *every*
metadata block of the table, each in its slot, and nothing else.
-/
import Sqfs.Model.EncXattr
import Sqfs.Proofs.EncMetaPos
import Sqfs.Proofs.EncTable
import Sqfs.Proofs.EncXattrRef
namespace Sqfs.Enc
open Sqfs.Consts
open Sqfs.MetaWriter (Block Codec St append run position)

/-! ### replaying stores into the array -/

theorem foldl_set_get (S : Nat → Nat) : ∀ (m a : Nat) (l : List Nat) (j : Nat),
    (((List.range' a m).map (fun j => (j, S j))).foldl (fun (arr : List Nat) s => arr.set s.1 s.2) l)[j]?
      = if a ≤ j ∧ j < a + m ∧ j < l.length then some (S j) else l[j]? := by
  intro m
  induction m with
  | zero => intro a l j; simp; omega
  | succ m ih =>
    intro a l j
    simp only [List.range'_succ, List.map_cons, List.foldl_cons]
    rw [ih (a + 1) (l.set a (S a)) j]
    simp only [List.length_set, List.getElem?_set]
    by_cases h1 : a = j
    · subst h1
      by_cases h2 : a < l.length
      · simp [h2]
      · have : l[a]? = none := List.getElem?_eq_none (by omega)
        simp [h2, this]
    · by_cases h3 : a + 1 ≤ j ∧ j < a + 1 + m ∧ j < l.length
      · have : a ≤ j ∧ j < a + (m + 1) ∧ j < l.length := by omega
        simp [h3, this]
      · have : ¬ (a ≤ j ∧ j < a + (m + 1) ∧ j < l.length) := by omega
        simp [h3, this, h1]

/-! ### the loop -/

/-- the loop of `write_id_table` when `block_offset` after `k` descriptors is `S (k / 512)` for a strictly increasing
`S`: exactly the slots `i … c - 1` are stored, slot `j` with `S j` -/
theorem locStoresGo_spec (S : Nat → Nat) (blockAfter : Nat → Nat) (n c : Nat)
    (hc : c = n / 512 + (if n % 512 ≠ 0 then 1 else 0))
    (hba : ∀ k, 1 ≤ k → k ≤ n → blockAfter k = S (k / 512))
    (hmono : ∀ a b, a < b → b < c → S a < S b) :
    ∀ (f k i last : Nat), k + f = n → (i = k / 512 + 1 ∨ (f = 0 ∧ c ≤ i)) → last = S (k / 512) →
      locStoresGo (some c) blockAfter f k i last = (List.range' i (c - i)).map (fun j => (j, S j)) := by
  intro f
  induction f with
  | zero =>
    intro k i last hk hi _
    have : c - i = 0 := by
      rcases hi with h | ⟨_, h⟩
      · subst hc; split <;> omega
      · omega
    simp [locStoresGo, this]
  | succ f ih =>
    intro k i last hk hi hl
    have hi' : i = k / 512 + 1 := by rcases hi with h | ⟨h, _⟩; exact h; omega
    unfold locStoresGo
    have hb := hba (k + 1) (by omega) (by omega)
    simp only [hb]
    by_cases hq : (k + 1) / 512 = k / 512
    · -- no block boundary crossed
      rw [hq, hl]
      simp only [bne_self_eq_false, Bool.false_and, Bool.false_eq_true, if_false]
      exact ih (k + 1) i (S (k / 512)) (by omega) (Or.inl (by omega)) (by rw [hq])
    · have hq' : (k + 1) / 512 = k / 512 + 1 := by omega
      by_cases hic : i < c
      · have hne : S ((k + 1) / 512) ≠ last := by
          rw [hl, hq']
          have := hmono (k / 512) (k / 512 + 1) (by omega) (by omega)
          omega
        have hcond : (S ((k + 1) / 512) != last && decide (i < c)) = true := by simp [hne, hic]
        rw [if_pos hcond]
        rw [ih (k + 1) (i + 1) (S ((k + 1) / 512)) (by omega) (Or.inl (by omega)) rfl]
        have : c - i = (c - (i + 1)) + 1 := by omega
        rw [this, List.range'_succ, List.map_cons, hq', ← hi']
      · have hcond : ¬ ((S ((k + 1) / 512) != last && decide (i < c)) = true) := by simp [hic]
        rw [if_neg hcond]
        -- the table ends on a block boundary: this was the last descriptor
        have hf0 : f = 0 := by
          subst hc
          split at hic <;> omega
        subst hf0
        simp only [locStoresGo]
        have : c - i = 0 := by omega
        simp [this]

/-- slot `j` of `locations[]` after the loop is `S j`, for every one of the `c` slots -/
theorem locStores_complete (S : Nat → Nat) (blockAfter : Nat → Nat) (n : Nat) (hn : 0 < n) (hS0 : S 0 = 0)
    (hba : ∀ k, 1 ≤ k → k ≤ n → blockAfter k = S (k / 512))
    (hmono : ∀ a b, a < b → b < locCount n → S a < S b) :
    applyStores (locCount n) (locStores (some (locCount n)) blockAfter n) = (List.range (locCount n)).map S := by
  have hc : locCount n = n / 512 + (if n % 512 ≠ 0 then 1 else 0) := by
    unfold locCount
    simp only [sizeofXattrId, metaBlockSize]
    have h1 : n * 16 / 8192 = n / 512 := by omega
    have h2 : (n * 16 % 8192 ≠ 0) ↔ (n % 512 ≠ 0) := by omega
    rw [h1]
    by_cases h : n % 512 = 0
    · have : n * 16 % 8192 = 0 := by omega
      simp [h, this]
    · have : n * 16 % 8192 ≠ 0 := by omega
      simp [h, this]
  have hpos : 0 < locCount n := by rw [hc]; split <;> omega
  have hgo := locStoresGo_spec S blockAfter n (locCount n) hc hba hmono n 0 1 0 (by omega) (Or.inl (by omega))
    (by simp [hS0])
  unfold applyStores locStores
  rw [hgo, List.foldl_cons]
  apply List.ext_getElem?
  intro j
  rw [foldl_set_get]
  simp only [List.length_set, List.length_replicate, List.getElem?_set, List.getElem?_map, List.getElem?_range']
  by_cases hj : j < locCount n
  · rw [List.getElem?_range hj]
    by_cases h0 : j = 0
    · subst h0; simp [hpos, hS0]
    · have : 1 ≤ j ∧ j < 1 + (locCount n - 1) ∧ j < locCount n := ⟨by omega, by omega, hj⟩
      simp [this]
  · have h1 : ¬ (1 ≤ j ∧ j < 1 + (locCount n - 1) ∧ j < locCount n) := fun h => hj h.2.2
    rw [List.getElem?_eq_none (by simp; omega)]
    have h0 : ¬ (0 = j) := by omega
    simp [h1, h0]
    rw [List.getElem?_eq_none (by simp; omega)]; rfl

/-! ### `block_offset` after each descriptor -/

theorem blockAfters_getD (cmp : Codec) : ∀ (chunks : List (List UInt8)) (st : St) (k : Nat), 1 ≤ k → k ≤ chunks.length →
    (blockAfters cmp st chunks).getD (k - 1) 0 = ((chunks.take k).foldl (append cmp) st).blockOffset := by
  intro chunks
  induction chunks with
  | nil => intro st k h1 h2; simp at h2; omega
  | cons c cs ih =>
    intro st k h1 h2
    cases k with
    | zero => omega
    | succ k =>
      cases k with
      | zero => simp [blockAfters]
      | succ k =>
        simp only [blockAfters, Nat.add_sub_cancel, List.getD_cons_succ, List.take_succ_cons, List.foldl_cons]
        have := ih (append cmp st c) (k + 1) (by omega) (by simp at h2; omega)
        simpa using this

theorem encDesc_length (d : XDesc) : (encDesc d).length = sizeofXattrId := by
  simp [encDesc, encFields_length, sizeofXattrId]

theorem flatten_take_descs (descs : List XDesc) (k : Nat) (hk : k ≤ descs.length) :
    (((descs.map encDesc).take k).flatten).length = k * 16 := by
  induction descs generalizing k with
  | nil => simp at hk; subst hk; rfl
  | cons d ds ih =>
    cases k with
    | zero => rfl
    | succ k =>
      simp only [List.map_cons, List.take_succ_cons, List.flatten_cons, List.length_append, encDesc_length, sizeofXattrId]
      rw [ih k (by simp at hk; omega)]; omega

/-- **`locations[]` is complete.**  What `sqfs_xattr_writer_flush` hands to `write_location_table` (before adding
`id_start`) is the list of the disk offsets of *all* metadata blocks of the id table, in order — one slot per block,
every block start recorded (in particular nothing is lost when the number of sets is a multiple of 512), for every
codec and every number of sets. -/
theorem xattrFlush_locs (cmp : Codec) (refOf : Nat → Nat) (w : XWriter) (hn : 0 < (flushKv refOf w).2.length) :
    let f := xattrFlush cmp refOf w
    f.locs = (List.range f.idBlocks.length).map (startOf f.idBlocks) ∧ f.idBlocks.length = locCount f.descs.length := by
  simp only [xattrFlush]
  generalize hd : (flushKv refOf w).2 = descs at hn
  obtain ⟨hok, hraw⟩ := run_blocksOk cmp (descs.map encDesc)
  have hfull := run_full cmp (descs.map encDesc)
  have hcount := blocks_count cmp _ hok hfull
  have hflat : ((descs.map encDesc).flatten).length = descs.length * 16 := by
    have := flatten_take_descs descs descs.length (Nat.le_refl _)
    rw [show (descs.map encDesc).take descs.length = descs.map encDesc from List.take_of_length_le (by simp)] at this
    exact this
  rw [hraw, hflat] at hcount
  have hlc : (run cmp (descs.map encDesc)).out.length = locCount descs.length := by
    rw [hcount]; unfold tableBlockCount locCount; simp only [sizeofXattrId]; rfl
  refine ⟨?_, hlc⟩
  rw [hlc]
  apply locStores_complete (startOf (run cmp (descs.map encDesc)).out) _ descs.length hn (by simp [startOf])
  · intro k h1 h2
    rw [blockAfters_getD cmp _ {} k h1 (by simpa using h2)]
    have hp := writer_position cmp (descs.map encDesc) k
    have hbo : ((List.take k (descs.map encDesc)).foldl (append cmp) {}).blockOffset
        = (position ((List.take k (descs.map encDesc)).foldl (append cmp) {})).1 := rfl
    rw [hbo, hp, flatten_take_descs descs k h2]
    simp only [refOfPos, metaBlockSize]
    congr 1
    omega
  · intro a b hab hb
    exact startOf_strictMono _ a b hab (by rw [hlc]; omega)

end Sqfs.Enc
