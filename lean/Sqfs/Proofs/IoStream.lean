/-
Helper lemmas for C12: the buffered file istream simulates the ideal window stream (`Sqfs.IoLoops.Spec.Ideal`)
under every script of short counts and `EINTR`s, and every generic client (`sqfs_istream_read/skip/splice`,
`istream_get_line`, `record_to_memory`) therefore observes the same thing over both.
-/
import Sqfs.Proofs.IoLoops
namespace Sqfs.IoLoops
open Sqfs.IoLoops.Spec

theorem precacheLoop_spec (B : Nat) : ∀ (fuel : Nat) (buf src : Bytes) (os : OS),
    noHard os.sc = true → buf.length ≤ B → os.sc.length + (B - buf.length) + 1 < fuel →
    ∃ os', precacheLoop B fuel buf src os =
        (.ok, buf ++ src.take (min (B - buf.length) src.length), src.drop (min (B - buf.length) src.length),
          decide (src.length < B - buf.length), os') ∧ noHard os'.sc = true := by
  intro fuel
  induction fuel with
  | zero => intro buf src os _ _ h; omega
  | succ fuel ih =>
    intro buf src os hn hb hf
    unfold precacheLoop
    by_cases hlt : buf.length < B
    · simp only [hlt, if_true]
      rcases call_noHard os ⟨0, B - buf.length, 0⟩ (min (B - buf.length) src.length) hn with
        ⟨os', hc, hn', hl⟩ | ⟨m, os', hc, hn', hl, hm, hpos⟩
      · rw [hc]; exact ih buf src os' hn' hb (by omega)
      · rw [hc]
        cases m with
        | zero =>
          have h0 : src.length = 0 := by omega
          have : src = [] := List.eq_nil_of_length_eq_zero h0
          subst this
          refine ⟨os', ?_, hn'⟩
          simp; omega
        | succ k =>
          simp only []
          have hk1 : k + 1 ≤ src.length := by omega
          have hk2 : k + 1 ≤ B - buf.length := by omega
          obtain ⟨os'', h', hn''⟩ := ih (buf ++ src.take (k+1)) (src.drop (k+1)) os' hn'
            (by simp; omega) (by simp; omega)
          refine ⟨os'', ?_, hn''⟩
          rw [h']
          have hlen : (buf ++ src.take (k+1)).length = buf.length + (k+1) := by simp; omega
          have hmin : min (B - (buf ++ src.take (k+1)).length) (src.drop (k+1)).length =
              min (B - buf.length) src.length - (k+1) := by
            rw [hlen]; simp only [List.length_drop]; omega
          rw [hmin]
          have hsplit : min (B - buf.length) src.length = (k+1) + (min (B - buf.length) src.length - (k+1)) := by omega
          refine Prod.ext ?_ (Prod.ext ?_ (Prod.ext ?_ (Prod.ext ?_ rfl)))
          · rfl
          · simp only [List.append_assoc]
            congr 1
            conv => rhs; rw [hsplit, List.take_add]
          · simp only [List.drop_drop]
            congr 1
            omega
          · simp only [hlen, List.length_drop, decide_eq_decide]
            omega
    · have hz : B - buf.length = 0 := by omega
      refine ⟨os, ?_, hn⟩
      simp [hlt, hz]

/-- The model state of the file istream `s` represents the ideal window `t` over the content `data`. -/
structure Rel (B : Nat) (data : Bytes) (s : IStream) (t : Ideal) : Prop where
  content : s.buf.drop s.off ++ s.src = data.drop t.pos
  avail : s.buf.length - s.off = t.avail
  offs : s.off = 0 ∨ s.off < s.buf.length
  cap : s.buf.length ≤ B
  eof : s.eof = true → s.src = []

theorem rel_init (B : Nat) (data : Bytes) : Rel B data (IStream.init data) ⟨0, 0⟩ :=
  ⟨by simp [IStream.init], by simp [IStream.init], Or.inl rfl, by simp [IStream.init], by simp [IStream.init]⟩

theorem rel_window {B : Nat} {data : Bytes} {s : IStream} {t : Ideal} (h : Rel B data s t) :
    s.buf.drop s.off = slice data t.pos t.avail := by
  unfold slice
  rw [← h.content, ← h.avail]
  have : (s.buf.drop s.off).length = s.buf.length - s.off := by simp
  rw [← this, List.take_left]

theorem rel_len {B : Nat} {data : Bytes} {s : IStream} {t : Ideal} (h : Rel B data s t) :
    t.avail + s.src.length = data.length - t.pos := by
  have := congrArg List.length h.content
  simp only [List.length_append, List.length_drop] at this
  rw [← h.avail]; exact this

theorem fileGet_sim (B : Nat) (hB : 0 < B) (data : Bytes) (s : IStream) (t : Ideal) (want : Nat) (os : OS)
    (hr : Rel B data s t) (hn : noHard os.sc = true) :
    ∃ s' os', fileGet B s want os =
        ((idealGet B data t want OS.full).1, (idealGet B data t want OS.full).2.1, s', os') ∧
      Rel B data s' (idealGet B data t want OS.full).2.2.1 ∧ noHard os'.sc = true := by
  have hlen := rel_len hr
  have hav := hr.avail
  have hcap := hr.cap
  unfold fileGet idealGet
  generalize (if want > B then B else want) = w
  have hcond : (s.buf.length = 0 ∨ s.buf.length - s.off < w) ↔ (t.avail = 0 ∨ t.avail < w) := by
    rcases hr.offs with h | h <;> omega
  by_cases hc : t.avail = 0 ∨ t.avail < w
  · have hc' := hcond.2 hc
    simp only [hc, hc', if_true]
    unfold precache
    by_cases he : s.eof = true
    · -- sticky end-of-file: the buffer already holds everything that is left
      have hsrc := hr.eof he
      have hmin : min B (data.length - t.pos) = t.avail := by
        rw [← hlen, hsrc]; simp; omega
      simp only [he, if_true, hmin]
      refine ⟨s, os, ?_, ?_, hn⟩
      · rw [rel_window hr]
        have : (slice data t.pos t.avail).length = t.avail := by
          rw [← rel_window hr]; simp; omega
        simp only [this, Bool.true_and, decide_eq_true_eq]
      · exact ⟨hr.content, hav, hr.offs, hcap, hr.eof⟩
    · simp only [he, Bool.false_eq_true, if_false]
      have hb1 : (s.buf.drop s.off).length = t.avail := by simp; omega
      obtain ⟨os', hp, hn'⟩ := precacheLoop_spec B (os.sc.length + (B - (s.buf.drop s.off).length) + 2)
        (s.buf.drop s.off) s.src os hn (by omega) (by omega)
      rw [hp]
      simp only []
      rw [hb1]
      generalize hn0 : min (B - t.avail) s.src.length = n
      have hmin : min B (data.length - t.pos) = t.avail + n := by omega
      have hnew : s.buf.drop s.off ++ s.src.take n = slice data t.pos (t.avail + n) := by
        unfold slice
        rw [← hr.content, ← hb1, List.take_append]
        have h1 : (s.buf.drop s.off).take ((s.buf.drop s.off).length + n) = s.buf.drop s.off :=
          List.take_of_length_le (by omega)
        rw [h1, Nat.add_sub_cancel_left]
      refine ⟨⟨decide (s.src.length < B - t.avail), 0, s.buf.drop s.off ++ s.src.take n, s.src.drop n⟩, os', ?_, ?_, hn'⟩
      · simp only [List.drop_zero, hmin, hnew]
        have hl : (slice data t.pos (t.avail + n)).length = t.avail + n := by
          rw [← hnew]; simp [hb1]; omega
        simp only [hl]
        congr 1
        by_cases hz : t.avail + n = 0
        · have : s.src.length < B - t.avail := by omega
          simp [hz, this]
        · have h1 : ¬ (t.avail = 0 ∧ n = 0) := by omega
          have h2 : ¬ (s.src.length < B - t.avail ∧ t.avail = 0 ∧ n = 0) := fun h => h1 h.2
          simp [h1, h2]
      · refine ⟨?_, ?_, Or.inl rfl, ?_, ?_⟩
        · simp only [List.drop_zero, List.append_assoc, List.take_append_drop]
          exact hr.content
        · simp [hb1, hmin]; omega
        · simp [hb1]; omega
        · intro h
          simp only [decide_eq_true_eq] at h
          simp; omega
  · have hc' : ¬ (s.buf.length = 0 ∨ s.buf.length - s.off < w) := fun h => hc (hcond.1 h)
    simp only [hc, hc', if_false]
    refine ⟨s, os, ?_, ⟨hr.content, hav, hr.offs, hcap, hr.eof⟩, hn⟩
    rw [rel_window hr]
    have : (slice data t.pos t.avail).length = t.avail := by
      rw [← rel_window hr]; simp; omega
    have hne : ¬ t.avail = 0 := by omega
    simp [this, hne]

theorem fileAdvance_sim (B : Nat) (data : Bytes) (s : IStream) (t : Ideal) (count : Nat) (hr : Rel B data s t) :
    Rel B data (fileAdvance s count) (idealAdv t count) := by
  have hav := hr.avail
  unfold fileAdvance idealAdv
  by_cases hc : count < t.avail
  · have hc' : count < s.buf.length - s.off := by omega
    simp only [hc, hc', if_true]
    refine ⟨?_, by simp; omega, Or.inr (by simp; omega), hr.cap, hr.eof⟩
    simp only
    have := congrArg (List.drop count) hr.content
    rw [List.drop_append_of_le_length (by simp; omega), List.drop_drop, List.drop_drop] at this
    exact this
  · have hc' : ¬ count < s.buf.length - s.off := by omega
    simp only [hc, hc', if_false]
    refine ⟨?_, by simp, Or.inl rfl, Nat.zero_le _, hr.eof⟩
    simp only [List.drop_nil, List.nil_append]
    have := congrArg (List.drop t.avail) hr.content
    rw [List.drop_append_of_le_length (by simp; omega), List.drop_drop] at this
    rw [List.drop_eq_nil_iff.2 (by omega), List.nil_append, List.drop_drop] at this
    exact this

/-- `I` (driven by an OS script without hard events) simulates `J`, a stream that never touches the OS. -/
structure Sim {σ τ : Type} (I : StreamI σ) (J : StreamI τ) (R : σ → τ → Prop) : Prop where
  get : ∀ s t want os, R s t → noHard os.sc = true →
    ∃ s' os', I.get s want os = ((J.get t want OS.full).1, (J.get t want OS.full).2.1, s', os') ∧
      R s' (J.get t want OS.full).2.2.1 ∧ noHard os'.sc = true
  pure : ∀ t want osj, J.get t want osj =
    ((J.get t want OS.full).1, (J.get t want OS.full).2.1, (J.get t want OS.full).2.2.1, osj)
  adv : ∀ s t n, R s t → R (I.adv s n) (J.adv t n)
  bound : ∀ s t, R s t → I.bound s = J.bound t

theorem istreamReadLoop_sim {σ τ : Type} {I : StreamI σ} {J : StreamI τ} {R : σ → τ → Prop} (hs : Sim I J R) :
    ∀ (fuel : Nat) (s : σ) (t : τ) (size : Nat) (acc : Bytes) (os osj : OS), R s t →
    noHard os.sc = true → noHard osj.sc = true →
    ∃ s' os', istreamReadLoop I fuel s size acc os = ((istreamReadLoop J fuel t size acc osj).1, s', os') ∧
      R s' (istreamReadLoop J fuel t size acc osj).2.1 ∧ noHard os'.sc = true ∧
      noHard (istreamReadLoop J fuel t size acc osj).2.2.sc = true := by
  intro fuel
  induction fuel with
  | zero => intro s t size acc os osj hr hn hj; exact ⟨s, os, rfl, hr, hn, hj⟩
  | succ fuel ih =>
    intro s t size acc os osj hr hn hj
    unfold istreamReadLoop
    by_cases h0 : size = 0
    · simp only [h0, if_true]; exact ⟨s, os, rfl, hr, hn, hj⟩
    · simp only [h0, if_false]
      obtain ⟨s1, os1, hg, hr1, hn1⟩ := hs.get s t size os hr hn
      rw [hg, hs.pure t size osj]
      generalize J.get t size OS.full = jr at *
      obtain ⟨r, w, t1, o⟩ := jr
      simp only at hr1 ⊢
      cases r with
      | eof => exact ⟨s1, os1, rfl, hr1, hn1, hj⟩
      | fail e => exact ⟨s1, os1, rfl, hr1, hn1, hj⟩
      | ok =>
        simp only []
        exact ih _ _ _ _ os1 osj (hs.adv _ _ _ hr1) hn1 hj

theorem istreamSkipLoop_sim {σ τ : Type} {I : StreamI σ} {J : StreamI τ} {R : σ → τ → Prop} (hs : Sim I J R) :
    ∀ (fuel : Nat) (s : σ) (t : τ) (size : Nat) (os osj : OS), R s t →
    noHard os.sc = true → noHard osj.sc = true →
    ∃ s' os', istreamSkipLoop I fuel s size os = ((istreamSkipLoop J fuel t size osj).1, s', os') ∧
      R s' (istreamSkipLoop J fuel t size osj).2.1 ∧ noHard os'.sc = true ∧
      noHard (istreamSkipLoop J fuel t size osj).2.2.sc = true := by
  intro fuel
  induction fuel with
  | zero => intro s t size os osj hr hn hj; exact ⟨s, os, rfl, hr, hn, hj⟩
  | succ fuel ih =>
    intro s t size os osj hr hn hj
    unfold istreamSkipLoop
    by_cases h0 : size = 0
    · simp only [h0, if_true]; exact ⟨s, os, rfl, hr, hn, hj⟩
    · simp only [h0, if_false]
      obtain ⟨s1, os1, hg, hr1, hn1⟩ := hs.get s t size os hr hn
      rw [hg, hs.pure t size osj]
      generalize J.get t size OS.full = jr at *
      obtain ⟨r, w, t1, o⟩ := jr
      simp only at hr1 ⊢
      cases r with
      | eof => exact ⟨s1, os1, rfl, hr1, hn1, hj⟩
      | fail e => exact ⟨s1, os1, rfl, hr1, hn1, hj⟩
      | ok =>
        simp only []
        exact ih _ _ _ os1 osj (hs.adv _ _ _ hr1) hn1 hj

/-- the state `file_append(data, size)` leaves when nothing fails -/
def appendRes (o : OStream) (d : Bytes) : OStream := stepRes o (.data d)

theorem fileAppend_det (st : OStream) (d : Bytes) (size : Nat) (hsz : size = d.length) (os : OS)
    (hn : noHard os.sc = true) :
    ∃ os', fileAppend st (some d) size os = (.ok, appendRes st d, os') ∧ noHard os'.sc = true := by
  subst hsz
  exact ostreamStep_det st (.data d) os hn

theorem istreamSpliceLoop_sim {σ τ : Type} {I : StreamI σ} {J : StreamI τ} {R : σ → τ → Prop} (hs : Sim I J R) :
    ∀ (fuel : Nat) (s : σ) (t : τ) (o : OStream) (size total : Nat) (os osj : OS), R s t →
    noHard os.sc = true → noHard osj.sc = true →
    ∃ s' os', istreamSpliceLoop I fuel s o size total os =
        ((istreamSpliceLoop J fuel t o size total osj).1, s', (istreamSpliceLoop J fuel t o size total osj).2.2.1, os') ∧
      R s' (istreamSpliceLoop J fuel t o size total osj).2.1 ∧ noHard os'.sc = true ∧
      noHard (istreamSpliceLoop J fuel t o size total osj).2.2.2.sc = true := by
  intro fuel
  induction fuel with
  | zero => intro s t o size total os osj hr hn hj; exact ⟨s, os, rfl, hr, hn, hj⟩
  | succ fuel ih =>
    intro s t o size total os osj hr hn hj
    unfold istreamSpliceLoop
    by_cases h0 : size = 0
    · simp only [h0, if_true]; exact ⟨s, os, rfl, hr, hn, hj⟩
    · simp only [h0, if_false]
      obtain ⟨s1, os1, hg, hr1, hn1⟩ := hs.get s t size os hr hn
      rw [hg, hs.pure t size osj]
      generalize J.get t size OS.full = jr at *
      obtain ⟨r, w, t1, o1⟩ := jr
      simp only at hr1 ⊢
      cases r with
      | eof => exact ⟨s1, os1, rfl, hr1, hn1, hj⟩
      | fail e => exact ⟨s1, os1, rfl, hr1, hn1, hj⟩
      | ok =>
        simp only []
        generalize hdiff : (if w.length > size then size else w.length) = diff
        have hlen : diff = (w.take diff).length := by
          rw [← hdiff]; split <;> simp <;> omega
        obtain ⟨os2, ha, hn2⟩ := fileAppend_det o (w.take diff) diff hlen os1 hn1
        obtain ⟨osj2, hb, hj2⟩ := fileAppend_det o (w.take diff) diff hlen osj hj
        rw [ha, hb]
        simp only []
        exact ih _ _ _ _ _ os2 osj2 (hs.adv _ _ _ hr1) hn2 hj2

theorem getLineLoop_sim {σ τ : Type} {I : StreamI σ} {J : StreamI τ} {R : σ → τ → Prop} (hs : Sim I J R)
    (flags : Nat) :
    ∀ (fuel : Nat) (s : σ) (t : τ) (acc : Bytes) (ln : Nat) (os osj : OS), R s t →
    noHard os.sc = true → noHard osj.sc = true →
    ∃ s' os', getLineLoop I flags fuel s acc ln os =
        ((getLineLoop J flags fuel t acc ln osj).1, s', (getLineLoop J flags fuel t acc ln osj).2.2.1, os') ∧
      R s' (getLineLoop J flags fuel t acc ln osj).2.1 ∧ noHard os'.sc = true ∧
      noHard (getLineLoop J flags fuel t acc ln osj).2.2.2.sc = true := by
  intro fuel
  induction fuel with
  | zero => intro s t acc ln os osj hr hn hj; exact ⟨s, os, rfl, hr, hn, hj⟩
  | succ fuel ih =>
    intro s t acc ln os osj hr hn hj
    unfold getLineLoop
    obtain ⟨s1, os1, hg, hr1, hn1⟩ := hs.get s t 0 os hr hn
    rw [hg, hs.pure t 0 osj]
    generalize J.get t 0 OS.full = jr at *
    obtain ⟨r, w, t1, o1⟩ := jr
    simp only at hr1 ⊢
    cases r with
    | fail e => exact ⟨s1, os1, rfl, hr1, hn1, hj⟩
    | eof =>
      simp only []
      by_cases ha : acc.length = 0
      · simp only [ha, if_true]; exact ⟨s1, os1, rfl, hr1, hn1, hj⟩
      · simp only [ha, if_false]
        split <;> exact ⟨s1, os1, rfl, hr1, hn1, hj⟩
    | ok =>
      simp only []
      by_cases hi : findNl w < w.length
      · simp only [hi, if_true]
        split
        · exact ⟨_, os1, rfl, hs.adv _ _ _ hr1, hn1, hj⟩
        · exact ih _ _ _ _ os1 osj (hs.adv _ _ _ hr1) hn1 hj
      · simp only [hi, if_false]
        exact ih _ _ _ _ os1 osj (hs.adv _ _ _ hr1) hn1 hj

theorem recordToMemory_sim {σ τ : Type} {I : StreamI σ} {J : StreamI τ} {R : σ → τ → Prop} (hs : Sim I J R)
    (s : σ) (t : τ) (size : Nat) (os osj : OS) (hr : R s t) (hn : noHard os.sc = true) (hj : noHard osj.sc = true) :
    ∃ s' os', recordToMemory I s size os = ((recordToMemory J t size osj).1, s', os') ∧
      R s' (recordToMemory J t size osj).2.1 ∧ noHard os'.sc = true ∧
      noHard (recordToMemory J t size osj).2.2.sc = true := by
  unfold recordToMemory istreamRead
  obtain ⟨s1, os1, h1, hr1, hn1, hj1⟩ := istreamReadLoop_sim hs
    ((if size > 0x7FFFFFFF then 0x7FFFFFFF else size) + 1) s t (if size > 0x7FFFFFFF then 0x7FFFFFFF else size) [] os osj hr hn hj
  simp only [] at h1 ⊢
  rw [h1]
  generalize istreamReadLoop J ((if size > 0x7FFFFFFF then 0x7FFFFFFF else size) + 1) t
    (if size > 0x7FFFFFFF then 0x7FFFFFFF else size) [] osj = jr at *
  obtain ⟨r, t1, oj1⟩ := jr
  simp only at hr1 hj1 ⊢
  cases r with
  | fail e => exact ⟨s1, os1, rfl, hr1, hn1, hj1⟩
  | n d =>
    simp only []
    by_cases hd : d.length < size
    · simp only [hd, if_true]; exact ⟨s1, os1, rfl, hr1, hn1, hj1⟩
    · simp only [hd, if_false]
      by_cases hp : size % 512 ≠ 0
      · simp only [if_pos hp]
        unfold istreamSkip
        obtain ⟨s2, os2, h2, hr2, hn2, hj2⟩ := istreamSkipLoop_sim hs (512 - size % 512 + 1) s1 t1 (512 - size % 512) os1 oj1 hr1 hn1 hj1
        rw [h2]
        generalize istreamSkipLoop J (512 - size % 512 + 1) t1 (512 - size % 512) oj1 = jr2 at *
        obtain ⟨e, t2, oj2⟩ := jr2
        simp only at hr2 hj2 ⊢
        cases e <;> exact ⟨s2, os2, rfl, hr2, hn2, hj2⟩
      · simp only [if_neg hp]; exact ⟨s1, os1, rfl, hr1, hn1, hj1⟩

/-- client states that agree on everything except the representation of the stream -/
def RC {σ τ : Type} (R : σ → τ → Prop) (c : Client σ) (c' : Client τ) : Prop :=
  R c.s c'.s ∧ c.o = c'.o ∧ c.ln = c'.ln

theorem stepOp_sim {σ τ : Type} {I : StreamI σ} {J : StreamI τ} {R : σ → τ → Prop} (hs : Sim I J R)
    (c : Client σ) (c' : Client τ) (op : Op) (os osj : OS) (hr : RC R c c') (hn : noHard os.sc = true)
    (hj : noHard osj.sc = true) :
    (stepOp I c op os).1 = (stepOp J c' op osj).1 ∧ RC R (stepOp I c op os).2.1 (stepOp J c' op osj).2.1 ∧
    noHard (stepOp I c op os).2.2.sc = true ∧ noHard (stepOp J c' op osj).2.2.sc = true := by
  obtain ⟨hrs, hro, hrl⟩ := hr
  cases op with
  | get want =>
    obtain ⟨s1, os1, hg, hr1, hn1⟩ := hs.get c.s c'.s want os hrs hn
    simp only [stepOp, hg, hs.pure c'.s want osj]
    exact ⟨trivial, ⟨hr1, hro, hrl⟩, hn1, hj⟩
  | adv count =>
    simp only [stepOp]
    exact ⟨trivial, ⟨hs.adv _ _ _ hrs, hro, hrl⟩, hn, hj⟩
  | read size =>
    obtain ⟨s1, os1, h1, hr1, hn1, hj1⟩ := istreamReadLoop_sim hs
      ((if size > 0x7FFFFFFF then 0x7FFFFFFF else size) + 1) c.s c'.s (if size > 0x7FFFFFFF then 0x7FFFFFFF else size) [] os osj hrs hn hj
    simp only [stepOp, istreamRead, h1]
    exact ⟨trivial, ⟨hr1, hro, hrl⟩, hn1, hj1⟩
  | skip size =>
    obtain ⟨s1, os1, h1, hr1, hn1, hj1⟩ := istreamSkipLoop_sim hs (size + 1) c.s c'.s size os osj hrs hn hj
    simp only [stepOp, istreamSkip, h1]
    exact ⟨trivial, ⟨hr1, hro, hrl⟩, hn1, hj1⟩
  | splice size =>
    obtain ⟨s1, os1, h1, hr1, hn1, hj1⟩ := istreamSpliceLoop_sim hs
      ((if size > 0x7FFFFFFF then 0x7FFFFFFF else size) + 1) c.s c'.s c.o (if size > 0x7FFFFFFF then 0x7FFFFFFF else size) 0 os osj hrs hn hj
    simp only [stepOp, istreamSplice, h1, ← hro]
    exact ⟨trivial, ⟨hr1, rfl, hrl⟩, hn1, hj1⟩
  | line flags =>
    obtain ⟨s1, os1, h1, hr1, hn1, hj1⟩ := getLineLoop_sim hs flags (I.bound c.s + 2) c.s c'.s [] c.ln os osj hrs hn hj
    simp only [stepOp, h1, ← hs.bound _ _ hrs, ← hrl]
    exact ⟨trivial, ⟨hr1, hro, rfl⟩, hn1, hj1⟩
  | record size =>
    obtain ⟨s1, os1, h1, hr1, hn1, hj1⟩ := recordToMemory_sim hs c.s c'.s size os osj hrs hn hj
    simp only [stepOp, h1]
    exact ⟨trivial, ⟨hr1, hro, hrl⟩, hn1, hj1⟩

theorem runOps_sim {σ τ : Type} {I : StreamI σ} {J : StreamI τ} {R : σ → τ → Prop} (hs : Sim I J R) :
    ∀ (ops : List Op) (c : Client σ) (c' : Client τ) (os osj : OS), RC R c c' → noHard os.sc = true →
    noHard osj.sc = true →
    (runOps I c ops os).1 = (runOps J c' ops osj).1 ∧ RC R (runOps I c ops os).2.1 (runOps J c' ops osj).2.1 := by
  intro ops
  induction ops with
  | nil => intro c c' os osj hr _ _; exact ⟨rfl, hr⟩
  | cons op ops ih =>
    intro c c' os osj hr hn hj
    obtain ⟨h1, h2, h3, h4⟩ := stepOp_sim hs c c' op os osj hr hn hj
    obtain ⟨h5, h6⟩ := ih _ _ _ _ h2 h3 h4
    simp only [runOps]
    exact ⟨by rw [h1, h5], h6⟩

theorem file_sim (B : Nat) (hB : 0 < B) (data : Bytes) :
    Sim (fileStream B) (idealStream B data) (Rel B data) where
  get := fun s t want os hr hn => fileGet_sim B hB data s t want os hr hn
  pure := fun t want osj => rfl
  adv := fun s t n hr => fileAdvance_sim B data s t n hr
  bound := fun s t hr => by
    have h1 := rel_len hr
    have h2 := hr.avail
    simp only [fileStream, idealStream]
    rw [h2, h1]

end Sqfs.IoLoops
