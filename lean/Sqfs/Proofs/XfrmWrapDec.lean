/-
C15 — the decompressing side of the backends' `process_data` loop (gzip.c / xz.c / bzip2.c):
library-level calling convention ⇒ the loop is a codec that meets `DecContract`.
-/
import Sqfs.Proofs.XfrmWrap
namespace Sqfs.Xfrm

theorem IsPre.drop {a b : Bytes} (n : Nat) (h : IsPre a b) : IsPre (a.drop n) (b.drop n) := by
  obtain ⟨t, rfl⟩ := h
  by_cases hn : n ≤ a.length
  · exact ⟨t, by rw [List.drop_append_of_le_length hn]⟩
  · have h1 : a.drop n = [] := List.drop_of_length_le (by omega)
    rw [h1]; exact IsPre.nil _

section DecWrap
variable {τ : Type} {L : Lib τ} {b : Backend} {Dec : Bytes → Option Bytes}

/-- what one `process_data` call of a decompressing backend achieves inside a valid member `u ++ w` -/
def DecPost (hL : LibDecContract L b Dec) (s : τ) (u v w x inp : Bytes) (room : Nat) (fl : Flush) (r : StepOut τ) : Prop :=
  (fl = Flush.full ∧ inp.length < w.length ∧ r.consumed = inp.length ∧ (r.res = Res.error ∨ (r.res = Res.streamEnd ∧ u = [] ∧ inp = [])) ∧
    (u ≠ [] → r.res = Res.error)) ∨
  (r.res ≠ Res.error ∧ r.consumed ≤ inp.length ∧ r.consumed ≤ w.length ∧ r.out.length ≤ room ∧ IsPre (v ++ r.out) x ∧
    (r.res = Res.streamEnd → r.consumed = w.length ∧ v ++ r.out = x ∧ hL.R r.st [] []) ∧
    (r.res ≠ Res.streamEnd → hL.R r.st (u ++ inp.take r.consumed) (v ++ r.out)) ∧
    (r.res = Res.bufferFull → r.out ≠ []) ∧
    (0 < room → inp ≠ [] → 0 < r.consumed ∨ hL.pend r.st < hL.pend s) ∧
    (0 < room → fl = Flush.full → inp = [] → r.out ≠ [] ∨ r.res = Res.streamEnd))

theorem wrapProcess_dec_spec (hL : LibDecContract L b Dec) {s : τ} {u v : Bytes} (w x tail inp : Bytes) (room : Nat)
    (fl : Flush) (hfl : fl ≠ Flush.sync) (hR : hL.R s u v) (hdec : Dec (u ++ w) = some x) (hin : IsPre inp (w ++ tail)) :
    ∃ r, wrapProcess L b false s inp room fl = some r ∧ DecPost hL s u v w x inp room fl r := by
  have main := iter_fuel (wrapBody L b false fl)
    (fun a => a.2.2.2.1 ≤ inp.length ∧ a.2.2.2.1 ≤ w.length ∧ a.2.1 = inp.drop a.2.2.2.1 ∧ a.2.2.2.2.length ≤ room ∧
      a.2.2.1 = room - a.2.2.2.2.length ∧ hL.R a.1 (u ++ inp.take a.2.2.2.1) (v ++ a.2.2.2.2) ∧ IsPre (v ++ a.2.2.2.2) x ∧
      ((a.1 = s ∧ a.2.2.2.1 = 0 ∧ a.2.2.2.2 = []) ∨
        ((inp ≠ [] → 0 < a.2.2.2.1 ∨ hL.pend a.1 < hL.pend s) ∧ (inp = [] → a.2.2.2.2 ≠ []))))
    (DecPost hL s u v w x inp room fl)
    (fun a => a.2.1.length + a.2.2.1) ?_ (s, inp, room, 0, [])
    ⟨Nat.zero_le _, Nat.zero_le _, by simp, by simp, by simp, by simpa using hR, by
      have := (hL.valid w x tail [] 1 fl hfl hR hdec (IsPre.nil _) (by omega)).2.2.2.2.1
      obtain ⟨z, hz⟩ := this
      exact ⟨(L.call s [] 1 fl).out ++ z, by simp [hz, List.append_assoc]⟩, Or.inl ⟨rfl, rfl, rfl⟩⟩
  · obtain ⟨r, hr, hq⟩ := main
    refine ⟨r, ?_, hq⟩
    simp only [wrapProcess, wrapLoop]
    exact iter_mono _ _ _ _ hr _ (by simp)
  · rintro ⟨st, inp', room', ai, ao⟩ ⟨hai, haw, hinp, hao, hroom, hRs, hpre, htrack⟩
    simp only at hai haw hinp hao hroom hRs hpre htrack
    by_cases hcond : ((decide (0 < inp'.length) || decide (fl = Flush.full)) && decide (0 < room')) = true
    · have hr0 : 0 < room' := by simp only [Bool.and_eq_true, decide_eq_true_eq] at hcond; exact hcond.2
      have hdec' : Dec ((u ++ inp.take ai) ++ w.drop ai) = some x := by
        have : inp.take ai = w.take ai := by
          obtain ⟨z, hz⟩ := hin
          have := congrArg (List.take ai) hz
          rw [List.take_append_of_le_length haw, List.take_append_of_le_length hai] at this
          exact this.symm
        rw [this, List.append_assoc, List.take_append_drop]; exact hdec
      have hin' : IsPre inp' (w.drop ai ++ tail) := by
        rw [hinp]
        have := hin.drop ai
        rwa [List.drop_append_of_le_length haw] at this
      obtain ⟨hret, hcl, hcw, hol, hpo, hend, hkeep⟩ := hL.valid (w.drop ai) x tail inp' room' fl hfl hRs hdec' hin' hr0
      have hlen : inp'.length = inp.length - ai := by rw [hinp]; simp
      have hwl : (w.drop ai).length = w.length - ai := by simp
      have hnoerr : isLibError b (L.call st inp' room' fl).ret = false := by
        rcases hret with h | h | ⟨h, _⟩ <;> rw [h] <;> cases b <;> rfl
      have hnobz : ¬ (b = Backend.bzip2 ∧ (L.call st inp' room' fl).ret = LibRet.bufError) := by
        rintro ⟨h1, h2⟩
        rcases hret with h | h | ⟨_, h⟩
        · rw [h] at h2; cases h2
        · rw [h] at h2; cases h2
        · exact h h1
      have htake : u ++ inp.take ai ++ inp'.take (L.call st inp' room' fl).consumed =
          u ++ inp.take (ai + (L.call st inp' room' fl).consumed) := by
        rw [List.append_assoc, hinp, take_add_drop]
      have hpo' : IsPre (v ++ (ao ++ (L.call st inp' room' fl).out)) x := by rw [← List.append_assoc]; exact hpo
      -- progress of the whole call
      have hprog' : inp ≠ [] → 0 < ai + (L.call st inp' room' fl).consumed ∨
          hL.pend (if (L.call st inp' room' fl).ret = LibRet.streamEnd then L.reset (L.call st inp' room' fl).st
                   else (L.call st inp' room' fl).st) < hL.pend s := by
        intro hne
        by_cases hpos : 0 < ai + (L.call st inp' room' fl).consumed
        · exact Or.inl hpos
        · right
          have hai0 : ai = 0 := by omega
          have hinp0 : inp' = inp := by rw [hinp, hai0]; simp
          rcases hL.progress (w.drop ai) x tail inp' room' fl hfl hRs hdec' hin' hr0 (by rw [hinp0]; exact hne) with h | h
          · omega
          · rcases htrack with ⟨h1, _, _⟩ | ⟨h1, _⟩
            · rw [← h1]; exact h
            · rcases h1 hne with h1 | h1
              · omega
              · omega
      have hnonempty : inp = [] → ao ++ (L.call st inp' room' fl).out ≠ [] ∨ (L.call st inp' room' fl).out = [] := by
        intro _
        by_cases h : (L.call st inp' room' fl).out = []
        · exact Or.inr h
        · left; intro h'; exact h (List.append_eq_nil_iff.1 h').2
      simp only [wrapBody, hcond, if_true, hnobz, if_false, hnoerr, Bool.false_eq_true, Bool.not_false, Bool.true_and]
      by_cases hE : (L.call st inp' room' fl).ret = LibRet.streamEnd
      · -- the library reports the end of the member
        rw [if_pos hE]
        obtain ⟨e1, e2, e3⟩ := hend hE
        refine ⟨?_, fun a' h => (by cases h)⟩
        intro r hr; cases hr
        right
        refine ⟨by simp, by simp only; omega, by simp only; omega, by simp only [List.length_append]; omega, hpo',
          fun _ => ⟨by simp only; omega, by rw [← List.append_assoc]; exact e2, e3⟩, fun h => absurd rfl h, fun h => (by cases h), ?_, fun _ _ _ => Or.inr rfl⟩
        intro _ hne
        have := hprog' hne
        rw [if_pos hE] at this
        exact this
      · rw [if_neg hE]
        have hkeep' := hkeep hE
        rw [htake] at hkeep'
        have hprogN : inp ≠ [] → 0 < ai + (L.call st inp' room' fl).consumed ∨ hL.pend (L.call st inp' room' fl).st < hL.pend s := by
          intro hne; have := hprog' hne; rw [if_neg hE] at this; exact this
        by_cases hrule : (decide ((inp'.drop (L.call st inp' room' fl).consumed).length = 0) &&
            decide ((L.call st inp' room' fl).out.length = 0) && decide (fl = Flush.full)) = true
        · -- "no more input will follow and nothing is left to unpack"
          rw [if_pos hrule]
          simp only [Bool.and_eq_true, decide_eq_true_eq, List.length_drop] at hrule
          obtain ⟨⟨hall, hout⟩, hfull⟩ := hrule
          have hout' : (L.call st inp' room' fl).out = [] := List.eq_nil_of_length_eq_zero hout
          have hcons : ai + (L.call st inp' room' fl).consumed = inp.length := by omega
          -- the member cannot be complete: a call that completes it hands something out or ends it
          have hshort : inp.length < w.length := by
            by_cases hlt : inp.length < w.length
            · exact hlt
            · exfalso
              have hcw' : (L.call st inp' room' fl).consumed = (w.drop ai).length := by omega
              rcases hL.drain (w.drop ai) x tail inp' room' fl hfl hRs hdec' hin' hr0 hcw' with h | h
              · exact h hout'
              · exact hE h
          have htot := hL.total hkeep'
          by_cases hti : 0 < L.totalIn (L.call st inp' room' fl).st
          · rw [if_pos hti]
            refine ⟨?_, fun a' h => (by cases h)⟩
            intro r hr; cases hr
            left
            exact ⟨hfull, hshort, hcons, Or.inl rfl, fun _ => rfl⟩
          · rw [if_neg hti]
            have hu0 : u ++ inp.take (ai + (L.call st inp' room' fl).consumed) = [] := htot.1 (by omega)
            obtain ⟨hu, htk⟩ := List.append_eq_nil_iff.1 hu0
            have hinp0 : inp = [] := by
              rw [hcons, List.take_length] at htk; exact htk
            refine ⟨?_, fun a' h => (by cases h)⟩
            intro r hr; cases hr
            left
            exact ⟨hfull, hshort, hcons, Or.inr ⟨rfl, hu, hinp0⟩, fun h => absurd hu h⟩
        · rw [if_neg hrule]
          have hwork : inp' ≠ [] ∨ fl = Flush.full := by
            simp only [Bool.and_eq_true, Bool.or_eq_true, decide_eq_true_eq] at hcond
            rcases hcond.1 with h | h
            · left; intro h0; rw [h0] at h; simp at h
            · right; exact h
          by_cases hbuf : (L.call st inp' room' fl).ret = LibRet.bufError
          · rw [if_pos hbuf]
            have hbfout : (L.call st inp' room' fl).out ≠ [] := by
              intro hnil
              obtain ⟨q1, q2⟩ := hL.buf_quiet (w.drop ai) x tail inp' room' fl hfl hRs hdec' hin' hr0 hbuf hnil
              apply hrule
              have hfull : fl = Flush.full := by
                rcases q2 with h | h
                · exact h
                · rcases hwork with h' | h'
                  · exact absurd h h'
                  · exact h'
              simp only [Bool.and_eq_true, decide_eq_true_eq]
              exact ⟨⟨by rw [List.length_drop, q1]; omega, by rw [hnil]; rfl⟩, hfull⟩
            refine ⟨?_, fun a' h => (by cases h)⟩
            intro r hr; cases hr
            right
            refine ⟨by simp, by simp only; omega, by simp only; omega, by simp only [List.length_append]; omega, hpo',
              fun h => (by cases h), fun _ => by rw [← List.append_assoc]; exact hkeep', ?_, fun _ hne => hprogN hne, ?_⟩
            · -- BUFFER_FULL comes with output: otherwise the end-of-input rule would have applied
              intro _ hnil
              exact hbfout (List.append_eq_nil_iff.1 hnil).2
            · intro _ _ _
              left; intro hnil
              exact hbfout (List.append_eq_nil_iff.1 hnil).2
          · rw [if_neg hbuf]
            have hok : (L.call st inp' room' fl).ret = LibRet.ok := by
              rcases hret with h | h | ⟨h, _⟩
              · exact h
              · exact absurd h hE
              · exact absurd h hbuf
            -- with no input left the end-of-input rule did not apply, so something was handed out
            have hout_eof : inp' = [] → (L.call st inp' room' fl).out ≠ [] := by
              intro h0 hnil
              apply hrule
              have hfull : fl = Flush.full := by
                rcases hwork with h' | h'
                · exact absurd h0 h'
                · exact h'
              simp only [Bool.and_eq_true, decide_eq_true_eq]
              exact ⟨⟨by rw [List.length_drop, h0]; simp, by rw [hnil]; rfl⟩, hfull⟩
            have hbytes : 0 < (L.call st inp' room' fl).consumed + (L.call st inp' room' fl).out.length := by
              by_cases h0 : inp' = []
              · have := hout_eof h0
                cases hh : (L.call st inp' room' fl).out with
                | nil => exact absurd hh this
                | cons a t => simp only [List.length_cons]; omega
              · exact hL.bytes (w.drop ai) x tail inp' room' fl hfl hRs hdec' hin' hr0 h0 hok
            refine ⟨fun r h => (by cases h), ?_⟩
            intro a' ha'; cases ha'
            refine ⟨⟨by simp only; omega, by simp only; omega, by simp only; rw [hinp, List.drop_drop], by simp only [List.length_append]; omega,
              by simp only [List.length_append]; omega, by rw [← List.append_assoc]; exact hkeep', hpo', Or.inr ⟨hprogN, ?_⟩⟩, ?_⟩
            · intro hnil hh
              have : inp' = [] := by rw [hinp, hnil]; simp
              exact hout_eof this (List.append_eq_nil_iff.1 hh).2
            · simp only [List.length_drop]; omega
    · -- the loop condition is false: leave with XFRM_STREAM_OK
      simp only [wrapBody, hcond, Bool.false_eq_true, if_false]
      refine ⟨?_, fun a' h => (by cases h)⟩
      intro r hr; cases hr
      right
      have hnotstart : ¬ (st = s ∧ ai = 0 ∧ ao = []) ∨ ¬ (0 < room ∧ (inp ≠ [] ∨ fl = Flush.full)) := by
        by_cases hs : st = s ∧ ai = 0 ∧ ao = []
        · right
          rintro ⟨hr0, hw⟩
          apply hcond
          obtain ⟨_, h2, h3⟩ := hs
          have hr' : 0 < room' := by rw [hroom, h3]; simpa using hr0
          have : 0 < inp'.length ∨ fl = Flush.full := by
            rcases hw with h | h
            · left; rw [hinp, h2]
              cases inp with
              | nil => exact absurd rfl h
              | cons a t => simp
            · right; exact h
          rcases this with h | h <;> simp [h, hr']
        · exact Or.inl hs
      refine ⟨by simp, hai, haw, hao, hpre, fun h => (by cases h), fun _ => hRs, fun h => (by cases h), ?_, ?_⟩
      · intro hr0 hne
        rcases htrack with h | ⟨h, _⟩
        · rcases hnotstart with h' | h'
          · exact absurd h h'
          · exact absurd ⟨hr0, Or.inl hne⟩ h'
        · exact h hne
      · intro hr0 hfull hnil
        rcases htrack with h | ⟨_, h⟩
        · rcases hnotstart with h' | h'
          · exact absurd h h'
          · exact absurd ⟨hr0, Or.inr hfull⟩ h'
        · exact Or.inl (h hnil)

theorem wrapProcess_dec_idle (hL : LibDecContract L b Dec) {s : τ} (room : Nat) (hR : hL.R s [] []) (hr : 0 < room) :
    wrapProcess L b false s [] room Flush.full = some ⟨(L.call s [] room Flush.full).st, 0, [], Res.streamEnd⟩ ∧
    hL.R (L.call s [] room Flush.full).st [] [] := by
  obtain ⟨hret, hout, hc, hR'⟩ := hL.idle room Flush.full (by decide) hR hr
  have htot : L.totalIn (L.call s [] room Flush.full).st = 0 := (hL.total hR').2 rfl
  have hnoerr : isLibError b (L.call s [] room Flush.full).ret = false := by
    rcases hret with h | ⟨h, _⟩ <;> rw [h] <;> cases b <;> rfl
  have hnobz : ¬ (b = Backend.bzip2 ∧ (L.call s [] room Flush.full).ret = LibRet.bufError) := by
    rintro ⟨h1, h2⟩
    rcases hret with h | ⟨_, h⟩
    · rw [h] at h2; cases h2
    · exact h h1
  have hne : (L.call s [] room Flush.full).ret ≠ LibRet.streamEnd := by
    rcases hret with h | ⟨h, _⟩ <;> rw [h] <;> simp
  refine ⟨?_, hR'⟩
  simp only [wrapProcess, wrapLoop, List.length_nil, Nat.zero_add, iter, wrapBody]
  simp [hr, hnobz, hnoerr, hne, hout, hc, htot]

/-- the decompressing backend object is a codec that meets the decoder contract -/
def wrapDecContract (hL : LibDecContract L b Dec) : DecContract (wrapCodec L b false) Dec where
  R := hL.R
  pend := hL.pend
  init := hL.init
  dec_nil := hL.dec_nil
  valid := by
    intro s u v w x tail inp room fl hns hR hd hin hfl
    obtain ⟨r, hr, hq⟩ := wrapProcess_dec_spec hL w x tail inp room fl hns hR hd hin
    simp only [wrapCodec, hr]
    rcases hq with ⟨h1, h2, _⟩ | ⟨h1, h2, h3, h4, h5, h6, h7, h8, _, _⟩
    · have := hfl h1; omega
    · exact ⟨h1, h2, h3, h4, h5, h6, h7, h8⟩
  progress := by
    intro s u v w x tail inp room fl hns hR hd hin hfl hr0 hne
    obtain ⟨r, hr, hq⟩ := wrapProcess_dec_spec hL w x tail inp room fl hns hR hd hin
    simp only [wrapCodec, hr]
    rcases hq with ⟨h1, h2, _⟩ | ⟨_, _, _, _, _, _, _, _, h9, _⟩
    · have := hfl h1; omega
    · exact h9 hr0 hne
  drain := by
    intro s u v x room hR hd hr0
    obtain ⟨r, hr, hq⟩ := wrapProcess_dec_spec hL [] x [] [] room Flush.full (by decide) hR (by simpa using hd) (IsPre.nil _)
    simp only [wrapCodec, hr]
    rcases hq with ⟨_, h2, _⟩ | ⟨_, _, _, _, _, _, _, _, _, h10⟩
    · simp at h2
    · exact h10 hr0 rfl rfl
  idle_eof := by
    intro s room hR hr0
    obtain ⟨h1, h2⟩ := wrapProcess_dec_idle hL room hR hr0
    simp only [wrapCodec, h1]
    exact ⟨by simp, trivial, trivial, h2⟩
  truncated := by
    intro s u v w x room hR hu hw hd hr0
    obtain ⟨r, hr, hq⟩ := wrapProcess_dec_spec hL w x [] [] room Flush.full (by decide) hR hd (IsPre.nil _)
    simp only [wrapCodec, hr]
    have hw0 : 0 < w.length := by
      cases w with
      | nil => exact absurd rfl hw
      | cons a t => simp
    rcases hq with ⟨_, _, _, _, h5⟩ | ⟨h1, h2, h3, h4, h5, h6, h7, _, _, h10⟩
    · exact Or.inl (h5 hu)
    · right
      have hc0 : r.consumed = 0 := by simpa using h2
      have hne : r.res ≠ Res.streamEnd := by
        intro he; have := (h6 he).1; omega
      have hout : r.out ≠ [] := by
        rcases h10 hr0 rfl rfl with h | h
        · exact h
        · exact absurd h hne
      refine ⟨hne, hout, hc0, h4, h5, ?_⟩
      have := h7 hne
      rwa [hc0, List.take_zero, List.append_nil] at this

end DecWrap

/-! ### non-vacuity: the toy library meets the decompression convention, under each backend's return codes -/
namespace Toy

/-- the library call in terms of the engine's quantities -/
theorem decLib_call_eq (P : Params) (b : Backend) (s : LibSt Dec) (inp : Bytes) (room : Nat) (fl : Flush)
    (hb : s.eng.bad = false) (hcb : (decCore P s.eng inp room).bad = false) :
    (decLib P b).call s inp room fl =
      if (decCore P s.eng inp room).done && decide (((decCore P s.eng inp room).q.drop (decCore P s.eng inp room).m).length = 0) then
        { st := ⟨decFresh, s.total + (decCore P s.eng inp room).n⟩, consumed := (decCore P s.eng inp room).n,
          out := (decCore P s.eng inp room).q.take (decCore P s.eng inp room).m, ret := LibRet.streamEnd }
      else
        { st := ⟨⟨(decCore P s.eng inp room).q.drop (decCore P s.eng inp room).m, (decCore P s.eng inp room).inData,
                  (decCore P s.eng inp room).fresh, (decCore P s.eng inp room).done, false⟩, s.total + (decCore P s.eng inp room).n⟩,
          consumed := (decCore P s.eng inp room).n, out := (decCore P s.eng inp room).q.take (decCore P s.eng inp room).m,
          ret := if (decCore P s.eng inp room).n = 0 ∧ (decCore P s.eng inp room).m = 0 then stuckRet b else LibRet.ok } := by
  simp only [decLib, hb, hcb, Bool.false_eq_true, if_false]

def DecLibR (s : LibSt Dec) (u v : Bytes) : Prop := DecR s.eng u v ∧ s.total = u.length

/-- with input the engine is never stuck -/
theorem dec_not_stuck (P : Params) {s : Dec} {u v w x : Bytes} (hR : DecR s u v) (hd : decode (u ++ w) = some x)
    (inp tail : Bytes) (hin : IsPre inp (w ++ tail)) {room : Nat} (hr : 0 < room) (hne : inp ≠ [])
    (hnotend : ¬ ((decCore P s inp room).done = true ∧ ((decCore P s inp room).q.drop (decCore P s inp room).m).length = 0)) :
    ¬ ((decCore P s inp room).n = 0 ∧ (decCore P s inp room).m = 0) := by
  obtain ⟨c1, c2, c3, c4, c5, c6, c7, c8, c9, c10, c11, c12⟩ := decCore_spec P hR hd inp tail hin room
  rintro ⟨hn, hm⟩
  have hq : (decCore P s inp room).q.length = 0 := by rw [c9] at hm; omega
  cases hdn : s.done with
  | true =>
    apply hnotend
    exact ⟨c12 hdn, by rw [List.length_drop, hq]; omega⟩
  | false =>
    by_cases hqt : s.q.length ≤ P.thresh
    · have := c11 hdn hqt hne; omega
    · have := c10 hn; rw [this] at hq; omega

def decLibContract (P : Params) (b : Backend) : LibDecContract (decLib P b) b decode where
  R := DecLibR
  pend s := decPend s.eng
  init := ⟨DecR_fresh, rfl⟩
  dec_nil := by simp [decode]
  total := by
    intro s u v hR
    show s.total = 0 ↔ u = []
    rw [hR.2]
    constructor
    · intro h; exact List.eq_nil_of_length_eq_zero h
    · intro h; rw [h]; rfl
  valid := by
    intro s u v w x tail inp room fl hns hR hd hin hr
    obtain ⟨c1, c2, c3, c4, c5, c6, c7, c8, c9, _, _, _⟩ := decCore_spec P hR.1 hd inp tail hin room
    rw [decLib_call_eq P b s inp room fl hR.1.1 c1]
    generalize decCore P s.eng inp room = c at *
    have htl : (c.q.take c.m).length ≤ room := by rw [List.length_take, c9]; omega
    have hpre : IsPre (v ++ c.q.take c.m) x := pre_take c.m c5
    by_cases h1 : (c.done && decide ((c.q.drop c.m).length = 0)) = true
    · rw [if_pos h1]
      simp only [Bool.and_eq_true, decide_eq_true_eq] at h1
      exact ⟨Or.inr (Or.inl rfl), c2, c3, htl, hpre,
        fun _ => ⟨c6.1 h1.1, by rw [drop_take_len h1.2]; exact c7 h1.1, ⟨DecR_fresh, rfl⟩⟩, fun h => absurd rfl h⟩
    · rw [if_neg h1]
      refine ⟨?_, c2, c3, htl, hpre, fun h => ?_, fun _ => ⟨⟨rfl, ?_, ?_⟩, ?_⟩⟩
      · show (if c.n = 0 ∧ c.m = 0 then stuckRet b else LibRet.ok) = LibRet.ok ∨ _
        split
        · unfold stuckRet
          split
          · exact Or.inl rfl
          · rename_i hb; exact Or.inr (Or.inr ⟨rfl, hb⟩)
        · exact Or.inl rfl
      · exfalso
        change (if c.n = 0 ∧ c.m = 0 then stuckRet b else LibRet.ok) = LibRet.streamEnd at h
        split at h
        · unfold stuckRet at h; split at h <;> cases h
        · cases h
      · simp only [List.length_append, List.length_take, Nat.min_eq_left c2, List.append_assoc, List.take_append_drop]
        exact c4
      · simp only [c8, hR.1.2.2]
        by_cases hu : u = []
        · by_cases hn : c.n = 0
          · simp [hu, hn]
          · have : inp.take c.n ≠ [] := by
              intro h; have := congrArg List.length h; simp only [List.length_take, List.length_nil] at this; omega
            simp [hu, hn, this]
        · simp [hu]
      · show s.total + c.n = (u ++ inp.take c.n).length
        rw [hR.2, List.length_append, List.length_take, Nat.min_eq_left c2]
  bytes := by
    intro s u v w x tail inp room fl hns hR hd hin hr hne hok
    obtain ⟨c1, _⟩ := decCore_spec P hR.1 hd inp tail hin room
    rw [decLib_call_eq P b s inp room fl hR.1.1 c1] at hok ⊢
    by_cases h1 : ((decCore P s.eng inp room).done && decide (((decCore P s.eng inp room).q.drop (decCore P s.eng inp room).m).length = 0)) = true
    · rw [if_pos h1] at hok; cases hok
    · rw [if_neg h1]
      have hns := dec_not_stuck P hR.1 hd inp tail hin hr hne (by
        intro h; apply h1; simp [h.1, h.2])
      show 0 < (decCore P s.eng inp room).n + ((decCore P s.eng inp room).q.take (decCore P s.eng inp room).m).length
      obtain ⟨_, _, _, _, _, _, _, _, c9, _⟩ := decCore_spec P hR.1 hd inp tail hin room
      rw [List.length_take]
      have : (decCore P s.eng inp room).m ≤ (decCore P s.eng inp room).q.length := by rw [c9]; omega
      omega
  progress := by
    intro s u v w x tail inp room fl hns hR hd hin hr hne
    obtain ⟨c1, _⟩ := decCore_spec P hR.1 hd inp tail hin room
    have hstep := (decContract P).progress w x tail inp room Flush.none (by decide) hR.1 hd hin (fun h => by cases h) hr hne
    change 0 < (decStep P s.eng inp room Flush.none).consumed ∨ decPend (decStep P s.eng inp room Flush.none).st < decPend s.eng at hstep
    rw [decStep_eq P inp Flush.none hr hR.1.1 c1] at hstep
    rw [decLib_call_eq P b s inp room fl hR.1.1 c1]
    unfold decFinish at hstep
    by_cases h1 : ((decCore P s.eng inp room).done && decide (((decCore P s.eng inp room).q.drop (decCore P s.eng inp room).m).length = 0)) = true
    · rw [if_pos h1] at hstep ⊢
      simp only [if_true] at hstep ⊢
      exact hstep
    · rw [if_neg h1] at hstep ⊢
      have hnot : ¬ ((if (decCore P s.eng inp room).n = 0 ∧ (decCore P s.eng inp room).m = 0 then stuckRet b else LibRet.ok) = LibRet.streamEnd) := by
        intro h
        split at h
        · unfold stuckRet at h; split at h <;> cases h
        · cases h
      simp only [hnot, if_false]
      have hfn : (decide (Flush.none = Flush.full) && decide ((decCore P s.eng inp room).n = inp.length) && decide ((decCore P s.eng inp room).m = 0)) = false := by
        simp
      rw [hfn] at hstep
      simp only [Bool.false_eq_true, if_false] at hstep
      split at hstep <;> exact hstep
  buf_quiet := by
    intro s u v w x tail inp room fl hns hR hd hin hr hbuf hout
    obtain ⟨c1, c2, _⟩ := decCore_spec P hR.1 hd inp tail hin room
    rw [decLib_call_eq P b s inp room fl hR.1.1 c1] at hbuf hout ⊢
    by_cases h1 : ((decCore P s.eng inp room).done && decide (((decCore P s.eng inp room).q.drop (decCore P s.eng inp room).m).length = 0)) = true
    · rw [if_pos h1] at hbuf; cases hbuf
    · rw [if_neg h1] at hbuf hout ⊢
      have hstuck : (decCore P s.eng inp room).n = 0 ∧ (decCore P s.eng inp room).m = 0 := by
        by_cases h : (decCore P s.eng inp room).n = 0 ∧ (decCore P s.eng inp room).m = 0
        · exact h
        · change (if _ then stuckRet b else LibRet.ok) = LibRet.bufError at hbuf
          rw [if_neg h] at hbuf; cases hbuf
      have hinp : inp = [] := by
        by_cases hne : inp = []
        · exact hne
        · exact absurd hstuck (dec_not_stuck P hR.1 hd inp tail hin hr hne (by intro h; apply h1; simp [h.1, h.2]))
      exact ⟨by show (decCore P s.eng inp room).n = inp.length; rw [hstuck.1, hinp]; rfl, Or.inr hinp⟩
  drain := by
    intro s u v w x tail inp room fl hns hR hd hin hr hcw
    obtain ⟨c1, c2, c3, c4, c5, c6, c7, c8, c9, _⟩ := decCore_spec P hR.1 hd inp tail hin room
    rw [decLib_call_eq P b s inp room fl hR.1.1 c1] at hcw ⊢
    by_cases h1 : ((decCore P s.eng inp room).done && decide (((decCore P s.eng inp room).q.drop (decCore P s.eng inp room).m).length = 0)) = true
    · rw [if_pos h1]; exact Or.inr rfl
    · rw [if_neg h1] at hcw ⊢
      left
      have hdone : (decCore P s.eng inp room).done = true := c6.2 hcw
      have hq : 0 < ((decCore P s.eng inp room).q.drop (decCore P s.eng inp room).m).length := by
        by_cases h : ((decCore P s.eng inp room).q.drop (decCore P s.eng inp room).m).length = 0
        · exfalso; apply h1; simp [hdone, h]
        · omega
      show (decCore P s.eng inp room).q.take (decCore P s.eng inp room).m ≠ []
      intro h
      have := congrArg List.length h
      rw [List.length_take, List.length_nil] at this
      rw [List.length_drop] at hq
      rw [c9] at this hq
      omega
  idle := by
    intro s room fl hns hR hr
    obtain ⟨⟨hb, hp, hf⟩, htot⟩ := hR
    rw [parse_nil] at hp
    simp only [Prod.mk.injEq, List.length_nil, List.nil_append, true_and] at hp
    obtain ⟨hq, hi, hdn, _⟩ := hp
    have hc : decCore P s.eng [] room = ⟨0, [], 0, false, true, false, false⟩ := by
      simp [decCore, ← hq, ← hdn, ← hi, hf, parse_nil]
    rw [decLib_call_eq P b s [] room fl hb (by rw [hc]), hc]
    simp only [Bool.false_and, Bool.false_eq_true, if_false, List.drop_nil, List.take_nil, and_self, if_true]
    refine ⟨?_, trivial, trivial, ⟨DecR_fresh, by simpa using htot⟩⟩
    unfold stuckRet
    split
    · exact Or.inl rfl
    · rename_i hb'; exact Or.inr ⟨rfl, hb'⟩

end Toy

end Sqfs.Xfrm
