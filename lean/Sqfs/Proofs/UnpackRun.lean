/-
Helper lemmas for C06, part 2: runs with failing calls (`run`, `Faults`), `mkdir_p`, `chdir`, `unpackMain`.
Property theorems live in `Sqfs/Props/C06.lean`.
-/
import Sqfs.Proofs.Unpack
namespace Sqfs.Unpack
open Sqfs.Path

/-! ## I. a run under environment faults keeps the invariant -/

theorem stepF_ok {flt : Option Errno} {fs fs' : Fs} {cwd : PathC} {sc : Syscall}
    (h : stepF flt fs cwd sc = .ok fs') : flt = none ∧ step fs cwd sc = .ok fs' := by
  unfold stepF at h
  split at h
  · cases h
  · exact ⟨rfl, h⟩

/-- **a run, whatever fails**: executing calls that are all made for members of `V`, with any calls failing for
    reasons of the environment, keeps the invariant -/
theorem Inv.run {V : VSet} {R : PathC} {fs₀ : Fs} (hf : VFun V) (hp : VPrefix V) (flt : Faults) :
    ∀ (scs : List Syscall) (i : Nat) (fs : Fs), Inv V R fs₀ fs → (∀ sc ∈ scs, OpFor V sc) →
      Inv V R fs₀ (run flt R i fs scs).fs := by
  intro scs
  induction scs with
  | nil => intro i fs hi _; exact hi
  | cons sc r ih =>
    intro i fs hi ho
    unfold Unpack.run
    split
    · rename_i fs' hs
      exact ih (i + 1) fs' (hi.step hf hp (ho sc (by simp)) (stepF_ok hs).2) (fun x hx => ho x (by simp [hx]))
    · split
      · exact ih (i + 1) fs hi (fun x hx => ho x (by simp [hx]))
      · exact hi

/-- without environment faults `run` is `exec` -/
theorem run_noFaults_fs (cwd : PathC) : ∀ (scs : List Syscall) (i : Nat) (fs : Fs),
    (run noFaults cwd i fs scs).fs = exec cwd fs scs := by
  intro scs
  induction scs with
  | nil => intro i fs; rfl
  | cons sc r ih =>
    intro i fs
    unfold Unpack.run exec
    simp only [noFaults, stepF]
    split
    · exact ih _ _
    · split
      · exact ih _ _
      · rfl

/-! ## II. shape of a run's trace -/

theorem run_spec (flt : Faults) (cwd : PathC) : ∀ (scs : List Syscall) (i : Nat) (fs : Fs),
    ((run flt cwd i fs scs).failed = false →
      (run flt cwd i fs scs).trace.map Prod.fst = scs ∧ ∀ x ∈ (run flt cwd i fs scs).trace, Fine x) ∧
    ((run flt cwd i fs scs).failed = true →
      ∃ pre sc e post, (run flt cwd i fs scs).trace = pre ++ [(sc, some e)] ∧ tolerated sc e = false ∧
        (∀ x ∈ pre, Fine x) ∧ scs = pre.map Prod.fst ++ sc :: post) := by
  intro scs
  induction scs with
  | nil =>
    intro i fs
    unfold Unpack.run
    exact ⟨fun _ => ⟨rfl, by simp⟩, fun h => by cases h⟩
  | cons sc r ih =>
    intro i fs
    unfold Unpack.run
    split
    · rename_i fs' hs
      obtain ⟨h1, h2⟩ := ih (i + 1) fs'
      constructor
      · intro hf
        obtain ⟨ha, hb⟩ := h1 hf
        refine ⟨by simp [ha], ?_⟩
        intro x hx
        rcases List.mem_cons.1 hx with rfl | hx
        · exact Or.inl rfl
        · exact hb x hx
      · intro hf
        obtain ⟨pre, sc', e, post, ha, hb, hc, hd⟩ := h2 hf
        refine ⟨(sc, none) :: pre, sc', e, post, by simp [ha], hb, ?_, by simp [hd]⟩
        intro x hx
        rcases List.mem_cons.1 hx with rfl | hx
        · exact Or.inl rfl
        · exact hc x hx
    · rename_i e he
      split
      · rename_i htol
        obtain ⟨h1, h2⟩ := ih (i + 1) fs
        constructor
        · intro hf
          obtain ⟨ha, hb⟩ := h1 hf
          refine ⟨by simp [ha], ?_⟩
          intro x hx
          rcases List.mem_cons.1 hx with rfl | hx
          · exact Or.inr ⟨e, rfl, htol⟩
          · exact hb x hx
        · intro hf
          obtain ⟨pre, sc', e', post, ha, hb, hc, hd⟩ := h2 hf
          refine ⟨(sc, some e) :: pre, sc', e', post, by simp [ha], hb, ?_, by simp [hd]⟩
          intro x hx
          rcases List.mem_cons.1 hx with rfl | hx
          · exact Or.inr ⟨e, rfl, htol⟩
          · exact hc x hx
      · rename_i htol
        constructor
        · intro hf; cases hf
        · intro _
          exact ⟨[], sc, e, r, rfl, by simpa using htol, by simp, rfl⟩

/-- a call that neither succeeded nor was tolerated is the last one of the run, and the run has `failed` -/
theorem run_bad_is_last (flt : Faults) (cwd : PathC) (scs : List Syscall) (i : Nat) (fs : Fs)
    (x : Syscall × Option Errno) (hx : x ∈ (run flt cwd i fs scs).trace) (hbad : ¬ Fine x) :
    (run flt cwd i fs scs).failed = true ∧ ∃ pre, (run flt cwd i fs scs).trace = pre ++ [x] := by
  obtain ⟨h1, h2⟩ := run_spec flt cwd scs i fs
  cases hf : (run flt cwd i fs scs).failed with
  | false => exact absurd ((h1 hf).2 x hx) hbad
  | true =>
    obtain ⟨pre, sc, e, post, ha, _, hc, _⟩ := h2 hf
    refine ⟨rfl, pre, ?_⟩
    rw [ha] at hx ⊢
    rcases List.mem_append.1 hx with hx | hx
    · exact absurd (hc x hx) hbad
    · simp at hx; rw [hx]

/-- calls that fail have no effect: if no call of the run succeeded, the file system is unchanged -/
theorem run_no_success_fs (flt : Faults) (cwd : PathC) : ∀ (scs : List Syscall) (i : Nat) (fs : Fs),
    (∀ x ∈ (run flt cwd i fs scs).trace, x.2 ≠ none) → (run flt cwd i fs scs).fs = fs := by
  intro scs
  induction scs with
  | nil => intro i fs _; rfl
  | cons sc r ih =>
    intro i fs h
    unfold Unpack.run at h ⊢
    split
    · rename_i fs' hs
      rw [hs] at h
      exact absurd rfl (h (sc, none) (by simp))
    · rename_i e he
      rw [he] at h
      split
      · rename_i htol
        simp only [htol, if_true] at h
        exact ih (i + 1) fs (fun x hx => h x (by simp [hx]))
      · rfl

/-! ## III. `mkdir_p` only makes new, empty directories -/

theorem OnlyNewDirs.refl (fs : Fs) : OnlyNewDirs fs fs := fun _ => Or.inl rfl

theorem OnlyNewDirs.trans {a b c : Fs} (h1 : OnlyNewDirs a b) (h2 : OnlyNewDirs b c) : OnlyNewDirs a c := by
  intro p
  rcases h2 p with e2 | ⟨n2, d2⟩
  · rcases h1 p with e1 | ⟨n1, d1⟩
    · exact Or.inl (e2.trans e1)
    · exact Or.inr ⟨n1, e2.trans d1⟩
  · rcases h1 p with e1 | ⟨_, d1⟩
    · exact Or.inr ⟨e1 ▸ n2, d2⟩
    · rw [d1] at n2; cases n2

/-- what `resolve` reports as "what is there now" is what is there -/
theorem walkL_snd (k : PathC → List Bytes → Bool → Res) (fs : Fs)
    (hk : ∀ cur comps fl key o, k cur comps fl = .ok (key, o) → o = fs key) :
    ∀ (comps : List Bytes) (cur : PathC) (fl : Bool) (key : PathC) (o : Option Node),
      walkL k fs cur comps fl = .ok (key, o) → o = fs key := by
  intro comps
  induction comps with
  | nil =>
    intro cur fl key o h
    unfold walkL at h
    cases h; rfl
  | cons c rest ih =>
    intro cur fl key o h
    unfold walkL at h
    split at h
    · exact ih _ _ _ _ h
    · split at h
      · exact ih _ _ _ _ h
      · split at h
        · cases h
        · split at h
          · rename_i hn
            split at h
            · cases h; exact hn.symm
            · cases h
          · rename_i a hd
            split at h
            · cases h; exact hd.symm
            · exact ih _ _ _ _ h
          · rename_i tgt a hl
            split at h
            · cases h; exact hl.symm
            · split at h
              · cases h
              · exact hk _ _ _ _ _ h
          · split at h
            · cases h
              simp_all
            · cases h

theorem walk_snd (fs : Fs) : ∀ (n : Nat) (cur : PathC) (comps : List Bytes) (fl : Bool) (key : PathC) (o : Option Node),
    walk n fs cur comps fl = .ok (key, o) → o = fs key := by
  intro n
  induction n with
  | zero =>
    intro cur comps fl key o h
    exact walkL_snd _ fs (by intro _ _ _ _ _ h; cases h) comps cur fl key o h
  | succ m ih =>
    intro cur comps fl key o h
    exact walkL_snd _ fs (fun cur comps fl key o h => ih cur comps fl key o h) comps cur fl key o h

theorem resolve_snd {fs : Fs} {cwd : PathC} {s : Bytes} {fl : Bool} {key : PathC} {o : Option Node}
    (h : resolve fs cwd s fl = .ok (key, o)) : o = fs key := by
  unfold resolve at h
  split at h
  · cases h
  · split at h
    · cases h
    · exact walk_snd fs _ _ _ _ _ _ h

theorem step_mkdir_onlyNewDirs {fs fs' : Fs} {cwd : PathC} {p : Bytes}
    (h : step fs cwd (.mkdir p 0o755) = .ok fs') : OnlyNewDirs fs fs' := by
  simp only [step] at h
  split at h
  · cases h
  · cases h
  · rename_i key hr
    cases h
    have hnone : fs key = none := (resolve_snd hr).symm
    intro q
    by_cases hq : q = key
    · subst hq
      exact Or.inr ⟨hnone, by simp [Fs.set]⟩
    · exact Or.inl (by simp [Fs.set, hq])

theorem run_mkdirs_onlyNewDirs (flt : Faults) (cwd : PathC) : ∀ (ps : List Bytes) (i : Nat) (fs : Fs),
    OnlyNewDirs fs (run flt cwd i fs (ps.map (Syscall.mkdir · 0o755))).fs := by
  intro ps
  induction ps with
  | nil => intro i fs; exact OnlyNewDirs.refl fs
  | cons p r ih =>
    intro i fs
    simp only [List.map_cons]
    unfold Unpack.run
    split
    · rename_i fs' hs
      exact (step_mkdir_onlyNewDirs (stepF_ok hs).2).trans (ih (i + 1) fs')
    · split
      · exact ih (i + 1) fs
      · exact OnlyNewDirs.refl fs

theorem mkdirP_onlyNewDirs (flt : Faults) (cwd : PathC) (fs : Fs) (R : Bytes) :
    OnlyNewDirs fs (mkdirP flt cwd fs R).fs :=
  run_mkdirs_onlyNewDirs flt cwd _ 0 fs

theorem mkdirP_trace_length (flt : Faults) (cwd : PathC) (fs : Fs) (R : Bytes) (h : (mkdirP flt cwd fs R).failed = false) :
    (mkdirP flt cwd fs R).trace.length = (mkdirPCuts R).length := by
  have := ((run_spec flt cwd ((mkdirPCuts R).map (Syscall.mkdir · 0o755)) 0 fs).1 h).1
  have := congrArg List.length this
  simpa [mkdirP] using this

/-! ## IV. `unpackMain` -/

theorem unpackTree_eq (ord : List FileEnt → List FileEnt) (fl : Flags) {t t' : TNode} (hs : treeSort t = .ok t') :
    unpackTree ord fl t = planSorted ord fl t' := by
  unfold unpackTree; rw [hs]

/-! the five ways through `unpackMain` -/

theorem unpackMain_dup {ord : List FileEnt → List FileEnt} {fl : Flags} {t : TNode} {root : Option Bytes} {flt : Faults}
    {cwd₀ : PathC} {fs₀ : Fs} {e : Err} (hs : treeSort t = .error e) :
    unpackMain ord fl t root flt cwd₀ fs₀ = { fs := fs₀, fsEst := fs₀, cwd := cwd₀ } := by
  unfold unpackMain; rw [hs]

theorem unpackMain_noroot {ord : List FileEnt → List FileEnt} {fl : Flags} {t t' : TNode} {flt : Faults}
    {cwd₀ : PathC} {fs₀ : Fs} (hs : treeSort t = .ok t') :
    unpackMain ord fl t none flt cwd₀ fs₀ =
      { fs := (run flt cwd₀ 0 fs₀ (planSorted ord fl t').syscalls).fs, fsEst := fs₀, cwd := cwd₀,
        trace := (run flt cwd₀ 0 fs₀ (planSorted ord fl t').syscalls).trace, established := true,
        exit := if (run flt cwd₀ 0 fs₀ (planSorted ord fl t').syscalls).failed || (planSorted ord fl t').err.isSome then 1 else 0 } := by
  unfold unpackMain; rw [hs]

theorem unpackMain_mkdir_fail {ord : List FileEnt → List FileEnt} {fl : Flags} {t t' : TNode} {R : Bytes} {flt : Faults}
    {cwd₀ : PathC} {fs₀ : Fs} (hs : treeSort t = .ok t') (hm : (mkdirP flt cwd₀ fs₀ R).failed = true) :
    unpackMain ord fl t (some R) flt cwd₀ fs₀ =
      { fs := (mkdirP flt cwd₀ fs₀ R).fs, fsEst := (mkdirP flt cwd₀ fs₀ R).fs, cwd := cwd₀, pre := (mkdirP flt cwd₀ fs₀ R).trace } := by
  unfold unpackMain; rw [hs]; simp only [hm, if_true]

theorem unpackMain_chdir_fail {ord : List FileEnt → List FileEnt} {fl : Flags} {t t' : TNode} {R : Bytes} {flt : Faults}
    {cwd₀ : PathC} {fs₀ : Fs} {e : Errno} (hs : treeSort t = .ok t') (hm : (mkdirP flt cwd₀ fs₀ R).failed = false)
    (hc : chdirF (flt (mkdirPCuts R).length) (mkdirP flt cwd₀ fs₀ R).fs cwd₀ R = .error e) :
    unpackMain ord fl t (some R) flt cwd₀ fs₀ =
      { fs := (mkdirP flt cwd₀ fs₀ R).fs, fsEst := (mkdirP flt cwd₀ fs₀ R).fs, cwd := cwd₀, pre := (mkdirP flt cwd₀ fs₀ R).trace,
        chdirRes := some (some e) } := by
  unfold unpackMain; rw [hs]; simp only [hm, Bool.false_eq_true, if_false, hc]

theorem unpackMain_ok {ord : List FileEnt → List FileEnt} {fl : Flags} {t t' : TNode} {R : Bytes} {flt : Faults}
    {cwd₀ : PathC} {fs₀ : Fs} {c : PathC} (hs : treeSort t = .ok t') (hm : (mkdirP flt cwd₀ fs₀ R).failed = false)
    (hc : chdirF (flt (mkdirPCuts R).length) (mkdirP flt cwd₀ fs₀ R).fs cwd₀ R = .ok c) :
    unpackMain ord fl t (some R) flt cwd₀ fs₀ =
      { fs := (run flt c ((mkdirPCuts R).length + 1) (mkdirP flt cwd₀ fs₀ R).fs (planSorted ord fl t').syscalls).fs,
        fsEst := (mkdirP flt cwd₀ fs₀ R).fs, cwd := c, pre := (mkdirP flt cwd₀ fs₀ R).trace, chdirRes := some none,
        trace := (run flt c ((mkdirPCuts R).length + 1) (mkdirP flt cwd₀ fs₀ R).fs (planSorted ord fl t').syscalls).trace,
        established := true,
        exit := if (run flt c ((mkdirPCuts R).length + 1) (mkdirP flt cwd₀ fs₀ R).fs (planSorted ord fl t').syscalls).failed
                    || (planSorted ord fl t').err.isSome then 1 else 0 } := by
  unfold unpackMain; rw [hs]; simp only [hm, Bool.false_eq_true, if_false, hc]

/-- the walks are reached only behind `tree_sort`, `mkdir_p` and `chdir`; then the rest of the run is `run` on the plan -/
theorem main_established (ord : List FileEnt → List FileEnt) (fl : Flags) (t : TNode) (root : Option Bytes) (flt : Faults)
    (cwd₀ : PathC) (fs₀ : Fs) (h : (unpackMain ord fl t root flt cwd₀ fs₀).established = true) :
    ∃ t' i, treeSort t = .ok t' ∧
      (unpackMain ord fl t root flt cwd₀ fs₀).fs =
        (run flt (unpackMain ord fl t root flt cwd₀ fs₀).cwd i (unpackMain ord fl t root flt cwd₀ fs₀).fsEst
          (planSorted ord fl t').syscalls).fs ∧
      (unpackMain ord fl t root flt cwd₀ fs₀).trace =
        (run flt (unpackMain ord fl t root flt cwd₀ fs₀).cwd i (unpackMain ord fl t root flt cwd₀ fs₀).fsEst
          (planSorted ord fl t').syscalls).trace ∧
      (unpackMain ord fl t root flt cwd₀ fs₀).exit =
        (if (run flt (unpackMain ord fl t root flt cwd₀ fs₀).cwd i (unpackMain ord fl t root flt cwd₀ fs₀).fsEst
          (planSorted ord fl t').syscalls).failed || (planSorted ord fl t').err.isSome then 1 else 0) ∧
      (root = none → (unpackMain ord fl t root flt cwd₀ fs₀).cwd = cwd₀ ∧ (unpackMain ord fl t root flt cwd₀ fs₀).fsEst = fs₀) ∧
      (∀ R, root = some R → (unpackMain ord fl t root flt cwd₀ fs₀).fsEst = (mkdirP flt cwd₀ fs₀ R).fs ∧
        (mkdirP flt cwd₀ fs₀ R).failed = false ∧
        chdirF (flt (mkdirPCuts R).length) (mkdirP flt cwd₀ fs₀ R).fs cwd₀ R = .ok (unpackMain ord fl t root flt cwd₀ fs₀).cwd) := by
  cases hs : treeSort t with
  | error e => rw [unpackMain_dup hs] at h; cases h
  | ok t' =>
    cases root with
    | none =>
      rw [unpackMain_noroot hs]
      exact ⟨t', 0, rfl, rfl, rfl, rfl, fun _ => ⟨rfl, rfl⟩, fun R hR => by cases hR⟩
    | some R =>
      cases hm : (mkdirP flt cwd₀ fs₀ R).failed with
      | true => rw [unpackMain_mkdir_fail hs hm] at h; cases h
      | false =>
        cases hc : chdirF (flt (mkdirPCuts R).length) (mkdirP flt cwd₀ fs₀ R).fs cwd₀ R with
        | error e => rw [unpackMain_chdir_fail hs hm hc] at h; cases h
        | ok c =>
          rw [unpackMain_ok hs hm hc]
          refine ⟨t', (mkdirPCuts R).length + 1, rfl, rfl, rfl, rfl, (fun hn => by cases hn), ?_⟩
          intro R' hR
          cases hR
          exact ⟨rfl, hm, hc⟩

/-- before the walks are reached nothing of the image is unpacked: no call of a walk, `EXIT_FAILURE`, and the file
    system is what `mkdir_p` left -/
theorem main_not_established (ord : List FileEnt → List FileEnt) (fl : Flags) (t : TNode) (root : Option Bytes) (flt : Faults)
    (cwd₀ : PathC) (fs₀ : Fs) (h : (unpackMain ord fl t root flt cwd₀ fs₀).established = false) :
    (unpackMain ord fl t root flt cwd₀ fs₀).trace = [] ∧ (unpackMain ord fl t root flt cwd₀ fs₀).exit = 1 ∧
      (unpackMain ord fl t root flt cwd₀ fs₀).fs = (unpackMain ord fl t root flt cwd₀ fs₀).fsEst := by
  cases hs : treeSort t with
  | error e => rw [unpackMain_dup hs]; exact ⟨rfl, rfl, rfl⟩
  | ok t' =>
    cases root with
    | none => rw [unpackMain_noroot hs] at h; cases h
    | some R =>
      cases hm : (mkdirP flt cwd₀ fs₀ R).failed with
      | true => rw [unpackMain_mkdir_fail hs hm]; exact ⟨rfl, rfl, rfl⟩
      | false =>
        cases hc : chdirF (flt (mkdirPCuts R).length) (mkdirP flt cwd₀ fs₀ R).fs cwd₀ R with
        | error e => rw [unpackMain_chdir_fail hs hm hc]; exact ⟨rfl, rfl, rfl⟩
        | ok c => rw [unpackMain_ok hs hm hc] at h; cases h

/-- whatever happens, the file system in which the walks start is the initial one plus new empty directories
    (those `mkdir_p` made) -/
theorem main_fsEst_onlyNewDirs (ord : List FileEnt → List FileEnt) (fl : Flags) (t : TNode) (root : Option Bytes) (flt : Faults)
    (cwd₀ : PathC) (fs₀ : Fs) : OnlyNewDirs fs₀ (unpackMain ord fl t root flt cwd₀ fs₀).fsEst := by
  cases hs : treeSort t with
  | error e => rw [unpackMain_dup hs]; exact OnlyNewDirs.refl _
  | ok t' =>
    cases root with
    | none => rw [unpackMain_noroot hs]; exact OnlyNewDirs.refl _
    | some R =>
      cases hm : (mkdirP flt cwd₀ fs₀ R).failed with
      | true => rw [unpackMain_mkdir_fail hs hm]; exact mkdirP_onlyNewDirs flt cwd₀ fs₀ R
      | false =>
        cases hc : chdirF (flt (mkdirPCuts R).length) (mkdirP flt cwd₀ fs₀ R).fs cwd₀ R with
        | error e => rw [unpackMain_chdir_fail hs hm hc]; exact mkdirP_onlyNewDirs flt cwd₀ fs₀ R
        | ok c => rw [unpackMain_ok hs hm hc]; exact mkdirP_onlyNewDirs flt cwd₀ fs₀ R

/-- with `--unpack-root R`: `pre` is `mkdir_p`'s trace, and if the walks are not reached the final file system is what
    `mkdir_p` left -/
theorem main_pre (ord : List FileEnt → List FileEnt) (fl : Flags) (t t' : TNode) (R : Bytes) (flt : Faults)
    (cwd₀ : PathC) (fs₀ : Fs) (hs : treeSort t = .ok t') :
    (unpackMain ord fl t (some R) flt cwd₀ fs₀).pre = (mkdirP flt cwd₀ fs₀ R).trace ∧
    (unpackMain ord fl t (some R) flt cwd₀ fs₀).fsEst = (mkdirP flt cwd₀ fs₀ R).fs := by
  cases hm : (mkdirP flt cwd₀ fs₀ R).failed with
  | true => rw [unpackMain_mkdir_fail hs hm]; exact ⟨rfl, rfl⟩
  | false =>
    cases hc : chdirF (flt (mkdirPCuts R).length) (mkdirP flt cwd₀ fs₀ R).fs cwd₀ R with
    | error e => rw [unpackMain_chdir_fail hs hm hc]; exact ⟨rfl, rfl⟩
    | ok c => rw [unpackMain_ok hs hm hc]; exact ⟨rfl, rfl⟩

end Sqfs.Unpack
