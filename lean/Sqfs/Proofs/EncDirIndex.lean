/-
C01 — the directory index written into an extended directory inode points at the headers of the listing.
-/
import Sqfs.Proofs.EncDir
namespace Sqfs.Enc
open Sqfs.Consts
open Sqfs.Writer (le leVal le_length)
open Sqfs.DirWriter (DEnt Run dirEnd dirEndGo encodeRun encodeEnt runBytes entSize dirSizeOf advance conseqCount)

theorem encodeEnt_length (first : Nat) (e : DEnt) : (encodeEnt first e).length = entSize e := by
  rw [encodeEnt_eq]; simp [encFields_length, entSize, sizeofDirNode]

theorem encodeRun_length (r : Run) : (encodeRun r).length = runBytes r.ents := by
  rw [encodeRun_eq, entSize_sum]
  simp only [List.length_append, encFields_length, List.map_cons, List.map_nil, List.sum_cons, List.sum_nil, sizeofDirHeader]
  have : ((r.ents.map (encodeEnt r.inodeNumber)).flatten).length = (r.ents.map entSize).sum := by
    induction r.ents with
    | nil => rfl
    | cons e es ih => simp [encodeEnt_length, ih]
  rw [this]; omega

theorem advance_advance (c blk off n m : Nat) :
    advance c (advance c blk off n).1 (advance c blk off n).2 m = advance c blk off (n + m) := by
  simp only [advance, metaBlockSize]
  have h1 : ((off + n) % 8192 + m) / 8192 + (off + n) / 8192 = (off + (n + m)) / 8192 := by omega
  have h2 : ((off + n) % 8192 + m) % 8192 = (off + (n + m)) % 8192 := by omega
  rw [h2, ← h1, Nat.add_mul]
  congr 1
  omega

/-- position bookkeeping of `sqfs_dir_writer_end`: header number `k` is announced at listing offset
`ds + (bytes of the runs before it)` and in the metadata block the writer stands in after those bytes -/
theorem dirEndGo_index (c : Nat) : ∀ (fuel blk off ds : Nat) (ents : List DEnt) (k : Nat) (r : Run), off < metaBlockSize →
    (dirEndGo c fuel blk off ds ents)[k]? = some r →
      r.index = ds + dirSizeOf ((dirEndGo c fuel blk off ds ents).take k)
      ∧ r.block = (advance c blk off (dirSizeOf ((dirEndGo c fuel blk off ds ents).take k))).1
      ∧ ∃ first rest, r.ents = first :: rest := by
  intro fuel
  induction fuel with
  | zero => intro blk off ds ents k r _ h; simp [dirEndGo] at h
  | succ f ih =>
    intro blk off ds ents k r hoff h
    cases ents with
    | nil => simp [dirEndGo] at h
    | cons first rest =>
      simp only [dirEndGo] at h ⊢
      cases k with
      | zero =>
        simp only [List.getElem?_cons_zero, Option.some.injEq] at h
        subst h
        obtain ⟨h1, _⟩ := Sqfs.DirWriter.conseqCount_spec off first rest
        obtain ⟨n, hn⟩ : ∃ n, conseqCount off (first :: rest) = n + 1 := ⟨conseqCount off (first :: rest) - 1, by omega⟩
        refine ⟨by simp [dirSizeOf], ?_, first, rest.take n, by simp [hn]⟩
        simp only [List.take_zero, dirSizeOf, List.map_nil, List.sum_nil, advance, Nat.add_zero]
        rw [Nat.div_eq_of_lt hoff]; simp
      | succ k =>
        simp only [List.getElem?_cons_succ] at h
        obtain ⟨a, b, cc⟩ := ih _ _ _ _ k r (by simp only [advance]; exact Nat.mod_lt _ (by decide)) h
        refine ⟨?_, ?_, cc⟩
        · rw [a]; simp [dirSizeOf, List.take_succ_cons]; omega
        · rw [b, advance_advance]
          simp [dirSizeOf, List.take_succ_cons]

theorem flatten_drop_take (l : List Bytes) (k : Nat) (x : Bytes) (h : l[k]? = some x) :
    ((l.flatten).drop ((l.take k).map List.length).sum).take x.length = x := by
  induction l generalizing k with
  | nil => simp at h
  | cons a l ih =>
    cases k with
    | zero =>
      simp only [List.getElem?_cons_zero, Option.some.injEq] at h
      subst h
      simp
    | succ k =>
      simp only [List.getElem?_cons_succ] at h
      simp only [List.take_succ_cons, List.map_cons, List.sum_cons, List.flatten_cons]
      rw [show a.length + ((l.take k).map List.length).sum = a.length + ((l.take k).map List.length).sum from rfl,
        ← List.drop_drop, List.drop_left]
      exact ih k h

/-- **The directory index points at headers.**  For every run `r` emitted by `sqfs_dir_writer_end` (= every index
entry `sqfs_dir_writer_create_inode` builds from it): `r.index` is the byte offset of the run's header inside the
listing, `r.block` the metadata block (relative to the directory table) the header starts in, and the index entry's
name is the name of the first entry under that header. -/
theorem index_points_at_headers (c blk off : Nat) (ents : List DEnt) (k : Nat) (r : Run) (hoff : off < metaBlockSize)
    (h : (dirEnd c blk off ents)[k]? = some r) :
    ((encListing c blk off ents).drop r.index).take (runBytes r.ents) = encodeRun r
    ∧ r.block = (advance c blk off r.index).1
    ∧ ∃ first rest, r.ents = first :: rest := by
  unfold dirEnd at h
  obtain ⟨h1, h2, h3⟩ := dirEndGo_index c _ _ _ _ ents k r hoff h
  simp only [Nat.zero_add] at h1
  refine ⟨?_, by rw [h2, h1], h3⟩
  unfold encListing dirEnd
  have hk : ((dirEndGo c (ents.length + 1) blk off 0 ents).map encodeRun)[k]? = some (encodeRun r) := by
    simp [List.getElem?_map, h]
  have := flatten_drop_take _ k _ hk
  rw [encodeRun_length] at this
  rw [← this, h1]
  congr 2
  simp only [dirSizeOf, List.map_take, List.map_map]
  congr 2
  apply List.map_congr_left
  intro x _
  simp [encodeRun_length]

end Sqfs.Enc
