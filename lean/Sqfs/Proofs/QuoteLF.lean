/-
Proofs about the printer with `fixes/C16-describe-newline.patch` (`Sqfs.QuoteLF`), stated in `Sqfs/Props/C16.lean`:
whenever it prints a listing, the listing is the one the printer in /repo prints and it decodes to the tree; it
refuses only with the new diagnostic; on LF-free trees it is the printer in /repo.
-/
import Sqfs.Proofs.QuoteTree
import Sqfs.Model.QuoteLF
namespace Sqfs.Quote
open Sqfs.Path (Bytes joinSlash)
open Sqfs.Consts
set_option linter.unusedSimpArgs false

theorem contains_false_iff {s : Bytes} {c : UInt8} : s.contains c = false ↔ c ∉ s := by
  constructor
  · intro h m
    have : s.contains c = true := by simpa using m
    rw [h] at this
    exact absurd this (by decide)
  · intro h
    cases hc : s.contains c with
    | false => rfl
    | true => exact absurd (by simpa using hc) h

theorem lf_printEscaped_ok {s x : Bytes} (h : Sqfs.QuoteLF.printEscaped s = .ok x) : x = printEscaped s ∧ LF ∉ s := by
  unfold Sqfs.QuoteLF.printEscaped at h
  by_cases hm : LF ∈ s
  · simp [hm] at h
  · simp only [List.contains_eq_mem, hm, decide_false, Bool.false_eq_true, if_false, Except.ok.injEq] at h
    exact ⟨h.symm, hm⟩

theorem lf_printEscaped_of {s : Bytes} (h : LF ∉ s) : Sqfs.QuoteLF.printEscaped s = .ok (printEscaped s) := by
  unfold Sqfs.QuoteLF.printEscaped
  simp only [List.contains_eq_mem, h, decide_false, Bool.false_eq_true, if_false]

theorem lf_printEscaped_err {s : Bytes} {e : DErr} (h : Sqfs.QuoteLF.printEscaped s = .error e) : e = .newline := by
  unfold Sqfs.QuoteLF.printEscaped at h
  by_cases hm : LF ∈ s
  · simp only [List.contains_eq_mem, hm, decide_true, if_true, Except.error.injEq] at h; exact h.symm
  · simp [hm] at h

theorem lf_printName_ok {p x : Bytes} (h : Sqfs.QuoteLF.printName p = .ok x) : x = printName p ∧ LF ∉ p := by
  unfold Sqfs.QuoteLF.printName at h
  unfold printName
  by_cases hp : p = []
  · simp only [hp, if_true, Except.ok.injEq] at h ⊢
    exact ⟨h.symm, by simp⟩
  · simp only [hp, if_false] at h ⊢
    exact lf_printEscaped_ok h

theorem lf_printName_of {p : Bytes} (h : LF ∉ p) : Sqfs.QuoteLF.printName p = .ok (printName p) := by
  unfold Sqfs.QuoteLF.printName printName
  by_cases hp : p = []
  · simp [hp]
  · simp only [hp, if_false]; exact lf_printEscaped_of h

theorem lf_printName_err {p : Bytes} {e : DErr} (h : Sqfs.QuoteLF.printName p = .error e) : e = .newline := by
  unfold Sqfs.QuoteLF.printName at h
  by_cases hp : p = []
  · simp [hp] at h
  · simp only [hp, if_false] at h; exact lf_printEscaped_err h

theorem mem_joinSlash {comps : List Bytes} {c : Bytes} {x : UInt8} (hc : c ∈ comps) (hx : x ∈ c) : x ∈ joinSlash comps := by
  induction comps with
  | nil => simp at hc
  | cons a r ih =>
    cases r with
    | nil =>
      simp only [List.mem_singleton] at hc
      subst hc
      simpa [joinSlash] using hx
    | cons b r' =>
      simp only [joinSlash, List.mem_append, List.mem_cons]
      rcases List.mem_cons.1 hc with e | m
      · subst e; exact Or.inl hx
      · exact Or.inr (Or.inr (ih m))

theorem sane_last_img (comps : List Bytes) (hc : ∀ c ∈ comps, ImgName c) :
    Sqfs.Path.isFilenameSane (comps.getLast?.getD []) = true := by
  cases h : comps.getLast? with
  | none => decide
  | some c =>
    obtain ⟨_, h2, h3, h4, _⟩ := hc c (List.mem_of_getLast? h)
    exact (Sqfs.C18.sane_iff c).2 ⟨h2, h3, h4⟩

theorem last_ne_img (comps : List Bytes) (hc : ∀ c ∈ comps, ImgName c) (hne : comps ≠ []) :
    ¬ (comps.getLast?.getD [] = []) := by
  cases h : comps.getLast? with
  | none => exact absurd (List.getLast?_eq_none_iff.1 h) hne
  | some c => exact (hc c (List.mem_of_getLast? h)).1

theorem dircond_img (comps : List Bytes) (hc : ∀ c ∈ comps, ImgName c) :
    (comps ≠ [] && decide (comps.getLast?.getD [] = [])) = false := by
  by_cases h0 : comps = []
  · simp [h0]
  · simp [last_ne_img comps hc h0]

/-- the line `print_simple` prints in /repo -/
def curLine (P : Bytes) (n : Node) (kwd : Bytes) (extra : Option Bytes) : Bytes :=
  kwd ++ [SP] ++ printName P ++ printPerm n ++ Sqfs.QuoteLF.extraTail extra ++ [LF]

/-- the two shapes of a line in `Sqfs.QuoteLF.describeNode`, reduced to the printer of /repo -/
theorem lf_simple_ok {comps : List Bytes} (hc : ∀ c ∈ comps, ImgName c) {kwd : Bytes} {extra : Option Bytes} {n : Node} {line : Bytes}
    (h : Sqfs.QuoteLF.simpleLine comps n kwd extra = .ok line) :
    line = curLine (joinSlash comps) n kwd extra ∧ LF ∉ joinSlash comps := by
  unfold Sqfs.QuoteLF.simpleLine at h
  rw [nodePath_img comps hc] at h
  simp only at h
  cases hp : Sqfs.QuoteLF.printName (joinSlash comps) with
  | error e => simp [hp] at h
  | ok nm =>
    obtain ⟨e1, e2⟩ := lf_printName_ok hp
    simp only [hp, Except.ok.injEq] at h
    subst e1
    exact ⟨h.symm, e2⟩

theorem lf_escaped_ok {comps : List Bytes} (hc : ∀ c ∈ comps, ImgName c) {kwd : Bytes} {last : Bytes → Bytes} {n : Node} {line : Bytes}
    (h : Sqfs.QuoteLF.escapedLine comps n kwd last = .ok line) :
    line = curLine (joinSlash comps) n kwd (some (printEscaped (last (joinSlash comps))))
      ∧ LF ∉ joinSlash comps ∧ LF ∉ last (joinSlash comps) := by
  unfold Sqfs.QuoteLF.escapedLine at h
  rw [nodePath_img comps hc] at h
  simp only at h
  cases hp : Sqfs.QuoteLF.printName (joinSlash comps) with
  | error e => simp [hp] at h
  | ok nm =>
    obtain ⟨e1, e2⟩ := lf_printName_ok hp
    simp only [hp] at h
    cases hx : Sqfs.QuoteLF.printEscaped (last (joinSlash comps)) with
    | error e => simp [hx] at h
    | ok x =>
      obtain ⟨e3, e4⟩ := lf_printEscaped_ok hx
      simp only [hx, Except.ok.injEq] at h
      subst e1 e3
      refine ⟨?_, e2, e4⟩
      rw [← h]
      simp [curLine, Sqfs.QuoteLF.extraTail]

theorem lf_simple_err {comps : List Bytes} (hc : ∀ c ∈ comps, ImgName c) {kwd : Bytes} {extra : Option Bytes} {n : Node} {er : DErr}
    (h : Sqfs.QuoteLF.simpleLine comps n kwd extra = .error er) : er = .newline := by
  unfold Sqfs.QuoteLF.simpleLine at h
  rw [nodePath_img comps hc] at h
  simp only at h
  cases hp : Sqfs.QuoteLF.printName (joinSlash comps) with
  | error e =>
    simp only [hp, Except.error.injEq] at h
    subst h
    exact lf_printName_err hp
  | ok nm => simp [hp] at h

theorem lf_escaped_err {comps : List Bytes} (hc : ∀ c ∈ comps, ImgName c) {kwd : Bytes} {last : Bytes → Bytes} {n : Node} {er : DErr}
    (h : Sqfs.QuoteLF.escapedLine comps n kwd last = .error er) : er = .newline := by
  unfold Sqfs.QuoteLF.escapedLine at h
  rw [nodePath_img comps hc] at h
  simp only at h
  cases hp : Sqfs.QuoteLF.printName (joinSlash comps) with
  | error e =>
    simp only [hp, Except.error.injEq] at h
    subst h
    exact lf_printName_err hp
  | ok nm =>
    simp only [hp] at h
    cases hx : Sqfs.QuoteLF.printEscaped (last (joinSlash comps)) with
    | error e =>
      simp only [hx, Except.error.injEq] at h
      subst h
      exact lf_printEscaped_err hx
    | ok x => simp [hx] at h

theorem lf_simple_of {comps : List Bytes} (hc : ∀ c ∈ comps, ImgName c) (hj : LF ∉ joinSlash comps) (kwd : Bytes) (extra : Option Bytes) (n : Node) :
    Sqfs.QuoteLF.simpleLine comps n kwd extra = .ok (curLine (joinSlash comps) n kwd extra) := by
  unfold Sqfs.QuoteLF.simpleLine
  rw [nodePath_img comps hc]
  simp only [lf_printName_of hj, curLine]

theorem lf_escaped_of {comps : List Bytes} (hc : ∀ c ∈ comps, ImgName c) (hj : LF ∉ joinSlash comps) (kwd : Bytes) (last : Bytes → Bytes) (n : Node)
    (hl : LF ∉ last (joinSlash comps)) :
    Sqfs.QuoteLF.escapedLine comps n kwd last = .ok (curLine (joinSlash comps) n kwd (some (printEscaped (last (joinSlash comps))))) := by
  unfold Sqfs.QuoteLF.escapedLine
  rw [nodePath_img comps hc]
  simp only [lf_printName_of hj, lf_printEscaped_of hl, curLine, Sqfs.QuoteLF.extraTail]

/-- the printer of /repo on image names, kind by kind -/
theorem describeNode_img (ur : Option Bytes) (comps : List Bytes) (n : Node) (hc : ∀ c ∈ comps, ImgName c) :
    describeNode ur comps n =
      (match n.kind with
       | .sock => .ok (curLine (joinSlash comps) n KW_SOCK none)
       | .slink => .ok (curLine (joinSlash comps) n KW_SLINK (some (printEscaped n.target)))
       | .fifo => .ok (curLine (joinSlash comps) n KW_PIPE none)
       | .file =>
         match ur with
         | none => .ok (curLine (joinSlash comps) n KW_FILE none)
         | some root => .ok (curLine (joinSlash comps) n KW_FILE (some (printEscaped (root ++ SL :: joinSlash comps))))
       | .chr => .ok (curLine (joinSlash comps) n KW_NOD (some ([99, SP] ++ printNat 10 (devMajor (n.devno % 2^32) % 2^32) ++ [SP] ++ printNat 10 (devMinor (n.devno % 2^32) % 2^32))))
       | .blk => .ok (curLine (joinSlash comps) n KW_NOD (some ([98, SP] ++ printNat 10 (devMajor (n.devno % 2^32) % 2^32) ++ [SP] ++ printNat 10 (devMinor (n.devno % 2^32) % 2^32))))
       | .dir => .ok (curLine (joinSlash comps) n KW_DIR none)
       | .other => .ok []) := by
  have hs := sane_last_img comps hc
  have hp := nodePath_img comps hc
  have hd := dircond_img comps hc
  cases hk : n.kind <;> cases ur <;>
    simp only [describeNode, hs, hk, hp, hd, curLine, Sqfs.QuoteLF.extraTail, Bool.not_true, Bool.false_eq_true, if_false]

/--
**Node level.**  If the patched printer prints a line for a node at a path of image names, then the printer of
/repo prints the same line, and every string that went through `print_escaped` is free of LF: all names on the path
(for every kind that prints), the target of a symlink, `<root>/<path>` of a file with `--unpack-root`.
-/
theorem lf_node (ur : Option Bytes) (comps : List Bytes) (n : Node) (hc : ∀ c ∈ comps, ImgName c) (line : Bytes)
    (h : Sqfs.QuoteLF.describeNode ur comps n = .ok line) :
    describeNode ur comps n = .ok line ∧ (n.kind ≠ .other → ∀ c ∈ comps, LF ∉ c) ∧
      (n.kind = .slink → LF ∉ n.target) ∧ (n.kind = .file → ∀ r, ur = some r → LF ∉ r) := by
  have hs := sane_last_img comps hc
  have hd := dircond_img comps hc
  have names : LF ∉ joinSlash comps → ∀ c ∈ comps, LF ∉ c := fun hj c hcm m => hj (mem_joinSlash hcm m)
  rw [describeNode_img ur comps n hc]
  unfold Sqfs.QuoteLF.describeNode at h
  simp only [hs, Bool.not_true, Bool.false_eq_true, if_false] at h
  cases hk : n.kind with
  | other =>
    simp only [hk] at h
    exact ⟨by simp only [hk]; exact h, fun x => absurd rfl x, fun x => absurd x (by decide),
      fun x => absurd x (by decide)⟩
  | dir =>
    simp only [hk, hd, Bool.false_eq_true, if_false] at h
    obtain ⟨e1, e2⟩ := lf_simple_ok hc h
    exact ⟨by simp only [hk, e1], fun _ => names e2, fun x => absurd x (by decide),
      fun x => absurd x (by decide)⟩
  | fifo =>
    simp only [hk] at h
    obtain ⟨e1, e2⟩ := lf_simple_ok hc h
    exact ⟨by simp only [hk, e1], fun _ => names e2, fun x => absurd x (by decide),
      fun x => absurd x (by decide)⟩
  | sock =>
    simp only [hk] at h
    obtain ⟨e1, e2⟩ := lf_simple_ok hc h
    exact ⟨by simp only [hk, e1], fun _ => names e2, fun x => absurd x (by decide),
      fun x => absurd x (by decide)⟩
  | chr =>
    simp only [hk] at h
    obtain ⟨e1, e2⟩ := lf_simple_ok hc h
    exact ⟨by simp only [hk, e1], fun _ => names e2, fun x => absurd x (by decide),
      fun x => absurd x (by decide)⟩
  | blk =>
    simp only [hk] at h
    obtain ⟨e1, e2⟩ := lf_simple_ok hc h
    exact ⟨by simp only [hk, e1], fun _ => names e2, fun x => absurd x (by decide),
      fun x => absurd x (by decide)⟩
  | slink =>
    simp only [hk] at h
    obtain ⟨e1, e2, e3⟩ := lf_escaped_ok hc h
    exact ⟨by simp only [hk, e1], fun _ => names e2, fun _ => e3, fun x => absurd x (by decide)⟩
  | file =>
    cases hu : ur with
    | none =>
      simp only [hk, hu] at h
      obtain ⟨e1, e2⟩ := lf_simple_ok hc h
      exact ⟨by simp only [hk, e1], fun _ => names e2, fun x => absurd x (by decide),
        fun _ r hr => nomatch hr⟩
    | some root =>
      simp only [hk, hu] at h
      obtain ⟨e1, e2, e3⟩ := lf_escaped_ok hc h
      refine ⟨by simp only [hk, e1], fun _ => names e2, fun x => absurd x (by decide), fun _ r hr => ?_⟩
      cases hr
      exact fun m => e3 (List.mem_append_left _ m)

/-- the patched printer refuses a node at a path of image names only with the new diagnostic -/
theorem lf_node_err (ur : Option Bytes) (comps : List Bytes) (n : Node) (hc : ∀ c ∈ comps, ImgName c) (e : DErr)
    (h : Sqfs.QuoteLF.describeNode ur comps n = .error e) : e = .newline := by
  have hs := sane_last_img comps hc
  have hd := dircond_img comps hc
  unfold Sqfs.QuoteLF.describeNode at h
  simp only [hs, Bool.not_true, Bool.false_eq_true, if_false] at h
  cases hk : n.kind with
  | other => simp [hk] at h
  | dir => simp only [hk, hd, Bool.false_eq_true, if_false] at h; exact lf_simple_err hc h
  | fifo => simp only [hk] at h; exact lf_simple_err hc h
  | sock => simp only [hk] at h; exact lf_simple_err hc h
  | chr => simp only [hk] at h; exact lf_simple_err hc h
  | blk => simp only [hk] at h; exact lf_simple_err hc h
  | slink => simp only [hk] at h; exact lf_escaped_err hc h
  | file =>
    cases hu : ur with
    | none => simp only [hk, hu] at h; exact lf_simple_err hc h
    | some root => simp only [hk, hu] at h; exact lf_escaped_err hc h

/-- on LF-free input the patched printer is the printer of /repo -/
theorem lf_node_same (ur : Option Bytes) (comps : List Bytes) (n : Node) (hc : ∀ c ∈ comps, GoodName c)
    (ht : n.kind = .slink → LF ∉ n.target) (hur : n.kind = .file → ∀ r, ur = some r → LF ∉ r) :
    Sqfs.QuoteLF.describeNode ur comps n = describeNode ur comps n := by
  have hci : ∀ c ∈ comps, ImgName c := fun c h => (hc c h).img
  have hs := sane_last_img comps hci
  have hd := dircond_img comps hci
  have hj : LF ∉ joinSlash comps := (safe_joinSlash comps hc).lf
  rw [describeNode_img ur comps n hci]
  unfold Sqfs.QuoteLF.describeNode
  simp only [hs, Bool.not_true, Bool.false_eq_true, if_false]
  cases hk : n.kind with
  | other => rfl
  | dir => simp only [hk, hd, Bool.false_eq_true, if_false, lf_simple_of hci hj]
  | fifo => simp only [hk, lf_simple_of hci hj]
  | sock => simp only [hk, lf_simple_of hci hj]
  | chr => simp only [hk, lf_simple_of hci hj]
  | blk => simp only [hk, lf_simple_of hci hj]
  | slink => simp only [hk, lf_escaped_of hci hj _ (fun _ => n.target) _ (ht hk)]
  | file =>
    cases hu : ur with
    | none => simp only [hk, lf_simple_of hci hj]
    | some root =>
      have hl : LF ∉ root ++ SL :: joinSlash comps := by
        intro m
        rcases List.mem_append.1 m with m | m
        · exact hur hk root hu m
        · rcases List.mem_cons.1 m with e | m
          · exact absurd e (by decide)
          · exact hj m
      simp only [hk, lf_escaped_of hci hj _ (fun p => root ++ SL :: p) _ hl]

/-- `describeNode` and `specEntry` read `--unpack-root` only for regular files -/
theorem describeNode_ur_irrel (ur : Option Bytes) (comps : List Bytes) (n : Node) (hk : n.kind ≠ .file) :
    describeNode ur comps n = describeNode none comps n ∧ specEntry ur comps n = specEntry none comps n := by
  cases hk' : n.kind <;> first | exact absurd hk' hk | (constructor <;> simp only [describeNode, specEntry, hk'])

/-- a line the patched printer prints decodes to the node's entry — no assumption about LF anywhere -/
theorem lf_node_decodes (ur : Option Bytes) (hur : ∀ r, ur = some r → NUL ∉ r) (comps : List Bytes) (n : Node)
    (hc : ∀ c ∈ comps, ImgName c) (hn : n.WfN) (hroot : comps = [] → n.kind = .dir) (line : Bytes)
    (h : Sqfs.QuoteLF.describeNode ur comps n = .ok line) :
    describeNode ur comps n = .ok line ∧ Decodes line (specEntry ur comps n).toList := by
  obtain ⟨h1, h2, h3, h4⟩ := lf_node ur comps n hc line h
  refine ⟨h1, ?_⟩
  by_cases hk : n.kind = .other
  · rw [describeNode_img ur comps n hc] at h1
    simp only [hk, Except.ok.injEq] at h1
    subst h1
    simp only [specEntry, hk, Option.toList]
    exact decodes_nil
  · have hg : ∀ c ∈ comps, GoodName c := fun c hcm =>
      let ⟨a, b, c', d, e⟩ := hc c hcm
      ⟨a, b, c', d, e, h2 hk c hcm⟩
    obtain ⟨p1, p2, p3, p4, p5⟩ := hn
    have hwf : n.Wf := ⟨p1, p2, p3, p4, fun hs => ⟨p5 hs, h3 hs⟩⟩
    by_cases hf : n.kind = .file
    · have hur' : ∀ r, ur = some r → LineSafe r := fun r hr => ⟨hur r hr, h4 hf r hr⟩
      obtain ⟨line', q1, q2⟩ := node_decodes ur hur' comps n hg hwf hroot
      rw [h1] at q1
      cases q1
      exact q2
    · obtain ⟨i1, i2⟩ := describeNode_ur_irrel ur comps n hf
      obtain ⟨line', q1, q2⟩ := node_decodes none (fun r hr => by cases hr) comps n hg hwf hroot
      rw [← i1, h1] at q1
      cases q1
      rw [i2]
      exact q2

mutual
theorem lf_tree_rt (ur : Option Bytes) (hur : ∀ r, ur = some r → NUL ∉ r) (comps : List Bytes)
    (hc : ∀ c ∈ comps, ImgName c) :
    (t : Tree) → (match t with | .mk _ node ch => node.WfN ∧ ForestOkN ch ∧ (comps = [] → node.kind = .dir)) →
      (∀ out, Sqfs.QuoteLF.describeTree ur comps t = .ok out →
        describeTree ur comps t = .ok out ∧ Decodes out (specTree ur comps t)) ∧
      (∀ e, Sqfs.QuoteLF.describeTree ur comps t = .error e → e = .newline)
  | .mk name node ch, h => by
    obtain ⟨hn, hf, hroot⟩ := h
    constructor
    · intro out ho
      unfold Sqfs.QuoteLF.describeTree at ho
      cases hl : Sqfs.QuoteLF.describeNode ur comps node with
      | error e => simp [hl] at ho
      | ok line =>
        obtain ⟨h1, h2⟩ := lf_node_decodes ur hur comps node hc hn hroot line hl
        simp only [hl] at ho
        by_cases hk : node.kind = .dir
        · simp only [hk, if_true] at ho
          cases hr : Sqfs.QuoteLF.describeForest ur comps ch with
          | error e => simp [hr] at ho
          | ok rest =>
            simp only [hr, Except.ok.injEq] at ho
            subst ho
            obtain ⟨h3, h4⟩ := (lf_forest_rt ur hur comps hc ch hf).1 rest hr
            refine ⟨by simp only [describeTree, h1, hk, h3, if_true], ?_⟩
            simp only [specTree, hk, if_true]
            exact h2.append h4
        · simp only [hk, if_false, Except.ok.injEq] at ho
          subst ho
          refine ⟨by simp only [describeTree, h1, hk, if_false], ?_⟩
          simp only [specTree, hk, if_false, List.append_nil]
          exact h2
    · intro e he
      unfold Sqfs.QuoteLF.describeTree at he
      cases hl : Sqfs.QuoteLF.describeNode ur comps node with
      | error e' =>
        simp only [hl, Except.error.injEq] at he
        subst he
        exact lf_node_err ur comps node hc _ hl
      | ok line =>
        simp only [hl] at he
        by_cases hk : node.kind = .dir
        · simp only [hk, if_true] at he
          cases hr : Sqfs.QuoteLF.describeForest ur comps ch with
          | error e' =>
            simp only [hr, Except.error.injEq] at he
            subst he
            exact (lf_forest_rt ur hur comps hc ch hf).2 _ hr
          | ok rest => simp [hr] at he
        · simp [hk] at he
theorem lf_forest_rt (ur : Option Bytes) (hur : ∀ r, ur = some r → NUL ∉ r) (parents : List Bytes)
    (hc : ∀ c ∈ parents, ImgName c) :
    (ts : List Tree) → ForestOkN ts →
      (∀ out, Sqfs.QuoteLF.describeForest ur parents ts = .ok out →
        describeForest ur parents ts = .ok out ∧ Decodes out (specForest ur parents ts)) ∧
      (∀ e, Sqfs.QuoteLF.describeForest ur parents ts = .error e → e = .newline)
  | [], _ => by
    constructor
    · intro out ho
      simp only [Sqfs.QuoteLF.describeForest, Except.ok.injEq] at ho
      subst ho
      exact ⟨by simp only [describeForest], by simp only [specForest]; exact decodes_nil⟩
    · intro e he
      simp [Sqfs.QuoteLF.describeForest] at he
  | .mk name node ch :: ts, h => by
    obtain ⟨⟨hname, hn, hch⟩, hts⟩ := h
    have hc' : ∀ c ∈ parents ++ [name], ImgName c := by
      intro c hcm
      rcases List.mem_append.1 hcm with m | m
      · exact hc c m
      · rw [List.mem_singleton.1 m]; exact hname
    have ih1 := lf_tree_rt ur hur (parents ++ [name]) hc' (.mk name node ch) ⟨hn, hch, fun e => by simp at e⟩
    have ih2 := lf_forest_rt ur hur parents hc ts hts
    constructor
    · intro out ho
      unfold Sqfs.QuoteLF.describeForest at ho
      cases ha : Sqfs.QuoteLF.describeTree ur (parents ++ [name]) (.mk name node ch) with
      | error e => simp [ha] at ho
      | ok a =>
        simp only [ha] at ho
        cases hb : Sqfs.QuoteLF.describeForest ur parents ts with
        | error e => simp [hb] at ho
        | ok b =>
          simp only [hb, Except.ok.injEq] at ho
          subst ho
          obtain ⟨h1, h2⟩ := ih1.1 a ha
          obtain ⟨h3, h4⟩ := ih2.1 b hb
          refine ⟨by simp only [describeForest, h1, h3], ?_⟩
          simp only [specForest]
          exact h2.append h4
    · intro e he
      unfold Sqfs.QuoteLF.describeForest at he
      cases ha : Sqfs.QuoteLF.describeTree ur (parents ++ [name]) (.mk name node ch) with
      | error e' =>
        simp only [ha, Except.error.injEq] at he
        subst he
        exact ih1.2 _ ha
      | ok a =>
        simp only [ha] at he
        cases hb : Sqfs.QuoteLF.describeForest ur parents ts with
        | error e' =>
          simp only [hb, Except.error.injEq] at he
          subst he
          exact ih2.2 _ hb
        | ok b => simp [hb] at he
end

mutual
theorem lf_tree_same (ur : Option Bytes) (hur : ∀ r, ur = some r → LineSafe r) (comps : List Bytes)
    (hc : ∀ c ∈ comps, GoodName c) :
    (t : Tree) → (match t with | .mk _ node ch => node.Wf ∧ ForestOk ch) →
      Sqfs.QuoteLF.describeTree ur comps t = describeTree ur comps t
  | .mk name node ch, h => by
    obtain ⟨hn, hf⟩ := h
    have h1 := lf_node_same ur comps node hc (fun hk => (hn.2.2.2.2 hk).2) (fun _ r hr => (hur r hr).2)
    have h2 := lf_forest_same ur hur comps hc ch hf
    unfold Sqfs.QuoteLF.describeTree describeTree
    rw [h1, h2]
    cases describeNode ur comps node with
    | error e => rfl
    | ok line =>
      by_cases hk : node.kind = .dir
      · simp only [hk, if_true]
        cases describeForest ur comps ch <;> rfl
      · simp only [hk, if_false]
theorem lf_forest_same (ur : Option Bytes) (hur : ∀ r, ur = some r → LineSafe r) (parents : List Bytes)
    (hc : ∀ c ∈ parents, GoodName c) :
    (ts : List Tree) → ForestOk ts → Sqfs.QuoteLF.describeForest ur parents ts = describeForest ur parents ts
  | [], _ => by simp only [Sqfs.QuoteLF.describeForest, describeForest]
  | .mk name node ch :: ts, h => by
    obtain ⟨⟨hname, hn, hch⟩, hts⟩ := h
    have hc' : ∀ c ∈ parents ++ [name], GoodName c := by
      intro c hcm
      rcases List.mem_append.1 hcm with m | m
      · exact hc c m
      · rw [List.mem_singleton.1 m]; exact hname
    have h1 := lf_tree_same ur hur (parents ++ [name]) hc' (.mk name node ch) ⟨hn, hch⟩
    have h2 := lf_forest_same ur hur parents hc ts hts
    unfold Sqfs.QuoteLF.describeForest describeForest
    rw [h1, h2]
    cases describeTree ur (parents ++ [name]) (.mk name node ch) with
    | error e => rfl
    | ok a => cases describeForest ur parents ts <;> rfl
end

end Sqfs.Quote
