/-
Helper lemmas for C06, part 3: when the plan has no error of its own, *every* visited node gets its creating call,
every regular file its content, every node its attribute calls, and the skip reports are exactly the refused entries
(order and multiplicity).  Property theorems live in `Sqfs/Props/C06.lean`.
-/
import Sqfs.Proofs.UnpackRun
namespace Sqfs.Unpack
open Sqfs.Path

/-! ## J. the visited nodes themselves -/

mutual
/-- like `visit`, but keeping the node: (path components, node) of what a walk reaches -/
def visitN (comps : List Bytes) : TNode → List (List Bytes × TNode)
  | .mk name k pl a ch =>
    if !isFilenameSane name then [] else (comps, .mk name k pl a ch) :: (if k = .dir then visitNL comps ch else [])
def visitNL (anc : List Bytes) : List TNode → List (List Bytes × TNode)
  | [] => []
  | c :: cs => visitN (anc ++ [c.name]) c ++ visitNL anc cs
end

def visitNRoot (t : TNode) : List (List Bytes × TNode) := if t.kind = .dir then visitNL [] t.children else visitN [] t

mutual
theorem visit_eq_visitN : ∀ (x : TNode) (comps : List Bytes),
    visit comps x = (visitN comps x).map (fun p => (p.1, p.2.kind))
  | .mk name k pl a ch, comps => by
    unfold visit visitN
    split
    · rfl
    · split
      · simp [TNode.kind, visitL_eq_visitNL ch comps]
      · simp [TNode.kind]
theorem visitL_eq_visitNL : ∀ (l : List TNode) (anc : List Bytes),
    visitL anc l = (visitNL anc l).map (fun p => (p.1, p.2.kind))
  | [], _ => by simp [visitL, visitNL]
  | x :: xs, anc => by
    unfold visitL visitNL
    rw [visit_eq_visitN x _, visitL_eq_visitNL xs anc, List.map_append]
end

theorem visitRoot_eq_visitNRoot (t : TNode) : visitRoot t = (visitNRoot t).map (fun p => (p.1, p.2.kind)) := by
  unfold visitRoot visitNRoot
  split
  · exact visitL_eq_visitNL _ _
  · exact visit_eq_visitN _ _

theorem visitNRoot_visitRoot {t : TNode} {c : List Bytes} {n : TNode} (h : (c, n) ∈ visitNRoot t) :
    (c, n.kind) ∈ visitRoot t := by
  rw [visitRoot_eq_visitNRoot]
  exact List.mem_map.2 ⟨(c, n), h, rfl⟩

/-! ## K. the create walk, node by node -/

def SkipEv (evs : List Ev) : List Bytes := evs.filterMap (fun | .sys _ => none | .skip n => some n)

theorem SkipEv_append (a b : List Ev) : SkipEv (a ++ b) = SkipEv a ++ SkipEv b := by
  simp [SkipEv, List.filterMap_append]

theorem Out.skips_eq (o : Out) : o.skips = SkipEv o.evs := rfl

mutual
theorem createDfsN_complete (rn : Bytes) (fl : Flags) : ∀ (x : TNode) (comps : List Bytes),
    (createDfs rn fl comps x).err = none →
      (∀ c n, (c, n) ∈ visitN comps x → rn = [] ∧ AllGood c ∧
        Ev.sys (createNode n.kind (joinSlash c) n.payload n.attr fl) ∈ (createDfs rn fl comps x).evs) ∧
      SkipEv (createDfs rn fl comps x).evs = skipped x
  | .mk name k pl a ch, comps, h => by
    unfold createDfs at h ⊢
    unfold visitN skipped
    by_cases hs : (!isFilenameSane name) = true
    · simp [hs, SkipEv]
    · rw [if_neg hs] at h
      simp only [if_neg hs]
      cases hp : pathOf rn comps with
      | error e => rw [hp] at h; cases h
      | ok p =>
        rw [hp] at h
        simp only at h ⊢
        obtain ⟨_, hb, hevs⟩ := Out.seq_ok h
        obtain ⟨hrn, hg, hpj⟩ := pathOf_ok hp
        rw [hevs]
        by_cases hk : k = .dir
        · subst hk
          simp only [↓reduceIte] at hb ⊢
          have ih := createListN_complete rn fl ch comps hb
          constructor
          · intro c n hm
            simp only [List.mem_cons, Prod.mk.injEq] at hm
            rcases hm with ⟨rfl, rfl⟩ | hm
            · exact ⟨hrn, hg, by simp [TNode.kind, TNode.payload, TNode.attr, hpj]⟩
            · obtain ⟨h1, h2, h3⟩ := ih.1 c n hm
              exact ⟨h1, h2, by simp [h3]⟩
          · rw [SkipEv_append, ih.2]
            simp [SkipEv]
        · simp only [if_neg hk]
          constructor
          · intro c n hm
            simp only [List.mem_cons, Prod.mk.injEq, List.not_mem_nil, or_false] at hm
            obtain ⟨rfl, rfl⟩ := hm
            exact ⟨hrn, hg, by simp [TNode.kind, TNode.payload, TNode.attr, hpj]⟩
          · simp [SkipEv]
theorem createListN_complete (rn : Bytes) (fl : Flags) : ∀ (l : List TNode) (anc : List Bytes),
    (createList rn fl anc l).err = none →
      (∀ c n, (c, n) ∈ visitNL anc l → rn = [] ∧ AllGood c ∧
        Ev.sys (createNode n.kind (joinSlash c) n.payload n.attr fl) ∈ (createList rn fl anc l).evs) ∧
      SkipEv (createList rn fl anc l).evs = skippedL l
  | [], _, _ => by simp [visitNL, skippedL, createList, SkipEv]
  | x :: xs, anc, h => by
    unfold createList at h ⊢
    unfold visitNL skippedL
    obtain ⟨ha, hb, hevs⟩ := Out.seq_ok h
    rw [hevs]
    have ih1 := createDfsN_complete rn fl x _ ha
    have ih2 := createListN_complete rn fl xs anc hb
    constructor
    · intro c n hm
      rcases List.mem_append.1 hm with h1 | h1
      · obtain ⟨h3, h4, h5⟩ := ih1.1 c n h1
        exact ⟨h3, h4, by simp [h5]⟩
      · obtain ⟨h3, h4, h5⟩ := ih2.1 c n h1
        exact ⟨h3, h4, by simp [h5]⟩
    · rw [SkipEv_append, ih1.2, ih2.2]
end

theorem restoreFstreeN_complete (fl : Flags) (t : TNode) (h : (restoreFstree fl t).err = none) :
    (∀ c n, (c, n) ∈ visitNRoot t → t.name = [] ∧ AllGood c ∧
      Ev.sys (createNode n.kind (joinSlash c) n.payload n.attr fl) ∈ (restoreFstree fl t).evs) ∧
    SkipEv (restoreFstree fl t).evs = skippedRoot t := by
  unfold restoreFstree at h ⊢
  unfold visitNRoot skippedRoot
  split
  · rename_i hk
    rw [if_pos hk] at h
    exact createListN_complete _ fl _ [] h
  · rename_i hk
    rw [if_neg hk] at h
    exact createDfsN_complete _ fl t [] h

/-! ## L. the file list and the fill phase -/

/-- the file-list entry `add_file` makes for a visited regular file -/
def fileEntOf (c : List Bytes) (n : TNode) : FileEnt := mkFileEnt (joinSlash c) n.payload n.attr

theorem GenOut.seq_ok {a b : GenOut} (h : (a.seq b).err = none) :
    a.err = none ∧ b.err = none ∧ (a.seq b).evs = a.evs ++ b.evs ∧ (a.seq b).files = a.files ++ b.files := by
  unfold GenOut.seq at h ⊢
  split at h
  · rename_i e he; rw [he] at h; cases h
  · rename_i he; simp only at h; simp [he, h]

mutual
theorem genFiles_complete (rn : Bytes) : ∀ (x : TNode) (comps : List Bytes),
    (genFiles rn comps x).err = none →
      (∀ c n, (c, n) ∈ visitN comps x → n.kind = .reg → fileEntOf c n ∈ (genFiles rn comps x).files) ∧
      SkipEv (genFiles rn comps x).evs = skipped x
  | .mk name k pl a ch, comps, h => by
    unfold genFiles at h ⊢
    unfold visitN skipped
    by_cases hs : (!isFilenameSane name) = true
    · simp [hs, SkipEv]
    · rw [if_neg hs] at h
      simp only [if_neg hs]
      by_cases hk : k = .reg
      · subst hk
        simp only [↓reduceIte, reduceCtorEq] at h ⊢
        cases hp : pathOf rn comps with
        | error e => rw [hp] at h; cases h
        | ok p =>
          obtain ⟨_, _, hpj⟩ := pathOf_ok hp
          constructor
          · intro c n hm _
            simp only [List.mem_cons, Prod.mk.injEq, List.not_mem_nil, or_false] at hm
            obtain ⟨rfl, rfl⟩ := hm
            simp [fileEntOf, TNode.attr, TNode.payload, hpj]
          · simp [SkipEv]
      · simp only [if_neg hk] at h ⊢
        by_cases hd : k = .dir
        · subst hd
          simp only [↓reduceIte] at h ⊢
          have ih := genFilesL_complete rn ch comps h
          constructor
          · intro c n hm hr
            simp only [List.mem_cons, Prod.mk.injEq] at hm
            rcases hm with ⟨rfl, rfl⟩ | hm
            · simp only [TNode.kind] at hr; exact absurd hr hk
            · exact ih.1 c n hm hr
          · exact ih.2
        · simp only [if_neg hd]
          constructor
          · intro c n hm hr
            simp only [List.mem_cons, Prod.mk.injEq, List.not_mem_nil, or_false] at hm
            obtain ⟨rfl, rfl⟩ := hm
            simp only [TNode.kind] at hr; exact absurd hr hk
          · simp [SkipEv]
theorem genFilesL_complete (rn : Bytes) : ∀ (l : List TNode) (anc : List Bytes),
    (genFilesL rn anc l).err = none →
      (∀ c n, (c, n) ∈ visitNL anc l → n.kind = .reg → fileEntOf c n ∈ (genFilesL rn anc l).files) ∧
      SkipEv (genFilesL rn anc l).evs = skippedL l
  | [], _, _ => by simp [visitNL, skippedL, genFilesL, SkipEv]
  | x :: xs, anc, h => by
    unfold genFilesL at h ⊢
    unfold visitNL skippedL
    obtain ⟨ha, hb, hevs, hfiles⟩ := GenOut.seq_ok h
    rw [hevs, hfiles]
    have ih1 := genFiles_complete rn x _ ha
    have ih2 := genFilesL_complete rn xs anc hb
    constructor
    · intro c n hm hr
      rcases List.mem_append.1 hm with h1 | h1
      · exact List.mem_append_left _ (ih1.1 c n h1 hr)
      · exact List.mem_append_right _ (ih2.1 c n h1 hr)
    · rw [SkipEv_append, ih1.2, ih2.2]
end

theorem fillFiles_complete : ∀ (l : List FileEnt), (fillFiles l).err = none →
    (∀ f ∈ l, f.fail = false ∧ Ev.sys (.openTrunc f.path f.data) ∈ (fillFiles l).evs) ∧ SkipEv (fillFiles l).evs = []
  | [], _ => by simp [fillFiles, SkipEv]
  | f :: r, h => by
    unfold fillFiles at h ⊢
    obtain ⟨ha, hb, hevs⟩ := Out.seq_ok h
    rw [hevs]
    have ih := fillFiles_complete r hb
    have hf : f.fail = false := by
      cases hff : f.fail with
      | false => rfl
      | true => simp [hff] at ha
    constructor
    · intro g hg
      rcases List.mem_cons.1 hg with rfl | hg
      · exact ⟨hf, by simp⟩
      · exact ⟨(ih.1 g hg).1, by simp [(ih.1 g hg).2]⟩
    · rw [SkipEv_append, ih.2]; simp [SkipEv]

/-- `qsort` loses no entry -/
def OrdAll (ord : List FileEnt → List FileEnt) : Prop := ∀ l f, f ∈ l → f ∈ ord l

theorem mem_insertFile {x y : FileEnt} : ∀ {l : List FileEnt}, y ∈ insertFile x l ↔ y = x ∨ y ∈ l
  | [] => by simp [insertFile]
  | z :: zs => by
    unfold insertFile
    split
    · simp
    · simp only [List.mem_cons, mem_insertFile (l := zs)]
      constructor
      · rintro (h | h | h) <;> simp [h]
      · rintro (h | h | h) <;> simp [h]

theorem mem_ordByLoc {y : FileEnt} : ∀ {l : List FileEnt}, y ∈ ordByLoc l ↔ y ∈ l
  | [] => by simp [ordByLoc]
  | x :: xs => by
    unfold ordByLoc
    rw [mem_insertFile, mem_ordByLoc (l := xs)]
    simp

/-- the model of `qsort(compare_files)` invents no entry and loses none -/
theorem ordByLoc_ok : OrdOK ordByLoc ∧ OrdAll ordByLoc :=
  ⟨fun _ _ h => mem_ordByLoc.1 h, fun _ _ h => mem_ordByLoc.2 h⟩

/-- for a tree whose root has a sane name ("" for the image's root, a path component for `--unpack-path`),
    `gen_file_list_dfs(root)` lists the visited regular files -/
theorem genFiles_root_complete (t : TNode) (hn : isFilenameSane t.name = true) (h : (genFiles t.name [] t).err = none) :
    (∀ c n, (c, n) ∈ visitNRoot t → n.kind = .reg → fileEntOf c n ∈ (genFiles t.name [] t).files) ∧
    SkipEv (genFiles t.name [] t).evs = skippedRoot t := by
  cases t with
  | mk name k pl a ch =>
    have e0 : (TNode.mk name k pl a ch).name = name := rfl
    have e1 : (TNode.mk name k pl a ch).kind = k := rfl
    have e2 : (TNode.mk name k pl a ch).children = ch := rfl
    rw [e0] at hn h ⊢
    unfold visitNRoot skippedRoot
    rw [e1, e2]
    by_cases hk : k = .dir
    · subst hk
      unfold genFiles at h ⊢
      simp only [hn, Bool.not_true, Bool.false_eq_true, ↓reduceIte, reduceCtorEq] at h ⊢
      exact genFilesL_complete name ch [] h
    · rw [if_neg hk, if_neg hk]
      exact genFiles_complete name (.mk name k pl a ch) [] h

theorem fillUnpacked_complete (ord : List FileEnt → List FileEnt) (hall : OrdAll ord) (t : TNode)
    (hn : isFilenameSane t.name = true) (h : (fillUnpacked ord t).err = none) :
    (∀ c n, (c, n) ∈ visitNRoot t → n.kind = .reg → n.attr.copyFail = none ∧
      Ev.sys (.openTrunc (joinSlash c) n.payload) ∈ (fillUnpacked ord t).evs) ∧
    SkipEv (fillUnpacked ord t).evs = skippedRoot t := by
  unfold fillUnpacked at h ⊢
  simp only at h ⊢
  cases hg : (genFiles t.name [] t).err with
  | some e => rw [hg] at h; cases h
  | none =>
    rw [hg] at h
    simp only at h ⊢
    obtain ⟨_, hb, hevs⟩ := Out.seq_ok h
    rw [hevs]
    obtain ⟨g1, g2⟩ := genFiles_root_complete t hn hg
    obtain ⟨f1, f2⟩ := fillFiles_complete _ hb
    constructor
    · intro c n hm hr
      obtain ⟨hfail, hev⟩ := f1 _ (hall _ _ (g1 c n hm hr))
      have hcf : n.attr.copyFail = none := by
        cases hc : n.attr.copyFail with
        | none => rfl
        | some k => simp [fileEntOf, mkFileEnt, hc] at hfail
      refine ⟨hcf, ?_⟩
      simp only [fileEntOf, mkFileEnt, hcf] at hev
      simp [hev]
    · rw [SkipEv_append, g2, f2]; simp

/-! ## M. the attribute walk -/

theorem attrOps_noskip (fl : Flags) (k : Kind) (p : Bytes) (a : Attr) : SkipEv (attrOps fl k p a).evs = [] := by
  rw [SkipEv, List.filterMap_eq_nil_iff]
  intro ev hev
  cases ev with
  | sys s => rfl
  | skip nm =>
    exfalso
    unfold attrOps at hev
    rcases Out.mem_seq hev with h1 | h1
    · split at h1
      · unfold xattrOps at h1
        split at h1
        · simp at h1
        · simp only [List.mem_map] at h1
          obtain ⟨kv, _, e⟩ := h1
          cases e
      · simp at h1
    · unfold attrTail at h1
      simp only [List.mem_append] at h1
      rcases h1 with (h1 | h1) | h1 <;> split at h1 <;> simp at h1

mutual
theorem setAttribs_complete (rn : Bytes) (fl : Flags) : ∀ (x : TNode) (comps : List Bytes),
    (setAttribs rn fl comps x).err = none →
      (∀ c n, (c, n) ∈ visitN comps x → (attrOps fl n.kind (joinSlash c) n.attr).err = none ∧
        ∀ ev ∈ (attrOps fl n.kind (joinSlash c) n.attr).evs, ev ∈ (setAttribs rn fl comps x).evs) ∧
      SkipEv (setAttribs rn fl comps x).evs = []
  | .mk name k pl a ch, comps, h => by
    unfold setAttribs at h ⊢
    unfold visitN
    by_cases hs : (!isFilenameSane name) = true
    · simp [hs, SkipEv]
    · rw [if_neg hs] at h
      simp only [if_neg hs]
      obtain ⟨ha, hb, hevs⟩ := Out.seq_ok h
      rw [hevs]
      cases hp : pathOf rn comps with
      | error e => rw [hp] at hb; cases hb
      | ok p =>
        rw [hp] at hb
        simp only at hb ⊢
        obtain ⟨_, _, hpj⟩ := pathOf_ok hp
        have hsk := attrOps_noskip fl k p a
        by_cases hk : k = .dir
        · subst hk
          simp only [↓reduceIte] at ha ⊢
          have ih := setAttribsL_complete rn fl ch comps ha
          constructor
          · intro c n hm
            simp only [List.mem_cons, Prod.mk.injEq] at hm
            rcases hm with ⟨rfl, rfl⟩ | hm
            · simp only [TNode.kind, TNode.attr, ← hpj]
              exact ⟨hb, fun ev hev => List.mem_append_right _ hev⟩
            · exact ⟨(ih.1 c n hm).1, fun ev hev => List.mem_append_left _ ((ih.1 c n hm).2 ev hev)⟩
          · rw [SkipEv_append, ih.2, hsk]; rfl
        · simp only [if_neg hk]
          constructor
          · intro c n hm
            simp only [List.mem_cons, Prod.mk.injEq, List.not_mem_nil, or_false] at hm
            obtain ⟨rfl, rfl⟩ := hm
            simp only [TNode.kind, TNode.attr, ← hpj]
            exact ⟨hb, fun ev hev => List.mem_append_right _ hev⟩
          · rw [SkipEv_append, hsk]; rfl
theorem setAttribsL_complete (rn : Bytes) (fl : Flags) : ∀ (l : List TNode) (anc : List Bytes),
    (setAttribsL rn fl anc l).err = none →
      (∀ c n, (c, n) ∈ visitNL anc l → (attrOps fl n.kind (joinSlash c) n.attr).err = none ∧
        ∀ ev ∈ (attrOps fl n.kind (joinSlash c) n.attr).evs, ev ∈ (setAttribsL rn fl anc l).evs) ∧
      SkipEv (setAttribsL rn fl anc l).evs = []
  | [], _, _ => by simp [visitNL, setAttribsL, SkipEv]
  | x :: xs, anc, h => by
    unfold setAttribsL at h ⊢
    unfold visitNL
    obtain ⟨ha, hb, hevs⟩ := Out.seq_ok h
    rw [hevs]
    have ih1 := setAttribs_complete rn fl x _ ha
    have ih2 := setAttribsL_complete rn fl xs anc hb
    constructor
    · intro c n hm
      rcases List.mem_append.1 hm with h1 | h1
      · exact ⟨(ih1.1 c n h1).1, fun ev hev => List.mem_append_left _ ((ih1.1 c n h1).2 ev hev)⟩
      · exact ⟨(ih2.1 c n h1).1, fun ev hev => List.mem_append_right _ ((ih2.1 c n h1).2 ev hev)⟩
    · rw [SkipEv_append, ih1.2, ih2.2]; rfl
end

/-- without `-C -O -T -X` a node has no attribute calls -/
theorem attrOps_noflags {fl : Flags} (h : (fl.chown || fl.chmod || fl.setTimes || fl.setXattr) = false) (k : Kind) (p : Bytes)
    (a : Attr) : (attrOps fl k p a).evs = [] ∧ (attrOps fl k p a).err = none := by
  simp only [Bool.or_eq_false_iff] at h
  obtain ⟨⟨⟨h1, h2⟩, h3⟩, h4⟩ := h
  simp [attrOps, attrTail, h1, h2, h3, h4, Out.seq]

theorem updateAttribs_complete (fl : Flags) (t : TNode) (h : (updateAttribs fl t).err = none) :
    (∀ c n, (c, n) ∈ visitNRoot t → (attrOps fl n.kind (joinSlash c) n.attr).err = none ∧
      ∀ ev ∈ (attrOps fl n.kind (joinSlash c) n.attr).evs, ev ∈ (updateAttribs fl t).evs) ∧
    SkipEv (updateAttribs fl t).evs = [] := by
  unfold updateAttribs at h ⊢
  unfold visitNRoot
  by_cases hfl : (!(fl.chown || fl.chmod || fl.setTimes || fl.setXattr)) = true
  · simp only [hfl, if_true]
    have hfl' : (fl.chown || fl.chmod || fl.setTimes || fl.setXattr) = false := by simpa using hfl
    refine ⟨fun c n _ => ?_, rfl⟩
    obtain ⟨h1, h2⟩ := attrOps_noflags hfl' n.kind (joinSlash c) n.attr
    exact ⟨h2, by rw [h1]; intro ev hev; cases hev⟩
  · rw [if_neg hfl] at h
    simp only [if_neg hfl]
    split
    · rename_i hk
      rw [if_pos hk] at h
      exact setAttribsL_complete _ fl _ [] h
    · rename_i hk
      rw [if_neg hk] at h
      exact setAttribs_complete _ fl t [] h

/-! ## N. the whole plan -/

/-- **the plan without an error of its own is complete**: every visited node has its creating call, every visited
    regular file the `open(O_TRUNC)` that writes its whole content, every visited node all its attribute calls; and the
    skip reports are exactly the refused entries, once per reporting walk, in walk order. -/
theorem planSorted_complete (ord : List FileEnt → List FileEnt) (hall : OrdAll ord) (fl : Flags) (t : TNode)
    (hn : isFilenameSane t.name = true) (h : (planSorted ord fl t).err = none) :
    (∀ c n, (c, n) ∈ visitNRoot t →
      AllGood c ∧
      Ev.sys (createNode n.kind (joinSlash c) n.payload n.attr fl) ∈ (planSorted ord fl t).evs ∧
      (n.kind = .reg → n.attr.copyFail = none ∧ Ev.sys (.openTrunc (joinSlash c) n.payload) ∈ (planSorted ord fl t).evs) ∧
      (attrOps fl n.kind (joinSlash c) n.attr).err = none ∧
      (∀ ev ∈ (attrOps fl n.kind (joinSlash c) n.attr).evs, ev ∈ (planSorted ord fl t).evs)) ∧
    (planSorted ord fl t).skips = skippedRoot t ++ skippedRoot t := by
  unfold planSorted at h ⊢
  obtain ⟨ha, hbc, hevs⟩ := Out.seq_ok h
  obtain ⟨hb, hc, hevs2⟩ := Out.seq_ok hbc
  rw [Out.skips_eq, hevs, hevs2]
  obtain ⟨a1, a2⟩ := restoreFstreeN_complete fl t ha
  obtain ⟨b1, b2⟩ := fillUnpacked_complete ord hall t hn hb
  obtain ⟨c1, c2⟩ := updateAttribs_complete fl t hc
  constructor
  · intro c n hm
    obtain ⟨_, hg, hcr⟩ := a1 c n hm
    refine ⟨hg, by simp [hcr], ?_, (c1 c n hm).1, ?_⟩
    · intro hr
      obtain ⟨h1, h2⟩ := b1 c n hm hr
      exact ⟨h1, by simp [h2]⟩
    · intro ev hev
      have := (c1 c n hm).2 ev hev
      simp [this]
  · simp only [SkipEv_append, a2, b2, c2, List.append_nil]

mutual
theorem treeSort_name : ∀ (x x' : TNode), treeSort x = .ok x' → x'.name = x.name
  | .mk n k p a ch, x', h => by
    unfold treeSort at h
    split at h
    · cases h
    · simp only at h
      split at h
      · cases h
      · cases h; rfl
end

end Sqfs.Unpack
