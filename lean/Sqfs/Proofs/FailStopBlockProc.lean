/-
Soundness of error propagation in the block-processor model (C13, second layer): every combinator and every
function of Sqfs/Model/FailStopBlockProc.lean is `Sound` — if a primitive draws a fault while it runs, it
returns an error — provided every primitive's result is checked.
-/
import Sqfs.Model.FailStopBlockProc
namespace Sqfs.FailStop.BP
open Sqfs.FailStop

def isErr {α : Type} : Except Err α → Bool
  | .ok _ => false
  | .error _ => true

/-- `m` reports every fault drawn while it runs. -/
structure Sound {α : Type} (m : M α) : Prop where
  prop : ∀ c : Ctx, c.faulted = false → (m c).2.faulted = true → isErr (m c).1 = true

theorem sound_pure {α : Type} (a : α) : Sound (pure a : M α) := ⟨by
  intro c h0 h1; simp [pure] at h1; simp [h0] at h1⟩

theorem sound_fail {α : Type} (e : Err) : Sound (fail e : M α) := ⟨by
  intro c _ _; simp [fail, isErr]⟩

theorem sound_getP : Sound getP := ⟨by
  intro c h0 h1; simp [getP] at h1; simp [h0] at h1⟩

theorem sound_modP (f : Proc → Proc) : Sound (modP f) := ⟨by
  intro c h0 h1; simp [modP] at h1; simp [h0] at h1⟩

theorem sound_prim (v : Variant) (p : Prim) (h : checked v p = true) : Sound (prim v p) := ⟨by
  intro c h0 h1
  unfold prim at h1 ⊢
  by_cases hb : c.script.headD false = true
  · rw [if_pos hb, if_pos h]; rfl
  · rw [if_neg hb] at h1; simp [h0] at h1⟩

theorem sound_bind {α β : Type} (m : M α) (f : α → M β) (hm : Sound m) (hf : ∀ a, Sound (f a)) :
    Sound (m >>= f) := ⟨by
  intro c h0 h1
  show isErr ((bind m f) c).1 = true
  have h1' : ((bind m f) c).2.faulted = true := h1
  simp only [bind] at *
  rcases hmc : m c with ⟨r, c'⟩
  rw [hmc] at h1'
  cases r with
  | error e => simp [isErr]
  | ok a =>
    simp only [] at h1' ⊢
    have hc' : c'.faulted = false := by
      cases hcf : c'.faulted
      · rfl
      · have := hm.prop c h0 (by rw [hmc]; exact hcf)
        rw [hmc] at this; simp [isErr] at this
    exact (hf a).prop c' hc' h1'⟩

theorem sound_always {α : Type} (m : M α) (fin : Proc → Proc) (hm : Sound m) : Sound (always m fin) := ⟨by
  intro c h0 h1
  unfold always at *
  rcases hmc : m c with ⟨r, c'⟩
  rw [hmc] at h1
  simp only [] at h1 ⊢
  have := hm.prop c h0 (by rw [hmc]; exact h1)
  rw [hmc] at this; exact this⟩

theorem sound_onError {α : Type} (m : M α) (fin : Proc → Proc) (hm : Sound m) : Sound (onError m fin) := ⟨by
  intro c h0 h1
  unfold onError at *
  rcases hmc : m c with ⟨r, c'⟩
  rw [hmc] at h1
  cases r with
  | error e => simp [isErr]
  | ok a =>
    simp only [] at h1 ⊢
    have := hm.prop c h0 (by rw [hmc]; exact h1)
    rw [hmc] at this; exact this⟩

macro "sound_core" : tactic => `(tactic| first
  | exact sound_pure _ | exact sound_fail _ | exact sound_getP | exact sound_modP _
  | apply sound_prim | apply sound_bind | apply sound_always | apply sound_onError)

/-- structural steps shared by all the proofs below; `hs` are the facts about callees / induction hypotheses -/
syntax "sound_steps" "[" term,* "]" : tactic
macro_rules
  | `(tactic| sound_steps [$hs,*]) => `(tactic| repeat (first
      | (first $[| apply $hs]*)
      | sound_core
      | intro _ | split | dsimp only))

section
variable {v : Variant} (hv : ∀ p, checked v p = true)
include hv
-- keep the unifier from unfolding the combinators while it searches for the applicable rule
attribute [local irreducible] always onError prim getP modP fail

theorem sound_enqueueBlock (b : Blk) : Sound (enqueueBlock v b) := by
  unfold enqueueBlock; sound_steps [hv, hv]

theorem sound_writeDataBlock (b : Blk) : Sound (writeDataBlock v b) := by
  unfold writeDataBlock; sound_steps [hv, hv]

theorem sound_processCompletedBlock (b : Blk) : Sound (processCompletedBlock v b) := by
  have hw := sound_writeDataBlock hv
  unfold processCompletedBlock; sound_steps [hv, hw]

theorem sound_processCompletedFragment (b : Blk) : Sound (processCompletedFragment v b) := by
  have he := sound_enqueueBlock hv
  unfold processCompletedFragment; sound_steps [hv, he]

theorem sound_drainIo (fuel : Nat) : Sound (drainIo v fuel) := by
  have hb := sound_processCompletedBlock hv
  induction fuel with
  | zero => unfold drainIo; exact sound_fail _
  | succ n ih => unfold drainIo; sound_steps [hv, hb, ih]

theorem sound_dequeueLoop (old fuel : Nat) : Sound (dequeueLoop v old fuel) := by
  have hd := sound_drainIo hv
  have hf := sound_processCompletedFragment hv
  induction fuel with
  | zero => unfold dequeueLoop; exact sound_fail _
  | succ n ih => unfold dequeueLoop; sound_steps [hv, hd, hf, ih]

theorem sound_dequeueBlock (fuel : Nat) : Sound (dequeueBlock v fuel) := by
  have hd := sound_dequeueLoop hv
  unfold dequeueBlock; sound_steps [hv, hd]

theorem sound_getNewBlock (fuel : Nat) : Sound (getNewBlock v fuel) := by
  have hd := sound_dequeueBlock hv
  induction fuel with
  | zero => unfold getNewBlock; exact sound_fail _
  | succ n ih => unfold getNewBlock; sound_steps [hv, hd, ih]

theorem sound_addSentinel (fuel : Nat) : Sound (addSentinel v fuel) := by
  have hg := sound_getNewBlock hv
  have he := sound_enqueueBlock hv
  unfold addSentinel; sound_steps [hv, hg, he]

theorem sound_beginFile (i d n b : Bool) : Sound (beginFile v i d n b) := by
  unfold beginFile; sound_steps [hv, hv]

theorem sound_appendLoop (z d : Bool) (fuel size : Nat) : Sound (appendLoop v z d fuel size) := by
  have hg := sound_getNewBlock hv
  have he := sound_enqueueBlock hv
  induction fuel generalizing size with
  | zero => unfold appendLoop; exact sound_fail _
  | succ n ih => unfold appendLoop; sound_steps [hv, hg, he, ih]

theorem sound_append (size : Nat) (z d : Bool) (fuel : Nat) : Sound (append v size z d fuel) := by
  have ha := sound_appendLoop hv
  unfold append; sound_steps [hv, ha]

theorem sound_endFile (fuel : Nat) : Sound (endFile v fuel) := by
  have hs := sound_addSentinel hv
  have he := sound_enqueueBlock hv
  unfold endFile; sound_steps [hv, hs, he]

theorem sound_sync (fuel : Nat) : Sound (sync v fuel) := by
  have hd := sound_dequeueBlock hv
  induction fuel with
  | zero => unfold sync; exact sound_fail _
  | succ n ih => unfold sync; sound_steps [hv, hd, ih]

theorem sound_finish (fuel : Nat) : Sound (finish v fuel) := by
  have hs := sound_sync hv
  have he := sound_enqueueBlock hv
  unfold finish; sound_steps [hv, hs, he]

theorem sound_call (fuel : Nat) (a : Api) : Sound (call v fuel a) := by
  cases a with
  | beginFile i d n b => exact sound_beginFile hv i d n b
  | append n z d => exact sound_append hv n z d fuel
  | endFile => exact sound_endFile hv fuel
  | sync => exact sound_sync hv fuel
  | finish => exact sound_finish hv fuel

end

theorem fixed_checked : ∀ p, checked Variant.fixed p = true := by
  intro p; cases p <;> rfl

/-- /repo as it is (fixes/C13-sparse-tail-result.patch is part of the source). -/
theorem current_checked : ∀ p, checked Variant.current p = true := by
  intro p; cases p <;> rfl

end Sqfs.FailStop.BP
