/-
C04 — `urldecode` (pax_header.c, LIBARCHIVE.xattr keys): it inverts percent-encoding.
-/
import Sqfs.Model.TarPax
namespace Sqfs.Tar

/-- upper-case hex digit of a nibble -/
def hexChar (n : Nat) : UInt8 := if n < 10 then UInt8.ofNat (48 + n) else UInt8.ofNat (55 + n)

/-- percent-encoding of every byte (`%XX`), what libarchive does to the bytes it must escape -/
def urlEncodeAll : Bytes → Bytes
  | [] => []
  | c :: t => 37 :: hexChar (c.toNat / 16) :: hexChar (c.toNat % 16) :: urlEncodeAll t

theorem hexDigitVal_hexChar : ∀ n, n < 16 → hexDigitVal (hexChar n) = some n := by decide

theorem ofNat_nibbles (c : UInt8) : UInt8.ofNat (c.toNat / 16 * 16 + c.toNat % 16) = c := by
  have : c.toNat / 16 * 16 + c.toNat % 16 = c.toNat := by omega
  rw [this]
  exact UInt8.ofNat_toNat

theorem urlDecode_encodeAll (k : Bytes) : urlDecode (urlEncodeAll k) = k := by
  induction k with
  | nil => rfl
  | cons c t ih =>
    have h1 := hexDigitVal_hexChar (c.toNat / 16) (by have := c.toNat_lt; omega)
    have h2 := hexDigitVal_hexChar (c.toNat % 16) (by omega)
    simp only [urlEncodeAll, urlDecode, h1, h2, ih, ofNat_nibbles]

/-- percent-encoding of the bytes an encoder chooses to escape (`esc`), the others literally -/
def urlEncode (esc : UInt8 → Bool) : Bytes → Bytes
  | [] => []
  | c :: t => if esc c then 37 :: hexChar (c.toNat / 16) :: hexChar (c.toNat % 16) :: urlEncode esc t else c :: urlEncode esc t

theorem urlDecode_literal (c : UInt8) (t : Bytes) (h : c ≠ 37) : urlDecode (c :: t) = c :: urlDecode t := by
  rw [urlDecode.eq_def]
  split
  · rename_i heq; cases heq
  · rename_i heq; exact absurd (List.cons.inj heq).1 h
  · rename_i heq; obtain ⟨rfl, rfl⟩ := List.cons.inj heq; rfl

/-- `urldecode` inverts every percent-encoding that escapes at least the '%' itself -/
theorem urlDecode_encode (esc : UInt8 → Bool) (h37 : esc 37 = true) (k : Bytes) : urlDecode (urlEncode esc k) = k := by
  induction k with
  | nil => rfl
  | cons c t ih =>
    unfold urlEncode
    by_cases he : esc c = true
    · have h1 := hexDigitVal_hexChar (c.toNat / 16) (by have := c.toNat_lt; omega)
      have h2 := hexDigitVal_hexChar (c.toNat % 16) (by omega)
      simp only [he, if_true, urlDecode, h1, h2, ih, ofNat_nibbles]
    · have hc : c ≠ 37 := by intro h; subst h; exact he h37
      simp only [he, Bool.false_eq_true, if_false]
      rw [urlDecode_literal c _ hc, ih]

end Sqfs.Tar
