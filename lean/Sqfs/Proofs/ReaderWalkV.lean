/-
Lemmas about the repaired directory walks (`fillDirV`, `dirRecV` of `Sqfs/Model/ReaderWalk.lean`): every directory
is entered at most once, hence the number of nodes is bounded by the number of directory-listing entries; the
recursion depth is bounded by the nesting limit.
-/
import Sqfs.Proofs.ReaderWalk
namespace Sqfs.ReaderWalk
open Sqfs.ReaderBounds (Err)

/-! ### sums over duplicate-free sublists -/

theorem sum_map_erase {α : Type} [DecidableEq α] (f : α → Nat) (a : α) :
    ∀ R : List α, a ∈ R → (R.map f).sum = f a + ((R.erase a).map f).sum := by
  intro R
  induction R with
  | nil => intro h; simp at h
  | cons b t ih =>
    intro h
    by_cases hb : b = a
    · subst hb; simp
    · have hat : a ∈ t := by
        rcases List.mem_cons.1 h with h | h
        · exact absurd h.symm hb
        · exact h
      have := ih hat
      rw [List.erase_cons_tail (by simpa using hb)]
      simp only [List.map_cons, List.sum_cons]
      omega

theorem sum_le_of_nodup_subset {α : Type} [DecidableEq α] (f : α → Nat) :
    ∀ (l R : List α), l.Nodup → (∀ x ∈ l, x ∈ R) → (l.map f).sum ≤ (R.map f).sum := by
  intro l
  induction l with
  | nil => intro R _ _; simp
  | cons x t ih =>
    intro R hn hs
    have hx : x ∈ R := hs x List.mem_cons_self
    have hnt := List.nodup_cons.1 hn
    have := ih (R.erase x) hnt.2 (by
      intro y hy
      have hyR := hs y (List.mem_cons_of_mem _ hy)
      have hne : y ≠ x := by intro e; subst e; exact hnt.1 hy
      exact (List.mem_erase_of_ne hne).2 hyR)
    rw [sum_map_erase f x R hx]
    simp only [List.map_cons, List.sum_cons]
    omega

theorem nodup_of_map_nodup {α β : Type} (f : α → β) : ∀ l : List α, (l.map f).Nodup → l.Nodup := by
  intro l
  induction l with
  | nil => intro _; simp
  | cons a t ih =>
    intro h
    simp only [List.map_cons] at h
    have h' := List.nodup_cons.1 h
    exact List.nodup_cons.2 ⟨fun hm => h'.1 (List.mem_map.2 ⟨a, hm, rfl⟩), ih h'.2⟩

/-! ### what a walk adds to the visited set -/

/-- between `vis` and `vis'` the walk entered the directories `E` (most recent first), none of them known before
and no two with the same key, all of them among `R`, and created `m` nodes below them -/
def Grew {κ : Type} (g : DirGraph) (key : Nat → κ) (R : List Nat) (vis : List κ) (m : Nat) (vis' : List κ) : Prop :=
  ∃ E : List Nat, vis' = E.map key ++ vis ∧ (E.map key).Nodup ∧ (∀ x ∈ E.map key, x ∉ vis) ∧ (∀ c ∈ E, c ∈ R) ∧
    m = listingEntries g E

theorem Grew.refl {κ : Type} (g : DirGraph) (key : Nat → κ) (R : List Nat) (vis : List κ) : Grew g key R vis 0 vis :=
  ⟨[], by simp, by simp, by simp, by simp, by simp [listingEntries]⟩

theorem Grew.trans {κ : Type} {g : DirGraph} {key : Nat → κ} {R : List Nat} {a b c : List κ} {k m : Nat}
    (h1 : Grew g key R a k b) (h2 : Grew g key R b m c) : Grew g key R a (k + m) c := by
  obtain ⟨E1, e1, n1, d1, r1, s1⟩ := h1
  obtain ⟨E2, e2, n2, d2, r2, s2⟩ := h2
  refine ⟨E2 ++ E1, ?_, ?_, ?_, ?_, ?_⟩
  · rw [e2, e1]; simp
  · rw [List.map_append]
    refine List.nodup_append.2 ⟨n2, n1, ?_⟩
    intro x hx2 y hy1 hxy
    subst hxy
    apply d2 x hx2
    rw [e1]; exact List.mem_append_left _ hy1
  · intro x hx
    rw [List.map_append] at hx
    rcases List.mem_append.1 hx with hx | hx
    · intro hv; apply d2 x hx; rw [e1]; exact List.mem_append_right _ hv
    · exact d1 x hx
  · intro x hx
    rcases List.mem_append.1 hx with hx | hx
    · exact r2 x hx
    · exact r1 x hx
  · simp only [listingEntries] at s1 s2 ⊢
    rw [List.map_append, List.sum_append]; omega

/-- entering `c` (unknown so far) and growing below it is growth from the state before -/
theorem Grew.enter {κ : Type} {g : DirGraph} {key : Nat → κ} {R : List Nat} {vis vis1 : List κ} {c m : Nat}
    (hc : key c ∉ vis) (hR : c ∈ R) (h : Grew g key R (key c :: vis) m vis1) :
    Grew g key R vis ((g.entries c).length + m) vis1 := by
  obtain ⟨E, e, n, d, r, s⟩ := h
  refine ⟨E ++ [c], ?_, ?_, ?_, ?_, ?_⟩
  · rw [e]; simp
  · rw [List.map_append]
    refine List.nodup_append.2 ⟨n, by simp, ?_⟩
    intro x hx y hy hxy
    simp at hy
    subst hxy; subst hy
    exact d _ hx List.mem_cons_self
  · intro x hx
    rw [List.map_append] at hx
    rcases List.mem_append.1 hx with hx | hx
    · intro hv; exact d x hx (List.mem_cons_of_mem _ hv)
    · simp at hx; subst hx; exact hc
  · intro x hx
    rcases List.mem_append.1 hx with hx | hx
    · exact r x hx
    · simp at hx; subst hx; exact hR
  · simp only [listingEntries] at s ⊢
    rw [List.map_append, List.sum_append]; simp; omega

theorem Grew.subset {κ : Type} {g : DirGraph} {key : Nat → κ} {R : List Nat} {vis vis' : List κ} {m : Nat}
    (h : Grew g key R vis m vis') : ∀ x ∈ vis, x ∈ vis' := by
  obtain ⟨E, e, _⟩ := h
  intro x hx; rw [e]; exact List.mem_append_right _ hx

/-- the sibling loop: if every sub-walk grows the set, the loop does, and it counts one node per entry -/
theorem sumEntriesV_grew {κ : Type} (g : DirGraph) (key : Nat → κ) (R : List Nat)
    (sub : List κ → Nat → Except Err (Nat × List κ)) (isDir : Nat → Bool) :
    ∀ (l : List Nat) (vis : List κ) (n : Nat) (vis' : List κ),
      (∀ vis c k vis1, c ∈ l → isDir c = true → sub vis c = .ok (k, vis1) → Grew g key R vis k vis1) →
      sumEntriesV sub isDir vis l = .ok (n, vis') → ∃ m, n = l.length + m ∧ Grew g key R vis m vis' := by
  intro l
  induction l with
  | nil =>
    intro vis n vis' _ h
    simp only [sumEntriesV, Except.ok.injEq, Prod.mk.injEq] at h
    obtain ⟨rfl, rfl⟩ := h
    exact ⟨0, by simp, Grew.refl g key R _⟩
  | cons c t ih =>
    intro vis n vis' hsub h
    unfold sumEntriesV at h
    have hsubt : ∀ vis c k vis1, c ∈ t → isDir c = true → sub vis c = .ok (k, vis1) → Grew g key R vis k vis1 :=
      fun vis c k vis1 hc => hsub vis c k vis1 (List.mem_cons_of_mem _ hc)
    by_cases hd : isDir c = true
    · simp only [hd, if_true] at h
      cases hs : sub vis c with
      | error e => rw [hs] at h; simp at h
      | ok p =>
        obtain ⟨k, vis1⟩ := p
        rw [hs] at h
        simp only at h
        cases ht : sumEntriesV sub isDir vis1 t with
        | error e => rw [ht] at h; simp at h
        | ok q =>
          obtain ⟨n2, vis2⟩ := q
          rw [ht] at h
          simp only [Except.ok.injEq, Prod.mk.injEq] at h
          obtain ⟨rfl, rfl⟩ := h
          have g1 := hsub vis c k vis1 List.mem_cons_self hd hs
          obtain ⟨m2, e2, g2⟩ := ih vis1 n2 vis2 hsubt ht
          exact ⟨k + m2, by simp only [List.length_cons]; omega, Grew.trans g1 g2⟩
    · simp only [hd] at h
      simp only [Bool.false_eq_true, if_false] at h
      cases ht : sumEntriesV sub isDir vis t with
      | error e => rw [ht] at h; simp at h
      | ok q =>
        obtain ⟨n2, vis2⟩ := q
        rw [ht] at h
        simp only [Except.ok.injEq, Prod.mk.injEq] at h
        obtain ⟨rfl, rfl⟩ := h
        obtain ⟨m2, e2, g2⟩ := ih vis n2 vis2 hsubt ht
        exact ⟨m2, by simp only [List.length_cons]; omega, g2⟩

/-- `fill_dir` with the visited set: the nodes below `ref` are its own entries plus the entries of the directories
newly entered, each of them entered once -/
theorem fillDirV_grew (g : DirGraph) (limit : Nat) (R : List Nat)
    (hR : ∀ r c, c ∈ g.entries r → g.isDir c = true → c ∈ R) :
    ∀ (fuel level : Nat) (anc vis : List UInt32) (ref n : Nat) (vis' : List UInt32),
      fillDirV g limit fuel level anc vis ref = .ok (n, vis') →
      ∃ m, n = (g.entries ref).length + m ∧ Grew g g.inum R vis m vis' := by
  intro fuel
  induction fuel with
  | zero => intro level anc vis ref n vis' h; simp [fillDirV] at h
  | succ fuel ih =>
    intro level anc vis ref n vis' h
    unfold fillDirV at h
    split at h
    · simp at h
    · split at h
      · simp at h
      · refine sumEntriesV_grew g g.inum R _ g.isDir (g.entries ref) vis n vis' ?_ h
        intro vis0 c k vis1 hc hd hs
        split at hs
        · simp at hs
        · rename_i hnc
          obtain ⟨m, e, gr⟩ := ih _ _ _ _ _ _ hs
          rw [e]
          exact Grew.enter (by simpa using hnc) (hR ref c hc hd) gr

/-- the recursive iterator with the visited set -/
theorem dirRecV_grew (g : DirGraph) (limit : Nat) (R : List Nat)
    (hR : ∀ r c, c ∈ g.entries r → g.isDir c = true → c ∈ R) :
    ∀ (fuel depth : Nat) (vis : List Nat) (ref n : Nat) (vis' : List Nat),
      dirRecV g limit fuel depth vis ref = .ok (n, vis') →
      ∃ m, n = (g.entries ref).length + m ∧ Grew g id R vis m vis' := by
  intro fuel
  induction fuel with
  | zero => intro depth vis ref n vis' h; simp [dirRecV] at h
  | succ fuel ih =>
    intro depth vis ref n vis' h
    unfold dirRecV at h
    refine sumEntriesV_grew g id R _ g.isDir (g.entries ref) vis n vis' ?_ h
    intro vis0 c k vis1 hc hd hs
    split at hs
    · simp at hs
    · split at hs
      · simp at hs
      · rename_i hnc
        obtain ⟨m, e, gr⟩ := ih _ _ _ _ _ hs
        rw [e]
        exact Grew.enter (κ := Nat) (key := id) (by simpa using hnc) (hR ref c hc hd) gr

/-! ### recursion depth -/

theorem sumEntriesV_ne_fuel {σ : Type} (sub : σ → Nat → Except Err (Nat × σ)) (isDir : Nat → Bool) (Inv : σ → Prop) :
    ∀ (l : List Nat) (vis : σ), Inv vis →
      (∀ vis c, c ∈ l → isDir c = true → Inv vis → sub vis c ≠ .error .fuel) →
      (∀ vis c k vis1, c ∈ l → isDir c = true → Inv vis → sub vis c = .ok (k, vis1) → Inv vis1) →
      sumEntriesV sub isDir vis l ≠ .error .fuel := by
  intro l
  induction l with
  | nil => intro vis _ _ _; simp [sumEntriesV]
  | cons c t ih =>
    intro vis hi hne hpres
    unfold sumEntriesV
    have hne_t : ∀ vis c, c ∈ t → isDir c = true → Inv vis → sub vis c ≠ .error .fuel :=
      fun vis c hc => hne vis c (List.mem_cons_of_mem _ hc)
    have hpres_t : ∀ vis c k vis1, c ∈ t → isDir c = true → Inv vis → sub vis c = .ok (k, vis1) → Inv vis1 :=
      fun vis c k vis1 hc => hpres vis c k vis1 (List.mem_cons_of_mem _ hc)
    by_cases hd : isDir c = true
    · simp only [hd, if_true]
      cases hs : sub vis c with
      | error e =>
        simp only
        intro he
        apply hne vis c List.mem_cons_self hd hi
        rw [hs]; simpa using he
      | ok p =>
        obtain ⟨k, vis1⟩ := p
        simp only
        have hi1 := hpres vis c k vis1 List.mem_cons_self hd hi hs
        have := ih vis1 hi1 hne_t hpres_t
        cases ht : sumEntriesV sub isDir vis1 t with
        | error e => simp only; intro he; apply this; rw [ht]; simpa using he
        | ok q => simp
    · simp only [hd, Bool.false_eq_true, if_false]
      have := ih vis hi hne_t hpres_t
      cases ht : sumEntriesV sub isDir vis t with
      | error e => simp only; intro he; apply this; rw [ht]; simpa using he
      | ok q => simp

/-- with the nesting limit, `fill_dir` at level `level` needs at most `limit + 2 - level` frames -/
theorem fillDirV_depth (g : DirGraph) (limit : Nat) :
    ∀ (fuel level : Nat) (anc vis : List UInt32) (ref : Nat), level ≤ limit + 1 → limit + 2 ≤ fuel + level →
      fillDirV g limit fuel level anc vis ref ≠ .error .fuel := by
  intro fuel
  induction fuel with
  | zero => intro level anc vis ref h1 h2; omega
  | succ fuel ih =>
    intro level anc vis ref h1 h2
    unfold fillDirV
    split
    · simp
    · rename_i hl
      split
      · simp
      · apply sumEntriesV_ne_fuel _ _ (fun _ => True) _ _ trivial
        · intro vis0 c _ _ _
          split
          · simp
          · exact ih _ _ _ _ (by omega) (by omega)
        · intros; trivial

/-- with the nesting limit, the recursive iterator at stack depth `depth` needs at most `limit + 2 - depth` frames -/
theorem dirRecV_depth (g : DirGraph) (limit : Nat) :
    ∀ (fuel depth : Nat) (vis : List Nat) (ref : Nat), depth ≤ limit + 1 → limit + 2 ≤ fuel + depth →
      dirRecV g limit fuel depth vis ref ≠ .error .fuel := by
  intro fuel
  induction fuel with
  | zero => intro depth vis ref h1 h2; omega
  | succ fuel ih =>
    intro depth vis ref h1 h2
    unfold dirRecV
    apply sumEntriesV_ne_fuel _ _ (fun _ => True) _ _ trivial
    · intro vis0 c _ _ _
      split
      · simp
      · split
        · simp
        · exact ih _ _ _ (by omega) (by omega)
    · intros; trivial

/-- independent of the nesting limit: the visited set alone bounds the depth of the recursive iterator by the
number of directory inode references -/
theorem dirRecV_ne_fuel (g : DirGraph) (limit : Nat) (R : List Nat)
    (hR : ∀ r c, c ∈ g.entries r → g.isDir c = true → c ∈ R) :
    ∀ (fuel depth : Nat) (vis : List Nat) (ref : Nat), vis.Nodup → (∀ x ∈ vis, x ∈ R) →
      R.length < fuel + vis.length → dirRecV g limit fuel depth vis ref ≠ .error .fuel := by
  intro fuel
  induction fuel with
  | zero =>
    intro depth vis ref hn hs hlt
    have := nodup_subset_length vis R hn hs
    omega
  | succ fuel ih =>
    intro depth vis ref hn hs hlt
    unfold dirRecV
    apply sumEntriesV_ne_fuel _ _
      (fun v => v.Nodup ∧ (∀ x ∈ v, x ∈ R) ∧ R.length < fuel + 1 + v.length) _ _ ⟨hn, hs, hlt⟩
    · intro vis0 c hc hd ⟨hn0, hs0, hl0⟩
      split
      · simp
      · split
        · simp
        · rename_i hnc
          apply ih
          · exact List.nodup_cons.2 ⟨by simpa using hnc, hn0⟩
          · intro x hx
            rcases List.mem_cons.1 hx with rfl | hx
            · exact hR ref _ hc hd
            · exact hs0 x hx
          · simp only [List.length_cons]; omega
    · intro vis0 c k vis1 hc hd ⟨hn0, hs0, hl0⟩ hsub
      split at hsub
      · simp at hsub
      · split at hsub
        · simp at hsub
        · rename_i hnc
          obtain ⟨m, _, E, e, nE, dE, rE, _⟩ := dirRecV_grew g limit R hR _ _ _ _ _ _ hsub
          simp only [List.map_id_fun, id_eq] at e nE dE
          have hnc' : c ∉ vis0 := by simpa using hnc
          refine ⟨?_, ?_, ?_⟩
          · rw [e]
            refine List.nodup_append.2 ⟨nE, List.nodup_cons.2 ⟨hnc', hn0⟩, ?_⟩
            intro x hx y hy hxy
            subst hxy
            exact dE x hx hy
          · intro x hx
            rw [e] at hx
            rcases List.mem_append.1 hx with hx | hx
            · exact rE x hx
            · rcases List.mem_cons.1 hx with rfl | hx
              · exact hR ref _ hc hd
              · exact hs0 x hx
          · rw [e]; simp only [List.length_append, List.length_cons]; omega

/-- independent of the nesting limit and of the visited set: `would_be_own_parent` alone bounds the depth of the
repaired `fill_dir` by the number of inode numbers -/
theorem fillDirV_ne_fuel (g : DirGraph) (limit : Nat) (S : List UInt32)
    (hS : ∀ r c, c ∈ g.entries r → g.isDir c = true → g.inum c ∈ S) :
    ∀ (fuel level : Nat) (anc vis : List UInt32) (ref : Nat), anc.Nodup → (∀ x ∈ anc, x ∈ S) →
      S.length < fuel + anc.length → fillDirV g limit fuel level anc vis ref ≠ .error .fuel := by
  intro fuel
  induction fuel with
  | zero =>
    intro level anc vis ref hn hs hlt
    have := nodup_subset_length anc S hn hs
    omega
  | succ fuel ih =>
    intro level anc vis ref hn hs hlt
    unfold fillDirV
    split
    · simp
    · split
      · simp
      · rename_i hany
        apply sumEntriesV_ne_fuel _ _ (fun _ => True) _ _ trivial
        · intro vis0 c hc hd _
          split
          · simp
          · have hnot : g.inum c ∉ anc := by
              intro hmem
              apply hany
              rw [List.any_eq_true]
              exact ⟨c, hc, by simpa using hmem⟩
            apply ih
            · exact List.nodup_cons.2 ⟨hnot, hn⟩
            · intro x hx
              rcases List.mem_cons.1 hx with rfl | hx
              · exact hS ref c hc hd
              · exact hs x hx
            · simp only [List.length_cons]; omega
        · intros; trivial

end Sqfs.ReaderWalk
