/-
Helper lemmas for C07: `read_header` (model `Sqfs/Model/C07ReadHeader.lean`) never reads outside the 512-byte header or
a record buffer, its loop ends, and every `record_to_memory` request is within the implementation limits.
-/
import Sqfs.Proofs.ParseTotalPax
import Sqfs.Model.C07ReadHeader
namespace Sqfs.ParseTotal

theorem strnAt_safe (buf : Bytes) : ∀ n i, i + n ≤ buf.length → (strnAt buf i n).safe := by
  intro n
  induction n with
  | zero => intro i _; simp [strnAt]
  | succ n ih =>
    intro i h
    obtain ⟨c, hc⟩ := get_some (buf := buf) (i := i) (by omega)
    simp only [strnAt, hc]
    split
    · trivial
    · have := ih (i + 1) (by omega)
      cases hs : strnAt buf (i + 1) n with
      | ok t => trivial
      | fail c => trivial
      | oob => rw [hs] at this; exact this.elim
      | spin => rw [hs] at this; exact this.elim

theorem rbind_safe {α β : Type} {r : R α} {f : α → R β} (hr : r.safe) (hf : ∀ a, (f a).safe) : (rbind r f).safe := by
  cases r with
  | ok a => exact hf a
  | fail c => trivial
  | oob => exact hr.elim
  | spin => exact hr.elim

theorem field_safe (hdr : Bytes) (off len : Nat) (hl : 0 < len) (h : off + len ≤ hdr.length) : (field hdr off len).safe := by
  have := readNumber_safe hdr off len hl h
  unfold field
  cases hr : readNumber hdr off len with
  | ok v => trivial
  | fail c => trivial
  | oob => rw [hr] at this; exact this.elim
  | spin => rw [hr] at this; exact this.elim

theorem checksumValid_safe (hdr : Bytes) (h : hdr.length = 512) : (checksumValid hdr).safe := by
  have := readNumber_safe hdr 148 8 (by omega) (by omega)
  unfold checksumValid
  cases hr : readNumber hdr 148 8 with
  | ok v => trivial
  | fail c => trivial
  | oob => rw [hr] at this; exact this.elim
  | spin => rw [hr] at this; exact this.elim

theorem decodeHeader_safe (hdr : Bytes) (o : PaxOut) (v : TarVersion) (h : hdr.length = 512) : (decodeHeader hdr o v).safe := by
  unfold decodeHeader
  obtain ⟨p0, hp0⟩ := get_some (buf := hdr) (i := 345) (by omega)
  obtain ⟨tf, htf⟩ := get_some (buf := hdr) (i := 156) (by omega)
  have hn := strnAt_safe hdr 100 0 (by omega)
  have hp := strnAt_safe hdr 155 345 (by omega)
  have hl := strnAt_safe hdr 100 157 (by omega)
  simp only [hp0, htf]
  refine rbind_safe ?_ (fun name => ?_)
  · refine safe_ite (fun _ => trivial) (fun _ => ?_)
    refine safe_ite (fun _ => ?_) (fun _ => hn)
    exact rbind_safe hn (fun n => rbind_safe hp (fun p => trivial))
  refine rbind_safe (safe_ite (fun _ => trivial) (fun _ => field_safe hdr 124 12 (by omega) (by omega))) (fun size => ?_)
  refine rbind_safe (safe_ite (fun _ => trivial) (fun _ => field_safe hdr 108 8 (by omega) (by omega))) (fun uid => ?_)
  refine rbind_safe (safe_ite (fun _ => trivial) (fun _ => field_safe hdr 116 8 (by omega) (by omega))) (fun gid => ?_)
  refine rbind_safe (field_safe hdr 329 8 (by omega) (by omega)) (fun _ => ?_)
  refine rbind_safe (field_safe hdr 337 8 (by omega) (by omega)) (fun _ => ?_)
  refine rbind_safe (safe_ite (fun _ => trivial)
    (fun _ => rbind_safe (field_safe hdr 136 12 (by omega) (by omega)) (fun f => trivial))) (fun mtime => ?_)
  refine rbind_safe (field_safe hdr 100 8 (by omega) (by omega)) (fun modeField => ?_)
  refine rbind_safe ?_ (fun link => ?_)
  · refine safe_ite (fun _ => ?_) (fun _ => trivial)
    exact safe_ite (fun _ => trivial) (fun _ => rbind_safe hl (fun l => trivial))
  repeat' (first | exact trivial | refine safe_ite (fun _ => ?_) (fun _ => ?_))

/-- the result is not an out-of-bounds access, the loop has ended, and every allocation request is within `1 … bound` -/
def RHGood (bound : Nat) (o : RHOut) : Prop :=
  (match o.res with | .oob => False | .spin => False | _ => True) ∧ ∀ n ∈ o.allocs, 1 ≤ n ∧ n ≤ bound

theorem ofR_good {α : Type} {bound : Nat} {al : List Nat} {r : R α} {k : α → RHOut} (hal : ∀ n ∈ al, 1 ≤ n ∧ n ≤ bound)
    (hr : r.safe) (hk : ∀ a, r = .ok a → RHGood bound (k a)) : RHGood bound (RHOut.ofR al r k) := by
  cases r with
  | ok a => exact hk a rfl
  | fail c => exact ⟨trivial, hal⟩
  | oob => exact hr.elim
  | spin => exact hr.elim

theorem recordToMem_spec (s : Bytes) (size : Nat) :
    (recordToMem s size).safe ∧ ∀ buf rest, recordToMem s size = .ok (buf, rest) →
      buf = s.take size ++ [0] ∧ size ≤ s.length ∧ rest.length + size ≤ s.length := by
  constructor
  · unfold recordToMem
    refine safe_ite (fun _ => trivial) (fun _ => ?_)
    exact safe_ite (fun _ => trivial) (fun _ => trivial)
  · intro buf rest h
    simp only [recordToMem] at h
    by_cases h1 : s.length < size
    · simp [h1] at h
    · simp only [h1, if_false] at h
      generalize (if size % 512 = 0 then 0 else 512 - size % 512) = pad at h
      split at h
      · cases h
      · simp only [R.ok.injEq, Prod.mk.injEq] at h
        obtain ⟨rfl, rfl⟩ := h
        refine ⟨rfl, by omega, ?_⟩
        simp only [List.length_drop]; omega

theorem cstr_record_safe (s : Bytes) (size : Nat) (h : size ≤ s.length) :
    (cstr (s.take size ++ [0]) ((s.take size ++ [0]).length + 1) 0).safe := by
  have hlen : (s.take size ++ [0]).length = size + 1 := by simp [List.length_take]; omega
  have hk : (s.take size ++ [0])[size]? = some 0 := by
    rw [List.getElem?_append_right (by simp [List.length_take]; omega)]
    simp [List.length_take, Nat.min_eq_left h]
  obtain ⟨v, hv⟩ := cstr_safe (s.take size ++ [0]) size hk ((s.take size ++ [0]).length + 1) 0 (by omega) (by omega)
  rw [hv]; trivial

theorem rhFinish_good (bound : Nat) (hdr s : Bytes) (o : PaxOut) (v : TarVersion) (al : List Nat) (h : hdr.length = 512)
    (hal : ∀ n ∈ al, 1 ≤ n ∧ n ≤ bound) : RHGood bound (rhFinish hdr s o v al) := by
  unfold rhFinish
  refine ofR_good hal (decodeHeader_safe hdr o v h) (fun t _ => ?_)
  refine ofR_good hal ?_ (fun p _ => ?_)
  · refine safe_ite (fun _ => ?_) (fun _ => trivial)
    have := (readGnuNewSparse_spec s t.recordSize).1
    cases hr : readGnuNewSparse s t.recordSize with
    | ok x => obtain ⟨m, rs, rest⟩ := x; trivial
    | fail c => trivial
    | oob => rw [hr] at this; exact this.elim
    | spin => rw [hr] at this; exact this.elim
  · obtain ⟨t', s'⟩ := p
    simp only []
    split
    · exact ⟨trivial, hal⟩
    · split
      · exact ⟨trivial, hal⟩
      · exact ⟨trivial, hal⟩

theorem rhLoop_good (bound : Nat) (hK : Sqfs.Consts.tarMaxSymlinkLen ≤ bound) (hL : Sqfs.Consts.tarMaxPathLen ≤ bound)
    (hX : Sqfs.Consts.tarMaxPaxLen ≤ bound) :
    ∀ (fuel : Nat) (s : Bytes) (o : PaxOut) (pz : Bool) (al : List Nat), s.length / 512 + 1 ≤ fuel →
    (∀ n ∈ al, 1 ≤ n ∧ n ≤ bound) → RHGood bound (rhLoop fuel s o pz al) := by
  intro fuel
  induction fuel with
  | zero => intro s o pz al h; omega
  | succ f ih =>
    intro s o pz al hf hal
    have hsz : Sqfs.Consts.sizeofTarHeader = 512 := rfl
    simp only [rhLoop, hsz]
    split
    · split
      · exact ⟨trivial, hal⟩
      · exact ⟨trivial, hal⟩
    · rename_i hge
      have hge : 512 ≤ s.length := by omega
      have hhdr : (s.take 512).length = 512 := by simp [List.length_take]; omega
      have hdrop : (s.drop 512).length = s.length - 512 := by simp
      have hfd : (s.drop 512).length / 512 + 1 ≤ f := by rw [hdrop]; omega
      split
      · split
        · exact ⟨trivial, hal⟩
        · exact ih _ _ _ _ hfd hal
      · split
        · exact ⟨trivial, hal⟩
        · rename_i v _
          refine ofR_good hal (checksumValid_safe _ hhdr) (fun okc _ => ?_)
          split
          · exact ⟨trivial, hal⟩
          · obtain ⟨tf, htf⟩ := get_some (buf := s.take 512) (i := 156) (by omega)
            simp only [htf]
            have hfield := field_safe (s.take 512) 124 12 (by omega) (by omega)
            -- what a K / L / x record does with the stream: the rest is shorter, so the fuel still suffices
            have hrest : ∀ (sz : Nat) (buf rest : Bytes), recordToMem (s.drop 512) sz = .ok (buf, rest) →
                rest.length / 512 + 1 ≤ f := by
              intro sz buf rest hr
              have := ((recordToMem_spec (s.drop 512) sz).2 buf rest hr).2.2
              have h1 : rest.length ≤ (s.drop 512).length := by omega
              have : rest.length / 512 ≤ (s.drop 512).length / 512 := Nat.div_le_div_right h1
              omega
            split
            · -- 'K'
              refine ofR_good hal hfield (fun sz _ => ?_)
              split
              · exact ⟨trivial, hal⟩
              · rename_i hsz
                have hal' : ∀ n ∈ sz :: al, 1 ≤ n ∧ n ≤ bound := by
                  intro n hn
                  rcases List.mem_cons.1 hn with rfl | hn
                  · omega
                  · exact hal n hn
                refine ofR_good hal' (recordToMem_spec _ sz).1 (fun p hp => ?_)
                obtain ⟨buf, rest⟩ := p
                obtain ⟨hb, hle, _⟩ := (recordToMem_spec _ sz).2 buf rest hp
                exact ih _ _ _ _ (hrest sz _ rest hp) hal'
            · split
              · -- 'L'
                refine ofR_good hal hfield (fun sz _ => ?_)
                split
                · exact ⟨trivial, hal⟩
                · rename_i hsz
                  have hal' : ∀ n ∈ sz :: al, 1 ≤ n ∧ n ≤ bound := by
                    intro n hn
                    rcases List.mem_cons.1 hn with rfl | hn
                    · omega
                    · exact hal n hn
                  refine ofR_good hal' (recordToMem_spec _ sz).1 (fun p hp => ?_)
                  obtain ⟨buf, rest⟩ := p
                  obtain ⟨hb, hle, _⟩ := (recordToMem_spec _ sz).2 buf rest hp
                  exact ih _ _ _ _ (hrest sz _ rest hp) hal'
              · split
                · -- 'g'
                  refine ofR_good hal hfield (fun sz _ => ?_)
                  show RHGood bound (if (s.drop 512).length < (if sz % 512 ≠ 0 then (sz + (512 - sz % 512)) % U64 else sz)
                    then ⟨.fail 18, al⟩
                    else rhLoop f ((s.drop 512).drop (if sz % 512 ≠ 0 then (sz + (512 - sz % 512)) % U64 else sz)) o false al)
                  generalize (if sz % 512 ≠ 0 then (sz + (512 - sz % 512)) % U64 else sz) = sz'
                  by_cases hlt : (s.drop 512).length < sz'
                  · simp only [hlt, if_true]; exact ⟨trivial, hal⟩
                  · simp only [hlt, if_false]
                    refine ih _ _ _ _ ?_ hal
                    have h1 : ((s.drop 512).drop sz').length ≤ (s.drop 512).length := by
                      simp only [List.length_drop]; omega
                    have := Nat.div_le_div_right (c := 512) h1
                    omega
                · split
                  · -- 'x'
                    refine ofR_good hal hfield (fun sz _ => ?_)
                    split
                    · exact ⟨trivial, hal⟩
                    · rename_i hsz
                      have hal' : ∀ n ∈ sz :: al, 1 ≤ n ∧ n ≤ bound := by
                        intro n hn
                        rcases List.mem_cons.1 hn with rfl | hn
                        · omega
                        · exact hal n hn
                      refine ofR_good hal' (recordToMem_spec _ sz).1 (fun p hp => ?_)
                      obtain ⟨buf, rest⟩ := p
                      have hpx := readPaxHeader_safe ((s.drop 512).take sz)
                      cases hr : readPaxHeader ((s.drop 512).take sz) with
                      | ok o' => exact ih _ _ _ _ (hrest sz buf rest hp) hal'
                      | fail c => exact ⟨trivial, hal'⟩
                      | oob => rw [hr] at hpx; exact hpx.elim
                      | spin => rw [hr] at hpx; exact hpx.elim
                  · split
                    · -- 'S'
                      have hold := readGnuOldSparse_safe (s.take 512) (s.drop 512) hhdr
                      cases hr : readGnuOldSparse (s.take 512) (s.drop 512) with
                      | ok x =>
                        obtain ⟨m, s'⟩ := x
                        cases m with
                        | nil => exact ⟨trivial, hal⟩
                        | cons e m' =>
                          simp only []
                          refine ofR_good hal (field_safe (s.take 512) 483 12 (by omega) (by omega)) (fun real _ => ?_)
                          exact rhFinish_good bound _ _ _ _ _ hhdr hal
                      | fail c => exact ⟨trivial, hal⟩
                      | oob => rw [hr] at hold; exact hold.elim
                      | spin => rw [hr] at hold; exact hold.elim
                    · exact rhFinish_good bound _ _ _ _ _ hhdr hal

end Sqfs.ParseTotal
