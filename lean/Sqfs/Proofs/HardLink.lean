/-
Helper lemmas for C07, hard-link resolution (`Sqfs/Model/HardLink.lean`).
-/
import Sqfs.Spec.HardLink
import Batteries.Data.List.Perm
namespace Sqfs.HardLink

/-- every recorded resolution points to an existing non-link node (what `resolve_link` stores) -/
def ResOK (g : Graph) (res : Nat → Option Nat) : Prop := ∀ k t, res k = some t → NonLink g t

theorem resOK_init (g : Graph) : ResOK g (fun _ => none) := by
  intro k t h; cases h

theorem nonLink_brk {g : Graph} {i : Nat} (h : NonLink g i) (res : Nat → Option Nat) (start mh fuel hops : Nat) :
    loopFix g res start mh (fuel + 1) i hops = .brk i := by
  rcases h with h | h <;> simp [loopFix, h]

/-- the repaired loop leaves only through a non-link node -/
theorem loopFix_brk_nonLink (g : Graph) (res : Nat → Option Nat) (start mh : Nat) :
    ∀ fuel node hops r, loopFix g res start mh fuel node hops = .brk r → NonLink g r := by
  intro fuel
  induction fuel with
  | zero => intro node hops r h; simp [loopFix] at h
  | succ f ih =>
    intro node hops r h
    unfold loopFix at h
    split at h
    · cases h
    · rename_i tgt hg
      split at h
      · split at h
        · cases h
        · exact ih _ _ _ h
      · split at h
        · cases h
        · split at h
          · cases h
          · split at h
            · cases h
            · exact ih _ _ _ h
    · rename_i nd hnl hg
      cases h
      cases nd with
      | other => exact Or.inl hg
      | dir => exact Or.inr hg
      | hlink t => exact absurd rfl (hnl t)

/-- **termination of the repaired loop**: `(maxHops - hops) + 2` iterations suffice -/
theorem loopFix_fuel (g : Graph) (res : Nat → Option Nat) (start mh : Nat) (hres : ResOK g res) :
    ∀ fuel node hops, (mh - hops) + 2 ≤ fuel → loopFix g res start mh fuel node hops ≠ .outOfFuel := by
  intro fuel
  induction fuel with
  | zero => intro node hops h; omega
  | succ f ih =>
    intro node hops hf
    unfold loopFix
    split
    · simp
    · rename_i tgt hg
      split
      · rename_i t hr
        split
        · simp
        · -- a resolved link points to a non-link: the next iteration breaks
          have hnl := hres _ _ hr
          obtain ⟨f', rfl⟩ : ∃ f', f = f' + 1 := ⟨f - 1, by omega⟩
          rw [nonLink_brk hnl]; simp
      · split
        · simp
        · rename_i hh
          split
          · simp
          · split
            · simp
            · apply ih; omega
    · simp

theorem finishLink_resOK {g : Graph} {st st' : St} {start : Nat} {lr : LoopRes}
    (hres : ResOK g st.resolved) (hbrk : ∀ r, lr = .brk r → NonLink g r)
    (h : finishLink g st start lr = .ok st') : ResOK g st'.resolved := by
  cases lr with
  | outOfFuel => simp [finishLink] at h
  | badIndex => simp [finishLink] at h
  | err e => simp [finishLink] at h
  | brk node =>
    simp only [finishLink] at h
    split at h
    · cases h
    · split at h
      · cases h
      · cases h
        intro k t hk
        simp only at hk
        split at hk
        · cases hk; exact hbrk _ rfl
        · exact hres _ _ hk

theorem finishLink_ne_outOfFuel {g : Graph} {st : St} {start : Nat} {lr : LoopRes} (h : lr ≠ .outOfFuel) :
    (match finishLink g st start lr with | .outOfFuel => False | _ => True) := by
  cases lr with
  | outOfFuel => exact absurd rfl h
  | badIndex => simp [finishLink]
  | err e => simp [finishLink]
  | brk node =>
    simp only [finishLink]
    by_cases h1 : g[node]? = some Node.dir
    · simp [h1]
    · by_cases h2 : st.linkCount node = linkCountMax <;> simp [h1, h2]

/-- driver loop with a fixed hop bound `mh` and fuel `fuel ≥ mh + 2`, from any consistent state -/
theorem resolveAllWith_fix_terminates (g : Graph) (mh fuel : Nat) (hf : mh + 2 ≤ fuel) :
    ∀ (links : List Nat) (st : St), ResOK g st.resolved →
      (match resolveAllWith g (fun res n => loopFix g res n mh fuel n 0) st links with
       | .outOfFuel => False | _ => True) := by
  intro links
  induction links with
  | nil => intro st _; simp [resolveAllWith]
  | cons n rest ih =>
    intro st hres
    simp only [resolveAllWith]
    have hne : loopFix g st.resolved n mh fuel n 0 ≠ .outOfFuel := loopFix_fuel g _ n mh hres fuel n 0 (by omega)
    have h1 := finishLink_ne_outOfFuel (g := g) (st := st) (start := n) hne
    cases hfin : finishLink g st n (loopFix g st.resolved n mh fuel n 0) with
    | ok st' =>
      exact ih st' (finishLink_resOK hres (fun r hr => loopFix_brk_nonLink g _ n mh fuel n 0 r hr) hfin)
    | err e => trivial
    | outOfFuel => rw [hfin] at h1; exact h1
    | badIndex => trivial

/-! ### what a successful run leaves behind -/

/-- every recorded resolution points to an existing node that is neither a link nor a directory -/
def ResOther (g : Graph) (res : Nat → Option Nat) : Prop := ∀ k t, res k = some t → g[t]? = some .other

theorem ResOther.resOK {g : Graph} {res : Nat → Option Nat} (h : ResOther g res) : ResOK g res :=
  fun k t hk => Or.inl (h k t hk)

theorem finishLink_ok_inv {g : Graph} {st st' : St} {start : Nat} {lr : LoopRes}
    (hbrk : ∀ r, lr = .brk r → NonLink g r) (h : finishLink g st start lr = .ok st') :
    ∃ node, lr = .brk node ∧ g[node]? = some .other ∧ st.linkCount node ≠ linkCountMax ∧
      st'.resolved = (fun k => if k = start then some node else st.resolved k) ∧
      st'.linkCount = (fun k => if k = node then st.linkCount k + 1 else st.linkCount k) := by
  cases lr with
  | outOfFuel => simp [finishLink] at h
  | badIndex => simp [finishLink] at h
  | err e => simp [finishLink] at h
  | brk node =>
    simp only [finishLink] at h
    by_cases h1 : g[node]? = some Node.dir
    · simp [h1] at h
    · by_cases h2 : st.linkCount node = linkCountMax
      · simp [h1, h2] at h
      · simp only [h1, h2, if_false, LinkRes.ok.injEq] at h
        refine ⟨node, rfl, ?_, h2, ?_, ?_⟩
        · rcases hbrk node rfl with h | h
          · exact h
          · exact absurd h h1
        · rw [← h]
        · rw [← h]

theorem resolveAllWith_ok (g : Graph) (loop : (Nat → Option Nat) → Nat → LoopRes)
    (hbrk : ∀ res n r, loop res n = .brk r → NonLink g r) :
    ∀ (links : List Nat) (st st' : St), ResOther g st.resolved → resolveAllWith g loop st links = .ok st' →
      ResOther g st'.resolved ∧ (∀ k, (st.resolved k).isSome → (st'.resolved k).isSome) ∧
      ∀ n ∈ links, (st'.resolved n).isSome := by
  intro links
  induction links with
  | nil =>
    intro st st' hres h
    simp only [resolveAllWith, AllRes.ok.injEq] at h
    subst h
    exact ⟨hres, fun _ h => h, by simp⟩
  | cons n rest ih =>
    intro st st' hres h
    simp only [resolveAllWith] at h
    cases hfin : finishLink g st n (loop st.resolved n) with
    | ok st1 =>
      rw [hfin] at h
      obtain ⟨node, _, hoth, _, hr, _⟩ := finishLink_ok_inv (hbrk _ _) hfin
      have hres1 : ResOther g st1.resolved := by
        intro k t hk
        rw [hr] at hk
        simp only at hk
        split at hk
        · cases hk; exact hoth
        · exact hres _ _ hk
      obtain ⟨h1, h2, h3⟩ := ih st1 st' hres1 h
      refine ⟨h1, ?_, ?_⟩
      · intro k hk
        apply h2
        rw [hr]; simp only
        split
        · rfl
        · exact hk
      · intro m hm
        rcases List.mem_cons.1 hm with rfl | hm
        · apply h2; rw [hr]; simp
        · exact h3 m hm
    | err e => rw [hfin] at h; cases h
    | outOfFuel => rw [hfin] at h; cases h
    | badIndex => rw [hfin] at h; cases h

end Sqfs.HardLink
