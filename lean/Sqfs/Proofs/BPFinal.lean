/-
C02 helper lemmas, part 11: all files, `finish`, and the comparison of the final state with the reference.
-/
import Sqfs.Proofs.BPApi
namespace Sqfs.BlockProc
open Sqfs.Consts
open Sqfs.BlockWriter (hasFlag)

/-! ### all files -/

theorem beginFile_unsupported (s : Proc) (flags : Nat) (hb : s.beginCalled = false) (hfl : ¬ flags &&& blkUserSettable = flags) :
    beginFile s flags = .error .unsupported := by
  unfold beginFile
  rw [if_neg (by simp [hb]), if_pos (by simpa using hfl)]

theorem packFiles_spec {P : Params} (hP : P.ans = serialAns) (hc : CodecOk P.codec) (hB : P.B < 2 ^ 24) (hBpos : 0 < P.B)
    (sy : Bool) :
    ∀ (files : List InFile) (s : Proc) (g : Ghost) (W : WSt), PInv P s g 0 W →
      FrontInv P.B s.fe g.front s.w.inodes.length → s.beginCalled = false → g.fin = false →
      (∃ s' g' W' items, packFiles P s files sy = .ok s' ∧ feFiles P.B s.w.inodes.length files = .ok items ∧
        g'.front = g.front ++ items ∧ g'.fe = g.fe ++ feEffs s.w.inodes.length files ∧ PInv P s' g' 0 W' ∧
        FrontInv P.B s'.fe g'.front s'.w.inodes.length ∧ s'.beginCalled = false ∧ g'.fin = false ∧
        s'.w.inodes.length = s.w.inodes.length + files.length ∧ s'.maxBacklog = s.maxBacklog) ∨
      (∃ e, packFiles P s files sy = .error e ∧ feFiles P.B s.w.inodes.length files = .error e ∧ e = .unsupported ∧
        ∃ f ∈ files, ¬ f.flags &&& blkUserSettable = f.flags) := by
  intro files
  induction files with
  | nil =>
    intro s g W h hfe hidle hfin
    exact Or.inl ⟨s, g, W, [], rfl, rfl, by simp, by simp [feEffs], h, hfe, hidle, hfin, rfl, rfl⟩
  | cons f fs ih =>
    intro s g W h hfe hidle hfin
    by_cases hfl : f.flags &&& blkUserSettable = f.flags
    · obtain ⟨s1, g1, W1, items1, hp1, hf1, hfront1, hgfe1, h1, hfe1, hidle1, hfin1, hil1, hmb1⟩ :=
        packFile_ok hP hc hB hBpos h hfe hidle hfin f hfl sy
      rcases ih s1 g1 W1 h1 hfe1 hidle1 hfin1 with ⟨s', g', W', items, hp, hf, hfront, hgfe, h', hfe', hidle', hfin', hil, hmb⟩ | ⟨e, hp, hf, he, fb, hfb, hbad⟩
      · left
        refine ⟨s', g', W', items1 ++ items, ?_, ?_, ?_, ?_, h', hfe', hidle', hfin', ?_, hmb.trans hmb1⟩
        · simp only [packFiles, hp1]; exact hp
        · simp only [feFiles, hf1]; rw [hil1] at hf; rw [hf]
        · rw [hfront, hfront1, List.append_assoc]
        · rw [hgfe, hgfe1, hil1]; simp only [feEffs, List.append_assoc]
        · rw [hil, hil1]; simp only [List.length_cons]; omega
      · right
        refine ⟨e, ?_, ?_, he, fb, List.mem_cons_of_mem _ hfb, hbad⟩
        · simp only [packFiles, hp1]; exact hp
        · simp only [feFiles, hf1]; rw [hil1] at hf; rw [hf]
    · right
      refine ⟨.unsupported, ?_, ?_, rfl, f, List.mem_cons_self, hfl⟩
      · simp only [packFiles, packFile, beginFile_unsupported s f.flags hidle hfl]
      · simp only [feFiles, feFile]
        rw [if_pos (by simpa using hfl)]

/-! ### `finish` -/

/-- after a drain with no open data block: nothing is left in the pool or in `io_queue` -/
theorem PInv.drained {P : Params} {s : Proc} {g : Ghost} {W : WSt} (h : PInv P s g 0 W) (hcur : s.blkCurrent = none)
    (hpost : s.backlog = 0 ∨ mustWait s = false) :
    g.items = [] ∧ s.ioQueue = [] ∧ s.backlog = boolNat s.fragBlock.isSome := by
  have hac := h.acct
  unfold Acct at hac
  simp only [hcur, Option.isSome_none, boolNat, Bool.false_eq_true, if_false, Nat.add_zero] at hac
  have key : g.items.length + s.ioQueue.length = 0 := by
    rcases hpost with h0 | hmw
    · omega
    · unfold mustWait at hmw
      simp only [hcur, Option.isSome_none, Bool.or_false, Bool.and_false, Bool.not_false, Bool.and_true] at hmw
      cases hf : s.fragBlock.isSome
      · simp [hf] at hmw
      · simp only [hf, Bool.and_true, Bool.not_eq_false', beq_iff_eq] at hmw
        simp only [hf, if_true] at hac
        omega
  have h1 : g.items = [] := List.eq_nil_of_length_eq_zero (by omega)
  have h2 : s.ioQueue = [] := List.eq_nil_of_length_eq_zero (by omega)
  refine ⟨h1, h2, ?_⟩
  rw [h1, h2] at hac
  simpa [boolNat] using hac

theorem close_opn (P : Params) (F : FSt) : (F.close P).opn = none := by
  unfold FSt.close; split <;> simp_all

theorem close_of_opn_none (P : Params) (F : FSt) (h : F.opn = none) : F.close P = F := by
  unfold FSt.close; rw [h]

theorem Back.setFin {P : Params} {s : Proc} {g : Ghost} {F : FSt} {W : WSt} (h : Back P s g F W) (b : Bool) :
    Back P s { g with fin := b } F W := { h with }

theorem finish_ok {P : Params} (hP : P.ans = serialAns) (hc : CodecOk P.codec) (hB : P.B < 2 ^ 24)
    {s : Proc} {g : Ghost} {W : WSt} (h : PInv P s g 0 W) (hfe : FrontInv P.B s.fe g.front s.w.inodes.length)
    (hidle : s.beginCalled = false) (hfin : g.fin = false) :
    ∃ s' g' W', finish P s = .ok s' ∧ PInv P s' g' 0 W' ∧ g'.items = [] ∧ s'.ioQueue = [] ∧ s'.backlog = 0 ∧
      g'.front = g.front ∧ g'.fe = g.fe ∧ s'.w.inodes.length = s.w.inodes.length ∧
      g'.F P = (fRun P {} (g.front.map (processBlock P))).close P := by
  obtain ⟨_, hcur0, hopen0⟩ := hfe.idle hidle
  have hcur : s.blkCurrent = none := hcur0
  obtain ⟨s1, g1, W1, hs1, h1, fr1, hpost1⟩ := sync_ok hP hc hB h
  have hcur1 : s1.blkCurrent = none := by rw [blkCurrent_of_fe fr1.fe]; exact hcur
  obtain ⟨hi1, hq1, hb1⟩ := h1.drained hcur1 hpost1
  have hfin1 : g1.fin = false := by rw [fr1.fin]; exact hfin
  have hpend1 : g1.pend = [] := by rw [← h1.back.pend, hi1]; rfl
  have hdone1 : g1.done = g.front.map (processBlock P) := by
    have := h1.back.worked
    rw [hpend1, List.append_nil, fr1.front] at this
    exact this
  have hF1 : g1.F P = fRun P {} (g.front.map (processBlock P)) := by
    unfold Ghost.F; rw [hfin1, hdone1]; rfl
  unfold finish
  rw [hs1]
  simp only
  cases hfb : s1.fragBlock with
  | none =>
    simp only
    refine ⟨s1, g1, W1, rfl, h1, hi1, hq1, ?_, fr1.front, fr1.gfe, fr1.inodes, ?_⟩
    · rw [hb1, hfb]; rfl
    · have hop : (g1.F P).opn = none := by rw [← h1.back.fragBlock]; exact hfb
      rw [← hF1, close_of_opn_none P _ hop]
  | some fb =>
    simp only
    have hop : (g1.F P).opn = some fb := by rw [← h1.back.fragBlock]; exact hfb
    have ho : g1.done.foldl fOpen false = false := by
      rw [hdone1, foldl_fOpen_worked]; exact hopen0
    obtain ⟨s2, he, f1, f2, f3, f4, f5, hb2⟩ := h1.back.closeFrag hP fb hop ho
    rw [he]
    simp only
    have hcur2 : s2.blkCurrent = none := by rw [blkCurrent_of_fe f1]; exact hcur1
    have hF2 : ({ g1 with items := g1.items ++ [processBlock P (fb.withSeq (g1.F P).stream.length)], fin := true } : Ghost).F P
        = (g1.F P).close P := by
      unfold Ghost.F
      simp only [if_true, hfin1, Bool.false_eq_true, if_false]
    have h2 : PInv P s2 { g1 with items := g1.items ++ [processBlock P (fb.withSeq (g1.F P).stream.length)], fin := true } 0 W1 := by
      refine PInv.intro _ hF2 (hb2.setFin true) ?_ (fun _ => hpend1)
      have := Acct.closeFrag (k := boolNat s1.blkCurrent.isSome + 0) h1.acct (by rw [hfb]; rfl)
        (processBlock P (fb.withSeq (g1.F P).stream.length)) f2 f3 f4
      rw [hcur2]; rw [hcur1] at this
      exact this
    obtain ⟨s3, g3, W3, hs3, h3, fr3, hpost3⟩ := sync_ok hP hc hB h2
    have hcur3 : s3.blkCurrent = none := by rw [blkCurrent_of_fe fr3.fe]; exact hcur2
    obtain ⟨hi3, hq3, hb3⟩ := h3.drained hcur3 hpost3
    have hfin3 : g3.fin = true := fr3.fin
    have hpend3 : g3.pend = [] := fr3.pendNil hpend1
    have hdone3 : g3.done = g.front.map (processBlock P) := by
      have := h3.back.worked
      rw [hpend3, List.append_nil, fr3.front] at this
      rw [this]
      show List.map (processBlock P) g1.front = _
      rw [fr1.front]
    have hF3 : g3.F P = (fRun P {} (g.front.map (processBlock P))).close P := by
      unfold Ghost.F; rw [hfin3, hdone3]; rfl
    have hfb3 : s3.fragBlock = none := by
      rw [h3.back.fragBlock, hF3]; exact close_opn P _
    refine ⟨s3, g3, W3, hs3, h3, hi3, hq3, ?_, ?_, ?_, ?_, hF3⟩
    · rw [hb3, hfb3]; rfl
    · rw [fr3.front]; exact fr1.front
    · rw [fr3.gfe]; exact fr1.gfe
    · rw [fr3.inodes, enqueueBlock_w he]; exact fr1.inodes

/-! ### the initial state -/

theorem FrontInv.init (B : Nat) : FrontInv B ({} : Front) [] 0 := by
  refine ⟨fun x hx => (by cases hx), rfl, fun x hx => (by cases hx), fun _ => ⟨rfl, rfl, rfl⟩, fun hb => (by cases hb)⟩

theorem PInv.init (P : Params) (mb : Nat) : PInv P (create P mb) {} 0 { wr := BlockWriter.init P.pre } := by
  refine PInv.intro ({} : FSt) rfl ?_ ?_ (fun hf => (by cases hf))
  · constructor
    · show 3 ≤ (if mb < 3 then 3 else mb); split <;> omega
    · exact PoolOk.init
    · rfl
    · rfl
    · exact Nat.le_refl _
    · exact List.Perm.refl _
    · exact List.Pairwise.nil
    · intro x hx; cases hx
    · rfl
    · exact FInv.init P _
    · rfl
    · rfl
    · rfl
    · rfl
    · exact WInv.init P
    · rfl
    · rfl
    · rfl
    · rfl
    · exact Merge.nil
    · exact Merge.nil
    · intro e he; cases he
    · intro e he; cases he
    · exact List.nodup_nil
    · intro _ b hb; cases hb
    · intro _; rfl
    · intro ci cd hcc; cases hcc
  · rfl

/-! ### the inode table does not depend on the order in which the updates were applied -/

theorem effs_comm {P : Params} (hc : CodecOk P.codec) {s : Proc} {g : Ghost} {F : FSt} {W : WSt} (h : Back P s g F W)
    (hfi : FragIdx g.done) (hall : (F.stream.take s.ioDeqSeqNum) = F.stream) :
    ∀ x ∈ F.effs, ∀ y ∈ W.effs, EffComm x y := by
  intro x hx y hy
  by_cases hid : x.id = y.id
  · rcases h.finv.effProv x hx with ⟨i, o, hxe⟩ | ⟨k, m, xi, hxe, hxi, hxfr, hxino, hxidx⟩
    · apply effComm_of_app
      intro a
      rw [hxe]
      rcases h.winv.effProv y hy with ⟨loc, hye⟩ | ⟨k', m', hye⟩ | ⟨k', v, yb, hye, _⟩
      · rw [hye]; exact fragLoc_comm_start i o loc a
      · rw [hye]; exact fragLoc_comm_sparse i o k' m' a
      · rw [hye]; exact fragLoc_comm_word i o k' v a
    · apply effComm_of_app
      intro a
      rw [hxe]
      rcases h.winv.effProv y hy with ⟨loc, hye⟩ | ⟨k', m', hye⟩ | ⟨k', v, yb, hye, hyb, hyfb, hyne, hyino, hyidx⟩
      · rw [hye]; exact sparse_comm_start k m loc a
      · rw [hye]; exact sparse_comm_sparse k m k' m' a
      · rw [hye]
        have hk : k ≠ k' := by
          rw [hall] at hyb
          obtain ⟨xb, hxb, hxbfr, hybx⟩ := h.finv.datas yb hyb hyfb
          have h1 : xb.data ≠ [] := by rw [hybx] at hyne; exact hyne
          have h2 : xi.inode = xb.inode := by
            rw [hxino, hid, ← hyino, hybx]; rfl
          have := hfi xi hxi xb hxb hxfr hxbfr h1 h2
          rw [hxidx] at this
          rw [← hyidx, hybx]
          exact this
        exact sparse_comm_word k m k' v hk a
  · exact effComm_of_ne x y hid

theorem fe_comm {fe m : List Eff} (hfe : ∀ e ∈ fe, ∃ k, e.e = .size k) : ∀ x ∈ fe, ∀ y ∈ m, EffComm x y := by
  intro x hx y _
  obtain ⟨k, hk⟩ := hfe x hx
  apply effComm_of_app
  intro a
  rw [hk]
  exact size_comm k y.e a

/-- the inode table at the end, in the reference's order -/
theorem inodes_final {P : Params} (hc : CodecOk P.codec) {s : Proc} {g : Ghost} {F : FSt} {W : WSt} (h : Back P s g F W)
    (hfi : FragIdx g.done) (hall : (F.stream.take s.ioDeqSeqNum) = F.stream) :
    s.w.inodes = applyEffs (List.replicate s.w.inodes.length {}) (g.fe ++ F.effs ++ W.effs) := by
  have h1 := h.mergeH.foldl_eq applyEff (fe_comm (fun e he => (h.feIds e he).2))
  have h2 := h.mergeM.foldl_eq applyEff (effs_comm hc h hfi hall)
  rw [h.inodes]
  simp only [applyEffs_length, List.length_replicate]
  show List.foldl applyEff _ g.h = List.foldl applyEff _ (g.fe ++ F.effs ++ W.effs)
  rw [h1, List.append_assoc, List.foldl_append, h2, ← List.foldl_append]

/-! ### the run -/

/-- everything the final state of a run satisfies -/
structure Final (P : Params) (files : List InFile) (s : Proc) : Prop where
  ioQueue : s.ioQueue = []
  backlog : s.backlog = 0
  deq : s.ioDeqSeqNum = s.ioSeqNum
  pool : s.pool.ser.queue = []
  /-- no callback has failed: what `get_status` at the end of `sync` reads -/
  status : s.pool.ser.status = 0
  fragBlock : s.fragBlock = none
  output : packRef P files = .ok s.w.output

theorem run_final {P : Params} (hP : P.ans = serialAns) (hc : CodecOk P.codec) (hBpos : 0 < P.B) (hB : P.B < 2 ^ 24)
    (mb : Nat) (files : List InFile) (sy : Bool := false) :
    (∃ s, runProc P mb files sy = .ok s ∧ Final P files s) ∨
    (∃ e, runProc P mb files sy = .error e ∧ packRef P files = .error e ∧ e = .unsupported ∧
      ∃ f ∈ files, ¬ f.flags &&& blkUserSettable = f.flags) := by
  have h0 := PInv.init P mb
  have hfe0 : FrontInv P.B (create P mb).fe ({} : Ghost).front (create P mb).w.inodes.length := FrontInv.init P.B
  rcases packFiles_spec hP hc hB hBpos sy files (create P mb) {} _ h0 hfe0 rfl rfl with
    ⟨s1, g1, W1, items, hp, hf, hfront, hgfe, h1, hfe1, hidle1, hfin1, hil, hmb⟩ | ⟨e, hp, hf, he, hbad⟩
  · left
    obtain ⟨s2, g2, W2, hfn, h2, hi2, hq2, hb2, hfront2, hgfe2, hil2, hF2⟩ := finish_ok hP hc hB h1 hfe1 hidle1 hfin1
    have hfr : g1.front = items := by rw [hfront]; rfl
    have hlen0 : (create P mb).w.inodes.length = 0 := rfl
    rw [hlen0] at hf hgfe hil
    have hb := h2.back
    have hdrop : (g2.F P).stream.drop s2.ioDeqSeqNum = [] := by
      have := hb.queue
      rw [hq2, hi2] at this
      simpa using this.symm
    have hge : (g2.F P).stream.length ≤ s2.ioDeqSeqNum := by
      have := congrArg List.length hdrop
      simp only [List.length_drop, List.length_nil] at this
      omega
    have hall : (g2.F P).stream.take s2.ioDeqSeqNum = (g2.F P).stream := List.take_of_length_le hge
    have hpend2 : g2.pend = [] := by rw [← hb.pend, hi2]; rfl
    have hdone2 : g2.done = g2.front.map (processBlock P) := by
      have := hb.worked
      rw [hpend2, List.append_nil] at this
      exact this
    have hfi : FragIdx g2.done := by
      rw [hdone2, hfront2]
      exact hfe1.fragIdx.worked P
    have hino := inodes_final hc hb hfi hall
    have hwr := hb.wrun
    rw [hall] at hwr
    refine ⟨s2, ?_, ?_⟩
    · unfold runProc; rw [hp]; exact hfn
    · refine ⟨hq2, hb2, ?_, ?_, ?_, ?_, ?_⟩
      · rw [hb.ioSeq]; have := hb.deqLe; omega
      · have := hb.pool.queue
        rw [hi2] at this
        simpa using this
      · exact hb.pool.status
      · rw [hb.fragBlock, hF2]; exact close_opn P _
      · unfold packRef
        rw [hf]
        simp only
        rw [hfr] at hF2
        rw [← hF2, hwr]
        simp only
        congr 1
        unfold assemble W.output
        rw [hb.calls, hb.wr, hb.fragTbl]
        congr 1
        rw [hino]
        have e1 : s2.w.inodes.length = files.length := by rw [hil2, hil]; omega
        have e2 : g2.fe = feEffs 0 files := by rw [hgfe2, hgfe]; rfl
        rw [e1, e2]
  · right
    refine ⟨e, ?_, ?_, he, hbad⟩
    · unfold runProc; rw [hp]
    · unfold packRef
      have : (create P mb).w.inodes.length = 0 := rfl
      rw [this] at hf
      rw [hf]

theorem run_eq_packRef {P : Params} (hP : P.ans = serialAns) (hc : CodecOk P.codec) (hBpos : 0 < P.B) (hB : P.B < 2 ^ 24)
    (mb : Nat) (files : List InFile) (sy : Bool := false) : run P mb files sy = packRef P files := by
  unfold run
  rcases run_final hP hc hBpos hB mb files sy with ⟨s, hr, hf⟩ | ⟨e, hr, hp, _⟩
  · rw [hr, hf.output]
  · rw [hr, hp]

end Sqfs.BlockProc
