/-
C02 helper lemmas, part 11: all files, `finish`, and the comparison of the final state with the reference.
-/
import Sqfs.Proofs.BPApi
namespace Sqfs.BlockProc
open Sqfs.Consts
open Sqfs.BlockWriter (hasFlag)

/-! ### all files -/

theorem beginFile_unsupported (s : Proc) (flags : Nat) (hb : s.beginCalled = false) (hfl : ¬ flags &&& blkUserSettable = flags) :
    beginFile s flags = .error .unsupported := by
  unfold beginFile
  rw [if_neg (by simp [hb]), if_pos (by simpa using hfl)]

theorem packFiles_spec {P : Params} (hP : P.ans = serialAns) (hc : CodecOk P.codec) (hB : P.B < 2 ^ 24) (hBpos : 0 < P.B) :
    ∀ (files : List InFile) (s : Proc) (g : Ghost) (W : WSt), PInv P s g 0 W →
      FrontInv P.B s.fe g.front s.w.inodes.length → s.beginCalled = false → g.fin = false →
      (∃ s' g' W' items, packFiles P s files = .ok s' ∧ feFiles P.B s.w.inodes.length files = .ok items ∧
        g'.front = g.front ++ items ∧ g'.fe = g.fe ++ feEffs s.w.inodes.length files ∧ PInv P s' g' 0 W' ∧
        FrontInv P.B s'.fe g'.front s'.w.inodes.length ∧ s'.beginCalled = false ∧ g'.fin = false ∧
        s'.w.inodes.length = s.w.inodes.length + files.length ∧ s'.maxBacklog = s.maxBacklog) ∨
      (∃ e, packFiles P s files = .error e ∧ feFiles P.B s.w.inodes.length files = .error e) := by
  intro files
  induction files with
  | nil =>
    intro s g W h hfe hidle hfin
    exact Or.inl ⟨s, g, W, [], rfl, rfl, by simp, by simp [feEffs], h, hfe, hidle, hfin, rfl, rfl⟩
  | cons f fs ih =>
    intro s g W h hfe hidle hfin
    by_cases hfl : f.flags &&& blkUserSettable = f.flags
    · obtain ⟨s1, g1, W1, items1, hp1, hf1, hfront1, hgfe1, h1, hfe1, hidle1, hfin1, hil1, hmb1⟩ :=
        packFile_ok hP hc hB hBpos h hfe hidle hfin f hfl
      rcases ih s1 g1 W1 h1 hfe1 hidle1 hfin1 with ⟨s', g', W', items, hp, hf, hfront, hgfe, h', hfe', hidle', hfin', hil, hmb⟩ | ⟨e, hp, hf⟩
      · left
        refine ⟨s', g', W', items1 ++ items, ?_, ?_, ?_, ?_, h', hfe', hidle', hfin', ?_, hmb.trans hmb1⟩
        · simp only [packFiles, hp1]; exact hp
        · simp only [feFiles, hf1]; rw [hil1] at hf; rw [hf]
        · rw [hfront, hfront1, List.append_assoc]
        · rw [hgfe, hgfe1, hil1]; simp only [feEffs, List.append_assoc]
        · rw [hil, hil1]; simp only [List.length_cons]; omega
      · right
        refine ⟨e, ?_, ?_⟩
        · simp only [packFiles, hp1]; exact hp
        · simp only [feFiles, hf1]; rw [hil1] at hf; rw [hf]
    · right
      refine ⟨.unsupported, ?_, ?_⟩
      · simp only [packFiles, packFile, beginFile_unsupported s f.flags hidle hfl]
      · simp only [feFiles, feFile]
        rw [if_pos (by simpa using hfl)]

end Sqfs.BlockProc
