/-
C02 helper lemmas, part 9: the loops of `dequeue_block`, `get_new_block`, `sync` keep the invariant, never run out of
fuel, and never reach the `SQFS_ERROR_INTERNAL` return.
-/
import Sqfs.Proofs.BPDeq
namespace Sqfs.BlockProc
open Sqfs.Consts
open Sqfs.BlockWriter (hasFlag)

/-- what draining the pool leaves alone -/
structure Frame (s s' : Proc) (g g' : Ghost) : Prop where
  fe : s'.fe = s.fe
  maxBacklog : s'.maxBacklog = s.maxBacklog
  inodes : s'.w.inodes.length = s.w.inodes.length
  front : g'.front = g.front
  fin : g'.fin = g.fin
  gfe : g'.fe = g.fe
  pendNil : g.pend = [] → g'.pend = []

theorem Frame.refl (s : Proc) (g : Ghost) : Frame s s g g := ⟨rfl, rfl, rfl, rfl, rfl, rfl, id⟩

theorem Frame.trans {s1 s2 s3 : Proc} {g1 g2 g3 : Ghost} (a : Frame s1 s2 g1 g2) (b : Frame s2 s3 g2 g3) : Frame s1 s3 g1 g3 :=
  ⟨b.fe.trans a.fe, b.maxBacklog.trans a.maxBacklog, b.inodes.trans a.inodes, b.front.trans a.front, b.fin.trans a.fin,
   b.gfe.trans a.gfe, fun h => b.pendNil (a.pendNil h)⟩

theorem Ghost.F_congr (P : Params) {g g' : Ghost} (h1 : g'.done = g.done) (h2 : g'.fin = g.fin) : g'.F P = g.F P := by
  unfold Ghost.F; rw [h1, h2]

theorem Ghost.F_step (P : Params) {g g' : Ghost} (x : Blk) (h1 : g'.done = g.done ++ [x]) (h2 : g'.fin = false) (h3 : g.fin = false) :
    g'.F P = fStep P (g.F P) x := by
  unfold Ghost.F; rw [h1, h2, h3]; simp [fRun, List.foldl_append]

theorem blkCurrent_of_fe {s s' : Proc} (h : s'.fe = s.fe) : s'.blkCurrent = s.blkCurrent := by
  have := congrArg Front.blkCurrent h
  simpa [Proc.fe] using this

theorem inodes_len_release {s s' : Proc} {b : Blk} (h : processCompletedBlock s b = .ok s') :
    s'.w.inodes.length = s.w.inodes.length := by
  unfold processCompletedBlock at h
  split at h
  · cases h
  · rename_i w' hcb
    simp only [Except.ok.injEq] at h
    rw [← h]
    simp only [releaseOldBlock]
    unfold completeBlock at hcb
    split at hcb
    · cases hcb
    · split at hcb
      · cases hcb
      · rename_i w2 hrec
        simp only [Except.ok.injEq] at hcb
        have h2 : w2.inodes.length = s.w.inodes.length := by
          unfold recordBlock at hrec
          split at hrec
          · simp only [Except.ok.injEq] at hrec; rw [← hrec, modInode_length]
          · split at hrec
            · split at hrec
              · split at hrec
                · simp only [Except.ok.injEq] at hrec; rw [← hrec]
                · cases hrec
              · simp only [Except.ok.injEq] at hrec; rw [← hrec, modInode_length]
            · simp only [Except.ok.injEq] at hrec; rw [← hrec]
        rw [← hcb]
        split
        · rw [modInode_length, h2]
        · exact h2

theorem pool_release {s s' : Proc} {b : Blk} (h : processCompletedBlock s b = .ok s') : s'.pool = s.pool := by
  unfold processCompletedBlock at h
  split at h
  · cases h
  · simp only [Except.ok.injEq] at h; rw [← h]; rfl

/-! ### the `while (proc->io_queue != NULL)` loop -/

theorem release_ok {P : Params} (hc : CodecOk P.codec) (hB : P.B < 2 ^ 24) :
    ∀ (fuel : Nat) (s : Proc) (g : Ghost) (held : Nat) (W : WSt), PInv P s g held W → s.ioQueue.length ≤ fuel →
      ∃ s' g' W', releaseGo fuel s = .ok s' ∧ PInv P s' g' held W' ∧ Frame s s' g g' ∧ s'.backlog ≤ s.backlog ∧
        g'.items = g.items ∧ g'.pend = g.pend ∧ g'.done = g.done ∧ s'.pool = s.pool ∧
        (∀ b rest, s'.ioQueue = b :: rest → b.seq ≠ s'.ioDeqSeqNum) := by
  intro fuel
  induction fuel with
  | zero =>
    intro s g held W h hl
    have hq : s.ioQueue = [] := List.eq_nil_of_length_eq_zero (Nat.le_zero.mp hl)
    refine ⟨s, g, W, ?_, h, Frame.refl s g, Nat.le_refl _, rfl, rfl, rfl, rfl, ?_⟩
    · simp [releaseGo, hq]
    · intro b rest hb; rw [hq] at hb; cases hb
  | succ fuel ih =>
    intro s g held W h hl
    cases hq : s.ioQueue with
    | nil =>
      refine ⟨s, g, W, ?_, h, Frame.refl s g, Nat.le_refl _, rfl, rfl, rfl, rfl, ?_⟩
      · simp [releaseGo, hq]
      · intro b rest hb; rw [hq] at hb; cases hb
    | cons b rest =>
      by_cases hs : b.seq = s.ioDeqSeqNum
      · obtain ⟨s1, W1, effs, hp, f1, f2, f3, f4, f5, f6, hb1⟩ := h.back.releaseOne hc hB b rest hq hs
        have hcur := blkCurrent_of_fe f1
        have hinv1 : PInv P s1 { g with h := g.h ++ effs, m := g.m ++ effs } held W1 := by
          refine ⟨?_, ?_, ?_, h.finNoPend⟩
          · rw [Ghost.F_congr P rfl rfl]; exact hb1
          · have := h.acct
            unfold Acct at *
            rw [hq] at this
            simp only [f2, f3, f4, hcur, List.length_cons] at this ⊢
            omega
          · have hlen : s1.w.inodes.length = s.w.inodes.length := by
              have := inodes_len_release hp
              exact this
            rw [f1, hlen]; exact h.feInv
        have hl1 : s1.ioQueue.length ≤ fuel := by rw [f3]; rw [hq] at hl; simpa using hl
        obtain ⟨s', g', W', hr, hinv', hfr, hle, hi, hpe, hdo, hpo, hhead⟩ := ih s1 _ held W1 hinv1 hl1
        refine ⟨s', g', W', ?_, hinv', ?_, ?_, hi, hpe, hdo, ?_, hhead⟩
        · unfold releaseGo
          simp only [hq, hs, bne_self_eq_false, Bool.false_eq_true, if_false]
          rw [hp]; exact hr
        · have hlen : s1.w.inodes.length = s.w.inodes.length := by
            have := inodes_len_release hp
            exact this
          exact Frame.trans (g2 := { g with h := g.h ++ effs, m := g.m ++ effs }) ⟨f1, f5, hlen, rfl, rfl, rfl, id⟩ hfr
        · rw [f2] at hle; omega
        · rw [hpo]
          have := pool_release hp
          exact this
      · refine ⟨s, g, W, ?_, h, Frame.refl s g, Nat.le_refl _, rfl, rfl, rfl, rfl, ?_⟩
        · have : (b.seq != s.ioDeqSeqNum) = true := by simpa using hs
          simp [releaseGo, hq, this]
        · intro b' rest' hb'
          rw [hq] at hb'
          cases hb'
          exact hs

end Sqfs.BlockProc
