/-
C02 helper lemmas, part 9: the loops of `dequeue_block`, `get_new_block`, `sync` keep the invariant, never run out of
fuel, and never reach the `SQFS_ERROR_INTERNAL` return.
-/
import Sqfs.Proofs.BPDeq
namespace Sqfs.BlockProc
open Sqfs.Consts
open Sqfs.BlockWriter (hasFlag)

/-- what draining the pool leaves alone -/
structure Frame (s s' : Proc) (g g' : Ghost) : Prop where
  fe : s'.fe = s.fe
  maxBacklog : s'.maxBacklog = s.maxBacklog
  inodes : s'.w.inodes.length = s.w.inodes.length
  front : g'.front = g.front
  fin : g'.fin = g.fin
  gfe : g'.fe = g.fe
  pendNil : g.pend = [] → g'.pend = []

theorem Frame.refl (s : Proc) (g : Ghost) : Frame s s g g := ⟨rfl, rfl, rfl, rfl, rfl, rfl, id⟩

theorem Frame.trans {s1 s2 s3 : Proc} {g1 g2 g3 : Ghost} (a : Frame s1 s2 g1 g2) (b : Frame s2 s3 g2 g3) : Frame s1 s3 g1 g3 :=
  ⟨b.fe.trans a.fe, b.maxBacklog.trans a.maxBacklog, b.inodes.trans a.inodes, b.front.trans a.front, b.fin.trans a.fin,
   b.gfe.trans a.gfe, fun h => b.pendNil (a.pendNil h)⟩

theorem Ghost.F_congr (P : Params) {g g' : Ghost} (h1 : g'.done = g.done) (h2 : g'.fin = g.fin) : g'.F P = g.F P := by
  unfold Ghost.F; rw [h1, h2]

theorem Ghost.F_step (P : Params) {g g' : Ghost} (x : Blk) (h1 : g'.done = g.done ++ [x]) (h2 : g'.fin = false) (h3 : g.fin = false) :
    g'.F P = fStep P (g.F P) x := by
  unfold Ghost.F; rw [h1, h2, h3]; simp [fRun, List.foldl_append]

theorem PInv.intro {P : Params} {s : Proc} {g : Ghost} {held : Nat} {W : WSt} (F : FSt) (hF : g.F P = F) (hb : Back P s g F W)
    (ha : Acct s g (boolNat s.blkCurrent.isSome + held))
    (hn : g.fin = true → g.pend = []) : PInv P s g held W := by
  subst hF; exact ⟨hb, ha, hn⟩

theorem blkCurrent_of_fe {s s' : Proc} (h : s'.fe = s.fe) : s'.blkCurrent = s.blkCurrent := by
  have := congrArg Front.blkCurrent h
  simpa [Proc.fe] using this

theorem inodes_len_release {s s' : Proc} {b : Blk} (h : processCompletedBlock s b = .ok s') :
    s'.w.inodes.length = s.w.inodes.length := by
  unfold processCompletedBlock at h
  split at h
  · cases h
  · rename_i w' hcb
    simp only [Except.ok.injEq] at h
    rw [← h]
    simp only [releaseOldBlock]
    unfold completeBlock at hcb
    split at hcb
    · cases hcb
    · split at hcb
      · cases hcb
      · rename_i w2 hrec
        simp only [Except.ok.injEq] at hcb
        have h2 : w2.inodes.length = s.w.inodes.length := by
          unfold recordBlock at hrec
          split at hrec
          · simp only [Except.ok.injEq] at hrec; rw [← hrec, modInode_length]
          · split at hrec
            · split at hrec
              · split at hrec
                · simp only [Except.ok.injEq] at hrec; rw [← hrec]
                · cases hrec
              · simp only [Except.ok.injEq] at hrec; rw [← hrec, modInode_length]
            · simp only [Except.ok.injEq] at hrec; rw [← hrec]
        rw [← hcb]
        split
        · rw [modInode_length, h2]
        · exact h2

theorem pool_release {s s' : Proc} {b : Blk} (h : processCompletedBlock s b = .ok s') : s'.pool = s.pool := by
  unfold processCompletedBlock at h
  split at h
  · cases h
  · simp only [Except.ok.injEq] at h; rw [← h]; rfl

/-! ### the `while (proc->io_queue != NULL)` loop -/

theorem release_ok {P : Params} (hc : CodecOk P.codec) (hB : P.B < 2 ^ 24) :
    ∀ (fuel : Nat) (s : Proc) (g : Ghost) (held : Nat) (W : WSt), PInv P s g held W → s.ioQueue.length ≤ fuel →
      ∃ s' g' W', releaseGo fuel s = .ok s' ∧ PInv P s' g' held W' ∧ Frame s s' g g' ∧ s'.backlog ≤ s.backlog ∧
        g'.items = g.items ∧ g'.pend = g.pend ∧ g'.done = g.done ∧ s'.pool = s.pool ∧
        (∀ b rest, s'.ioQueue = b :: rest → b.seq ≠ s'.ioDeqSeqNum) := by
  intro fuel
  induction fuel with
  | zero =>
    intro s g held W h hl
    have hq : s.ioQueue = [] := List.eq_nil_of_length_eq_zero (Nat.le_zero.mp hl)
    refine ⟨s, g, W, ?_, h, Frame.refl s g, Nat.le_refl _, rfl, rfl, rfl, rfl, ?_⟩
    · simp [releaseGo, hq]
    · intro b rest hb; rw [hq] at hb; cases hb
  | succ fuel ih =>
    intro s g held W h hl
    cases hq : s.ioQueue with
    | nil =>
      refine ⟨s, g, W, ?_, h, Frame.refl s g, Nat.le_refl _, rfl, rfl, rfl, rfl, ?_⟩
      · simp [releaseGo, hq]
      · intro b rest hb; rw [hq] at hb; cases hb
    | cons b rest =>
      by_cases hs : b.seq = s.ioDeqSeqNum
      · obtain ⟨s1, W1, effs, hp, f1, f2, f3, f4, f5, f6, hb1⟩ := h.back.releaseOne hc hB b rest hq hs
        have hcur := blkCurrent_of_fe f1
        have hinv1 : PInv P s1 { g with h := g.h ++ effs, m := g.m ++ effs } held W1 := by
          refine PInv.intro (g.F P) (Ghost.F_congr P rfl rfl) hb1 ?_ h.finNoPend
          have := h.acct
          unfold Acct at *
          rw [hq] at this
          simp only [f2, f3, f4, hcur, List.length_cons] at this ⊢
          omega
        have hl1 : s1.ioQueue.length ≤ fuel := by rw [f3]; rw [hq] at hl; simpa using hl
        obtain ⟨s', g', W', hr, hinv', hfr, hle, hi, hpe, hdo, hpo, hhead⟩ := ih s1 _ held W1 hinv1 hl1
        refine ⟨s', g', W', ?_, hinv', ?_, ?_, hi, hpe, hdo, ?_, hhead⟩
        · unfold releaseGo
          simp only [hq, hs, bne_self_eq_false, Bool.false_eq_true, if_false]
          rw [hp]; exact hr
        · have hlen : s1.w.inodes.length = s.w.inodes.length := by
            have := inodes_len_release hp
            exact this
          exact Frame.trans (g2 := { g with h := g.h ++ effs, m := g.m ++ effs }) ⟨f1, f5, hlen, rfl, rfl, rfl, id⟩ hfr
        · rw [f2] at hle; omega
        · rw [hpo]
          have := pool_release hp
          exact this
      · refine ⟨s, g, W, ?_, h, Frame.refl s g, Nat.le_refl _, rfl, rfl, rfl, rfl, ?_⟩
        · have : (b.seq != s.ioDeqSeqNum) = true := by simpa using hs
          simp [releaseGo, hq, this]
        · intro b' rest' hb'
          rw [hq] at hb'
          cases hb'
          exact hs

/-! ### `dequeue_block`: the pool is never empty when `pool->dequeue` is reached -/

theorem pool_nonempty {P : Params} {s : Proc} {g : Ghost} {W : WSt} (h : PInv P s g 0 W)
    (hhead : ∀ b rest, s.ioQueue = b :: rest → b.seq ≠ s.ioDeqSeqNum) (hmw : mustWait s = true) (hb : 1 ≤ s.backlog) :
    g.items ≠ [] := by
  intro hi
  have hq := h.back.queue
  rw [hi] at hq
  simp only [List.filter_nil, List.append_nil] at hq
  have hioq : s.ioQueue = [] := by
    cases hqq : s.ioQueue with
    | nil => rfl
    | cons b rest =>
      exfalso
      have hbd : b ∈ (g.F P).stream.drop s.ioDeqSeqNum := hq.subset (by rw [hqq]; exact List.mem_cons_self)
      obtain ⟨hge, hlt, _⟩ := mem_drop_seq h.back.finv hbd
      have hdl : s.ioDeqSeqNum < (g.F P).stream.length := by omega
      have hd0 : (g.F P).stream[s.ioDeqSeqNum] ∈ (g.F P).stream.drop s.ioDeqSeqNum := by
        rw [drop_eq_cons_of_lt _ _ hdl]; exact List.mem_cons_self
      have hd0q : (g.F P).stream[s.ioDeqSeqNum] ∈ s.ioQueue := hq.symm.subset hd0
      have hd0s : ((g.F P).stream[s.ioDeqSeqNum]).seq = s.ioDeqSeqNum := h.back.finv.seqs _ hdl
      rw [hqq] at hd0q
      rcases List.mem_cons.mp hd0q with he | he
      · exact hhead b rest hqq (by rw [← he]; exact hd0s)
      · have hs := h.back.sorted
        rw [hqq, List.pairwise_cons] at hs
        have := hs.1 _ he
        omega
  have hac := h.acct
  unfold Acct at hac
  rw [hi, hioq] at hac
  simp only [List.length_nil, Nat.zero_add, Nat.add_zero] at hac
  unfold mustWait at hmw
  cases hf : s.fragBlock.isSome <;> cases hcur : s.blkCurrent.isSome <;> simp [hf, hcur, boolNat] at hac hmw <;> omega

theorem PInv.measure_items {P : Params} {s : Proc} {g : Ghost} {W : WSt} (h : PInv P s g 0 W) : g.pend.length ≤ g.items.length := by
  rw [← h.back.pend]; exact List.length_filter_le _ _

theorem dequeueGo_ok {P : Params} (hP : P.ans = serialAns) (hc : CodecOk P.codec) (hB : P.B < 2 ^ 24) (old : Nat) (hold : 1 ≤ old) :
    ∀ (fuel : Nat) (s : Proc) (g : Ghost) (W : WSt), PInv P s g 0 W → g.items.length + g.pend.length < fuel →
      ∃ s' g' W', dequeueGo P old fuel s = .ok s' ∧ PInv P s' g' 0 W' ∧ Frame s s' g g' ∧
        (s'.backlog < old ∨ mustWait s' = false) := by
  intro fuel
  induction fuel with
  | zero => intro s g W _ hm; omega
  | succ fuel ih =>
    intro s g W h hm
    obtain ⟨s1, g1, W1, hr, h1, fr1, hle1, hi1, hpe1, hdo1, hpo1, hhead⟩ := release_ok hc hB s.ioQueue.length s g 0 W h (Nat.le_refl _)
    have hrel : release s = .ok s1 := hr
    unfold dequeueGo
    rw [hrel]
    simp only
    by_cases hlt : s1.backlog < old
    · rw [if_pos hlt]
      exact ⟨s1, g1, W1, rfl, h1, fr1, Or.inl hlt⟩
    · rw [if_neg hlt]
      by_cases hmw : mustWait s1 = true
      · simp only [hmw, Bool.not_true, Bool.false_eq_true, if_false]
        have hne := pool_nonempty h1 hhead hmw (by omega)
        cases hitems : g1.items with
        | nil => exact absurd hitems hne
        | cons x rest =>
          have hacct1 := h1.acct
          by_cases hfb : isFB x = true
          · -- a fragment block
            obtain ⟨hdq, hhd, hb2⟩ := h1.back.deqFB hP x rest hitems hfb
            rw [hdq]
            simp only
            rw [hhd]
            simp only
            have h2 : PInv P { s1 with pool := (poolDequeue P s1.pool).1, ioQueue := storeIo x s1.ioQueue } { g1 with items := rest } 0 W1 := by
              refine PInv.intro (g1.F P) (Ghost.F_congr P rfl rfl) hb2 ?_ h1.finNoPend
              have := Acct.deqStore hacct1 x rest hitems (poolDequeue P s1.pool).1 x { g1 with items := rest } rfl s1.ioSeqNum
              exact this
            have hm2 : rest.length + g1.pend.length < fuel := by
              have : g.items.length = rest.length + 1 := by rw [← hi1, hitems]; simp
              rw [hpe1]; omega
            obtain ⟨s', g', W', hd, hinv', hfr', hpost⟩ := ih _ _ W1 h2 hm2
            have hge : old ≤ s1.backlog := by omega
            refine ⟨s', g', W', ?_, hinv', ?_, hpost⟩
            · simp only [ge_iff_le, hge, if_true]; exact hd
            · refine Frame.trans fr1 (Frame.trans ?_ hfr')
              exact ⟨rfl, rfl, rfl, rfl, rfl, rfl, id⟩
          · have hfb' : isFB x = false := by simpa using hfb
            have hpend : g1.pend = x :: rest.filter (fun b => !isFB b) := by
              rw [← h1.back.pend, hitems]; simp [hfb']
            have hfin : g1.fin = false := by
              cases hf : g1.fin with
              | false => rfl
              | true => have := h1.finNoPend hf; rw [hpend] at this; cases this
            by_cases hfr : isFrag x = true
            · -- a fragment
              obtain ⟨s2, extra, effs, hdq, hhd, hb2, hac2, hfe2, hmb2, hex, hil2⟩ :=
                h1.back.deqFrag hP hc hB x rest hitems hfb' hfr _ hacct1
              rw [hdq]
              simp only
              rw [hhd]
              simp only
              have hcur2 := blkCurrent_of_fe hfe2
              have h2 : PInv P s2 { g1 with items := rest ++ extra, pend := g1.pend.tail, done := g1.done ++ [x], h := g1.h ++ effs, m := g1.m ++ effs } 0 W1 := by
                refine PInv.intro (fStep P (g1.F P) x) (Ghost.F_step P x rfl hfin hfin) hb2 ?_ ?_
                · rw [hcur2]; exact hac2
                · intro hf; rw [hfin] at hf; cases hf
              have hm2 : (rest ++ extra).length + g1.pend.tail.length < fuel := by
                have e1 : g.items.length = rest.length + 1 := by rw [← hi1, hitems]; simp
                have e2 : g.pend.length = g1.pend.tail.length + 1 := by rw [← hpe1, hpend]; simp
                simp only [List.length_append]
                omega
              by_cases hge : s2.backlog ≥ old
              · rw [if_pos hge]
                obtain ⟨s', g', W', hd, hinv', hfr', hpost⟩ := ih _ _ W1 h2 hm2
                refine ⟨s', g', W', hd, hinv', ?_, hpost⟩
                refine Frame.trans fr1 (Frame.trans ?_ hfr')
                refine ⟨hfe2, hmb2, hil2, rfl, rfl, rfl, ?_⟩
                intro hp; show g1.pend.tail = []; rw [hp]; rfl
              · rw [if_neg hge]
                refine ⟨s2, _, W1, rfl, h2, ?_, Or.inl (by omega)⟩
                refine Frame.trans fr1 ⟨hfe2, hmb2, hil2, rfl, rfl, rfl, ?_⟩
                intro hp; show g1.pend.tail = []; rw [hp]; rfl
            · -- a data block
              have hfr' : isFrag x = false := by simpa using hfr
              obtain ⟨hdq, hhd, hb2⟩ := h1.back.deqData hP hc x rest hitems hfb' hfr'
              rw [hdq]
              simp only
              rw [hhd]
              simp only
              have h2 : PInv P { s1 with pool := (poolDequeue P s1.pool).1, ioSeqNum := s1.ioSeqNum + 1, ioQueue := storeIo { x with seq := s1.ioSeqNum } s1.ioQueue }
                  { g1 with items := rest, pend := g1.pend.tail, done := g1.done ++ [x] } 0 W1 := by
                refine PInv.intro (fStep P (g1.F P) x) (Ghost.F_step P x rfl hfin hfin) hb2 ?_ ?_
                · exact Acct.deqStore hacct1 x rest hitems (poolDequeue P s1.pool).1 _ _ rfl _
                · intro hf; rw [hfin] at hf; cases hf
              have hm2 : rest.length + g1.pend.tail.length < fuel := by
                have e1 : g.items.length = rest.length + 1 := by rw [← hi1, hitems]; simp
                have e2 : g.pend.length = g1.pend.tail.length + 1 := by rw [← hpe1, hpend]; simp
                omega
              obtain ⟨s', g', W', hd, hinv', hfr2, hpost⟩ := ih _ _ W1 h2 hm2
              have hge : old ≤ s1.backlog := by omega
              refine ⟨s', g', W', ?_, hinv', ?_, hpost⟩
              · simp only [ge_iff_le, hge, if_true]; exact hd
              · refine Frame.trans fr1 (Frame.trans ?_ hfr2)
                refine ⟨rfl, rfl, rfl, rfl, rfl, rfl, ?_⟩
                intro hp; show g1.pend.tail = []; rw [hp]; rfl
      · have hmw' : mustWait s1 = false := by simpa using hmw
        simp only [hmw', Bool.not_false, if_true]
        exact ⟨s1, g1, W1, rfl, h1, fr1, Or.inr hmw'⟩

theorem not_mustWait_le {s : Proc} (h : mustWait s = false) : 1 ≤ s.backlog ∧ s.backlog ≤ 2 := by
  unfold mustWait at h
  by_cases h1 : s.backlog = 1
  · omega
  · by_cases h2 : s.backlog = 2
    · omega
    · simp [h1, h2] at h

theorem PInv.items_le {P : Params} {s : Proc} {g : Ghost} {held : Nat} {W : WSt} (h : PInv P s g held W) :
    g.items.length ≤ s.backlog := by
  have := h.acct
  unfold Acct at this
  omega

/-- `dequeue_block`, called with a non-empty backlog -/
theorem dequeueBlock_ok {P : Params} (hP : P.ans = serialAns) (hc : CodecOk P.codec) (hB : P.B < 2 ^ 24)
    {s : Proc} {g : Ghost} {W : WSt} (h : PInv P s g 0 W) (hb : 1 ≤ s.backlog) :
    ∃ s' g' W', dequeueBlock P s = .ok s' ∧ PInv P s' g' 0 W' ∧ Frame s s' g g' ∧
      (s'.backlog < s.backlog ∨ mustWait s' = false) := by
  have hm : g.items.length + g.pend.length < 2 * s.backlog + 1 := by
    have := h.items_le
    have := h.measure_items
    omega
  exact dequeueGo_ok hP hc hB s.backlog hb _ s g W h hm

/-- `get_new_block`: the backlog is drained below `max_backlog`, then one more block is accounted for -/
theorem getNewBlockGo_ok {P : Params} (hP : P.ans = serialAns) (hc : CodecOk P.codec) (hB : P.B < 2 ^ 24) :
    ∀ (fuel : Nat) (s : Proc) (g : Ghost) (W : WSt), PInv P s g 0 W → s.backlog < fuel →
      ∃ s' g' W', getNewBlockGo P fuel s = .ok s' ∧ PInv P s' g' 1 W' ∧ Frame s s' g g' := by
  intro fuel
  induction fuel with
  | zero => intro s g W _ hf; omega
  | succ fuel ih =>
    intro s g W h hf
    unfold getNewBlockGo
    by_cases hge : s.backlog ≥ s.maxBacklog
    · rw [if_pos hge]
      have hmb := h.back.maxBacklog
      obtain ⟨s1, g1, W1, hd, h1, fr1, hpost⟩ := dequeueBlock_ok hP hc hB h (by omega)
      rw [hd]
      simp only
      have hlt : s1.backlog < s.backlog := by
        rcases hpost with hlt | hmw
        · exact hlt
        · have := (not_mustWait_le hmw).2; omega
      obtain ⟨s', g', W', hg, h', fr'⟩ := ih s1 g1 W1 h1 (by omega)
      exact ⟨s', g', W', hg, h', fr1.trans fr'⟩
    · rw [if_neg hge]
      refine ⟨_, g, W, rfl, ?_, ⟨rfl, rfl, rfl, rfl, rfl, rfl, id⟩⟩
      refine PInv.intro (g.F P) rfl (h.back.backlogIrrel _) ?_ h.finNoPend
      have := h.acct
      unfold Acct at *
      simp only at this ⊢
      omega

theorem getNewBlock_ok {P : Params} (hP : P.ans = serialAns) (hc : CodecOk P.codec) (hB : P.B < 2 ^ 24)
    {s : Proc} {g : Ghost} {W : WSt} (h : PInv P s g 0 W) :
    ∃ s' g' W', getNewBlock P s = .ok s' ∧ PInv P s' g' 1 W' ∧ Frame s s' g g' :=
  getNewBlockGo_ok hP hc hB _ s g W h (Nat.lt_succ_self _)

/-- `sqfs_block_processor_sync` -/
theorem syncGo_ok {P : Params} (hP : P.ans = serialAns) (hc : CodecOk P.codec) (hB : P.B < 2 ^ 24) :
    ∀ (fuel : Nat) (s : Proc) (g : Ghost) (W : WSt), PInv P s g 0 W → s.backlog < fuel →
      ∃ s' g' W', syncGo P fuel s = .ok s' ∧ PInv P s' g' 0 W' ∧ Frame s s' g g' ∧ (s'.backlog = 0 ∨ mustWait s' = false) := by
  intro fuel
  induction fuel with
  | zero => intro s g W _ hf; omega
  | succ fuel ih =>
    intro s g W h hf
    unfold syncGo
    by_cases h0 : s.backlog = 0
    · rw [if_pos h0]
      exact ⟨s, g, W, rfl, h, Frame.refl s g, Or.inl h0⟩
    · rw [if_neg h0]
      by_cases hmw : mustWait s = true
      · simp only [hmw, Bool.not_true, Bool.false_eq_true, if_false]
        obtain ⟨s1, g1, W1, hd, h1, fr1, hpost⟩ := dequeueBlock_ok hP hc hB h (by omega)
        rw [hd]
        simp only
        rcases hpost with hlt | hmw1
        · obtain ⟨s', g', W', hg, h', fr', hp'⟩ := ih s1 g1 W1 h1 (by omega)
          exact ⟨s', g', W', hg, h', fr1.trans fr', hp'⟩
        · -- the early exit applies: the next iteration returns
          have hfuel : 1 ≤ fuel := by omega
          obtain ⟨f, rfl⟩ : ∃ f, fuel = f + 1 := ⟨fuel - 1, by omega⟩
          have hb1 := (not_mustWait_le hmw1).1
          refine ⟨s1, g1, W1, ?_, h1, fr1, Or.inr hmw1⟩
          unfold syncGo
          rw [if_neg (by omega)]
          simp [hmw1]
      · have hmw' : mustWait s = false := by simpa using hmw
        simp only [hmw', Bool.not_false, if_true]
        exact ⟨s, g, W, rfl, h, Frame.refl s g, Or.inr hmw'⟩

theorem syncDrain_ok {P : Params} (hP : P.ans = serialAns) (hc : CodecOk P.codec) (hB : P.B < 2 ^ 24)
    {s : Proc} {g : Ghost} {W : WSt} (h : PInv P s g 0 W) :
    ∃ s' g' W', syncDrain P s = .ok s' ∧ PInv P s' g' 0 W' ∧ Frame s s' g g' ∧ (s'.backlog = 0 ∨ mustWait s' = false) :=
  syncGo_ok hP hc hB _ s g W h (Nat.lt_succ_self _)

/-- the `get_status` call at the end of `sync` answers 0 under the invariant (no callback fails on the healthy pool) and
changes nothing but the pool's call history -/
theorem PInv.status {P : Params} (hP : P.ans = serialAns) {s : Proc} {g : Ghost} {held : Nat} {W : WSt} (h : PInv P s g held W) :
    (poolStatus P s.pool).2 = 0 ∧ PInv P { s with pool := (poolStatus P s.pool).1 } g held W := by
  obtain ⟨h0, hp⟩ := poolStatus_ok P hP s.pool g.items h.back.pool
  exact ⟨h0, ⟨{ h.back with pool := hp }, h.acct, h.finNoPend⟩⟩

/-- **bridge**: where the invariant holds (healthy pool), the current `sync` is the drain followed by a status call that
answers 0 — so everything proved about the drain carries over -/
theorem sync_eq_drain {P : Params} (hP : P.ans = serialAns) {s s1 : Proc} {g : Ghost} {W : WSt}
    (hd : syncDrain P s = .ok s1) (h1 : PInv P s1 g 0 W) :
    sync P s = .ok { s1 with pool := (poolStatus P s1.pool).1 } := by
  unfold sync
  rw [hd]
  simp only [(h1.status hP).1, ne_eq, not_true_eq_false, if_false]

theorem sync_ok {P : Params} (hP : P.ans = serialAns) (hc : CodecOk P.codec) (hB : P.B < 2 ^ 24)
    {s : Proc} {g : Ghost} {W : WSt} (h : PInv P s g 0 W) :
    ∃ s' g' W', sync P s = .ok s' ∧ PInv P s' g' 0 W' ∧ Frame s s' g g' ∧ (s'.backlog = 0 ∨ mustWait s' = false) := by
  obtain ⟨s1, g1, W1, hd, h1, fr, hpost⟩ := syncDrain_ok hP hc hB h
  refine ⟨_, g1, W1, sync_eq_drain hP hd h1, (h1.status hP).2, ?_, hpost⟩
  exact ⟨fr.fe, fr.maxBacklog, fr.inodes, fr.front, fr.fin, fr.gfe, fr.pendNil⟩

end Sqfs.BlockProc
