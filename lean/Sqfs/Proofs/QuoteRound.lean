/-
Helper lemmas for C16: the line `describe_tree` prints for one node, decoded by the pack-file parser.
-/
import Sqfs.Proofs.QuoteNode
namespace Sqfs.Quote
open Sqfs.Path (Bytes joinSlash canonicalize)
open Sqfs.Consts
set_option linter.unusedSimpArgs false

/-- ` e₁ e₂ …` — every field with a space in front -/
def spTail : List Bytes → Bytes
  | [] => []
  | e :: r => SP :: e ++ spTail r

theorem joinSp_cons_tail (a : Bytes) (r : List Bytes) : joinSp (a :: r) = a ++ spTail r := by
  induction r generalizing a with
  | nil => simp [joinSp, spTail]
  | cons b r' ih => simp only [joinSp, spTail]; rw [ih b]; simp

theorem spTail_append (a b : List Bytes) : spTail (a ++ b) = spTail a ++ spTail b := by
  induction a with
  | nil => simp [spTail]
  | cons x r ih => simp [spTail, ih]

theorem Encs.append {t1 e1 t2 e2 : List Bytes} (h1 : Encs t1 e1) (h2 : Encs t2 e2) : Encs (t1 ++ t2) (e1 ++ e2) := by
  induction h1 with
  | nil => simpa using h2
  | cons h _ ih => exact Encs.cons h ih

theorem encs_ne_nil {ts es : List Bytes} (h : Encs ts es) : ∀ e ∈ es, e ≠ [] := by
  induction h with
  | nil => intro e he; simp at he
  | cons h1 _ ih =>
    intro e he
    rcases List.mem_cons.1 he with rfl | he'
    · exact h1.ne_nil
    · exact ih e he'

theorem enc_digits {s : Bytes} (hne : s ≠ []) (h : AllDigit s) : Enc s s := by
  refine Enc.plain _ hne (fun c hc => ?_) ?_
  · obtain ⟨a, _, b, c', _, _⟩ := digit_props (h c hc)
    exact ⟨b, c', a⟩
  · cases s with
    | nil => exact absurd rfl hne
    | cons c r => simpa using (digit_props (h c (by simp))).2.2.2.2.2

/-- a keyword-like token: plain ASCII word -/
structure Word (w : Bytes) : Prop where
  ne : w ≠ []
  plain : ∀ c ∈ w, Plain c
  nodq : w.head? ≠ some DQ
  safe : Safe w
  head : GoodHead w

theorem word_dir : Word KW_DIR := ⟨by decide, by unfold Plain; decide, by decide, by unfold Safe; decide, ⟨100, [105, 114], rfl, by decide, by decide⟩⟩
theorem word_slink : Word KW_SLINK := ⟨by decide, by unfold Plain; decide, by decide, by unfold Safe; decide, ⟨115, [108, 105, 110, 107], rfl, by decide, by decide⟩⟩
theorem word_nod : Word KW_NOD := ⟨by decide, by unfold Plain; decide, by decide, by unfold Safe; decide, ⟨110, [111, 100], rfl, by decide, by decide⟩⟩
theorem word_pipe : Word KW_PIPE := ⟨by decide, by unfold Plain; decide, by decide, by unfold Safe; decide, ⟨112, [105, 112, 101], rfl, by decide, by decide⟩⟩
theorem word_sock : Word KW_SOCK := ⟨by decide, by unfold Plain; decide, by decide, by unfold Safe; decide, ⟨115, [111, 99, 107], rfl, by decide, by decide⟩⟩
theorem word_file : Word KW_FILE := ⟨by decide, by unfold Plain; decide, by decide, by unfold Safe; decide, ⟨102, [105, 108, 101], rfl, by decide, by decide⟩⟩

theorem printNat_ne (base : Nat) (hb : base = 8 ∨ base = 10) (n : Nat) : printNat base n ≠ [] :=
  (printNat_form base (by rcases hb with rfl | rfl <;> omega) (by rcases hb with rfl | rfl <;> omega) n).1

theorem printNat_digits (base : Nat) (hb : base = 8 ∨ base = 10) (n : Nat) : AllDigit (printNat base n) :=
  (printNat_form base (by rcases hb with rfl | rfl <;> omega) (by rcases hb with rfl | rfl <;> omega) n).2

theorem allDigit_cons48 {s : Bytes} (h : AllDigit s) : AllDigit (48 :: s) := by
  intro c hc
  rcases List.mem_cons.1 hc with e | e
  · subst e; decide
  · exact h c e

/-- the token the path is printed as, and the token it is read back as -/
def pathTok (p : Bytes) : Bytes := if p = [] then [SL] else p

theorem enc_printName (p : Bytes) (hp : Safe p) : Enc (pathTok p) (printName p) := by
  unfold pathTok printName
  by_cases h : p = []
  · simp only [h, if_true]
    exact Enc.plain _ (by simp) (by unfold Plain; decide) (by decide)
  · simp only [h, if_false]
    exact enc_printEscaped p hp.nul

theorem safe_printName (p : Bytes) (hp : Safe p) : Safe (printName p) := by
  unfold printName
  split
  · unfold Safe; decide
  · exact safe_printEscaped hp

theorem enc_ne {t e : Bytes} (h : Enc t e) : e ≠ [] := h.ne_nil

/--
**The common part of every describe line.**  `kwd path 0mode uid gid x₁ … xₖ` followed by LF, for a node whose
names are good and whose numeric fields are in range, goes through `istream_get_line`, `split_line` and the
field decoding of `handle_line` and reaches the keyword's callback with the decoded entry and `x₁ … xₖ`.
-/
theorem describe_line (kwd : Bytes) (hw : Word kwd) (h : Hook) (hk : findHook kwd hooks = some h)
    (comps : List Bytes) (hc : ∀ c ∈ comps, GoodName c) (n : Node) (hn : n.Wf)
    (xt xe : List Bytes) (hx : Encs xt xe) (hxs : ∀ e ∈ xe, Safe e)
    (hxl : ∀ e, xe.getLast? = some e → NoCRLast e)
    (hroot : comps ≠ [] ∨ h.allowRoot = true) (hex : h.needExtra = true → xt ≠ []) (hfl : h.flags = 0) (rest : Bytes) :
    fstreeFromFile {} (kwd ++ [SP] ++ printName (joinSlash comps) ++ printPerm n ++ spTail xe ++ LF :: rest) =
      match (match h.cb with
        | .generic => addGeneric { name := joinSlash comps, mode := n.perm ||| h.mode, uid := n.uid, gid := n.gid, rdev := 0, extra := none } xt
        | .device => addDevice { name := joinSlash comps, mode := n.perm ||| h.mode, uid := n.uid, gid := n.gid, rdev := 0, extra := none } xt
        | .file => addFile { name := joinSlash comps, mode := n.perm ||| h.mode, uid := n.uid, gid := n.gid, rdev := 0, extra := none } xt) with
      | .ok e => (e :: (fstreeFromFile {} rest).1, (fstreeFromFile {} rest).2)
      | .error e => ([], some (.handle e)) := by
  obtain ⟨hperm, huid, hgid, _, _⟩ := hn
  let P := joinSlash comps
  have hP : Safe P := safe_joinSlash comps hc
  let m : Bytes := 48 :: printNat 8 n.perm
  let u : Bytes := printNat 10 n.uid
  let g : Bytes := printNat 10 n.gid
  have hm : AllDigit m := allDigit_cons48 (printNat_digits 8 (Or.inl rfl) n.perm)
  have hu : AllDigit u := printNat_digits 10 (Or.inr rfl) n.uid
  have hg : AllDigit g := printNat_digits 10 (Or.inr rfl) n.gid
  have hune : u ≠ [] := printNat_ne 10 (Or.inr rfl) n.uid
  have hgne : g ≠ [] := printNat_ne 10 (Or.inr rfl) n.gid
  -- the line is the single-space join of its fields
  have hline : kwd ++ [SP] ++ printName P ++ printPerm n ++ spTail xe
      = joinSp (kwd :: ([printName P, m, u, g] ++ xe)) := by
    rw [joinSp_cons_tail, spTail_append]
    simp [spTail, printPerm, m, u, g, P]
  have henc : Encs (kwd :: ([pathTok P, m, u, g] ++ xt)) (kwd :: ([printName P, m, u, g] ++ xe)) := by
    refine Encs.cons (Enc.plain _ hw.ne hw.plain hw.nodq) (Encs.append ?_ hx)
    exact Encs.cons (enc_printName P hP) (Encs.cons (enc_digits (List.cons_ne_nil _ _) hm)
      (Encs.cons (enc_digits hune hu) (Encs.cons (enc_digits hgne hg) Encs.nil)))
  have hsafe : ∀ e ∈ kwd :: ([printName P, m, u, g] ++ xe), Safe e := by
    intro e he
    simp only [List.mem_cons, List.mem_append, List.mem_nil_iff, or_false] at he
    rcases he with rfl | (rfl | rfl | rfl | rfl) | he
    · exact hw.safe
    · exact safe_printName P hP
    · exact safe_digits hm
    · exact safe_digits hu
    · exact safe_digits hg
    · exact hxs e he
  have hnenil : ∀ e ∈ kwd :: ([printName P, m, u, g] ++ xe), e ≠ [] := by
    intro e he
    simp only [List.mem_cons, List.mem_append, List.mem_nil_iff, or_false] at he
    rcases he with rfl | (rfl | rfl | rfl | rfl) | he
    · exact hw.ne
    · exact (enc_printName P hP).ne_nil
    · exact List.cons_ne_nil _ _
    · exact hune
    · exact hgne
    · exact encs_ne_nil hx e he
  have hlast : NoCRLast (joinSp (kwd :: ([printName P, m, u, g] ++ xe))) := by
    apply noCRLast_joinSp _ hnenil
    intro e he
    cases hxe : xe with
    | nil =>
      rw [hxe] at he
      simp at he
      subst he
      exact noCRLast_digits hg
    | cons x r =>
      apply hxl
      rw [hxe] at he ⊢
      simpa [List.getLast?_cons_cons, List.getLast?_append] using he
  have hhead : GoodHead (joinSp (kwd :: ([printName P, m, u, g] ++ xe))) := by
    obtain ⟨c, r, hcr, h1, h2⟩ := hw.head
    rw [joinSp_cons_tail, hcr]
    exact ⟨c, _, rfl, h1, h2⟩
  rw [hline, fstreeFromFile_line {} rest henc hsafe hlast hhead]
  have hcanon : canonicalize (pathTok P) = some P := canon_printed_path comps hc
  have hr : P ≠ [] ∨ h.allowRoot = true := by
    rcases hroot with h1 | h1
    · exact Or.inl (joinSlash_ne_nil comps h1 hc)
    · exact Or.inr h1
  have hpm : parseNum 8 0 0o7777 m = .ok n.perm := parseNum_zero_printNat n.perm (by omega)
  have hpu : parseNum 10 0 0x0FFFFFFFF u = .ok n.uid := parseNum_printNat 10 (Or.inr rfl) _ n.uid (by omega) (by omega) (by omega)
  have hpg : parseNum 10 0 0x0FFFFFFFF g = .ok n.gid := parseNum_printNat 10 (Or.inr rfl) _ n.gid (by omega) (by omega) (by omega)
  have := handleLine_known {} h kwd (pathTok P) P m u g xt n.perm n.uid n.gid hk hcanon hr hpm hpu hpg hex rfl rfl
  simp only [List.cons_append, List.nil_append, hfl] at this ⊢
  rw [this]
  rfl

end Sqfs.Quote
