/-
C17 — lemmas for `Sqfs/Model/C17SortTree.lean`: the sort commutes with forgetting the tree node a `FileEnt` belongs to.
-/
import Sqfs.Model.C17SortTree
import Sqfs.Proofs.Sort
namespace Sqfs.C17SortTree
open Sqfs.Sort
open Sqfs.FsTree hiding FileEnt sortFileList sortFiles

theorem applyLine_paths (mt : Matcher) (l : SortLine) (fs : List FileEnt) :
    (applyLine mt l fs).map (·.path) = fs.map (·.path) := by
  induction fs with
  | nil => rfl
  | cons f fs ih =>
    simp only [applyLine]
    split
    · simp [ih]
    · split
      · split <;> simp [mark, ih]
      · simp [ih]

theorem applyLines_paths (mt : Matcher) (ls : List SortLine) : ∀ (fs : List FileEnt),
    (applyLines mt ls fs).map (·.path) = fs.map (·.path) := by
  induction ls with
  | nil => intro fs; rfl
  | cons l ls ih =>
    intro fs
    simp only [applyLines, List.foldl_cons] at ih ⊢
    rw [ih, applyLine_paths]

theorem scanLow_map {α β : Type} (f : β → α) (prio : α → Int) : ∀ (ys pre : List β) (low : β) (mid : List β),
    (let r := scanLow (fun b => prio (f b)) pre low mid ys; (r.1.map f, f r.2.1, r.2.2.map f))
      = scanLow prio (pre.map f) (f low) (mid.map f) (ys.map f) := by
  intro ys
  induction ys with
  | nil => intro pre low mid; rfl
  | cons y ys ih =>
    intro pre low mid
    simp only [scanLow, List.map_cons]
    split
    · have := ih (pre ++ low :: mid) y []
      simpa using this
    · have := ih pre low (mid ++ [y])
      simpa using this

theorem sortLoop_map {α β : Type} (f : β → α) (prio : α → Int) : ∀ (n : Nat) (l out : List β),
    (sortLoop (fun b => prio (f b)) n l out).map f = sortLoop prio n (l.map f) (out.map f) := by
  intro n
  induction n with
  | zero => intro l out; rfl
  | succ n ih =>
    intro l out
    cases l with
    | nil => rfl
    | cons x xs =>
      simp only [sortLoop, List.map_cons]
      have h := scanLow_map f prio xs [] x []
      simp only [List.map_nil] at h
      rw [ih, ← h]
      simp

theorem sortBy_map {α β : Type} (f : β → α) (prio : α → Int) (l : List β) :
    (sortBy (fun b => prio (f b)) l).map f = sortBy prio (l.map f) := by
  simp [sortBy, sortLoop_map]

theorem sortBy_perm {α : Type} (prio : α → Int) (l : List α) : (sortBy prio l).Perm l := by
  have := sortLoop_perm prio l.length l [] (Nat.le_refl _)
  simpa [sortBy] using this

theorem zip_rel {A B C : Type} (f : A → C) (g : B → C) : ∀ (a : List A) (b : List B), b.map g = a.map f →
    ∀ x ∈ a.zip b, g x.2 = f x.1 := by
  intro a
  induction a with
  | nil => intro b _ x hx; simp at hx
  | cons a0 a ih =>
    intro b hb x hx
    cases b with
    | nil => simp at hx
    | cons b0 b =>
      simp only [List.map_cons, List.cons.injEq] at hb
      simp only [List.zip_cons_cons, List.mem_cons] at hx
      rcases hx with rfl | hx
      · exact hb.1
      · exact ih b hb.2 x hx

end Sqfs.C17SortTree
