/-
Proofs of the C16 round-trip theorems (stated in `Sqfs/Props/C16.lean`): per node kind, and by mutual structural
recursion over the tree.
-/
import Sqfs.Proofs.QuoteRound
namespace Sqfs.Quote
open Sqfs.Path (Bytes joinSlash)
open Sqfs.Consts
set_option linter.unusedSimpArgs false

/-- `print_escaped` output never ends in CR and is safe on a line -/
theorem extra1 (s : Bytes) (hs : Safe s) :
    Encs [s] [printEscaped s] ∧ (∀ e ∈ [printEscaped s], Safe e) ∧ (∀ e, [printEscaped s].getLast? = some e → NoCRLast e) := by
  refine ⟨Encs.cons (enc_printEscaped s hs.nul) Encs.nil, ?_, ?_⟩
  · intro e he; rw [List.mem_singleton.1 he]; exact safe_printEscaped hs
  · intro e he; simp at he; subst he; exact noCRLast_printEscaped s

theorem sane_last (comps : List Bytes) (hc : ∀ c ∈ comps, GoodName c) :
    Sqfs.Path.isFilenameSane (comps.getLast?.getD []) = true := by
  cases h : comps.getLast? with
  | none => decide
  | some c =>
    obtain ⟨_, h2, h3, h4, _, _⟩ := hc c (List.mem_of_getLast? h)
    exact (Sqfs.C18.sane_iff c).2 ⟨h2, h3, h4⟩

theorem last_ne (comps : List Bytes) (hc : ∀ c ∈ comps, GoodName c) (hne : comps ≠ []) :
    ¬ (comps.getLast?.getD [] = []) := by
  cases h : comps.getLast? with
  | none => exact absurd (List.getLast?_eq_none_iff.1 h) hne
  | some c => exact (hc c (List.mem_of_getLast? h)).1


theorem dev_fields (d : Nat) (hd : d < 2 ^ 32) :
    let maj := printNat 10 (devMajor (d % 2 ^ 32) % 2 ^ 32)
    let min := printNat 10 (devMinor (d % 2 ^ 32) % 2 ^ 32)
    (∀ t, Encs [[t], maj, min] [[t], maj, min] ∨ t = SP ∨ t = TAB ∨ t = NUL ∨ t = DQ) ∧
    (∀ e ∈ [maj, min], Safe e) ∧ NoCRLast min ∧
    parseNum 10 0 0x0FFFFFFFF maj = .ok (devMajor d) ∧ parseNum 10 0 0x0FFFFFFFF min = .ok (devMinor d) := by
  intro maj min
  have e1 : d % 2 ^ 32 = d := Nat.mod_eq_of_lt hd
  have h1 := devMajor_lt d hd
  have h2 := devMinor_lt d hd
  have e2 : devMajor d % 2 ^ 32 = devMajor d := Nat.mod_eq_of_lt h1
  have e3 : devMinor d % 2 ^ 32 = devMinor d := Nat.mod_eq_of_lt h2
  have dm : AllDigit maj := printNat_digits 10 (Or.inr rfl) _
  have dn : AllDigit min := printNat_digits 10 (Or.inr rfl) _
  refine ⟨fun t => ?_, ?_, noCRLast_digits dn, ?_, ?_⟩
  · by_cases c1 : t = SP
    · exact Or.inr (Or.inl c1)
    · by_cases c2 : t = TAB
      · exact Or.inr (Or.inr (Or.inl c2))
      · by_cases c3 : t = NUL
        · exact Or.inr (Or.inr (Or.inr (Or.inl c3)))
        · by_cases c4 : t = DQ
          · exact Or.inr (Or.inr (Or.inr (Or.inr c4)))
          · left
            refine Encs.cons (Enc.plain _ (by simp) ?_ (by simpa using c4)) (Encs.cons (enc_digits (printNat_ne 10 (Or.inr rfl) _) dm)
              (Encs.cons (enc_digits (printNat_ne 10 (Or.inr rfl) _) dn) Encs.nil))
            intro c hc
            rw [List.mem_singleton.1 hc]
            exact ⟨c1, c2, c3⟩
  · intro e he
    simp only [List.mem_cons, List.mem_nil_iff, or_false] at he
    rcases he with rfl | rfl
    · exact safe_digits dm
    · exact safe_digits dn
  · show parseNum 10 0 0x0FFFFFFFF (printNat 10 (devMajor (d % 2 ^ 32) % 2 ^ 32)) = _
    rw [e1, e2]
    exact parseNum_printNat 10 (Or.inr rfl) _ _ (by omega) (by omega) (by omega)
  · show parseNum 10 0 0x0FFFFFFFF (printNat 10 (devMinor (d % 2 ^ 32) % 2 ^ 32)) = _
    rw [e1, e3]
    exact parseNum_printNat 10 (Or.inr rfl) _ _ (by omega) (by omega) (by omega)

/--
**Printer ∘ parser = identity, node by node.**  For every node of an image — any kind that can be described, at
any path whose names are non-empty, not "."/"..", and free of '/', NUL and LF (every other byte allowed: space,
tab, `"`, `\`, `#`, CR, high bytes, leading/trailing blanks), any 12-bit mode, 32-bit uid/gid/device number, any
symlink target and any `--unpack-root` free of NUL and LF — the (repaired) `describe_tree` prints one line, and
`fstree_from_file_stream` with default options decodes that line — through `istream_get_line`, `split_line`,
`canonicalize_name`, `parse_uint(_oct)` and the keyword's callback — to exactly the entry the specification
demands (`specEntry`: same path, type bits | permission bits, uid, gid, device number, symlink target, and for
files the input location `path` or `<unpack-root>/<path>`), then goes on with whatever follows the line.
-/
theorem handle_print_roundtrip_proof (ur : Option Bytes) (comps : List Bytes) (n : Node)
    (hc : ∀ c ∈ comps, GoodName c) (hn : n.Wf) (hur : ∀ r, ur = some r → LineSafe r)
    (hroot : comps = [] → n.kind = .dir) (e : Entry) (he : specEntry ur comps n = some e) :
    ∃ line, describeNode ur comps n = .ok line ∧
      ∀ rest, fstreeFromFile {} (line ++ rest) = (e :: (fstreeFromFile {} rest).1, (fstreeFromFile {} rest).2) := by
  have hsane := sane_last comps hc
  have hpath := nodePath_good comps hc
  have hP : Safe (joinSlash comps) := safe_joinSlash comps hc
  have hnr : n.kind ≠ .dir → comps ≠ [] := fun h1 h2 => h1 (hroot h2)
  have hwf := hn
  obtain ⟨_, _, _, hdev, htgt⟩ := hn
  cases hk : n.kind with
  | other => simp [specEntry, hk] at he
  | dir =>
    have hcond : (comps ≠ [] && decide (comps.getLast?.getD [] = [])) = false := by
      by_cases h0 : comps = []
      · simp [h0]
      · simp [last_ne comps hc h0]
    simp only [specEntry, hk, Option.some.injEq] at he
    subst he
    refine ⟨_, by simp only [describeNode, hsane, hk, hpath, hcond]; rfl, fun rest => ?_⟩
    have hh : findHook KW_DIR hooks = some ⟨KW_DIR, sIFDIR, 0, false, true, .generic⟩ := by decide
    have := describe_line KW_DIR word_dir _ hh comps hc n hwf [] [] Encs.nil (by simp) (by simp) (Or.inr rfl) (by simp) rfl rest
    simp only [spTail, List.append_nil, addGeneric] at this
    simp only [List.append_assoc, List.cons_append, List.nil_append, List.singleton_append] at this ⊢
    rw [this]; rfl
  | fifo =>
    simp only [specEntry, hk, Option.some.injEq] at he
    subst he
    refine ⟨_, by simp only [describeNode, hsane, hk, hpath]; rfl, fun rest => ?_⟩
    have hh : findHook KW_PIPE hooks = some ⟨KW_PIPE, sIFIFO, 0, false, false, .generic⟩ := by decide
    have := describe_line KW_PIPE word_pipe _ hh comps hc n hwf [] [] Encs.nil (by simp) (by simp) (Or.inl (hnr (by simp [hk]))) (by simp) rfl rest
    simp only [spTail, List.append_nil, addGeneric] at this
    simp only [List.append_assoc, List.cons_append, List.nil_append, List.singleton_append] at this ⊢
    rw [this]; rfl
  | sock =>
    simp only [specEntry, hk, Option.some.injEq] at he
    subst he
    refine ⟨_, by simp only [describeNode, hsane, hk, hpath]; rfl, fun rest => ?_⟩
    have hh : findHook KW_SOCK hooks = some ⟨KW_SOCK, sIFSOCK, 0, false, false, .generic⟩ := by decide
    have := describe_line KW_SOCK word_sock _ hh comps hc n hwf [] [] Encs.nil (by simp) (by simp) (Or.inl (hnr (by simp [hk]))) (by simp) rfl rest
    simp only [spTail, List.append_nil, addGeneric] at this
    simp only [List.append_assoc, List.cons_append, List.nil_append, List.singleton_append] at this ⊢
    rw [this]; rfl
  | slink =>
    simp only [specEntry, hk, Option.some.injEq] at he
    subst he
    refine ⟨_, by simp only [describeNode, hsane, hk, hpath]; rfl, fun rest => ?_⟩
    have hh : findHook KW_SLINK hooks = some ⟨KW_SLINK, sIFLNK, 0, true, false, .generic⟩ := by decide
    obtain ⟨x1, x2, x3⟩ := extra1 n.target (safe_of_lineSafe (htgt hk))
    have := describe_line KW_SLINK word_slink _ hh comps hc n hwf _ _ x1 x2 x3 (Or.inl (hnr (by simp [hk]))) (by simp) rfl rest
    simp only [spTail, List.append_nil, addGeneric] at this
    simp only [List.append_assoc, List.cons_append, List.nil_append, List.singleton_append] at this ⊢
    rw [this]; rfl
  | file =>
    have hh : findHook KW_FILE hooks = some ⟨KW_FILE, sIFREG, 0, false, false, .file⟩ := by decide
    cases hu : ur with
    | none =>
      simp only [specEntry, hk, hu, Option.some.injEq] at he
      subst he
      refine ⟨_, by simp only [describeNode, hsane, hk, hpath]; rfl, fun rest => ?_⟩
      have := describe_line KW_FILE word_file _ hh comps hc n hwf [] [] Encs.nil (by simp) (by simp) (Or.inl (hnr (by simp [hk]))) (by simp) rfl rest
      simp only [spTail, List.append_nil, addFile, addGeneric] at this
      simp only [List.append_assoc, List.cons_append, List.nil_append, List.singleton_append] at this ⊢
      rw [this]; rfl
    | some r =>
      simp only [specEntry, hk, hu, Option.some.injEq] at he
      subst he
      refine ⟨_, by simp only [describeNode, hsane, hk, hpath]; rfl, fun rest => ?_⟩
      have hloc : Safe (r ++ SL :: joinSlash comps) :=
        Safe.append (safe_of_lineSafe (hur r hu)) (Safe.cons (by decide) (by decide) hP)
      obtain ⟨x1, x2, x3⟩ := extra1 _ hloc
      have := describe_line KW_FILE word_file _ hh comps hc n hwf _ _ x1 x2 x3 (Or.inl (hnr (by simp [hk]))) (by simp) rfl rest
      simp only [spTail, List.append_nil, addFile, addGeneric] at this
      simp only [List.append_assoc, List.cons_append, List.nil_append, List.singleton_append] at this ⊢
      rw [this]; rfl
  | chr =>
    simp only [specEntry, hk, Option.some.injEq] at he
    subst he
    refine ⟨_, by simp only [describeNode, hsane, hk, hpath]; rfl, fun rest => ?_⟩
    have hh : findHook KW_NOD hooks = some ⟨KW_NOD, 0, 0, true, false, .device⟩ := by decide
    obtain ⟨d1, d2, d3, d4, d5⟩ := dev_fields n.devno hdev
    have d1' := (d1 99).resolve_right (by decide)
    have := describe_line KW_NOD word_nod _ hh comps hc n hwf _ _ d1'
      (by intro e he
          rcases List.mem_cons.1 he with rfl | he
          · unfold Safe; decide
          · exact d2 e he)
      (by intro e he; simp at he; subst he; exact d3)
      (Or.inl (hnr (by simp [hk]))) (by simp) rfl rest
    simp only [spTail, List.append_nil, addDevice, d4, d5, addGeneric, makedev_major_minor n.devno hdev] at this
    simp only [List.append_assoc, List.cons_append, List.nil_append, List.singleton_append] at this ⊢
    rw [this]; simp [ifmtOf]
  | blk =>
    simp only [specEntry, hk, Option.some.injEq] at he
    subst he
    refine ⟨_, by simp only [describeNode, hsane, hk, hpath]; rfl, fun rest => ?_⟩
    have hh : findHook KW_NOD hooks = some ⟨KW_NOD, 0, 0, true, false, .device⟩ := by decide
    obtain ⟨d1, d2, d3, d4, d5⟩ := dev_fields n.devno hdev
    have d1' := (d1 98).resolve_right (by decide)
    have := describe_line KW_NOD word_nod _ hh comps hc n hwf _ _ d1'
      (by intro e he
          rcases List.mem_cons.1 he with rfl | he
          · unfold Safe; decide
          · exact d2 e he)
      (by intro e he; simp at he; subst he; exact d3)
      (Or.inl (hnr (by simp [hk]))) (by simp) rfl rest
    simp only [spTail, List.append_nil, addDevice, d4, d5, addGeneric, makedev_major_minor n.devno hdev] at this
    simp only [List.append_assoc, List.cons_append, List.nil_append, List.singleton_append] at this ⊢
    rw [this]; simp [ifmtOf]

theorem describe_other (ur : Option Bytes) (comps : List Bytes) (n : Node)
    (hc : ∀ c ∈ comps, GoodName c) (hk : n.kind = .other) : describeNode ur comps n = .ok [] := by
  simp only [describeNode, sane_last comps hc, hk]; rfl

theorem ffe_nil : fstreeFromFile {} [] = ([], none) := by decide

/-- what both tree theorems say about an output `out` that is to decode to the entries `es` -/
def Decodes (out : Bytes) (es : List Entry) : Prop :=
  ∀ rest, fstreeFromFile {} (out ++ rest) = (es ++ (fstreeFromFile {} rest).1, (fstreeFromFile {} rest).2)

theorem decodes_nil : Decodes [] [] := fun rest => by simp

theorem Decodes.append {a b : Bytes} {x y : List Entry} (h1 : Decodes a x) (h2 : Decodes b y) :
    Decodes (a ++ b) (x ++ y) := by
  intro rest
  rw [List.append_assoc, h1 (b ++ rest), h2 rest]
  simp

theorem node_decodes (ur : Option Bytes) (hur : ∀ r, ur = some r → LineSafe r) (comps : List Bytes) (n : Node)
    (hc : ∀ c ∈ comps, GoodName c) (hn : n.Wf) (hroot : comps = [] → n.kind = .dir) :
    ∃ line, describeNode ur comps n = .ok line ∧ Decodes line (specEntry ur comps n).toList := by
  cases he : specEntry ur comps n with
  | none =>
    have hk : n.kind = .other := by
      cases hk : n.kind <;> simp [specEntry, hk] at he
      rfl
    exact ⟨[], describe_other ur comps n hc hk, decodes_nil⟩
  | some e =>
    obtain ⟨line, h1, h2⟩ := handle_print_roundtrip_proof ur comps n hc hn hur hroot e he
    exact ⟨line, h1, fun rest => by rw [h2 rest]; simp⟩

mutual
theorem tree_rt (ur : Option Bytes) (hur : ∀ r, ur = some r → LineSafe r) (comps : List Bytes)
    (hc : ∀ c ∈ comps, GoodName c) :
    (t : Tree) → (match t with | .mk _ node ch => node.Wf ∧ ForestOk ch ∧ (comps = [] → node.kind = .dir)) →
      ∃ out, describeTree ur comps t = .ok out ∧ Decodes out (specTree ur comps t)
  | .mk name node ch, h => by
    obtain ⟨hn, hf, hroot⟩ := h
    obtain ⟨line, h1, h2⟩ := node_decodes ur hur comps node hc hn hroot
    by_cases hk : node.kind = .dir
    · obtain ⟨rest, h3, h4⟩ := forest_rt ur hur comps hc ch hf
      refine ⟨line ++ rest, by simp only [describeTree, h1, hk, h3, if_true], ?_⟩
      simp only [specTree, hk, if_true]
      exact h2.append h4
    · refine ⟨line, by simp only [describeTree, h1, hk, if_false], ?_⟩
      simp only [specTree, hk, if_false, List.append_nil]
      exact h2
theorem forest_rt (ur : Option Bytes) (hur : ∀ r, ur = some r → LineSafe r) (parents : List Bytes)
    (hc : ∀ c ∈ parents, GoodName c) :
    (ts : List Tree) → ForestOk ts →
      ∃ out, describeForest ur parents ts = .ok out ∧ Decodes out (specForest ur parents ts)
  | [], _ => ⟨[], by simp only [describeForest], by simp only [specForest]; exact decodes_nil⟩
  | .mk name node ch :: ts, h => by
    obtain ⟨⟨hname, hn, hch⟩, hts⟩ := h
    have hc' : ∀ c ∈ parents ++ [name], GoodName c := by
      intro c hcm
      rcases List.mem_append.1 hcm with m | m
      · exact hc c m
      · rw [List.mem_singleton.1 m]; exact hname
    obtain ⟨a, h1, h2⟩ := tree_rt ur hur (parents ++ [name]) hc' (.mk name node ch) ⟨hn, hch, fun e => by simp at e⟩
    obtain ⟨b, h3, h4⟩ := forest_rt ur hur parents hc ts hts
    refine ⟨a ++ b, by simp only [describeForest, h1, h3], ?_⟩
    simp only [specForest]
    exact h2.append h4
end

/--
**Whole listing.**  For the tree of any image (a nameless root directory; below it only good names, fields in
range; any shape, any mix of node kinds), `rdsquashfs --describe [--unpack-root R]` succeeds and
`gensquashfs --pack-file` decodes its output, without error, to exactly the specified entries of all nodes in
pre-order — the root directory's own mode and owner included.
-/
theorem describe_roundtrip_proof (ur : Option Bytes) (hur : ∀ r, ur = some r → LineSafe r) (t : Tree) (ht : RootOk t) :
    ∃ out, describe ur t = .ok out ∧ fstreeFromFile {} out = (specTree ur [] t, none) := by
  cases t with
  | mk name node ch =>
    obtain ⟨hname, hk, hn, hf⟩ := ht
    subst hname
    obtain ⟨out, h1, h2⟩ := tree_rt ur hur [] (by simp) (.mk [] node ch) ⟨hn, hf, fun _ => hk⟩
    refine ⟨out, by simp [describe, Tree.name, h1], ?_⟩
    have := h2 []
    rw [List.append_nil, ffe_nil] at this
    simpa using this


end Sqfs.Quote
