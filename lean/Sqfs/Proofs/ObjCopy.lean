import Sqfs.Proofs.ObjBal
/-! `sqfs_copy` through well-formed hook descriptions preserves balance (`Sqfs.Proofs.ObjBal`). -/
namespace Sqfs.Obj

theorem takeAlloc_none {h : Heap} (hb : h.budget = none) : takeAlloc h = (h, true) := by
  simp [takeAlloc, hb]

theorem Bal.setBudget {h : Heap} {U : Nat → Nat} {P PB Z : List Nat} (hb : Bal h U P PB Z) (bud : Option Nat) :
    Bal { h with budget := bud } U P PB Z :=
  ⟨hb.ok, hb.live, hb.bound, hb.dead, hb.bufLive, hb.bufDead, hb.bufBound⟩

/-- `takeAlloc` only touches the budget -/
theorem takeAlloc_spec (h : Heap) : ∃ bud, (takeAlloc h).1 = { h with budget := bud } ∧ (h.budget = none → (takeAlloc h).2 = true ∧ bud = none) := by
  unfold takeAlloc
  cases hb : h.budget with
  | none => exact ⟨none, by cases h; simp_all, fun _ => ⟨rfl, rfl⟩⟩
  | some k =>
    cases k with
    | zero => exact ⟨none, rfl, fun h => by cases h⟩
    | succ k => exact ⟨some k, rfl, fun h => by cases h⟩

/-- everything about an object except its reference count -/
def Obj.erase (o : Obj) : Obj := { o with rc := 0 }

/-- what the slot-copying loops guarantee about the rest of the heap -/
structure SlotsOk (h h' : Heap) : Prop where
  nobj : h.nobj ≤ h'.nobj
  nbuf : h.nbuf ≤ h'.nbuf
  objLive : ∀ x, (h.objs x).isSome → (h'.objs x).isSome
  bufLive : ∀ b, (h.bufs b).isSome → (h'.bufs b).isSome
  budget : h.budget = none → h'.budget = none
  bufsOld : ∀ b, b < h.nbuf → h'.bufs b = h.bufs b
  objsOld : ∀ j, j < h.nobj → (h'.objs j).map Obj.erase = (h.objs j).map Obj.erase

theorem SlotsOk.refl (h : Heap) : SlotsOk h h :=
  ⟨Nat.le_refl _, Nat.le_refl _, fun _ h => h, fun _ h => h, fun h => h, fun _ _ => rfl, fun _ _ => rfl⟩

theorem SlotsOk.trans {h h1 h' : Heap} (h1s : SlotsOk h h1) (hs : SlotsOk h1 h') : SlotsOk h h' :=
  ⟨Nat.le_trans h1s.nobj hs.nobj, Nat.le_trans h1s.nbuf hs.nbuf,
   fun x hx => hs.objLive x (h1s.objLive x hx), fun b hb => hs.bufLive b (h1s.bufLive b hb), fun hb => hs.budget (h1s.budget hb),
   fun b hb => by rw [hs.bufsOld b (Nat.lt_of_lt_of_le hb h1s.nbuf), h1s.bufsOld b hb],
   fun j hj => by rw [hs.objsOld j (Nat.lt_of_lt_of_le hj h1s.nobj), h1s.objsOld j hj]⟩

/-- duplicating the buffer slots, with or without an injected allocation failure: whatever was allocated is held
by the hook afterwards -/
theorem copyBufs_bal : ∀ (bs : List (Option Nat)) (as : List BufAct) {h : Heap} {U : Nat → Nat} {P PB : List Nat},
    Bal h U P PB [] → (∀ a ∈ as, a ≠ .alias) → (∀ b, some b ∈ bs → (h.bufs b).isSome) →
    ∀ h' nb ok, copyBufs h bs as = (h', nb, ok) →
      Bal h' U P (nb.filterMap id ++ PB) [] ∧ SlotsOk h h' ∧ h'.objs = h.objs ∧ h'.nobj = h.nobj ∧
      (∀ b, some b ∈ nb → h.nbuf ≤ b) ∧ nb.length ≤ bs.length ∧ (h.budget = none → ok = true) := by
  intro bs
  induction bs with
  | nil =>
    intro as h U P PB hb _ _ h' nb ok he
    simp only [copyBufs, Prod.mk.injEq] at he
    obtain ⟨rfl, rfl, rfl⟩ := he
    exact ⟨by simpa using hb, SlotsOk.refl _, rfl, rfl, by simp, Nat.le_refl _, fun _ => rfl⟩
  | cons x bs ih =>
    intro as h U P PB hb hw hlive h' nb ok he
    cases as with
    | nil =>
      simp only [copyBufs, Prod.mk.injEq] at he
      obtain ⟨rfl, rfl, rfl⟩ := he
      exact ⟨by simpa using hb, SlotsOk.refl _, rfl, rfl, by simp, by simp, fun _ => rfl⟩
    | cons a as =>
      have hw' : ∀ a' ∈ as, a' ≠ .alias := fun a' ha' => hw a' (List.mem_cons_of_mem _ ha')
      have hlive' : ∀ b, some b ∈ bs → (h.bufs b).isSome := fun b hbm => hlive b (List.mem_cons_of_mem _ hbm)
      -- a slot that stays NULL
      have skip : consSlot none (copyBufs h bs as) = (h', nb, ok) →
          Bal h' U P (nb.filterMap id ++ PB) [] ∧ SlotsOk h h' ∧ h'.objs = h.objs ∧ h'.nobj = h.nobj ∧
          (∀ b, some b ∈ nb → h.nbuf ≤ b) ∧ nb.length ≤ (x :: bs).length ∧ (h.budget = none → ok = true) := by
        intro he
        rcases hr : copyBufs h bs as with ⟨h1, nb1, ok1⟩
        rw [hr] at he
        simp only [consSlot, Prod.mk.injEq] at he
        obtain ⟨rfl, rfl, rfl⟩ := he
        obtain ⟨hb', hs, ho, hn, hf, hlen, hok⟩ := ih as hb hw' hlive' _ _ _ hr
        refine ⟨by simpa using hb', hs, ho, hn, ?_, by simp only [List.length_cons]; omega, hok⟩
        intro b hbm
        simp only [List.mem_cons, reduceCtorEq, false_or] at hbm
        exact hf b hbm
      cases x with
      | none => exact skip (by simpa [copyBufs] using he)
      | some b =>
        have ha : a ≠ .alias := hw a List.mem_cons_self
        have hbl := hlive b List.mem_cons_self
        obtain ⟨bf, hbf⟩ := Option.isSome_iff_exists.mp hbl
        simp only [copyBufs, ha, if_false, hbf] at he
        by_cases hu : a = .trim ∧ bf.used = 0
        · exact skip (by simpa [hu] using he)
        · simp only [hu, if_false] at he
          generalize (if a = BufAct.trim then ({ cap := bf.used, used := bf.used, val := bf.val } : Buf) else if a = BufAct.garble then ({ cap := bf.cap, used := bf.used, val := bf.val + 1 } : Buf) else bf) = nbf at he
          obtain ⟨bud, hta, htb⟩ := takeAlloc_spec h
          unfold allocBuf at he
          cases hok : (takeAlloc h).2 with
          | false =>
            have e : takeAlloc h = ({ h with budget := bud }, false) := by rw [← hta, ← hok]
            simp only [e, Bool.false_eq_true, if_false, Prod.mk.injEq] at he
            obtain ⟨rfl, rfl, rfl⟩ := he
            refine ⟨by simpa using hb.setBudget bud, ⟨Nat.le_refl _, Nat.le_refl _, fun _ h => h, fun _ h => h, ?_, fun _ _ => rfl, fun _ _ => rfl⟩, rfl, rfl, by simp, by simp, ?_⟩
            · intro hn; have := (htb hn).1; rw [hok] at this; cases this
            · intro hn; have := (htb hn).1; rw [hok] at this; cases this
          | true =>
            have e : takeAlloc h = ({ h with budget := bud }, true) := by rw [← hta, ← hok]
            simp only [e, if_true] at he
            have hb0 := hb.setBudget bud
            have hb1 := hb0.allocBuf nbf
            have hold : ∀ b', (h.bufs b').isSome → (upd h.bufs h.nbuf (some nbf) b').isSome := by
              intro b' hb'
              by_cases hne : b' = h.nbuf
              · subst hne; simp
              · simp [upd, hne, hb']
            rcases hr : copyBufs ({ h with budget := bud, bufs := upd h.bufs h.nbuf (some nbf), nbuf := h.nbuf + 1 } : Heap) bs as with ⟨h1, nb1, ok1⟩
            rw [hr] at he
            simp only [consSlot, Prod.mk.injEq] at he
            obtain ⟨rfl, rfl, rfl⟩ := he
            obtain ⟨hb', hs, ho, hn, hf, hlen, hok'⟩ := ih as hb1 hw' (fun b' hbm => hold b' (hlive' b' hbm)) _ _ _ hr
            refine ⟨?_, ?_, ho, hn, ?_, by simp only [List.length_cons]; omega, ?_⟩
            · apply hb'.perm (fun _ => rfl)
              intro b'
              simp only [List.filterMap_cons, id, List.count_append, List.count_cons]
              omega
            · refine ⟨hs.nobj, Nat.le_trans (Nat.le_succ _) hs.nbuf, hs.objLive, fun b' hb'' => hs.bufLive b' (hold b' hb''),
                fun hn => hs.budget (by show bud = none; exact (htb hn).2), ?_, hs.objsOld⟩
              intro b' hb''
              have h1 : b' < h.nbuf + 1 := Nat.lt_succ_of_lt hb''
              have h2 := hs.bufsOld b' h1
              rw [h2]
              have : b' ≠ h.nbuf := by omega
              simp [upd, this]
            · intro b' hbm
              simp only [List.mem_cons, Option.some.injEq] at hbm
              rcases hbm with hbm | hbm
              · omega
              · have h2 : h.nbuf + 1 ≤ b' := hf b' hbm
                omega
            · intro hn; exact hok' (by show bud = none; exact (htb hn).2)

theorem grab_eq {h : Heap} {x : Nat} {ox : Obj} (hc : h.crash = none) (hx : h.objs x = some ox) :
    grab h x = { h with objs := upd h.objs x (some { ox with rc := ox.rc + 1 }) } := by
  simp [grab, hc, hx]

/-- specification of `sqfs_copy` one level down, as used by the reference-slot loop: on success the caller holds
the copy, on failure (only with an injected allocation failure) nothing has changed hands -/
def CpRes (h h' : Heap) (U : Nat → Nat) (P PB : List Nat) : Option Nat → Prop
  | some y => Bal h' U (y :: P) PB [] ∧ h.nobj ≤ y ∧ SlotsOk h h'
  | none => Bal h' U P PB []

def CpSpec (cp : Heap → Nat → Heap × Option Nat) (bound : Nat) : Prop :=
  ∀ (h : Heap) (U : Nat → Nat) (P PB : List Nat) (x : Nat), Bal h U P PB [] → (h.objs x).isSome → x < bound →
    ∀ h' r, cp h x = (h', r) → (h.budget = none → r.isSome) ∧ CpRes h h' U P PB r

theorem copyRefs_bal (cp : Heap → Nat → Heap × Option Nat) (bound : Nat) (hcp : CpSpec cp bound) :
    ∀ (rs : List (Option Nat)) (as : List RefAct) {h : Heap} {U : Nat → Nat} {P PB : List Nat},
    Bal h U P PB [] → (∀ a ∈ as, a ≠ .alias) → (∀ r, some r ∈ rs → (h.objs r).isSome ∧ r < bound) →
    ∀ h' nr ok, copyRefs cp h rs as = (h', nr, ok) →
      Bal h' U (nr.filterMap id ++ P) PB [] ∧ (ok = true → SlotsOk h h' ∧ (∀ r, some r ∈ nr → (h'.objs r).isSome)) ∧
      nr.length ≤ rs.length ∧ nr.length ≤ as.length ∧ (h.budget = none → ok = true) := by
  intro rs
  induction rs with
  | nil =>
    intro as h U P PB hb _ _ h' nr ok he
    simp only [copyRefs, Prod.mk.injEq] at he
    obtain ⟨rfl, rfl, rfl⟩ := he
    exact ⟨by simpa using hb, fun _ => ⟨SlotsOk.refl _, by simp⟩, Nat.le_refl _, by simp, fun _ => rfl⟩
  | cons x rs ih =>
    intro as h U P PB hb hw hlive h' nr ok he
    cases as with
    | nil =>
      simp only [copyRefs, Prod.mk.injEq] at he
      obtain ⟨rfl, rfl, rfl⟩ := he
      exact ⟨by simpa using hb, fun _ => ⟨SlotsOk.refl _, by simp⟩, by simp, by simp, fun _ => rfl⟩
    | cons a as =>
      have hw' : ∀ a' ∈ as, a' ≠ .alias := fun a' ha' => hw a' (List.mem_cons_of_mem _ ha')
      have hlive' : ∀ r, some r ∈ rs → (h.objs r).isSome ∧ r < bound := fun r hm => hlive r (List.mem_cons_of_mem _ hm)
      cases x with
      | none =>
        rcases hr : copyRefs cp h rs as with ⟨h1, nr1, ok1⟩
        simp only [copyRefs, hr, consSlot, Prod.mk.injEq] at he
        obtain ⟨rfl, rfl, rfl⟩ := he
        obtain ⟨hb', hs, hl1, hl2, hok⟩ := ih as hb hw' hlive' _ _ _ hr
        refine ⟨by simpa using hb', ?_, by simp only [List.length_cons]; omega, by simp only [List.length_cons]; omega, hok⟩
        intro hk
        refine ⟨(hs hk).1, ?_⟩
        intro r hm
        simp only [List.mem_cons, reduceCtorEq, false_or] at hm
        exact (hs hk).2 r hm
      | some x =>
        have ha : a ≠ .alias := hw a List.mem_cons_self
        obtain ⟨hxl, hxb⟩ := hlive x List.mem_cons_self
        obtain ⟨ox, hox⟩ := Option.isSome_iff_exists.mp hxl
        -- common continuation: the slot now holds `y`, held (pending) by the hook
        have cont : ∀ (h1 : Heap) (y : Nat), Bal h1 U (y :: P) PB [] → SlotsOk h h1 →
            consSlot (some y) (copyRefs cp h1 rs as) = (h', nr, ok) →
            Bal h' U (nr.filterMap id ++ P) PB [] ∧ (ok = true → SlotsOk h h' ∧ (∀ r, some r ∈ nr → (h'.objs r).isSome)) ∧
            nr.length ≤ (some x :: rs).length ∧ nr.length ≤ (a :: as).length ∧ (h.budget = none → ok = true) := by
          intro h1 y hb1 hs1 he
          rcases hr : copyRefs cp h1 rs as with ⟨h2, nr1, ok1⟩
          rw [hr] at he
          simp only [consSlot, Prod.mk.injEq] at he
          obtain ⟨rfl, rfl, rfl⟩ := he
          obtain ⟨hb', hs, hl1, hl2, hok⟩ := ih as hb1 hw' (fun r hm => ⟨hs1.objLive r (hlive' r hm).1, (hlive' r hm).2⟩) _ _ _ hr
          refine ⟨?_, ?_, by simp only [List.length_cons]; omega, by simp only [List.length_cons]; omega,
            fun hn => hok (hs1.budget hn)⟩
          · apply hb'.perm _ (fun _ => rfl)
            intro z
            simp only [List.filterMap_cons, id, List.count_append, List.count_cons]
            omega
          · intro hk
            refine ⟨hs1.trans (hs hk).1, ?_⟩
            intro r hm
            simp only [List.mem_cons, Option.some.injEq] at hm
            rcases hm with hm | hm
            · subst hm
              obtain ⟨oy, hy, _⟩ := hb1.mem_live List.mem_cons_self
              exact (hs hk).1.objLive r (by simp [hy])
            · exact (hs hk).2 r hm
        cases a with
        | alias => exact absurd rfl ha
        | grab =>
          simp only [copyRefs] at he
          refine cont (grab h x) x (hb.grabbed hox (by simp)) ?_ he
          rw [grab_eq hb.ok hox]
          refine ⟨Nat.le_refl _, Nat.le_refl _, ?_, fun _ h => h, fun h => h, fun _ _ => rfl, ?_⟩
          · intro z hz
            by_cases hzx : z = x
            · subst hzx; simp
            · simpa [upd, hzx] using hz
          · intro j _
            by_cases hjx : j = x
            · subst hjx; simp [hox, Obj.erase]
            · simp [upd, hjx]
        | deep =>
          simp only [copyRefs] at he
          cases hcpx : cp h x with
          | mk h1 r1 =>
            obtain ⟨hsome, hres⟩ := hcp h U P PB x hb hxl hxb h1 r1 hcpx
            rw [hcpx] at he
            cases r1 with
            | none =>
              simp only [Prod.mk.injEq] at he
              obtain ⟨rfl, rfl, rfl⟩ := he
              refine ⟨by simpa [CpRes] using hres, (fun hk => by cases hk), by simp, by simp, ?_⟩
              intro hn; have := hsome hn; cases this
            | some y =>
              simp only [CpRes] at hres
              exact cont h1 y hres.1 hres.2.2 he

theorem listGet_mem {l : List (Option Nat)} {i w : Nat} (h : listGet l i = some w) : some w ∈ l := by
  unfold listGet at h
  cases hi : l[i]? with
  | none => simp [hi] at h
  | some v =>
    simp only [hi, Option.join_some] at h
    subst h
    exact List.mem_of_getElem? hi

/-- a reference slot of a live object points to a live object -/
theorem Bal.ref_live {h : Heap} {U : Nat → Nat} {P PB Z : List Nat} (hb : Bal h U P PB Z) {x r : Nat} {ox : Obj}
    (hx : h.objs x = some ox) (hz : x ∉ Z) (hr : some r ∈ ox.refs) : (h.objs r).isSome := by
  cases hv : h.objs r with
  | some _ => rfl
  | none =>
    exfalso
    have h0 := (hb.dead r (Or.inl hv)).2.2
    have := sumTo_eq_zero_iff.mp h0 x (hb.bound x (by simp [hx]))
    simp only [slotAt, hz, if_false, hx] at this
    exact absurd (List.count_pos_iff.mpr hr) (by omega)

/-- a buffer slot of a live object points to a live buffer -/
theorem Bal.buf_live {h : Heap} {U : Nat → Nat} {P PB Z : List Nat} (hb : Bal h U P PB Z) {x b : Nat} {ox : Obj}
    (hx : h.objs x = some ox) (hz : x ∉ Z) (hr : some b ∈ ox.bufs) : (h.bufs b).isSome := by
  cases hv : h.bufs b with
  | some _ => rfl
  | none =>
    exfalso
    have h0 := (hb.bufDead b hv).2
    have := sumTo_eq_zero_iff.mp h0 x (hb.bound x (by simp [hx]))
    simp only [slotAt, hz, if_false, hx] at this
    exact absurd (List.count_pos_iff.mpr hr) (by omega)

theorem views_repointed {views : List (Option Nat)} {dv : List (ViewAct × Nat)} {nb : List (Option Nat)}
    (hw : ∀ v ∈ dv, v.1 = .repoint) (w : Nat) (hm : some w ∈ repointViews views dv nb) : some w ∈ nb := by
  obtain ⟨⟨v, act, slot⟩, hmem, heq⟩ := List.mem_map.mp hm
  have hact : act = .repoint := hw (act, slot) (List.of_mem_zip hmem).2
  subst hact
  cases v with
  | none => simp [repointView] at heq
  | some _ => exact listGet_mem heq

/-! ### the failure path -/

theorem acquired_count : ∀ (nr refs : List (Option Nat)) (acts : List RefAct), (∀ a ∈ acts, a ≠ .alias) →
    nr.length ≤ refs.length → nr.length ≤ acts.length → ∀ x,
    ((nr.zip (refs.zip acts)).filterMap fun (p : Option Nat × Option Nat × RefAct) => if p.2.2 = .alias then none else p.1).count x =
      (nr.filterMap id).count x := by
  intro nr
  induction nr with
  | nil => intros; rfl
  | cons y nr ih =>
    intro refs acts hw h1 h2 x
    cases refs with
    | nil => simp at h1
    | cons r refs =>
      cases acts with
      | nil => simp at h2
      | cons a acts =>
        have ha : a ≠ .alias := hw a List.mem_cons_self
        have := ih refs acts (fun a' ha' => hw a' (List.mem_cons_of_mem _ ha')) (by simpa using h1) (by simpa using h2) x
        cases y with
        | none => simpa [List.zip_cons_cons, List.filterMap_cons, ha] using this
        | some y => simp only [List.zip_cons_cons, List.filterMap_cons, ha, if_false, id, List.count_cons, this]

theorem fresh_count : ∀ (nb bufs : List (Option Nat)), nb.length ≤ bufs.length → (∀ b, some b ∈ nb → some b ∉ bufs) → ∀ x,
    ((nb.zip bufs).filterMap fun (p : Option Nat × Option Nat) => if p.1 ≠ p.2 then p.1 else none).count x = (nb.filterMap id).count x := by
  intro nb
  induction nb with
  | nil => intros; rfl
  | cons y nb ih =>
    intro bufs h1 hf x
    cases bufs with
    | nil => simp at h1
    | cons o bufs =>
      have := ih bufs (by simpa using h1) (fun b hb hm => hf b (List.mem_cons_of_mem _ hb) (List.mem_cons_of_mem _ hm)) x
      cases y with
      | none =>
        have e : (if (none : Option Nat) ≠ o then (none : Option Nat) else none) = none := by split <;> rfl
        simpa [List.zip_cons_cons, List.filterMap_cons, e] using this
      | some y =>
        have hne : (some y : Option Nat) ≠ o := by
          intro e
          exact hf y List.mem_cons_self (by rw [e]; exact List.mem_cons_self)
        simp only [List.zip_cons_cons, List.filterMap_cons, ne_eq, hne, not_false_eq_true, if_true, id, List.count_cons, this]

/-- the failure path of a well-formed hook gives everything back -/
theorem failPath_unwind {d : CopyDesc} {h : Heap} {U : Nat → Nat} {P PB : List Nat} {o : Obj} {nr nb : List (Option Nat)}
    (hu : d.onFail = .unwind) (hw : ∀ a ∈ d.refs, a ≠ .alias)
    (hb : Bal h U (nr.filterMap id ++ P) (nb.filterMap id ++ PB) [])
    (h1 : nr.length ≤ o.refs.length) (h2 : nr.length ≤ d.refs.length) (h3 : nb.length ≤ o.bufs.length)
    (hf : ∀ b, some b ∈ nb → some b ∉ o.bufs) :
    Bal (failPath d h o nr nb) U P PB [] := by
  unfold failPath
  simp only [hu]
  apply Bal.freeBufs
  apply Bal.dropList
  · intro l hl
    -- an acquired reference is pending, hence live, hence below `nobj`
    have hc : ((nr.filterMap id) ++ P).count l ≠ 0 := by
      have := List.count_pos_iff.mpr hl
      rw [acquired_count nr o.refs d.refs hw h1 h2 l] at this
      rw [List.count_append]; omega
    have hm : l ∈ nr.filterMap id ++ P := List.count_pos_iff.mp (Nat.pos_of_ne_zero hc)
    obtain ⟨ol, hol, _⟩ := hb.mem_live hm
    exact hb.bound l (by simp [hol])
  · apply hb.perm
    · intro x; rw [List.count_append, List.count_append, acquired_count nr o.refs d.refs hw h1 h2 x]
    · intro x; rw [List.count_append, List.count_append, fresh_count nb o.bufs h3 hf x]

/-- **`sqfs_copy` through well-formed hooks keeps the heap balanced, with or without an allocation failure**:
on success the caller holds the one reference to the (fresh) copy; on failure nothing has changed hands — the
original and everything it references are exactly as before, nothing is leaked -/
theorem sqfsCopy_bal (D : Kind → CopyDesc) (hD : ∀ k, WfDesc (D k)) : ∀ n, CpSpec (sqfsCopy D n) n := by
  intro n
  induction n with
  | zero => intro h U P PB x _ _ hx; omega
  | succ n ih =>
    intro h U P PB x hb hxl hxn h' r he
    obtain ⟨o, hox⟩ := Option.isSome_iff_exists.mp hxl
    obtain ⟨hd, hc, _, _, hrefs, hviews⟩ := hb.live x o hox (by simp)
    obtain ⟨hw1, hw2, hw3, hw4, _, hw6, _⟩ := hD o.kind
    have hrl : ∀ r, some r ∈ o.refs → (h.objs r).isSome ∧ r < n :=
      fun r hr => ⟨hb.ref_live hox (by simp) hr, by have := hrefs r hr; omega⟩
    have hbl : ∀ b, some b ∈ o.bufs → (h.bufs b).isSome := fun b hbm => hb.buf_live hox (by simp) hbm
    have hbb : ∀ b, some b ∈ o.bufs → b < h.nbuf := fun b hbm => hb.bufBound b (hbl b hbm)
    rw [sqfsCopy] at he
    simp only [hb.ok, hox, hc, Bool.not_true, Bool.false_eq_true, if_false] at he
    obtain ⟨bud, hta, htb⟩ := takeAlloc_spec h
    cases hok : (takeAlloc h).2 with
    | false =>
      have e : takeAlloc h = ({ h with budget := bud }, false) := by rw [← hta, ← hok]
      simp only [e, Prod.mk.injEq] at he
      obtain ⟨rfl, rfl⟩ := he
      refine ⟨?_, hb.setBudget bud⟩
      intro hn; have := (htb hn).1; rw [hok] at this; cases this
    | true =>
      have e : takeAlloc h = ({ h with budget := bud }, true) := by rw [← hta, ← hok]
      simp only [e] at he
      have hb0 : Bal ({ h with budget := bud } : Heap) U P PB [] := hb.setBudget bud
      have hs0 : SlotsOk h ({ h with budget := bud } : Heap) :=
        ⟨Nat.le_refl _, Nat.le_refl _, fun _ h => h, fun _ h => h, fun hn => (htb hn).2, fun _ _ => rfl, fun _ _ => rfl⟩
      -- publishing the finished struct
      have fin : ∀ (h2 : Heap) (nb nr : List (Option Nat)), Bal h2 U (nr.filterMap id ++ P) (nb.filterMap id ++ PB) [] →
          SlotsOk h h2 → (∀ r, some r ∈ nr → (h2.objs r).isSome) → finishCopy (D o.kind) h2 o nb nr = (h', r) →
          (h.budget = none → r.isSome) ∧ CpRes h h' U P PB r := by
        intro h2 nb nr hb2 hs2 hnr hfin
        unfold finishCopy at hfin
        simp only [Prod.mk.injEq] at hfin
        obtain ⟨rfl, rfl⟩ := hfin
        refine ⟨fun _ => rfl, ?_, hs2.nobj, ?_⟩
        · show Bal _ U (h2.nobj :: P) PB []
          apply Bal.allocObj (c := _) hb2
          · show (match (D o.kind).header with | .init => (true, true) | .memcpy => (o.destroy, o.copy) | .zeroed => (false, false)).1 = true
            cases hh : (D o.kind).header with
            | init => rfl
            | memcpy => exact hd
            | zeroed => exact absurd hh hw1
          · show (match (D o.kind).header with | .init => (true, true) | .memcpy => (o.destroy, o.copy) | .zeroed => (false, false)).2 = true
            cases hh : (D o.kind).header with
            | init => rfl
            | memcpy => exact hc
            | zeroed => exact absurd hh hw1
          · rfl
          · intro r hr; exact hb2.bound r (hnr r hr)
          · intro v hv; exact views_repointed hw3 v hv
        · refine ⟨Nat.le_trans hs2.nobj (Nat.le_succ _), hs2.nbuf, ?_, hs2.bufLive, hs2.budget, hs2.bufsOld, ?_⟩
          · intro z hz
            have := hs2.objLive z hz
            by_cases hzn : z = h2.nobj
            · subst hzn; simp
            · simpa [upd, hzn] using this
          · intro j hj
            have hne : j ≠ h2.nobj := by have := hs2.nobj; omega
            rw [← hs2.objsOld j hj]
            simp [upd, hne]
      -- a failure after the struct was allocated: the failure path restores the balance
      have failed : ∀ (h2 : Heap) (nb nr : List (Option Nat)), Bal h2 U (nr.filterMap id ++ P) (nb.filterMap id ++ PB) [] →
          nr.length ≤ o.refs.length → nr.length ≤ (D o.kind).refs.length → nb.length ≤ o.bufs.length →
          (∀ b, some b ∈ nb → h.nbuf ≤ b) → h.budget ≠ none →
          (failPath (D o.kind) h2 o nr nb, (none : Option Nat)) = (h', r) →
          (h.budget = none → r.isSome) ∧ CpRes h h' U P PB r := by
        intro h2 nb nr hb2 l1 l2 l3 hfresh hbn hfp
        simp only [Prod.mk.injEq] at hfp
        obtain ⟨rfl, rfl⟩ := hfp
        refine ⟨fun hn => absurd hn hbn, ?_⟩
        exact failPath_unwind hw6 hw4 hb2 l1 l2 l3 (fun b hbm hmo => by
          have := hfresh b hbm
          have := hbb b hmo
          omega)
      by_cases hrf : (D o.kind).refsFirst = true
      · simp only [hrf, if_true] at he
        rcases hr1 : copyRefs (sqfsCopy D n) ({ h with budget := bud } : Heap) o.refs (D o.kind).refs with ⟨h1, nr, ok1⟩
        obtain ⟨hb1, hs1, l1, l2, hok1⟩ := copyRefs_bal (sqfsCopy D n) n ih o.refs (D o.kind).refs hb0 hw4 hrl _ _ _ hr1
        rw [hr1] at he
        cases ok1 with
        | false =>
          simp only at he
          exact failed h1 [] nr (by simpa using hb1) l1 l2 (by simp) (by simp)
            (fun hn => by have := hok1 ((htb hn).2); cases this) he
        | true =>
          simp only at he
          obtain ⟨hs1, hl1⟩ := hs1 rfl
          rcases hr2 : copyBufs h1 o.bufs (D o.kind).bufs with ⟨h2, nb, ok2⟩
          obtain ⟨hb2, hs2, ho2, hn2, hf2, l3, hok2⟩ := copyBufs_bal o.bufs (D o.kind).bufs hb1 hw2 (fun b hbm => hs1.bufLive b (hbl b hbm)) _ _ _ hr2
          rw [hr2] at he
          cases ok2 with
          | false =>
            simp only at he
            exact failed h2 nb nr hb2 l1 l2 l3 (fun b hbm => Nat.le_trans hs1.nbuf (hf2 b hbm))
              (fun hn => by have := hok2 (hs1.budget ((htb hn).2)); cases this) he
          | true =>
            simp only at he
            exact fin h2 nb nr hb2 (hs0.trans (hs1.trans hs2)) (fun r hr => by rw [ho2]; exact hl1 r hr) he
      · simp only [hrf, if_false] at he
        rcases hr1 : copyBufs ({ h with budget := bud } : Heap) o.bufs (D o.kind).bufs with ⟨h1, nb, ok1⟩
        obtain ⟨hb1, hs1, ho1, hn1, hf1, l3, hok1⟩ := copyBufs_bal o.bufs (D o.kind).bufs hb0 hw2 hbl _ _ _ hr1
        rw [hr1] at he
        cases ok1 with
        | false =>
          simp only at he
          exact failed h1 nb [] (by simpa using hb1) (by simp) (by simp) l3 hf1
            (fun hn => by have := hok1 ((htb hn).2); cases this) he
        | true =>
          simp only at he
          rcases hr2 : copyRefs (sqfsCopy D n) h1 o.refs (D o.kind).refs with ⟨h2, nr, ok2⟩
          obtain ⟨hb2, hs2, l1, l2, hok2⟩ := copyRefs_bal (sqfsCopy D n) n ih o.refs (D o.kind).refs hb1 hw4
            (fun r hr => ⟨by rw [ho1]; exact (hrl r hr).1, (hrl r hr).2⟩) _ _ _ hr2
          rw [hr2] at he
          cases ok2 with
          | false =>
            simp only at he
            exact failed h2 nb nr hb2 l1 l2 l3 hf1
              (fun hn => by have := hok2 (hs1.budget ((htb hn).2)); cases this) he
          | true =>
            simp only at he
            obtain ⟨hs2, hl2⟩ := hs2 rfl
            exact fin h2 nb nr hb2 (hs0.trans (hs1.trans hs2)) hl2 he

/-! ### independence: a buffer has one owner -/

theorem Bal.bufs_disjoint {h : Heap} {U : Nat → Nat} {P PB Z : List Nat} (hb : Bal h U P PB Z) {x y b : Nat} {ox oy : Obj}
    (hx : h.objs x = some ox) (hy : h.objs y = some oy) (hxz : x ∉ Z) (hyz : y ∉ Z) (hne : x ≠ y)
    (hbx : some b ∈ ox.bufs) : some b ∉ oy.bufs := by
  intro hby
  have hlive := hb.buf_live hx hxz hbx
  have h1 := hb.bufLive b hlive
  have hxb := hb.bound x (by simp [hx])
  have hyb := hb.bound y (by simp [hy])
  have e1 : bufCount h Z b = sumTo h.nobj (fun j => if j = x then 0 else slotAt (·.bufs) h Z b j) + slotAt (·.bufs) h Z b x :=
    sumTo_split _ hxb
  have e2 := sumTo_split (fun j => if j = x then 0 else slotAt (·.bufs) h Z b j) hyb
  have c1 : slotAt (·.bufs) h Z b x = ox.bufs.count (some b) := by simp [slotAt, hxz, hx]
  have c2 : (if y = x then 0 else slotAt (·.bufs) h Z b y) = oy.bufs.count (some b) := by
    simp [slotAt, hyz, hy, Ne.symm hne]
  have p1 := List.count_pos_iff.mpr hbx
  have p2 := List.count_pos_iff.mpr hby
  rw [c2] at e2
  rw [c1] at e1
  omega

/-- overwriting the contents of a live buffer does not touch the bookkeeping -/
theorem Bal.setBuf {h : Heap} {U : Nat → Nat} {P PB Z : List Nat} (hb : Bal h U P PB Z) {b : Nat} (bf : Buf)
    (hl : (h.bufs b).isSome) : Bal { h with bufs := upd h.bufs b (some bf) } U P PB Z := by
  have hiff : ∀ b', (({ h with bufs := upd h.bufs b (some bf) } : Heap).bufs b').isSome = (h.bufs b').isSome := by
    intro b'
    by_cases hne : b' = b
    · subst hne; simp [hl]
    · simp [upd, hne]
  refine ⟨hb.ok, hb.live, hb.bound, hb.dead, ?_, ?_, ?_⟩
  · intro b' hv; rw [hiff] at hv; exact hb.bufLive b' hv
  · intro b' hv
    have : h.bufs b' = none := by
      have := hiff b'
      rw [hv] at this
      cases h2 : h.bufs b' with
      | none => rfl
      | some _ => rw [h2] at this; cases this
    exact hb.bufDead b' this
  · intro b' hv; rw [hiff] at hv; exact hb.bufBound b' hv

/-- the buffer an operation on `x` reaches through slot / internal pointer `s` belongs to `x` -/
theorem slot_owned {ox : Obj} (hviews : ∀ v, some v ∈ ox.views → some v ∈ ox.bufs) {s b : Nat}
    (hs : listGet (ox.bufs ++ ox.views) s = some b) : some b ∈ ox.bufs := by
  have := listGet_mem hs
  rcases List.mem_append.mp this with h | h
  · exact h
  · exact hviews b h

/-- an operation storing through a slot of a live object keeps the heap balanced (and cannot crash) -/
theorem Bal.writeSlot {h : Heap} {U : Nat → Nat} {P PB Z : List Nat} (hb : Bal h U P PB Z) {x : Nat} {ox : Obj}
    (hx : h.objs x = some ox) (hz : x ∉ Z) (s v : Nat) : Bal (Sqfs.Obj.writeSlot h x s v) U P PB Z := by
  unfold Sqfs.Obj.writeSlot
  simp only [hb.ok, hx]
  cases hs : listGet (ox.bufs ++ ox.views) s with
  | none => exact hb
  | some b =>
    have hown := slot_owned (hb.live x ox hx hz).2.2.2.2.2 hs
    have hl := hb.buf_live hx hz hown
    obtain ⟨bf, hbf⟩ := Option.isSome_iff_exists.mp hl
    simp only [hbf]
    have := hb.setBuf (b := b) { bf with val := v } hl
    rw [hb.ok] at this
    exact this

/-- **independence**: a store through any slot or internal pointer of one live object is invisible to every other
live object of a balanced heap -/
theorem Bal.view_writeSlot_other {h : Heap} {U : Nat → Nat} {P PB Z : List Nat} (hb : Bal h U P PB Z) {x y : Nat} {ox oy : Obj}
    (hx : h.objs x = some ox) (hy : h.objs y = some oy) (hxz : x ∉ Z) (hyz : y ∉ Z) (hne : x ≠ y) (s v : Nat) :
    view (Sqfs.Obj.writeSlot h x s v) y = view h y := by
  unfold Sqfs.Obj.writeSlot
  simp only [hb.ok, hx]
  cases hs : listGet (ox.bufs ++ ox.views) s with
  | none => rfl
  | some b =>
    have hown := slot_owned (hb.live x ox hx hxz).2.2.2.2.2 hs
    have hl := hb.buf_live hx hxz hown
    obtain ⟨bf, hbf⟩ := Option.isSome_iff_exists.mp hl
    simp only [hbf]
    have hnot : some b ∉ oy.bufs := hb.bufs_disjoint hx hy hxz hyz hne hown
    unfold view
    simp only [hy, Option.map_some, Option.some.injEq]
    apply List.map_congr_left
    intro sl hsl
    cases sl with
    | none => rfl
    | some b' =>
      have hb' : some b' ∈ oy.bufs := by
        rcases List.mem_append.mp hsl with h1 | h1
        · exact h1
        · exact (hb.live y oy hy hyz).2.2.2.2.2 b' h1
      have : b' ≠ b := by rintro rfl; exact hnot hb'
      simp [slotVal, upd, this]

theorem writeSlot_objs (h : Heap) (x s v : Nat) : (Sqfs.Obj.writeSlot h x s v).objs = h.objs := by
  unfold Sqfs.Obj.writeSlot Heap.fail
  repeat' split
  all_goals rfl

/-- `Balanced h U`: nothing is in flight — the only references are the user's (`U`) and those in object slots -/
abbrev Balanced (h : Heap) (U : Nat → Nat) : Prop := Bal h U [] [] []

/-- a sequence of stores through slots / internal pointers of object `x` -/
def writes (h : Heap) (x : Nat) (ws : List (Nat × Nat)) : Heap := ws.foldl (fun h w => Sqfs.Obj.writeSlot h x w.1 w.2) h

theorem writes_independent : ∀ (ws : List (Nat × Nat)) {h : Heap} {U : Nat → Nat} {x y : Nat} {ox oy : Obj},
    Balanced h U → h.objs x = some ox → h.objs y = some oy → x ≠ y →
    Balanced (writes h x ws) U ∧ view (writes h x ws) y = view h y ∧ (writes h x ws).objs = h.objs := by
  intro ws
  induction ws with
  | nil => intro h U x y ox oy hb _ _ _; exact ⟨hb, rfl, rfl⟩
  | cons w t ih =>
    intro h U x y ox oy hb hx hy hne
    have hb1 := hb.writeSlot hx (by simp) w.1 w.2
    have ho := writeSlot_objs h x w.1 w.2
    have hv := hb.view_writeSlot_other hx hy (by simp) (by simp) hne w.1 w.2
    obtain ⟨h1, h2, h3⟩ := ih (x := x) (y := y) hb1 (by rw [ho]; exact hx) (by rw [ho]; exact hy) hne
    refine ⟨h1, ?_, ?_⟩
    · show view (writes (Sqfs.Obj.writeSlot h x w.1 w.2) x t) y = _
      rw [h2, hv]
    · show (writes (Sqfs.Obj.writeSlot h x w.1 w.2) x t).objs = _
      rw [h3, ho]

end Sqfs.Obj
