import Sqfs.Proofs.ObjBal
/-! `sqfs_copy` through well-formed hook descriptions preserves balance (`Sqfs.Proofs.ObjBal`). -/
namespace Sqfs.Obj

theorem takeAlloc_none {h : Heap} (hb : h.budget = none) : takeAlloc h = (h, true) := by
  simp [takeAlloc, hb]

theorem allocBuf_none {h : Heap} (hb : h.budget = none) (bf : Buf) :
    allocBuf h bf = ({ h with bufs := upd h.bufs h.nbuf (some bf), nbuf := h.nbuf + 1 }, some h.nbuf) := by
  simp [allocBuf, takeAlloc_none hb]

/-- what the slot-copying loops guarantee -/
structure SlotsOk (h h' : Heap) (ns : List (Option Nat)) : Prop where
  budget : h'.budget = none
  nobj : h.nobj ≤ h'.nobj
  nbuf : h.nbuf ≤ h'.nbuf
  objLive : ∀ x, (h.objs x).isSome → (h'.objs x).isSome
  bufLive : ∀ b, (h.bufs b).isSome → (h'.bufs b).isSome

theorem SlotsOk.cons {h h' : Heap} {ns : List (Option Nat)} (s : Option Nat) (hs : SlotsOk h h' ns) : SlotsOk h h' (s :: ns) :=
  ⟨hs.budget, hs.nobj, hs.nbuf, hs.objLive, hs.bufLive⟩

theorem SlotsOk.cons' {h h' : Heap} {ns : List (Option Nat)} (hs : SlotsOk h h' ns) : SlotsOk h h' [] :=
  ⟨hs.budget, hs.nobj, hs.nbuf, hs.objLive, hs.bufLive⟩

theorem SlotsOk.trans {h h1 h' : Heap} {ns ns' : List (Option Nat)} (h1s : SlotsOk h h1 ns') (hs : SlotsOk h1 h' ns) : SlotsOk h h' ns :=
  ⟨hs.budget, Nat.le_trans h1s.nobj hs.nobj, Nat.le_trans h1s.nbuf hs.nbuf,
   fun x hx => hs.objLive x (h1s.objLive x hx), fun b hb => hs.bufLive b (h1s.bufLive b hb)⟩

/-- duplicating the buffer slots: all fresh buffers are held by the hook afterwards -/
theorem copyBufs_bal : ∀ (bs : List (Option Nat)) (as : List BufAct) {h : Heap} {U : Nat → Nat} {P PB : List Nat},
    Bal h U P PB [] → h.budget = none → (∀ a ∈ as, a ≠ .alias) → (∀ b, some b ∈ bs → (h.bufs b).isSome) →
    ∃ h' nb, copyBufs h bs as = (h', nb, true) ∧ Bal h' U P (nb.filterMap id ++ PB) [] ∧ SlotsOk h h' nb ∧
      h'.objs = h.objs ∧ h'.nobj = h.nobj ∧ (∀ b, some b ∈ nb → h.nbuf ≤ b) := by
  intro bs
  induction bs with
  | nil => intro as h U P PB hb hbud _ _
           exact ⟨h, [], by simp [copyBufs], by simpa using hb, ⟨hbud, Nat.le_refl _, Nat.le_refl _, fun _ h => h, fun _ h => h⟩, rfl, rfl, by simp⟩
  | cons x bs ih =>
    intro as h U P PB hb hbud hw hlive
    cases as with
    | nil => exact ⟨h, [], by simp [copyBufs], by simpa using hb, ⟨hbud, Nat.le_refl _, Nat.le_refl _, fun _ h => h, fun _ h => h⟩, rfl, rfl, by simp⟩
    | cons a as =>
      have hw' : ∀ a' ∈ as, a' ≠ .alias := fun a' ha' => hw a' (List.mem_cons_of_mem _ ha')
      have hlive' : ∀ b, some b ∈ bs → (h.bufs b).isSome := fun b hbm => hlive b (List.mem_cons_of_mem _ hbm)
      -- a slot that stays NULL
      have skip : ∃ h' nb, consSlot none (copyBufs h bs as) = (h', nb, true) ∧ Bal h' U P (nb.filterMap id ++ PB) [] ∧ SlotsOk h h' nb ∧
          h'.objs = h.objs ∧ h'.nobj = h.nobj ∧ (∀ b, some b ∈ nb → h.nbuf ≤ b) := by
        obtain ⟨h', nb, he, hb', hs, ho, hn, hf⟩ := ih as hb hbud hw' hlive'
        refine ⟨h', none :: nb, by simp [consSlot, he], by simpa using hb', hs.cons none, ho, hn, ?_⟩
        intro b hbm
        simp only [List.mem_cons, reduceCtorEq, false_or] at hbm
        exact hf b hbm
      cases x with
      | none => simpa [copyBufs] using skip
      | some b =>
        have ha : a ≠ .alias := hw a List.mem_cons_self
        have hbl := hlive b List.mem_cons_self
        obtain ⟨bf, hbf⟩ := Option.isSome_iff_exists.mp hbl
        simp only [copyBufs, ha, if_false, hbf]
        by_cases hu : a = .trim ∧ bf.used = 0
        · simpa [hu] using skip
        · simp only [hu, if_false]
          rw [allocBuf_none hbud]
          simp only
          generalize (if a = BufAct.trim then ({ cap := bf.used, used := bf.used, val := bf.val } : Buf) else bf) = nbf
          have hb1 := hb.allocBuf nbf
          have hold : ∀ b', (h.bufs b').isSome → (({ h with bufs := upd h.bufs h.nbuf (some nbf), nbuf := h.nbuf + 1 } : Heap).bufs b').isSome := by
            intro b' hb'
            by_cases hne : b' = h.nbuf
            · subst hne; simp
            · simp [upd, hne, hb']
          obtain ⟨h', nb, he, hb', hs, ho, hn, hf⟩ := ih as hb1 hbud hw' (fun b' hbm => hold b' (hlive' b' hbm))
          refine ⟨h', some h.nbuf :: nb, by simp [consSlot, he], ?_, ?_, ho, hn, ?_⟩
          · apply hb'.perm (fun _ => rfl)
            intro b'
            simp only [List.filterMap_cons, id, List.count_append, List.count_cons]
            omega
          · exact ⟨hs.budget, hs.nobj, Nat.le_trans (Nat.le_succ _) hs.nbuf, hs.objLive, fun b' hb'' => hs.bufLive b' (hold b' hb'')⟩
          · intro b' hbm
            simp only [List.mem_cons, Option.some.injEq] at hbm
            rcases hbm with hbm | hbm
            · omega
            · have h2 : h.nbuf + 1 ≤ b' := hf b' hbm
              omega

theorem grab_eq {h : Heap} {x : Nat} {ox : Obj} (hc : h.crash = none) (hx : h.objs x = some ox) :
    grab h x = { h with objs := upd h.objs x (some { ox with rc := ox.rc + 1 }) } := by
  simp [grab, hc, hx]

/-- specification of `sqfs_copy` one level down, as used by the reference-slot loop -/
def CpSpec (cp : Heap → Nat → Heap × Option Nat) (bound : Nat) : Prop :=
  ∀ (h : Heap) (U : Nat → Nat) (P PB : List Nat) (x : Nat), Bal h U P PB [] → h.budget = none → (h.objs x).isSome → x < bound →
    ∃ h' y, cp h x = (h', some y) ∧ Bal h' U (y :: P) PB [] ∧ SlotsOk h h' [] ∧ h.nobj ≤ y

theorem copyRefs_bal (cp : Heap → Nat → Heap × Option Nat) (bound : Nat) (hcp : CpSpec cp bound) :
    ∀ (rs : List (Option Nat)) (as : List RefAct) {h : Heap} {U : Nat → Nat} {P PB : List Nat},
    Bal h U P PB [] → h.budget = none → (∀ a ∈ as, a ≠ .alias) → (∀ r, some r ∈ rs → (h.objs r).isSome ∧ r < bound) →
    ∃ h' nr, copyRefs cp h rs as = (h', nr, true) ∧ Bal h' U (nr.filterMap id ++ P) PB [] ∧ SlotsOk h h' nr ∧
      (∀ r, some r ∈ nr → (h'.objs r).isSome) := by
  intro rs
  induction rs with
  | nil => intro as h U P PB hb hbud _ _
           exact ⟨h, [], by simp [copyRefs], by simpa using hb, ⟨hbud, Nat.le_refl _, Nat.le_refl _, fun _ h => h, fun _ h => h⟩, by simp⟩
  | cons x rs ih =>
    intro as h U P PB hb hbud hw hlive
    cases as with
    | nil => exact ⟨h, [], by simp [copyRefs], by simpa using hb, ⟨hbud, Nat.le_refl _, Nat.le_refl _, fun _ h => h, fun _ h => h⟩, by simp⟩
    | cons a as =>
      have hw' : ∀ a' ∈ as, a' ≠ .alias := fun a' ha' => hw a' (List.mem_cons_of_mem _ ha')
      have hlive' : ∀ r, some r ∈ rs → (h.objs r).isSome ∧ r < bound := fun r hm => hlive r (List.mem_cons_of_mem _ hm)
      cases x with
      | none =>
        obtain ⟨h', nr, he, hb', hs, hl⟩ := ih as hb hbud hw' hlive'
        refine ⟨h', none :: nr, by simp [copyRefs, consSlot, he], by simpa using hb', hs.cons none, ?_⟩
        intro r hm
        simp only [List.mem_cons, reduceCtorEq, false_or] at hm
        exact hl r hm
      | some x =>
        have ha : a ≠ .alias := hw a List.mem_cons_self
        obtain ⟨hxl, hxb⟩ := hlive x List.mem_cons_self
        obtain ⟨ox, hox⟩ := Option.isSome_iff_exists.mp hxl
        -- common continuation: the slot now holds `y`, held (pending) by the hook
        have cont : ∀ (h1 : Heap) (y : Nat), Bal h1 U (y :: P) PB [] → SlotsOk h h1 [] →
            ∃ h' nr, consSlot (some y) (copyRefs cp h1 rs as) = (h', nr, true) ∧ Bal h' U (nr.filterMap id ++ P) PB [] ∧ SlotsOk h h' nr ∧
              (∀ r, some r ∈ nr → (h'.objs r).isSome) := by
          intro h1 y hb1 hs1
          obtain ⟨h', nr, he, hb', hs, hl⟩ := ih as hb1 hs1.budget hw' (fun r hm => ⟨hs1.objLive r (hlive' r hm).1, (hlive' r hm).2⟩)
          refine ⟨h', some y :: nr, by simp [consSlot, he], ?_, (hs1.trans hs).cons _, ?_⟩
          · apply hb'.perm _ (fun _ => rfl)
            intro z
            simp only [List.filterMap_cons, id, List.count_append, List.count_cons]
            omega
          · intro r hm
            simp only [List.mem_cons, Option.some.injEq] at hm
            rcases hm with hm | hm
            · subst hm
              obtain ⟨oy, hy, _⟩ := hb1.mem_live List.mem_cons_self
              exact hs.objLive r (by simp [hy])
            · exact hl r hm
        cases a with
        | alias => exact absurd rfl ha
        | grab =>
          simp only [copyRefs]
          apply cont (grab h x) x (hb.grabbed hox (by simp))
          rw [grab_eq hb.ok hox]
          refine ⟨hbud, Nat.le_refl _, Nat.le_refl _, ?_, fun _ h => h⟩
          intro z hz
          by_cases hzx : z = x
          · subst hzx; simp
          · simpa [upd, hzx] using hz
        | deep =>
          simp only [copyRefs]
          obtain ⟨h1, y, he1, hb1, hs1, _⟩ := hcp h U P PB x hb hbud hxl hxb
          rw [he1]
          exact cont h1 y hb1 hs1

theorem listGet_mem {l : List (Option Nat)} {i w : Nat} (h : listGet l i = some w) : some w ∈ l := by
  unfold listGet at h
  cases hi : l[i]? with
  | none => simp [hi] at h
  | some v =>
    simp only [hi, Option.join_some] at h
    subst h
    exact List.mem_of_getElem? hi

/-- a reference slot of a live object points to a live object -/
theorem Bal.ref_live {h : Heap} {U : Nat → Nat} {P PB Z : List Nat} (hb : Bal h U P PB Z) {x r : Nat} {ox : Obj}
    (hx : h.objs x = some ox) (hz : x ∉ Z) (hr : some r ∈ ox.refs) : (h.objs r).isSome := by
  cases hv : h.objs r with
  | some _ => rfl
  | none =>
    exfalso
    have h0 := (hb.dead r (Or.inl hv)).2.2
    have := sumTo_eq_zero_iff.mp h0 x (hb.bound x (by simp [hx]))
    simp only [slotAt, hz, if_false, hx] at this
    exact absurd (List.count_pos_iff.mpr hr) (by omega)

/-- a buffer slot of a live object points to a live buffer -/
theorem Bal.buf_live {h : Heap} {U : Nat → Nat} {P PB Z : List Nat} (hb : Bal h U P PB Z) {x b : Nat} {ox : Obj}
    (hx : h.objs x = some ox) (hz : x ∉ Z) (hr : some b ∈ ox.bufs) : (h.bufs b).isSome := by
  cases hv : h.bufs b with
  | some _ => rfl
  | none =>
    exfalso
    have h0 := (hb.bufDead b hv).2
    have := sumTo_eq_zero_iff.mp h0 x (hb.bound x (by simp [hx]))
    simp only [slotAt, hz, if_false, hx] at this
    exact absurd (List.count_pos_iff.mpr hr) (by omega)

theorem views_repointed {views : List (Option Nat)} {dv : List (ViewAct × Nat)} {nb : List (Option Nat)}
    (hw : ∀ v ∈ dv, v.1 = .repoint) (w : Nat)
    (hm : some w ∈ (views.zip dv).map fun (v, (act, slot)) =>
      match act with
      | .stale => v
      | .repoint => match v with | none => none | some _ => listGet nb slot) : some w ∈ nb := by
  obtain ⟨⟨v, act, slot⟩, hmem, heq⟩ := List.mem_map.mp hm
  have hact : act = .repoint := hw (act, slot) (List.of_mem_zip hmem).2
  subst hact
  cases v with
  | none => simp at heq
  | some _ => exact listGet_mem heq

/-- **`sqfs_copy` through well-formed hooks keeps the heap balanced**; the caller holds the one reference to the copy -/
theorem sqfsCopy_bal (D : Kind → CopyDesc) (hD : ∀ k, WfDesc (D k)) : ∀ n, CpSpec (sqfsCopy D n) n := by
  intro n
  induction n with
  | zero => intro h U P PB x _ _ _ hx; omega
  | succ n ih =>
    intro h U P PB x hb hbud hxl hxn
    obtain ⟨o, hox⟩ := Option.isSome_iff_exists.mp hxl
    obtain ⟨hd, hc, _, _, hrefs, hviews⟩ := hb.live x o hox (by simp)
    obtain ⟨hw1, hw2, hw3, hw4, _, _⟩ := hD o.kind
    have hrl : ∀ r, some r ∈ o.refs → (h.objs r).isSome ∧ r < n :=
      fun r hr => ⟨hb.ref_live hox (by simp) hr, by have := hrefs r hr; omega⟩
    have hbl : ∀ b, some b ∈ o.bufs → (h.bufs b).isSome := fun b hbm => hb.buf_live hox (by simp) hbm
    -- publishing the finished struct
    have fin : ∀ (h2 : Heap) (nb nr : List (Option Nat)), Bal h2 U (nr.filterMap id ++ P) (nb.filterMap id ++ PB) [] →
        SlotsOk h h2 [] → (∀ r, some r ∈ nr → (h2.objs r).isSome) →
        ∃ h' y, finishCopy (D o.kind) h2 o nb nr = (h', some y) ∧ Bal h' U (y :: P) PB [] ∧ SlotsOk h h' [] ∧ h.nobj ≤ y := by
      intro h2 nb nr hb2 hs2 hnr
      refine ⟨_, h2.nobj, rfl, ?_, ?_, hs2.nobj⟩
      · apply Bal.allocObj (c := _) hb2
        · show (match (D o.kind).header with | .init => (true, true) | .memcpy => (o.destroy, o.copy) | .zeroed => (false, false)).1 = true
          cases hh : (D o.kind).header with
          | init => rfl
          | memcpy => exact hd
          | zeroed => exact absurd hh hw1
        · show (match (D o.kind).header with | .init => (true, true) | .memcpy => (o.destroy, o.copy) | .zeroed => (false, false)).2 = true
          cases hh : (D o.kind).header with
          | init => rfl
          | memcpy => exact hc
          | zeroed => exact absurd hh hw1
        · rfl
        · intro r hr; exact hb2.bound r (hnr r hr)
        · intro v hv; exact views_repointed hw3 v hv
      · refine ⟨hs2.budget, Nat.le_trans hs2.nobj (Nat.le_succ _), hs2.nbuf, ?_, hs2.bufLive⟩
        intro z hz
        have := hs2.objLive z hz
        by_cases hzn : z = h2.nobj
        · subst hzn; simp
        · simpa [upd, hzn] using this
    rw [sqfsCopy]
    simp only [hb.ok, hox, hc, Bool.not_true, Bool.false_eq_true, if_false, takeAlloc_none hbud]
    by_cases hrf : (D o.kind).refsFirst = true
    · simp only [hrf, if_true]
      obtain ⟨h1, nr, he1, hb1, hs1, hl1⟩ := copyRefs_bal (sqfsCopy D n) n ih o.refs (D o.kind).refs hb hbud hw4 hrl
      simp only [he1]
      obtain ⟨h2, nb, he2, hb2, hs2, ho2, hn2, _⟩ := copyBufs_bal o.bufs (D o.kind).bufs hb1 hs1.budget hw2 (fun b hbm => hs1.bufLive b (hbl b hbm))
      simp only [he2]
      exact fin h2 nb nr hb2 ((hs1.trans hs2 : SlotsOk h h2 nb).cons' ) (fun r hr => by rw [ho2]; exact hl1 r hr)
    · simp only [hrf, if_false]
      obtain ⟨h1, nb, he1, hb1, hs1, ho1, hn1, _⟩ := copyBufs_bal o.bufs (D o.kind).bufs hb hbud hw2 hbl
      simp only [he1]
      obtain ⟨h2, nr, he2, hb2, hs2, hl2⟩ := copyRefs_bal (sqfsCopy D n) n ih o.refs (D o.kind).refs hb1 hs1.budget hw4
        (fun r hr => ⟨by rw [ho1]; exact (hrl r hr).1, (hrl r hr).2⟩)
      simp only [he2]
      exact fin h2 nb nr hb2 ((hs1.trans hs2 : SlotsOk h h2 nr).cons') hl2

/-! ### independence: a buffer has one owner -/

theorem Bal.bufs_disjoint {h : Heap} {U : Nat → Nat} {P PB Z : List Nat} (hb : Bal h U P PB Z) {x y b : Nat} {ox oy : Obj}
    (hx : h.objs x = some ox) (hy : h.objs y = some oy) (hxz : x ∉ Z) (hyz : y ∉ Z) (hne : x ≠ y)
    (hbx : some b ∈ ox.bufs) : some b ∉ oy.bufs := by
  intro hby
  have hlive := hb.buf_live hx hxz hbx
  have h1 := hb.bufLive b hlive
  have hxb := hb.bound x (by simp [hx])
  have hyb := hb.bound y (by simp [hy])
  have e1 : bufCount h Z b = sumTo h.nobj (fun j => if j = x then 0 else slotAt (·.bufs) h Z b j) + slotAt (·.bufs) h Z b x :=
    sumTo_split _ hxb
  have e2 := sumTo_split (fun j => if j = x then 0 else slotAt (·.bufs) h Z b j) hyb
  have c1 : slotAt (·.bufs) h Z b x = ox.bufs.count (some b) := by simp [slotAt, hxz, hx]
  have c2 : (if y = x then 0 else slotAt (·.bufs) h Z b y) = oy.bufs.count (some b) := by
    simp [slotAt, hyz, hy, Ne.symm hne]
  have p1 := List.count_pos_iff.mpr hbx
  have p2 := List.count_pos_iff.mpr hby
  rw [c2] at e2
  rw [c1] at e1
  omega

/-- overwriting the contents of a live buffer does not touch the bookkeeping -/
theorem Bal.setBuf {h : Heap} {U : Nat → Nat} {P PB Z : List Nat} (hb : Bal h U P PB Z) {b : Nat} (bf : Buf)
    (hl : (h.bufs b).isSome) : Bal { h with bufs := upd h.bufs b (some bf) } U P PB Z := by
  have hiff : ∀ b', (({ h with bufs := upd h.bufs b (some bf) } : Heap).bufs b').isSome = (h.bufs b').isSome := by
    intro b'
    by_cases hne : b' = b
    · subst hne; simp [hl]
    · simp [upd, hne]
  refine ⟨hb.ok, hb.live, hb.bound, hb.dead, ?_, ?_, ?_⟩
  · intro b' hv; rw [hiff] at hv; exact hb.bufLive b' hv
  · intro b' hv
    have : h.bufs b' = none := by
      have := hiff b'
      rw [hv] at this
      cases h2 : h.bufs b' with
      | none => rfl
      | some _ => rw [h2] at this; cases this
    exact hb.bufDead b' this
  · intro b' hv; rw [hiff] at hv; exact hb.bufBound b' hv

/-- the buffer an operation on `x` reaches through slot / internal pointer `s` belongs to `x` -/
theorem slot_owned {ox : Obj} (hviews : ∀ v, some v ∈ ox.views → some v ∈ ox.bufs) {s b : Nat}
    (hs : listGet (ox.bufs ++ ox.views) s = some b) : some b ∈ ox.bufs := by
  have := listGet_mem hs
  rcases List.mem_append.mp this with h | h
  · exact h
  · exact hviews b h

/-- an operation storing through a slot of a live object keeps the heap balanced (and cannot crash) -/
theorem Bal.writeSlot {h : Heap} {U : Nat → Nat} {P PB Z : List Nat} (hb : Bal h U P PB Z) {x : Nat} {ox : Obj}
    (hx : h.objs x = some ox) (hz : x ∉ Z) (s v : Nat) : Bal (Sqfs.Obj.writeSlot h x s v) U P PB Z := by
  unfold Sqfs.Obj.writeSlot
  simp only [hb.ok, hx]
  cases hs : listGet (ox.bufs ++ ox.views) s with
  | none => exact hb
  | some b =>
    have hown := slot_owned (hb.live x ox hx hz).2.2.2.2.2 hs
    have hl := hb.buf_live hx hz hown
    obtain ⟨bf, hbf⟩ := Option.isSome_iff_exists.mp hl
    simp only [hbf]
    have := hb.setBuf (b := b) { bf with val := v } hl
    rw [hb.ok] at this
    exact this

/-- **independence**: a store through any slot or internal pointer of one live object is invisible to every other
live object of a balanced heap -/
theorem Bal.view_writeSlot_other {h : Heap} {U : Nat → Nat} {P PB Z : List Nat} (hb : Bal h U P PB Z) {x y : Nat} {ox oy : Obj}
    (hx : h.objs x = some ox) (hy : h.objs y = some oy) (hxz : x ∉ Z) (hyz : y ∉ Z) (hne : x ≠ y) (s v : Nat) :
    view (Sqfs.Obj.writeSlot h x s v) y = view h y := by
  unfold Sqfs.Obj.writeSlot
  simp only [hb.ok, hx]
  cases hs : listGet (ox.bufs ++ ox.views) s with
  | none => rfl
  | some b =>
    have hown := slot_owned (hb.live x ox hx hxz).2.2.2.2.2 hs
    have hl := hb.buf_live hx hxz hown
    obtain ⟨bf, hbf⟩ := Option.isSome_iff_exists.mp hl
    simp only [hbf]
    have hnot : some b ∉ oy.bufs := hb.bufs_disjoint hx hy hxz hyz hne hown
    unfold view
    simp only [hy]
    congr 1
    apply List.map_congr_left
    intro sl hsl
    cases sl with
    | none => rfl
    | some b' =>
      have hb' : some b' ∈ oy.bufs := by
        rcases List.mem_append.mp hsl with h1 | h1
        · exact h1
        · exact (hb.live y oy hy hyz).2.2.2.2.2 b' h1
      have : b' ≠ b := by rintro rfl; exact hnot hb'
      simp [upd, this]

theorem writeSlot_objs (h : Heap) (x s v : Nat) : (Sqfs.Obj.writeSlot h x s v).objs = h.objs := by
  unfold Sqfs.Obj.writeSlot Heap.fail
  repeat' split
  all_goals rfl

/-- `Balanced h U`: nothing is in flight — the only references are the user's (`U`) and those in object slots -/
abbrev Balanced (h : Heap) (U : Nat → Nat) : Prop := Bal h U [] [] []

/-- a sequence of stores through slots / internal pointers of object `x` -/
def writes (h : Heap) (x : Nat) (ws : List (Nat × Nat)) : Heap := ws.foldl (fun h w => Sqfs.Obj.writeSlot h x w.1 w.2) h

theorem writes_independent : ∀ (ws : List (Nat × Nat)) {h : Heap} {U : Nat → Nat} {x y : Nat} {ox oy : Obj},
    Balanced h U → h.objs x = some ox → h.objs y = some oy → x ≠ y →
    Balanced (writes h x ws) U ∧ view (writes h x ws) y = view h y ∧ (writes h x ws).objs = h.objs := by
  intro ws
  induction ws with
  | nil => intro h U x y ox oy hb _ _ _; exact ⟨hb, rfl, rfl⟩
  | cons w t ih =>
    intro h U x y ox oy hb hx hy hne
    have hb1 := hb.writeSlot hx (by simp) w.1 w.2
    have ho := writeSlot_objs h x w.1 w.2
    have hv := hb.view_writeSlot_other hx hy (by simp) (by simp) hne w.1 w.2
    obtain ⟨h1, h2, h3⟩ := ih (x := x) (y := y) hb1 (by rw [ho]; exact hx) (by rw [ho]; exact hy) hne
    refine ⟨h1, ?_, ?_⟩
    · show view (writes (Sqfs.Obj.writeSlot h x w.1 w.2) x t) y = _
      rw [h2, hv]
    · show (writes (Sqfs.Obj.writeSlot h x w.1 w.2) x t).objs = _
      rw [h3, ho]

end Sqfs.Obj
