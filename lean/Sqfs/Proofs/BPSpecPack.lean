/-
C02 helper lemmas, part 12: towards `specPack` (Spec/PackSpec.lean, DESIGN.md Appendix B) — the worker rule of the block
processor model (`processBlock`) is `specPack`'s `workData`.
-/
import Sqfs.Proofs.BPFinal
import Sqfs.Spec.PackSpec
namespace Sqfs.BlockProc
open Sqfs.Consts
open Sqfs.BlockWriter (hasFlag)

/-- the codec and parameters of `Spec/PackSpec.lean` that correspond to `P` -/
def toPackParams (P : Params) : Sqfs.Pack.Params :=
  { B := P.B, base := P.pre.length, codec := ⟨P.codec.cmp, fun z => (P.codec.unc z).getD []⟩, h := P.h }

theorem hasFlag_or_right (f a b : Nat) : hasFlag f (a ||| b) = (hasFlag f a || hasFlag f b) := by
  unfold hasFlag
  rw [Nat.and_or_distrib_left, Bool.eq_iff_iff]
  simp only [bne_iff_ne, ne_eq, Bool.or_eq_true, Nat.or_eq_zero_iff]
  by_cases h1 : f &&& a = 0 <;> by_cases h2 : f &&& b = 0 <;> simp_all

theorem allZero_eq (d : Bytes) : Sqfs.BlockProc.allZero d = Sqfs.Pack.allZero d := rfl

theorem worker_eq_workData (P : Params) (hpos : ∀ x z, P.codec.cmp x = some z → 0 < z.length) (b : Blk)
    (hne : b.data ≠ []) (hnf : hasFlag b.flags blkIsFragment = false) (hnb : hasFlag b.flags blkFragmentBlock = false) :
    match Sqfs.Pack.workData (toPackParams P) (Sqfs.Pack.Flags.ofNat b.flags) b.data with
    | .sparse n => hasFlag (processBlock P b).flags blkIsSparse = true ∧ n = b.data.length ∧ (processBlock P b).data = b.data
    | .stored s => (processBlock P b).flags = (if s.raw then b.flags else b.flags ||| blkIsCompressed) ∧
        (processBlock P b).data = s.data ∧ (processBlock P b).chk = s.cksum := by
  have h0 : ¬ b.data.length = 0 := fun h => hne (by simpa using h)
  have hign : hasFlag b.flags (blkIgnoreSparse ||| blkFragmentBlock) = hasFlag b.flags blkIgnoreSparse := by
    rw [hasFlag_or_right, hnb, Bool.or_false]
  have hfc : hasFlag b.flags (blkIsFragment ||| blkDontCompress) = hasFlag b.flags blkDontCompress := by
    rw [hasFlag_or_right, hnf, Bool.false_or]
  unfold Sqfs.Pack.workData processBlock
  rw [if_neg h0]
  simp only [hign, Sqfs.Pack.Flags.ofNat, Sqfs.Pack.testBit, toPackParams]
  have e1 : (b.flags &&& blkIgnoreSparse != 0) = hasFlag b.flags blkIgnoreSparse := rfl
  have e2 : (b.flags &&& blkDontCompress != 0) = hasFlag b.flags blkDontCompress := rfl
  have e3 : (b.flags &&& blkDontHash != 0) = hasFlag b.flags blkDontHash := rfl
  simp only [e1, e2, e3, ← allZero_eq]
  by_cases hsp : (!hasFlag b.flags blkIgnoreSparse && Sqfs.BlockProc.allZero b.data) = true
  · simp only [hsp, if_true]
    refine ⟨?_, by simp⟩
    rw [hasFlag_or]; simp; right; decide
  · simp only [hsp, Bool.false_eq_true, if_false, hfc, Sqfs.Pack.encode, Sqfs.Pack.cksumOf]
    by_cases hdc : hasFlag b.flags blkDontCompress = true
    · simp only [hdc, if_true]
      simp
    · simp only [hdc, Bool.false_eq_true, if_false]
      cases hcmp : P.codec.cmp b.data with
      | none => simp
      | some z =>
        simp only [hpos _ _ hcmp, if_true]
        simp

end Sqfs.BlockProc
