/-
C02 helper lemmas, part 5: the writer pass of the reference (`wStep`) never fails and keeps `WInv`: the block writer's
invariant of Proofs/BlockWriter.lean (C08), plus one record per written fragment block — the location entered in the
fragment table still holds the block's bytes, whatever is written (and de-duplicated) afterwards.
-/
import Sqfs.Proofs.BPFrag
namespace Sqfs.BlockWriter
open Sqfs.Consts

/-- a stored block that is neither `FIRST` nor `LAST`, written between two files: the record of its location can be
added to the ones the invariant keeps -/
theorem inv_between {pre s ps acc recs loose} (c : Call) (h : Inv pre s ps false acc recs loose) (hsz : c.data.length < 2 ^ 24)
    (hst : c.stored = true) (hf : c.first = false) (hl : c.last = false) :
    ∃ s' ps', writeDataBlock s c.chk c.flags c.data = .ok (s', s.file.length) ∧
      Inv pre s' ps' false (fileStep acc c) (recs ++ [⟨s.file.length, [c.blk]⟩]) loose := by
  have hl' : ¬ hasFlag c.flags blkLastBlock = true := by simpa [Call.last] using hl
  have hf' : ¬ hasFlag c.flags blkFirstBlock = true := by simpa [Call.first] using hf
  have hst' : (c.data.length != 0 && !hasFlag c.flags blkIsSparse) = true := hst
  rw [writeDataBlock_eq, if_neg hl']
  have e1 : afterFirst s c = s := by unfold afterFirst; rw [if_neg hf']
  rw [e1]
  have hlen := h.abs.len
  have hfs := h.abs.fs
  let e : Entry := ⟨s.file.length, mkWord c.data.length c.flags, c.chk⟩
  refine ⟨afterStore s c, ps ++ [(e, c.data)], rfl, ?_⟩
  unfold afterStore
  rw [if_pos hst']
  have habs : Abs pre { s with blocks := s.blocks ++ [e], file := writeAt s.file s.file.length c.data } (ps ++ [(e, c.data)]) := by
    refine ⟨?_, ?_, ?_, ?_, h.abs.ho⟩
    · show s.blocks ++ [e] = (ps ++ [(e, c.data)]).map (·.1)
      rw [List.map_append, h.abs.blocks]; rfl
    · show writeAt s.file s.file.length c.data = pre ++ bytesOf (ps ++ [(e, c.data)])
      rw [writeAt_end, h.abs.file, bytesOf_append]; simp [List.append_assoc]
    · rw [Offs_append]
      refine ⟨h.abs.offs, ?_, ?_, trivial⟩
      · show s.file.length = _
        rw [h.abs.fileLen]
      · show mkWord c.data.length c.flags % 2 ^ 24 = c.data.length
        exact mkWord_size _ _ hsz
    · show s.fileStart ≤ (ps ++ [(e, c.data)]).length
      simp; omega
  have hsb0 : sb { s with blocks := s.blocks ++ [e], file := writeAt s.file s.file.length c.data } false = ps.length + 1 := by
    simp [sb, hlen]
  refine ⟨habs, fun ho => (by cases ho), ?_, ?_⟩
  rotate_left
  · intro r hr
    rw [hsb0]
    refine HoldsIn_stable (h.loose r hr) ?_ ?_
    · apply List.take_append_of_le_length
      simp [sb, hlen]
    · simp [sb, hlen]
  intro rc hrc
  have hsb : sb { s with blocks := s.blocks ++ [e], file := writeAt s.file s.file.length c.data } false = ps.length + 1 := by
    simp [sb, hlen]
  rw [hsb]
  rcases List.mem_append.mp hrc with hrc | hrc
  · refine HoldsIn_stable (h.recs rc hrc) ?_ ?_
    · apply List.take_append_of_le_length
      simp [sb, hlen]
    · simp [sb, hlen]
  · rw [List.mem_singleton] at hrc
    subst hrc
    refine ⟨ps, [(e, c.data)], [], ?_, ?_, ?_, ?_⟩
    · rw [List.append_nil]; exact List.take_of_length_le (by simp)
    · show s.file.length = _
      rw [h.abs.fileLen]
    · rfl
    · simp [blkBytes, Call.blk]

theorem mem_nextRecs {recs : List Rec} {c : Call} {acc : List Blk} {loc : Nat} {rc : Rec} (h : rc ∈ recs) :
    rc ∈ nextRecs recs c acc loc := by
  unfold nextRecs; split
  · exact List.mem_append_left _ h
  · exact h

end Sqfs.BlockWriter

namespace Sqfs.BlockProc
open Sqfs.Consts
open Sqfs.BlockWriter (hasFlag)

/-- the `write_data_block` call for block `b` -/
def callOf (b : Blk) : BlockWriter.Call := ⟨b.chk, clearFlag b.flags blkFlagInternal, b.data⟩

theorem callOf_first (b : Blk) : (callOf b).first = isFirst b := clearInternal_first b.flags
theorem callOf_last (b : Blk) : (callOf b).last = isLast b := clearInternal_last b.flags

theorem callOf_stored (b : Blk) : (callOf b).stored = (b.data.length != 0 && !hasFlag b.flags blkIsSparse) := by
  simp [BlockWriter.Call.stored, callOf, clearInternal_sparse]

theorem callOf_word (b : Blk) : BlockWriter.mkWord b.data.length (callOf b).flags = sizeWord b := by
  simp only [BlockWriter.mkWord, callOf, clearInternal_compressed, sizeWord]

theorem nextOpened_callOf (o : Bool) (b : Blk) : BlockWriter.nextOpened o (callOf b) = bOpen o b := by
  simp [BlockWriter.nextOpened, bOpen, callOf_first, callOf_last]

theorem WInv.init (P : Params) : WInv P [] { wr := BlockWriter.init P.pre } :=
  ⟨⟨[], [], [], [], BlockWriter.Inv_init P.pre, fun b hb => (by cases hb)⟩, rfl, fun e he => (by cases he), fun e he => (by cases he)⟩

theorem mem_blockEffs {b : Blk} {loc : Nat} {e : Eff} (h : e ∈ blockEffs b loc) :
    b.inode = some e.id ∧ ((e.e = .start loc) ∨ (hasFlag b.flags blkIsSparse = true ∧ e.e = .sparse b.index b.data.length) ∨
      (hasFlag b.flags blkIsSparse = false ∧ b.data ≠ [] ∧ isFB b = false ∧ e.e = .word b.index (sizeWord b))) := by
  unfold blockEffs at h
  rcases List.mem_append.mp h with h | h
  · split at h
    · rename_i hs
      obtain ⟨h1, h2⟩ := mem_mkEff h
      exact ⟨h1, Or.inr (Or.inl ⟨hs, h2⟩)⟩
    · rename_i hs
      split at h
      · rename_i hc
        obtain ⟨h1, h2⟩ := mem_mkEff h
        simp only [Bool.and_eq_true, bne_iff_ne, ne_eq, Bool.not_eq_true'] at hc
        refine ⟨h1, Or.inr (Or.inr ⟨by simpa using hs, fun he => hc.1 (by simp [he]), hc.2, h2⟩)⟩
      · cases h
  · split at h
    · obtain ⟨h1, h2⟩ := mem_mkEff h
      exact ⟨h1, Or.inl h2⟩
    · cases h

/-- one block goes through `process_completed_block` -/
theorem WInv.step {P : Params} {written : List Blk} {W : WSt} (h : WInv P written W) (b : Blk)
    (hsz : b.data.length < 2 ^ 24)
    (hp : (if isFB b then !(written.foldl bOpen false) else (!isLast b || written.foldl bOpen false || isFirst b)) = true)
    (hfb : isFB b = true → FBFlagFacts b.flags ∧ b.data ≠ []) :
    ∃ W', wStep W b = .ok W' ∧ WInv P (written ++ [b]) W' := by
  obtain ⟨⟨ps, acc, recs, loose, hinv, hrecs⟩, hsets, hprov, hids⟩ := h
  have hrest : ∀ (loc : Nat),
      (∀ e ∈ W.effs ++ blockEffs b loc, (∃ loc, e.e = .start loc) ∨ (∃ k m, e.e = .sparse k m) ∨
              (∃ k v y, e.e = .word k v ∧ y ∈ written ++ [b] ∧ isFB y = false ∧ y.data ≠ [] ∧ y.inode = some e.id ∧ y.index = k)) ∧
      (isFB b = false → ∀ e ∈ W.effs ++ blockEffs b loc, ∃ y ∈ written ++ [b], isFB y = false ∧ y.inode = some e.id) := by
    intro loc
    constructor
    · intro e hmem
      rcases List.mem_append.mp hmem with hmem | hmem
      · rcases hprov e hmem with h1 | h1 | ⟨k, v, y, h1, h2, h3⟩
        · exact Or.inl h1
        · exact Or.inr (Or.inl h1)
        · exact Or.inr (Or.inr ⟨k, v, y, h1, List.mem_append_left _ h2, h3⟩)
      · obtain ⟨hi, h1 | ⟨_, h1⟩ | ⟨_, hne, hnfb, h1⟩⟩ := mem_blockEffs hmem
        · exact Or.inl ⟨_, h1⟩
        · exact Or.inr (Or.inl ⟨_, _, h1⟩)
        · exact Or.inr (Or.inr ⟨_, _, b, h1, List.mem_append_right _ List.mem_cons_self, hnfb, hne, hi, rfl⟩)
    · intro hnfb e hmem
      rcases List.mem_append.mp hmem with hmem | hmem
      · obtain ⟨y, hy, hyi⟩ := hids e hmem
        exact ⟨y, List.mem_append_left _ hy, hyi⟩
      · exact ⟨b, List.mem_append_right _ List.mem_cons_self, hnfb, (mem_blockEffs hmem).1⟩
  by_cases hisfb : isFB b = true
  · -- a fragment block, between two files
    obtain ⟨hfacts, hne⟩ := hfb hisfb
    have ho : written.foldl bOpen false = false := by simpa [hisfb] using hp
    rw [ho] at hinv
    have hstored : (callOf b).stored = true := by
      rw [callOf_stored, hfacts.notSparse]
      have : b.data.length ≠ 0 := fun h0 => hne (by simpa using h0)
      simp [this]
    obtain ⟨wr', ps', hw, hinv'⟩ := BlockWriter.inv_between (callOf b) hinv hsz hstored
      (by rw [callOf_first]; exact hfacts.notFirst) (by rw [callOf_last]; exact hfacts.notLast)
    have hw' : BlockWriter.writeDataBlock W.wr b.chk (clearFlag b.flags blkFlagInternal) b.data = .ok (wr', W.wr.file.length) := hw
    have hcond : (!hasFlag b.flags blkIsSparse && b.data.length != 0 && hasFlag b.flags blkFragmentBlock) = true := by
      have hfbb : hasFlag b.flags blkFragmentBlock = true := hisfb
      have : b.data.length ≠ 0 := fun h0 => hne (by simpa using h0)
      simp [hfacts.notSparse, hfbb, this]
    refine ⟨_, by unfold wStep; rw [hw'], ?_⟩
    simp only [hcond, if_true]
    obtain ⟨hr1, _⟩ := hrest W.wr.file.length
    have hnoeff : blockEffs b W.wr.file.length = [] := by
      have hfbb : hasFlag b.flags blkFragmentBlock = true := hisfb
      simp [blockEffs, hfacts.notSparse, hfacts.notLast, hfbb]
    have hr2 : ∀ e ∈ W.effs ++ blockEffs b W.wr.file.length, ∃ y ∈ written ++ [b], isFB y = false ∧ y.inode = some e.id := by
      rw [hnoeff, List.append_nil]
      intro e he
      obtain ⟨y, hy, hyi⟩ := hids e he
      exact ⟨y, List.mem_append_left _ hy, hyi⟩
    refine ⟨⟨ps', BlockWriter.fileStep acc (callOf b), recs ++ [⟨W.wr.file.length, [(callOf b).blk]⟩], loose, ?_, ?_⟩, ?_, hr1, hr2⟩
    · rw [foldl_bOpen_snoc, ho, bOpen_fb hfacts]; exact hinv'
    · intro y hy hyfb
      rcases List.mem_append.mp hy with hy | hy
      · obtain ⟨loc, h1, h2⟩ := hrecs y hy hyfb
        exact ⟨loc, List.mem_append_left _ h1, List.mem_append_left _ h2⟩
      · rw [List.mem_singleton] at hy
        subst hy
        refine ⟨W.wr.file.length, List.mem_append_right _ List.mem_cons_self, List.mem_append_right _ ?_⟩
        rw [List.mem_singleton]
        have : (callOf y).data = y.data := rfl
        simp only [BlockWriter.Call.blk, this, callOf_word]
        rfl
    · simp only [List.map_append, List.map_cons, List.map_nil, List.filter_append, List.filter_cons, hisfb, if_true, List.filter_nil, hsets]
  · -- a data block
    have hnfb : isFB b = false := by simpa using hisfb
    have hwf : (callOf b).last = true → (written.foldl bOpen false || (callOf b).first) = true := by
      rw [callOf_last, callOf_first]
      intro hl
      simpa [hnfb, hl] using hp
    obtain ⟨wr', loc, ps', hw, hinv', _⟩ := BlockWriter.write_spec (callOf b) hinv hsz hwf
    have hw' : BlockWriter.writeDataBlock W.wr b.chk (clearFlag b.flags blkFlagInternal) b.data = .ok (wr', loc) := hw
    have hcond : (!hasFlag b.flags blkIsSparse && b.data.length != 0 && hasFlag b.flags blkFragmentBlock) = false := by
      have hfbb : hasFlag b.flags blkFragmentBlock = false := hnfb
      simp [hfbb]
    refine ⟨_, by unfold wStep; rw [hw'], ?_⟩
    simp only [hcond, Bool.false_eq_true, if_false]
    obtain ⟨hr1, hr2'⟩ := hrest loc
    have hr2 := hr2' hnfb
    refine ⟨⟨ps', BlockWriter.fileStep acc (callOf b),
      BlockWriter.nextRecs recs (callOf b) (BlockWriter.fileStep acc (callOf b)) loc,
      BlockWriter.nextLoose loose (written.foldl bOpen false) (callOf b) loc, ?_, ?_⟩, ?_, hr1, hr2⟩
    · rw [foldl_bOpen_snoc, ← nextOpened_callOf]; exact hinv'
    · intro y hy hyfb
      rcases List.mem_append.mp hy with hy | hy
      · obtain ⟨l, h1, h2⟩ := hrecs y hy hyfb
        exact ⟨l, h1, BlockWriter.mem_nextRecs h2⟩
      · rw [List.mem_singleton] at hy
        subst hy; rw [hnfb] at hyfb; cases hyfb
    · simp only [List.filter_append, List.filter_cons, hnfb, Bool.false_eq_true, if_false, List.filter_nil, List.append_nil, hsets]

end Sqfs.BlockProc
