/-
Helper lemmas for C16: one describe line through `istream_get_line`, `split_line`, `handle_line`.
-/
import Sqfs.Proofs.Quote
import Sqfs.Proofs.QuoteNum
import Sqfs.Props.C18
namespace Sqfs.Quote
open Sqfs.Path (Bytes joinSlash splitSlash canonicalize)
set_option linter.unusedSimpArgs false

/-! ### bytes that may appear on a line -/

/-- no NUL, no LF -/
def Safe (s : Bytes) : Prop := ∀ c ∈ s, c ≠ NUL ∧ c ≠ LF

theorem Safe.append {a b : Bytes} (ha : Safe a) (hb : Safe b) : Safe (a ++ b) := by
  intro c hc
  rcases List.mem_append.1 hc with h | h
  · exact ha c h
  · exact hb c h

theorem Safe.cons {c : UInt8} {b : Bytes} (h0 : c ≠ NUL) (h1 : c ≠ LF) (hb : Safe b) : Safe (c :: b) := by
  intro d hd
  rcases List.mem_cons.1 hd with h | h
  · subst h; exact ⟨h0, h1⟩
  · exact hb d h

theorem safe_of_lineSafe {s : Bytes} (h : LineSafe s) : Safe s :=
  fun c hc => ⟨fun e => h.1 (e ▸ hc), fun e => h.2 (e ▸ hc)⟩

theorem Safe.nul {s : Bytes} (h : Safe s) : NUL ∉ s := fun m => (h NUL m).1 rfl
theorem Safe.lf {s : Bytes} (h : Safe s) : LF ∉ s := fun m => (h LF m).2 rfl

theorem safe_escapeBody {s : Bytes} (h : Safe s) : Safe (escapeBody s) := by
  induction s with
  | nil => intro c hc; simp [escapeBody] at hc
  | cons c r ih =>
    have hc := h c (by simp)
    have hr : Safe r := fun d hd => h d (by simp [hd])
    unfold escapeBody
    split
    · exact Safe.cons (by decide) (by decide) (Safe.cons hc.1 hc.2 (ih hr))
    · exact Safe.cons hc.1 hc.2 (ih hr)

theorem safe_printEscaped {s : Bytes} (h : Safe s) : Safe (printEscaped s) := by
  unfold printEscaped
  split
  · exact Safe.cons (by decide) (by decide) (Safe.append (safe_escapeBody h) (Safe.cons (by decide) (by decide) (fun _ hc => by simp at hc)))
  · exact h

theorem digit_props {c : UInt8} (h : isDigit c = true) :
    c ≠ NUL ∧ c ≠ LF ∧ c ≠ SP ∧ c ≠ TAB ∧ c ≠ CR ∧ c ≠ DQ := by
  refine ⟨?_, ?_, ?_, ?_, ?_, ?_⟩ <;> (intro e; subst e; revert h; decide)

theorem safe_digits {s : Bytes} (h : AllDigit s) : Safe s :=
  fun c hc => ⟨(digit_props (h c hc)).1, (digit_props (h c hc)).2.1⟩

theorem safe_joinSp {es : List Bytes} (h : ∀ e ∈ es, Safe e) : Safe (joinSp es) := by
  induction es with
  | nil => intro c hc; simp [joinSp] at hc
  | cons a r ih =>
    cases r with
    | nil => simpa [joinSp] using h a (by simp)
    | cons b r' =>
      simp only [joinSp]
      exact Safe.append (h a (by simp)) (Safe.cons (by decide) (by decide) (ih (fun e he => h e (by simp [he]))))

/-! ### the last byte of a line (a trailing CR would be eaten by `istream_get_line`) -/

def NoCRLast (s : Bytes) : Prop := s.getLast? ≠ some CR

theorem getLast?_append_ne (l x : Bytes) (hx : x ≠ []) : (l ++ x).getLast? = x.getLast? := by
  rw [List.getLast?_append]
  cases h : x.getLast? with
  | none => exact absurd (List.getLast?_eq_none_iff.1 h) hx
  | some y => rfl

theorem getLast?_cons_ne (c : UInt8) (x : Bytes) (hx : x ≠ []) : (c :: x).getLast? = x.getLast? := by
  cases x with
  | nil => exact absurd rfl hx
  | cons y t => exact List.getLast?_cons_cons

theorem joinSp_ne_nil {es : List Bytes} (hne : es ≠ []) (h : ∀ e ∈ es, e ≠ []) : joinSp es ≠ [] := by
  cases es with
  | nil => exact absurd rfl hne
  | cons a r =>
    cases r with
    | nil => simpa [joinSp] using h a (by simp)
    | cons b r' => simp [joinSp, h a (by simp)]

theorem noCRLast_joinSp : ∀ es : List Bytes, (∀ e ∈ es, e ≠ []) → (∀ e, es.getLast? = some e → NoCRLast e) →
    NoCRLast (joinSp es) := by
  intro es
  induction es with
  | nil => intro _ _; simp [joinSp, NoCRLast]
  | cons a r ih =>
    intro hne hl
    cases r with
    | nil => simpa [joinSp] using hl a (by simp)
    | cons b r' =>
      have hj : joinSp (b :: r') ≠ [] := joinSp_ne_nil (by simp) (fun e he => hne e (by simp [he]))
      have := ih (fun e he => hne e (by simp [he])) (fun e he => hl e (by rw [List.getLast?_cons_cons]; exact he))
      unfold NoCRLast at this ⊢
      simp only [joinSp]
      rw [getLast?_append_ne _ _ (by simp), getLast?_cons_ne _ _ hj]
      exact this

theorem noCRLast_printEscaped (s : Bytes) : NoCRLast (printEscaped s) := by
  unfold printEscaped NoCRLast
  cases hq : needsQuote s with
  | true =>
    simp only [if_true]
    rw [getLast?_append_ne _ _ (by simp)]
    simp
    decide
  | false =>
    simp only [Bool.false_eq_true, if_false]
    obtain ⟨hne, hall⟩ := needsQuote_false hq
    intro h
    have := List.mem_of_getLast? h
    exact (hall CR this).2.2.1 rfl

theorem noCRLast_digits {s : Bytes} (h : AllDigit s) : NoCRLast s := by
  intro hl
  have := List.mem_of_getLast? hl
  exact (digit_props (h CR this)).2.2.2.2.1 rfl

/-! ### `istream_get_line` on a describe line -/

theorem splitLF_line (l rest cur : Bytes) (h : LF ∉ l) :
    splitLF (l ++ LF :: rest) cur = (cur.reverse ++ l, true) :: splitLF rest [] := by
  induction l generalizing cur with
  | nil => simp [splitLF]
  | cons c r ih =>
    have hc : c ≠ LF := fun e => h (by simp [e])
    have hr : LF ∉ r := fun m => h (by simp [m])
    simp only [List.cons_append, splitLF, hc, if_false]
    rw [ih (c :: cur) hr]
    simp

theorem cstr_id {s : Bytes} (h : NUL ∉ s) : cstr s = s := by
  induction s with
  | nil => rfl
  | cons c r ih =>
    have hc : c ≠ NUL := fun e => h (by simp [e])
    simp [cstr, hc, ih (fun m => h (by simp [m]))]

theorem stripCR_id {s : Bytes} (h : NoCRLast s) : stripCR s = s := by
  unfold stripCR
  unfold NoCRLast at h
  cases hl : s.getLast? with
  | none => rfl
  | some c =>
    have : c ≠ CR := by intro e; subst e; exact h hl
    simp [this]

/-- the shape of a non-comment, non-indented line -/
def GoodHead (s : Bytes) : Prop := ∃ c r, s = c :: r ∧ isSpace c = false ∧ c ≠ HASH

theorem cookLine_id {l : Bytes} (hs : Safe l) (hl : NoCRLast l) (hh : GoodHead l) : cookLine (l, true) = l := by
  obtain ⟨c, r, rfl, h1, _⟩ := hh
  simp only [cookLine, if_true, stripCR_id hl, cstr_id hs.nul]
  simp [ltrim, h1]

/-- **one line through the per-line loop of `fstree_from_file_stream`** -/
theorem fstreeFromFile_line (opt : Opt) {ts es : List Bytes} (rest : Bytes) (h : Encs ts es)
    (hsafe : ∀ e ∈ es, Safe e) (hlast : NoCRLast (joinSp es)) (hhead : GoodHead (joinSp es)) :
    fstreeFromFile opt (joinSp es ++ LF :: rest) =
      match handleLine opt ts with
      | .ok e => (e :: (fstreeFromFile opt rest).1, (fstreeFromFile opt rest).2)
      | .error e => ([], some (.handle e)) := by
  have hs := safe_joinSp hsafe
  unfold fstreeFromFile
  rw [splitLF_line _ _ _ hs.lf]
  simp only [List.reverse_nil, List.nil_append, List.map_cons, cookLine_id hs hlast hhead]
  obtain ⟨c, r, hj, _, hhash⟩ := hhead
  have hne : joinSp es ≠ [] := by rw [hj]; simp
  have hh : (joinSp es).head? ≠ some HASH := by rw [hj]; simpa using hhash
  simp only [fromLines, hne, hh, if_false, splitLine_join h]
  cases handleLine opt ts <;> rfl

end Sqfs.Quote
