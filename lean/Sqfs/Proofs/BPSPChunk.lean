/-
C02, `packRef = specPack`, part 4: the fragment table.  The reference keeps `proc->frag_ht` as the hash table does
(`insertRef` replaces the first entry that compares equal, else appends; the lookup compares against the *content* of
the fragment block); `specPack` keeps the recorded fragments newest first with their bytes.  `absChunk F c` reads the
bytes a table entry stands for; with the byte comparison on, a lookup in either structure gives the same answer for
every key (`lookup_insertRef`).
-/
import Sqfs.Proofs.BPSPDefs
namespace Sqfs.BlockProc
open Sqfs.Consts
open Sqfs.BlockWriter (hasFlag)

/-- the bytes a table entry stands for -/
def chunkData (F : FSt) (c : Chunk) : Bytes :=
  match F.fragData c.index with
  | some blk => BlockWriter.slice blk c.offset c.size
  | none => []

def absChunk (F : FSt) (c : Chunk) : Sqfs.Pack.Chunk := ⟨c.index, c.offset, c.flags != 0, c.hash, chunkData F c⟩

structure ChunkGood (F : FSt) (c : Chunk) : Prop where
  inb : ∃ blk, F.fragData c.index = some blk ∧ c.offset + c.size ≤ blk.length
  flags : c.flags = 0 ∨ c.flags = blkDontCompress

/-- `lookupChunk`'s test -/
def cmatch (dc : Bool) (ck : UInt32) (d : Bytes) (c : Sqfs.Pack.Chunk) : Bool :=
  c.dontCompress == dc && c.cksum == ck && c.data == d

theorem lookupChunk_eq (l : List Sqfs.Pack.Chunk) (dc : Bool) (ck : UInt32) (d : Bytes) :
    Sqfs.Pack.lookupChunk l dc ck d = l.find? (cmatch dc ck d) := rfl

theorem cmatch_unique {dc dc' : Bool} {ck ck' : UInt32} {d d' : Bytes} {c : Sqfs.Pack.Chunk}
    (h : cmatch dc ck d c = true) (h' : cmatch dc' ck' d' c = true) : dc = dc' ∧ ck = ck' ∧ d = d' := by
  simp only [cmatch, Bool.and_eq_true, beq_iff_eq] at h h'
  obtain ⟨⟨a, b⟩, c⟩ := h
  obtain ⟨⟨a', b'⟩, c'⟩ := h'
  exact ⟨a.symm.trans a', b.symm.trans b', c.symm.trans c'⟩

/-- the key flags of a fragment: `flags & DONT_COMPRESS` -/
theorem keyFlags_eq (x : Nat) : x &&& blkDontCompress = if hasFlag x blkDontCompress then blkDontCompress else 0 := by
  unfold hasFlag
  rcases Nat.and_one_is_mod x ▸ Nat.mod_two_eq_zero_or_one x with h | h
  · have : x &&& blkDontCompress = 0 := h
    rw [this]; rfl
  · have : x &&& blkDontCompress = 1 := h
    rw [this]; rfl

/-- `chunk_info_equals` against the block content is `lookupChunk`'s test on the abstracted entry -/
theorem chunkEq_abs (F : FSt) (c : Chunk) (hg : ChunkGood F c) (d : Bytes) (hd : UInt32) (dc : Bool) :
    chunkEqRef true F d hd (if dc then blkDontCompress else 0) c = cmatch dc hd d (absChunk F c) := by
  obtain ⟨blk, hblk, hin⟩ := hg.inb
  unfold chunkEqRef cmatch absChunk chunkData
  rw [hblk]
  simp only [Bool.not_true, Bool.false_eq_true, if_false]
  have hlen : (BlockWriter.slice blk c.offset c.size).length = c.size := BlockWriter.slice_length _ _ _ hin
  have hfl : (c.flags != (if dc then blkDontCompress else 0)) = !((c.flags != 0) == dc) := by
    rcases hg.flags with h | h <;> rw [h] <;> cases dc <;> decide
  by_cases hs : BlockWriter.slice blk c.offset c.size = d
  · have : c.size = d.length := by rw [← hs, hlen]
    rw [hfl]
    by_cases h1 : c.hash = hd <;> by_cases h2 : (c.flags != 0) = dc <;> simp [this, h1, h2]
  · have hs' : (BlockWriter.slice blk c.offset c.size == d) = false := by simpa using hs
    rw [hs']
    simp only [Bool.and_false, ite_self]

theorem find?_congr' {α : Type} {p q : α → Bool} : ∀ {l : List α}, (∀ a ∈ l, p a = q a) → l.find? p = l.find? q := by
  intro l
  induction l with
  | nil => intro _; rfl
  | cons a l ih =>
    intro h
    simp only [List.find?_cons, h a List.mem_cons_self, ih (fun b hb => h b (List.mem_cons_of_mem _ hb))]

/-- a lookup in the reference's table is a lookup in the abstracted table -/
theorem find_abs (F : FSt) (l : List Chunk) (hg : ∀ c ∈ l, ChunkGood F c) (d : Bytes) (hd : UInt32) (dc : Bool) :
    (l.find? (chunkEqRef true F d hd (if dc then blkDontCompress else 0))).map (absChunk F) =
      Sqfs.Pack.lookupChunk (l.map (absChunk F)) dc hd d := by
  rw [lookupChunk_eq, List.find?_map]
  congr 1
  apply find?_congr'
  intro c hc
  exact chunkEq_abs F c (hg c hc) d hd dc

/-- inserting into the reference's table (replace the first equal entry, else append) and consing in front give the
same answer for every key -/
theorem lookup_insertRef (g : Chunk → Sqfs.Pack.Chunk) (eq : Chunk → Bool) (new : Chunk) (dc0 : Bool) (ck0 : UInt32)
    (d0 : Bytes) (hnew : cmatch dc0 ck0 d0 (g new) = true) :
    ∀ (l : List Chunk), (∀ c ∈ l, eq c = cmatch dc0 ck0 d0 (g c)) → ∀ (dc : Bool) (ck : UInt32) (d : Bytes),
      ((insertRef eq new l).map g).find? (cmatch dc ck d) = (g new :: l.map g).find? (cmatch dc ck d) := by
  intro l
  induction l with
  | nil => intro _ dc ck d; rfl
  | cons c rest ih =>
    intro heq dc ck d
    have hc := heq c List.mem_cons_self
    have ih' := ih (fun c' hc' => heq c' (List.mem_cons_of_mem _ hc')) dc ck d
    unfold insertRef
    by_cases he : eq c = true
    · rw [if_pos he]
      rw [he] at hc
      simp only [List.map_cons, List.find?_cons]
      by_cases hm : cmatch dc ck d (g new) = true
      · simp only [hm]
      · have hm' : cmatch dc ck d (g new) = false := by simpa using hm
        have : cmatch dc ck d (g c) = false := by
          cases h : cmatch dc ck d (g c) with
          | false => rfl
          | true =>
            obtain ⟨a, b, e⟩ := cmatch_unique hc.symm h
            subst a b e
            rw [hnew] at hm'; cases hm'
        simp only [hm', this]
    · rw [if_neg he]
      have he' : eq c = false := by simpa using he
      rw [he'] at hc
      simp only [List.map_cons, List.find?_cons] at ih' ⊢
      by_cases hm : cmatch dc ck d (g c) = true
      · have : cmatch dc ck d (g new) = false := by
          cases h : cmatch dc ck d (g new) with
          | false => rfl
          | true =>
            obtain ⟨a, b, e⟩ := cmatch_unique hnew h
            subst a b e
            rw [hm] at hc; cases hc
        simp only [hm, this]
      · have hm' : cmatch dc ck d (g c) = false := by simpa using hm
        simp only [hm', ih']

end Sqfs.BlockProc
