import Sqfs.Proofs.C19Ops
/-!
C19: what an object observes after an interleaving of events on it and on other objects is what it observes after its own
events alone (projection).  The two runs allocate buffer ids from different counters, so the object's part of the two heaps
agrees only up to a renaming `π` of buffer ids (`Iso`); every operation on the object commutes with such renamings.
-/
namespace Sqfs.Obj

/-- object `y` in `h2` is object `y` in `h1` up to a renaming `π` of the ids of its buffers: same slots (renamed), same contents -/
def Iso (y : Nat) (h1 h2 : Heap) : Prop :=
  ∃ (o1 o2 : Obj) (π : Nat → Nat), h1.objs y = some o1 ∧ h2.objs y = some o2 ∧
    o2.bufs = o1.bufs.map (Option.map π) ∧ o2.views = o1.views.map (Option.map π) ∧
    (∀ a b, some a ∈ o1.bufs → some b ∈ o1.bufs → π a = π b → a = b) ∧
    (∀ b, some b ∈ o1.bufs → h2.bufs (π b) = h1.bufs b)

theorem Iso.refl {y : Nat} {h : Heap} {o : Obj} (hy : h.objs y = some o) : Iso y h h :=
  ⟨o, o, id, hy, hy, by simp, by simp, fun _ _ _ _ h => h, fun _ _ => rfl⟩

theorem listGet_map (l : List (Option Nat)) (f : Nat → Nat) (i : Nat) :
    listGet (l.map (Option.map f)) i = (listGet l i).map f := by
  unfold listGet
  rw [List.getElem?_map]
  cases l[i]? with
  | none => rfl
  | some s => cases s <;> rfl

/-- renamed objects observe the same -/
theorem view_iso {y : Nat} {h1 h2 : Heap} {U : Nat → Nat} (hb : Balanced h1 U) (hi : Iso y h1 h2) : view h2 y = view h1 y := by
  obtain ⟨o1, o2, π, h1y, h2y, eb, ev, _, hc⟩ := hi
  have hv := (hb.live y o1 h1y (by simp)).2.2.2.2.2
  unfold view
  simp only [h1y, h2y, Option.map_some, Option.some.injEq, eb, ev]
  rw [← List.map_append, List.map_map]
  apply List.map_congr_left
  intro s hs
  cases s with
  | none => rfl
  | some b =>
    have hbm : some b ∈ o1.bufs := by
      rcases List.mem_append.mp hs with h | h
      · exact h
      · exact hv b h
    simp [slotVal, hc b hbm]

/-- steps that keep `y` (slots and buffers) on either side keep the correspondence -/
theorem Iso.keeps {y : Nat} {h1 h2 h1' h2' : Heap} {o1 o2 : Obj} (hi : Iso y h1 h2) (h1y : h1.objs y = some o1) (h2y : h2.objs y = some o2)
    (k1 : KeepsObj h1 h1' y o1) (k2 : KeepsObj h2 h2' y o2) : Iso y h1' h2' := by
  obtain ⟨p1, p2, π, e1, e2, eb, ev, hinj, hc⟩ := hi
  rw [h1y] at e1; cases e1
  rw [h2y] at e2; cases e2
  obtain ⟨o1', a1, a2, a3⟩ := k1
  obtain ⟨o2', b1, b2, b3⟩ := k2
  have eb1 : o1'.bufs = o1.bufs := (congrArg Obj.bufs a2 : o1'.erase.bufs = o1.erase.bufs)
  have ev1 : o1'.views = o1.views := (congrArg Obj.views a2 : o1'.erase.views = o1.erase.views)
  have eb2 : o2'.bufs = o2.bufs := (congrArg Obj.bufs b2 : o2'.erase.bufs = o2.erase.bufs)
  have ev2 : o2'.views = o2.views := (congrArg Obj.views b2 : o2'.erase.views = o2.erase.views)
  refine ⟨o1', o2', π, a1, b1, by rw [eb1, eb2]; exact eb, by rw [ev1, ev2]; exact ev, by rw [eb1]; exact hinj, ?_⟩
  intro b hbm
  rw [eb1] at hbm
  have hm2 : some (π b) ∈ o2.bufs := by
    rw [eb]; exact List.mem_map.mpr ⟨some b, hbm, rfl⟩
  rw [b3 _ hm2, a3 _ hbm]
  exact hc b hbm

/-- a store through the same slot on both sides -/
theorem Iso.store {y : Nat} {h1 h2 : Heap} {U1 U2 : Nat → Nat} (hb1 : Balanced h1 U1) (hb2 : Balanced h2 U2) (hi : Iso y h1 h2) (s v : Nat) :
    Iso y (writeSlot h1 y s v) (writeSlot h2 y s v) := by
  obtain ⟨o1, o2, π, h1y, h2y, eb, ev, hinj, hc⟩ := hi
  have hv := (hb1.live y o1 h1y (by simp)).2.2.2.2.2
  have hl2 : listGet (o2.bufs ++ o2.views) s = (listGet (o1.bufs ++ o1.views) s).map π := by
    rw [eb, ev, ← List.map_append, listGet_map]
  unfold writeSlot
  simp only [hb1.ok, hb2.ok, h1y, h2y, hl2]
  cases hs : listGet (o1.bufs ++ o1.views) s with
  | none => exact ⟨o1, o2, π, h1y, h2y, eb, ev, hinj, hc⟩
  | some b =>
    have hown : some b ∈ o1.bufs := slot_owned hv hs
    obtain ⟨bf, hbf⟩ := Option.isSome_iff_exists.mp (hb1.buf_live h1y (by simp) hown)
    have hbf2 : h2.bufs (π b) = some bf := by rw [hc b hown]; exact hbf
    simp only [Option.map_some, hbf, hbf2]
    refine ⟨o1, o2, π, h1y, h2y, eb, ev, hinj, ?_⟩
    intro b' hb'
    show upd h2.bufs (π b) _ (π b') = upd h1.bufs b _ b'
    by_cases hbb : b' = b
    · subst hbb; simp [upd]
    · have : π b' ≠ π b := fun e => hbb (hinj _ _ hb' hown e)
      simp [upd, hbb, this, hc b' hb']

theorem rep_map_comm (π : Nat → Nat) (old : Nat) (nw : Option Nat) (l : List (Option Nat))
    (hinj : ∀ b, some b ∈ l → π b = π old → b = old) :
    (l.map (Option.map π)).map (rep (π old) (nw.map π)) = (l.map (rep old nw)).map (Option.map π) := by
  rw [List.map_map, List.map_map]
  apply List.map_congr_left
  intro s hs
  cases s with
  | none => simp [rep]
  | some b =>
    by_cases hbo : b = old
    · subst hbo; simp [rep]
    · have : π b ≠ π old := fun e => hbo (hinj b hs e)
      simp [rep, hbo, this]

/-- the same buffer slot is given back on both sides -/
theorem Iso.release {y : Nat} {h1 h2 : Heap} {U1 U2 : Nat → Nat} (hb1 : Balanced h1 U1) (hb2 : Balanced h2 U2) (hi : Iso y h1 h2) (s : Nat) :
    Iso y (releaseSlot h1 y s) (releaseSlot h2 y s) := by
  obtain ⟨o1, o2, π, h1y, h2y, eb, ev, hinj, hc⟩ := hi
  have hv := (hb1.live y o1 h1y (by simp)).2.2.2.2.2
  have hl2 : listGet o2.bufs s = (listGet o1.bufs s).map π := by rw [eb, listGet_map]
  unfold releaseSlot
  simp only [hb1.ok, hb2.ok, h1y, h2y, hl2]
  cases hs : listGet o1.bufs s with
  | none => exact ⟨o1, o2, π, h1y, h2y, eb, ev, hinj, hc⟩
  | some old =>
    have hold : some old ∈ o1.bufs := listGet_mem hs
    simp only [Option.map_some]
    refine ⟨{ o1 with bufs := o1.bufs.map (rep old none), views := o1.views.map (rep old none) },
      { o2 with bufs := o2.bufs.map (rep (π old) none), views := o2.views.map (rep (π old) none) }, π, ?_, ?_, ?_, ?_, ?_, ?_⟩
    · rw [freeBuf_objs]; simp [upd]
    · rw [freeBuf_objs]; simp [upd]
    · show o2.bufs.map (rep (π old) none) = (o1.bufs.map (rep old none)).map (Option.map π)
      rw [eb]
      exact rep_map_comm π old none o1.bufs (fun b hb e => hinj b old hb hold e)
    · show o2.views.map (rep (π old) none) = (o1.views.map (rep old none)).map (Option.map π)
      rw [ev]
      exact rep_map_comm π old none o1.views (fun b hb e => hinj b old (hv b hb) hold e)
    · intro a b ha hb'
      rcases mem_map_rep ha with ⟨h0, _⟩ | ⟨_, ha'⟩
      · cases h0
      · rcases mem_map_rep hb' with ⟨h0, _⟩ | ⟨_, hb''⟩
        · cases h0
        · exact hinj a b ha' hb''
    · intro b hbm
      rcases mem_map_rep hbm with ⟨h0, _⟩ | ⟨hne, hb'⟩
      · cases h0
      · have hne2 : π b ≠ π old := fun e => hne (hinj b old hb' hold e)
        rw [freeBuf_bufs_ne _ hne2, freeBuf_bufs_ne _ hne]
        exact hc b hb'

/-- the renaming after both sides allocated a fresh buffer: `n1 ↦ n2` -/
def extend (π : Nat → Nat) (n1 n2 : Nat) : Nat → Nat := fun b => if b = n1 then n2 else π b

theorem map_extend (π : Nat → Nat) (n1 n2 : Nat) (l : List (Option Nat)) (h : ∀ b, some b ∈ l → b ≠ n1) :
    l.map (Option.map (extend π n1 n2)) = l.map (Option.map π) := by
  apply List.map_congr_left
  intro s hs
  cases s with
  | none => rfl
  | some b => simp [extend, h b hs]

/-- the same buffer slot gets a fresh buffer with the same contents on both sides -/
theorem Iso.realloc {y : Nat} {h1 h2 : Heap} {U1 U2 : Nat → Nat} (hb1 : Balanced h1 U1) (hb2 : Balanced h2 U2) (hi : Iso y h1 h2) (s : Nat) (bf : Buf) :
    Iso y (reallocSlot h1 y s bf) (reallocSlot h2 y s bf) := by
  obtain ⟨o1, o2, π, h1y, h2y, eb, ev, hinj, hc⟩ := hi
  have hv := (hb1.live y o1 h1y (by simp)).2.2.2.2.2
  have hl2 : listGet o2.bufs s = (listGet o1.bufs s).map π := by rw [eb, listGet_map]
  have hlen : o2.bufs.length = o1.bufs.length := by rw [eb]; simp
  have hlt1 : ∀ b, some b ∈ o1.bufs → b < h1.nbuf := fun b hbm => hb1.bufBound b (hb1.buf_live h1y (by simp) hbm)
  have hlt2 : ∀ b, some b ∈ o1.bufs → π b < h2.nbuf := by
    intro b hbm
    apply hb2.bufBound
    rw [hc b hbm]; exact hb1.buf_live h1y (by simp) hbm
  have hne1 : ∀ b, some b ∈ o1.bufs → b ≠ h1.nbuf := fun b hbm => Nat.ne_of_lt (hlt1 b hbm)
  have hne1v : ∀ b, some b ∈ o1.views → b ≠ h1.nbuf := fun b hbm => hne1 b (hv b hbm)
  have hπ' : ∀ b, some b ∈ o1.bufs → extend π h1.nbuf h2.nbuf b = π b := fun b hbm => by simp [extend, hne1 b hbm]
  have hπn : extend π h1.nbuf h2.nbuf h1.nbuf = h2.nbuf := by simp [extend]
  unfold reallocSlot
  simp only [hb1.ok, hb2.ok, h1y, h2y, hl2, hlen]
  split
  · cases hs : listGet o1.bufs s with
    | none =>
      simp only [Option.map_none]
      refine ⟨{ o1 with bufs := o1.bufs.set s (some h1.nbuf) }, { o2 with bufs := o2.bufs.set s (some h2.nbuf) }, extend π h1.nbuf h2.nbuf,
        by simp [upd], by simp [upd], ?_, ?_, ?_, ?_⟩
      · show o2.bufs.set s (some h2.nbuf) = (o1.bufs.set s (some h1.nbuf)).map (Option.map (extend π h1.nbuf h2.nbuf))
        rw [List.map_set, map_extend π _ _ o1.bufs hne1, ← eb]
        simp [hπn]
      · show o2.views = o1.views.map (Option.map (extend π h1.nbuf h2.nbuf))
        rw [map_extend π _ _ o1.views hne1v]; exact ev
      · intro a b ha hb'
        have ha' : some a ∈ o1.bufs ∨ a = h1.nbuf := by
          rcases List.mem_or_eq_of_mem_set ha with h | h
          · exact Or.inl h
          · exact Or.inr (Option.some.inj h)
        have hb'' : some b ∈ o1.bufs ∨ b = h1.nbuf := by
          rcases List.mem_or_eq_of_mem_set hb' with h | h
          · exact Or.inl h
          · exact Or.inr (Option.some.inj h)
        intro e
        rcases ha' with ha' | ha' <;> rcases hb'' with hb'' | hb''
        · rw [hπ' a ha', hπ' b hb''] at e; exact hinj a b ha' hb'' e
        · subst hb''; rw [hπ' a ha', hπn] at e; have := hlt2 a ha'; omega
        · subst ha'; rw [hπ' b hb'', hπn] at e; have := hlt2 b hb''; omega
        · rw [ha', hb'']
      · intro b hbm
        have hb' : some b ∈ o1.bufs ∨ b = h1.nbuf := by
          rcases List.mem_or_eq_of_mem_set hbm with h | h
          · exact Or.inl h
          · exact Or.inr (Option.some.inj h)
        show upd h2.bufs h2.nbuf (some bf) (extend π h1.nbuf h2.nbuf b) = upd h1.bufs h1.nbuf (some bf) b
        rcases hb' with hb' | hb'
        · have := hlt2 b hb'
          have := hlt1 b hb'
          rw [hπ' b hb']
          simp only [upd]
          rw [if_neg (by omega), if_neg (by omega)]
          exact hc b hb'
        · subst hb'; rw [hπn]; simp [upd]
    | some old =>
      have hold : some old ∈ o1.bufs := listGet_mem hs
      simp only [Option.map_some]
      refine ⟨{ o1 with bufs := o1.bufs.map (rep old (some h1.nbuf)), views := o1.views.map (rep old (some h1.nbuf)) },
        { o2 with bufs := o2.bufs.map (rep (π old) (some h2.nbuf)), views := o2.views.map (rep (π old) (some h2.nbuf)) },
        extend π h1.nbuf h2.nbuf, ?_, ?_, ?_, ?_, ?_, ?_⟩
      · rw [freeBuf_objs]; simp [upd]
      · rw [freeBuf_objs]; simp [upd]
      · show o2.bufs.map (rep (π old) (some h2.nbuf)) = (o1.bufs.map (rep old (some h1.nbuf))).map (Option.map (extend π h1.nbuf h2.nbuf))
        have := rep_map_comm (extend π h1.nbuf h2.nbuf) old (some h1.nbuf) o1.bufs
          (fun b hb e => by rw [hπ' b hb, hπ' old hold] at e; exact hinj b old hb hold e)
        rw [map_extend π _ _ o1.bufs hne1, hπ' old hold] at this
        simp only [Option.map_some, hπn] at this
        rw [eb]; exact this
      · show o2.views.map (rep (π old) (some h2.nbuf)) = (o1.views.map (rep old (some h1.nbuf))).map (Option.map (extend π h1.nbuf h2.nbuf))
        have := rep_map_comm (extend π h1.nbuf h2.nbuf) old (some h1.nbuf) o1.views
          (fun b hb e => by rw [hπ' b (hv b hb), hπ' old hold] at e; exact hinj b old (hv b hb) hold e)
        rw [map_extend π _ _ o1.views hne1v, hπ' old hold] at this
        simp only [Option.map_some, hπn] at this
        rw [ev]; exact this
      · intro a b ha hb' e
        have ca : a = h1.nbuf ∨ (a ≠ old ∧ some a ∈ o1.bufs) := by
          rcases mem_map_rep ha with ⟨h0, _⟩ | h0
          · exact Or.inl (Option.some.inj h0)
          · exact Or.inr h0
        have cb : b = h1.nbuf ∨ (b ≠ old ∧ some b ∈ o1.bufs) := by
          rcases mem_map_rep hb' with ⟨h0, _⟩ | h0
          · exact Or.inl (Option.some.inj h0)
          · exact Or.inr h0
        rcases ca with ca | ⟨_, ca⟩ <;> rcases cb with cb | ⟨_, cb⟩
        · rw [ca, cb]
        · subst ca; rw [hπ' b cb, hπn] at e; have := hlt2 b cb; omega
        · subst cb; rw [hπ' a ca, hπn] at e; have := hlt2 a ca; omega
        · rw [hπ' a ca, hπ' b cb] at e; exact hinj a b ca cb e
      · intro b hbm
        have holdlt := hlt1 old hold
        have hπoldlt := hlt2 old hold
        rcases mem_map_rep hbm with ⟨h0, _⟩ | ⟨hne, hb'⟩
        · have hbn : b = h1.nbuf := Option.some.inj h0
          subst hbn
          rw [hπn, freeBuf_bufs_ne _ (by omega : h2.nbuf ≠ π old), freeBuf_bufs_ne _ (by omega : h1.nbuf ≠ old)]
          simp [upd]
        · have hne2 : π b ≠ π old := fun e => hne (hinj b old hb' hold e)
          have := hlt2 b hb'
          have := hlt1 b hb'
          rw [hπ' b hb', freeBuf_bufs_ne _ hne2, freeBuf_bufs_ne _ hne]
          show upd h2.bufs h2.nbuf (some bf) (π b) = upd h1.bufs h1.nbuf (some bf) b
          simp only [upd]
          rw [if_neg (by omega), if_neg (by omega)]
          exact hc b hb'
  · exact ⟨o1, o2, π, h1y, h2y, eb, ev, hinj, hc⟩

theorem grab_keeps {h : Heap} {U : Nat → Nat} {y : Nat} {oy : Obj} (hb : Balanced h U) (hy : h.objs y = some oy) :
    KeepsObj h (Sqfs.Obj.grab h y) y oy := by
  rw [grab_eq hb.ok hy]
  exact ⟨{ oy with rc := oy.rc + 1 }, by simp [upd], by simp [Obj.erase], fun _ _ => rfl⟩

/-- a release that is not the last one only counts down -/
theorem drop_keeps {h : Heap} {U : Nat → Nat} {y : Nat} {oy : Obj} (hb : Balanced h U) (hy : h.objs y = some oy) (hu : 2 ≤ U y) :
    KeepsObj h (sqfsDrop h y) y oy := by
  have hrc : 2 ≤ oy.rc := by have := (hb.live y oy hy (by simp)).2.2.1; omega
  obtain ⟨k, hk⟩ : ∃ k, h.nobj = k + 1 := ⟨h.nobj - 1, by have := hb.bound y (by simp [hy]); omega⟩
  unfold sqfsDrop
  rw [hk, drop_succ_eq k h y oy hb.ok hy, if_neg (by omega)]
  exact ⟨{ oy with rc := oy.rc - 1 }, by simp [upd], by simp [Obj.erase], fun _ _ => rfl⟩

/-- the user holds `y` before and after every event of the history (so no event of the history destroys `y`) -/
def Holds (y : Nat) : (Nat → Nat) → List Ev → Prop
  | U, [] => 1 ≤ U y
  | U, e :: es => 1 ≤ U y ∧ Holds y (e.user U) es

theorem Holds.head {y : Nat} {U : Nat → Nat} {es : List Ev} (h : Holds y U es) : 1 ≤ U y := by
  cases es with
  | nil => exact h
  | cons e es => exact h.1

/-- `y`'s own events -/
def ownEvs (y : Nat) (es : List Ev) : List Ev := es.filter (fun e => e.target = y)

/-- the run of the whole interleaving and the run of `y`'s own events alone keep `y` in correspondence -/
theorem runEvs_iso (y : Nat) : ∀ (es : List Ev) {h1 h2 : Heap} {U1 U2 : Nat → Nat}, Balanced h1 U1 → Balanced h2 U2 → U1 y = U2 y →
    Iso y h1 h2 → Admissible U1 es → Holds y U1 es →
    Iso y (runEvs h1 es) (runEvs h2 (ownEvs y es)) ∧ Balanced (runEvs h1 es) (userAfter U1 es) := by
  intro es
  induction es with
  | nil => intro h1 h2 U1 U2 hb1 _ _ hi _ _; exact ⟨hi, hb1⟩
  | cons e es ih =>
    intro h1 h2 U1 U2 hb1 hb2 hU hi ha hh
    obtain ⟨o1, o2, π, h1y, h2y, eb, ev, hinj, hc⟩ := hi
    have hi : Iso y h1 h2 := ⟨o1, o2, π, h1y, h2y, eb, ev, hinj, hc⟩
    have hb1' := Ev.apply_bal hb1 e ha.1
    have hnext : 1 ≤ e.user U1 y := hh.2.head
    by_cases ht : e.target = y
    · have hown : ownEvs y (e :: es) = e :: ownEvs y es := by simp [ownEvs, List.filter_cons, ht]
      rw [hown]
      have hb2' := Ev.apply_bal hb2 e (by rw [ht, ← hU]; exact hh.1)
      have hU' : e.user U1 y = e.user U2 y := by
        cases e with
        | op x w => exact hU
        | grab x => have hx : x = y := ht; subst hx; simp [Ev.user, hU]
        | drop x => have hx : x = y := ht; subst hx; simp [Ev.user, hU]
      have hi' : Iso y (e.apply h1) (e.apply h2) := by
        cases e with
        | op x w =>
          have hx : x = y := ht
          subst hx
          cases w with
          | store s v => exact Iso.store hb1 hb2 hi s v
          | realloc s bf => exact Iso.realloc hb1 hb2 hi s bf
          | release s => exact Iso.release hb1 hb2 hi s
        | grab x =>
          have hx : x = y := ht
          subst hx
          exact hi.keeps h1y h2y (grab_keeps hb1 h1y) (grab_keeps hb2 h2y)
        | drop x =>
          have hx : x = y := ht
          subst hx
          have h2u : 2 ≤ U1 x := by
            have : 1 ≤ U1 x - 1 := by simpa [Ev.user] using hnext
            omega
          exact hi.keeps h1y h2y (drop_keeps hb1 h1y h2u) (drop_keeps hb2 h2y (by rw [← hU]; exact h2u))
      exact ih hb1' hb2' hU' hi' ha.2 hh.2
    · have hown : ownEvs y (e :: es) = ownEvs y es := by simp [ownEvs, List.filter_cons, ht]
      rw [hown]
      have hU' : e.user U1 y = U2 y := by rw [Ev.user_other U1 e ht]; exact hU
      have hi' : Iso y (e.apply h1) h2 := hi.keeps h1y h2y (Ev.apply_keeps hb1 e ha.1 h1y ht hh.1) (KeepsObj.refl h2y)
      exact ih hb1' hb2 hU' hi' ha.2 hh.2

end Sqfs.Obj
