/-
C01 — from the input strings to what is stored: `recordAll` establishes, for every set, the index of a block holding
exactly that set (as `canonSet` defines it), and the invariant the flush/read theorem needs.
-/
import Sqfs.Proofs.EncXattrStr
namespace Sqfs.Enc
open Sqfs.Consts

/-- a key/value pair the format can hold: known prefix, key remainder < 64 KiB, value < 4 GiB -/
def KvOk (kv : Bytes × Bytes) : Prop := (∃ t, prefixId kv.1 = some t) ∧ (afterDot kv.1).length < 65536 ∧ kv.2.length < 2 ^ 32

instance (kv : Bytes × Bytes) : Decidable (KvOk kv) :=
  decidable_of_iff ((prefixId kv.1).isSome = true ∧ (afterDot kv.1).length < 65536 ∧ kv.2.length < 2 ^ 32)
    (by unfold KvOk; rw [Option.isSome_iff_exists])

/-- between two sets: the invariant holds as soon as `begin` has been called -/
def XInv (w : XWriter) : Prop := XCur (beginSet w)

theorem xinv_empty : XInv {} := ⟨by simp [beginSet], by simp [beginSet], by simp [beginSet], by simp [beginSet], by simp [beginSet],
  by simp [beginSet], by simp [beginSet], by simp [beginSet]⟩

/-- everything recorded in `w` is still there, unchanged, in `w'` -/
structure Grows (w w' : XWriter) : Prop where
  keys : ∃ ek, w'.keys = w.keys ++ ek
  vals : ∃ ev, w'.values.map (·.1) = w.values.map (·.1) ++ ev
  blocks : ∃ eb, w'.blocks = w.blocks ++ eb
  same : ∀ b ∈ w.blocks, blockPairs w'.pairs b = blockPairs w.pairs b

theorem Grows.refl (w : XWriter) : Grows w w := ⟨⟨[], by simp⟩, ⟨[], by simp⟩, ⟨[], by simp⟩, fun _ _ => rfl⟩

theorem Grows.trans {a b c : XWriter} (h1 : Grows a b) (h2 : Grows b c) : Grows a c := by
  obtain ⟨k1, hk1⟩ := h1.keys; obtain ⟨k2, hk2⟩ := h2.keys
  obtain ⟨v1, hv1⟩ := h1.vals; obtain ⟨v2, hv2⟩ := h2.vals
  obtain ⟨b1, hb1⟩ := h1.blocks; obtain ⟨b2, hb2⟩ := h2.blocks
  refine ⟨⟨k1 ++ k2, by rw [hk2, hk1]; simp⟩, ⟨v1 ++ v2, by rw [hv2, hv1]; simp⟩, ⟨b1 ++ b2, by rw [hb2, hb1]; simp⟩, ?_⟩
  intro x hx
  rw [h2.same x (by rw [hb1]; exact List.mem_append_left _ hx), h1.same x hx]

theorem blockPairs_take (l : List (Nat × Nat)) (k : Nat) (b : Nat × Nat) (hb : b.1 + b.2 ≤ k) :
    blockPairs (l.take k) b = blockPairs l b := by
  unfold blockPairs
  rw [List.drop_take, List.take_take]
  congr 1
  omega

/-! ### all `add_kv` calls of one set -/

theorem addAllKv_spec : ∀ (kvs : List (Bytes × Bytes)) (w : XWriter), XCur w → (∀ kv ∈ kvs, KvOk kv) →
    ∃ w', addAllKv w kvs = .ok w' ∧ XCur w' ∧ w'.kvStart = w.kvStart ∧ w'.blocks = w.blocks
      ∧ w'.pairs.take w.kvStart = w.pairs.take w.kvStart
      ∧ (∃ ek, w'.keys = w.keys ++ ek) ∧ (∃ ev, w'.values.map (·.1) = w.values.map (·.1) ++ ev)
      ∧ curSet w' = kvs.foldl canonStep (curSet w) := by
  intro kvs
  induction kvs with
  | nil => intro w hc _; exact ⟨w, rfl, hc, rfl, rfl, rfl, ⟨[], by simp⟩, ⟨[], by simp⟩, rfl⟩
  | cons kv rest ih =>
    intro w hc hall
    obtain ⟨⟨t, hk⟩, hkl, hvl⟩ := hall kv (List.mem_cons_self ..)
    obtain ⟨w1, h1, c1, s1, b1, t1, ⟨ek1, k1⟩, ⟨ev1, v1⟩, cs1⟩ := addKv_spec w hc kv.1 kv.2 t hk hkl hvl
    obtain ⟨w2, h2, c2, s2, b2, t2, ⟨ek2, k2⟩, ⟨ev2, v2⟩, cs2⟩ := ih w1 c1 (fun x hx => hall x (List.mem_cons_of_mem _ hx))
    refine ⟨w2, by simp only [addAllKv, h1, h2], c2, by rw [s2, s1], by rw [b2, b1], ?_, ⟨ek1 ++ ek2, by rw [k2, k1]; simp⟩,
      ⟨ev1 ++ ev2, by rw [v2, v1]; simp⟩, by rw [cs2, cs1]; rfl⟩
    rw [s1] at t2; rw [t2, t1]

/-! ### what is stored for a set -/

/-- index `i` stands for the set `s`: either the set is empty and `i` is "no xattrs", or block `i` holds exactly the
index pairs of `canonSet s`, sorted -/
def Stored (w : XWriter) (s : List (Bytes × Bytes)) (i : Nat) : Prop :=
  (canonSet s = [] ∧ i = NONE32) ∨
  (canonSet s ≠ [] ∧ i < w.blocks.length
    ∧ blockPairs w.pairs (w.blocks.getD i (0, 0)) = sortPairs ((canonSet s).map (idxPair w))
    ∧ ∀ kv ∈ canonSet s, kv.1 ∈ w.keys ∧ kv.2 ∈ w.values.map (·.1))

theorem idxPair_grows {w w' : XWriter} (g : Grows w w') (kv : Bytes × Bytes) (h1 : kv.1 ∈ w.keys)
    (h2 : kv.2 ∈ w.values.map (·.1)) : idxPair w' kv = idxPair w kv := by
  obtain ⟨ek, hk⟩ := g.keys
  obtain ⟨ev, hv⟩ := g.vals
  simp only [idxPair, hk, hv, List.idxOf_append, if_pos h1, if_pos h2]

theorem Stored.grows {w w' : XWriter} {s : List (Bytes × Bytes)} {i : Nat} (h : Stored w s i) (g : Grows w w') : Stored w' s i := by
  rcases h with h | ⟨h0, h1, h2, h3⟩
  · exact Or.inl h
  · obtain ⟨eb, hb⟩ := g.blocks
    obtain ⟨ek, hk⟩ := g.keys
    obtain ⟨ev, hv⟩ := g.vals
    have hget : w'.blocks.getD i (0, 0) = w.blocks.getD i (0, 0) := by rw [hb]; exact getD_append_left _ _ _ _ h1
    have hmem : w.blocks.getD i (0, 0) ∈ w.blocks := by
      simp only [List.getD_eq_getElem?_getD, List.getElem?_eq_getElem h1, Option.getD_some]; exact List.getElem_mem h1
    refine Or.inr ⟨h0, by rw [hb]; simp; omega, ?_, ?_⟩
    · rw [hget, g.same _ hmem, h2]
      congr 1
      apply List.map_congr_left
      intro kv hkv
      exact (idxPair_grows g kv (h3 kv hkv).1 (h3 kv hkv).2).symm
    · intro kv hkv
      exact ⟨by rw [hk]; exact List.mem_append_left _ (h3 kv hkv).1, by rw [hv]; exact List.mem_append_left _ (h3 kv hkv).2⟩

/-- index pair ↔ string pair are inverse on valid pairs -/
theorem idxPair_strPair (w : XWriter) (hk : w.keys.Nodup) (hv : (w.values.map (·.1)).Nodup) (p : Nat × Nat)
    (h1 : p.1 < w.keys.length) (h2 : p.2 < w.values.length) : idxPair w (strPair w p) = p := by
  simp only [idxPair, strPair, keyOf, valOf]
  have a : w.keys.idxOf (w.keys.getD p.1 []) = p.1 := by
    simp only [List.getD_eq_getElem?_getD, List.getElem?_eq_getElem h1, Option.getD_some]
    exact List.Nodup.idxOf_getElem hk p.1 h1
  have h2' : p.2 < (w.values.map (·.1)).length := by simpa using h2
  have b : (w.values.map (·.1)).idxOf (w.values.getD p.2 ([], 0)).1 = p.2 := by
    rw [getD_fst]
    simp only [List.getD_eq_getElem?_getD, List.getElem?_eq_getElem h2', Option.getD_some]
    exact List.Nodup.idxOf_getElem hv p.2 h2'
  rw [a, b]

theorem endSet_blocks (w : XWriter) : ∃ eb, (endSet w).1.blocks = w.blocks ++ eb := by
  unfold endSet
  simp only
  split
  · exact ⟨[], by simp⟩
  · split
    · exact ⟨[], by simp⟩
    · exact ⟨_, rfl⟩

theorem endSet_keys_values (w : XWriter) : (endSet w).1.keys = w.keys ∧ (endSet w).1.values = w.values := by
  unfold endSet
  simp only
  split
  · exact ⟨rfl, rfl⟩
  · split <;> exact ⟨rfl, rfl⟩

theorem endSet_pairs_mem (w : XWriter) : ∀ p ∈ (endSet w).1.pairs, p ∈ w.pairs := by
  unfold endSet
  simp only
  intro p
  split
  · exact id
  · split
    · intro h; exact List.mem_of_mem_take h
    · intro h
      rcases List.mem_append.mp h with h | h
      · exact List.mem_of_mem_take h
      · exact List.mem_of_mem_drop ((sortPairs_mem p _).mp h)

/-- **one set, from `begin` to `end`** -/
theorem recordSet_spec (w : XWriter) (hi : XInv w) (s : List (Bytes × Bytes)) (hs : ∀ kv ∈ s, KvOk kv) :
    ∃ w' i, recordSet w s = .ok (w', i) ∧ XInv w' ∧ Grows w w' ∧ Stored w' s i := by
  obtain ⟨w1, h1, c1, s1, b1, t1, ⟨ek, k1⟩, ⟨ev, v1⟩, cs1⟩ := addAllKv_spec s (beginSet w) hi hs
  have hcs : curSet w1 = canonSet s := by rw [cs1]; simp [curSet, beginSet, canonSet]
  simp only [beginSet] at s1 b1 t1 k1 v1
  obtain ⟨e1, e2⟩ := endSet_spec w1 c1.ks c1.bl
  obtain ⟨ekv1, ekv2⟩ := endSet_keys_values w1
  obtain ⟨eb, heb⟩ := endSet_blocks w1
  refine ⟨(endSet w1).1, (endSet w1).2, by simp only [recordSet, h1], ?_, ?_, ?_⟩
  · -- the invariant between sets
    by_cases hlt : w1.kvStart < w1.pairs.length
    · obtain ⟨_, _, _, a4, _, _⟩ := e2 hlt
      exact ⟨by simp only [beginSet, ekv1]; exact c1.kN, by simp only [beginSet, ekv2]; exact c1.vN,
        by intro p hp; simp only [beginSet, ekv1, ekv2] at hp ⊢; exact c1.rng p (endSet_pairs_mem w1 p hp),
        by simp [beginSet], by simpa [beginSet] using a4, by simp [beginSet],
        by simp only [beginSet, ekv1]; exact c1.keyOk, by simp only [beginSet, ekv2]; exact c1.valOk⟩
    · have heq : w1.pairs.length = w1.kvStart := by have := c1.ks; omega
      rw [e1 heq]
      exact ⟨c1.kN, c1.vN, c1.rng, by simp [beginSet], by intro b hb; have := c1.bl b hb; simp only [beginSet]; omega,
        by simp [beginSet], c1.keyOk, c1.valOk⟩
  · -- nothing recorded before has moved
    have hbl : ∀ b ∈ w.blocks, b.1 + b.2 ≤ w.pairs.length := by
      intro b hb; have := hi.bl b hb; simpa [beginSet] using this
    refine ⟨⟨ek, by rw [ekv1, k1]⟩, ⟨ev, by rw [ekv2, v1]⟩, ⟨eb, by rw [heb, b1]⟩, ?_⟩
    intro b hb
    have hb1 : b ∈ w1.blocks := by rw [b1]; exact hb
    have step1 : blockPairs w1.pairs b = blockPairs w.pairs b := by
      rw [← blockPairs_take w1.pairs w.pairs.length b (hbl b hb), t1, List.take_length]
    by_cases hlt : w1.kvStart < w1.pairs.length
    · obtain ⟨_, _, a3, _, _, _⟩ := e2 hlt
      obtain ⟨i, hil, hig⟩ := List.getElem_of_mem hb1
      have := (a3 i hil).2
      simp only [List.getD_eq_getElem?_getD, List.getElem?_eq_getElem hil, Option.getD_some, hig] at this
      rw [this, step1]
    · have heq : w1.pairs.length = w1.kvStart := by have := c1.ks; omega
      rw [e1 heq]; exact step1
  · -- the index handed out stands for the set
    by_cases hlt : w1.kvStart < w1.pairs.length
    · obtain ⟨a1, a2, _, _, _, _⟩ := e2 hlt
      have hvalid : ∀ p ∈ w1.pairs.drop w1.kvStart, p.1 < w1.keys.length ∧ p.2 < w1.values.length :=
        fun p hp => c1.rng p (List.mem_of_mem_drop hp)
      have hne : canonSet s ≠ [] := by
        rw [← hcs]; simp only [curSet, ne_eq, List.map_eq_nil_iff, List.drop_eq_nil_iff, Nat.not_le]; exact hlt
      have hidx : (canonSet s).map (idxPair (endSet w1).1) = w1.pairs.drop w1.kvStart := by
        rw [← hcs]
        simp only [curSet, List.map_map]
        conv => rhs; rw [← List.map_id (w1.pairs.drop w1.kvStart)]
        apply List.map_congr_left
        intro p hp
        simp only [Function.comp, idxPair, ekv1, ekv2, id]
        exact idxPair_strPair w1 c1.kN c1.vN p (hvalid p hp).1 (hvalid p hp).2
      refine Or.inr ⟨hne, a1, by rw [a2, hidx], ?_⟩
      intro kv hkv
      rw [← hcs] at hkv
      simp only [curSet, List.mem_map] at hkv
      obtain ⟨p, hp, rfl⟩ := hkv
      have hv := hvalid p hp
      rw [ekv1, ekv2]
      constructor
      · simp only [strPair, keyOf, List.getD_eq_getElem?_getD, List.getElem?_eq_getElem hv.1, Option.getD_some]
        exact List.getElem_mem hv.1
      · simp only [strPair, valOf]
        rw [getD_fst]
        have hv2 : p.2 < (w1.values.map (·.1)).length := by simpa using hv.2
        simp only [List.getD_eq_getElem?_getD, List.getElem?_eq_getElem hv2, Option.getD_some]
        exact List.getElem_mem hv2
    · have heq : w1.pairs.length = w1.kvStart := by have := c1.ks; omega
      rw [e1 heq]
      refine Or.inl ⟨?_, rfl⟩
      rw [← hcs]
      simp only [curSet, List.map_eq_nil_iff, List.drop_eq_nil_iff]; omega

/-- **every set of a run**: `recordAll` from a state satisfying the invariant accepts every list of representable
sets, and in the final writer every index stands for its set -/
theorem recordAll_spec : ∀ (sets : List (List (Bytes × Bytes))) (w : XWriter), XInv w → (∀ s ∈ sets, ∀ kv ∈ s, KvOk kv) →
    ∃ wF idxs, recordAll w sets = .ok (wF, idxs) ∧ XInv wF ∧ Grows w wF ∧ idxs.length = sets.length
      ∧ ∀ k, k < sets.length → Stored wF (sets.getD k []) (idxs.getD k 0) := by
  intro sets
  induction sets with
  | nil => intro w hi _; exact ⟨w, [], rfl, hi, Grows.refl w, rfl, fun k hk => absurd hk (by simp)⟩
  | cons s rest ih =>
    intro w hi hall
    obtain ⟨w1, i, h1, i1, g1, st1⟩ := recordSet_spec w hi s (hall s (List.mem_cons_self ..))
    obtain ⟨wF, idxs, h2, i2, g2, hl, st2⟩ := ih w1 i1 (fun x hx => hall x (List.mem_cons_of_mem _ hx))
    refine ⟨wF, i :: idxs, by simp only [recordAll, h1, h2], i2, g1.trans g2, by simp [hl], ?_⟩
    intro k hk
    cases k with
    | zero => exact st1.grows g2
    | succ k => simpa using st2 k (by simpa using hk)

end Sqfs.Enc
