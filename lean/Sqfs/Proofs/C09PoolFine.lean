/-
Helper lemmas for the fine-granularity model (`Model/C09PoolFine.lean`): the main thread's lock-free tails commute with
every worker step (mover lemma), mutual exclusion, and the step-by-step simulation of the fine model by the base model
under the abstraction `fabs` (complete the pending tails).
-/
import Sqfs.Proofs.Pool
import Sqfs.Model.C09PoolFine
namespace Sqfs.Pool
open List

/-! ### the main thread's tails commute with every worker step (mover lemma) -/

theorem getNextWork_privUpd (f1 f2 : Nat → Nat) (l1 : List Nat) (l2 : List Ret) (s : State) (i : Nat) :
    getNextWork (privUpd f1 f2 l1 l2 s) i = privUpd f1 f2 l1 l2 (getNextWork s i) := by
  unfold getNextWork privUpd
  dsimp only
  split
  · rfl
  · split <;> rfl

theorem stepWorker_privUpd (cfg : Cfg) (f1 f2 : Nat → Nat) (l1 : List Nat) (l2 : List Ret) (s : State) (i : Nat)
    (spur : Bool) :
    stepWorker cfg (privUpd f1 f2 l1 l2 s) i spur = (stepWorker cfg s i spur).map (privUpd f1 f2 l1 l2) := by
  unfold stepWorker
  have hw : (privUpd f1 f2 l1 l2 s).workers = s.workers := rfl
  rw [hw]
  split
  · rfl
  · split
    · rfl
    · simp only [Option.map_some, getNextWork_privUpd]
  · split
    · simp only [Option.map_some, getNextWork_privUpd]
    · rfl
  · split
    · rfl
    · rfl
  · split
    · rfl
    · simp only [Option.map_some, ← getNextWork_privUpd]; rfl
  · rfl

theorem stepWorker_applyTail (cfg : Cfg) (n : Nat) (m : FM) (s : State) (i : Nat) (spur : Bool) :
    stepWorker cfg (applyTail n m s) i spur = (stepWorker cfg s i spur).map (applyTail n m) := by
  unfold applyTail
  split
  · exact stepWorker_privUpd ..
  · exact stepWorker_privUpd ..
  · exact stepWorker_privUpd ..
  · exact stepWorker_privUpd ..
  · exact stepWorker_privUpd ..
  · cases stepWorker cfg s i spur <;> rfl


/-- mutual exclusion, as far as the refinement needs it: while the main thread holds the mutex no worker does -/
def Mx (fs : FState) : Prop := fs.fm.isLocked = true → ∀ (j : Nat) (w : FW), fs.fw[j]? = some w → w.isLocked = false

theorem fbase_workers_get (fs : FState) (i : Nat) : (fbase fs).workers[i]? = (fs.fw[i]?).map absW := by
  simp [fbase]

theorem fbase_set (fs : FState) (i : Nat) (w : FW) :
    fbase { fs with fw := fs.fw.set i w } = { fbase fs with workers := (fbase fs).workers.set i (absW w) } := by
  simp [fbase, List.map_set]

theorem fbase_fgetNextWork (fs : FState) (i : Nat) : fbase (fgetNextWork fs i) = getNextWork (fbase fs) i := by
  by_cases hs : fs.status ≠ 0
  · have hs' : (fbase fs).status ≠ 0 := hs
    simp only [fgetNextWork, getNextWork, if_pos hs, if_pos hs']
    rw [fbase_set]; rfl
  · have hs' : ¬ (fbase fs).status ≠ 0 := hs
    cases hq : fs.queue with
    | nil =>
      have hq' : (fbase fs).queue = [] := hq
      simp only [fgetNextWork, getNextWork, if_neg hs, if_neg hs', hq, hq']
      simp [fbase, List.map_set, absW, hq]
    | cons it q =>
      have hq' : (fbase fs).queue = it :: q := hq
      simp only [fgetNextWork, getNextWork, if_neg hs, if_neg hs', hq, hq']
      simp [fbase, List.map_set, absW]

theorem absM_wakeFM (n : Nat) (m : FM) (h : m.isLocked = false) : absM n (wakeFM m) = wakeMain (absM n m) := by
  cases m with
  | «at» pc => cases pc <;> rfl
  | locked l => simp [FM.isLocked] at h
  | unlocked t =>
    cases t with
    | destroy => simp only [wakeFM, absM]; split <;> rfl
    | submit st => rfl
    | deq o => rfl
    | status st => rfl

theorem applyTail_wakeFM (n : Nat) (m : FM) : applyTail n (wakeFM m) = applyTail n m := by
  cases m with
  | «at» pc => cases pc <;> rfl
  | locked l => rfl
  | unlocked t => rfl

theorem wakeFM_isLocked (m : FM) : (wakeFM m).isLocked = m.isLocked := by
  cases m with
  | «at» pc => cases pc <;> rfl
  | locked l => rfl
  | unlocked t => rfl


/-! ### worker steps -/

theorem set_same {α : Type} (l : List α) (i : Nat) (a : α) (h : l[i]? = some a) : l.set i a = l := by
  induction l generalizing i with
  | nil => rfl
  | cons x xs ih =>
    cases i with
    | zero => simp at h; simp [h]
    | succ j => simp at h; simp [ih j h]

/-- replacing a thread's phase by one with the same abstraction does not change `fbase` -/
theorem fbase_set_same (fs : FState) (i : Nat) (w w' : FW) (hi : fs.fw[i]? = some w) (he : absW w' = absW w) :
    fbase { fs with fw := fs.fw.set i w' } = fbase fs := by
  rw [fbase_set]
  have : (fbase fs).workers[i]? = some (absW w') := by rw [fbase_workers_get, hi, he]; rfl
  rw [set_same _ _ _ this]

theorem getNextWork_set_self (s : State) (ws : List WPc) (i : Nat) (x : WPc) :
    getNextWork { s with workers := ws.set i x } i = getNextWork { s with workers := ws } i := by
  unfold getNextWork
  dsimp only
  split
  · simp [List.set_set]
  · split <;> simp [List.set_set]

theorem fgetNextWork_fw_length (fs : FState) (i : Nat) : (fgetNextWork fs i).fw.length = fs.fw.length := by
  unfold fgetNextWork
  split
  · simp
  · split <;> simp

theorem fgetNextWork_fm (fs : FState) (i : Nat) : (fgetNextWork fs i).fm = fs.fm := by
  unfold fgetNextWork
  split
  · rfl
  · split <;> rfl

theorem fbase_store (fs : FState) (it : Item) (rc : Int) (hml : fs.fm.isLocked = false) :
    fbase { fs with done := insertDone it fs.done,
                    status := (if rc ≠ 0 ∧ fs.status = 0 then rc else fs.status), fm := wakeFM fs.fm } =
    { fbase fs with done := insertDone it (fbase fs).done,
                    status := (if rc ≠ 0 ∧ (fbase fs).status = 0 then rc else (fbase fs).status),
                    main := wakeMain (fbase fs).main } := by
  have := absM_wakeFM fs.fw.length fs.fm hml
  simp only [fbase, this]
  rfl

/-- a fine worker step is, on `fbase`, a stutter or the base-model step of the same worker; the main thread's pending
tail is unaffected -/
theorem fbase_stepWorker (cfg : Cfg) {fs fs' : FState} (i : Nat) (spur : Bool) (hmx : Mx fs)
    (h : fstepWorker cfg fs i spur = some fs') :
    fs'.fw.length = fs.fw.length ∧ (∀ k, applyTail k fs'.fm = applyTail k fs.fm) ∧
    (fbase fs' = fbase fs ∨ ∃ spur', stepWorker cfg (fbase fs) i spur' = some (fbase fs')) := by
  have hget : ∀ w, fs.fw[i]? = some w → (fbase fs).workers[i]? = some (absW w) := by
    intro w hw; rw [fbase_workers_get, hw]; rfl
  unfold fstepWorker at h
  split at h
  · simp at h
  · -- at start: lock granted
    rename_i hi
    split at h
    · simp only [Option.some.injEq] at h; subst h
      exact ⟨by simp, fun _ => rfl, Or.inl (fbase_set_same fs i _ _ hi rfl)⟩
    · simp at h
  · rename_i sig hi
    split at h
    · simp only [Option.some.injEq] at h; subst h
      exact ⟨by simp, fun _ => rfl, Or.inl (fbase_set_same fs i _ _ hi rfl)⟩
    · simp at h
  · rename_i it rc hi
    split at h
    · simp only [Option.some.injEq] at h; subst h
      exact ⟨by simp, fun _ => rfl, Or.inl (fbase_set_same fs i _ _ hi rfl)⟩
    · simp at h
  · -- the callback body
    rename_i it hi
    split at h
    · simp at h
    · simp only [Option.some.injEq] at h; subst h
      refine ⟨by simp, fun _ => rfl, Or.inr ⟨false, ?_⟩⟩
      unfold stepWorker
      rw [hget _ hi]
      simp [absW, fbase, List.map_set]
  · simp at h
  · -- critical section after a callback: store_completed + get_next_work_item
    rename_i it rc hi
    split at h
    · simp at h
    · simp only [Option.some.injEq] at h; subst h
      have hml : fs.fm.isLocked = false := by
        cases hm : fs.fm.isLocked with
        | false => rfl
        | true => have := hmx hm i _ hi; simp [FW.isLocked] at this
      refine ⟨?_, ?_, Or.inr ⟨false, ?_⟩⟩
      · rw [fgetNextWork_fw_length]
      · intro k
        rw [fgetNextWork_fm]; exact applyTail_wakeFM k fs.fm
      · unfold stepWorker
        rw [hget _ hi]
        simp only [absW, WLk.pc, Bool.false_eq_true, if_false]
        rw [fbase_fgetNextWork]
        congr 1
        have e := getNextWork_set_self
          { fbase fs with done := insertDone it (fbase fs).done,
                          status := (if rc ≠ 0 ∧ (fbase fs).status = 0 then rc else (fbase fs).status),
                          main := wakeMain (fbase fs).main } (fbase fs).workers i .start
        refine e.trans ?_
        rw [fbase_store fs it rc hml]
  · -- critical section from `start` / `waitQ`: get_next_work_item
    rename_i l hnf hi
    split at h
    · simp at h
    · simp only [Option.some.injEq] at h; subst h
      refine ⟨fgetNextWork_fw_length fs i, ?_, Or.inr ?_⟩
      · intro k
        rw [fgetNextWork_fm]
      · cases l with
        | start =>
          refine ⟨false, ?_⟩
          unfold stepWorker
          rw [hget _ hi]
          simp only [absW, WLk.pc, Bool.false_eq_true, if_false]
          rw [fbase_fgetNextWork]
        | waitQ sig =>
          refine ⟨!sig, ?_⟩
          unfold stepWorker
          rw [hget _ hi]
          simp only [absW, WLk.pc]
          rw [fbase_fgetNextWork]
          cases sig <;> simp
        | finishing it rc => exact absurd rfl (hnf it rc)
  · -- tail: thread exit
    rename_i hi
    split at h
    · simp at h
    · simp only [Option.some.injEq] at h; subst h
      exact ⟨by simp, fun _ => rfl, Or.inl (fbase_set_same fs i _ _ hi rfl)⟩
  · -- tail: callback entry
    rename_i it hi
    split at h
    · simp at h
    · simp only [Option.some.injEq] at h; subst h
      exact ⟨by simp, fun _ => rfl, Or.inl (fbase_set_same fs i _ _ hi rfl)⟩

/-! ### main-thread steps -/

theorem absW_wakeFW (w : FW) (h : w.isLocked = false) : absW (wakeFW w) = wakeW (absW w) := by
  cases w with
  | «at» pc => cases pc <;> rfl
  | locked l => simp [FW.isLocked] at h
  | unlocked o => cases o <;> rfl

theorem map_absW_wakeFW (fw : List FW) (h : ∀ (j : Nat) (w : FW), fw[j]? = some w → w.isLocked = false) :
    (fw.map wakeFW).map absW = wakeAll (fw.map absW) := by
  unfold wakeAll
  rw [List.map_map, List.map_map]
  apply List.map_congr_left
  intro w hw
  obtain ⟨j, hj⟩ := List.getElem?_of_mem hw
  exact absW_wakeFW w (h j w hj)

theorem fabs_of_at (fs : FState) (pc : MPc) (h : fs.fm = .at pc) : fabs fs = fbase fs := by
  simp [fabs, h, applyTail]

theorem fabs_of_locked (fs : FState) (l : MLk) (h : fs.fm = .locked l) : fabs fs = fbase fs := by
  simp [fabs, h, applyTail]

theorem fbase_main (fs : FState) : (fbase fs).main = absM fs.fw.length fs.fm := rfl

theorem fabs_fsubmitCrit (fs : FState) (d : Nat)
    (hnl : ∀ (j : Nat) (w : FW), fs.fw[j]? = some w → w.isLocked = false) :
    fabs (fsubmitCrit fs d) = submitBody (fbase fs) d := by
  have hw := map_absW_wakeFW fs.fw hnl
  by_cases h0 : fs.status = 0
  · have h0' : (fbase fs).status = 0 := h0
    simp [fabs, fsubmitCrit, submitBody, applyTail, privUpd, fbase, absM, h0, hw]
  · have h0' : ¬ (fbase fs).status = 0 := h0
    simp [fabs, fsubmitCrit, submitBody, applyTail, privUpd, fbase, absM, h0, hw]

theorem fabs_fdeqGiveUp (cfg : Cfg) (fs : FState) : fabs (fdeqGiveUp cfg fs) = deqWaitOrNull cfg (fbase fs) := by
  unfold deqWaitOrNull fdeqGiveUp
  have hst : (fbase fs).status = fs.status := rfl
  rw [hst]
  split
  · simp [fabs, applyTail, privUpd, fbase, absM]
  · simp [fabs, applyTail, fbase, absM]

theorem fdeqGiveUp_fw (cfg : Cfg) (fs : FState) : (fdeqGiveUp cfg fs).fw = fs.fw := by
  unfold fdeqGiveUp; split <;> rfl

theorem fdeqCrit_fw (cfg : Cfg) (fs : FState) : (fdeqCrit cfg fs).fw = fs.fw := by
  unfold fdeqCrit
  split
  · exact fdeqGiveUp_fw cfg fs
  · split
    · rfl
    · exact fdeqGiveUp_fw cfg fs

theorem fabs_fdeqCrit (cfg : Cfg) (fs : FState) : fabs (fdeqCrit cfg fs) = deqTry cfg (fbase fs) := by
  cases hd : fs.done with
  | nil =>
    have hd' : (fbase fs).done = [] := hd
    simp only [fdeqCrit, deqTry, hd, hd']
    exact fabs_fdeqGiveUp cfg fs
  | cons it r =>
    have hd' : (fbase fs).done = it :: r := hd
    have hn : (fbase fs).nextDeq = fs.nextDeq := rfl
    simp only [fdeqCrit, deqTry, hd, hd', hn]
    split
    · simp [fabs, applyTail, privUpd, fbase, absM, deqReturn]
    · exact fabs_fdeqGiveUp cfg fs

theorem fabs_fmainTail (fs : FState) (t : MTail) (h : fs.fm = .unlocked t) : fabs (fmainTail fs t) = fabs fs := by
  cases t with
  | submit st => simp [fabs, fmainTail, applyTail, privUpd, fbase, absM, h]
  | deq o => cases o <;> simp [fabs, fmainTail, applyTail, privUpd, fbase, absM, h]
  | status st => simp [fabs, fmainTail, applyTail, privUpd, fbase, absM, h]
  | destroy =>
    by_cases hn : fs.fw.length = 0
    · simp [fabs, fmainTail, applyTail, privUpd, fbase, absM, h, hn]
    · simp [fabs, fmainTail, applyTail, privUpd, fbase, absM, h, hn]

/-- a fine main-thread step is, under `fabs`, a stutter or a base-model step of the main thread -/
theorem fabs_stepMain (cfg : Cfg) {fs fs' : FState} (c : MChoice) (hmx : Mx fs)
    (h : fstepMain cfg fs c = some fs') :
    fs'.fw.length = fs.fw.length ∧ (fabs fs' = fabs fs ∨ ∃ c', stepMain cfg (fabs fs) c' = some (fabs fs')) := by
  have lockGrant : ∀ (pc : MPc) (l : MLk), fs.fm = .at pc → l.pc = pc →
      fabs { fs with fm := .locked l } = fabs fs := by
    intro pc l hfm hl
    rw [fabs_of_locked _ l rfl, fabs_of_at fs _ hfm]
    simp [fbase, hfm, absM, hl]
  unfold fstepMain at h
  split at h
  · -- submit: take an item from `recycle` / calloc
    rename_i d hfm
    simp only [Option.some.injEq] at h; subst h
    refine ⟨rfl, Or.inr ⟨.call (.submit d), ?_⟩⟩
    rw [fabs_of_at fs _ hfm, fabs_of_at _ (.submitLock d) rfl]
    simp [stepMain, fbase, hfm, absM]
  · -- dequeue: lock-free prefix (empty pool / fast path / slow path up to the lock)
    rename_i hfm
    rw [fabs_of_at fs _ hfm]
    split at h
    · rename_i h0
      simp only [Option.some.injEq] at h; subst h
      refine ⟨rfl, Or.inr ⟨.call .dequeue, ?_⟩⟩
      simp only [fabs, hfm, applyTail]
      simp [stepMain, fbase, hfm, absM, h0]
    · rename_i h0
      have h0' : ¬ (fbase fs).itemCount = 0 := h0
      split at h
      · rename_i it r hsd
        simp only [Option.some.injEq] at h; subst h
        refine ⟨rfl, Or.inr ⟨.call .dequeue, ?_⟩⟩
        simp only [fabs, hfm, applyTail]
        simp [stepMain, fbase, hfm, absM, h0, hsd, deqReturn]
      · rename_i hsd
        simp only [Option.some.injEq] at h; subst h
        refine ⟨rfl, Or.inr ⟨.call .dequeue, ?_⟩⟩
        rw [fabs_of_at _ .deqLock rfl]
        simp [stepMain, fbase, hfm, absM, h0, hsd]
  · rename_i hfm
    simp only [Option.some.injEq] at h; subst h
    refine ⟨rfl, Or.inr ⟨.call .getStatus, ?_⟩⟩
    rw [fabs_of_at fs _ hfm, fabs_of_at _ .statusLock rfl]
    simp [stepMain, fbase, hfm, absM]
  · rename_i hfm
    simp only [Option.some.injEq] at h; subst h
    refine ⟨rfl, Or.inr ⟨.call .destroy, ?_⟩⟩
    rw [fabs_of_at fs _ hfm, fabs_of_at _ .destroyLock rfl]
    simp [stepMain, fbase, hfm, absM]
  · -- (a) lock granted
    rename_i d hfm
    split at h
    · simp only [Option.some.injEq] at h; subst h
      exact ⟨rfl, Or.inl (lockGrant _ (.submit d) hfm rfl)⟩
    · simp at h
  · rename_i hfm
    split at h
    · simp only [Option.some.injEq] at h; subst h
      exact ⟨rfl, Or.inl (lockGrant _ .deq hfm rfl)⟩
    · simp at h
  · rename_i sig spur hfm
    split at h
    · simp only [Option.some.injEq] at h; subst h
      exact ⟨rfl, Or.inl (lockGrant _ (.deqWait sig) hfm rfl)⟩
    · simp at h
  · rename_i hfm
    split at h
    · simp only [Option.some.injEq] at h; subst h
      exact ⟨rfl, Or.inl (lockGrant _ .status hfm rfl)⟩
    · simp at h
  · rename_i hfm
    split at h
    · simp only [Option.some.injEq] at h; subst h
      exact ⟨rfl, Or.inl (lockGrant _ .destroy hfm rfl)⟩
    · simp at h
  · -- (b) critical section of submit
    rename_i d hfm
    simp only [Option.some.injEq] at h; subst h
    have hnl := hmx (by rw [hfm]; rfl)
    refine ⟨?_, Or.inr ⟨.cont false, ?_⟩⟩
    · unfold fsubmitCrit; dsimp only; split <;> simp
    · rw [fabs_fsubmitCrit fs d hnl, fabs_of_locked fs _ hfm]
      simp [stepMain, fbase_main, hfm, absM, MLk.pc]
  · -- (b) dequeue, first pass
    rename_i hfm
    simp only [Option.some.injEq] at h; subst h
    refine ⟨?_, Or.inr ⟨.cont false, ?_⟩⟩
    · rw [fdeqCrit_fw]
    · rw [fabs_fdeqCrit, fabs_of_locked fs _ hfm]
      simp [stepMain, fbase_main, hfm, absM, MLk.pc]
  · -- (b) dequeue, after a wake-up
    rename_i sig hfm
    simp only [Option.some.injEq] at h; subst h
    refine ⟨?_, Or.inr ⟨.cont (!sig), ?_⟩⟩
    · rw [fdeqCrit_fw]
    · rw [fabs_fdeqCrit, fabs_of_locked fs _ hfm]
      cases sig <;> simp [stepMain, fbase_main, hfm, absM, MLk.pc]
  · -- (b) get_status
    rename_i hfm
    simp only [Option.some.injEq] at h; subst h
    refine ⟨rfl, Or.inr ⟨.cont false, ?_⟩⟩
    rw [fabs_of_locked fs _ hfm]
    simp [stepMain, fabs, applyTail, privUpd, fbase, hfm, absM, MLk.pc]
  · -- (b) destroy
    rename_i hfm
    simp only [Option.some.injEq] at h; subst h
    have hnl := hmx (by rw [hfm]; rfl)
    have hw := map_absW_wakeFW fs.fw hnl
    refine ⟨by simp, Or.inr ⟨.cont false, ?_⟩⟩
    rw [fabs_of_locked fs _ hfm]
    by_cases hn : fs.fw.length = 0
    · simp [stepMain, fabs, applyTail, privUpd, fbase, hfm, absM, MLk.pc, hw, hn]
    · simp [stepMain, fabs, applyTail, privUpd, fbase, hfm, absM, MLk.pc, hw, hn]
  · -- (c) tail
    rename_i t hfm
    simp only [Option.some.injEq] at h; subst h
    refine ⟨?_, Or.inl (fabs_fmainTail fs t hfm)⟩
    cases t with
    | deq o => cases o <;> rfl
    | _ => rfl
  · -- pthread_join
    rename_i i hfm
    rw [fabs_of_at fs _ hfm]
    split at h
    · rename_i hex
      have hex' : (fbase fs).workers[i]? = some .exited := by rw [fbase_workers_get, hex]; rfl
      split at h
      · rename_i hlt
        simp only [Option.some.injEq] at h; subst h
        refine ⟨rfl, Or.inr ⟨.cont false, ?_⟩⟩
        rw [fabs_of_at _ (.join (i + 1)) rfl]
        have hlt' : i + 1 < (fbase fs).workers.length := by simp [fbase]; exact hlt
        simp [stepMain, fbase_main, hfm, absM, hex', hlt']
        simp [fbase, absM]
      · rename_i hlt
        simp only [Option.some.injEq] at h; subst h
        refine ⟨rfl, Or.inr ⟨.cont false, ?_⟩⟩
        rw [fabs_of_at _ .finished rfl]
        have hlt' : ¬ i + 1 < (fbase fs).workers.length := by simp [fbase]; simpa using hlt
        simp [stepMain, fbase_main, hfm, absM, hex', hlt']
        simp [fbase, absM]
    · simp at h
  · simp at h

/-! ### mutual exclusion is an invariant -/

theorem mutexFree_spec (fs : FState) (h : mutexFree fs = true) :
    fs.fm.isLocked = false ∧ ∀ (j : Nat) (w : FW), fs.fw[j]? = some w → w.isLocked = false := by
  simp only [mutexFree, Bool.and_eq_true, Bool.not_eq_true', List.all_eq_true] at h
  refine ⟨h.1, fun j w hj => ?_⟩
  have := h.2 w (List.mem_of_getElem? hj)
  simpa using this

/-- shape of a worker step: the main thread's lock status is untouched, one worker phase is replaced, and a
worker only becomes `locked` when the mutex was free -/
theorem fstepWorker_shape (cfg : Cfg) {fs fs' : FState} (i : Nat) (spur : Bool)
    (h : fstepWorker cfg fs i spur = some fs') :
    fs'.fm.isLocked = fs.fm.isLocked ∧ ∃ w', fs'.fw = fs.fw.set i w' ∧ (w'.isLocked = true → mutexFree fs = true) := by
  have gn : ∀ (g : FState), (fgetNextWork g i).fm = g.fm ∧
      ∃ w', (fgetNextWork g i).fw = g.fw.set i w' ∧ w'.isLocked = false := by
    intro g
    unfold fgetNextWork
    split
    · exact ⟨rfl, _, rfl, rfl⟩
    · split
      · exact ⟨rfl, _, rfl, rfl⟩
      · exact ⟨rfl, _, rfl, rfl⟩
  unfold fstepWorker at h
  split at h
  · simp at h
  · split at h
    · rename_i hc
      simp only [Option.some.injEq] at h; subst h
      simp only [Bool.and_eq_true] at hc
      exact ⟨rfl, _, rfl, fun _ => hc.2⟩
    · simp at h
  · split at h
    · rename_i hc
      simp only [Option.some.injEq] at h; subst h
      simp only [Bool.and_eq_true] at hc
      exact ⟨rfl, _, rfl, fun _ => hc.2⟩
    · simp at h
  · split at h
    · rename_i hc
      simp only [Option.some.injEq] at h; subst h
      simp only [Bool.and_eq_true] at hc
      exact ⟨rfl, _, rfl, fun _ => hc.2⟩
    · simp at h
  · split at h
    · simp at h
    · simp only [Option.some.injEq] at h; subst h
      exact ⟨rfl, _, rfl, fun hl => by simp [FW.isLocked] at hl⟩
  · simp at h
  · split at h
    · simp at h
    · simp only [Option.some.injEq] at h; subst h
      obtain ⟨h1, w', h2, h3⟩ := gn { fs with done := _, status := _, fm := wakeFM fs.fm }
      exact ⟨by rw [h1]; exact wakeFM_isLocked fs.fm, w', h2, fun hl => by rw [h3] at hl; cases hl⟩
  · split at h
    · simp at h
    · simp only [Option.some.injEq] at h; subst h
      obtain ⟨h1, w', h2, h3⟩ := gn fs
      exact ⟨by rw [h1], w', h2, fun hl => by rw [h3] at hl; cases hl⟩
  · split at h
    · simp at h
    · simp only [Option.some.injEq] at h; subst h
      exact ⟨rfl, _, rfl, fun hl => by simp [FW.isLocked] at hl⟩
  · split at h
    · simp at h
    · simp only [Option.some.injEq] at h; subst h
      exact ⟨rfl, _, rfl, fun hl => by simp [FW.isLocked] at hl⟩

/-- the main thread only becomes `locked` when the mutex was free, and then no worker phase changes -/
theorem fstepMain_locked (cfg : Cfg) {fs fs' : FState} (c : MChoice) (h : fstepMain cfg fs c = some fs')
    (hl : fs'.fm.isLocked = true) : mutexFree fs = true ∧ fs'.fw = fs.fw := by
  have crit1 : ∀ d, (fsubmitCrit fs d).fm.isLocked = false := by
    intro d; unfold fsubmitCrit; rfl
  have crit2 : (fdeqCrit cfg fs).fm.isLocked = false := by
    have g : (fdeqGiveUp cfg fs).fm.isLocked = false := by unfold fdeqGiveUp; split <;> rfl
    unfold fdeqCrit
    split
    · exact g
    · split
      · rfl
      · exact g
  unfold fstepMain at h
  split at h
  · simp only [Option.some.injEq] at h; subst h; simp [FM.isLocked] at hl
  · rename_i hfm
    split at h
    · simp only [Option.some.injEq] at h; subst h; simp [FM.isLocked, hfm] at hl
    · split at h
      · simp only [Option.some.injEq] at h; subst h; simp [FM.isLocked, hfm] at hl
      · simp only [Option.some.injEq] at h; subst h; simp [FM.isLocked] at hl
  · simp only [Option.some.injEq] at h; subst h; simp [FM.isLocked] at hl
  · simp only [Option.some.injEq] at h; subst h; simp [FM.isLocked] at hl
  · split at h
    · rename_i hc; simp only [Option.some.injEq] at h; subst h; exact ⟨hc, rfl⟩
    · simp at h
  · split at h
    · rename_i hc; simp only [Option.some.injEq] at h; subst h; exact ⟨hc, rfl⟩
    · simp at h
  · split at h
    · rename_i hc; simp only [Option.some.injEq] at h; subst h
      simp only [Bool.and_eq_true] at hc; exact ⟨hc.2, rfl⟩
    · simp at h
  · split at h
    · rename_i hc; simp only [Option.some.injEq] at h; subst h; exact ⟨hc, rfl⟩
    · simp at h
  · split at h
    · rename_i hc; simp only [Option.some.injEq] at h; subst h; exact ⟨hc, rfl⟩
    · simp at h
  · simp only [Option.some.injEq] at h; subst h; rw [crit1] at hl; cases hl
  · simp only [Option.some.injEq] at h; subst h; rw [crit2] at hl; cases hl
  · simp only [Option.some.injEq] at h; subst h; rw [crit2] at hl; cases hl
  · simp only [Option.some.injEq] at h; subst h; simp [FM.isLocked] at hl
  · simp only [Option.some.injEq] at h; subst h; simp [FM.isLocked] at hl
  · rename_i t hfm
    simp only [Option.some.injEq] at h; subst h
    exfalso
    cases t with
    | deq o => cases o <;> simp [fmainTail, FM.isLocked] at hl
    | destroy => simp only [fmainTail] at hl; split at hl <;> simp [FM.isLocked] at hl
    | _ => simp [fmainTail, FM.isLocked] at hl
  · split at h
    · split at h <;> (simp only [Option.some.injEq] at h; subst h; simp [FM.isLocked] at hl)
    · simp at h
  · simp at h

theorem mx_step (cfg : Cfg) {fs fs' : FState} (c : Choice) (hmx : Mx fs) (hs : fstep cfg fs c = some fs') : Mx fs' := by
  cases c with
  | main mc =>
    intro hl j w hj
    obtain ⟨hfree, hfw⟩ := fstepMain_locked cfg mc hs hl
    rw [hfw] at hj
    exact (mutexFree_spec fs hfree).2 j w hj
  | worker i spur =>
    obtain ⟨hfm, w', hfw, hw'⟩ := fstepWorker_shape cfg i spur hs
    intro hl j w hj
    rw [hfm] at hl
    rw [hfw] at hj
    rcases getElem?_set_cases _ _ _ _ _ hj with ⟨_, hwe⟩ | ⟨_, hj'⟩
    · subst hwe
      cases hwl : w.isLocked with
      | false => rfl
      | true =>
        have := (mutexFree_spec fs (hw' hwl)).1
        rw [hl] at this; cases this
    · exact hmx hl j w hj'

theorem mx_init (n : Nat) : Mx (finit n) := by
  intro hl; simp [finit, FM.isLocked] at hl

theorem mx_reachable {cfg : Cfg} {n : Nat} {fs : FState} (hr : FReachable cfg n fs) : Mx fs := by
  induction hr with
  | init => exact mx_init n
  | step c _ hs ih => exact mx_step cfg c ih hs

/-! ### … also between workers -/

/-- two workers never hold the mutex together -/
def MxW (fs : FState) : Prop :=
  ∀ (j k : Nat) (w w' : FW), fs.fw[j]? = some w → fs.fw[k]? = some w' → w.isLocked = true → w'.isLocked = true → j = k

theorem wakeFW_isLocked (w : FW) : (wakeFW w).isLocked = w.isLocked := by
  cases w with
  | «at» pc => cases pc <;> rfl
  | locked l => rfl
  | unlocked o => rfl

/-- a main-thread step leaves every worker's lock status as it was -/
theorem fstepMain_fw (cfg : Cfg) {fs fs' : FState} (c : MChoice) (h : fstepMain cfg fs c = some fs') :
    fs'.fw = fs.fw ∨ fs'.fw = fs.fw.map wakeFW := by
  have crit1 : ∀ d, (fsubmitCrit fs d).fw = fs.fw.map wakeFW := by
    intro d; unfold fsubmitCrit; dsimp only; split <;> rfl
  unfold fstepMain at h
  split at h
  · simp only [Option.some.injEq] at h; subst h; exact Or.inl rfl
  · split at h
    · simp only [Option.some.injEq] at h; subst h; exact Or.inl rfl
    · split at h
      · simp only [Option.some.injEq] at h; subst h; exact Or.inl rfl
      · simp only [Option.some.injEq] at h; subst h; exact Or.inl rfl
  · simp only [Option.some.injEq] at h; subst h; exact Or.inl rfl
  · simp only [Option.some.injEq] at h; subst h; exact Or.inl rfl
  · split at h
    · simp only [Option.some.injEq] at h; subst h; exact Or.inl rfl
    · simp at h
  · split at h
    · simp only [Option.some.injEq] at h; subst h; exact Or.inl rfl
    · simp at h
  · split at h
    · simp only [Option.some.injEq] at h; subst h; exact Or.inl rfl
    · simp at h
  · split at h
    · simp only [Option.some.injEq] at h; subst h; exact Or.inl rfl
    · simp at h
  · split at h
    · simp only [Option.some.injEq] at h; subst h; exact Or.inl rfl
    · simp at h
  · simp only [Option.some.injEq] at h; subst h; exact Or.inr (crit1 _)
  · simp only [Option.some.injEq] at h; subst h; exact Or.inl (fdeqCrit_fw cfg fs)
  · simp only [Option.some.injEq] at h; subst h; exact Or.inl (fdeqCrit_fw cfg fs)
  · simp only [Option.some.injEq] at h; subst h; exact Or.inl rfl
  · simp only [Option.some.injEq] at h; subst h; exact Or.inr rfl
  · rename_i t hfm
    simp only [Option.some.injEq] at h; subst h
    left
    cases t with
    | deq o => cases o <;> rfl
    | _ => rfl
  · split at h
    · split at h <;> (simp only [Option.some.injEq] at h; subst h; exact Or.inl rfl)
    · simp at h
  · simp at h

theorem mxw_step (cfg : Cfg) {fs fs' : FState} (c : Choice) (hmx : MxW fs) (hs : fstep cfg fs c = some fs') :
    MxW fs' := by
  cases c with
  | main mc =>
    intro j k w w' hj hk hw hw'
    rcases fstepMain_fw cfg mc hs with e | e
    · rw [e] at hj hk; exact hmx j k w w' hj hk hw hw'
    · rw [e, List.getElem?_map] at hj hk
      cases hj0 : fs.fw[j]? with
      | none => rw [hj0] at hj; cases hj
      | some v =>
        cases hk0 : fs.fw[k]? with
        | none => rw [hk0] at hk; cases hk
        | some v' =>
          rw [hj0] at hj; rw [hk0] at hk
          simp only [Option.map_some, Option.some.injEq] at hj hk
          subst hj; subst hk
          rw [wakeFW_isLocked] at hw hw'
          exact hmx j k v v' hj0 hk0 hw hw'
  | worker i spur =>
    obtain ⟨_, w0, hfw, hw0⟩ := fstepWorker_shape cfg i spur hs
    intro j k w w' hj hk hw hw'
    rw [hfw] at hj hk
    rcases getElem?_set_cases _ _ _ _ _ hj with ⟨hji, hwe⟩ | ⟨hji, hj'⟩
    · subst hwe
      rcases getElem?_set_cases _ _ _ _ _ hk with ⟨hki, _⟩ | ⟨_, hk'⟩
      · rw [← hji, ← hki]
      · have := (mutexFree_spec fs (hw0 hw)).2 k w' hk'
        rw [hw'] at this; cases this
    · rcases getElem?_set_cases _ _ _ _ _ hk with ⟨_, hwe⟩ | ⟨_, hk'⟩
      · subst hwe
        have := (mutexFree_spec fs (hw0 hw')).2 j w hj'
        rw [hw] at this; cases this
      · exact hmx j k w w' hj' hk' hw hw'

theorem mxw_init (n : Nat) : MxW (finit n) := by
  intro j k w w' hj _ hw _
  simp only [finit] at hj
  rw [List.getElem?_replicate] at hj
  split at hj
  · cases hj; cases hw
  · cases hj

theorem mxw_reachable {cfg : Cfg} {n : Nat} {fs : FState} (hr : FReachable cfg n fs) : MxW fs := by
  induction hr with
  | init => exact mxw_init n
  | step c _ hs ih => exact mxw_step cfg c ih hs

/-! ### the simulation -/

theorem fstep_sim (cfg : Cfg) {fs fs' : FState} (c : Choice) (hmx : Mx fs) (hs : fstep cfg fs c = some fs') :
    fabs fs' = fabs fs ∨ ∃ c', step cfg (fabs fs) c' = some (fabs fs') := by
  cases c with
  | main mc =>
    rcases (fabs_stepMain cfg mc hmx hs).2 with h | ⟨c', h⟩
    · exact Or.inl h
    · exact Or.inr ⟨.main c', h⟩
  | worker i spur =>
    obtain ⟨hlen, htail, hb⟩ := fbase_stepWorker cfg i spur hmx hs
    have e : fabs fs' = applyTail fs.fw.length fs.fm (fbase fs') := by
      unfold fabs; rw [hlen, htail]
    rcases hb with hb | ⟨spur', hb⟩
    · left; rw [e, hb]; rfl
    · right
      refine ⟨.worker i spur', ?_⟩
      simp only [step]
      unfold fabs at e ⊢
      rw [stepWorker_applyTail, hb, e]; rfl

theorem fabs_finit (n : Nat) : fabs (finit n) = init n := by
  simp [fabs, finit, applyTail, fbase, absM, init, absW]

theorem freachable_abs {cfg : Cfg} {n : Nat} {fs : FState} (hr : FReachable cfg n fs) : Reachable cfg n (fabs fs) := by
  induction hr with
  | init => rw [fabs_finit]; exact .init
  | step c hr' hs ih =>
    rcases fstep_sim cfg c (mx_reachable hr') hs with h | ⟨c', h⟩
    · rw [h]; exact ih
    · exact .step c' ih h

/-! ### progress at fine granularity -/

/-- the main thread is inside an API call -/
def fmainInCall (fs : FState) : Bool :=
  match fs.fm with
  | .at .idle => false
  | .at .finished => false
  | _ => true

/-- a thread that is past a lock acquisition or past an unlock can always go on -/
theorem fw_phase_steps (cfg : Cfg) (fs : FState) (i : Nat) (w : FW) (hi : fs.fw[i]? = some w)
    (hw : ∀ pc, w ≠ .at pc) : ∃ fs', fstepWorker cfg fs i false = some fs' := by
  unfold fstepWorker
  rw [hi]
  cases w with
  | «at» pc => exact absurd rfl (hw pc)
  | locked l => cases l <;> exact ⟨_, rfl⟩
  | unlocked o => cases o <;> exact ⟨_, rfl⟩

end Sqfs.Pool
