/-
C02, `packRef = specPack`, part 0: the observables the two functions share (`PackView`) and the translation of the
inputs.
-/
import Sqfs.Proofs.BPSpecPack
namespace Sqfs.BlockProc
open Sqfs.Consts
open Sqfs.BlockWriter (hasFlag)

/-- the observables `specPack` and the block processor share -/
structure PackView where
  file : Bytes
  frags : List (Nat × Nat)
  files : List FileRes
deriving DecidableEq

/-- forgets `calls` (the `write_data_block` log, which includes the sentinel and sparse calls) -/
def Output.view (o : Output) : PackView := ⟨o.file, o.frags, o.files⟩

/-- the inode fields of one file as the tools serialise them -/
def resView (r : Sqfs.Pack.FileResult) : FileRes :=
  ⟨r.size, r.words.map Sqfs.Pack.Word.toNat, r.start, (r.frag.map (·.1)).getD 0xFFFFFFFF,
   (r.frag.map (·.2)).getD 0xFFFFFFFF, r.sparse, r.extended⟩

/-- forgets `shared` (ghost) and the block boundaries of `blocks` -/
def specView (pre : Bytes) (o : Sqfs.Pack.Out) : PackView :=
  ⟨pre ++ o.area,
   o.frags.map (fun e => (e.start, (Sqfs.Pack.Word.stored e.size e.raw).toNat)),
   o.files.map (fun r => ⟨r.size, r.words.map Sqfs.Pack.Word.toNat, r.start, (r.frag.map (·.1)).getD 0xFFFFFFFF,
                          (r.frag.map (·.2)).getD 0xFFFFFFFF, r.sparse, r.extended⟩)⟩

def toPackFiles (files : List InFile) : List Sqfs.Pack.InFile :=
  files.map fun f => ⟨Sqfs.Pack.Flags.ofNat f.flags, f.data⟩

end Sqfs.BlockProc
