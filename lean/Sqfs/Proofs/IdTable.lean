import Sqfs.Model.IdTable
namespace Sqfs.IdTable

theorem step_spec (lim : Nat) (tbl : List Nat) (id i : Nat) (t : List Nat) (hl : tbl.length ≤ lim)
    (hn : tbl.Nodup) (h : step lim tbl id = some (i, t)) :
    t.length ≤ lim ∧ i < t.length ∧ tbl.length ≤ t.length ∧ t.Nodup ∧ t[i]? = some id := by
  unfold step at h
  simp only at h
  by_cases h1 : tbl.idxOf id < tbl.length
  · rw [if_pos h1] at h
    simp only [Option.some.injEq, Prod.mk.injEq] at h
    obtain ⟨rfl, rfl⟩ := h
    refine ⟨hl, h1, Nat.le_refl _, hn, ?_⟩
    rw [List.getElem?_eq_getElem h1]
    simp
  · rw [if_neg h1] at h
    by_cases h2 : tbl.length = lim
    · rw [if_pos h2] at h; simp at h
    · rw [if_neg h2] at h
      simp only [Option.some.injEq, Prod.mk.injEq] at h
      obtain ⟨rfl, rfl⟩ := h
      have hnot : id ∉ tbl := by
        intro hm; exact h1 (List.idxOf_lt_length_iff.mpr hm)
      refine ⟨by simp; omega, by simp, by simp, ?_, by simp⟩
      rw [List.nodup_append]
      refine ⟨hn, by simp, ?_⟩
      intro a ha b hb
      simp only [List.mem_singleton] at hb
      subst hb
      intro hab; subst hab; exact hnot ha

theorem addAll_spec (lim : Nat) : ∀ (ids tbl t is : List Nat), tbl.length ≤ lim → tbl.Nodup →
    addAll lim tbl ids = some (t, is) →
    t.length ≤ lim ∧ tbl.length ≤ t.length ∧ t.Nodup ∧ is.length = ids.length ∧ ∀ i ∈ is, i < t.length := by
  intro ids
  induction ids with
  | nil =>
    intro tbl t is hl hn h
    simp only [addAll, Option.some.injEq, Prod.mk.injEq] at h
    obtain ⟨rfl, rfl⟩ := h
    exact ⟨hl, Nat.le_refl _, hn, rfl, by simp⟩
  | cons id rest ih =>
    intro tbl t is hl hn h
    simp only [addAll] at h
    cases hs : step lim tbl id with
    | none => rw [hs] at h; simp at h
    | some p =>
      obtain ⟨i, t1⟩ := p
      rw [hs] at h
      simp only at h
      obtain ⟨s1, s2, s3, s4, _⟩ := step_spec lim tbl id i t1 hl hn hs
      cases hr : addAll lim t1 rest with
      | none => rw [hr] at h; simp at h
      | some q =>
        obtain ⟨t2, is2⟩ := q
        rw [hr] at h
        simp only [Option.map_some, Option.some.injEq, Prod.mk.injEq] at h
        obtain ⟨rfl, rfl⟩ := h
        obtain ⟨r1, r2, r3, r4, r5⟩ := ih t1 t2 is2 s1 s4 hr
        refine ⟨r1, by omega, r3, by simp [r4], ?_⟩
        intro j hj
        simp only [List.mem_cons] at hj
        rcases hj with hj | hj
        · subst hj; omega
        · exact r5 j hj

end Sqfs.IdTable
