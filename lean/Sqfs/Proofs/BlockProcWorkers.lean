/-
C02 helper lemmas: the block processor over a pool of workers with private compressors (`Model/BlockProcWorkers.lean`) is,
for a constant codec family, the machine of `Model/BlockProc.lean` — the verbatim copy is faithful.
-/
import Sqfs.Model.BlockProcWorkers
import Sqfs.Proofs.C02Worker
namespace Sqfs.BlockProc
open Sqfs.Consts
open Sqfs.BlockWriter (hasFlag)

section
variable {κ : Nat → Codec} {P : Params} (h : ∀ t, κ t = P.codec)
include h

theorem poolSubmitK_const (p : PoolSt) (b : Blk) : poolSubmitK κ P p b = poolSubmit P p b := by
  unfold poolSubmitK poolSubmit
  rw [h]
  cases P
  rfl

theorem enqueueBlockK_const (s : Proc) (b : Blk) : enqueueBlockK κ P s b = enqueueBlock P s b := by
  unfold enqueueBlockK enqueueBlock
  simp only [poolSubmitK_const h] <;> rfl

theorem makeRoomK_const (s : Proc) (len : Nat) : makeRoomK κ P s len = makeRoom P s len := by
  unfold makeRoomK makeRoom
  simp only [enqueueBlockK_const h] <;> rfl

theorem storeFragK_const (s : Proc) (frag : Blk) : storeFragK κ P s frag = storeFrag P s frag := by
  unfold storeFragK storeFrag
  simp only [makeRoomK_const h] <;> rfl

theorem processCompletedFragmentK_const (s : Proc) (frag : Blk) :
    processCompletedFragmentK κ P s frag = processCompletedFragment P s frag := by
  unfold processCompletedFragmentK processCompletedFragment
  simp only [storeFragK_const h] <;> rfl

theorem handleDequeuedK_const (s : Proc) (blk : Blk) : handleDequeuedK κ P s blk = handleDequeued P s blk := by
  unfold handleDequeuedK handleDequeued
  simp only [processCompletedFragmentK_const h] <;> rfl

theorem dequeueGoK_const (bo : Nat) : ∀ (fuel : Nat) (s : Proc), dequeueGoK κ P bo fuel s = dequeueGo P bo fuel s
  | 0, _ => rfl
  | fuel + 1, s => by
    unfold dequeueGoK dequeueGo
    simp only [handleDequeuedK_const h, dequeueGoK_const bo fuel] <;> rfl

theorem dequeueBlockK_const (s : Proc) : dequeueBlockK κ P s = dequeueBlock P s := by
  unfold dequeueBlockK dequeueBlock
  exact dequeueGoK_const h _ _ _

theorem getNewBlockGoK_const : ∀ (fuel : Nat) (s : Proc), getNewBlockGoK κ P fuel s = getNewBlockGo P fuel s
  | 0, _ => rfl
  | fuel + 1, s => by
    unfold getNewBlockGoK getNewBlockGo
    simp only [dequeueBlockK_const h, getNewBlockGoK_const fuel] <;> rfl

theorem getNewBlockK_const (s : Proc) : getNewBlockK κ P s = getNewBlock P s := by
  unfold getNewBlockK getNewBlock
  exact getNewBlockGoK_const h _ _

theorem addSentinelBlockK_const (s : Proc) : addSentinelBlockK κ P s = addSentinelBlock P s := by
  unfold addSentinelBlockK addSentinelBlock
  simp only [getNewBlockK_const h, enqueueBlockK_const h] <;> rfl

theorem appendGoK_const : ∀ (fuel : Nat) (s : Proc) (data : Bytes), appendGoK κ P fuel s data = appendGo P fuel s data
  | 0, _, _ => rfl
  | fuel + 1, s, data => by
    unfold appendGoK appendGo
    simp only [enqueueBlockK_const h, getNewBlockK_const h, appendGoK_const fuel] <;> rfl

theorem appendK_const (s : Proc) (data : Bytes) : appendK κ P s data = append P s data := by
  unfold appendK append
  simp only [appendGoK_const h] <;> rfl

theorem endFileK_const (s : Proc) : endFileK κ P s = endFile P s := by
  unfold endFileK endFile
  simp only [addSentinelBlockK_const h, enqueueBlockK_const h] <;> rfl

theorem syncGoK_const : ∀ (fuel : Nat) (s : Proc), syncGoK κ P fuel s = syncGo P fuel s
  | 0, _ => rfl
  | fuel + 1, s => by
    unfold syncGoK syncGo
    simp only [dequeueBlockK_const h, syncGoK_const fuel] <;> rfl

theorem syncDrainK_const (s : Proc) : syncDrainK κ P s = syncDrain P s := by
  unfold syncDrainK syncDrain
  exact syncGoK_const h _ _

theorem syncK_const (s : Proc) : syncK κ P s = sync P s := by
  unfold syncK sync
  rw [syncDrainK_const h]
  rfl

theorem finishK_const (s : Proc) : finishK κ P s = finish P s := by
  unfold finishK finish
  simp only [syncK_const h, enqueueBlockK_const h] <;> rfl

theorem packFileK_const (s : Proc) (f : InFile) (sy : Bool) : packFileK κ P s f sy = packFile P s f sy := by
  unfold packFileK packFile
  simp only [appendK_const h, syncK_const h, endFileK_const h] <;> rfl

theorem packFilesK_const : ∀ (files : List InFile) (s : Proc) (sy : Bool), packFilesK κ P s files sy = packFiles P s files sy
  | [], _, _ => rfl
  | f :: fs, s, sy => by
    unfold packFilesK packFiles
    simp only [packFileK_const h, packFilesK_const fs] <;> rfl

theorem runProcK_const (mb : Nat) (files : List InFile) (sy : Bool) : runProcK κ P mb files sy = runProc P mb files sy := by
  unfold runProcK runProc
  simp only [packFilesK_const h, finishK_const h] <;> rfl

/-- **the copy is faithful**: with the same codec for every ticket, the machine over the pool of stateful workers is the
machine of `Model/BlockProc.lean`, for every parameter set, backlog, file list -/
theorem runK_const (mb : Nat) (files : List InFile) (sy : Bool) : runK κ P mb files sy = run P mb files sy := by
  unfold runK run
  simp only [runProcK_const h] <;> rfl

end

/-- a history-independent `do_block` on the pool of stateful workers: whatever state the copy that takes a ticket is in,
the run is the run with the pure codec -/
theorem runS_pure {σ : Type} (P : Params) (c : StatefulCodec σ) (hi : c.HistoryIndependent) (κ : Nat → σ) (mb : Nat)
    (files : List InFile) (sy : Bool) : runS P c κ mb files sy = run { P with codec := c.pure } mb files sy := by
  unfold runS
  exact runK_const (P := { P with codec := c.pure }) (fun t => c.at_eq_pure hi (κ t)) mb files sy

/-- `workItems` (the pool of `Model/C02Worker.lean`: an assignment of tickets to workers, private states) hands back, for
ticket `t`, the item worked with the compressor in the state `ticketStates` lists for `t` -/
theorem workItems_eq_ticketStates {σ : Type} (P : Params) (c : StatefulCodec σ) (asg : Nat → Nat) :
    ∀ (items : List Blk) (st : Nat → σ) (id : Nat),
      workItems P c asg st id items =
        List.zipWith (fun s b => processBlock { P with codec := c.at s } b) (ticketStates c asg st id items) items
  | [], _, _ => rfl
  | b :: bs, st, id => by
    simp only [workItems, ticketStates, List.zipWith_cons_cons, processBlockS]
    rw [workItems_eq_ticketStates P c asg bs]

end Sqfs.BlockProc
