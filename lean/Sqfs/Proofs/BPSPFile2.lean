/-
C02, `packRef = specPack`, part 11: one non-empty file, case by case.
-/
import Sqfs.Proofs.BPSPFile
namespace Sqfs.BlockProc
open Sqfs.Consts
open Sqfs.BlockWriter (hasFlag)

theorem worked_pos (P : Params) (hB0 : 0 < P.B) (f : InFile) :
    ∀ n, Sqfs.Pack.Worked.sparse n ∈ workedOf (toPackParams P) (toPackFile f) → 0 < n := by
  intro n hn
  unfold workedOf at hn
  obtain ⟨d, hd, hw⟩ := List.mem_map.1 hn
  have hpos := Sqfs.Pack.dataBlocksOf_pos P.B hB0 (toPackFile f) d hd
  unfold Sqfs.Pack.workData at hw
  split at hw
  · cases hw; exact hpos
  · cases hw

theorem words_map (ws : List Sqfs.Pack.Worked) : (ws.map Sqfs.Pack.Worked.word).map Sqfs.Pack.Word.toNat = ws.map wordNat := by
  rw [List.map_map]; rfl

/-- the size is a multiple of the block size: full blocks, then the sentinel -/
theorem file_exact {P : Params} (hc : CodecOk P.codec) (hpos : ∀ x z, P.codec.cmp x = some z → 0 < z.length) (hB0 : 0 < P.B)
    (hB : P.B < 2 ^ 24) (id : Nat) (f : InFile) (hfl : f.flags < 32) {F : FSt} {W : WSt} {σ : Sqfs.Pack.State} (h : Sim P F W σ)
    (hne : f.data ≠ []) (hr : f.data.length % P.B = 0) : FileStep P id f F W σ := by
  have hlen : 0 < f.data.length := List.length_pos_iff.mpr hne
  have hk : f.data.length / P.B ≠ 0 := by
    intro h0
    have := Nat.div_add_mod f.data.length P.B
    rw [h0, hr] at this; simp at this; omega
  have hitems : fileItems P.B id f = dataItems f.flags id 0 (Sqfs.Pack.fullBlocks P.B f.data) ++ [sentinel f.flags id] := by
    unfold fileItems; rw [if_neg (by omega)]; simp only [hr, if_true]
  have hdb : Sqfs.Pack.dataBlocksOf P.B (toPackFile f) = Sqfs.Pack.fullBlocks P.B f.data := by
    unfold Sqfs.Pack.dataBlocksOf; simp [toPackFile, hr]
  have hnt : Sqfs.Pack.hasTailFrag (toPackParams P).B (toPackFile f) = false := by
    show Sqfs.Pack.hasTailFrag P.B (toPackFile f) = false
    simp [Sqfs.Pack.hasTailFrag, toPackFile, hr]
  have hwk : workedOf (toPackParams P) (toPackFile f) =
      (Sqfs.Pack.fullBlocks P.B f.data).map (Sqfs.Pack.workData (toPackParams P) (Sqfs.Pack.Flags.ofNat f.flags)) := by
    unfold workedOf; show List.map _ (Sqfs.Pack.dataBlocksOf P.B (toPackFile f)) = _; rw [hdb]; rfl
  have hwpos := worked_pos P hB0 f
  unfold FileStep
  rw [packFile_notail (toPackParams P) σ (toPackFile f) hne hnt, hitems, List.map_append, fRun_append]
  rw [hwk] at hwpos ⊢
  obtain ⟨W1, hs1, hfs1, hw1, hf1⟩ := datas_sim hc hpos hB f.flags id hfl (Sqfs.Pack.fullBlocks P.B f.data) 0 F W σ σ.hist [] h
    (by simp) (fulls_ok P.B hB0 f.data) (fun _ => rfl) (fun h => absurd rfl h)
  obtain ⟨s1, s2, s3, s4, s5, s6⟩ := sentinel_facts f.flags id hfl
  have hsb := processBlock_sentinel P f.flags id
  simp only [List.map_cons, List.map_nil, fRun_cons, fRun_nil, hsb]
  obtain ⟨heff, W2, _, h2⟩ := data_sim hs1 rfl (sentinel f.flags id) none s1 s2 s3 id 0 rfl rfl
    (fun _ => hfs1 (by rw [Sqfs.Pack.fullBlocks_length]; omega)) (fun hh => by rw [s4] at hh; cases hh)
  obtain ⟨hs2, hw2⟩ := h2 s5
  simp only [List.nil_append, List.append_nil, storedOf, effOf, s6] at hs2 hw2
  have hbase : (toPackParams P).base = P.pre.length := rfl
  have hddf : (toPackFile f).flags.dontDedup = hasFlag f.flags blkDontDeduplicate := rfl
  rw [hbase, hddf]
  generalize List.map (Sqfs.Pack.workData (toPackParams P) (Sqfs.Pack.Flags.ofNat f.flags)) (Sqfs.Pack.fullBlocks P.B f.data) = ws
    at hwpos hw1 hs2 hw2 ⊢
  generalize Sqfs.Pack.placeBlocks P.pre.length (hasFlag f.flags blkDontDeduplicate) σ.hist _ = pl at hs2 hw2 ⊢
  refine ⟨W2, [], dataEffs id 0 ws ++ [⟨id, .start pl.2.1⟩], hs2, by rw [heff, hf1, List.append_nil], ?_, by simp, ?_, ?_⟩
  · rw [hw2, hw1, List.append_assoc]
  · intro e he
    rcases List.mem_append.mp he with he | he
    · exact dataEffs_id id _ 0 e he
    · simp only [List.mem_singleton] at he; rw [he]
  · have hsz : sizeEff id f = [⟨id, .size f.data.length⟩] := by unfold sizeEff; rw [if_neg (by omega)]
    rw [hsz, res_plain id f.data.length _ hwpos _ _ (Or.inr rfl)]
    simp only [resView, words_map, Sqfs.Pack.FileResult.extended, Option.map_none, Option.getD_none]
    rfl

theorem dataEffs_append (id : Nat) : ∀ (a b : List Sqfs.Pack.Worked) (j : Nat),
    dataEffs id j (a ++ b) = dataEffs id j a ++ dataEffs id (j + a.length) b := by
  intro a
  induction a with
  | nil => intro b j; simp [dataEffs]
  | cons w a ih =>
    intro b j
    simp only [List.cons_append, dataEffs, ih, List.append_assoc, List.length_cons]
    congr 3; omega

theorem filterMap_single (w : Sqfs.Pack.Worked) : [w].filterMap Sqfs.Pack.Worked.stored? = storedOf (some w) := by
  cases w <;> rfl

/-- a tail end remains and `DONT_FRAGMENT` is set: full blocks, then the tail end as a data block with `LAST` -/
theorem file_nofrag {P : Params} (hc : CodecOk P.codec) (hpos : ∀ x z, P.codec.cmp x = some z → 0 < z.length) (hB0 : 0 < P.B)
    (hB : P.B < 2 ^ 24) (id : Nat) (f : InFile) (hfl : f.flags < 32) {F : FSt} {W : WSt} {σ : Sqfs.Pack.State} (h : Sim P F W σ)
    (hr : f.data.length % P.B ≠ 0) (hdf : hasFlag f.flags blkDontFragment = true) : FileStep P id f F W σ := by
  have hlen : f.data.length ≠ 0 := fun h0 => hr (by rw [h0]; simp)
  have hne : f.data ≠ [] := fun h0 => hlen (by rw [h0]; rfl)
  have hitems : fileItems P.B id f = dataItems f.flags id 0 (Sqfs.Pack.fullBlocks P.B f.data) ++
      [lastItem f.flags id (f.data.length / P.B) (Sqfs.Pack.tailOf P.B f.data)] := by
    unfold fileItems; rw [if_neg hlen]; simp only [hr, if_false, hdf, if_true]; rfl
  have hdfs : (Sqfs.Pack.Flags.ofNat f.flags).dontFragment = true := hdf
  have hdb : Sqfs.Pack.dataBlocksOf P.B (toPackFile f) = Sqfs.Pack.fullBlocks P.B f.data ++ [Sqfs.Pack.tailOf P.B f.data] := by
    unfold Sqfs.Pack.dataBlocksOf
    have : f.data.length % P.B > 0 := by omega
    simp [toPackFile, this, hdfs]
  have hnt : Sqfs.Pack.hasTailFrag (toPackParams P).B (toPackFile f) = false := by
    show Sqfs.Pack.hasTailFrag P.B (toPackFile f) = false
    simp [Sqfs.Pack.hasTailFrag, toPackFile, hdfs]
  have hwk : workedOf (toPackParams P) (toPackFile f) =
      (Sqfs.Pack.fullBlocks P.B f.data).map (Sqfs.Pack.workData (toPackParams P) (Sqfs.Pack.Flags.ofNat f.flags)) ++
        [Sqfs.Pack.workData (toPackParams P) (Sqfs.Pack.Flags.ofNat f.flags) (Sqfs.Pack.tailOf P.B f.data)] := by
    unfold workedOf; show List.map _ (Sqfs.Pack.dataBlocksOf P.B (toPackFile f)) = _; rw [hdb, List.map_append]; rfl
  have hwpos := worked_pos P hB0 f
  unfold FileStep
  rw [packFile_notail (toPackParams P) σ (toPackFile f) hne hnt, hitems, List.map_append, fRun_append]
  rw [hwk] at hwpos ⊢
  obtain ⟨W1, hs1, hfs1, hw1, hf1⟩ := datas_sim hc hpos hB f.flags id hfl (Sqfs.Pack.fullBlocks P.B f.data) 0 F W σ σ.hist [] h
    (by simp) (fulls_ok P.B hB0 f.data) (fun _ => rfl) (fun h => absurd rfl h)
  obtain ⟨l1, l2, l3, l4⟩ := lastItem_facts f.flags id (f.data.length / P.B) (Sqfs.Pack.tailOf P.B f.data) hfl
  obtain ⟨htne, htsz⟩ := tail_ok P.B hB0 f.data hr
  have hrel := item_rel P hc hpos hB f.flags (lastItem f.flags id (f.data.length / P.B) (Sqfs.Pack.tailOf P.B f.data)) l1 l2 htne htsz
  generalize hbdef : processBlock P (lastItem f.flags id (f.data.length / P.B) (Sqfs.Pack.tailOf P.B f.data)) = b at hrel
  have hnfb : hasFlag b.flags blkFragmentBlock = false := by
    rw [← hbdef, processBlock_hasFlag P _ _ stable_fragmentBlock]; exact l1.nfb
  have hnf : hasFlag b.flags blkIsFragment = false := by
    rw [← hbdef, processBlock_hasFlag P _ _ stable_isFragment]; exact l2
  have hfirst : isFirst b = decide (f.data.length / P.B = 0) := by
    unfold isFirst; rw [← hbdef, processBlock_hasFlag P _ _ stable_first]; exact l4
  have hlast : isLast b = true := by
    unfold isLast; rw [← hbdef, processBlock_hasFlag P _ _ stable_last]; exact l3
  have hdd : hasFlag b.flags blkDontDeduplicate = hasFlag f.flags blkDontDeduplicate := by
    rw [← hbdef, processBlock_hasFlag P _ _ stable_dontDedup]; exact l1.dd
  have hkl : (Sqfs.Pack.fullBlocks P.B f.data).length = f.data.length / P.B := Sqfs.Pack.fullBlocks_length _ _
  simp only [List.map_cons, List.map_nil, fRun_cons, fRun_nil, hbdef]
  obtain ⟨heff, W2, _, h2⟩ := data_sim hs1 rfl b _ hrel hnfb hnf id (f.data.length / P.B)
    (by rw [← hbdef, processBlock_inode]; rfl) (by rw [← hbdef, processBlock_index]; rfl)
    (fun hh => hfs1 (by rw [hfirst] at hh; rw [hkl, Nat.zero_add]; simpa using hh))
    (fun hh => by
      rw [hfirst] at hh
      have hk0 : f.data.length / P.B = 0 := by simpa using hh
      have : Sqfs.Pack.fullBlocks P.B f.data = [] := List.eq_nil_of_length_eq_zero (by omega)
      rw [this]; rfl)
  obtain ⟨hs2, hw2⟩ := h2 hlast
  simp only [List.nil_append, hdd] at hs2 hw2
  have hbase : (toPackParams P).base = P.pre.length := rfl
  have hddf : (toPackFile f).flags.dontDedup = hasFlag f.flags blkDontDeduplicate := rfl
  have hld : (lastItem f.flags id (f.data.length / P.B) (Sqfs.Pack.tailOf P.B f.data)).data = Sqfs.Pack.tailOf P.B f.data := rfl
  rw [hbase, hddf, List.filterMap_append, filterMap_single]
  rw [hld] at hs2 hw2
  generalize Sqfs.Pack.workData (toPackParams P) (Sqfs.Pack.Flags.ofNat f.flags) (Sqfs.Pack.tailOf P.B f.data) = wt at hwpos hs2 hw2 ⊢
  generalize hwsdef : List.map (Sqfs.Pack.workData (toPackParams P) (Sqfs.Pack.Flags.ofNat f.flags)) (Sqfs.Pack.fullBlocks P.B f.data) = ws
    at hwpos hw1 hs2 hw2 ⊢
  have hwl : ws.length = f.data.length / P.B := by rw [← hwsdef, List.length_map, hkl]
  generalize Sqfs.Pack.placeBlocks P.pre.length (hasFlag f.flags blkDontDeduplicate) σ.hist _ = pl at hs2 hw2 ⊢
  refine ⟨W2, [], dataEffs id 0 (ws ++ [wt]) ++ [⟨id, .start pl.2.1⟩], hs2, by rw [heff, hf1, List.append_nil], ?_, by simp, ?_, ?_⟩
  · rw [hw2, hw1, dataEffs_append, Nat.zero_add, hwl]
    simp only [dataEffs, List.append_nil, List.append_assoc]
  · intro e he
    rcases List.mem_append.mp he with he | he
    · exact dataEffs_id id _ 0 e he
    · simp only [List.mem_singleton] at he; rw [he]
  · have hsz : sizeEff id f = [⟨id, .size f.data.length⟩] := by unfold sizeEff; rw [if_neg hlen]
    rw [hsz, res_plain id f.data.length _ hwpos _ _ (Or.inr rfl)]
    simp only [resView, words_map, Sqfs.Pack.FileResult.extended, Option.map_none, Option.getD_none]
    rfl

end Sqfs.BlockProc
