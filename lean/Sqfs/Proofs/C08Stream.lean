/-
Helper lemmas for the call-stream part of C08 (`Model/C08Stream.lean`).

1. `SInv`: the blocks that have been given an I/O sequence number, in that order (`numbered`, ghost), form a call
   sequence obeying `wfS`, and what the front end has handed over but the back end has not yet numbered
   (`front`) continues it correctly (`feOk`): tail ends (`IS_FRAGMENT`) only come between files.  Since a
   fragment block is numbered exactly when a tail end is dequeued (or at `finish`, with everything drained), it
   falls between files.  `write_data_block` is called in sequence-number order, so the calls made so far are a
   prefix of `numbered`.
2. `LInv`: the block writer's state is the result of running `BlockWriter.run` on the calls made so far, and
   every fragment block the fragment model holds as `written stored` was written by one of those calls, whose
   returned location is what the fragment table records.
-/
import Sqfs.Model.C08Stream
import Sqfs.Proofs.BlockWriter
import Sqfs.Proofs.FragDedup
import Sqfs.Proofs.C08FragStruct
namespace Sqfs.C08Stream
open Sqfs.Consts
open Sqfs.BlockWriter (hasFlag Call wfS wf)

/-! ### flag bits -/

theorem hasFlag_or (f a c : Nat) (h : a &&& c = 0) : hasFlag (f ||| a) c = hasFlag f c := by
  unfold hasFlag
  rw [Nat.and_or_distrib_right, h, Nat.or_zero]

theorem hasFlag_clear (f c : Nat) (h : (0xFFFFFFFF ^^^ blkFlagInternal) &&& c = c) :
    hasFlag (clearFlag f blkFlagInternal) c = hasFlag f c := by
  unfold hasFlag clearFlag
  rw [Nat.and_assoc, h]

/-- the bits of a block's flags that decide how the main thread treats it -/
structure Kind where
  first : Bool
  last : Bool
  isFrag : Bool
  fragBlk : Bool
  internal : Bool
deriving DecidableEq, Repr

def kindOf (flags : Nat) : Kind :=
  ⟨hasFlag flags blkFirstBlock, hasFlag flags blkLastBlock, hasFlag flags blkIsFragment,
   hasFlag flags blkFragmentBlock, hasFlag flags blkFlagInternal⟩

def Blk.kind (b : Blk) : Kind := kindOf b.flags

theorem kindOf_or (f a : Nat) (h1 : a &&& blkFirstBlock = 0) (h2 : a &&& blkLastBlock = 0)
    (h3 : a &&& blkIsFragment = 0) (h4 : a &&& blkFragmentBlock = 0) (h5 : a &&& blkFlagInternal = 0) :
    kindOf (f ||| a) = kindOf f := by
  simp only [kindOf, hasFlag_or _ _ _ h1, hasFlag_or _ _ _ h2, hasFlag_or _ _ _ h3, hasFlag_or _ _ _ h4,
    hasFlag_or _ _ _ h5]

/-- the worker never touches the protocol bits, the sequence number or the index -/
theorem processBlock_kind (codec : Codec) (h : Bytes → UInt32) (b : Blk) :
    (processBlock codec h b).kind = b.kind ∧ (processBlock codec h b).seq = b.seq ∧
      (processBlock codec h b).index = b.index := by
  unfold processBlock
  split
  · exact ⟨rfl, rfl, rfl⟩
  · split
    · exact ⟨kindOf_or _ _ (by decide) (by decide) (by decide) (by decide) (by decide), rfl, rfl⟩
    · simp only []
      split
      · exact ⟨rfl, rfl, rfl⟩
      · split
        · exact ⟨kindOf_or _ _ (by decide) (by decide) (by decide) (by decide) (by decide), rfl, rfl⟩
        · exact ⟨rfl, rfl, rfl⟩

/-- the `write_data_block` call made for a block -/
def Blk.call (b : Blk) : Call := ⟨b.chk, clearFlag b.flags blkFlagInternal, b.data⟩

theorem call_first (b : Blk) : b.call.first = b.kind.first := hasFlag_clear _ _ (by decide)
theorem call_last (b : Blk) : b.call.last = b.kind.last := hasFlag_clear _ _ (by decide)
theorem call_fragBlk (b : Blk) : b.call.fragBlk = b.kind.fragBlk := hasFlag_clear _ _ (by decide)

/-! ### `wfS` as a state machine -/

/-- may call `c` come next when `o` says whether a file is open? -/
def stepOk (o : Bool) (c : Call) : Bool :=
  (if c.fragBlk then !o && !c.first && !c.last else true) && (if c.last then o || c.first else true)

def stepTo (o : Bool) (c : Call) : Bool := if c.last then false else o || c.first

/-- `some o'` = the calls obey `wfS` and leave the state `o'` -/
def wfSt : Bool → List Call → Option Bool
  | o, [] => some o
  | o, c :: cs => if stepOk o c then wfSt (stepTo o c) cs else none

theorem wfS_of_wfSt : ∀ (cs : List Call) (o o' : Bool), wfSt o cs = some o' → wfS o cs = true := by
  intro cs
  induction cs with
  | nil => intro _ _ _; rfl
  | cons c cs ih =>
    intro o o' h
    unfold wfSt at h
    split at h
    · rename_i hs
      have := ih _ _ h
      unfold wfS
      unfold stepOk at hs
      unfold stepTo at this
      simp only [Bool.and_eq_true] at hs ⊢
      refine ⟨hs.1, ?_⟩
      by_cases hl : c.last = true
      · simp only [hl, if_true, Bool.and_eq_true] at hs this ⊢
        exact ⟨hs.2, this⟩
      · have hlf : c.last = false := by simpa using hl
        simp only [hlf, Bool.false_eq_true, if_false] at this ⊢
        exact this
    · cases h

theorem wfSt_append : ∀ (xs ys : List Call) (o : Bool),
    wfSt o (xs ++ ys) = (wfSt o xs).bind (fun o' => wfSt o' ys) := by
  intro xs
  induction xs with
  | nil => intro ys o; rfl
  | cons c cs ih =>
    intro ys o
    simp only [List.cons_append, wfSt]
    split
    · exact ih ys _
    · rfl

theorem wfS_prefix : ∀ (xs ys : List Call) (o : Bool), wfS o (xs ++ ys) = true → wfS o xs = true := by
  intro xs
  induction xs with
  | nil => intro _ _ _; rfl
  | cons c cs ih =>
    intro ys o h
    simp only [List.cons_append] at h
    unfold wfS at h ⊢
    simp only [Bool.and_eq_true] at h ⊢
    refine ⟨h.1, ?_⟩
    by_cases hl : c.last = true
    · simp only [hl, if_true, Bool.and_eq_true] at h ⊢
      exact ⟨h.2.1, ih ys _ h.2.2⟩
    · have hlf : c.last = false := by simpa using hl
      simp only [hlf, Bool.false_eq_true, if_false] at h ⊢
      exact ih ys _ h.2

/-! ### what the front end still owes: `feOk` -/

/-- `o` = a file is open after the numbered blocks.  A tail end (`IS_FRAGMENT`) is never written itself; it marks
the only places where a fragment block can be numbered, and those must lie outside every file.  Data blocks
continue the `FIRST … LAST` protocol and are no fragment blocks.  At the end every file is closed. -/
def feOkK : Bool → List Kind → Bool
  | o, [] => !o
  | o, k :: r =>
    if k.isFrag then !o && feOkK false r
    else !k.fragBlk && (if k.last then (o || k.first) && feOkK false r else feOkK (o || k.first) r)

theorem feOkK_append : ∀ (xs ys : List Kind) (o : Bool), feOkK o xs = true → feOkK false ys = true →
    feOkK o (xs ++ ys) = true := by
  intro xs
  induction xs with
  | nil =>
    intro ys o h1 h2
    simp only [feOkK, Bool.not_eq_true'] at h1
    subst h1; exact h2
  | cons k r ih =>
    intro ys o h1 h2
    simp only [List.cons_append]
    unfold feOkK at h1 ⊢
    by_cases hf : k.isFrag = true
    · simp only [hf, if_true, Bool.and_eq_true] at h1 ⊢
      exact ⟨h1.1, ih ys _ h1.2 h2⟩
    · have hff : k.isFrag = false := by simpa using hf
      simp only [hff, Bool.false_eq_true, if_false, Bool.and_eq_true] at h1 ⊢
      refine ⟨h1.1, ?_⟩
      by_cases hl : k.last = true
      · simp only [hl, if_true, Bool.and_eq_true] at h1 ⊢
        exact ⟨h1.2.1, ih ys _ h1.2.2 h2⟩
      · have hlf : k.last = false := by simpa using hl
        simp only [hlf, Bool.false_eq_true, if_false] at h1 ⊢
        exact ih ys _ h1.2 h2

/-- an item the back end treats as a fragment block coming back from the pool (backend.c:324-335) -/
def Kind.isFB (k : Kind) : Bool := !k.isFrag && k.fragBlk && !k.internal

theorem feOkK_noFB : ∀ (ks : List Kind) (o : Bool), feOkK o ks = true → ∀ k ∈ ks, k.isFB = false := by
  intro ks
  induction ks with
  | nil => intro _ _ k hk; cases hk
  | cons k r ih =>
    intro o h k' hk'
    unfold feOkK at h
    by_cases hf : k.isFrag = true
    · simp only [hf, if_true, Bool.and_eq_true] at h
      rcases List.mem_cons.1 hk' with rfl | hm
      · simp [Kind.isFB, hf]
      · exact ih _ h.2 k' hm
    · have hff : k.isFrag = false := by simpa using hf
      simp only [hff, Bool.false_eq_true, if_false, Bool.and_eq_true, Bool.not_eq_true'] at h
      rcases List.mem_cons.1 hk' with rfl | hm
      · simp [Kind.isFB, h.1]
      · by_cases hl : k.last = true
        · simp only [hl, if_true, Bool.and_eq_true] at h
          exact ih _ h.2.2 k' hm
        · have hlf : k.last = false := by simpa using hl
          simp only [hlf, Bool.false_eq_true, if_false] at h
          exact ih _ h.2 k' hm

/-! ### the front end produces whole files -/

theorem kind_user : ∀ uf, uf < 32 → kindOf uf = ⟨false, false, false, false, false⟩ := by decide
theorem kind_first : ∀ uf, uf < 32 → kindOf (uf ||| blkFirstBlock) = ⟨true, false, false, false, false⟩ := by decide
theorem kind_last : ∀ uf, uf < 32 → kindOf (uf ||| blkLastBlock) = ⟨false, true, false, false, false⟩ := by decide
theorem kind_first_last : ∀ uf, uf < 32 →
    kindOf (uf ||| blkFirstBlock ||| blkLastBlock) = ⟨true, true, false, false, false⟩ := by decide
theorem kind_frag : ∀ uf, uf < 32 → kindOf (uf ||| blkIsFragment) = ⟨false, false, true, false, false⟩ := by decide
theorem kind_first_frag : ∀ uf, uf < 32 →
    kindOf (uf ||| blkFirstBlock ||| blkIsFragment) = ⟨true, false, true, false, false⟩ := by decide

theorem feOk_full (B uf : Nat) (data : Bytes) (huf : uf < 32) : ∀ (k off : Nat) (first o : Bool) (rest : List Kind),
    feOkK o ((fullBlocks B uf data k off first).map Blk.kind ++ rest)
      = feOkK (if k = 0 then o else o || first) rest := by
  intro k
  induction k with
  | zero => intro off first o rest; rfl
  | succ k ih =>
    intro off first o rest
    simp only [fullBlocks, List.map_cons, List.cons_append]
    have hk : (Blk.kind { flags := if first = true then uf ||| blkFirstBlock else uf,
                          data := BlockWriter.slice data off B }) = ⟨first, false, false, false, false⟩ := by
      unfold Blk.kind
      cases first
      · simpa using kind_user uf huf
      · simpa using kind_first uf huf
    rw [hk]
    have hstep : ∀ r, feOkK o (⟨first, false, false, false, false⟩ :: r) = feOkK (o || first) r := by
      intro r; simp [feOkK]
    rw [hstep, ih]
    by_cases hk0 : k = 0
    · simp [hk0]
    · simp [hk0]

theorem feOk_fileBlocks (B uf : Nat) (data : Bytes) (huf : uf < 32) :
    feOkK false ((fileBlocks B uf data).map Blk.kind) = true := by
  unfold fileBlocks
  simp only []
  generalize data.length / B = n
  have hfull : ∀ rest, feOkK false ((fullBlocks B uf data n 0 true).map Blk.kind ++ rest)
      = feOkK (if n = 0 then false else true) rest := by
    intro rest
    rw [feOk_full B uf data huf]
    simp
  split
  · -- no tail end
    rw [List.map_append, hfull]
    by_cases hn : n = 0
    · simp [hn, feOkK]
    · simp only [hn, if_false, List.map_cons, List.map_nil]
      have : Blk.kind { flags := uf ||| blkLastBlock } = ⟨false, true, false, false, false⟩ := kind_last uf huf
      rw [this]
      simp [feOkK]
  · split
    · -- DONT_FRAGMENT: the tail end is the last block
      rw [List.map_append, hfull]
      by_cases hn : n = 0
      · simp only [hn, if_true, List.map_cons, List.map_nil]
        have : Blk.kind { flags := uf ||| blkFirstBlock ||| blkLastBlock, data := List.drop (0 * B) data }
            = ⟨true, true, false, false, false⟩ := kind_first_last uf huf
        rw [this]
        simp [feOkK]
      · simp only [hn, if_false, List.map_cons, List.map_nil]
        have : Blk.kind { flags := uf ||| blkLastBlock, data := List.drop (n * B) data }
            = ⟨false, true, false, false, false⟩ := kind_last uf huf
        rw [this]
        simp [feOkK]
    · -- sentinel (if there was a block), then the tail end as a fragment
      rw [List.append_assoc, List.map_append, hfull]
      by_cases hn : n = 0
      · simp only [hn, if_true, List.nil_append, List.map_cons, List.map_nil]
        have : Blk.kind { flags := uf ||| blkFirstBlock ||| blkIsFragment, data := List.drop (0 * B) data }
            = ⟨true, false, true, false, false⟩ := kind_first_frag uf huf
        rw [this]
        simp [feOkK]
      · simp only [hn, if_false, List.map_append, List.map_cons, List.map_nil, List.cons_append, List.nil_append]
        have h1 : Blk.kind { flags := uf ||| blkLastBlock } = ⟨false, true, false, false, false⟩ := kind_last uf huf
        have h2 : Blk.kind { flags := uf ||| blkIsFragment, data := List.drop (n * B) data }
            = ⟨false, false, true, false, false⟩ := kind_frag uf huf
        rw [h1, h2]
        simp [feOkK]

/-! ### the invariant behind `wfS` -/

/-- what the front end has produced and the back end has not yet numbered: the pool without the fragment blocks
travelling through it, then the blocks not yet submitted -/
def front (s : State) : List Kind :=
  (s.pool.map Blk.kind).filter (fun k => !k.isFB) ++ s.pending.map Blk.kind

/-- `n` = the blocks that have an I/O sequence number, in that order; `o` = a file is open after them -/
structure SInv (s : State) (n : List Blk) (o : Bool) : Prop where
  len    : n.length = s.ioSeq
  calls  : s.calls = (n.take s.deqSeq).map Blk.call
  deq    : s.deqSeq ≤ s.ioSeq
  queue  : ∀ b ∈ s.ioQueue, n[b.seq]? = some b
  poolfb : ∀ b ∈ s.pool, b.kind.isFB = true → n[b.seq]? = some b
  goodF  : FragDedup.GoodF s.fd
  wfn    : wfSt false (n.map Blk.call) = some o
  fe     : feOkK o (front s) = true

theorem SInv_congr {s s' : State} {n : List Blk} {o : Bool} (h : SInv s n o)
    (h1 : s'.ioSeq = s.ioSeq) (h2 : s'.calls = s.calls) (h3 : s'.deqSeq = s.deqSeq) (h4 : s'.ioQueue = s.ioQueue)
    (h5 : s'.pool = s.pool) (h6 : s'.pending = s.pending) (h7 : FragDedup.GoodF s'.fd) : SInv s' n o := by
  refine ⟨by rw [h1]; exact h.len, by rw [h2, h3]; exact h.calls, by rw [h1, h3]; exact h.deq,
    by rw [h4]; exact h.queue, by rw [h5]; exact h.poolfb, h7, h.wfn, ?_⟩
  unfold front; rw [h5, h6]; exact h.fe

theorem SInv_init (B : Nat) (pre : Bytes) : SInv (init B pre) [] false :=
  ⟨rfl, rfl, Nat.le_refl _, fun _ h => (by cases h), fun _ h => (by cases h), fun i b h => (by simp [init] at h), rfl, rfl⟩

theorem getElem?_append_some {α} {l r : List α} {k : Nat} {a : α} (h : l[k]? = some a) : (l ++ r)[k]? = some a := by
  have hk : k < l.length := (List.getElem?_eq_some_iff.1 h).1
  rw [List.getElem?_append_left hk]; exact h

theorem kind_FlagOk (f : Nat) (h : FragDedup.FlagOk f) : kindOf f = ⟨false, false, false, true, false⟩ := by
  rcases h with h | h <;> rw [h] <;> decide

/-- `enqueue_block(proc, frag_block)` with the number taken just before: allowed whenever no file is open -/
theorem enqueue_SInv (codec : Codec) (h : Bytes → UInt32) {s : State} {n : List Blk} (hinv : SInv s n false) (i : Nat) :
    ∃ n', SInv (enqueueFragBlock codec h s i) n' false := by
  unfold enqueueFragBlock
  cases hb : s.fd.blocks[i]? with
  | none => exact ⟨n, hinv⟩
  | some fb =>
    simp only []
    generalize hF : processBlock codec h { seq := s.ioSeq, flags := fb.flags, data := fb.data, index := i } = F
    have hk := processBlock_kind codec h { seq := s.ioSeq, flags := fb.flags, data := fb.data, index := i }
    rw [hF] at hk
    have hkind : F.kind = ⟨false, false, false, true, false⟩ := by
      rw [hk.1]; exact kind_FlagOk _ (hinv.goodF i fb hb)
    have hseq : F.seq = s.ioSeq := hk.2.1
    have hfb : F.kind.isFB = true := by rw [hkind]; rfl
    refine ⟨n ++ [F], ?_, ?_, ?_, ?_, ?_, hinv.goodF, ?_, ?_⟩
    · simp [hinv.len]
    · show s.calls = _
      rw [List.take_append_of_le_length (by rw [hinv.len]; exact hinv.deq)]
      exact hinv.calls
    · show s.deqSeq ≤ s.ioSeq + 1
      have := hinv.deq; omega
    · intro b hb'
      exact getElem?_append_some (hinv.queue b hb')
    · intro b hb' hbfb
      rcases List.mem_append.1 hb' with hm | hm
      · exact getElem?_append_some (hinv.poolfb b hm hbfb)
      · rw [List.mem_singleton] at hm
        subst hm
        rw [hseq, ← hinv.len, List.getElem?_append_right (Nat.le_refl _)]
        simp
    · rw [List.map_append, wfSt_append, hinv.wfn]
      simp only [Option.bind, List.map_cons, List.map_nil, wfSt]
      have h1 : F.call.fragBlk = true := by rw [call_fragBlk, hkind]
      have h2 : F.call.first = false := by rw [call_first, hkind]
      have h3 : F.call.last = false := by rw [call_last, hkind]
      simp [stepOk, stepTo, h1, h2, h3]
    · have : front { s with ioSeq := s.ioSeq + 1, pool := s.pool ++ [F] } = front s := by
        unfold front
        simp only [List.map_append, List.filter_append, List.map_cons, List.map_nil]
        have : List.filter (fun k => !k.isFB) [F.kind] = [] := by simp [hfb]
        rw [this, List.append_nil]
      rw [this]; exact hinv.fe

theorem mem_storeIo (b : Blk) : ∀ (l : List Blk) (x : Blk), x ∈ storeIo b l → x = b ∨ x ∈ l := by
  intro l
  induction l with
  | nil => intro x hx; simp [storeIo] at hx; exact Or.inl hx
  | cons y t ih =>
    intro x hx
    unfold storeIo at hx
    split at hx
    · rcases List.mem_cons.1 hx with h | h
      · exact Or.inr (h ▸ List.mem_cons_self ..)
      · rcases ih x h with h2 | h2
        · exact Or.inl h2
        · exact Or.inr (List.mem_cons_of_mem _ h2)
    · rcases List.mem_cons.1 hx with h | h
      · exact Or.inl h
      · exact Or.inr h

theorem blockWritten_goodF (codec : Codec) (st st' : FragDedup.State) (idx : Nat)
    (h : FragDedup.blockWritten codec st idx = .ok st') (hg : FragDedup.GoodF st) : FragDedup.GoodF st' := by
  obtain ⟨b, p, hb, _, hb', hne, _⟩ := FragDedup.blockWritten_struct codec st st' idx h
  intro j x hx
  by_cases hj : j = idx
  · subst hj
    rw [hb'] at hx; cases hx
    exact hg j b hb
  · rw [hne j hj] at hx
    exact hg j x hx

/-- what `process_completed_block` changes of the fields the protocol invariant looks at -/
theorem completeBlock_fields (codec : Codec) (s s' : State) (b : Blk) (out : Out)
    (h : completeBlock codec s b = .ok (s', out)) :
    s'.ioSeq = s.ioSeq ∧ s'.calls = s.calls ++ [b.call] ∧ s'.deqSeq = s.deqSeq ∧ s'.ioQueue = s.ioQueue ∧
      s'.pool = s.pool ∧ s'.pending = s.pending ∧ (FragDedup.GoodF s.fd → FragDedup.GoodF s'.fd) := by
  unfold completeBlock at h
  simp only [] at h
  split at h
  · cases h
  · rename_i bw' loc hw
    split at h
    · split at h
      · cases h
      · rename_i fd' hbw
        split at h
        · split at h
          · split at h <;> (cases h; exact ⟨rfl, rfl, rfl, rfl, rfl, rfl, blockWritten_goodF codec _ _ _ hbw⟩)
          · cases h
        · cases h
    · cases h
      exact ⟨rfl, rfl, rfl, rfl, rfl, rfl, id⟩

theorem handleFragment_SInv (codec : Codec) (h : Bytes → UInt32) {s s' : State} {n : List Blk} (frag : Blk) (out : Out)
    (hinv : SInv s n false) (hrun : handleFragment codec h s frag = .ok (s', out)) :
    ∃ n', SInv s' n' false := by
  unfold handleFragment at hrun
  split at hrun
  · cases hrun
  · rename_i r fd' hpf
    have hg : FragDedup.GoodF fd' := (FragDedup.processFragment_struct codec h s.B s.fd frag.data frag.flags r fd' hpf).1 hinv.goodF
    simp only [] at hrun
    generalize hs1 : ({ s with fd := fd', fragTbl := growTbl s.fragTbl fd'.blocks.length,
                               fevs := s.fevs ++ [.frag frag.data frag.flags], fres := s.fres ++ [some r] } : State) = s1 at hrun
    have h1 : SInv s1 n false := by
      subst hs1
      exact SInv_congr hinv rfl rfl rfl rfl rfl rfl hg
    split at hrun
    · cases hrun; exact ⟨n, h1⟩
    · cases hrun; exact enqueue_SInv codec h h1 _

theorem step_SInv (codec : Codec) (h : Bytes → UInt32) {s s' : State} {n : List Blk} {o : Bool} (e : Ev) (out : Out)
    (hinv : SInv s n o) (hrun : step codec h s e = .ok (s', out)) : ∃ n' o', SInv s' n' o' := by
  cases e with
  | file uflags data =>
    simp only [step] at hrun
    split at hrun
    · cases hrun
    · rename_i hg
      cases hrun
      have huf : uflags < 32 := by
        have h1 : uflags &&& blkUserSettable = uflags := by simpa using hg
        have h2 : uflags &&& blkUserSettable ≤ blkUserSettable := Nat.and_le_right
        have h3 : blkUserSettable = 31 := rfl
        omega
      refine ⟨n, o, hinv.len, hinv.calls, hinv.deq, hinv.queue, hinv.poolfb, hinv.goodF, hinv.wfn, ?_⟩
      have : front { s with pending := s.pending ++ fileBlocks s.B uflags data }
          = front s ++ (fileBlocks s.B uflags data).map Blk.kind := by
        unfold front; simp [List.append_assoc]
      rw [this]
      exact feOkK_append _ _ _ hinv.fe (feOk_fileBlocks s.B uflags data huf)
  | submit =>
    simp only [step] at hrun
    split at hrun
    · cases hrun
    · rename_i b rest hp
      cases hrun
      have hk := processBlock_kind codec h b
      have hmem : b.kind ∈ front s := by
        unfold front; rw [hp]; simp
      have hnfb : b.kind.isFB = false := feOkK_noFB _ _ hinv.fe _ hmem
      refine ⟨n, o, hinv.len, hinv.calls, hinv.deq, hinv.queue, ?_, hinv.goodF, hinv.wfn, ?_⟩
      · intro x hx hfb
        rcases List.mem_append.1 hx with hm | hm
        · exact hinv.poolfb x hm hfb
        · rw [List.mem_singleton] at hm
          subst hm
          rw [hk.1, hnfb] at hfb; cases hfb
      · have : front { s with pending := rest, pool := s.pool ++ [processBlock codec h b] } = front s := by
          unfold front
          rw [hp]
          simp only [List.map_append, List.filter_append, List.map_cons, List.map_nil, hk.1]
          have : List.filter (fun k => !k.isFB) [b.kind] = [b.kind] := by simp [hnfb]
          rw [this]; simp [List.append_assoc]
        rw [this]; exact hinv.fe
  | dequeue =>
    simp only [step] at hrun
    split at hrun
    · cases hrun
    · rename_i blk rest hp
      have hpoolfb0 : ∀ b ∈ rest, b.kind.isFB = true → n[b.seq]? = some b :=
        fun b hb hfb => hinv.poolfb b (by rw [hp]; exact List.mem_cons_of_mem _ hb) hfb
      have hfront : front s = (if blk.kind.isFB then [] else [blk.kind]) ++ front { s with pool := rest } := by
        unfold front
        rw [hp]
        simp only [List.map_cons, List.filter_cons]
        cases blk.kind.isFB <;> simp
      split at hrun
      · -- a tail end: `process_completed_fragment`
        rename_i hif
        have hif' : blk.kind.isFrag = true := hif
        have hnfb : blk.kind.isFB = false := by simp [Kind.isFB, hif']
        have hfe := hinv.fe
        rw [hfront, hnfb] at hfe
        simp only [Bool.false_eq_true, if_false, List.singleton_append] at hfe
        unfold feOkK at hfe
        simp only [hif', if_true, Bool.and_eq_true, Bool.not_eq_true'] at hfe
        obtain ⟨ho, hfe0⟩ := hfe
        subst ho
        have h0 : SInv { s with pool := rest } n false :=
          ⟨hinv.len, hinv.calls, hinv.deq, hinv.queue, hpoolfb0, hinv.goodF, hinv.wfn, hfe0⟩
        obtain ⟨n', hn'⟩ := handleFragment_SInv codec h blk out h0 hrun
        exact ⟨n', false, hn'⟩
      · rename_i hif
        have hif' : blk.kind.isFrag = false := by
          have : hasFlag blk.flags blkIsFragment = false := by simpa using hif
          exact this
        split at hrun
        · -- a data block: it gets its number now
          rename_i hnum
          cases hrun
          have hnfb : blk.kind.isFB = false := by
            have hnum' : (!blk.kind.fragBlk || blk.kind.internal) = true := hnum
            simp only [Kind.isFB, hif']
            cases hfbk : blk.kind.fragBlk <;> cases hik : blk.kind.internal <;> simp_all
          have hfe := hinv.fe
          rw [hfront, hnfb] at hfe
          simp only [Bool.false_eq_true, if_false, List.singleton_append] at hfe
          unfold feOkK at hfe
          simp only [hif', Bool.false_eq_true, if_false, Bool.and_eq_true, Bool.not_eq_true'] at hfe
          obtain ⟨hnofb, hstep⟩ := hfe
          generalize hb' : ({ blk with seq := s.ioSeq } : Blk) = b'
          have hkb : b'.kind = blk.kind := by subst hb'; rfl
          have hsb : b'.seq = s.ioSeq := by subst hb'; rfl
          refine ⟨n ++ [b'], (if blk.kind.last then false else o || blk.kind.first), ?_, ?_, ?_, ?_, ?_, hinv.goodF, ?_, ?_⟩
          · simp [hinv.len]
          · show s.calls = _
            rw [List.take_append_of_le_length (by rw [hinv.len]; exact hinv.deq)]
            exact hinv.calls
          · show s.deqSeq ≤ s.ioSeq + 1
            have := hinv.deq; omega
          · intro x hx
            rcases mem_storeIo _ _ _ hx with hm | hm
            · subst hm
              rw [hsb, ← hinv.len, List.getElem?_append_right (Nat.le_refl _)]
              simp
            · exact getElem?_append_some (hinv.queue x hm)
          · intro x hx hfb
            exact getElem?_append_some (hpoolfb0 x hx hfb)
          · rw [List.map_append, wfSt_append, hinv.wfn]
            simp only [Option.bind, List.map_cons, List.map_nil, wfSt]
            have h1 : b'.call.fragBlk = false := by rw [call_fragBlk, hkb, hnofb]
            have h2 : b'.call.first = blk.kind.first := by rw [call_first, hkb]
            have h3 : b'.call.last = blk.kind.last := by rw [call_last, hkb]
            by_cases hl : blk.kind.last = true
            · simp only [hl, if_true, Bool.and_eq_true] at hstep
              simp [stepOk, stepTo, h1, h2, h3, hl, hstep.1]
            · have hlf : blk.kind.last = false := by simpa using hl
              simp [stepOk, stepTo, h1, h2, h3, hlf]
          · show feOkK _ (front { s with pool := rest }) = true
            by_cases hl : blk.kind.last = true
            · simp only [hl, if_true, Bool.and_eq_true] at hstep ⊢
              exact hstep.2
            · have hlf : blk.kind.last = false := by simpa using hl
              simp only [hlf, Bool.false_eq_true, if_false] at hstep ⊢
              exact hstep
        · -- a fragment block coming back from the pool: it keeps its number
          rename_i hnum
          cases hrun
          have hfbk : blk.kind.isFB = true := by
            have hnum' : ¬ (!blk.kind.fragBlk || blk.kind.internal) = true := hnum
            simp only [Kind.isFB, hif']
            cases hfbk : blk.kind.fragBlk <;> cases hik : blk.kind.internal <;> simp_all
          have hfe := hinv.fe
          rw [hfront, hfbk] at hfe
          simp only [if_true, List.nil_append] at hfe
          refine ⟨n, o, hinv.len, hinv.calls, hinv.deq, ?_, hpoolfb0, hinv.goodF, hinv.wfn, hfe⟩
          intro x hx
          rcases mem_storeIo _ _ _ hx with hm | hm
          · subst hm
            exact hinv.poolfb x (by rw [hp]; exact List.mem_cons_self ..) hfbk
          · exact hinv.queue x hm
  | complete =>
    simp only [step] at hrun
    split at hrun
    · cases hrun
    · rename_i b rest hq
      split at hrun
      · cases hrun
      · rename_i hseq
        have hseq' : b.seq = s.deqSeq := by simpa using hseq
        obtain ⟨f1, f2, f3, f4, f5, f6, f7⟩ := completeBlock_fields codec _ s' b out hrun
        have hnb : n[s.deqSeq]? = some b := by
          rw [← hseq']; exact hinv.queue b (by rw [hq]; exact List.mem_cons_self ..)
        have hlt : s.deqSeq < n.length := (List.getElem?_eq_some_iff.1 hnb).1
        refine ⟨n, o, by rw [f1]; exact hinv.len, ?_, ?_, ?_, by rw [f5]; exact hinv.poolfb, f7 hinv.goodF, hinv.wfn, ?_⟩
        · rw [f2, f3]
          show s.calls ++ [b.call] = (n.take (s.deqSeq + 1)).map Blk.call
          rw [List.take_succ_eq_append_getElem hlt, List.map_append, hinv.calls]
          have : n[s.deqSeq] = b := by
            have := List.getElem?_eq_getElem hlt
            rw [hnb] at this; exact (Option.some.inj this).symm
          rw [this]; rfl
        · rw [f1, f3]
          show s.deqSeq + 1 ≤ s.ioSeq
          have := hinv.len; omega
        · rw [f4]
          intro x hx
          exact hinv.queue x (by rw [hq]; exact List.mem_cons_of_mem _ hx)
        · have : front s' = front s := by unfold front; rw [f5, f6]
          rw [this]; exact hinv.fe
  | finish =>
    simp only [step] at hrun
    split at hrun
    · cases hrun
    · rename_i hg
      have hg' : s.pending = [] ∧ s.pool = [] ∧ s.ioQueue = [] := by
        have hg2 : (s.pending.isEmpty && s.pool.isEmpty && s.ioQueue.isEmpty) = true := by simpa using hg
        simp only [Bool.and_eq_true, List.isEmpty_iff] at hg2
        exact ⟨hg2.1.1, hg2.1.2, hg2.2⟩
      have hfr : front s = [] := by unfold front; rw [hg'.1, hg'.2.1]; rfl
      have ho : o = false := by
        have := hinv.fe
        rw [hfr] at this
        simpa [feOkK] using this
      subst ho
      split at hrun
      · cases hrun
        exact ⟨n, false, SInv_congr hinv rfl rfl rfl rfl rfl rfl hinv.goodF⟩
      · rename_i i hoi
        cases hrun
        have h1 : SInv { s with fd := FragDedup.closeOpen s.fd, fevs := s.fevs ++ [.finish], fres := s.fres ++ [none] } n false :=
          SInv_congr hinv rfl rfl rfl rfl rfl rfl ((FragDedup.closeOpen_struct s.fd).1 hinv.goodF)
        obtain ⟨n', hn'⟩ := enqueue_SInv codec h h1 i
        exact ⟨n', false, hn'⟩

theorem run_SInv (codec : Codec) (h : Bytes → UInt32) : ∀ (evs : List Ev) {s s' : State} {n : List Blk} {o : Bool}
    (outs : List Out), SInv s n o → run codec h s evs = .ok (s', outs) → ∃ n' o', SInv s' n' o' := by
  intro evs
  induction evs with
  | nil => intro s s' n o outs hinv hr; simp only [run] at hr; cases hr; exact ⟨n, o, hinv⟩
  | cons e es ih =>
    intro s s' n o outs hinv hr
    unfold run at hr
    split at hr
    · cases hr
    · rename_i s1 o1 hs
      split at hr
      · cases hr
      · rename_i s2 os hr2
        cases hr
        obtain ⟨n1, o1', h1⟩ := step_SInv codec h e o1 hinv hs
        exact ih os h1 hr2

/-- the calls made so far obey the strengthened protocol -/
theorem SInv_wfS {s : State} {n : List Blk} {o : Bool} (hinv : SInv s n o) : wfS false s.calls = true := by
  have h1 : wfS false (n.map Blk.call) = true := wfS_of_wfSt _ _ _ hinv.wfn
  rw [hinv.calls]
  have : n.map Blk.call = (n.take s.deqSeq).map Blk.call ++ (n.drop s.deqSeq).map Blk.call := by
    rw [← List.map_append, List.take_append_drop]
  rw [this] at h1
  exact wfS_prefix _ _ _ h1

/-! ### the link between the fragment model's ghost store and the block writer's file -/

theorem bw_run_snoc : ∀ (cs : List Call) (s0 s : BlockWriter.State) (locs : List Nat) (c : Call) (s' : BlockWriter.State)
    (loc : Nat), BlockWriter.run s0 cs = .ok (s, locs) → BlockWriter.writeDataBlock s c.chk c.flags c.data = .ok (s', loc) →
    BlockWriter.run s0 (cs ++ [c]) = .ok (s', locs ++ [loc]) := by
  intro cs
  induction cs with
  | nil =>
    intro s0 s locs c s' loc hr hw
    simp only [BlockWriter.run] at hr
    cases hr
    simp [BlockWriter.run, hw]
  | cons x xs ih =>
    intro s0 s locs c s' loc hr hw
    simp only [List.cons_append, BlockWriter.run] at hr ⊢
    split at hr
    · cases hr
    · rename_i s1 l1 h1
      split at hr
      · cases hr
      · rename_i s2 ls h2
        cases hr
        rw [ih s1 s ls c s' loc h2 hw]
        rfl

/-- fragment block `i` is on disk as `stored`: it was written by call `k`, whose location the table records -/
def Linked (s : State) (i : Nat) (stored : Bytes) (cmp : Bool) : Prop :=
  ∃ (k : Nat) (c : Call) (loc : Nat), s.calls[k]? = some c ∧ s.locs[k]? = some loc ∧ c.data = stored ∧
    c.fragBlk = true ∧ c.stored = true ∧ hasFlag c.flags blkIsCompressed = cmp ∧
    s.fragTbl[i]? = some (loc, BlockWriter.mkWord stored.length c.flags)

structure LInv (pre : Bytes) (s : State) : Prop where
  bwrun : BlockWriter.run (BlockWriter.init pre) s.calls = .ok (s.bw, s.locs)
  lens  : s.locs.length = s.calls.length
  link  : ∀ (i : Nat) (d stored : Bytes) (cmp : Bool) (fl : Nat),
            s.fd.blocks[i]? = some ⟨d, .written stored cmp, fl⟩ → stored ≠ [] → Linked s i stored cmp
  tbl   : s.fd.blocks.length ≤ s.fragTbl.length

theorem LInv_init (B : Nat) (pre : Bytes) : LInv pre (init B pre) :=
  ⟨rfl, rfl, fun i d stored cmp fl h => (by simp [init] at h), Nat.le_refl _⟩

theorem Linked_congr {s s' : State} {i : Nat} {stored : Bytes} {cmp : Bool} (h : Linked s i stored cmp)
    (h1 : ∀ (k : Nat) (c : Call), s.calls[k]? = some c → s'.calls[k]? = some c)
    (h2 : ∀ (k : Nat) (l : Nat), s.locs[k]? = some l → s'.locs[k]? = some l)
    (h3 : ∀ (e : Nat × Nat), s.fragTbl[i]? = some e → s'.fragTbl[i]? = some e) : Linked s' i stored cmp := by
  obtain ⟨k, c, loc, a1, a2, a3, a4, a5, a6, a7⟩ := h
  exact ⟨k, c, loc, h1 k c a1, h2 k loc a2, a3, a4, a5, a6, h3 _ a7⟩

/-- a step of the fragment model that puts no new block on disk keeps the link -/
theorem LInv_fd {pre : Bytes} {s s' : State} (h : LInv pre s) (hnw : FragDedup.NoNewWritten s.fd s'.fd)
    (h1 : s'.calls = s.calls) (h2 : s'.locs = s.locs) (h3 : s'.bw = s.bw)
    (h4 : ∀ (i : Nat) (e : Nat × Nat), s.fragTbl[i]? = some e → s'.fragTbl[i]? = some e)
    (h5 : s'.fd.blocks.length ≤ s'.fragTbl.length) :
    LInv pre s' := by
  refine ⟨by rw [h1, h2, h3]; exact h.bwrun, by rw [h1, h2]; exact h.lens, ?_, h5⟩
  intro i d stored cmp fl hb hne
  have hold := hnw i _ hb ⟨stored, cmp, rfl⟩
  exact Linked_congr (h.link i d stored cmp fl hold hne) (fun k c hc => by rw [h1]; exact hc)
    (fun k l hl => by rw [h2]; exact hl) (h4 i)

theorem growTbl_get (tbl : List (Nat × Nat)) (n i : Nat) (e : Nat × Nat) (h : tbl[i]? = some e) :
    (growTbl tbl n)[i]? = some e := getElem?_append_some h

theorem growTbl_len (tbl : List (Nat × Nat)) (n : Nat) : n ≤ (growTbl tbl n).length := by
  unfold growTbl; simp; omega

theorem enqueue_fields (codec : Codec) (h : Bytes → UInt32) (s : State) (i : Nat) :
    (enqueueFragBlock codec h s i).calls = s.calls ∧ (enqueueFragBlock codec h s i).locs = s.locs ∧
    (enqueueFragBlock codec h s i).bw = s.bw ∧ (enqueueFragBlock codec h s i).fragTbl = s.fragTbl ∧
    (enqueueFragBlock codec h s i).fd = s.fd ∧ (enqueueFragBlock codec h s i).fevs = s.fevs ∧
    (enqueueFragBlock codec h s i).fres = s.fres ∧ (enqueueFragBlock codec h s i).B = s.B ∧
    (enqueueFragBlock codec h s i).pending = s.pending ∧ (enqueueFragBlock codec h s i).ioQueue = s.ioQueue := by
  unfold enqueueFragBlock
  split <;> exact ⟨rfl, rfl, rfl, rfl, rfl, rfl, rfl, rfl, rfl, rfl⟩

theorem enqueue_LInv (codec : Codec) (h : Bytes → UInt32) {pre : Bytes} {s : State} (i : Nat) (hinv : LInv pre s) :
    LInv pre (enqueueFragBlock codec h s i) := by
  obtain ⟨e1, e2, e3, e4, e5, _⟩ := enqueue_fields codec h s i
  exact LInv_fd hinv (by rw [e5]; exact FragDedup.NoNewWritten.refl _) e1 e2 e3 (fun i e he => by rw [e4]; exact he)
    (by rw [e4, e5]; exact hinv.tbl)

theorem handleFragment_LInv (codec : Codec) (h : Bytes → UInt32) {pre : Bytes} {s s' : State} (frag : Blk) (out : Out)
    (hinv : LInv pre s) (hrun : handleFragment codec h s frag = .ok (s', out)) : LInv pre s' := by
  unfold handleFragment at hrun
  split at hrun
  · cases hrun
  · rename_i r fd' hpf
    have hnw := (FragDedup.processFragment_struct codec h s.B s.fd frag.data frag.flags r fd' hpf).2.2
    simp only [] at hrun
    generalize hs1 : ({ s with fd := fd', fragTbl := growTbl s.fragTbl fd'.blocks.length,
                               fevs := s.fevs ++ [.frag frag.data frag.flags], fres := s.fres ++ [some r] } : State) = s1 at hrun
    have h1 : LInv pre s1 := by
      subst hs1
      exact LInv_fd hinv hnw rfl rfl rfl (fun i e he => growTbl_get _ _ _ _ he) (growTbl_len _ _)
    split at hrun
    · cases hrun; exact h1
    · cases hrun
      exact enqueue_LInv codec h _ h1

theorem mkWord_clear (n f : Nat) : BlockWriter.mkWord n (clearFlag f blkFlagInternal) = BlockWriter.mkWord n f := by
  unfold BlockWriter.mkWord
  rw [hasFlag_clear _ _ (by decide)]

/-- everything a successful `process_completed_block` does -/
theorem completeBlock_shape (codec : Codec) (s s' : State) (b : Blk) (out : Out)
    (h : completeBlock codec s b = .ok (s', out)) :
    ∃ bw' loc, BlockWriter.writeDataBlock s.bw b.call.chk b.call.flags b.call.data = .ok (bw', loc) ∧ s'.bw = bw' ∧
      s'.calls = s.calls ++ [b.call] ∧ s'.locs = s.locs ++ [loc] ∧ s'.B = s.B ∧ s'.pending = s.pending ∧
      s'.pool = s.pool ∧ s'.ioQueue = s.ioQueue ∧
      ((hasFlag b.flags blkFragmentBlock = false ∧ s'.fd = s.fd ∧ s'.fragTbl = s.fragTbl ∧ s'.fevs = s.fevs ∧
          s'.fres = s.fres) ∨
       (hasFlag b.flags blkFragmentBlock = true ∧ FragDedup.blockWritten codec s.fd b.index = .ok s'.fd ∧
          (∃ x y, s'.fd.blocks[b.index]? = some ⟨x, .written b.data (hasFlag b.flags blkIsCompressed), y⟩) ∧
          hasFlag b.flags blkIsSparse = false ∧
          s'.fragTbl = (if b.data.length != 0 then s.fragTbl.set b.index (loc, BlockWriter.mkWord b.data.length b.flags)
                        else s.fragTbl) ∧
          s'.fevs = s.fevs ++ [.written b.index] ∧ s'.fres = s.fres ++ [none])) := by
  unfold completeBlock at h
  simp only [] at h
  split at h
  · cases h
  · rename_i bw' loc hw
    refine ⟨bw', loc, hw, ?_⟩
    split at h
    · rename_i hfb
      split at h
      · cases h
      · rename_i fd' hbw
        split at h
        · rename_i x stored cmp y hget
          split at h
          · rename_i hok
            obtain ⟨e1, e2, e3⟩ := hok
            subst e1 e2
            split at h
            · rename_i hlen
              cases h
              exact ⟨rfl, rfl, rfl, rfl, rfl, rfl, rfl, Or.inr ⟨hfb, hbw, ⟨x, y, hget⟩, e3, by simp [hlen], rfl, rfl⟩⟩
            · rename_i hlen
              cases h
              exact ⟨rfl, rfl, rfl, rfl, rfl, rfl, rfl, Or.inr ⟨hfb, hbw, ⟨x, y, hget⟩, e3, by simp [hlen], rfl, rfl⟩⟩
          · cases h
        · cases h
    · rename_i hfb
      cases h
      exact ⟨rfl, rfl, rfl, rfl, rfl, rfl, rfl, Or.inl ⟨by simpa using hfb, rfl, rfl, rfl, rfl⟩⟩

theorem completeBlock_LInv (codec : Codec) {pre : Bytes} {s s' : State} (b : Blk) (out : Out)
    (hinv : LInv pre s) (hrun : completeBlock codec s b = .ok (s', out)) : LInv pre s' := by
  obtain ⟨bw', loc, hw, e1, e2, e3, _, _, _, _, hcase⟩ := completeBlock_shape codec s s' b out hrun
  have hrun' : BlockWriter.run (BlockWriter.init pre) s'.calls = .ok (s'.bw, s'.locs) := by
    rw [e1, e2, e3]
    exact bw_run_snoc _ _ _ _ b.call _ _ hinv.bwrun hw
  have hlens : s'.locs.length = s'.calls.length := by rw [e2, e3]; simp [hinv.lens]
  have hc : ∀ (k : Nat) (c : Call), s.calls[k]? = some c → s'.calls[k]? = some c :=
    fun k c hk => by rw [e2]; exact getElem?_append_some hk
  have hl : ∀ (k : Nat) (l : Nat), s.locs[k]? = some l → s'.locs[k]? = some l :=
    fun k l hk => by rw [e3]; exact getElem?_append_some hk
  rcases hcase with ⟨_, f1, f2, _, _⟩ | ⟨hfb, hbw, ⟨x, y, hget⟩, hsp, f2, _, _⟩
  · refine ⟨hrun', hlens, ?_, by rw [f1, f2]; exact hinv.tbl⟩
    intro i d stored cmp fl hb hne
    rw [f1] at hb
    exact Linked_congr (hinv.link i d stored cmp fl hb hne) hc hl (fun e he => by rw [f2]; exact he)
  · obtain ⟨b0, p, hb0, _, _, hother, hlen⟩ := FragDedup.blockWritten_struct codec s.fd s'.fd b.index hbw
    have hj : b.index < s.fragTbl.length := by
      have : b.index < s.fd.blocks.length := (List.getElem?_eq_some_iff.1 hb0).1
      have := hinv.tbl; omega
    refine ⟨hrun', hlens, ?_, ?_⟩
    · intro i d stored cmp fl hb hne
      by_cases hij : i = b.index
      · subst hij
        rw [hget] at hb
        injection hb with hb
        injection hb with _ hpl _
        injection hpl with hst hcm
        subst hst hcm
        have hlen0 : (b.data.length != 0) = true := by
          cases hd : b.data with
          | nil => exact absurd hd hne
          | cons _ _ => simp
        refine ⟨s.calls.length, b.call, loc, ?_, ?_, rfl, ?_, ?_, ?_, ?_⟩
        · rw [e2, List.getElem?_append_right (Nat.le_refl _)]; simp
        · rw [e3, ← hinv.lens, List.getElem?_append_right (Nat.le_refl _)]; simp
        · rw [call_fragBlk]; exact hfb
        · show (b.data.length != 0 && !hasFlag (clearFlag b.flags blkFlagInternal) blkIsSparse) = true
          rw [hasFlag_clear _ _ (by decide), hsp, hlen0]; rfl
        · exact hasFlag_clear _ _ (by decide)
        · rw [f2, if_pos hlen0, List.getElem?_set_self hj]
          show some (loc, BlockWriter.mkWord b.data.length b.flags) = some (loc, BlockWriter.mkWord b.data.length (clearFlag b.flags blkFlagInternal))
          rw [mkWord_clear]
      · rw [hother i hij] at hb
        refine Linked_congr (hinv.link i d stored cmp fl hb hne) hc hl ?_
        intro e he
        rw [f2]
        split
        · rw [List.getElem?_set_ne (Ne.symm hij)]; exact he
        · exact he
    · rw [hlen, f2]
      split
      · rw [List.length_set]; exact hinv.tbl
      · exact hinv.tbl

theorem step_LInv (codec : Codec) (h : Bytes → UInt32) {pre : Bytes} {s s' : State} (e : Ev) (out : Out)
    (hinv : LInv pre s) (hrun : step codec h s e = .ok (s', out)) : LInv pre s' := by
  have keep : ∀ (t : State), t.calls = s.calls → t.locs = s.locs → t.bw = s.bw → t.fragTbl = s.fragTbl → t.fd = s.fd →
      LInv pre t := by
    intro t a1 a2 a3 a4 a5
    exact LInv_fd hinv (by rw [a5]; exact FragDedup.NoNewWritten.refl _) a1 a2 a3 (fun i e he => by rw [a4]; exact he)
      (by rw [a4, a5]; exact hinv.tbl)
  cases e with
  | file uflags data =>
    simp only [step] at hrun
    split at hrun
    · cases hrun
    · cases hrun; exact keep _ rfl rfl rfl rfl rfl
  | submit =>
    simp only [step] at hrun
    split at hrun
    · cases hrun
    · cases hrun; exact keep _ rfl rfl rfl rfl rfl
  | dequeue =>
    simp only [step] at hrun
    split at hrun
    · cases hrun
    · rename_i blk rest hp
      split at hrun
      · exact handleFragment_LInv codec h blk out (keep { s with pool := rest } rfl rfl rfl rfl rfl) hrun
      · split at hrun
        · cases hrun; exact keep _ rfl rfl rfl rfl rfl
        · cases hrun; exact keep _ rfl rfl rfl rfl rfl
  | complete =>
    simp only [step] at hrun
    split at hrun
    · cases hrun
    · rename_i b rest hq
      split at hrun
      · cases hrun
      · exact completeBlock_LInv codec b out (keep { s with ioQueue := rest, deqSeq := s.deqSeq + 1 } rfl rfl rfl rfl rfl) hrun
  | finish =>
    simp only [step] at hrun
    split at hrun
    · cases hrun
    · split at hrun
      · cases hrun; exact keep _ rfl rfl rfl rfl rfl
      · rename_i i hoi
        cases hrun
        refine enqueue_LInv codec h i ?_
        exact LInv_fd hinv (FragDedup.closeOpen_struct s.fd).2.2 rfl rfl rfl (fun i e he => he)
          (by show (FragDedup.closeOpen s.fd).blocks.length ≤ s.fragTbl.length
              have : (FragDedup.closeOpen s.fd).blocks.length = s.fd.blocks.length := by
                unfold FragDedup.closeOpen; split <;> simp
              rw [this]; exact hinv.tbl)

theorem run_LInv (codec : Codec) (h : Bytes → UInt32) {pre : Bytes} : ∀ (evs : List Ev) {s s' : State}
    (outs : List Out), LInv pre s → run codec h s evs = .ok (s', outs) → LInv pre s' := by
  intro evs
  induction evs with
  | nil => intro s s' outs hinv hr; simp only [run] at hr; cases hr; exact hinv
  | cons e es ih =>
    intro s s' outs hinv hr
    unfold run at hr
    split at hr
    · cases hr
    · rename_i s1 o1 hs
      split at hr
      · cases hr
      · rename_i s2 os hr2
        cases hr
        exact ih os (step_LInv codec h e o1 hinv hs) hr2

/-! ### sizes, and the fragment model's own run -/

theorem and_bit24 (n : Nat) (h : n < 2 ^ 24) : n &&& (1 <<< 24) = 0 := by
  have e : (1 <<< 24 : Nat) = 2 ^ 24 := by decide
  rw [e]
  apply Nat.eq_of_testBit_eq
  intro i
  rw [Nat.testBit_and, Nat.testBit_two_pow, Nat.zero_testBit]
  by_cases hi : 24 = i
  · subst hi; simp [Nat.testBit_lt_two_pow h]
  · simp [hi]

theorem or_bit24 (n : Nat) : (n ||| (1 <<< 24)) &&& (1 <<< 24) ≠ 0 := by
  have e : (1 <<< 24 : Nat) = 2 ^ 24 := by decide
  rw [e]
  intro h0
  have := congrArg (fun x => Nat.testBit x 24) h0
  simp only [Nat.testBit_and, Nat.testBit_or, Nat.zero_testBit] at this
  have h24 : Nat.testBit (2 ^ 24) 24 = true := by decide
  rw [h24] at this
  simp at this

/-- the raw bit of a size word -/
theorem mkWord_raw (n flags : Nat) (h : n < 2 ^ 24) :
    (BlockWriter.mkWord n flags &&& (1 <<< 24) != 0) = !hasFlag flags blkIsCompressed := by
  unfold BlockWriter.mkWord
  split
  · rename_i hc; rw [hc, and_bit24 n h]; rfl
  · rename_i hc
    have hc' : hasFlag flags blkIsCompressed = false := by simpa using hc
    rw [hc']
    have := or_bit24 n
    show ((n ||| 1 <<< 24) &&& 1 <<< 24 != 0) = true
    rw [bne_iff_ne]; exact this

theorem hasFlag_or_false (f a b : Nat) (h : hasFlag f (a ||| b) = false) : hasFlag f a = false := by
  unfold hasFlag at h ⊢
  have h0 : f &&& (a ||| b) = 0 := by simpa using h
  rw [Nat.and_or_distrib_left, Nat.or_eq_zero_iff] at h0
  simp [h0.1]

/-- the worker leaves the bytes alone or replaces them by the compressor's output; never for a tail end -/
theorem processBlock_data (codec : Codec) (h : Bytes → UInt32) (b : Blk) :
    (processBlock codec h b).data = b.data ∨
      (∃ z, codec.cmp b.data = some z ∧ (processBlock codec h b).data = z ∧ b.kind.isFrag = false) := by
  unfold processBlock
  split
  · exact Or.inl rfl
  · split
    · exact Or.inl rfl
    · simp only []
      split
      · exact Or.inl rfl
      · rename_i hnf
        split
        · rename_i z hz
          exact Or.inr ⟨z, hz, rfl, hasFlag_or_false _ _ _ (by simpa using hnf)⟩
        · exact Or.inl rfl

/-- the codec writes into a buffer of `B` bytes (`worker->scratch_size = max_block_size`) -/
def Fits (codec : Codec) (B : Nat) : Prop := ∀ x z, codec.cmp x = some z → z.length ≤ B

theorem processBlock_size (codec : Codec) (h : Bytes → UInt32) (B : Nat) (hfit : Fits codec B) (b : Blk)
    (hb : b.data.length ≤ B ∧ (b.kind.isFrag = true → b.data ≠ [])) :
    (processBlock codec h b).data.length ≤ B ∧ ((processBlock codec h b).kind.isFrag = true → (processBlock codec h b).data ≠ []) := by
  have hk := (processBlock_kind codec h b).1
  rcases processBlock_data codec h b with hd | ⟨z, hz, hd, hnf⟩
  · rw [hd, hk]; exact hb
  · rw [hd, hk]
    exact ⟨hfit _ _ hz, fun hf => by rw [hnf] at hf; cases hf⟩

theorem slice_len_le (d : Bytes) (off B : Nat) : (BlockWriter.slice d off B).length ≤ B := by
  simp [BlockWriter.slice]; omega

theorem fullBlocks_sizes (B uf : Nat) (data : Bytes) (huf : uf < 32) : ∀ (k off : Nat) (first : Bool),
    ∀ b ∈ fullBlocks B uf data k off first, b.data.length ≤ B ∧ (b.kind.isFrag = true → b.data ≠ []) := by
  intro k
  induction k with
  | zero => intro off first b hb; cases hb
  | succ k ih =>
    intro off first b hb
    simp only [fullBlocks, List.mem_cons] at hb
    rcases hb with rfl | hm
    · refine ⟨slice_len_le _ _ _, ?_⟩
      intro hf
      exfalso
      have : (Blk.kind { flags := if first = true then uf ||| blkFirstBlock else uf,
                          data := BlockWriter.slice data off B }).isFrag = false := by
        unfold Blk.kind
        cases first
        · have := kind_user uf huf; simp [this]
        · have := kind_first uf huf; simp [this]
      rw [this] at hf; cases hf
    · exact ih _ _ b hm

theorem fileBlocks_sizes (B uf : Nat) (data : Bytes) (hB : 0 < B) (huf : uf < 32) :
    ∀ b ∈ fileBlocks B uf data, b.data.length ≤ B ∧ (b.kind.isFrag = true → b.data ≠ []) := by
  have htail : (data.drop (data.length / B * B)).length ≤ B := by
    have h1 := Nat.div_add_mod' data.length B
    have h2 := Nat.mod_lt data.length hB
    simp only [List.length_drop]; omega
  have hsent : ∀ b : Blk, b = { flags := uf ||| blkLastBlock } → b.data.length ≤ B ∧ (b.kind.isFrag = true → b.data ≠ []) := by
    intro b hb; subst hb
    refine ⟨Nat.zero_le _, fun hf => ?_⟩
    have : (Blk.kind { flags := uf ||| blkLastBlock }).isFrag = false := by
      have := kind_last uf huf; unfold Blk.kind; simp [this]
    rw [this] at hf; cases hf
  intro b hb
  unfold fileBlocks at hb
  simp only [] at hb
  split at hb
  · rcases List.mem_append.1 hb with hm | hm
    · exact fullBlocks_sizes B uf data huf _ _ _ b hm
    · split at hm
      · cases hm
      · exact hsent b (by simpa using hm)
  · rename_i htl
    split at hb
    · rcases List.mem_append.1 hb with hm | hm
      · exact fullBlocks_sizes B uf data huf _ _ _ b hm
      · rw [List.mem_singleton] at hm
        subst hm
        refine ⟨htail, fun hf => ?_⟩
        exfalso
        have : (Blk.kind { flags := (if data.length / B = 0 then uf ||| blkFirstBlock else uf) ||| blkLastBlock,
                            data := List.drop (data.length / B * B) data }).isFrag = false := by
          unfold Blk.kind
          split
          · have := kind_first_last uf huf; simp [this]
          · have := kind_last uf huf; simp [this]
        rw [this] at hf; cases hf
    · rcases List.mem_append.1 hb with hm | hm
      · rcases List.mem_append.1 hm with hm2 | hm2
        · exact fullBlocks_sizes B uf data huf _ _ _ b hm2
        · split at hm2
          · cases hm2
          · exact hsent b (by simpa using hm2)
      · rw [List.mem_singleton] at hm
        subst hm
        refine ⟨htail, fun _ he => ?_⟩
        apply htl
        show (List.drop (data.length / B * B) data).length = 0
        change List.drop (data.length / B * B) data = [] at he
        rw [he]; rfl

theorem fd_run_snoc (codec : Codec) (h : Bytes → UInt32) (B : Nat) : ∀ (evs : List FragDedup.Ev) (st st' st'' : FragDedup.State)
    (rs : List (Option FragDedup.Res)) (e : FragDedup.Ev) (r : Option FragDedup.Res),
    FragDedup.run codec h true B st evs = .ok (rs, st') → FragDedup.step codec h true B st' e = .ok (r, st'') →
    FragDedup.run codec h true B st (evs ++ [e]) = .ok (rs ++ [r], st'') := by
  intro evs
  induction evs with
  | nil =>
    intro st st' st'' rs e r hr hs
    simp only [FragDedup.run] at hr
    cases hr
    simp [FragDedup.run, hs]
  | cons x xs ih =>
    intro st st' st'' rs e r hr hs
    simp only [List.cons_append, FragDedup.run] at hr ⊢
    split at hr
    · cases hr
    · rename_i r1 s1 h1
      split at hr
      · cases hr
      · rename_i rs2 s2 h2
        cases hr
        rw [ih s1 st' st'' rs2 e r h2 hs]
        rfl

structure ZInv (codec : Codec) (h : Bytes → UInt32) (s : State) : Prop where
  pend  : ∀ b ∈ s.pending, b.data.length ≤ s.B ∧ (b.kind.isFrag = true → b.data ≠ [])
  pool  : ∀ b ∈ s.pool, b.data.length ≤ s.B ∧ (b.kind.isFrag = true → b.data ≠ [])
  queue : ∀ b ∈ s.ioQueue, b.data.length ≤ s.B
  calls : ∀ c ∈ s.calls, c.data.length ≤ s.B
  fdinv : FragDedup.Inv codec s.fd
  goodS : FragDedup.GoodS s.B s.fd
  frun  : FragDedup.run codec h true s.B {} s.fevs = .ok (s.fres, s.fd)
  fok   : FragDedup.evsOk s.fevs

theorem ZInv_init (codec : Codec) (h : Bytes → UInt32) (B : Nat) (pre : Bytes) : ZInv codec h (init B pre) :=
  ⟨fun _ hb => (by cases hb), fun _ hb => (by cases hb), fun _ hb => (by cases hb), fun _ hb => (by cases hb),
   FragDedup.Inv_init codec, fun i b hb => (by simp [init] at hb), rfl, fun e he => (by cases he)⟩

theorem enqueue_ZInv (codec : Codec) (h : Bytes → UInt32) {s : State} (hfit : Fits codec s.B) (i : Nat)
    (hinv : ZInv codec h s) : ZInv codec h (enqueueFragBlock codec h s i) := by
  unfold enqueueFragBlock
  cases hb : s.fd.blocks[i]? with
  | none => exact hinv
  | some fb =>
    simp only []
    refine ⟨hinv.pend, ?_, hinv.queue, hinv.calls, hinv.fdinv, hinv.goodS, hinv.frun, hinv.fok⟩
    intro b hb'
    rcases List.mem_append.1 hb' with hm | hm
    · exact hinv.pool b hm
    · rw [List.mem_singleton] at hm
      subst hm
      exact processBlock_size codec h s.B hfit _ ⟨hinv.goodS i fb hb, fun _ => (hinv.fdinv.blocks i fb hb).1⟩

theorem evsOk_snoc (evs : List FragDedup.Ev) (e : FragDedup.Ev) (h : FragDedup.evsOk evs) (he : e.ok) :
    FragDedup.evsOk (evs ++ [e]) := by
  intro x hx
  rcases List.mem_append.1 hx with hm | hm
  · exact h x hm
  · rw [List.mem_singleton] at hm; subst hm; exact he

theorem enqueue_B (codec : Codec) (h : Bytes → UInt32) (s : State) (i : Nat) : (enqueueFragBlock codec h s i).B = s.B :=
  (enqueue_fields codec h s i).2.2.2.2.2.2.2.1

theorem handleFragment_ZInv (codec : Codec) (h : Bytes → UInt32) {s s' : State} (hfit : Fits codec s.B) (frag : Blk) (out : Out)
    (hinv : ZInv codec h s) (hfrag : frag.data.length ≤ s.B ∧ frag.data ≠ [])
    (hrun : handleFragment codec h s frag = .ok (s', out)) : ZInv codec h s' ∧ s'.B = s.B := by
  unfold handleFragment at hrun
  split at hrun
  · cases hrun
  · rename_i r fd' hpf
    obtain ⟨r2, st2, hpf2, hinv2, _⟩ := FragDedup.processFragment_spec codec h s.B s.fd frag.data frag.flags [] hinv.fdinv hfrag.2
      (fun p hp => by cases hp)
    rw [hpf] at hpf2
    cases hpf2
    have hgs := (FragDedup.processFragment_struct codec h s.B s.fd frag.data frag.flags r fd' hpf).2.1 hinv.fdinv hfrag.1 hinv.goodS
    simp only [] at hrun
    generalize hs1 : ({ s with fd := fd', fragTbl := growTbl s.fragTbl fd'.blocks.length,
                               fevs := s.fevs ++ [.frag frag.data frag.flags], fres := s.fres ++ [some r] } : State) = s1 at hrun
    have h1 : ZInv codec h s1 ∧ s1.B = s.B := by
      subst hs1
      refine ⟨⟨hinv.pend, hinv.pool, hinv.queue, hinv.calls, hinv2, hgs, ?_, ?_⟩, rfl⟩
      · exact fd_run_snoc codec h s.B _ _ _ _ _ _ _ hinv.frun (by simp [FragDedup.step, hpf])
      · exact evsOk_snoc _ _ hinv.fok hfrag.2
    split at hrun
    · cases hrun; exact h1
    · cases hrun
      exact ⟨enqueue_ZInv codec h (by rw [h1.2]; exact hfit) _ h1.1, by rw [enqueue_B, h1.2]⟩

theorem blockWritten_goodS (codec : Codec) (B : Nat) (st st' : FragDedup.State) (idx : Nat)
    (h : FragDedup.blockWritten codec st idx = .ok st') (hg : FragDedup.GoodS B st) : FragDedup.GoodS B st' := by
  obtain ⟨b, p, hb, _, hb', hne, _⟩ := FragDedup.blockWritten_struct codec st st' idx h
  intro j x hx
  by_cases hj : j = idx
  · subst hj
    rw [hb'] at hx; cases hx
    exact hg j b hb
  · rw [hne j hj] at hx
    exact hg j x hx

theorem completeBlock_ZInv (codec : Codec) (hrt : codec.RoundTrip) (h : Bytes → UInt32) {s s' : State} (b : Blk) (out : Out)
    (hinv : ZInv codec h s) (hb : b.data.length ≤ s.B) (hrun : completeBlock codec s b = .ok (s', out)) :
    ZInv codec h s' ∧ s'.B = s.B := by
  obtain ⟨bw', loc, hw, e1, e2, e3, eB, ep, epl, eq, hcase⟩ := completeBlock_shape codec s s' b out hrun
  have hcalls : ∀ c ∈ s'.calls, c.data.length ≤ s'.B := by
    rw [e2, eB]
    intro c hc
    rcases List.mem_append.1 hc with hm | hm
    · exact hinv.calls c hm
    · rw [List.mem_singleton] at hm; subst hm; exact hb
  refine ⟨?_, eB⟩
  rcases hcase with ⟨_, f1, _, f3, f4⟩ | ⟨_, hbw, _, _, _, f3, f4⟩
  · exact ⟨by rw [ep, eB]; exact hinv.pend, by rw [epl, eB]; exact hinv.pool, by rw [eq, eB]; exact hinv.queue, hcalls,
      by rw [f1]; exact hinv.fdinv, by rw [f1, eB]; exact hinv.goodS, by rw [f1, f3, f4, eB]; exact hinv.frun,
      by rw [f3]; exact hinv.fok⟩
  · have hi : FragDedup.Inv codec s'.fd := by
      rcases FragDedup.blockWritten_spec codec hrt s.fd b.index hinv.fdinv with ⟨st', h1, h2, _⟩ | herr
      · rw [hbw] at h1; cases h1; exact h2
      · rw [hbw] at herr; cases herr
    exact ⟨by rw [ep, eB]; exact hinv.pend, by rw [epl, eB]; exact hinv.pool, by rw [eq, eB]; exact hinv.queue, hcalls,
      hi, by rw [eB]; exact blockWritten_goodS codec s.B _ _ _ hbw hinv.goodS,
      by rw [f3, f4, eB]; exact fd_run_snoc codec h s.B _ _ _ _ _ _ _ hinv.frun (by simp [FragDedup.step, hbw]),
      by rw [f3]; exact evsOk_snoc _ _ hinv.fok trivial⟩

theorem step_ZInv (codec : Codec) (hrt : codec.RoundTrip) (h : Bytes → UInt32) {s s' : State} (hfit : Fits codec s.B)
    (hB : 0 < s.B) (e : Ev) (out : Out) (hinv : ZInv codec h s) (hrun : step codec h s e = .ok (s', out)) :
    ZInv codec h s' ∧ s'.B = s.B := by
  cases e with
  | file uflags data =>
    simp only [step] at hrun
    split at hrun
    · cases hrun
    · rename_i hg
      cases hrun
      have huf : uflags < 32 := by
        have h1 : uflags &&& blkUserSettable = uflags := by simpa using hg
        have h2 : uflags &&& blkUserSettable ≤ blkUserSettable := Nat.and_le_right
        have h3 : blkUserSettable = 31 := rfl
        omega
      refine ⟨⟨?_, hinv.pool, hinv.queue, hinv.calls, hinv.fdinv, hinv.goodS, hinv.frun, hinv.fok⟩, rfl⟩
      intro b hb
      rcases List.mem_append.1 hb with hm | hm
      · exact hinv.pend b hm
      · exact fileBlocks_sizes s.B uflags data hB huf b hm
  | submit =>
    simp only [step] at hrun
    split at hrun
    · cases hrun
    · rename_i b rest hp
      cases hrun
      refine ⟨⟨?_, ?_, hinv.queue, hinv.calls, hinv.fdinv, hinv.goodS, hinv.frun, hinv.fok⟩, rfl⟩
      · intro x hx; exact hinv.pend x (by rw [hp]; exact List.mem_cons_of_mem _ hx)
      · intro x hx
        rcases List.mem_append.1 hx with hm | hm
        · exact hinv.pool x hm
        · rw [List.mem_singleton] at hm
          subst hm
          exact processBlock_size codec h s.B hfit b (hinv.pend b (by rw [hp]; exact List.mem_cons_self ..))
  | dequeue =>
    simp only [step] at hrun
    split at hrun
    · cases hrun
    · rename_i blk rest hp
      have hblk := hinv.pool blk (by rw [hp]; exact List.mem_cons_self ..)
      have hrest : ∀ b ∈ rest, b.data.length ≤ s.B ∧ (b.kind.isFrag = true → b.data ≠ []) :=
        fun b hb => hinv.pool b (by rw [hp]; exact List.mem_cons_of_mem _ hb)
      have h0 : ZInv codec h { s with pool := rest } :=
        ⟨hinv.pend, hrest, hinv.queue, hinv.calls, hinv.fdinv, hinv.goodS, hinv.frun, hinv.fok⟩
      split at hrun
      · rename_i hif
        exact handleFragment_ZInv codec h (s := { s with pool := rest }) hfit blk out h0 ⟨hblk.1, hblk.2 hif⟩ hrun
      · split at hrun
        · cases hrun
          refine ⟨⟨hinv.pend, hrest, ?_, hinv.calls, hinv.fdinv, hinv.goodS, hinv.frun, hinv.fok⟩, rfl⟩
          intro x hx
          rcases mem_storeIo _ _ _ hx with hm | hm
          · subst hm; exact hblk.1
          · exact hinv.queue x hm
        · cases hrun
          refine ⟨⟨hinv.pend, hrest, ?_, hinv.calls, hinv.fdinv, hinv.goodS, hinv.frun, hinv.fok⟩, rfl⟩
          intro x hx
          rcases mem_storeIo _ _ _ hx with hm | hm
          · subst hm; exact hblk.1
          · exact hinv.queue x hm
  | complete =>
    simp only [step] at hrun
    split at hrun
    · cases hrun
    · rename_i b rest hq
      split at hrun
      · cases hrun
      · have h0 : ZInv codec h { s with ioQueue := rest, deqSeq := s.deqSeq + 1 } :=
          ⟨hinv.pend, hinv.pool, fun x hx => hinv.queue x (by rw [hq]; exact List.mem_cons_of_mem _ hx), hinv.calls,
            hinv.fdinv, hinv.goodS, hinv.frun, hinv.fok⟩
        exact completeBlock_ZInv codec hrt h (s := { s with ioQueue := rest, deqSeq := s.deqSeq + 1 }) b out h0
          (hinv.queue b (by rw [hq]; exact List.mem_cons_self ..)) hrun
  | finish =>
    simp only [step] at hrun
    split at hrun
    · cases hrun
    · have hstep : FragDedup.run codec h true s.B {} (s.fevs ++ [.finish]) = .ok (s.fres ++ [none], FragDedup.closeOpen s.fd) :=
        fd_run_snoc codec h s.B _ _ _ _ _ _ _ hinv.frun (by simp [FragDedup.step])
      have hok := evsOk_snoc _ (.finish) hinv.fok trivial
      split at hrun
      · rename_i hoi
        cases hrun
        have hc : FragDedup.closeOpen s.fd = s.fd := by unfold FragDedup.closeOpen; rw [hoi]
        rw [hc] at hstep
        exact ⟨⟨hinv.pend, hinv.pool, hinv.queue, hinv.calls, hinv.fdinv, hinv.goodS, hstep, hok⟩, rfl⟩
      · rename_i i hoi
        cases hrun
        have hcs := FragDedup.closeOpen_spec codec s.fd hinv.fdinv
        have h1 : ZInv codec h { s with fd := FragDedup.closeOpen s.fd, fevs := s.fevs ++ [.finish], fres := s.fres ++ [none] } :=
          ⟨hinv.pend, hinv.pool, hinv.queue, hinv.calls, hcs.1, (FragDedup.closeOpen_struct s.fd).2.1 s.B hinv.goodS, hstep, hok⟩
        exact ⟨enqueue_ZInv codec h (s := { s with fd := FragDedup.closeOpen s.fd, fevs := s.fevs ++ [.finish], fres := s.fres ++ [none] }) hfit i h1,
          enqueue_B codec h _ i⟩

theorem run_ZInv (codec : Codec) (hrt : codec.RoundTrip) (h : Bytes → UInt32) : ∀ (evs : List Ev) {s s' : State}
    (outs : List Out), Fits codec s.B → 0 < s.B → ZInv codec h s → run codec h s evs = .ok (s', outs) →
    ZInv codec h s' ∧ s'.B = s.B := by
  intro evs
  induction evs with
  | nil => intro s s' outs _ _ hinv hr; simp only [run] at hr; cases hr; exact ⟨hinv, rfl⟩
  | cons e es ih =>
    intro s s' outs hfit hB hinv hr
    unfold run at hr
    split at hr
    · cases hr
    · rename_i s1 o1 hs
      split at hr
      · cases hr
      · rename_i s2 os hr2
        cases hr
        obtain ⟨h1, hB1⟩ := step_ZInv codec hrt h hfit hB e o1 hinv hs
        obtain ⟨h2, hB2⟩ := ih os (by rw [hB1]; exact hfit) (by rw [hB1]; exact hB) h1 hr2
        exact ⟨h2, by rw [hB2, hB1]⟩

/-! ### from the invariants to the statements -/

theorem fragBlocksOk_get (file : Bytes) : ∀ (cs : List Call) (locs : List Nat) (k : Nat) (c : Call) (loc : Nat),
    BlockWriter.fragBlocksOk file cs locs = true → cs[k]? = some c → locs[k]? = some loc → c.fragBlk = true →
    c.stored = true → BlockWriter.slice file loc c.data.length = c.data := by
  intro cs
  induction cs with
  | nil => intro locs k c loc _ hc; simp at hc
  | cons x xs ih =>
    intro locs k c loc hok hc hl hfb hst
    cases locs with
    | nil => simp at hl
    | cons l ls =>
      simp only [BlockWriter.fragBlocksOk, Bool.and_eq_true] at hok
      cases k with
      | zero =>
        simp only [List.getElem?_cons_zero, Option.some.injEq] at hc hl
        subst hc hl
        have := hok.1
        rw [if_pos ⟨hfb, hst⟩] at this
        simpa using this
      | succ k =>
        simp only [List.getElem?_cons_succ] at hc hl
        exact ih ls k c loc hok.2 hc hl hfb hst

theorem readAt_of_slice (f : Bytes) (off : Nat) (d : Bytes) (hne : d ≠ []) (h : BlockWriter.slice f off d.length = d) :
    BlockWriter.readAt f off d.length = some d := by
  have hpos : 0 < d.length := List.length_pos_iff.2 hne
  have hl := congrArg List.length h
  simp only [BlockWriter.slice, List.length_take, List.length_drop] at hl
  unfold BlockWriter.readAt
  rw [if_neg (by omega), if_pos (by omega), h]

/-- reading fragment block `i` back from the block writer's file gives what the fragment model says a reader gets -/
theorem fileRead_of_linked (codec : Codec) (s : State) (i : Nat) (d stored : Bytes) (cmp : Bool) (fl : Nat)
    (hb : s.fd.blocks[i]? = some ⟨d, .written stored cmp, fl⟩) (hne : stored ≠ []) (hsz : stored.length < 2 ^ 24)
    (hl : Linked s i stored cmp) (hok : BlockWriter.fragBlocksOk s.bw.file s.calls s.locs = true) :
    fileReadBlock codec s i = FragDedup.readBlock codec s.fd i ∧
      ∃ loc word, s.fragTbl[i]? = some (loc, word) ∧ word % 2 ^ 24 = stored.length ∧
        (word &&& (1 <<< 24) != 0) = !cmp ∧ BlockWriter.readAt s.bw.file loc stored.length = some stored := by
  obtain ⟨k, c, loc, a1, a2, a3, a4, a5, a6, a7⟩ := hl
  have hs := fragBlocksOk_get s.bw.file s.calls s.locs k c loc hok a1 a2 a4 a5
  rw [a3] at hs
  have hr := readAt_of_slice s.bw.file loc stored hne hs
  have hw := BlockWriter.mkWord_size stored.length c.flags hsz
  have hraw := mkWord_raw stored.length c.flags hsz
  rw [a6] at hraw
  refine ⟨?_, loc, _, a7, hw, hraw, hr⟩
  unfold fileReadBlock FragDedup.readBlock
  rw [a7, hb]
  simp only [hw, hr, hraw]
  cases cmp <;> simp

/-! ### the composed model only ever refuses schedules: no other error exit is reachable -/

/-- a fragment block in transit (pool or I/O queue) is the worked copy of an in-flight block of the fragment model -/
def IsCopy (codec : Codec) (h : Bytes → UInt32) (fd : FragDedup.State) (b : Blk) : Prop :=
  ∃ fb, fd.blocks[b.index]? = some fb ∧ fb.place = FragDedup.Place.inFlight ∧
    b = processBlock codec h { seq := b.seq, flags := fb.flags, data := fb.data, index := b.index }

def fbAt (j : Nat) (b : Blk) : Bool := b.kind.isFB && b.index == j

structure PInv (codec : Codec) (h : Bytes → UInt32) (s : State) : Prop where
  pool   : ∀ b ∈ s.pool, b.kind.isFB = true → IsCopy codec h s.fd b
  queue  : ∀ b ∈ s.ioQueue, b.kind.isFB = true → IsCopy codec h s.fd b
  queueK : ∀ b ∈ s.ioQueue, b.kind.fragBlk = true → b.kind.isFB = true
  uniq   : ∀ j, s.pool.countP (fbAt j) + s.ioQueue.countP (fbAt j) ≤ 1

theorem PInv_init (codec : Codec) (h : Bytes → UInt32) (B : Nat) (pre : Bytes) : PInv codec h (init B pre) :=
  ⟨fun _ hb => (by cases hb), fun _ hb => (by cases hb), fun _ hb => (by cases hb), fun _ => Nat.zero_le _⟩

theorem IsCopy_keep {codec : Codec} {h : Bytes → UInt32} {fd fd' : FragDedup.State} {b : Blk}
    (hk : FragDedup.Keep fd fd') (hc : IsCopy codec h fd b) : IsCopy codec h fd' b := by
  obtain ⟨fb, h1, h2, h3⟩ := hc
  exact ⟨fb, hk _ fb h1 (by rw [h2]; intro hc; cases hc), h2, h3⟩

theorem countP_storeIo (p : Blk → Bool) (b : Blk) : ∀ (l : List Blk),
    (storeIo b l).countP p = l.countP p + (if p b then 1 else 0) := by
  intro l
  induction l with
  | nil => simp [storeIo, List.countP_cons]
  | cons x t ih =>
    unfold storeIo
    split
    · simp only [List.countP_cons, ih]; try omega
    · simp only [List.countP_cons]; try omega

theorem countP_zero_of {p : Blk → Bool} {l : List Blk} (h : ∀ b ∈ l, p b = false) : l.countP p = 0 := by
  rw [List.countP_eq_zero]
  intro b hb
  rw [h b hb]; simp

/-- the fragment-model block `i` has just been closed (in flight) and no block in transit carries index `i` -/
theorem enqueue_PInv (codec : Codec) (h : Bytes → UInt32) {s : State} (i : Nat) (hinv : PInv codec h s)
    (hfl : ∃ fb, s.fd.blocks[i]? = some fb ∧ fb.place = FragDedup.Place.inFlight ∧ FragDedup.FlagOk fb.flags)
    (hnone : ∀ b, b ∈ s.pool ∨ b ∈ s.ioQueue → b.kind.isFB = true → b.index ≠ i) :
    PInv codec h (enqueueFragBlock codec h s i) := by
  obtain ⟨fb, hb, hp, hfo⟩ := hfl
  unfold enqueueFragBlock
  rw [hb]
  simp only []
  generalize hF : processBlock codec h { seq := s.ioSeq, flags := fb.flags, data := fb.data, index := i } = F
  have hk := processBlock_kind codec h { seq := s.ioSeq, flags := fb.flags, data := fb.data, index := i }
  rw [hF] at hk
  have hFc : IsCopy codec h s.fd F := by
    refine ⟨fb, by rw [hk.2.2]; exact hb, hp, ?_⟩
    rw [hk.2.1, hk.2.2]; exact hF.symm
  refine ⟨?_, hinv.queue, hinv.queueK, ?_⟩
  · intro b hb' hfb
    rcases List.mem_append.1 hb' with hm | hm
    · exact hinv.pool b hm hfb
    · rw [List.mem_singleton] at hm; subst hm; exact hFc
  · intro j
    show (s.pool ++ [F]).countP (fbAt j) + s.ioQueue.countP (fbAt j) ≤ 1
    rw [List.countP_append]
    by_cases hj : j = i
    · subst hj
      have z1 : s.pool.countP (fbAt j) = 0 := countP_zero_of (fun b hb' => by
        unfold fbAt
        cases hfb : b.kind.isFB
        · rfl
        · have := hnone b (Or.inl hb') hfb
          simp [this])
      have z2 : s.ioQueue.countP (fbAt j) = 0 := countP_zero_of (fun b hb' => by
        unfold fbAt
        cases hfb : b.kind.isFB
        · rfl
        · have := hnone b (Or.inr hb') hfb
          simp [this])
      rw [z1, z2]
      simp only [List.countP_cons, List.countP_nil]
      split <;> omega
    · have : fbAt j F = false := by
        unfold fbAt; rw [hk.2.2]
        have : (i == j) = false := by simpa using (Ne.symm hj)
        simp [this]
      simp only [List.countP_cons, List.countP_nil, this]
      have := hinv.uniq j
      simpa using this

theorem closedIdx_some {st st' : FragDedup.State} {i : Nat} (h : closedIdx st st' = some i) :
    FragDedup.openIndex st = some i ∧ FragDedup.openIndex st' ≠ some i := by
  unfold closedIdx at h
  split at h
  · rename_i j hj
    split at h
    · cases h
    · rename_i hne
      cases h
      exact ⟨hj, hne⟩
  · cases h

/-- no block in transit can carry the index of the open block -/
theorem transit_not_open {codec : Codec} {h : Bytes → UInt32} {s : State} (hinv : PInv codec h s) {i : Nat}
    (ho : FragDedup.openIndex s.fd = some i) :
    ∀ b, b ∈ s.pool ∨ b ∈ s.ioQueue → b.kind.isFB = true → b.index ≠ i := by
  intro b hb hfb hidx
  obtain ⟨b0, hb0, hp0, _⟩ := FragDedup.openIndex_some ho
  have hc : IsCopy codec h s.fd b := by
    rcases hb with hm | hm
    · exact hinv.pool b hm hfb
    · exact hinv.queue b hm hfb
  obtain ⟨fb, h1, h2, _⟩ := hc
  rw [hidx, hb0] at h1
  cases h1
  rw [hp0] at h2; cases h2

theorem handleFragment_total (codec : Codec) (h : Bytes → UInt32) {s : State} {n : List Blk} (frag : Blk)
    (hs : SInv s n false) (hz : ZInv codec h s) (hp : PInv codec h s) (hfrag : frag.data ≠ []) :
    (∀ e, handleFragment codec h s frag ≠ .error e) ∧
    (∀ s' out, handleFragment codec h s frag = .ok (s', out) → PInv codec h s') := by
  obtain ⟨r, fd', hpf, hinv', _⟩ := FragDedup.processFragment_spec codec h s.B s.fd frag.data frag.flags [] hz.fdinv hfrag
    (fun p hp => by cases hp)
  obtain ⟨hkeep, hclosed⟩ := FragDedup.processFragment_keep codec h s.B s.fd frag.data frag.flags r fd' hz.fdinv hpf
  have hgf : FragDedup.GoodF fd' := (FragDedup.processFragment_struct codec h s.B s.fd frag.data frag.flags r fd' hpf).1 hs.goodF
  unfold handleFragment
  rw [hpf]
  simp only []
  generalize hs1 : ({ s with fd := fd', fragTbl := growTbl s.fragTbl fd'.blocks.length,
                             fevs := s.fevs ++ [.frag frag.data frag.flags], fres := s.fres ++ [some r] } : State) = s1
  have hp1 : PInv codec h s1 := by
    subst hs1
    exact ⟨fun b hb hfb => IsCopy_keep hkeep (hp.pool b hb hfb), fun b hb hfb => IsCopy_keep hkeep (hp.queue b hb hfb),
      hp.queueK, hp.uniq⟩
  cases hc : closedIdx s.fd fd' with
  | none =>
    simp only []
    refine ⟨fun e he => (by cases he), ?_⟩
    intro s' out hok
    cases hok; exact hp1
  | some i =>
    simp only []
    refine ⟨fun e he => (by cases he), ?_⟩
    intro s' out hok
    cases hok
    obtain ⟨ho, hne⟩ := closedIdx_some hc
    obtain ⟨b0, hb0, hb0'⟩ := hclosed i ho hne
    have hnone := transit_not_open hp ho
    subst hs1
    exact enqueue_PInv codec h i hp1 ⟨_, hb0', rfl, hgf i _ hb0'⟩ hnone

/-- what the worker makes of a fragment block is what `FragDedup.blockWritten` says is stored -/
theorem processBlock_fragBlock (codec : Codec) (h : Bytes → UInt32) (seq idx fl : Nat) (data : Bytes)
    (hfl : FragDedup.FlagOk fl) (hd : data ≠ []) :
    hasFlag (processBlock codec h { seq := seq, flags := fl, data := data, index := idx }).flags blkIsSparse = false ∧
    FragDedup.Place.written (processBlock codec h { seq := seq, flags := fl, data := data, index := idx }).data
        (hasFlag (processBlock codec h { seq := seq, flags := fl, data := data, index := idx }).flags blkIsCompressed)
      = (if FragDedup.hasFlag fl blkDontCompress then FragDedup.Place.written data false
         else match codec.cmp data with
           | some c => FragDedup.Place.written c true
           | none => FragDedup.Place.written data false) := by
  have hlen : ¬ data.length = 0 := by
    intro h0; exact hd (List.length_eq_zero_iff.1 h0)
  rcases hfl with hf | hf <;> subst hf
  · have e1 : hasFlag blkFragmentBlock (blkIgnoreSparse ||| blkFragmentBlock) = true := by decide
    have e2 : hasFlag blkFragmentBlock blkDontHash = false := by decide
    have e3 : hasFlag blkFragmentBlock (blkIsFragment ||| blkDontCompress) = false := by decide
    have e4 : FragDedup.hasFlag blkFragmentBlock blkDontCompress = false := by decide
    have e5 : hasFlag blkFragmentBlock blkIsSparse = false := by decide
    have e6 : hasFlag blkFragmentBlock blkIsCompressed = false := by decide
    have e7 : hasFlag (blkFragmentBlock ||| blkIsCompressed) blkIsSparse = false := by decide
    have e8 : hasFlag (blkFragmentBlock ||| blkIsCompressed) blkIsCompressed = true := by decide
    unfold processBlock
    simp only [hlen, if_false, e1, Bool.not_true, Bool.false_and, Bool.false_eq_true, e2, e3, e4]
    cases codec.cmp data with
    | none => simp [e5, e6]
    | some c => simp [e7, e8]
  · have e1 : hasFlag (blkFragmentBlock ||| blkDontCompress) (blkIgnoreSparse ||| blkFragmentBlock) = true := by decide
    have e3 : hasFlag (blkFragmentBlock ||| blkDontCompress) (blkIsFragment ||| blkDontCompress) = true := by decide
    have e4 : FragDedup.hasFlag (blkFragmentBlock ||| blkDontCompress) blkDontCompress = true := by decide
    have e5 : hasFlag (blkFragmentBlock ||| blkDontCompress) blkIsSparse = false := by decide
    have e6 : hasFlag (blkFragmentBlock ||| blkDontCompress) blkIsCompressed = false := by decide
    unfold processBlock
    simp only [hlen, if_false, e1, Bool.not_true, Bool.false_and, Bool.false_eq_true, e3, e4, if_true, e5, e6]
    simp

theorem blockWritten_inFlight (codec : Codec) (fd : FragDedup.State) (idx : Nat) (data : Bytes) (fl : Nat)
    (hb : fd.blocks[idx]? = some ⟨data, FragDedup.Place.inFlight, fl⟩) :
    ∃ fd', FragDedup.blockWritten codec fd idx = .ok fd' ∧
      fd'.blocks[idx]? = some ⟨data, (if FragDedup.hasFlag fl blkDontCompress then FragDedup.Place.written data false
         else match codec.cmp data with
           | some c => FragDedup.Place.written c true
           | none => FragDedup.Place.written data false), fl⟩ := by
  unfold FragDedup.blockWritten
  rw [hb]
  simp only []
  exact ⟨_, rfl, FragDedup.getElem?_modify_self _ _ _ _ hb⟩

theorem bw_run_snoc_inv : ∀ (cs : List Call) (s0 s : BlockWriter.State) (locs : List Nat) (c : Call)
    (r : BlockWriter.State × List Nat), BlockWriter.run s0 cs = .ok (s, locs) → BlockWriter.run s0 (cs ++ [c]) = .ok r →
    ∃ s' loc, BlockWriter.writeDataBlock s c.chk c.flags c.data = .ok (s', loc) := by
  intro cs
  induction cs with
  | nil =>
    intro s0 s locs c r h1 h2
    simp only [BlockWriter.run] at h1
    cases h1
    simp only [List.nil_append, BlockWriter.run] at h2
    split at h2
    · cases h2
    · rename_i s' loc hw
      exact ⟨s', loc, hw⟩
  | cons x xs ih =>
    intro s0 s locs c r h1 h2
    simp only [List.cons_append, BlockWriter.run] at h1 h2
    split at h1
    · cases h1
    · rename_i s1 l1 hw1
      rw [hw1] at h2
      simp only [] at h2
      split at h1
      · cases h1
      · rename_i s2 ls hr2
        cases h1
        split at h2
        · cases h2
        · rename_i s3 ls3 hr3
          exact ih s1 s ls c (s3, ls3) hr2 hr3

theorem countP_le_cons (p : Blk → Bool) (b : Blk) (l : List Blk) : l.countP p ≤ (b :: l).countP p := by
  rw [List.countP_cons]; omega

/-- `process_completed_block` of the head of the I/O queue never fails, and keeps `PInv` -/
theorem completeBlock_total (codec : Codec) (h : Bytes → UInt32) {pre : Bytes} {s : State} {n : List Blk} {o : Bool}
    (b : Blk) (rest : List Blk) (hq : s.ioQueue = b :: rest) (hseq : b.seq = s.deqSeq)
    (hs : SInv s n o) (hl : LInv pre s) (hz : ZInv codec h s) (hp : PInv codec h s) (hB : s.B < 2 ^ 24) :
    (∀ e, completeBlock codec { s with ioQueue := rest, deqSeq := s.deqSeq + 1 } b ≠ .error e) ∧
    (∀ s' out, completeBlock codec { s with ioQueue := rest, deqSeq := s.deqSeq + 1 } b = .ok (s', out) → PInv codec h s') := by
  have hbq : b ∈ s.ioQueue := by rw [hq]; exact List.mem_cons_self ..
  have hnb : n[s.deqSeq]? = some b := by rw [← hseq]; exact hs.queue b hbq
  have hlt : s.deqSeq < n.length := (List.getElem?_eq_some_iff.1 hnb).1
  -- the next call keeps the protocol and the size bound, so the writer accepts it
  have hcalls : s.calls ++ [b.call] = (n.take (s.deqSeq + 1)).map Blk.call := by
    rw [List.take_succ_eq_append_getElem hlt, List.map_append, hs.calls]
    have : n[s.deqSeq] = b := by
      have := List.getElem?_eq_getElem hlt
      rw [hnb] at this; exact (Option.some.inj this).symm
    rw [this]; rfl
  have hwf : wfS false (s.calls ++ [b.call]) = true := by
    have h1 : wfS false (n.map Blk.call) = true := wfS_of_wfSt _ _ _ hs.wfn
    have : n.map Blk.call = (n.take (s.deqSeq + 1)).map Blk.call ++ (n.drop (s.deqSeq + 1)).map Blk.call := by
      rw [← List.map_append, List.take_append_drop]
    rw [this] at h1
    rw [hcalls]; exact wfS_prefix _ _ _ h1
  have hsz : BlockWriter.sizesOk (s.calls ++ [b.call]) := by
    intro c hc
    rcases List.mem_append.1 hc with hm | hm
    · exact Nat.lt_of_le_of_lt (hz.calls c hm) hB
    · rw [List.mem_singleton] at hm; subst hm
      exact Nat.lt_of_le_of_lt (hz.queue b hbq) hB
  obtain ⟨bwf, locsf, _, _, _, hrf, _⟩ := BlockWriter.run_spec (pre := pre) (s.calls ++ [b.call]) (BlockWriter.Inv_init pre) hsz
    (BlockWriter.wfS_wf _ _ hwf)
  obtain ⟨bw', loc, hw⟩ := bw_run_snoc_inv s.calls _ _ _ b.call _ hl.bwrun hrf
  have hw' : BlockWriter.writeDataBlock s.bw b.chk (clearFlag b.flags blkFlagInternal) b.data = .ok (bw', loc) := hw
  by_cases hfb : hasFlag b.flags blkFragmentBlock = true
  · -- a fragment block: it is the worked copy of an in-flight block
    have hisfb : b.kind.isFB = true := hp.queueK b hbq hfb
    obtain ⟨fb, h1, h2, h3⟩ := hp.queue b hbq hisfb
    obtain ⟨data, place, fl⟩ := fb
    simp only [] at h2
    subst h2
    obtain ⟨fd', hbw, hget⟩ := blockWritten_inFlight codec s.fd b.index data fl h1
    have hcomp := processBlock_fragBlock codec h b.seq b.index fl data (hs.goodF _ _ h1) (hz.fdinv.blocks _ _ h1).1
    rw [← h3] at hcomp
    rw [← hcomp.2] at hget
    -- other blocks in transit have another index
    have hother : ∀ x, x ∈ s.pool ∨ x ∈ rest → x.kind.isFB = true → x.index ≠ b.index := by
      intro x hx hxfb hidx
      have hu := hp.uniq b.index
      rw [hq, List.countP_cons] at hu
      have hb1 : fbAt b.index b = true := by simp [fbAt, hisfb]
      rw [hb1] at hu
      have hx1 : fbAt b.index x = true := by simp [fbAt, hxfb, hidx]
      rcases hx with hm | hm
      · have : 0 < s.pool.countP (fbAt b.index) := List.countP_pos_iff.2 ⟨x, hm, hx1⟩
        simp at hu; omega
      · have : 0 < rest.countP (fbAt b.index) := List.countP_pos_iff.2 ⟨x, hm, hx1⟩
        simp at hu; omega
    obtain ⟨_, _, _, _, _, hothers, _⟩ := FragDedup.blockWritten_struct codec s.fd fd' b.index hbw
    have hkeepc : ∀ x, x ∈ s.pool ∨ x ∈ rest → x.kind.isFB = true → IsCopy codec h s.fd x → IsCopy codec h fd' x := by
      intro x hx hxfb hc
      obtain ⟨fbx, a1, a2, a3⟩ := hc
      exact ⟨fbx, by rw [hothers _ (hother x hx hxfb)]; exact a1, a2, a3⟩
    have hp' : ∀ t : State, t.pool = s.pool → t.ioQueue = rest → t.fd = fd' → PInv codec h t := by
      intro t t1 t2 t3
      refine ⟨?_, ?_, ?_, ?_⟩
      · intro x hx hxfb; rw [t1] at hx; rw [t3]; exact hkeepc x (Or.inl hx) hxfb (hp.pool x hx hxfb)
      · intro x hx hxfb; rw [t2] at hx; rw [t3]
        exact hkeepc x (Or.inr hx) hxfb (hp.queue x (by rw [hq]; exact List.mem_cons_of_mem _ hx) hxfb)
      · intro x hx; rw [t2] at hx; exact hp.queueK x (by rw [hq]; exact List.mem_cons_of_mem _ hx)
      · intro j; rw [t1, t2]
        have := hp.uniq j
        rw [hq] at this
        have := countP_le_cons (fbAt j) b rest
        omega
    unfold completeBlock
    simp only [hw', hfb, if_true, hbw, hget, hcomp.1, and_self, if_true]
    refine ⟨?_, ?_⟩
    · intro e he; split at he <;> cases he
    · intro s' out hok
      split at hok <;> (cases hok; exact hp' _ rfl rfl rfl)
  · have hfb' : hasFlag b.flags blkFragmentBlock = false := by simpa using hfb
    unfold completeBlock
    simp only [hw', hfb', Bool.false_eq_true, if_false]
    refine ⟨fun e he => (by cases he), ?_⟩
    intro s' out hok
    cases hok
    refine ⟨hp.pool, ?_, ?_, ?_⟩
    · intro x hx hxfb; exact hp.queue x (by rw [hq]; exact List.mem_cons_of_mem _ hx) hxfb
    · intro x hx; exact hp.queueK x (by rw [hq]; exact List.mem_cons_of_mem _ hx)
    · intro j
      have := hp.uniq j
      rw [hq] at this
      have := countP_le_cons (fbAt j) b rest
      show s.pool.countP (fbAt j) + rest.countP (fbAt j) ≤ 1
      omega

theorem front_cons (s : State) (blk : Blk) (rest : List Blk) (hp : s.pool = blk :: rest) :
    front s = (if blk.kind.isFB then [] else [blk.kind]) ++ front { s with pool := rest } := by
  unfold front
  rw [hp]
  simp only [List.map_cons, List.filter_cons]
  cases blk.kind.isFB <;> simp

/-- a tail end at the head of the pool: no file is open, and the invariant holds with the tail end taken out -/
theorem SInv_deq_frag {s : State} {n : List Blk} {o : Bool} (hinv : SInv s n o) (blk : Blk) (rest : List Blk)
    (hp : s.pool = blk :: rest) (hif : blk.kind.isFrag = true) : SInv { s with pool := rest } n false ∧ o = false := by
  have hnfb : blk.kind.isFB = false := by simp [Kind.isFB, hif]
  have hfe := hinv.fe
  rw [front_cons s blk rest hp, hnfb] at hfe
  simp only [Bool.false_eq_true, if_false, List.singleton_append] at hfe
  unfold feOkK at hfe
  simp only [hif, if_true, Bool.and_eq_true, Bool.not_eq_true'] at hfe
  obtain ⟨ho, hfe0⟩ := hfe
  subst ho
  exact ⟨⟨hinv.len, hinv.calls, hinv.deq, hinv.queue,
    fun b hb hfb => hinv.poolfb b (by rw [hp]; exact List.mem_cons_of_mem _ hb) hfb, hinv.goodF, hinv.wfn, hfe0⟩, rfl⟩

/-- a data block at the head of the pool carries no `FRAGMENT_BLOCK` flag -/
theorem SInv_deq_data {s : State} {n : List Blk} {o : Bool} (hinv : SInv s n o) (blk : Blk) (rest : List Blk)
    (hp : s.pool = blk :: rest) (hif : blk.kind.isFrag = false) (hnfb : blk.kind.isFB = false) :
    blk.kind.fragBlk = false := by
  have hfe := hinv.fe
  rw [front_cons s blk rest hp, hnfb] at hfe
  simp only [Bool.false_eq_true, if_false, List.singleton_append] at hfe
  unfold feOkK at hfe
  simp only [hif, Bool.false_eq_true, if_false, Bool.and_eq_true, Bool.not_eq_true'] at hfe
  exact hfe.1

structure AllInv (pre : Bytes) (codec : Codec) (h : Bytes → UInt32) (s : State) : Prop where
  si : ∃ n o, SInv s n o
  li : LInv pre s
  zi : ZInv codec h s
  pi : PInv codec h s
  fit : Fits codec s.B
  bpos : 0 < s.B
  blt : s.B < 2 ^ 24

theorem step_total (codec : Codec) (hrt : codec.RoundTrip) (h : Bytes → UInt32) {pre : Bytes} {s : State} (e : Ev)
    (hinv : AllInv pre codec h s) :
    (∀ x, step codec h s e = .error x → x = .badEvent ∨ x = .unsupported) ∧
    (∀ s' out, step codec h s e = .ok (s', out) → AllInv pre codec h s') := by
  obtain ⟨⟨n, o, hs⟩, hl, hz, hp, hfit, hB0, hB⟩ := hinv
  -- everything except `PInv` is preserved by the lemmas above
  have rest : ∀ s' out, step codec h s e = .ok (s', out) → PInv codec h s' → AllInv pre codec h s' := by
    intro s' out hok hp'
    obtain ⟨hz', hBs⟩ := step_ZInv codec hrt h hfit hB0 e out hz hok
    exact ⟨step_SInv codec h e out hs hok, step_LInv codec h e out hl hok, hz', hp', by rw [hBs]; exact hfit,
      by rw [hBs]; exact hB0, by rw [hBs]; exact hB⟩
  cases e with
  | file uflags data =>
    refine ⟨?_, ?_⟩
    · intro x hx
      simp only [step] at hx
      split at hx
      · cases hx; exact Or.inr rfl
      · cases hx
    · intro s' out hok
      refine rest s' out hok ?_
      simp only [step] at hok
      split at hok
      · cases hok
      · cases hok; exact ⟨hp.pool, hp.queue, hp.queueK, hp.uniq⟩
  | submit =>
    refine ⟨?_, ?_⟩
    · intro x hx
      simp only [step] at hx
      split at hx
      · cases hx; exact Or.inl rfl
      · cases hx
    · intro s' out hok
      refine rest s' out hok ?_
      simp only [step] at hok
      split at hok
      · cases hok
      · rename_i b rs hpd
        cases hok
        have hk := processBlock_kind codec h b
        have hmem : b.kind ∈ front s := by unfold front; rw [hpd]; simp
        have hnfb : (processBlock codec h b).kind.isFB = false := by rw [hk.1]; exact feOkK_noFB _ _ hs.fe _ hmem
        refine ⟨?_, hp.queue, hp.queueK, ?_⟩
        · intro x hx hfb
          rcases List.mem_append.1 hx with hm | hm
          · exact hp.pool x hm hfb
          · rw [List.mem_singleton] at hm; subst hm; rw [hnfb] at hfb; cases hfb
        · intro j
          show (s.pool ++ [processBlock codec h b]).countP (fbAt j) + s.ioQueue.countP (fbAt j) ≤ 1
          rw [List.countP_append]
          have : fbAt j (processBlock codec h b) = false := by simp [fbAt, hnfb]
          simp only [List.countP_cons, List.countP_nil, this]
          have := hp.uniq j
          simpa using this
  | dequeue =>
    cases hpl : s.pool with
    | nil =>
      refine ⟨?_, ?_⟩
      · intro x hx; simp only [step, hpl] at hx; cases hx; exact Or.inl rfl
      · intro s' out hok; simp only [step, hpl] at hok; cases hok
    | cons blk rs =>
      have hblk := hz.pool blk (by rw [hpl]; exact List.mem_cons_self ..)
      have hcnt : ∀ j, rs.countP (fbAt j) ≤ s.pool.countP (fbAt j) := by
        intro j; rw [hpl]; exact countP_le_cons _ _ _
      have hp0 : PInv codec h { s with pool := rs } :=
        ⟨fun b hb hfb => hp.pool b (by rw [hpl]; exact List.mem_cons_of_mem _ hb) hfb, hp.queue, hp.queueK,
          fun j => by have := hp.uniq j; have := hcnt j; show rs.countP (fbAt j) + s.ioQueue.countP (fbAt j) ≤ 1; omega⟩
      by_cases hif : hasFlag blk.flags blkIsFragment = true
      · have hif' : blk.kind.isFrag = true := hif
        obtain ⟨hs0, _⟩ := SInv_deq_frag hs blk rs hpl hif'
        have hz0 : ZInv codec h { s with pool := rs } :=
          ⟨hz.pend, fun b hb => hz.pool b (by rw [hpl]; exact List.mem_cons_of_mem _ hb), hz.queue, hz.calls, hz.fdinv,
            hz.goodS, hz.frun, hz.fok⟩
        obtain ⟨t1, t2⟩ := handleFragment_total codec h blk hs0 hz0 hp0 (hblk.2 hif')
        refine ⟨?_, ?_⟩
        · intro x hx
          simp only [step, hpl, hif, if_true] at hx
          exact absurd hx (t1 x)
        · intro s' out hok
          refine rest s' out hok ?_
          simp only [step, hpl, hif, if_true] at hok
          exact t2 s' out hok
      · have hif' : blk.kind.isFrag = false := by
          have : hasFlag blk.flags blkIsFragment = false := by simpa using hif
          exact this
        by_cases hnum : (!hasFlag blk.flags blkFragmentBlock || hasFlag blk.flags blkFlagManualSubmission) = true
        · have hnfb : blk.kind.isFB = false := by
            have hnum' : (!blk.kind.fragBlk || blk.kind.internal) = true := hnum
            simp only [Kind.isFB, hif']
            cases hfbk : blk.kind.fragBlk <;> cases hik : blk.kind.internal <;> simp_all
          have hnofb := SInv_deq_data hs blk rs hpl hif' hnfb
          refine ⟨?_, ?_⟩
          · intro x hx; simp only [step, hpl, hif, hnum, if_true] at hx; cases hx
          · intro s' out hok
            refine rest s' out hok ?_
            simp only [step, hpl, hif, hnum, if_true] at hok
            cases hok
            have hb'k : ({ blk with seq := s.ioSeq } : Blk).kind = blk.kind := rfl
            have hfalse : ∀ j, fbAt j ({ blk with seq := s.ioSeq } : Blk) = false := by
              intro j; simp [fbAt, hb'k, hnfb]
            refine ⟨hp0.pool, ?_, ?_, ?_⟩
            · intro x hx hfb
              rcases mem_storeIo _ _ _ hx with hm | hm
              · subst hm; rw [hb'k, hnfb] at hfb; cases hfb
              · exact hp.queue x hm hfb
            · intro x hx hfk
              rcases mem_storeIo _ _ _ hx with hm | hm
              · subst hm; rw [hb'k, hnofb] at hfk; cases hfk
              · exact hp.queueK x hm hfk
            · intro j
              show rs.countP (fbAt j) + (storeIo _ s.ioQueue).countP (fbAt j) ≤ 1
              rw [countP_storeIo, hfalse j]
              have := hp.uniq j; have := hcnt j
              simp only [Bool.false_eq_true, if_false, Nat.add_zero]; omega
        · have hfbk : blk.kind.isFB = true := by
            have hnum' : ¬ (!blk.kind.fragBlk || blk.kind.internal) = true := hnum
            simp only [Kind.isFB, hif']
            cases hfbk : blk.kind.fragBlk <;> cases hik : blk.kind.internal <;> simp_all
          refine ⟨?_, ?_⟩
          · intro x hx; simp only [step, hpl, hif, hnum, if_false] at hx; cases hx
          · intro s' out hok
            refine rest s' out hok ?_
            simp only [step, hpl, hif, hnum, if_false] at hok
            cases hok
            have hcopy := hp.pool blk (by rw [hpl]; exact List.mem_cons_self ..) hfbk
            refine ⟨hp0.pool, ?_, ?_, ?_⟩
            · intro x hx hfb
              rcases mem_storeIo _ _ _ hx with hm | hm
              · subst hm; exact hcopy
              · exact hp.queue x hm hfb
            · intro x hx hfk
              rcases mem_storeIo _ _ _ hx with hm | hm
              · subst hm; exact hfbk
              · exact hp.queueK x hm hfk
            · intro j
              show rs.countP (fbAt j) + (storeIo blk s.ioQueue).countP (fbAt j) ≤ 1
              rw [countP_storeIo]
              have := hp.uniq j
              rw [hpl, List.countP_cons] at this
              omega
  | complete =>
    cases hq : s.ioQueue with
    | nil =>
      refine ⟨?_, ?_⟩
      · intro x hx; simp only [step, hq] at hx; cases hx; exact Or.inl rfl
      · intro s' out hok; simp only [step, hq] at hok; cases hok
    | cons b rs =>
      by_cases hseq : (b.seq != s.deqSeq) = true
      · refine ⟨?_, ?_⟩
        · intro x hx; simp only [step, hq, hseq, if_true] at hx; cases hx; exact Or.inl rfl
        · intro s' out hok; simp only [step, hq, hseq, if_true] at hok; cases hok
      · have hseq' : b.seq = s.deqSeq := by simpa using hseq
        obtain ⟨t1, t2⟩ := completeBlock_total codec h b rs hq hseq' hs hl hz hp hB
        refine ⟨?_, ?_⟩
        · intro x hx
          simp only [step, hq, hseq, Bool.false_eq_true, if_false] at hx
          exact absurd hx (t1 x)
        · intro s' out hok
          refine rest s' out hok ?_
          simp only [step, hq, hseq, Bool.false_eq_true, if_false] at hok
          exact t2 s' out hok
  | finish =>
    by_cases hg : (!(s.pending.isEmpty && s.pool.isEmpty && s.ioQueue.isEmpty)) = true
    · refine ⟨?_, ?_⟩
      · intro x hx; simp only [step, hg, if_true] at hx; cases hx; exact Or.inl rfl
      · intro s' out hok; simp only [step, hg, if_true] at hok; cases hok
    · refine ⟨?_, ?_⟩
      · intro x hx
        simp only [step, hg, Bool.false_eq_true, if_false] at hx
        split at hx <;> cases hx
      · intro s' out hok
        refine rest s' out hok ?_
        simp only [step, hg, Bool.false_eq_true, if_false] at hok
        split at hok
        · cases hok; exact ⟨hp.pool, hp.queue, hp.queueK, hp.uniq⟩
        · rename_i i hoi
          cases hok
          obtain ⟨hkeep, hclosed⟩ := FragDedup.closeOpen_keep s.fd
          obtain ⟨b0, hb0, hb0'⟩ := hclosed i hoi
          have hp1 : PInv codec h { s with fd := FragDedup.closeOpen s.fd, fevs := s.fevs ++ [.finish], fres := s.fres ++ [none] } :=
            ⟨fun b hb hfb => IsCopy_keep hkeep (hp.pool b hb hfb), fun b hb hfb => IsCopy_keep hkeep (hp.queue b hb hfb),
              hp.queueK, hp.uniq⟩
          have hgf := (FragDedup.closeOpen_struct s.fd).1 hs.goodF
          exact enqueue_PInv codec h i hp1 ⟨_, hb0', rfl, hgf i _ hb0'⟩ (transit_not_open hp hoi)

theorem AllInv_init (codec : Codec) (h : Bytes → UInt32) (B : Nat) (pre : Bytes) (hfit : Fits codec B) (hB0 : 0 < B)
    (hB : B < 2 ^ 24) : AllInv pre codec h (init B pre) :=
  ⟨⟨[], false, SInv_init B pre⟩, LInv_init B pre, ZInv_init codec h B pre, PInv_init codec h B pre, hfit, hB0, hB⟩

theorem run_total (codec : Codec) (hrt : codec.RoundTrip) (h : Bytes → UInt32) {pre : Bytes} : ∀ (evs : List Ev) {s : State},
    AllInv pre codec h s → ∀ x, run codec h s evs = .error x → x = .badEvent ∨ x = .unsupported := by
  intro evs
  induction evs with
  | nil => intro s _ x hx; simp only [run] at hx; cases hx
  | cons e es ih =>
    intro s hinv x hx
    obtain ⟨t1, t2⟩ := step_total codec hrt h e hinv
    unfold run at hx
    split at hx
    · rename_i y hy
      cases hx
      exact t1 _ hy
    · rename_i s1 o1 hs1
      split at hx
      · rename_i y hy
        cases hx
        exact ih (t2 s1 o1 hs1) _ hy
      · cases hx

end Sqfs.C08Stream
