/-
Helper lemmas for the call-stream part of C08 (`Model/C08Stream.lean`).

1. `SInv`: the blocks that have been given an I/O sequence number, in that order (`numbered`, ghost), form a call
   sequence obeying `wfS`, and what the front end has handed over but the back end has not yet numbered
   (`front`) continues it correctly (`feOk`): tail ends (`IS_FRAGMENT`) only come between files.  Since a
   fragment block is numbered exactly when a tail end is dequeued (or at `finish`, with everything drained), it
   falls between files.  `write_data_block` is called in sequence-number order, so the calls made so far are a
   prefix of `numbered`.
2. `LInv`: the block writer's state is the result of running `BlockWriter.run` on the calls made so far, and
   every fragment block the fragment model holds as `written stored` was written by one of those calls, whose
   returned location is what the fragment table records.
-/
import Sqfs.Model.C08Stream
import Sqfs.Proofs.BlockWriter
import Sqfs.Proofs.FragDedup
import Sqfs.Proofs.C08FragStruct
namespace Sqfs.C08Stream
open Sqfs.Consts
open Sqfs.BlockWriter (hasFlag Call wfS wf)

/-! ### flag bits -/

theorem hasFlag_or (f a c : Nat) (h : a &&& c = 0) : hasFlag (f ||| a) c = hasFlag f c := by
  unfold hasFlag
  rw [Nat.and_or_distrib_right, h, Nat.or_zero]

theorem hasFlag_clear (f c : Nat) (h : (0xFFFFFFFF ^^^ blkFlagInternal) &&& c = c) :
    hasFlag (clearFlag f blkFlagInternal) c = hasFlag f c := by
  unfold hasFlag clearFlag
  rw [Nat.and_assoc, h]

/-- the bits of a block's flags that decide how the main thread treats it -/
structure Kind where
  first : Bool
  last : Bool
  isFrag : Bool
  fragBlk : Bool
  internal : Bool
deriving DecidableEq, Repr

def kindOf (flags : Nat) : Kind :=
  ⟨hasFlag flags blkFirstBlock, hasFlag flags blkLastBlock, hasFlag flags blkIsFragment,
   hasFlag flags blkFragmentBlock, hasFlag flags blkFlagInternal⟩

def Blk.kind (b : Blk) : Kind := kindOf b.flags

theorem kindOf_or (f a : Nat) (h1 : a &&& blkFirstBlock = 0) (h2 : a &&& blkLastBlock = 0)
    (h3 : a &&& blkIsFragment = 0) (h4 : a &&& blkFragmentBlock = 0) (h5 : a &&& blkFlagInternal = 0) :
    kindOf (f ||| a) = kindOf f := by
  simp only [kindOf, hasFlag_or _ _ _ h1, hasFlag_or _ _ _ h2, hasFlag_or _ _ _ h3, hasFlag_or _ _ _ h4,
    hasFlag_or _ _ _ h5]

/-- the worker never touches the protocol bits, the sequence number or the index -/
theorem processBlock_kind (codec : Codec) (h : Bytes → UInt32) (b : Blk) :
    (processBlock codec h b).kind = b.kind ∧ (processBlock codec h b).seq = b.seq ∧
      (processBlock codec h b).index = b.index := by
  unfold processBlock
  split
  · exact ⟨rfl, rfl, rfl⟩
  · split
    · exact ⟨kindOf_or _ _ (by decide) (by decide) (by decide) (by decide) (by decide), rfl, rfl⟩
    · simp only []
      split
      · exact ⟨rfl, rfl, rfl⟩
      · split
        · exact ⟨kindOf_or _ _ (by decide) (by decide) (by decide) (by decide) (by decide), rfl, rfl⟩
        · exact ⟨rfl, rfl, rfl⟩

/-- the `write_data_block` call made for a block -/
def Blk.call (b : Blk) : Call := ⟨b.chk, clearFlag b.flags blkFlagInternal, b.data⟩

theorem call_first (b : Blk) : b.call.first = b.kind.first := hasFlag_clear _ _ (by decide)
theorem call_last (b : Blk) : b.call.last = b.kind.last := hasFlag_clear _ _ (by decide)
theorem call_fragBlk (b : Blk) : b.call.fragBlk = b.kind.fragBlk := hasFlag_clear _ _ (by decide)

/-! ### `wfS` as a state machine -/

/-- may call `c` come next when `o` says whether a file is open? -/
def stepOk (o : Bool) (c : Call) : Bool :=
  (if c.fragBlk then !o && !c.first && !c.last else true) && (if c.last then o || c.first else true)

def stepTo (o : Bool) (c : Call) : Bool := if c.last then false else o || c.first

/-- `some o'` = the calls obey `wfS` and leave the state `o'` -/
def wfSt : Bool → List Call → Option Bool
  | o, [] => some o
  | o, c :: cs => if stepOk o c then wfSt (stepTo o c) cs else none

theorem wfS_of_wfSt : ∀ (cs : List Call) (o o' : Bool), wfSt o cs = some o' → wfS o cs = true := by
  intro cs
  induction cs with
  | nil => intro _ _ _; rfl
  | cons c cs ih =>
    intro o o' h
    unfold wfSt at h
    split at h
    · rename_i hs
      have := ih _ _ h
      unfold wfS
      unfold stepOk at hs
      unfold stepTo at this
      simp only [Bool.and_eq_true] at hs ⊢
      refine ⟨hs.1, ?_⟩
      by_cases hl : c.last = true
      · simp only [hl, if_true, Bool.and_eq_true] at hs this ⊢
        exact ⟨hs.2, this⟩
      · have hlf : c.last = false := by simpa using hl
        simp only [hlf, Bool.false_eq_true, if_false] at this ⊢
        exact this
    · cases h

theorem wfSt_append : ∀ (xs ys : List Call) (o : Bool),
    wfSt o (xs ++ ys) = (wfSt o xs).bind (fun o' => wfSt o' ys) := by
  intro xs
  induction xs with
  | nil => intro ys o; rfl
  | cons c cs ih =>
    intro ys o
    simp only [List.cons_append, wfSt]
    split
    · exact ih ys _
    · rfl

theorem wfS_prefix : ∀ (xs ys : List Call) (o : Bool), wfS o (xs ++ ys) = true → wfS o xs = true := by
  intro xs
  induction xs with
  | nil => intro _ _ _; rfl
  | cons c cs ih =>
    intro ys o h
    simp only [List.cons_append] at h
    unfold wfS at h ⊢
    simp only [Bool.and_eq_true] at h ⊢
    refine ⟨h.1, ?_⟩
    by_cases hl : c.last = true
    · simp only [hl, if_true, Bool.and_eq_true] at h ⊢
      exact ⟨h.2.1, ih ys _ h.2.2⟩
    · have hlf : c.last = false := by simpa using hl
      simp only [hlf, Bool.false_eq_true, if_false] at h ⊢
      exact ih ys _ h.2

/-! ### what the front end still owes: `feOk` -/

/-- `o` = a file is open after the numbered blocks.  A tail end (`IS_FRAGMENT`) is never written itself; it marks
the only places where a fragment block can be numbered, and those must lie outside every file.  Data blocks
continue the `FIRST … LAST` protocol and are no fragment blocks.  At the end every file is closed. -/
def feOkK : Bool → List Kind → Bool
  | o, [] => !o
  | o, k :: r =>
    if k.isFrag then !o && feOkK false r
    else !k.fragBlk && (if k.last then (o || k.first) && feOkK false r else feOkK (o || k.first) r)

theorem feOkK_append : ∀ (xs ys : List Kind) (o : Bool), feOkK o xs = true → feOkK false ys = true →
    feOkK o (xs ++ ys) = true := by
  intro xs
  induction xs with
  | nil =>
    intro ys o h1 h2
    simp only [feOkK, Bool.not_eq_true'] at h1
    subst h1; exact h2
  | cons k r ih =>
    intro ys o h1 h2
    simp only [List.cons_append]
    unfold feOkK at h1 ⊢
    by_cases hf : k.isFrag = true
    · simp only [hf, if_true, Bool.and_eq_true] at h1 ⊢
      exact ⟨h1.1, ih ys _ h1.2 h2⟩
    · have hff : k.isFrag = false := by simpa using hf
      simp only [hff, Bool.false_eq_true, if_false, Bool.and_eq_true] at h1 ⊢
      refine ⟨h1.1, ?_⟩
      by_cases hl : k.last = true
      · simp only [hl, if_true, Bool.and_eq_true] at h1 ⊢
        exact ⟨h1.2.1, ih ys _ h1.2.2 h2⟩
      · have hlf : k.last = false := by simpa using hl
        simp only [hlf, Bool.false_eq_true, if_false] at h1 ⊢
        exact ih ys _ h1.2 h2

/-- an item the back end treats as a fragment block coming back from the pool (backend.c:324-335) -/
def Kind.isFB (k : Kind) : Bool := !k.isFrag && k.fragBlk && !k.internal

theorem feOkK_noFB : ∀ (ks : List Kind) (o : Bool), feOkK o ks = true → ∀ k ∈ ks, k.isFB = false := by
  intro ks
  induction ks with
  | nil => intro _ _ k hk; cases hk
  | cons k r ih =>
    intro o h k' hk'
    unfold feOkK at h
    by_cases hf : k.isFrag = true
    · simp only [hf, if_true, Bool.and_eq_true] at h
      rcases List.mem_cons.1 hk' with rfl | hm
      · simp [Kind.isFB, hf]
      · exact ih _ h.2 k' hm
    · have hff : k.isFrag = false := by simpa using hf
      simp only [hff, Bool.false_eq_true, if_false, Bool.and_eq_true, Bool.not_eq_true'] at h
      rcases List.mem_cons.1 hk' with rfl | hm
      · simp [Kind.isFB, h.1]
      · by_cases hl : k.last = true
        · simp only [hl, if_true, Bool.and_eq_true] at h
          exact ih _ h.2.2 k' hm
        · have hlf : k.last = false := by simpa using hl
          simp only [hlf, Bool.false_eq_true, if_false] at h
          exact ih _ h.2 k' hm

/-! ### the front end produces whole files -/

theorem kind_user : ∀ uf, uf < 32 → kindOf uf = ⟨false, false, false, false, false⟩ := by decide
theorem kind_first : ∀ uf, uf < 32 → kindOf (uf ||| blkFirstBlock) = ⟨true, false, false, false, false⟩ := by decide
theorem kind_last : ∀ uf, uf < 32 → kindOf (uf ||| blkLastBlock) = ⟨false, true, false, false, false⟩ := by decide
theorem kind_first_last : ∀ uf, uf < 32 →
    kindOf (uf ||| blkFirstBlock ||| blkLastBlock) = ⟨true, true, false, false, false⟩ := by decide
theorem kind_frag : ∀ uf, uf < 32 → kindOf (uf ||| blkIsFragment) = ⟨false, false, true, false, false⟩ := by decide
theorem kind_first_frag : ∀ uf, uf < 32 →
    kindOf (uf ||| blkFirstBlock ||| blkIsFragment) = ⟨true, false, true, false, false⟩ := by decide

theorem feOk_full (B uf : Nat) (data : Bytes) (huf : uf < 32) : ∀ (k off : Nat) (first o : Bool) (rest : List Kind),
    feOkK o ((fullBlocks B uf data k off first).map Blk.kind ++ rest)
      = feOkK (if k = 0 then o else o || first) rest := by
  intro k
  induction k with
  | zero => intro off first o rest; rfl
  | succ k ih =>
    intro off first o rest
    simp only [fullBlocks, List.map_cons, List.cons_append]
    have hk : (Blk.kind { flags := if first = true then uf ||| blkFirstBlock else uf,
                          data := BlockWriter.slice data off B }) = ⟨first, false, false, false, false⟩ := by
      unfold Blk.kind
      cases first
      · simpa using kind_user uf huf
      · simpa using kind_first uf huf
    rw [hk]
    have hstep : ∀ r, feOkK o (⟨first, false, false, false, false⟩ :: r) = feOkK (o || first) r := by
      intro r; simp [feOkK]
    rw [hstep, ih]
    by_cases hk0 : k = 0
    · simp [hk0]
    · simp [hk0]

theorem feOk_fileBlocks (B uf : Nat) (data : Bytes) (huf : uf < 32) :
    feOkK false ((fileBlocks B uf data).map Blk.kind) = true := by
  unfold fileBlocks
  simp only []
  generalize data.length / B = n
  have hfull : ∀ rest, feOkK false ((fullBlocks B uf data n 0 true).map Blk.kind ++ rest)
      = feOkK (if n = 0 then false else true) rest := by
    intro rest
    rw [feOk_full B uf data huf]
    simp
  split
  · -- no tail end
    rw [List.map_append, hfull]
    by_cases hn : n = 0
    · simp [hn, feOkK]
    · simp only [hn, if_false, List.map_cons, List.map_nil]
      have : Blk.kind { flags := uf ||| blkLastBlock } = ⟨false, true, false, false, false⟩ := kind_last uf huf
      rw [this]
      simp [feOkK]
  · split
    · -- DONT_FRAGMENT: the tail end is the last block
      rw [List.map_append, hfull]
      by_cases hn : n = 0
      · simp only [hn, if_true, List.map_cons, List.map_nil]
        have : Blk.kind { flags := uf ||| blkFirstBlock ||| blkLastBlock, data := List.drop (0 * B) data }
            = ⟨true, true, false, false, false⟩ := kind_first_last uf huf
        rw [this]
        simp [feOkK]
      · simp only [hn, if_false, List.map_cons, List.map_nil]
        have : Blk.kind { flags := uf ||| blkLastBlock, data := List.drop (n * B) data }
            = ⟨false, true, false, false, false⟩ := kind_last uf huf
        rw [this]
        simp [feOkK]
    · -- sentinel (if there was a block), then the tail end as a fragment
      rw [List.append_assoc, List.map_append, hfull]
      by_cases hn : n = 0
      · simp only [hn, if_true, List.nil_append, List.map_cons, List.map_nil]
        have : Blk.kind { flags := uf ||| blkFirstBlock ||| blkIsFragment, data := List.drop (0 * B) data }
            = ⟨true, false, true, false, false⟩ := kind_first_frag uf huf
        rw [this]
        simp [feOkK]
      · simp only [hn, if_false, List.map_append, List.map_cons, List.map_nil, List.cons_append, List.nil_append]
        have h1 : Blk.kind { flags := uf ||| blkLastBlock } = ⟨false, true, false, false, false⟩ := kind_last uf huf
        have h2 : Blk.kind { flags := uf ||| blkIsFragment, data := List.drop (n * B) data }
            = ⟨false, false, true, false, false⟩ := kind_frag uf huf
        rw [h1, h2]
        simp [feOkK]

/-! ### the invariant behind `wfS` -/

/-- what the front end has produced and the back end has not yet numbered: the pool without the fragment blocks
travelling through it, then the blocks not yet submitted -/
def front (s : State) : List Kind :=
  (s.pool.map Blk.kind).filter (fun k => !k.isFB) ++ s.pending.map Blk.kind

/-- `n` = the blocks that have an I/O sequence number, in that order; `o` = a file is open after them -/
structure SInv (s : State) (n : List Blk) (o : Bool) : Prop where
  len    : n.length = s.ioSeq
  calls  : s.calls = (n.take s.deqSeq).map Blk.call
  deq    : s.deqSeq ≤ s.ioSeq
  queue  : ∀ b ∈ s.ioQueue, n[b.seq]? = some b
  poolfb : ∀ b ∈ s.pool, b.kind.isFB = true → n[b.seq]? = some b
  goodF  : FragDedup.GoodF s.fd
  wfn    : wfSt false (n.map Blk.call) = some o
  fe     : feOkK o (front s) = true

theorem SInv_congr {s s' : State} {n : List Blk} {o : Bool} (h : SInv s n o)
    (h1 : s'.ioSeq = s.ioSeq) (h2 : s'.calls = s.calls) (h3 : s'.deqSeq = s.deqSeq) (h4 : s'.ioQueue = s.ioQueue)
    (h5 : s'.pool = s.pool) (h6 : s'.pending = s.pending) (h7 : FragDedup.GoodF s'.fd) : SInv s' n o := by
  refine ⟨by rw [h1]; exact h.len, by rw [h2, h3]; exact h.calls, by rw [h1, h3]; exact h.deq,
    by rw [h4]; exact h.queue, by rw [h5]; exact h.poolfb, h7, h.wfn, ?_⟩
  unfold front; rw [h5, h6]; exact h.fe

theorem SInv_init (B : Nat) (pre : Bytes) : SInv (init B pre) [] false :=
  ⟨rfl, rfl, Nat.le_refl _, fun _ h => (by cases h), fun _ h => (by cases h), fun i b h => (by simp [init] at h), rfl, rfl⟩

theorem getElem?_append_some {α} {l r : List α} {k : Nat} {a : α} (h : l[k]? = some a) : (l ++ r)[k]? = some a := by
  have hk : k < l.length := (List.getElem?_eq_some_iff.1 h).1
  rw [List.getElem?_append_left hk]; exact h

theorem kind_FlagOk (f : Nat) (h : FragDedup.FlagOk f) : kindOf f = ⟨false, false, false, true, false⟩ := by
  rcases h with h | h <;> rw [h] <;> decide

/-- `enqueue_block(proc, frag_block)` with the number taken just before: allowed whenever no file is open -/
theorem enqueue_SInv (codec : Codec) (h : Bytes → UInt32) {s : State} {n : List Blk} (hinv : SInv s n false) (i : Nat) :
    ∃ n', SInv (enqueueFragBlock codec h s i) n' false := by
  unfold enqueueFragBlock
  cases hb : s.fd.blocks[i]? with
  | none => exact ⟨n, hinv⟩
  | some fb =>
    simp only []
    generalize hF : processBlock codec h { seq := s.ioSeq, flags := fb.flags, data := fb.data, index := i } = F
    have hk := processBlock_kind codec h { seq := s.ioSeq, flags := fb.flags, data := fb.data, index := i }
    rw [hF] at hk
    have hkind : F.kind = ⟨false, false, false, true, false⟩ := by
      rw [hk.1]; exact kind_FlagOk _ (hinv.goodF i fb hb)
    have hseq : F.seq = s.ioSeq := hk.2.1
    have hfb : F.kind.isFB = true := by rw [hkind]; rfl
    refine ⟨n ++ [F], ?_, ?_, ?_, ?_, ?_, hinv.goodF, ?_, ?_⟩
    · simp [hinv.len]
    · show s.calls = _
      rw [List.take_append_of_le_length (by rw [hinv.len]; exact hinv.deq)]
      exact hinv.calls
    · show s.deqSeq ≤ s.ioSeq + 1
      have := hinv.deq; omega
    · intro b hb'
      exact getElem?_append_some (hinv.queue b hb')
    · intro b hb' hbfb
      rcases List.mem_append.1 hb' with hm | hm
      · exact getElem?_append_some (hinv.poolfb b hm hbfb)
      · rw [List.mem_singleton] at hm
        subst hm
        rw [hseq, ← hinv.len, List.getElem?_append_right (Nat.le_refl _)]
        simp
    · rw [List.map_append, wfSt_append, hinv.wfn]
      simp only [Option.bind, List.map_cons, List.map_nil, wfSt]
      have h1 : F.call.fragBlk = true := by rw [call_fragBlk, hkind]
      have h2 : F.call.first = false := by rw [call_first, hkind]
      have h3 : F.call.last = false := by rw [call_last, hkind]
      simp [stepOk, stepTo, h1, h2, h3]
    · have : front { s with ioSeq := s.ioSeq + 1, pool := s.pool ++ [F] } = front s := by
        unfold front
        simp only [List.map_append, List.filter_append, List.map_cons, List.map_nil]
        have : List.filter (fun k => !k.isFB) [F.kind] = [] := by simp [hfb]
        rw [this, List.append_nil]
      rw [this]; exact hinv.fe

theorem mem_storeIo (b : Blk) : ∀ (l : List Blk) (x : Blk), x ∈ storeIo b l → x = b ∨ x ∈ l := by
  intro l
  induction l with
  | nil => intro x hx; simp [storeIo] at hx; exact Or.inl hx
  | cons y t ih =>
    intro x hx
    unfold storeIo at hx
    split at hx
    · rcases List.mem_cons.1 hx with h | h
      · exact Or.inr (h ▸ List.mem_cons_self ..)
      · rcases ih x h with h2 | h2
        · exact Or.inl h2
        · exact Or.inr (List.mem_cons_of_mem _ h2)
    · rcases List.mem_cons.1 hx with h | h
      · exact Or.inl h
      · exact Or.inr h

theorem blockWritten_goodF (codec : Codec) (st st' : FragDedup.State) (idx : Nat)
    (h : FragDedup.blockWritten codec st idx = .ok st') (hg : FragDedup.GoodF st) : FragDedup.GoodF st' := by
  obtain ⟨b, p, hb, _, hb', hne, _⟩ := FragDedup.blockWritten_struct codec st st' idx h
  intro j x hx
  by_cases hj : j = idx
  · subst hj
    rw [hb'] at hx; cases hx
    exact hg j b hb
  · rw [hne j hj] at hx
    exact hg j x hx

/-- what `process_completed_block` changes of the fields the protocol invariant looks at -/
theorem completeBlock_fields (codec : Codec) (s s' : State) (b : Blk) (out : Out)
    (h : completeBlock codec s b = .ok (s', out)) :
    s'.ioSeq = s.ioSeq ∧ s'.calls = s.calls ++ [b.call] ∧ s'.deqSeq = s.deqSeq ∧ s'.ioQueue = s.ioQueue ∧
      s'.pool = s.pool ∧ s'.pending = s.pending ∧ (FragDedup.GoodF s.fd → FragDedup.GoodF s'.fd) := by
  unfold completeBlock at h
  simp only [] at h
  split at h
  · cases h
  · rename_i bw' loc hw
    split at h
    · split at h
      · cases h
      · rename_i fd' hbw
        split at h
        · split at h
          · split at h <;> (cases h; exact ⟨rfl, rfl, rfl, rfl, rfl, rfl, blockWritten_goodF codec _ _ _ hbw⟩)
          · cases h
        · cases h
    · cases h
      exact ⟨rfl, rfl, rfl, rfl, rfl, rfl, id⟩

theorem handleFragment_SInv (codec : Codec) (h : Bytes → UInt32) {s s' : State} {n : List Blk} (frag : Blk) (out : Out)
    (hinv : SInv s n false) (hrun : handleFragment codec h s frag = .ok (s', out)) :
    ∃ n', SInv s' n' false := by
  unfold handleFragment at hrun
  split at hrun
  · cases hrun
  · rename_i r fd' hpf
    have hg : FragDedup.GoodF fd' := (FragDedup.processFragment_struct codec h s.B s.fd frag.data frag.flags r fd' hpf).1 hinv.goodF
    simp only [] at hrun
    generalize hs1 : ({ s with fd := fd', fragTbl := growTbl s.fragTbl fd'.blocks.length,
                               fevs := s.fevs ++ [.frag frag.data frag.flags], fres := s.fres ++ [some r] } : State) = s1 at hrun
    have h1 : SInv s1 n false := by
      subst hs1
      exact SInv_congr hinv rfl rfl rfl rfl rfl rfl hg
    split at hrun
    · cases hrun; exact ⟨n, h1⟩
    · cases hrun; exact enqueue_SInv codec h h1 _

theorem step_SInv (codec : Codec) (h : Bytes → UInt32) {s s' : State} {n : List Blk} {o : Bool} (e : Ev) (out : Out)
    (hinv : SInv s n o) (hrun : step codec h s e = .ok (s', out)) : ∃ n' o', SInv s' n' o' := by
  cases e with
  | file uflags data =>
    simp only [step] at hrun
    split at hrun
    · cases hrun
    · rename_i hg
      cases hrun
      have huf : uflags < 32 := by
        have h1 : uflags &&& blkUserSettable = uflags := by simpa using hg
        have h2 : uflags &&& blkUserSettable ≤ blkUserSettable := Nat.and_le_right
        have h3 : blkUserSettable = 31 := rfl
        omega
      refine ⟨n, o, hinv.len, hinv.calls, hinv.deq, hinv.queue, hinv.poolfb, hinv.goodF, hinv.wfn, ?_⟩
      have : front { s with pending := s.pending ++ fileBlocks s.B uflags data }
          = front s ++ (fileBlocks s.B uflags data).map Blk.kind := by
        unfold front; simp [List.append_assoc]
      rw [this]
      exact feOkK_append _ _ _ hinv.fe (feOk_fileBlocks s.B uflags data huf)
  | submit =>
    simp only [step] at hrun
    split at hrun
    · cases hrun
    · rename_i b rest hp
      cases hrun
      have hk := processBlock_kind codec h b
      have hmem : b.kind ∈ front s := by
        unfold front; rw [hp]; simp
      have hnfb : b.kind.isFB = false := feOkK_noFB _ _ hinv.fe _ hmem
      refine ⟨n, o, hinv.len, hinv.calls, hinv.deq, hinv.queue, ?_, hinv.goodF, hinv.wfn, ?_⟩
      · intro x hx hfb
        rcases List.mem_append.1 hx with hm | hm
        · exact hinv.poolfb x hm hfb
        · rw [List.mem_singleton] at hm
          subst hm
          rw [hk.1, hnfb] at hfb; cases hfb
      · have : front { s with pending := rest, pool := s.pool ++ [processBlock codec h b] } = front s := by
          unfold front
          rw [hp]
          simp only [List.map_append, List.filter_append, List.map_cons, List.map_nil, hk.1]
          have : List.filter (fun k => !k.isFB) [b.kind] = [b.kind] := by simp [hnfb]
          rw [this]; simp [List.append_assoc]
        rw [this]; exact hinv.fe
  | dequeue =>
    simp only [step] at hrun
    split at hrun
    · cases hrun
    · rename_i blk rest hp
      have hpoolfb0 : ∀ b ∈ rest, b.kind.isFB = true → n[b.seq]? = some b :=
        fun b hb hfb => hinv.poolfb b (by rw [hp]; exact List.mem_cons_of_mem _ hb) hfb
      have hfront : front s = (if blk.kind.isFB then [] else [blk.kind]) ++ front { s with pool := rest } := by
        unfold front
        rw [hp]
        simp only [List.map_cons, List.filter_cons]
        cases blk.kind.isFB <;> simp
      split at hrun
      · -- a tail end: `process_completed_fragment`
        rename_i hif
        have hif' : blk.kind.isFrag = true := hif
        have hnfb : blk.kind.isFB = false := by simp [Kind.isFB, hif']
        have hfe := hinv.fe
        rw [hfront, hnfb] at hfe
        simp only [Bool.false_eq_true, if_false, List.singleton_append] at hfe
        unfold feOkK at hfe
        simp only [hif', if_true, Bool.and_eq_true, Bool.not_eq_true'] at hfe
        obtain ⟨ho, hfe0⟩ := hfe
        subst ho
        have h0 : SInv { s with pool := rest } n false :=
          ⟨hinv.len, hinv.calls, hinv.deq, hinv.queue, hpoolfb0, hinv.goodF, hinv.wfn, hfe0⟩
        obtain ⟨n', hn'⟩ := handleFragment_SInv codec h blk out h0 hrun
        exact ⟨n', false, hn'⟩
      · rename_i hif
        have hif' : blk.kind.isFrag = false := by
          have : hasFlag blk.flags blkIsFragment = false := by simpa using hif
          exact this
        split at hrun
        · -- a data block: it gets its number now
          rename_i hnum
          cases hrun
          have hnfb : blk.kind.isFB = false := by
            have hnum' : (!blk.kind.fragBlk || blk.kind.internal) = true := hnum
            simp only [Kind.isFB, hif']
            cases hfbk : blk.kind.fragBlk <;> cases hik : blk.kind.internal <;> simp_all
          have hfe := hinv.fe
          rw [hfront, hnfb] at hfe
          simp only [Bool.false_eq_true, if_false, List.singleton_append] at hfe
          unfold feOkK at hfe
          simp only [hif', Bool.false_eq_true, if_false, Bool.and_eq_true, Bool.not_eq_true'] at hfe
          obtain ⟨hnofb, hstep⟩ := hfe
          generalize hb' : ({ blk with seq := s.ioSeq } : Blk) = b'
          have hkb : b'.kind = blk.kind := by subst hb'; rfl
          have hsb : b'.seq = s.ioSeq := by subst hb'; rfl
          refine ⟨n ++ [b'], (if blk.kind.last then false else o || blk.kind.first), ?_, ?_, ?_, ?_, ?_, hinv.goodF, ?_, ?_⟩
          · simp [hinv.len]
          · show s.calls = _
            rw [List.take_append_of_le_length (by rw [hinv.len]; exact hinv.deq)]
            exact hinv.calls
          · show s.deqSeq ≤ s.ioSeq + 1
            have := hinv.deq; omega
          · intro x hx
            rcases mem_storeIo _ _ _ hx with hm | hm
            · subst hm
              rw [hsb, ← hinv.len, List.getElem?_append_right (Nat.le_refl _)]
              simp
            · exact getElem?_append_some (hinv.queue x hm)
          · intro x hx hfb
            exact getElem?_append_some (hpoolfb0 x hx hfb)
          · rw [List.map_append, wfSt_append, hinv.wfn]
            simp only [Option.bind, List.map_cons, List.map_nil, wfSt]
            have h1 : b'.call.fragBlk = false := by rw [call_fragBlk, hkb, hnofb]
            have h2 : b'.call.first = blk.kind.first := by rw [call_first, hkb]
            have h3 : b'.call.last = blk.kind.last := by rw [call_last, hkb]
            by_cases hl : blk.kind.last = true
            · simp only [hl, if_true, Bool.and_eq_true] at hstep
              simp [stepOk, stepTo, h1, h2, h3, hl, hstep.1]
            · have hlf : blk.kind.last = false := by simpa using hl
              simp [stepOk, stepTo, h1, h2, h3, hlf]
          · show feOkK _ (front { s with pool := rest }) = true
            by_cases hl : blk.kind.last = true
            · simp only [hl, if_true, Bool.and_eq_true] at hstep ⊢
              exact hstep.2
            · have hlf : blk.kind.last = false := by simpa using hl
              simp only [hlf, Bool.false_eq_true, if_false] at hstep ⊢
              exact hstep
        · -- a fragment block coming back from the pool: it keeps its number
          rename_i hnum
          cases hrun
          have hfbk : blk.kind.isFB = true := by
            have hnum' : ¬ (!blk.kind.fragBlk || blk.kind.internal) = true := hnum
            simp only [Kind.isFB, hif']
            cases hfbk : blk.kind.fragBlk <;> cases hik : blk.kind.internal <;> simp_all
          have hfe := hinv.fe
          rw [hfront, hfbk] at hfe
          simp only [if_true, List.nil_append] at hfe
          refine ⟨n, o, hinv.len, hinv.calls, hinv.deq, ?_, hpoolfb0, hinv.goodF, hinv.wfn, hfe⟩
          intro x hx
          rcases mem_storeIo _ _ _ hx with hm | hm
          · subst hm
            exact hinv.poolfb x (by rw [hp]; exact List.mem_cons_self ..) hfbk
          · exact hinv.queue x hm
  | complete =>
    simp only [step] at hrun
    split at hrun
    · cases hrun
    · rename_i b rest hq
      split at hrun
      · cases hrun
      · rename_i hseq
        have hseq' : b.seq = s.deqSeq := by simpa using hseq
        obtain ⟨f1, f2, f3, f4, f5, f6, f7⟩ := completeBlock_fields codec _ s' b out hrun
        have hnb : n[s.deqSeq]? = some b := by
          rw [← hseq']; exact hinv.queue b (by rw [hq]; exact List.mem_cons_self ..)
        have hlt : s.deqSeq < n.length := (List.getElem?_eq_some_iff.1 hnb).1
        refine ⟨n, o, by rw [f1]; exact hinv.len, ?_, ?_, ?_, by rw [f5]; exact hinv.poolfb, f7 hinv.goodF, hinv.wfn, ?_⟩
        · rw [f2, f3]
          show s.calls ++ [b.call] = (n.take (s.deqSeq + 1)).map Blk.call
          rw [List.take_succ_eq_append_getElem hlt, List.map_append, hinv.calls]
          have : n[s.deqSeq] = b := by
            have := List.getElem?_eq_getElem hlt
            rw [hnb] at this; exact (Option.some.inj this).symm
          rw [this]; rfl
        · rw [f1, f3]
          show s.deqSeq + 1 ≤ s.ioSeq
          have := hinv.len; omega
        · rw [f4]
          intro x hx
          exact hinv.queue x (by rw [hq]; exact List.mem_cons_of_mem _ hx)
        · have : front s' = front s := by unfold front; rw [f5, f6]
          rw [this]; exact hinv.fe
  | finish =>
    simp only [step] at hrun
    split at hrun
    · cases hrun
    · rename_i hg
      have hg' : s.pending = [] ∧ s.pool = [] ∧ s.ioQueue = [] := by
        have hg2 : (s.pending.isEmpty && s.pool.isEmpty && s.ioQueue.isEmpty) = true := by simpa using hg
        simp only [Bool.and_eq_true, List.isEmpty_iff] at hg2
        exact ⟨hg2.1.1, hg2.1.2, hg2.2⟩
      have hfr : front s = [] := by unfold front; rw [hg'.1, hg'.2.1]; rfl
      have ho : o = false := by
        have := hinv.fe
        rw [hfr] at this
        simpa [feOkK] using this
      subst ho
      split at hrun
      · cases hrun
        exact ⟨n, false, SInv_congr hinv rfl rfl rfl rfl rfl rfl hinv.goodF⟩
      · rename_i i hoi
        cases hrun
        have h1 : SInv { s with fd := FragDedup.closeOpen s.fd, fevs := s.fevs ++ [.finish], fres := s.fres ++ [none] } n false :=
          SInv_congr hinv rfl rfl rfl rfl rfl rfl ((FragDedup.closeOpen_struct s.fd).1 hinv.goodF)
        obtain ⟨n', hn'⟩ := enqueue_SInv codec h h1 i
        exact ⟨n', false, hn'⟩

theorem run_SInv (codec : Codec) (h : Bytes → UInt32) : ∀ (evs : List Ev) {s s' : State} {n : List Blk} {o : Bool}
    (outs : List Out), SInv s n o → run codec h s evs = .ok (s', outs) → ∃ n' o', SInv s' n' o' := by
  intro evs
  induction evs with
  | nil => intro s s' n o outs hinv hr; simp only [run] at hr; cases hr; exact ⟨n, o, hinv⟩
  | cons e es ih =>
    intro s s' n o outs hinv hr
    unfold run at hr
    split at hr
    · cases hr
    · rename_i s1 o1 hs
      split at hr
      · cases hr
      · rename_i s2 os hr2
        cases hr
        obtain ⟨n1, o1', h1⟩ := step_SInv codec h e o1 hinv hs
        exact ih os h1 hr2

/-- the calls made so far obey the strengthened protocol -/
theorem SInv_wfS {s : State} {n : List Blk} {o : Bool} (hinv : SInv s n o) : wfS false s.calls = true := by
  have h1 : wfS false (n.map Blk.call) = true := wfS_of_wfSt _ _ _ hinv.wfn
  rw [hinv.calls]
  have : n.map Blk.call = (n.take s.deqSeq).map Blk.call ++ (n.drop s.deqSeq).map Blk.call := by
    rw [← List.map_append, List.take_append_drop]
  rw [this] at h1
  exact wfS_prefix _ _ _ h1

end Sqfs.C08Stream
