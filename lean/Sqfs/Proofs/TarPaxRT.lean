/-
PAX record round trip (C04): the record parser of `read_pax_header` reads back exactly what
`write_schily_xattr` emits, for every key without NUL/'=' and every (binary) value.
-/
import Sqfs.Proofs.TarHeader
import Sqfs.Spec.TarHeader
namespace Sqfs.Tar

theorem digit_props (x : UInt8) (h : isDigit x = true) : isSpace x = false ∧ x ≠ 45 ∧ x ≠ 43 := by
  simp only [isDigit, Bool.and_eq_true, decide_eq_true_eq] at h
  refine ⟨?_, ?_, ?_⟩
  · simp only [isSpace, Bool.or_eq_false_iff, decide_eq_false_iff_not, Bool.and_eq_false_imp, decide_eq_true_eq]
    omega
  · intro e; subst e; simp at h
  · intro e; subst e; simp at h

theorem decDigit_isDigit (k : Nat) (hk : k < 10) : isDigit (UInt8.ofNat (48 + k)) = true ∧ (UInt8.ofNat (48 + k)).toNat - 48 = k := by
  have : (UInt8.ofNat (48 + k)).toNat = 48 + k := by rw [UInt8.toNat_ofNat']; omega
  simp only [isDigit, this, Bool.and_eq_true, decide_eq_true_eq]
  omega

theorem decDigitsF_all (f n : Nat) : ∀ x ∈ decDigitsF f n, isDigit x = true := by
  induction f generalizing n with
  | zero =>
    intro x hx
    simp only [decDigitsF, List.mem_singleton] at hx
    subst hx; exact (decDigit_isDigit _ (Nat.mod_lt _ (by omega))).1
  | succ f ih =>
    intro x hx
    unfold decDigitsF at hx
    split at hx
    · rcases List.mem_append.1 hx with h | h
      · exact ih _ x h
      · simp only [List.mem_singleton] at h; subst h; exact (decDigit_isDigit _ (Nat.mod_lt _ (by omega))).1
    · simp only [List.mem_singleton] at hx; subst hx; exact (decDigit_isDigit _ (Nat.mod_lt _ (by omega))).1

theorem decDigitsF_ne_nil (f n : Nat) : decDigitsF f n ≠ [] := by
  cases f with
  | zero => simp [decDigitsF]
  | succ f => unfold decDigitsF; split <;> simp

theorem strtolDigits_append (D tl : Bytes) (acc k : Nat) (hd : ∀ x ∈ D, isDigit x = true) :
    strtolDigits acc k (D ++ tl) = strtolDigits (strtolDigits acc k D).1 (k + D.length) tl := by
  induction D generalizing acc k with
  | nil => simp [strtolDigits]
  | cons d t ih =>
    have hd0 := hd d (by simp)
    simp only [List.cons_append, strtolDigits, hd0, if_true, List.length_cons]
    rw [ih _ _ (fun x hx => hd x (List.mem_cons_of_mem _ hx))]
    congr 1
    omega

theorem strtolDigits_all (D : Bytes) (acc k : Nat) (hd : ∀ x ∈ D, isDigit x = true) :
    (strtolDigits acc k D).2 = k + D.length := by
  induction D generalizing acc k with
  | nil => simp [strtolDigits]
  | cons d t ih =>
    have hd0 := hd d (by simp)
    simp only [strtolDigits, hd0, if_true, List.length_cons]
    rw [ih _ _ (fun x hx => hd x (List.mem_cons_of_mem _ hx))]
    omega

/-- the decimal value of `decDigitsF f n` read with accumulator `acc` -/
theorem strtolDigits_decDigitsF (f n acc k : Nat) (h : n ≤ f) :
    (strtolDigits acc k (decDigitsF f n)).1 = acc * 10 ^ numDigitsF f n + n := by
  induction f generalizing n acc k with
  | zero =>
    have : n = 0 := by omega
    subst this
    simp [decDigitsF, numDigitsF, strtolDigits, isDigit]
  | succ f ih =>
    unfold decDigitsF numDigitsF
    by_cases h10 : n ≥ 10
    · rw [if_pos h10, if_pos h10]
      have hd := decDigitsF_all f (n / 10)
      rw [strtolDigits_append _ _ _ _ hd]
      obtain ⟨hdig, hval⟩ := decDigit_isDigit (n % 10) (Nat.mod_lt _ (by omega))
      simp only [strtolDigits, hdig, if_true, hval]
      rw [ih (n / 10) acc k (by omega), pow_succ]
      have := Nat.div_add_mod n 10
      nlinarith [this]
    · rw [if_neg h10, if_neg h10]
      obtain ⟨hdig, hval⟩ := decDigit_isDigit (n % 10) (Nat.mod_lt _ (by omega))
      simp only [strtolDigits, hdig, if_true, hval]
      have : n % 10 = n := Nat.mod_eq_of_lt (by omega)
      omega

theorem strtol10_decStr (L : Nat) (c : UInt8) (tl : Bytes) (hc : isDigit c = false) :
    strtol10 (decStr L ++ c :: tl) = some (false, L, numDigits L) := by
  have hall := decDigitsF_all L L
  have hne := decDigitsF_ne_nil L L
  have hlen := decStr_length L
  unfold decStr at hlen ⊢
  cases hD : decDigitsF L L with
  | nil => exact absurd hD hne
  | cons d0 D' =>
    rw [hD] at hall hlen
    obtain ⟨hs, h45, h43⟩ := digit_props d0 (hall d0 (by simp))
    unfold strtol10
    simp only [List.cons_append, List.takeWhile, hs, List.length_nil, List.drop_zero]
    split
    · rename_i t heq; simp only [List.cons.injEq] at heq; exact absurd heq.1 h45
    · rename_i t heq; simp only [List.cons.injEq] at heq; exact absurd heq.1 h43
    simp only
    have happ := strtolDigits_append (d0 :: D') (c :: tl) 0 0 hall
    simp only [List.cons_append] at happ
    rw [happ]
    have hstop : ∀ a k, strtolDigits a k (c :: tl) = (a, k) := by intro a k; simp [strtolDigits, hc]
    rw [hstop]
    have hval := strtolDigits_decDigitsF L L 0 0 (Nat.le_refl _)
    rw [hD] at hval
    simp only [Nat.zero_mul, Nat.zero_add] at hval
    simp only [hval, Nat.zero_add]
    have : (d0 :: D').length ≠ 0 := by simp
    rw [if_neg this, hlen]

theorem takeWhile_append_stop (p : UInt8 → Bool) (A B : Bytes) (b : UInt8) (hA : ∀ x ∈ A, p x = true)
    (hb : p b = false) : (A ++ b :: B).takeWhile p = A := by
  induction A with
  | nil => simp [List.takeWhile, hb]
  | cons a t ih =>
    simp only [List.cons_append, List.takeWhile, hA a (by simp)]
    congr 1
    exact ih (fun x hx => hA x (List.mem_cons_of_mem _ hx))

theorem schilyPrefix_eq : schilyPrefix = [83, 67, 72, 73, 76, 89, 46, 120, 97, 116, 116, 114, 46] := by decide

theorem findHandler_schily (key : Bytes) : findHandler (schilyPrefix ++ key) = some .schily := by
  have hne : ∀ s : Bytes, s.head? ≠ some 83 → ¬ (schilyPrefix ++ key = s) := by
    intro s hs heq
    apply hs
    rw [← heq, schilyPrefix_eq]
    rfl
  unfold findHandler
  simp only [hne (ascii "uid") (by decide), hne (ascii "gid") (by decide), hne (ascii "path") (by decide),
    hne (ascii "size") (by decide), hne (ascii "linkpath") (by decide), hne (ascii "mtime") (by decide),
    hne (ascii "GNU.sparse.name") (by decide), hne (ascii "GNU.sparse.size") (by decide),
    hne (ascii "GNU.sparse.realsize") (by decide), hne (ascii "GNU.sparse.major") (by decide),
    hne (ascii "GNU.sparse.minor") (by decide), if_false]
  have : isPrefixOf (ascii "SCHILY.xattr.") (schilyPrefix ++ key) = true := by
    unfold isPrefixOf
    have h13 : (ascii "SCHILY.xattr.").length = schilyPrefix.length := by decide
    have he : ascii "SCHILY.xattr." = schilyPrefix := rfl
    rw [h13, List.take_left' rfl, he]
    simp
  rw [if_pos this]

theorem paxRecord_shape (kw value : Bytes) :
    ∃ L, paxRecord kw value = decStr L ++ 32 :: (kw ++ 61 :: value ++ [10]) ∧
      (paxRecord kw value).length = L ∧ numDigits L + 1 < L := by
  refine ⟨kw.length + value.length + 3 + prefixDigitLen (kw.length + value.length + 3), ?_, ?_, ?_⟩
  · unfold paxRecord
    simp only [List.append_assoc, List.cons_append, List.nil_append]
  · unfold paxRecord
    simp only [List.length_append, decStr_length, prefixDigitLen_fix, List.length_cons, List.length_nil]
    omega
  · rw [prefixDigitLen_fix]; omega

/-- **the record parser of `read_pax_header`** (`strtol`, the in-place NUL edits, the blank skip, the key scan) on a well-formed
    record: it hands exactly the keyword and the value bytes to the handler table and consumes exactly the record -/
theorem paxLine_record (pc : PaxCfg) (st : PaxState) (kw value rest : Bytes) (hne : kw ≠ [])
    (hk : ∀ x ∈ kw, x ≠ 0 ∧ x ≠ 61) (hsp : isSpace (kw.headD 0) = false) :
    paxLine pc st (paxRecord kw value ++ rest) = paxApply pc st kw value (paxRecord kw value).length := by
  obtain ⟨L, hrec, hL, hLbig⟩ := paxRecord_shape kw value
  rw [hL]
  have hDlen := decStr_length L
  generalize hD : decStr L = D at hrec hDlen
  have hTlen : (D ++ 32 :: (kw ++ 61 :: value ++ [10])).length = L := by rw [← hrec]; exact hL
  have hl : paxRecord kw value ++ rest = D ++ 32 :: (kw ++ 61 :: value ++ [10] ++ rest) := by
    rw [hrec]; simp only [List.append_assoc, List.cons_append]
  rw [hl]
  unfold paxLine
  have hst : strtol10 (D ++ 32 :: (kw ++ 61 :: value ++ [10] ++ rest)) = some (false, L, numDigits L) := by
    rw [← hD]; exact strtol10_decStr L 32 _ (by decide)
  rw [hst]
  simp only
  have hdrop : ∀ X : Bytes, (D ++ X).drop (numDigits L) = X := fun X => List.drop_left' hDlen
  rw [hdrop]
  simp only [List.headD_cons]
  have hsp32 : isSpace 32 = true := by decide
  have hc1 : ¬ (¬ isSpace 32 = true ∨ false = true ∨ L = 0) := by
    simp only [hsp32, not_true_eq_false, Bool.false_eq_true, false_or]; omega
  simp only [hc1, if_false]
  have hlen2 : ¬ L > (D ++ 32 :: (kw ++ 61 :: value ++ [10] ++ rest)).length := by
    have : (D ++ 32 :: (kw ++ 61 :: value ++ [10] ++ rest)).length = L + rest.length := by
      rw [← hTlen]; simp only [List.length_append, List.length_cons, List.length_nil]; omega
    omega
  simp only [hlen2, if_false]
  have htake : (D ++ 32 :: (kw ++ 61 :: value ++ [10] ++ rest)).take L =
      (D ++ 32 :: (kw ++ 61 :: value)) ++ [10] := by
    have e : D ++ 32 :: (kw ++ 61 :: value ++ [10] ++ rest) =
        ((D ++ 32 :: (kw ++ 61 :: value)) ++ [10]) ++ rest := by
      simp only [List.append_assoc, List.cons_append, List.nil_append]
    rw [e]
    apply List.take_left'
    rw [← hTlen]; simp only [List.append_assoc, List.cons_append, List.nil_append]
  rw [htake, List.dropLast_concat]
  have hp : ¬ numDigits L ≥ L := by omega
  simp only [hp, if_false]
  have hrec' : (D ++ 32 :: (kw ++ 61 :: value) ++ [0]) = D ++ (32 :: (kw ++ 61 :: value ++ [0])) := by
    simp only [List.append_assoc, List.cons_append]
  rw [hrec', hdrop]
  obtain ⟨k0, kt, rfl⟩ : ∃ k0 kt, kw = k0 :: kt := by
    cases kw with
    | nil => exact absurd rfl hne
    | cons a b => exact ⟨a, b, rfl⟩
  have hk0 : isSpace k0 = false := by simpa using hsp
  have htw : (32 :: ((k0 :: kt) ++ 61 :: value ++ [0])).takeWhile isSpace = [32] := by
    simp only [List.cons_append, List.takeWhile, hsp32, hk0]
  rw [htw]
  simp only [List.length_singleton]
  have hq : ¬ numDigits L + 1 ≥ L := by omega
  simp only [hq, if_false]
  have hdrop2 : (D ++ 32 :: ((k0 :: kt) ++ 61 :: value ++ [0])).drop (numDigits L + 1) =
      (k0 :: kt) ++ 61 :: value ++ [0] := by
    have e : D ++ 32 :: ((k0 :: kt) ++ 61 :: value ++ [0]) = (D ++ [32]) ++ ((k0 :: kt) ++ 61 :: value ++ [0]) := by
      simp only [List.append_assoc, List.cons_append, List.nil_append]
    rw [e]
    exact List.drop_left' (by simp [hDlen])
  simp only [hdrop2]
  have hkey : ((k0 :: kt) ++ 61 :: value ++ [0]).takeWhile (fun c => decide (c ≠ 0 ∧ c ≠ 61)) = k0 :: kt := by
    have e : (k0 :: kt) ++ 61 :: value ++ [0] = (k0 :: kt) ++ 61 :: (value ++ [0]) := by
      simp only [List.append_assoc, List.cons_append]
    rw [e]
    apply takeWhile_append_stop
    · intro x hx
      have := hk x hx
      simp only [ne_eq, this.1, this.2, not_false_eq_true, and_self, decide_true]
    · decide
  simp only [hkey]
  have hafter : ((k0 :: kt) ++ 61 :: value ++ [0]).drop (k0 :: kt).length = 61 :: (value ++ [0]) := by
    have e : (k0 :: kt) ++ 61 :: value ++ [0] = (k0 :: kt) ++ 61 :: (value ++ [0]) := by
      simp only [List.append_assoc, List.cons_append]
    rw [e]
    exact List.drop_left' rfl
  simp only [hafter]
  have hne' : (k0 :: kt).isEmpty = false := rfl
  rw [hne']
  simp only [Bool.false_eq_true, if_false, List.dropLast_concat]

theorem schilyRecordRaw_eq (key value : Bytes) : schilyRecordRaw key value = paxRecord (schilyPrefix ++ key) value := by
  unfold schilyRecordRaw paxRecord
  simp only [List.length_append, List.append_assoc]

theorem paxLine_schilyRaw (pc : PaxCfg) (hpc : pc.keepOrder = false) (st : PaxState) (key value rest : Bytes)
    (hk : ∀ x ∈ key, x ≠ 0 ∧ x ≠ 61) :
    paxLine pc st (schilyRecordRaw key value ++ rest) =
      some ({ st with out := { st.out with xattr := (if pc.schilyDecode then xattrDecodeKey key else key, value) :: st.out.xattr } },
        (schilyRecordRaw key value).length) := by
  rw [schilyRecordRaw_eq]
  rw [paxLine_record pc st (schilyPrefix ++ key) value rest (by rw [schilyPrefix_eq]; simp)
    (by
      intro x hx
      rcases List.mem_append.1 hx with h | h
      · rw [schilyPrefix_eq] at h
        simp only [List.mem_cons, List.not_mem_nil, or_false] at h
        rcases h with h | h | h | h | h | h | h | h | h | h | h | h | h <;> (subst h; decide)
      · exact hk x h)
    (by rw [schilyPrefix_eq]; rfl)]
  unfold paxApply
  simp only [findHandler_schily, applyHandler, hpc, Bool.false_eq_true, if_false, kindFlag, setFlag, true_or, if_true]
  have hdk : (schilyPrefix ++ key).drop 13 = key := List.drop_left' (by decide)
  rw [hdk]
  have hne : ¬ (PaxKind.schily = PaxKind.sparseMap) := by decide
  simp only [hne, if_false]

/-! ### key escaping (`xattr_encode_keyword` / `xattr_decode_keyword`) -/

theorem xattrDecode_encode (key : Bytes) : xattrDecodeKey (xattrEncodeKey key) = key := by
  induction key with
  | nil => rfl
  | cons c t ih =>
    unfold xattrEncodeKey
    by_cases h1 : c = 37
    · subst h1; simp only [if_true]; rw [xattrDecodeKey, ih]
    · by_cases h2 : c = 61
      · subst h2; simp only [if_neg h1, if_true]; rw [xattrDecodeKey, ih]
      · simp only [if_neg h1, if_neg h2]
        rw [xattrDecodeKey.eq_def]
        split
        · rename_i heq; exact absurd (List.cons.inj heq).1 h1
        · rename_i heq; exact absurd (List.cons.inj heq).1 h1
        · rename_i heq; obtain ⟨rfl, rfl⟩ := List.cons.inj heq; rw [ih]
        · rename_i heq; cases heq

theorem xattrEncode_clean (key : Bytes) (hk : ∀ x ∈ key, x ≠ 0) : ∀ x ∈ xattrEncodeKey key, x ≠ 0 ∧ x ≠ 61 := by
  induction key with
  | nil => intro x hx; cases hx
  | cons c t ih =>
    have iht := ih (fun y hy => hk y (List.mem_cons_of_mem _ hy))
    have hc : c ≠ 0 := hk c (by simp)
    intro x hx
    unfold xattrEncodeKey at hx
    by_cases h1 : c = 37
    · simp only [h1, if_true, List.mem_cons] at hx
      rcases hx with h | h | h | h
      · rw [h]; decide
      · rw [h]; decide
      · rw [h]; decide
      · exact iht x h
    · by_cases h2 : c = 61
      · subst h2
        rw [if_neg (by decide), if_pos rfl] at hx
        simp only [List.mem_cons] at hx
        rcases hx with h | h | h | h
        · rw [h]; decide
        · rw [h]; decide
        · rw [h]; decide
        · exact iht x h
      · simp only [if_neg h1, if_neg h2, List.mem_cons] at hx
        rcases hx with h | h
        · subst h; exact ⟨hc, h2⟩
        · exact iht x h

/-- the repaired writer's record through the repaired reader: every NUL-free key, '=' and '%' included -/
theorem paxLine_schily (st : PaxState) (key value rest : Bytes) (hk : ∀ x ∈ key, x ≠ 0) :
    paxLine {} st (schilyRecord key value ++ rest) =
      some ({ st with out := { st.out with xattr := (key, value) :: st.out.xattr } }, (schilyRecord key value).length) := by
  unfold schilyRecord
  rw [paxLine_schilyRaw {} rfl st _ value rest (xattrEncode_clean key hk)]
  simp only [if_true, xattrDecode_encode]

theorem schilyRecordRaw_ne_nil (key value : Bytes) : schilyRecordRaw key value ≠ [] := by
  rw [schilyRecordRaw_eq]
  obtain ⟨L, _, hL, hbig⟩ := paxRecord_shape (schilyPrefix ++ key) value
  intro h; rw [h] at hL; simp at hL; omega

theorem schilyRecord_ne_nil (key value : Bytes) : schilyRecord key value ≠ [] := schilyRecordRaw_ne_nil _ _

/-- the whole payload of `write_schily_xattr` through the record loop of `read_pax_header` -/
theorem paxLoop_schily (xs : List (Bytes × Bytes)) :
    ∀ (fuel : Nat) (st : PaxState), (∀ kv ∈ xs, ∀ x ∈ kv.1, x ≠ 0) → xs.length + 1 ≤ fuel →
      paxLoop {} fuel st ((xs.map fun kv => schilyRecord kv.1 kv.2).flatten) =
        some { st with out := { st.out with xattr := xs.reverse ++ st.out.xattr } } := by
  induction xs with
  | nil =>
    intro fuel st _ hf
    obtain ⟨f, rfl⟩ : ∃ f, fuel = f + 1 := ⟨fuel - 1, by simp at hf; omega⟩
    simp [paxLoop]
  | cons kv t ih =>
    intro fuel st hk hf
    obtain ⟨f, rfl⟩ : ∃ f, fuel = f + 1 := ⟨fuel - 1, by simp at hf; omega⟩
    simp only [List.map_cons, List.flatten_cons, paxLoop]
    have hne : (schilyRecord kv.1 kv.2 ++ (t.map fun kv => schilyRecord kv.1 kv.2).flatten).isEmpty = false := by
      cases h : schilyRecord kv.1 kv.2 with
      | nil => exact absurd h (schilyRecord_ne_nil _ _)
      | cons _ _ => rfl
    rw [hne]
    simp only [Bool.false_eq_true, if_false]
    rw [paxLine_schily st kv.1 kv.2 _ (hk kv (by simp))]
    simp only
    rw [List.drop_left' rfl]
    rw [ih f _ (fun kv' h' => hk kv' (List.mem_cons_of_mem _ h')) (by simp at hf ⊢; omega)]
    simp [List.reverse_cons, List.append_assoc]

end Sqfs.Tar
