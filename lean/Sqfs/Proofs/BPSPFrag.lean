/-
C02, `packRef = specPack`, part 5: the fragment pass (`fStep` on a fragment, `FSt.close`) together with the writer pass on
the fragment block it may close, against `Pack.placeTail` / `Pack.addFragment` / `Pack.closeOpen`.
-/
import Sqfs.Proofs.BPSPWriter
import Sqfs.Proofs.BPSPChunk
namespace Sqfs.BlockProc
open Sqfs.Consts
open Sqfs.BlockWriter (hasFlag)

def openView (o : Option Blk) : Option (Bytes × Bool) := o.map (fun fb => (fb.data, hasFlag fb.flags blkDontCompress))
def openViewS (o : Option Sqfs.Pack.FragBlock) : Option (Bytes × Bool) := o.map (fun fb => (fb.data, fb.dontCompress))

/-- the fragment pass's state against `specPack`'s -/
structure FSim (P : Params) (F : FSt) (σ : Sqfs.Pack.State) : Prop where
  opn : openView F.opn = openViewS σ.openFrag
  opnOK : ∀ fb, F.opn = some fb → fb.index = σ.frags.length ∧ FBRawFlags fb.flags ∧ fb.data ≠ [] ∧ fb.data.length ≤ P.B
  ntbl : F.ntbl = σ.frags.length + (if F.opn.isSome then 1 else 0)
  closedIdx : ∀ e ∈ F.closed, e.1 < σ.frags.length
  good : ∀ c ∈ F.ht, ChunkGood F c
  look : ∀ dc ck d, Sqfs.Pack.lookupChunk (F.ht.map (absChunk F)) dc ck d = Sqfs.Pack.lookupChunk σ.chunks dc ck d

/-- the joint invariant: the writer pass has run on the whole numbered stream -/
structure Sim (P : Params) (F : FSt) (W : WSt) (σ : Sqfs.Pack.State) : Prop where
  run : wRun { wr := BlockWriter.init P.pre } F.stream = .ok W
  w : WSim P W σ.hist σ.frags
  f : FSim P F σ

theorem wRun_snoc : ∀ (l : List Blk) (W0 : WSt) (b : Blk),
    wRun W0 (l ++ [b]) = match wRun W0 l with
      | .ok W => wStep W b
      | .error e => .error e := by
  intro l
  induction l with
  | nil =>
    intro W0 b
    simp only [List.nil_append, wRun]
    cases wStep W0 b <;> rfl
  | cons a l ih =>
    intro W0 b
    simp only [List.cons_append, wRun]
    cases wStep W0 a with
    | error e => rfl
    | ok W1 => exact ih W1 b

/-! ### block contents only grow -/

/-- every fragment block of `F` is still there in `F'`, possibly longer -/
def FExt (F F' : FSt) : Prop := ∀ i blk, F.fragData i = some blk → ∃ blk', F'.fragData i = some blk' ∧ blk <+: blk'

theorem FExt.of_eq {F F' : FSt} (h : ∀ i, F'.fragData i = F.fragData i) : FExt F F' :=
  fun i blk hb => ⟨blk, by rw [h i, hb], List.prefix_refl _⟩

theorem slice_prefix_of_le {blk blk' : Bytes} (hp : blk <+: blk') (o n : Nat) (h : o + n ≤ blk.length) :
    BlockWriter.slice blk' o n = BlockWriter.slice blk o n := by
  obtain ⟨t, rfl⟩ := hp
  unfold BlockWriter.slice
  rw [List.drop_append_of_le_length (by omega), List.take_append_of_le_length (by simp; omega)]

theorem ChunkGood.ext {F F' : FSt} (he : FExt F F') {c : Chunk} (h : ChunkGood F c) :
    ChunkGood F' c ∧ absChunk F' c = absChunk F c := by
  obtain ⟨blk, hb, hin⟩ := h.inb
  obtain ⟨blk', hb', hp⟩ := he _ _ hb
  refine ⟨⟨⟨blk', hb', Nat.le_trans hin hp.length_le⟩, h.flags⟩, ?_⟩
  unfold absChunk chunkData
  rw [hb, hb']
  simp only [slice_prefix_of_le hp _ _ hin]

theorem map_abs_ext {F F' : FSt} (he : FExt F F') {l : List Chunk} (h : ∀ c ∈ l, ChunkGood F c) :
    l.map (absChunk F') = l.map (absChunk F) :=
  List.map_congr_left (fun c hc => ((h c hc).ext he).2)

theorem FSim.hist {P : Params} {F : FSt} {σ : Sqfs.Pack.State} (h : FSim P F σ) (H : List Sqfs.Pack.Stored) :
    FSim P F { σ with hist := H } :=
  ⟨h.opn, h.opnOK, h.ntbl, h.closedIdx, h.good, h.look⟩

/-- only `opn`, `closed`, `ht` and `ntbl` matter -/
theorem FSim.congr {P : Params} {F F' : FSt} {σ : Sqfs.Pack.State} (h : FSim P F σ) (h1 : F'.opn = F.opn)
    (h2 : F'.closed = F.closed) (h3 : F'.ht = F.ht) (h4 : F'.ntbl = F.ntbl) : FSim P F' σ := by
  have hfd : ∀ i, F'.fragData i = F.fragData i := by
    intro i; unfold FSt.fragData; rw [h1, h2]
  have he := FExt.of_eq hfd
  refine ⟨by rw [h1]; exact h.opn, by rw [h1]; exact h.opnOK, by rw [h4, h1]; exact h.ntbl, by rw [h2]; exact h.closedIdx, ?_, ?_⟩
  · rw [h3]; intro c hc; exact ((h.good c hc).ext he).1
  · rw [h3, map_abs_ext he h.good]; exact h.look

theorem open_cases {F : FSt} {σ : Sqfs.Pack.State} (h : openView F.opn = openViewS σ.openFrag) :
    (F.opn = none ∧ σ.openFrag = none) ∨
    (∃ fb, F.opn = some fb ∧ σ.openFrag = some ⟨fb.data, hasFlag fb.flags blkDontCompress⟩) := by
  cases h1 : F.opn with
  | none =>
    cases h2 : σ.openFrag with
    | none => exact Or.inl ⟨rfl, rfl⟩
    | some o => rw [h1, h2] at h; simp [openView, openViewS] at h
  | some fb =>
    cases h2 : σ.openFrag with
    | none => rw [h1, h2] at h; simp [openView, openViewS] at h
    | some o =>
      rw [h1, h2] at h
      simp only [openView, openViewS, Option.map_some, Option.some.injEq, Prod.mk.injEq] at h
      obtain ⟨od, odc⟩ := o
      simp only at h
      exact Or.inr ⟨fb, rfl, by rw [h.1, h.2]⟩

/-! ### closing the open fragment block -/

theorem close_sim {P : Params} (hc : CodecOk P.codec) (hpos : ∀ x z, P.codec.cmp x = some z → 0 < z.length) (hB : P.B < 2 ^ 24)
    {F : FSt} {W : WSt} {σ : Sqfs.Pack.State} (h : Sim P F W σ) :
    ∃ W', Sim P (F.close P) W' (Sqfs.Pack.closeOpen (toPackParams P) σ) ∧ W'.effs = W.effs ∧
      (F.close P).effs = F.effs ∧ (F.close P).opn = none := by
  rcases open_cases h.f.opn with ⟨h1, h2⟩ | ⟨fb, h1, h2⟩
  · have e1 : F.close P = F := by unfold FSt.close; rw [h1]
    have e2 : Sqfs.Pack.closeOpen (toPackParams P) σ = σ := by unfold Sqfs.Pack.closeOpen; rw [h2]
    rw [e1, e2]
    exact ⟨W, h, rfl, rfl, h1⟩
  · obtain ⟨hidx, hraw, hne, hsz⟩ := h.f.opnOK fb h1
    obtain ⟨W', hw, hsim, heff⟩ := wStep_fb hc hpos hB h.w (fb.withSeq F.stream.length) hraw hne hsz hidx
    have e1 : F.close P = { F with opn := none, closed := (fb.index, fb.data) :: F.closed,
                                   stream := F.stream ++ [processBlock P (fb.withSeq F.stream.length)] } := by
      unfold FSt.close; rw [h1]
    have e2 : Sqfs.Pack.closeOpen (toPackParams P) σ =
        { σ with hist := σ.hist ++ [Sqfs.Pack.workFragBlock (toPackParams P) ⟨fb.data, hasFlag fb.flags blkDontCompress⟩]
                 frags := σ.frags ++ [⟨P.pre.length + Sqfs.Pack.bytesOf σ.hist,
                   (Sqfs.Pack.workFragBlock (toPackParams P) ⟨fb.data, hasFlag fb.flags blkDontCompress⟩).data.length,
                   (Sqfs.Pack.workFragBlock (toPackParams P) ⟨fb.data, hasFlag fb.flags blkDontCompress⟩).raw⟩]
                 openFrag := none } := by
      unfold Sqfs.Pack.closeOpen; rw [h2]; rfl
    have hop : ∀ fb', F.opn = some fb' → ∀ e ∈ F.closed, e.1 ≠ fb'.index := by
      intro fb' hfb' e he
      rw [h1] at hfb'; cases hfb'
      have := h.f.closedIdx e he
      omega
    have hfd : ∀ i, (F.close P).fragData i = F.fragData i := fragData_close P F hop
    have he := FExt.of_eq hfd
    refine ⟨W', ⟨?_, ?_, ?_⟩, heff, by rw [e1], by rw [e1]⟩
    · rw [e1]
      show wRun _ (F.stream ++ [_]) = _
      rw [wRun_snoc, h.run]
      exact hw
    · rw [e2]; exact hsim
    · rw [e2]
      refine ⟨?_, ?_, ?_, ?_, ?_, ?_⟩
      · rw [e1]; rfl
      · rw [e1]; intro fb' hfb'; cases hfb'
      · rw [e1]
        show F.ntbl = (σ.frags ++ [_]).length + 0
        rw [h.f.ntbl, h1]; simp
      · rw [e1]
        intro e hmem
        show e.1 < (σ.frags ++ [_]).length
        rw [List.length_append, List.length_singleton]
        rcases List.mem_cons.mp hmem with hm | hm
        · rw [hm]; show fb.index < _; omega
        · have := h.f.closedIdx e hm; omega
      · have : (F.close P).ht = F.ht := by rw [e1]
        rw [this]
        intro c hc; exact ((h.f.good c hc).ext he).1
      · have : (F.close P).ht = F.ht := by rw [e1]
        rw [this, map_abs_ext he h.f.good]
        exact h.f.look

/-! ### storing a fragment -/

/-- `addFragment`, first half: the open block is closed when the tail does not fit -/
def specRoom (P' : Sqfs.Pack.Params) (σ : Sqfs.Pack.State) (n : Nat) : Sqfs.Pack.State :=
  match σ.openFrag with
  | some fb => if fb.data.length + n > P'.B then Sqfs.Pack.closeOpen P' σ else σ
  | none => σ

/-- `addFragment`, second half: the tail opens a new block or is appended to the open one -/
def specPlace (σ1 : Sqfs.Pack.State) (Fl : Sqfs.Pack.Flags) (ck : UInt32) (t : Bytes) : Sqfs.Pack.State × (Nat × Nat) :=
  match σ1.openFrag with
  | none =>
    ({ σ1 with openFrag := some ⟨t, Fl.dontCompress⟩, chunks := ⟨σ1.frags.length, 0, Fl.dontCompress, ck, t⟩ :: σ1.chunks },
     (σ1.frags.length, 0))
  | some fb =>
    ({ σ1 with openFrag := some ⟨fb.data ++ t, fb.dontCompress || Fl.dontCompress⟩
               chunks := ⟨σ1.frags.length, fb.data.length, Fl.dontCompress, ck, t⟩ :: σ1.chunks },
     (σ1.frags.length, fb.data.length))

theorem addFragment_eq (P' : Sqfs.Pack.Params) (σ : Sqfs.Pack.State) (Fl : Sqfs.Pack.Flags) (ck : UInt32) (t : Bytes) :
    Sqfs.Pack.addFragment P' σ Fl ck t = specPlace (specRoom P' σ t.length) Fl ck t := rfl

theorem makeRoom_sim {P : Params} (hc : CodecOk P.codec) (hpos : ∀ x z, P.codec.cmp x = some z → 0 < z.length) (hB : P.B < 2 ^ 24)
    {F : FSt} {W : WSt} {σ : Sqfs.Pack.State} (h : Sim P F W σ) (n : Nat) :
    ∃ W', Sim P (F.makeRoom P n) W' (specRoom (toPackParams P) σ n) ∧ W'.effs = W.effs ∧ (F.makeRoom P n).effs = F.effs ∧
      ∀ fb, (F.makeRoom P n).opn = some fb → fb.data.length + n ≤ P.B := by
  rcases open_cases h.f.opn with ⟨h1, h2⟩ | ⟨fb, h1, h2⟩
  · have e1 : F.makeRoom P n = F := by unfold FSt.makeRoom; rw [h1]
    have e2 : specRoom (toPackParams P) σ n = σ := by unfold specRoom; rw [h2]
    rw [e1, e2]
    exact ⟨W, h, rfl, rfl, fun fb hfb => by rw [h1] at hfb; cases hfb⟩
  · by_cases hgt : fb.data.length + n > P.B
    · have e1 : F.makeRoom P n = F.close P := by unfold FSt.makeRoom; rw [h1]; simp only [hgt, if_true]
      have e2 : specRoom (toPackParams P) σ n = Sqfs.Pack.closeOpen (toPackParams P) σ := by
        unfold specRoom; rw [h2]
        have : fb.data.length + n > (toPackParams P).B := hgt
        simp only [this, if_true]
      rw [e1, e2]
      obtain ⟨W', hs, he1, he2, he3⟩ := close_sim hc hpos hB h
      exact ⟨W', hs, he1, he2, fun fb' hfb' => by rw [he3] at hfb'; cases hfb'⟩
    · have e1 : F.makeRoom P n = F := by unfold FSt.makeRoom; rw [h1]; simp only [hgt, if_false]
      have e2 : specRoom (toPackParams P) σ n = σ := by
        unfold specRoom; rw [h2]
        have : ¬ fb.data.length + n > (toPackParams P).B := hgt
        simp only [this, if_false]
      rw [e1, e2]
      exact ⟨W, h, rfl, rfl, fun fb' hfb' => by rw [h1] at hfb'; cases hfb'; omega⟩

end Sqfs.BlockProc
