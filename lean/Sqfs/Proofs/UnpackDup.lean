/-
C06 helper lemmas: `tree_sort` *fails* on a level that holds two equal names (the converse of `treeSort_nodup`), and what
that means for raw names that agree before their first NUL.
-/
import Sqfs.Proofs.UnpackComplete
namespace Sqfs.Unpack
open Sqfs.Path

/-! ### the only error of `tree_sort` is "duplicate" -/

mutual
theorem treeSort_err : ∀ (x : TNode) (e : Err), treeSort x = .error e → e = .duplicate
  | .mk n k p a ch, e, h => by
    unfold treeSort at h
    split at h
    · rename_i e' he
      cases h
      exact treeSortL_err ch _ he
    · simp only at h
      split at h
      · cases h; rfl
      · cases h
theorem treeSortL_err : ∀ (l : List TNode) (e : Err), treeSortL l = .error e → e = .duplicate
  | [], e, h => by unfold treeSortL at h; cases h
  | c :: cs, e, h => by
    unfold treeSortL at h
    split at h
    · rename_i e' he
      cases h
      exact treeSort_err c _ he
    · split at h
      · rename_i e' he
        cases h
        exact treeSortL_err cs _ he
      · cases h
end

/-- sorting the levels below does not change the names of a level -/
theorem treeSortL_names : ∀ (l l' : List TNode), treeSortL l = .ok l' → l'.map TNode.name = l.map TNode.name
  | [], l', h => by unfold treeSortL at h; cases h; rfl
  | c :: cs, l', h => by
    unfold treeSortL at h
    split at h
    · cases h
    · rename_i c' hc
      split at h
      · cases h
      · rename_i cs' hcs
        cases h
        simp only [List.map_cons, treeSort_name c c' hc, treeSortL_names cs cs' hcs]

theorem insertNode_perm (x : TNode) : ∀ (l : List TNode), (insertNode x l).Perm (x :: l)
  | [] => by simp [insertNode]
  | y :: ys => by
    unfold insertNode
    split
    · exact List.Perm.refl _
    · exact ((insertNode_perm x ys).cons y).trans (List.Perm.swap x y ys)

theorem sortNodes_perm : ∀ (l : List TNode), (sortNodes l).Perm l
  | [] => by simp [sortNodes]
  | x :: xs => by
    unfold sortNodes
    exact (insertNode_perm x _).trans ((sortNodes_perm xs).cons x)

/-- **`tree_sort` refuses a level with two equal names**, wherever they stand in the level and whatever the levels
below look like: the converse of `treeSort_nodup` for one level. -/
theorem treeSort_dup_level (n : Bytes) (k : Kind) (p : Bytes) (a : Attr) (ch : List TNode)
    (h : ¬ (ch.map TNode.name).Nodup) : treeSort (.mk n k p a ch) = .error .duplicate := by
  cases hs : treeSort (.mk n k p a ch) with
  | error e => rw [treeSort_err _ e hs]
  | ok t' =>
    exfalso
    apply h
    unfold treeSort at hs
    split at hs
    · cases hs
    · rename_i ch' hch
      simp only at hs
      split at hs
      · cases hs
      · rename_i hd
        have hnd := nodup_of_sorted_noAdjDup _ (sortNodes_sorted ch') (by simpa using hd)
        rw [← treeSortL_names ch ch' hch]
        exact (((sortNodes_perm ch').map TNode.name).nodup_iff).1 hnd

/-! ### `decode`: which raw entries survive, and under which name -/

/-- the raw entry `c` is kept by `fill_dir` under the flags `tf`: not dropped by `should_skip`, and not a directory that
ends up empty while `SQFS_TREE_NO_EMPTY` is set -/
def Kept (tf : TreeFlags) (c : TNode) : Prop :=
  shouldSkip tf c.kind = false ∧ ((decode tf c).kind = .dir && (decode tf c).children.isEmpty && tf.noEmpty) = false

instance (tf : TreeFlags) (c : TNode) : Decidable (Kept tf c) := by unfold Kept; exact inferInstance

theorem decode_name (tf : TreeFlags) : ∀ (c : TNode), (decode tf c).name = cstr c.name
  | .mk n k p a ch => by simp [decode, TNode.name]

theorem decodeL_append (tf : TreeFlags) : ∀ (l₁ l₂ : List TNode), decodeL tf (l₁ ++ l₂) = decodeL tf l₁ ++ decodeL tf l₂
  | [], l₂ => by simp [decodeL]
  | c :: cs, l₂ => by
    simp only [List.cons_append, decodeL]
    split
    · exact decodeL_append tf cs l₂
    · split
      · exact decodeL_append tf cs l₂
      · simp only [List.cons_append, decodeL_append tf cs l₂]

theorem decodeL_cons_kept (tf : TreeFlags) (c : TNode) (cs : List TNode) (h : Kept tf c) :
    decodeL tf (c :: cs) = decode tf c :: decodeL tf cs := by
  obtain ⟨h1, h2⟩ := h
  simp only [decodeL, h1, Bool.false_eq_true, if_false, h2]

/-- two kept raw entries of one directory whose names agree before the first NUL: the decoded level is not duplicate free -/
theorem decodeL_dup (tf : TreeFlags) (l₁ l₂ l₃ : List TNode) (x y : TNode) (hx : Kept tf x) (hy : Kept tf y)
    (h : cstr x.name = cstr y.name) : ¬ ((decodeL tf (l₁ ++ x :: (l₂ ++ y :: l₃))).map TNode.name).Nodup := by
  rw [decodeL_append, decodeL_cons_kept tf x _ hx, decodeL_append, decodeL_cons_kept tf y _ hy]
  simp only [List.map_append, List.map_cons, decode_name]
  intro hnd
  have h2 := (List.nodup_append.1 hnd).2.1
  have h3 := (List.nodup_cons.1 h2).1
  apply h3
  rw [h]
  simp

end Sqfs.Unpack
