/-
C04 fix-point — the tar iterator of tar2sqfs on the archive sqfs2tar wrote: member by member it reports exactly the
nodes of the image (`viewOf`), then end of archive.
-/
import Sqfs.Proofs.TarFixPath
import Sqfs.Proofs.TarFixData
import Sqfs.Proofs.TarHeaderFull
namespace Sqfs.Tar
open Sqfs.Path (joinSlash SL canonicalize)

/-- the xattr list sqfs2tar passes to `write_tar_header` -/
def xsOf (img : ImgData) (n : TNode) : List (Bytes × Bytes) := if n.hardLink then [] else (img.xattr n.path).reverse

theorem encodable_of_nodeOK (img : ImgData) (n : TNode) (h : NodeOK img n) :
    Encodable (wentryOf img n) n.target (xsOf img n) where
  nameNul := by
    intro x hx
    simp only [wentryOf, List.mem_append] at hx
    rcases hx with hx | hx
    · exact joinSlash_nul_free n.path h.comps x hx
    · split at hx
      · simp only [List.mem_singleton] at hx; rw [hx]; decide
      · cases hx
  tgtNul := by
    by_cases hl : fmt n.mode = S_IFLNK
    · obtain ⟨tg, htg, hnul, _⟩ := h.lnkTarget hl
      rw [htg]; exact hnul
    · rw [h.noTarget hl]; intro x hx; cases hx
  keyNul := by
    intro kv hkv
    unfold xsOf at hkv
    split at hkv
    · cases hkv
    · exact h.keyNul kv (List.mem_reverse.1 hkv)
  size := by
    simp only [wentryOf]
    split
    · rename_i hl
      obtain ⟨tg, htg, _, hlen⟩ := h.lnkTarget hl
      rw [htg]; simp only [Option.getD_some, U64]; omega
    · split
      · exact h.contentLen
      · simp only [U64]; omega
  mtime := by have := h.mtime; simp only [wentryOf]; omega
  uid := by have := h.uid; simp only [wentryOf]; omega
  gid := by have := h.gid; simp only [wentryOf]; omega
  dev := by
    simp only [wentryOf]
    by_cases hd : fmt n.mode = S_IFCHR ∨ fmt n.mode = S_IFBLK
    · have := h.dev hd; simp only [hd, if_true]; omega
    · simp only [hd, if_false]; omega
  nameLen := by
    have := h.nameLen
    simp only [wentryOf, List.length_append]
    split <;> simp <;> omega
  tgtLen := by
    by_cases hl : fmt n.mode = S_IFLNK
    · obtain ⟨tg, htg, _, hlen⟩ := h.lnkTarget hl
      rw [htg]; exact hlen
    · rw [h.noTarget hl]; simp
  paxLen := by
    intro hh
    simp only [wentryOf] at hh
    unfold xsOf
    simp only [hh, Bool.false_eq_true, if_false]
    exact h.paxLen
  slink := by
    intro _ hl
    simp only [wentryOf] at hl ⊢
    rw [if_pos hl]
  hlink := by
    intro hh
    simp only [wentryOf] at hh
    obtain ⟨tg, htg, _⟩ := h.hardTarget hh
    rw [htg]; rfl

theorem entryType_of_kind (img : ImgData) (n : TNode) (h : NodeOK img n) : ∃ t, entryType n.mode = some t := by
  unfold entryType
  rcases h.kind with hk | hk | hk | hk | hk | hk <;> simp [hk]

theorem written_length (e : WEntry) (tgt : Option Bytes) (xs : List (Bytes × Bytes)) (c : Nat) (w : Bytes)
    (hE : Encodable e tgt xs) (hw : writeTarHeader e tgt xs c = some w) : 512 ≤ w.length := by
  by_contra hlt
  have hrt : readHeader (w ++ []) = .ok (decodedOf e tgt xs.reverse) [] := by
    cases hh : e.hardLink with
    | true => exact readHeader_written_hard e tgt xs c [] hE hh w hw
    | false =>
      cases ht : entryType e.mode with
      | none => unfold writeTarHeader writeTarHeaderK at hw; simp [hh, ht] at hw
      | some t => exact readHeader_written e tgt xs c [] t hE hh ht w hw
  rw [List.append_nil] at hrt
  unfold readHeader readHeaderWith at hrt
  rw [readHeaderLoop] at hrt
  rw [if_pos (by omega)] at hrt
  split at hrt <;> cases hrt

theorem entryBytes_some (img : ImgData) (n : TNode) (c : Nat) (h : NodeOK img n) :
    ∃ hd, writeTarHeader (wentryOf img n) n.target (xsOf img n) c = some hd ∧ 512 ≤ hd.length ∧
      entryBytes img n c = some (hd ++ (if fmt n.mode = S_IFREG then
        img.content n.path ++ zeros (padding (img.content n.path).length) else [])) := by
  have hE := encodable_of_nodeOK img n h
  cases hw : writeTarHeader (wentryOf img n) n.target (xsOf img n) c with
  | none =>
    exfalso
    unfold writeTarHeader writeTarHeaderK at hw
    obtain ⟨t, ht⟩ := entryType_of_kind img n h
    have : (wentryOf img n).mode = n.mode := rfl
    cases hh : (wentryOf img n).hardLink <;> simp [hh, this, ht] at hw
  | some hd =>
    refine ⟨hd, rfl, written_length _ _ _ c hd hE hw, ?_⟩
    unfold entryBytes
    unfold xsOf at hw
    rw [hw]

theorem canon_wname (img : ImgData) (n : TNode) (h : NodeOK img n) :
    canonicalize (wentryOf img n).name = some (joinSlash n.path) := by
  simp only [wentryOf]
  split
  · exact canon_join_trailing n.path h.pathNe h.comps
  · rw [List.append_nil]; exact canon_join n.path h.pathNe h.comps

/-- one member: the iterator reports the node and stands in front of the next member -/
theorem iterLoop_node (img : ImgData) (n : TNode) (c want : Nat) (hw : 1 ≤ want) (h : NodeOK img n) (b rest : Bytes)
    (hb : entryBytes img n c = some b) :
    ∃ x s1 skip1, IterEntry.view x = viewOf img n ∧ istreamSkip s1 skip1 = some rest ∧
      ∀ f s0 skip acc, istreamSkip s0 skip = some (b ++ rest) →
        iterLoop {} want (f + 1) s0 skip acc = iterLoop {} want f s1 skip1 (acc ++ [x]) := by
  obtain ⟨hd, hwr, _, hbytes⟩ := entryBytes_some img n c h
  rw [hbytes] at hb
  have hb := (Option.some.inj hb).symm
  have hE := encodable_of_nodeOK img n h
  have hcan := canon_wname img n h
  have hrt : ∀ tail, readHeaderWith {} (hd ++ tail) = .ok (decodedOf (wentryOf img n) n.target (xsOf img n).reverse) tail := by
    intro tail
    cases hh : (wentryOf img n).hardLink with
    | true => exact readHeader_written_hard _ _ _ c tail hE hh hd hwr
    | false =>
      obtain ⟨t, ht⟩ := entryType_of_kind img n h
      exact readHeader_written _ _ _ c tail t hE hh ht hd hwr
  cases hh : n.hardLink with
  | true =>
    have hl := h.hardMode hh
    have hnr : ¬ (fmt n.mode = S_IFREG) := by rw [hl]; decide
    obtain ⟨tg, htg, _⟩ := h.hardTarget hh
    rw [if_neg hnr, List.append_nil] at hb
    subst hb
    refine ⟨⟨joinSlash n.path, n.mode, true, n.uid, n.gid, n.modTime, 0, n.target, none, 0, 0, []⟩, rest, 0, ?_, istreamSkip_zero _, ?_⟩
    · have h3 : ¬ (S_IFLNK = S_IFCHR ∨ S_IFLNK = S_IFBLK) := by decide
      have h4 : ¬ (S_IFLNK = S_IFREG) := by decide
      simp only [IterEntry.view, viewOf, hh, hl, h3, h4, if_true, if_false, Option.map_none]
    · intro f s0 skip acc hs
      rw [iterLoop, hs]; dsimp only []; rw [hrt rest]
      have hwh : (wentryOf img n).hardLink = true := hh
      simp only [decodedOf, hwh, if_true, Bool.false_eq_true, if_false, Option.getD_some, hcan]
      have h1 : fmt (S_IFLNK + 0o777) = S_IFLNK := by decide
      have h2 : ¬ (S_IFLNK = S_IFREG) := by decide
      simp only [h1, h2, if_false, if_true, htg, Option.getD_some, padding, Nat.zero_mod, ← h.lnkMode hl]
      simp only [hnr, hl, if_false, if_true]
      rfl
  | false =>
    have hwh : (wentryOf img n).hardLink = false := hh
    have hxs : (xsOf img n).reverse = img.xattr n.path := by simp [xsOf, hh]
    by_cases hreg : fmt n.mode = S_IFREG
    · -- regular file: header, data, padding
      rw [if_pos hreg] at hb
      subst hb
      have hU := h.contentLen
      refine ⟨⟨joinSlash n.path, n.mode, false, n.uid, n.gid, n.modTime, (img.content n.path).length, none,
        some ⟨img.content n.path, zeros (padding (img.content n.path).length) ++ rest, 0, .eof⟩, 0, 0, img.xattr n.path⟩,
        zeros (padding (img.content n.path).length) ++ rest, padding (img.content n.path).length, ?_, ?_, ?_⟩
      · have h3 : ¬ (S_IFREG = S_IFCHR ∨ S_IFREG = S_IFBLK) := by decide
        have h4 : ¬ (S_IFREG = S_IFLNK) := by decide
        simp only [IterEntry.view, viewOf, hh, hreg, h3, h4, if_true, if_false, Option.map_some, Bool.false_eq_true]
      · exact istreamSkip_exact _ _ _ (zeros_length _)
      · intro f s0 skip acc hs
        rw [iterLoop, hs]; dsimp only []; rw [List.append_assoc, hrt]
        simp only [decodedOf, hwh, Bool.false_eq_true, if_false, Option.getD_some, hcan, hxs]
        have hwm : (wentryOf img n).mode = n.mode := rfl
        have h4 : ¬ (S_IFREG = S_IFLNK) := by decide
        have h5 : ¬ (S_IFREG = S_IFCHR ∨ S_IFREG = S_IFBLK) := by decide
        have hws : (wentryOf img n).size = (img.content n.path).length := by
          simp only [wentryOf, hreg, h4, if_false, if_true]
        simp only [hwm, hreg, h4, h5, hws, if_true, if_false, List.append_assoc, expandC_plain want hw _ _ hU, Nat.zero_add]
        rfl
    · -- everything else: the header only
      rw [if_neg hreg, List.append_nil] at hb
      subst hb
      refine ⟨⟨joinSlash n.path, n.mode, false, n.uid, n.gid, n.modTime, 0, if fmt n.mode = S_IFLNK then n.target else none,
        none, if fmt n.mode = S_IFCHR ∨ fmt n.mode = S_IFBLK then (img.dev n.path).1 else 0,
        if fmt n.mode = S_IFCHR ∨ fmt n.mode = S_IFBLK then (img.dev n.path).2 else 0, img.xattr n.path⟩, rest, 0, ?_, istreamSkip_zero _, ?_⟩
      · simp only [IterEntry.view, viewOf, hh, hreg, if_false, Option.map_none, Bool.false_eq_true]
      · intro f s0 skip acc hs
        rw [iterLoop, hs]; dsimp only []; rw [hrt]
        simp only [decodedOf, hwh, Bool.false_eq_true, if_false, Option.getD_some, hcan, hxs]
        have hwm : (wentryOf img n).mode = n.mode := rfl
        have hm : (if fmt n.mode = S_IFLNK then S_IFLNK + 0o777 else n.mode) = n.mode := by
          split
          · rename_i hl; exact (h.lnkMode hl).symm
          · rfl
        have hp0 : padding 0 = 0 := by decide
        simp only [hwm, hm, hreg, if_false, hp0, Nat.add_zero]
        by_cases hl : fmt n.mode = S_IFLNK
        · obtain ⟨tg, htg, _, _⟩ := h.lnkTarget hl
          have hsz : (wentryOf img n).size = tg.length := by simp only [wentryOf, hl, if_true, htg, Option.getD_some]
          have hnd : ¬ (S_IFLNK = S_IFCHR ∨ S_IFLNK = S_IFBLK) := by decide
          simp only [hl, if_true, hsz, htg, Option.getD_some, List.take_length, hnd, if_false]
          rfl
        · by_cases hd : fmt n.mode = S_IFCHR ∨ fmt n.mode = S_IFBLK
          · simp only [hl, hd, if_true, if_false, wentryOf]
          · simp only [hl, hd, if_false]
            rfl

theorem isZeroBlock_zeros (k : Nat) : isZeroBlock (zeros k) = true := by
  unfold isZeroBlock zeros
  simp

/-- `terminate_archive`: two zero records end the archive -/
theorem readHeader_terminator : readHeaderWith {} (zeros 1024) = .eof := by
  unfold readHeaderWith
  have hlen : (zeros 1024).length = 1024 := zeros_length _
  have hsplit : zeros 1024 = zeros 512 ++ zeros 512 := by
    unfold zeros; rw [List.replicate_append_replicate]
  rw [hlen]
  show readHeaderLoop {} (3 + 1) (zeros 1024) {} 0 false = .eof
  rw [readHeaderLoop, if_neg (by rw [hlen]; omega), hsplit, List.take_left' (zeros_length _), List.drop_left' (zeros_length _)]
  simp only [isZeroBlock_zeros, if_true, Bool.false_eq_true, if_false]
  rw [readHeaderLoop, if_neg (by rw [zeros_length]; omega)]
  have h1 : (zeros 512).take 512 = zeros 512 := List.take_of_length_le (Nat.le_of_eq (zeros_length _))
  simp only [h1, isZeroBlock_zeros, if_true]

/-- the whole archive: the iterator reports exactly the nodes, in order, and then the end of the archive -/
theorem iterLoop_archive (img : ImgData) (want : Nat) (hw : 1 ≤ want) :
    ∀ (t : List TNode) (c f : Nat) (s0 : Bytes) (skip : Nat) (acc : List IterEntry), (∀ n ∈ t, NodeOK img n) →
      istreamSkip s0 skip = some (sqfs2tarLoop img t c) → t.length + 1 ≤ f →
      ∃ es, iterLoop {} want f s0 skip acc = (acc ++ es, .eof) ∧ es.map IterEntry.view = t.map (viewOf img) := by
  intro t
  induction t with
  | nil =>
    intro c f s0 skip acc _ hs hf
    obtain ⟨f', rfl⟩ : ∃ f', f = f' + 1 := ⟨f - 1, by simp at hf; omega⟩
    refine ⟨[], ?_, rfl⟩
    rw [iterLoop, hs]
    simp only [sqfs2tarLoop, readHeader_terminator, List.append_nil]
  | cons n t ih =>
    intro c f s0 skip acc hok hs hf
    obtain ⟨f', rfl⟩ : ∃ f', f = f' + 1 := ⟨f - 1, by simp at hf; omega⟩
    have hn := hok n (by simp)
    obtain ⟨hd, _, _, hbytes⟩ := entryBytes_some img n c hn
    obtain ⟨x, s1, skip1, hview, hdrop, hstep⟩ := iterLoop_node img n c want hw hn _ (sqfs2tarLoop img t (c + 1)) hbytes
    have hs' : istreamSkip s0 skip = some ((hd ++ (if fmt n.mode = S_IFREG then
        img.content n.path ++ zeros (padding (img.content n.path).length) else [])) ++ sqfs2tarLoop img t (c + 1)) := by
      rw [hs, sqfs2tarLoop, hbytes]; rfl
    rw [hstep f' s0 skip acc hs']
    obtain ⟨es, hes, hviews⟩ := ih (c + 1) f' s1 skip1 (acc ++ [x]) (fun m hm => hok m (List.mem_cons_of_mem _ hm)) hdrop
      (by simp at hf ⊢; omega)
    refine ⟨x :: es, ?_, ?_⟩
    · rw [hes, List.append_assoc]; rfl
    · simp only [List.map_cons, hview, hviews]

theorem sqfs2tarLoop_length (img : ImgData) : ∀ (t : List TNode) (c : Nat), (∀ n ∈ t, NodeOK img n) →
    512 * t.length + 1024 ≤ (sqfs2tarLoop img t c).length := by
  intro t
  induction t with
  | nil => intro c _; simp [sqfs2tarLoop, zeros_length]
  | cons n t ih =>
    intro c hok
    obtain ⟨hd, _, hlen, hbytes⟩ := entryBytes_some img n c (hok n (by simp))
    have := ih (c + 1) (fun m hm => hok m (List.mem_cons_of_mem _ hm))
    simp only [sqfs2tarLoop, hbytes, Option.getD_some, List.length_append, List.length_cons]
    omega

/-- **tar2sqfs's iterator on sqfs2tar's archive** reports exactly the nodes of the image -/
theorem iterate_sqfs2tar (img : ImgData) (t : List TNode) (hok : ∀ n ∈ t, NodeOK img n) :
    ∃ es, iterate (sqfs2tar img t) = (es, .eof) ∧ es.map IterEntry.view = t.map (viewOf img) := by
  unfold iterate iterateWith sqfs2tar
  have hl := sqfs2tarLoop_length img t 0 hok
  obtain ⟨es, h1, h2⟩ := iterLoop_archive img 512 (by omega) t 0 ((sqfs2tarLoop img t 0).length / 512 + 2)
    (sqfs2tarLoop img t 0) 0 [] hok (istreamSkip_zero _) (by omega)
  exact ⟨es, by simpa using h1, h2⟩

end Sqfs.Tar
