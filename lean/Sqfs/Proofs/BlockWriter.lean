/-
Helper lemmas for C08 (block writer).  The central device is the *abstract view* `Abs`: the history is a
list of entries each paired with the payload it stands for, and the output file is
`pre ++ payload₀ ++ payload₁ ++ …` — "every retained history entry lies inside the file and holds its
payload".  `write_data_block` appends to that list, `deduplicate_blocks` cuts it to a prefix that keeps at
least `file_start` entries.
-/
import Sqfs.Spec.BlockWriter
namespace Sqfs.BlockWriter
open Sqfs.Consts

/-! ### file primitives -/

theorem slice_append_mid (x y z : Bytes) : slice (x ++ y ++ z) x.length y.length = y := by
  simp [slice, List.append_assoc]

theorem slice_mid' (x y z : Bytes) (n m : Nat) (hn : n = x.length) (hm : m = y.length) :
    slice (x ++ y ++ z) n m = y := by
  subst hn hm; exact slice_append_mid x y z

theorem writeAt_end (f d : Bytes) : writeAt f f.length d = f ++ d := by
  unfold writeAt
  cases d with
  | nil => simp
  | cons a t => simp

theorem truncate_prefix (x y : Bytes) (n : Nat) (hn : n = x.length) : truncate (x ++ y) n = x := by
  subst hn; simp [truncate]

theorem readAt_ok (f : Bytes) (off n : Nat) (h : off + n ≤ f.length) : readAt f off n = some (slice f off n) := by
  unfold readAt
  by_cases hn : n = 0
  · simp [hn, slice]
  · simp [hn, h]

theorem slice_split (f : Bytes) (off d n : Nat) (hd : d ≤ n) :
    slice f off n = slice f off d ++ slice f (off + d) (n - d) := by
  unfold slice
  have : n = d + (n - d) := by omega
  conv => lhs; rw [this, List.take_add]
  simp [List.drop_drop]

theorem slice_length (f : Bytes) (off n : Nat) (h : off + n ≤ f.length) : (slice f off n).length = n := by
  simp [slice]; omega

/-- `check_file_range_equal` decides equality of the two ranges when both lie inside the file. -/
theorem rangeEqGo_spec (f : Bytes) : ∀ (fuel a b n : Nat), n ≤ fuel → a + n ≤ f.length → b + n ≤ f.length →
    rangeEqGo f fuel a b n = .ok (decide (slice f a n = slice f b n)) := by
  intro fuel
  induction fuel with
  | zero =>
    intro a b n hn _ _
    have : n = 0 := by omega
    subst this
    simp [rangeEqGo, slice]
  | succ fuel ih =>
    intro a b n hn ha hb
    unfold rangeEqGo
    by_cases h0 : n = 0
    · subst h0; simp [slice]
    · simp only [h0, if_false]
      have hd : min (scratchSize / 2) n ≤ n := Nat.min_le_right _ _
      have hpos : 0 < min (scratchSize / 2) n := by
        have : 0 < scratchSize / 2 := by decide
        omega
      generalize min (scratchSize / 2) n = d at hd hpos
      rw [readAt_ok f a d (by omega), readAt_ok f b d (by omega)]
      simp only []
      rw [slice_split f a d n hd, slice_split f b d n hd]
      have la : (slice f a d).length = d := slice_length f a d (by omega)
      have lb : (slice f b d).length = d := slice_length f b d (by omega)
      by_cases heq : slice f a d = slice f b d
      · have : (slice f a d != slice f b d) = false := by simp [heq]
        rw [this]
        simp only [Bool.false_eq_true, if_false]
        rw [ih (a + d) (b + d) (n - d) (by omega) (by omega) (by omega)]
        rw [heq]
        simp
      · have : (slice f a d != slice f b d) = true := by simp [heq]
        rw [this]
        simp only [if_true]
        congr 1
        symm
        rw [decide_eq_false_iff_not]
        intro h
        exact heq (List.append_inj_left h (by rw [la, lb]))

theorem checkFileRangeEqual_spec (f : Bytes) (a b n : Nat) (ha : a + n ≤ f.length) (hb : b + n ≤ f.length) :
    checkFileRangeEqual f a b n = .ok (decide (slice f a n = slice f b n)) :=
  rangeEqGo_spec f n a b n (Nat.le_refl _) ha hb

/-! ### history words -/

theorem mkWord_size (n flags : Nat) (h : n < 2 ^ 24) : mkWord n flags % 2 ^ 24 = n := by
  unfold mkWord
  split
  · exact Nat.mod_eq_of_lt h
  · rw [Nat.or_mod_two_pow]; simp [Nat.mod_eq_of_lt h]

theorem sameHash_iff (a b : Entry) : a.sameHash b = true ↔ a.word = b.word ∧ a.chk = b.chk := by
  simp [Entry.sameHash]

/-! ### the abstract view -/

/-- a history entry together with the payload it stands for -/
abbrev PE := Entry × Bytes

def bytesOf : List PE → Bytes
  | [] => []
  | p :: r => p.2 ++ bytesOf r

@[simp] theorem bytesOf_nil : bytesOf [] = [] := rfl
@[simp] theorem bytesOf_cons (p : PE) (r : List PE) : bytesOf (p :: r) = p.2 ++ bytesOf r := rfl
@[simp] theorem bytesOf_append (a b : List PE) : bytesOf (a ++ b) = bytesOf a ++ bytesOf b := by
  induction a with
  | nil => simp
  | cons p r ih => simp [ih, List.append_assoc]

def toBlk (p : PE) : Blk := ⟨p.1.word, p.1.chk, p.2⟩

theorem blkBytes_map (ps : List PE) : blkBytes (ps.map toBlk) = bytesOf ps := by
  induction ps with
  | nil => rfl
  | cons p r ih => simp [blkBytes, toBlk, ih]

/-- entry `k` starts where the payloads before it end, and its size field is its payload's length -/
def Offs (b : Nat) : List PE → Prop
  | [] => True
  | p :: r => p.1.offset = b ∧ p.1.size = p.2.length ∧ Offs (b + p.2.length) r

theorem Offs_append (b : Nat) (xs ys : List PE) :
    Offs b (xs ++ ys) ↔ Offs b xs ∧ Offs (b + (bytesOf xs).length) ys := by
  induction xs generalizing b with
  | nil => simp [Offs]
  | cons p r ih =>
    simp only [List.cons_append, Offs, ih, bytesOf_cons, List.length_append]
    constructor
    · rintro ⟨h1, h2, h3, h4⟩; exact ⟨⟨h1, h2, h3⟩, by rwa [Nat.add_assoc] at h4⟩
    · rintro ⟨⟨h1, h2, h3⟩, h4⟩; exact ⟨h1, h2, h3, by rwa [Nat.add_assoc]⟩

theorem Offs_take (b : Nat) (ps : List PE) (n : Nat) (h : Offs b ps) : Offs b (ps.take n) := by
  have := (Offs_append b (ps.take n) (ps.drop n)).1 (by rwa [List.take_append_drop])
  exact this.1

/-- offset of entry `k` -/
theorem Offs_getElem (b : Nat) (ps : List PE) (h : Offs b ps) (k : Nat) (hk : k < ps.length) :
    (ps[k]).1.offset = b + (bytesOf (ps.take k)).length ∧ (ps[k]).1.size = (ps[k]).2.length := by
  have hsplit : ps = ps.take k ++ ps[k] :: ps.drop (k + 1) := by
    rw [← List.drop_eq_getElem_cons hk, List.take_append_drop]
  have h2 := h
  rw [hsplit, Offs_append] at h2
  exact ⟨h2.2.1, h2.2.2.1⟩

/-- sizes recorded in the words = payload lengths -/
theorem Offs_sizes (b : Nat) (ps : List PE) (h : Offs b ps) :
    ((ps.map (·.1)).map Entry.size).sum = (bytesOf ps).length := by
  induction ps generalizing b with
  | nil => rfl
  | cons p r ih =>
    simp only [List.map_cons, List.sum_cons, bytesOf_cons, List.length_append]
    rw [h.2.1, ih _ h.2.2]

theorem Offs_drop (b : Nat) (ps : List PE) (n : Nat) (h : Offs b ps) :
    Offs (b + (bytesOf (ps.take n)).length) (ps.drop n) := by
  have := (Offs_append b (ps.take n) (ps.drop n)).1 (by rwa [List.take_append_drop])
  exact this.2

/-- two runs with equal words have payloads of equal lengths, block by block -/
theorem Offs_words_lengths (b1 b2 : Nat) (xs ys : List PE) (h1 : Offs b1 xs) (h2 : Offs b2 ys)
    (hw : xs.map (·.1.word) = ys.map (·.1.word)) : xs.map (·.2.length) = ys.map (·.2.length) := by
  induction xs generalizing ys b1 b2 with
  | nil => cases ys <;> simp_all
  | cons p r ih =>
    cases ys with
    | nil => simp at hw
    | cons q t =>
      simp only [List.map_cons, List.cons.injEq] at hw ⊢
      refine ⟨?_, ih _ _ t h1.2.2 h2.2.2 hw.2⟩
      rw [← h1.2.1, ← h2.2.1, Entry.size, Entry.size, hw.1]

theorem bytesOf_length (ps : List PE) : (bytesOf ps).length = (ps.map (·.2.length)).sum := by
  induction ps with
  | nil => rfl
  | cons p r ih => simp [ih]

/-- The abstract view of a writer state: `ps` pairs every history entry with its payload, and the file is
`pre` followed by exactly those payloads. -/
structure Abs (pre : Bytes) (s : State) (ps : List PE) : Prop where
  blocks : s.blocks = ps.map (·.1)
  file   : s.file = pre ++ bytesOf ps
  offs   : Offs pre.length ps
  fs     : s.fileStart ≤ ps.length
  ho     : s.hashOnly = false

theorem Abs.len {pre s ps} (h : Abs pre s ps) : s.blocks.length = ps.length := by
  rw [h.blocks, List.length_map]

theorem Abs.fileLen {pre s ps} (h : Abs pre s ps) : s.file.length = pre.length + (bytesOf ps).length := by
  rw [h.file, List.length_append]

theorem Abs_init (pre : Bytes) : Abs pre (init pre) [] := by
  refine ⟨rfl, by simp [init], trivial, Nat.le_refl _, ?_⟩
  simp [init, hasFlag]

/-! ### the hash-run comparison -/

def key (e : Entry) : Nat × UInt32 := (e.word, e.chk)
def pkey (p : PE) : Nat × UInt32 := (p.1.word, p.1.chk)

theorem sameHash_key (a b : Entry) : a.sameHash b = true ↔ key a = key b := by
  simp [Entry.sameHash, key]

theorem hashRun_spec (blocks : List Entry) (i fs : Nat) : ∀ rem j, i + j + rem ≤ blocks.length →
    fs + j + rem ≤ blocks.length →
    hashRun blocks i fs rem j =
      some (decide (((blocks.drop (i + j)).take rem).map key = ((blocks.drop (fs + j)).take rem).map key)) := by
  intro rem
  induction rem with
  | zero => intro j _ _; simp [hashRun]
  | succ rem ih =>
    intro j h1 h2
    have hi : i + j < blocks.length := by omega
    have hf : fs + j < blocks.length := by omega
    unfold hashRun
    rw [List.getElem?_eq_getElem hi, List.getElem?_eq_getElem hf]
    simp only []
    rw [List.drop_eq_getElem_cons hi, List.drop_eq_getElem_cons hf]
    simp only [List.take_succ_cons, List.map_cons, List.cons.injEq]
    by_cases hk : key blocks[i + j] = key blocks[fs + j]
    · rw [if_pos ((sameHash_key _ _).2 hk)]
      have := ih (j + 1) (by omega) (by omega)
      rw [show i + (j + 1) = i + j + 1 from rfl, show fs + (j + 1) = fs + j + 1 from rfl] at this
      rw [this]
      simp [hk]
    · have : ¬ (blocks[i + j].sameHash blocks[fs + j] = true) := fun h => hk ((sameHash_key _ _).1 h)
      rw [if_neg this]
      simp [hk]

theorem slice_run (pre : Bytes) (ps : List PE) (r n : Nat) :
    slice (pre ++ bytesOf ps) (pre.length + (bytesOf (ps.take r)).length) (bytesOf ((ps.drop r).take n)).length
      = bytesOf ((ps.drop r).take n) := by
  have e : pre ++ bytesOf ps
      = (pre ++ bytesOf (ps.take r)) ++ bytesOf ((ps.drop r).take n) ++ bytesOf ((ps.drop r).drop n) := by
    rw [List.append_assoc, List.append_assoc, ← bytesOf_append, ← bytesOf_append, List.take_append_drop,
      List.take_append_drop]
  rw [e]
  exact slice_mid' _ _ _ _ _ (by simp) rfl

/-- a run of `count` entries at index `r` that carries the same words and checksums *and* the same bytes as
the entries from `fs` on -/
def MatchAt (ps : List PE) (fs count r : Nat) : Prop :=
  ((ps.drop r).take count).map pkey = (ps.drop fs).map pkey ∧
  bytesOf ((ps.drop r).take count) = bytesOf (ps.drop fs)

theorem keys_lengths (b : Nat) (ps : List PE) (h : Offs b ps) (r fs count : Nat)
    (hk : ((ps.drop r).take count).map pkey = (ps.drop fs).map pkey) :
    (bytesOf ((ps.drop r).take count)).length = (bytesOf (ps.drop fs)).length := by
  rw [bytesOf_length, bytesOf_length]
  have hw : ((ps.drop r).take count).map (·.1.word) = (ps.drop fs).map (·.1.word) := by
    have := congrArg (List.map Prod.fst) hk
    simpa [List.map_map, pkey, Function.comp_def] using this
  rw [Offs_words_lengths _ _ _ _ (Offs_take _ _ count (Offs_drop b ps r h)) (Offs_drop b ps fs h) hw]

theorem blocks_keys (ps : List PE) (i n : Nat) :
    (((ps.map (·.1)).drop i).take n).map key = ((ps.drop i).take n).map pkey := by
  rw [← List.map_drop, ← List.map_take, List.map_map]
  rfl

theorem drop_take_all {α} (l : List α) (fs count : Nat) (hc : count = l.length - fs) :
    (l.drop fs).take count = l.drop fs := by
  apply List.take_of_length_le
  simp [hc]

/-- The outer loop of `deduplicate_blocks` returns the least index `r < file_start` at which the run of
`count` entries has the file's words, checksums and bytes — or `file_start` when there is none.  It never
fails: every range it compares lies inside the file. -/
theorem findMatch_spec (pre : Bytes) (s : State) (ps : List PE) (h : Abs pre s ps)
    (count : Nat) (hc : count = ps.length - s.fileStart)
    (locA sz : Nat) (hA : locA = pre.length + (bytesOf (ps.take s.fileStart)).length)
    (hsz : sz = (bytesOf (ps.drop s.fileStart)).length) :
    ∀ fuel i, i + fuel = s.fileStart →
      ∃ r, findMatch s count locA sz fuel i = .ok r ∧ i ≤ r ∧ r ≤ s.fileStart ∧
        (r < s.fileStart → MatchAt ps s.fileStart count r) ∧
        (∀ k, i ≤ k → k < r → ¬ MatchAt ps s.fileStart count k) := by
  have hfs := h.fs
  intro fuel
  induction fuel with
  | zero =>
    intro i hi
    refine ⟨i, rfl, Nat.le_refl _, by omega, fun hlt => by omega, fun k h1 h2 => by omega⟩
  | succ fuel ih =>
    intro i hi
    have hlen := h.len
    obtain ⟨b, hrun, hiff⟩ : ∃ b, hashRun s.blocks i s.fileStart count 0 = some b ∧
        (b = true ↔ ((ps.drop i).take count).map pkey = (ps.drop s.fileStart).map pkey) := by
      refine ⟨_, hashRun_spec s.blocks i s.fileStart count 0 (by omega) (by omega), ?_⟩
      rw [decide_eq_true_iff]
      simp only [Nat.add_zero]
      rw [drop_take_all s.blocks s.fileStart count (by omega)]
      rw [h.blocks, blocks_keys, ← List.map_drop, List.map_map]
      exact Iff.rfl
    -- the step taken when index `i` is not a match
    have skip : ¬ MatchAt ps s.fileStart count i →
        (∃ r, findMatch s count locA sz fuel (i + 1) = .ok r ∧ i ≤ r ∧ r ≤ s.fileStart ∧
          (r < s.fileStart → MatchAt ps s.fileStart count r) ∧
          (∀ k, i ≤ k → k < r → ¬ MatchAt ps s.fileStart count k)) := by
      intro hno
      obtain ⟨r, h1, h2, h3, h4, h5⟩ := ih (i + 1) (by omega)
      refine ⟨r, h1, by omega, h3, h4, ?_⟩
      intro k hk1 hk2
      by_cases hki : k = i
      · subst hki; exact hno
      · exact h5 k (by omega) hk2
    unfold findMatch
    rw [hrun]
    by_cases KE : ((ps.drop i).take count).map pkey = (ps.drop s.fileStart).map pkey
    · rw [hiff.2 KE]
      simp only [h.ho, Bool.false_eq_true, if_false]
      have hi' : i < ps.length := by omega
      have hbi : s.blocks[i]? = some (ps[i]).1 := by
        rw [h.blocks, List.getElem?_map, List.getElem?_eq_getElem hi']; rfl
      rw [hbi]
      simp only []
      have hoff := (Offs_getElem _ ps h.offs i hi').1
      have hlenEq := keys_lengths _ ps h.offs i s.fileStart count KE
      have hfileLen := h.fileLen
      have hsplitA : (bytesOf ps).length
          = (bytesOf (ps.take s.fileStart)).length + (bytesOf (ps.drop s.fileStart)).length := by
        rw [← List.length_append, ← bytesOf_append, List.take_append_drop]
      have hsplitB : (bytesOf ps).length
          = (bytesOf (ps.take i)).length + (bytesOf ((ps.drop i).take count)).length
            + (bytesOf ((ps.drop i).drop count)).length := by
        rw [← List.length_append, ← List.length_append, ← bytesOf_append, ← bytesOf_append,
          List.append_assoc, List.take_append_drop, List.take_append_drop]
      rw [checkFileRangeEqual_spec s.file locA _ sz (by omega) (by omega)]
      have sA : slice s.file locA sz = bytesOf (ps.drop s.fileStart) := by
        have := slice_run pre ps s.fileStart count
        rw [drop_take_all ps s.fileStart count hc] at this
        rw [h.file, hA, hsz]; exact this
      have sB : slice s.file (ps[i]).1.offset sz = bytesOf ((ps.drop i).take count) := by
        have := slice_run pre ps i count
        rw [h.file, hoff, hsz, ← hlenEq]; exact this
      rw [sA, sB]
      by_cases BE : bytesOf (ps.drop s.fileStart) = bytesOf ((ps.drop i).take count)
      · simp only [BE, decide_true]
        refine ⟨i, rfl, Nat.le_refl _, by omega, fun _ => ⟨KE, BE.symm⟩, fun k h1 h2 => by omega⟩
      · simp only [BE, decide_false]
        exact skip (fun hm => BE hm.2.symm)
    · have hb : b = false := by
        cases b with
        | false => rfl
        | true => exact absurd (hiff.1 rfl) KE
      rw [hb]
      exact skip (fun hm => KE hm.1)

/-! ### records of handed-out locations, and `deduplicate_blocks` -/

/-- location `loc` holds, inside the first `m` history entries, a run with words/checksums `K` and bytes `P` -/
def HoldsIn (m : Nat) (pre : Bytes) (ps : List PE) (loc : Nat) (K : List (Nat × UInt32)) (P : Bytes) : Prop :=
  ∃ a b c, ps.take m = a ++ b ++ c ∧ loc = pre.length + (bytesOf a).length ∧ b.map pkey = K ∧ bytesOf b = P

theorem HoldsIn_stable {m m' pre ps ps' loc K P} (h : HoldsIn m pre ps loc K P)
    (hp : ps'.take m = ps.take m) (hm : m ≤ m') : HoldsIn m' pre ps' loc K P := by
  obtain ⟨a, b, c, h1, h2, h3, h4⟩ := h
  refine ⟨a, b, c ++ (ps'.take m').drop m, ?_, h2, h3, h4⟩
  rw [← List.append_assoc, ← h1, ← hp]
  have : ps'.take m = (ps'.take m').take m := by rw [List.take_take, Nat.min_eq_left hm]
  rw [this, List.take_append_drop]

theorem HoldsIn_slice {m pre s ps loc K P} (ha : Abs pre s ps) (h : HoldsIn m pre ps loc K P) :
    slice s.file loc P.length = P := by
  obtain ⟨a, b, c, h1, h2, h3, h4⟩ := h
  have e : ps = a ++ b ++ c ++ ps.drop m := by rw [← h1, List.take_append_drop]
  rw [ha.file, e, h2, ← h4]
  simp only [bytesOf_append]
  have : pre ++ (bytesOf a ++ bytesOf b ++ bytesOf c ++ bytesOf (List.drop m ps))
      = (pre ++ bytesOf a) ++ bytesOf b ++ (bytesOf c ++ bytesOf (List.drop m ps)) := by
    simp [List.append_assoc]
  rw [this]
  exact slice_mid' _ _ _ _ _ (by simp) rfl

/-- a record inside the first `m ≤ |ps|` entries is a run at index `|a|` of the full history -/
theorem HoldsIn_run {m pre ps loc K P} (h : HoldsIn m pre ps loc K P) :
    ∃ r, r + K.length ≤ m ∧ r + K.length ≤ ps.length ∧ loc = pre.length + (bytesOf (ps.take r)).length ∧
      ((ps.drop r).take K.length).map pkey = K ∧ bytesOf ((ps.drop r).take K.length) = P := by
  obtain ⟨a, b, c, h1, h2, h3, h4⟩ := h
  have e : ps = a ++ (b ++ (c ++ ps.drop m)) := by
    rw [← List.append_assoc, ← List.append_assoc, ← h1, List.take_append_drop]
  have hl : (ps.take m).length = a.length + b.length + c.length := by rw [h1]; simp; omega
  have hKl : K.length = b.length := by rw [← h3]; simp
  have hml : (ps.take m).length ≤ m := by simp; omega
  have hml2 : (ps.take m).length ≤ ps.length := by simp; omega
  have hta : ps.take a.length = a := by
    conv => lhs; rw [e]
    exact List.take_left' rfl
  have hrun : (ps.drop a.length).take b.length = b := by
    conv => lhs; rw [e]
    rw [List.drop_left' rfl]
    exact List.take_left' rfl
  refine ⟨a.length, by omega, by omega, by rw [hta]; exact h2, ?_, ?_⟩
  · rw [hKl, hrun]; exact h3
  · rw [hKl, hrun]; exact h4


theorem bytesOf_take_mono (ps : List PE) (r k : Nat) (h : r ≤ k) :
    (bytesOf (ps.take r)).length ≤ (bytesOf (ps.take k)).length := by
  have : ps.take k = ps.take r ++ (ps.take k).drop r := by
    have := List.take_append_drop r (ps.take k)
    rw [List.take_take, Nat.min_eq_left h] at this
    exact this.symm
  rw [this, bytesOf_append, List.length_append]; omega

/-- what a `LAST` call is entitled to: the location holds the file's run; and it is at or before every
equal run among the first `file_start` entries unless deduplication is off -/
def DedupPost (pre : Bytes) (s : State) (ps : List PE) (flags : Nat) (ps' : List PE) (loc : Nat) : Prop :=
  let own := ps.drop s.fileStart
  (own ≠ [] → HoldsIn ps'.length pre ps' loc (own.map pkey) (bytesOf own)) ∧
  (own ≠ [] → hasFlag flags blkDontDeduplicate = false →
    ∀ loc', HoldsIn s.fileStart pre ps loc' (own.map pkey) (bytesOf own) → loc ≤ loc')

theorem dedup_spec (pre : Bytes) (s : State) (ps : List PE) (h : Abs pre s ps) (flags : Nat) :
    ∃ s' loc ps', deduplicateBlocks s flags = .ok (s', loc) ∧ Abs pre s' ps' ∧ s'.fileStart = s.fileStart ∧
      ps'.take s.fileStart = ps.take s.fileStart ∧ DedupPost pre s ps flags ps' loc := by
  have hfs := h.fs
  have hlen := h.len
  unfold deduplicateBlocks
  rw [if_neg (by omega)]
  simp only []
  by_cases hc0 : s.blocks.length - s.fileStart = 0
  · rw [if_pos hc0]
    have : ps.drop s.fileStart = [] := by
      apply List.drop_eq_nil_of_le; omega
    exact ⟨s, 0, ps, rfl, h, rfl, rfl, fun hne => absurd this hne, fun hne => absurd this hne⟩
  · rw [if_neg hc0]
    have hfs' : s.fileStart < ps.length := by omega
    have hb0 : s.blocks[s.fileStart]? = some (ps[s.fileStart]).1 := by
      rw [h.blocks, List.getElem?_map, List.getElem?_eq_getElem hfs']; rfl
    rw [hb0]
    simp only []
    have hoff0 := (Offs_getElem _ ps h.offs s.fileStart hfs').1
    -- the file's own location always holds its run
    have hown : HoldsIn ps.length pre ps (ps[s.fileStart]).1.offset ((ps.drop s.fileStart).map pkey)
        (bytesOf (ps.drop s.fileStart)) := by
      refine ⟨ps.take s.fileStart, ps.drop s.fileStart, [], ?_, hoff0, rfl, rfl⟩
      simp
    have hownne : ps.drop s.fileStart ≠ [] := by
      intro he
      have := congrArg List.length he
      simp at this; omega
    by_cases hdd : hasFlag flags blkDontDeduplicate = true
    · rw [if_pos hdd]
      exact ⟨s, _, ps, rfl, h, rfl, rfl, fun _ => hown, fun _ hno => by rw [hdd] at hno; cases hno⟩
    · rw [if_neg hdd]
      have hsz : ((s.blocks.drop s.fileStart).map Entry.size).sum = (bytesOf (ps.drop s.fileStart)).length := by
        rw [h.blocks, ← List.map_drop]
        exact Offs_sizes _ _ (Offs_drop _ ps s.fileStart h.offs)
      obtain ⟨r, hfind, _, hrle, hmatch, hmin⟩ :=
        findMatch_spec pre s ps h (s.blocks.length - s.fileStart) (by omega) (ps[s.fileStart]).1.offset
          (((s.blocks.drop s.fileStart).map Entry.size).sum) hoff0 hsz s.fileStart 0 (by omega)
      rw [hfind]
      simp only []
      have hr' : r < ps.length := by omega
      have hbr : s.blocks[r]? = some (ps[r]).1 := by
        rw [h.blocks, List.getElem?_map, List.getElem?_eq_getElem hr']; rfl
      rw [hbr]
      simp only []
      -- completeness: any equal run inside the first `file_start` entries starts at index ≥ r
      have hcomplete : ∀ loc', HoldsIn s.fileStart pre ps loc' ((ps.drop s.fileStart).map pkey)
          (bytesOf (ps.drop s.fileStart)) → (ps[r]).1.offset ≤ loc' := by
        intro loc' hh
        obtain ⟨k, hk1, hk2, hk3, hk4, hk5⟩ := HoldsIn_run hh
        have hKl : ((ps.drop s.fileStart).map pkey).length = s.blocks.length - s.fileStart := by
          simp; omega
        rw [hKl] at hk1 hk2 hk4 hk5
        have hm : MatchAt ps s.fileStart (s.blocks.length - s.fileStart) k := ⟨hk4, hk5⟩
        have hrk : r ≤ k := by
          by_cases hlt : k < r
          · exact absurd hm (hmin k (Nat.zero_le _) hlt)
          · omega
        rw [(Offs_getElem _ ps h.offs r hr').1, hk3]
        have := bytesOf_take_mono ps r k hrk
        omega
      by_cases hge : r ≥ s.fileStart
      · rw [if_pos hge]
        have : r = s.fileStart := by omega
        subst this
        exact ⟨s, _, ps, rfl, h, rfl, rfl, fun _ => hown, fun _ _ => hcomplete⟩
      · rw [if_neg hge]
        have hlt : r < s.fileStart := by omega
        have hm := hmatch hlt
        generalize hcount : s.blocks.length - s.fileStart = count at *
        generalize hused : (if count ≥ s.fileStart - r then r + count else s.fileStart) = used
        have hu1 : s.fileStart ≤ used := by subst hused; split <;> omega
        have hu2 : used ≤ ps.length := by subst hused; split <;> omega
        have hu3 : r + count ≤ used := by subst hused; split <;> omega
        obtain ⟨u, rfl⟩ : ∃ u, used = u + 1 := ⟨used - 1, by omega⟩
        simp only [Nat.add_sub_cancel]
        have hu0 : u < ps.length := by omega
        have hbl : s.blocks[u]? = some (ps[u]).1 := by
          rw [h.blocks, List.getElem?_map, List.getElem?_eq_getElem hu0]; rfl
        rw [hbl]
        simp only []
        have hoffl := Offs_getElem _ ps h.offs u hu0
        have hend : (ps[u]).1.offset + (ps[u]).1.size = pre.length + (bytesOf (ps.take (u + 1))).length := by
          rw [hoffl.1, hoffl.2, List.take_succ_eq_append_getElem hu0, bytesOf_append]
          simp; omega
        refine ⟨_, _, ps.take (u + 1), rfl, ?_, rfl, ?_, ?_, ?_⟩
        · -- Abs of the cut state
          refine ⟨?_, ?_, Offs_take _ _ _ h.offs, ?_, h.ho⟩
          · show s.blocks.take (u + 1) = (ps.take (u + 1)).map (·.1)
            rw [h.blocks, List.map_take]
          · show truncate s.file _ = pre ++ bytesOf (ps.take (u + 1))
            rw [hend, h.file]
            have e : pre ++ bytesOf ps = (pre ++ bytesOf (ps.take (u + 1))) ++ bytesOf (ps.drop (u + 1)) := by
              rw [List.append_assoc, ← bytesOf_append, List.take_append_drop]
            rw [e]
            exact truncate_prefix _ _ _ (by simp)
          · show s.fileStart ≤ (ps.take (u + 1)).length
            simp; omega
        · rw [List.take_take, Nat.min_eq_left hu1]
        · -- the matched run lies inside the retained history
          intro _
          refine ⟨ps.take r, (ps.drop r).take count, (ps.take (u + 1)).drop (r + count), ?_,
            (Offs_getElem _ ps h.offs r hr').1, hm.1, hm.2⟩
          rw [List.take_of_length_le (Nat.le_refl _), ← List.take_add]
          have : ps.take (r + count) = (ps.take (u + 1)).take (r + count) := by
            rw [List.take_take, Nat.min_eq_left hu3]
          rw [this, List.take_append_drop]
        · intro _ _; exact hcomplete

/-! ### the invariant of a run -/

def blkKeys (bs : List Blk) : List (Nat × UInt32) := bs.map (fun b => (b.word, b.chk))

theorem blkKeys_map (ps : List PE) : blkKeys (ps.map toBlk) = ps.map pkey := by
  simp [blkKeys, List.map_map, toBlk, pkey, Function.comp_def]

/-- entries below this index are never cut again -/
def sb (s : State) (opened : Bool) : Nat := if opened then s.fileStart else s.blocks.length

/-- the history key of the block a call stores -/
def ckey (c : Call) : Nat × UInt32 := (mkWord c.data.length c.flags, c.chk)

/-- `loose` = the stored calls made outside every file (fragment blocks), with the location returned: they lie
below the bound `sb` like the files' runs, so no later truncation reaches them. -/
structure Inv (pre : Bytes) (s : State) (ps : List PE) (opened : Bool) (acc : List Blk) (recs : List Rec)
    (loose : List (Nat × Call)) : Prop where
  abs  : Abs pre s ps
  cur  : opened = true → (ps.drop s.fileStart).map toBlk = acc
  recs : ∀ rc ∈ recs, HoldsIn (sb s opened) pre ps rc.loc (blkKeys rc.blks) (blkBytes rc.blks)
  loose : ∀ r ∈ loose, HoldsIn (sb s opened) pre ps r.1 [ckey r.2] r.2.data

/-- state after the `FIRST` test of `write_data_block` -/
def afterFirst (s : State) (c : Call) : State :=
  if hasFlag c.flags blkFirstBlock then { s with fileStart := s.blocks.length } else s

/-- state after the store step -/
def afterStore (s1 : State) (c : Call) : State :=
  if c.data.length != 0 && !hasFlag c.flags blkIsSparse then
    { s1 with blocks := s1.blocks ++ [⟨s1.file.length, mkWord c.data.length c.flags, c.chk⟩],
              file := writeAt s1.file s1.file.length c.data }
  else s1

theorem writeDataBlock_eq (s : State) (c : Call) :
    writeDataBlock s c.chk c.flags c.data =
      if hasFlag c.flags blkLastBlock then deduplicateBlocks (afterStore (afterFirst s c) c) c.flags
      else .ok (afterStore (afterFirst s c) c, (afterFirst s c).file.length) := rfl

theorem inv_first {pre s ps opened acc recs loose} (c : Call) (h : Inv pre s ps opened acc recs loose) :
    Inv pre (afterFirst s c) ps (opened || c.first) (if c.first then [] else acc) recs loose := by
  have hl := h.abs.len
  have hfs := h.abs.fs
  unfold afterFirst
  by_cases hf : c.first = true
  · have hf' : hasFlag c.flags blkFirstBlock = true := hf
    rw [if_pos hf']
    simp only [hf, Bool.or_true, if_true]
    have hsb : sb s opened ≤ s.blocks.length := by unfold sb; split <;> omega
    refine ⟨⟨h.abs.blocks, h.abs.file, h.abs.offs, ?_, h.abs.ho⟩, ?_, ?_, ?_⟩
    · show s.blocks.length ≤ ps.length; omega
    · intro _; show (ps.drop s.blocks.length).map toBlk = []
      rw [List.drop_eq_nil_of_le (by omega)]; rfl
    · intro rc hrc
      exact HoldsIn_stable (h.recs rc hrc) rfl hsb
    · intro r hr
      exact HoldsIn_stable (h.loose r hr) rfl hsb
  · have hf' : ¬ hasFlag c.flags blkFirstBlock = true := hf
    rw [if_neg hf']
    have : c.first = false := by simpa using hf
    simp only [this, Bool.or_false, Bool.false_eq_true, if_false]
    exact h


theorem inv_store {pre s ps opened acc recs loose} (c : Call) (h : Inv pre s ps opened acc recs loose)
    (hsz : c.data.length < 2 ^ 24) :
    ∃ ps', Inv pre (afterStore s c) ps' opened (acc ++ (if c.stored then [c.blk] else [])) recs loose ∧
      (afterStore s c).fileStart = s.fileStart ∧
      (c.stored = true → ps' = ps ++ [((⟨s.file.length, mkWord c.data.length c.flags, c.chk⟩ : Entry), c.data)]) := by
  have hl := h.abs.len
  have hfs := h.abs.fs
  unfold afterStore
  by_cases hst : c.stored = true
  · have hst' : (c.data.length != 0 && !hasFlag c.flags blkIsSparse) = true := hst
    rw [if_pos hst']
    simp only [hst, if_true]
    let e : Entry := ⟨s.file.length, mkWord c.data.length c.flags, c.chk⟩
    have hstab : ∀ {loc K P}, HoldsIn (sb s opened) pre ps loc K P →
        HoldsIn (sb { s with blocks := s.blocks ++ [e], file := writeAt s.file s.file.length c.data } opened) pre
          (ps ++ [(e, c.data)]) loc K P := by
      intro loc K P hh
      refine HoldsIn_stable hh ?_ ?_
      · apply List.take_append_of_le_length
        unfold sb; split <;> omega
      · unfold sb
        split
        · exact Nat.le_refl _
        · show s.blocks.length ≤ (s.blocks ++ [e]).length
          simp
    refine ⟨ps ++ [(e, c.data)], ⟨⟨?_, ?_, ?_, ?_, h.abs.ho⟩, ?_, ?_, ?_⟩, trivial, fun _ => rfl⟩
    · show s.blocks ++ [e] = (ps ++ [(e, c.data)]).map (·.1)
      rw [List.map_append, h.abs.blocks]; rfl
    · show writeAt s.file s.file.length c.data = pre ++ bytesOf (ps ++ [(e, c.data)])
      rw [writeAt_end, h.abs.file, bytesOf_append]; simp [List.append_assoc]
    · rw [Offs_append]
      refine ⟨h.abs.offs, ?_, ?_, trivial⟩
      · show s.file.length = _
        rw [h.abs.fileLen]
      · show mkWord c.data.length c.flags % 2 ^ 24 = c.data.length
        exact mkWord_size _ _ hsz
    · show s.fileStart ≤ (ps ++ [(e, c.data)]).length
      simp; omega
    · intro ho
      show ((ps ++ [(e, c.data)]).drop s.fileStart).map toBlk = acc ++ [c.blk]
      rw [List.drop_append_of_le_length hfs, List.map_append, h.cur ho]; rfl
    · intro rc hrc
      exact hstab (h.recs rc hrc)
    · intro r hr
      exact hstab (h.loose r hr)
  · have hst' : ¬ (c.data.length != 0 && !hasFlag c.flags blkIsSparse) = true := hst
    rw [if_neg hst']
    have : c.stored = false := by simpa using hst
    simp only [this, Bool.false_eq_true, if_false, List.append_nil]
    exact ⟨ps, h, trivial, fun hc => by simp at hc⟩


def nextOpened (opened : Bool) (c : Call) : Bool := if c.last then false else opened || c.first

def nextRecs (recs : List Rec) (c : Call) (acc' : List Blk) (loc : Nat) : List Rec :=
  if c.last && !acc'.isEmpty then recs ++ [⟨loc, acc'⟩] else recs

def nextLoose (loose : List (Nat × Call)) (opened : Bool) (c : Call) (loc : Nat) : List (Nat × Call) :=
  if c.outside opened && c.stored then loose ++ [(loc, c)] else loose

/-- One `write_data_block` call preserves the invariant, never fails, records the location it hands out, and
(completeness) hands out a location at or before every equal earlier file. -/
theorem write_spec {pre s ps opened acc recs loose} (c : Call) (h : Inv pre s ps opened acc recs loose)
    (hsz : c.data.length < 2 ^ 24) (hwf : c.last = true → (opened || c.first) = true) :
    ∃ s' loc ps', writeDataBlock s c.chk c.flags c.data = .ok (s', loc) ∧
      Inv pre s' ps' (nextOpened opened c) (fileStep acc c) (nextRecs recs c (fileStep acc c) loc)
        (nextLoose loose opened c loc) ∧
      (c.last = true → fileStep acc c ≠ [] → c.dontDedup = false →
         ∀ rc ∈ recs, rc.blks = fileStep acc c → loc ≤ rc.loc) := by
  have h1 := inv_first c h
  obtain ⟨ps2, h2, hfs2, hps2⟩ := inv_store c h1 hsz
  change Inv pre _ ps2 (opened || c.first) (fileStep acc c) recs loose at h2
  rw [writeDataBlock_eq]
  have hflen : (afterFirst s c).file.length = pre.length + (bytesOf ps).length := by
    rw [← h.abs.fileLen]; unfold afterFirst; split <;> rfl
  have hlen2 : c.stored = true → (afterStore (afterFirst s c) c).blocks.length = ps2.length := fun _ => h2.abs.len
  generalize afterStore (afterFirst s c) c = s2 at *
  generalize fileStep acc c = acc' at *
  by_cases hl : c.last = true
  · have hl' : hasFlag c.flags blkLastBlock = true := hl
    rw [if_pos hl']
    obtain ⟨s', loc, ps', heq, habs', hfs', hpre, hpost⟩ := dedup_spec pre s2 ps2 h2.abs c.flags
    have hop := hwf hl
    rw [hop] at h2
    have hcur : (ps2.drop s2.fileStart).map toBlk = acc' := h2.cur rfl
    have hK : blkKeys acc' = (ps2.drop s2.fileStart).map pkey := by rw [← hcur, blkKeys_map]
    have hB : blkBytes acc' = bytesOf (ps2.drop s2.fileStart) := by rw [← hcur, blkBytes_map]
    have hownne : acc' ≠ [] → ps2.drop s2.fileStart ≠ [] := by
      intro hne he; rw [he] at hcur; exact hne hcur.symm
    have hsb : sb s' (nextOpened opened c) = ps'.length := by
      simp [sb, nextOpened, hl, habs'.len]
    have hkeep : ∀ {loc K P}, HoldsIn (sb s2 true) pre ps2 loc K P → HoldsIn ps'.length pre ps' loc K P := by
      intro loc K P this
      simp only [sb, if_true] at this
      refine HoldsIn_stable this hpre ?_
      have := habs'.fs
      rw [hfs'] at this; exact this
    have hnl : nextLoose loose opened c loc = loose := by
      simp [nextLoose, Call.outside, hl]
    refine ⟨s', loc, ps', heq, ⟨habs', ?_, ?_, ?_⟩, ?_⟩
    · intro hf; simp [nextOpened, hl] at hf
    · rw [hsb]
      have hold : ∀ rc ∈ recs, HoldsIn ps'.length pre ps' rc.loc (blkKeys rc.blks) (blkBytes rc.blks) := by
        intro rc hrc
        exact hkeep (h2.recs rc hrc)
      intro rc hrc
      unfold nextRecs at hrc
      by_cases hne : acc' = []
      · simp [hne] at hrc; exact hold rc hrc
      · have : (c.last && !acc'.isEmpty) = true := by simp [hl, hne]
        rw [if_pos this, List.mem_append, List.mem_singleton] at hrc
        rcases hrc with hrc | hrc
        · exact hold rc hrc
        · subst hrc
          show HoldsIn ps'.length pre ps' loc (blkKeys acc') (blkBytes acc')
          rw [hK, hB]
          exact hpost.1 (hownne hne)
    · rw [hsb, hnl]
      intro r hr
      exact hkeep (h2.loose r hr)
    · intro _ hne hdd rc hrc hblk
      have := h2.recs rc hrc
      simp only [sb, if_true] at this
      rw [hblk, hK, hB] at this
      exact hpost.2 (hownne hne) hdd rc.loc this
  · have hl' : ¬ hasFlag c.flags blkLastBlock = true := hl
    rw [if_neg hl']
    have hlf : c.last = false := by simpa using hl
    refine ⟨s2, _, ps2, rfl, ?_, fun hc => absurd hc hl⟩
    have e1 : nextOpened opened c = (opened || c.first) := by simp [nextOpened, hlf]
    have e2 : ∀ loc, nextRecs recs c acc' loc = recs := by intro loc; simp [nextRecs, hlf]
    rw [e1, e2]
    refine ⟨h2.abs, h2.cur, h2.recs, ?_⟩
    intro r hr
    unfold nextLoose at hr
    by_cases hout : (c.outside opened && c.stored) = true
    · rw [if_pos hout, List.mem_append, List.mem_singleton] at hr
      rcases hr with hr | hr
      · exact h2.loose r hr
      · subst hr
        simp only [Bool.and_eq_true] at hout
        have hop : (opened || c.first) = false := by
          have := hout.1; simp [Call.outside] at this; simp [this.1]
        have hps := hps2 hout.2
        rw [hop]
        have hsb : sb s2 false = ps2.length := by simp [sb, hlen2 hout.2]
        rw [hsb]
        refine ⟨ps, [((⟨(afterFirst s c).file.length, mkWord c.data.length c.flags, c.chk⟩ : Entry), c.data)], [], ?_, hflen, rfl, by simp⟩
        rw [hps, List.append_nil]; exact List.take_of_length_le (Nat.le_refl _)
    · rw [if_neg hout] at hr
      exact h2.loose r hr


theorem wf_cons (opened : Bool) (c : Call) (cs : List Call) (h : wf opened (c :: cs) = true) :
    (c.last = true → (opened || c.first) = true) ∧ wf (nextOpened opened c) cs = true := by
  unfold wf at h
  unfold nextOpened
  by_cases hl : c.last = true
  · simp only [hl, if_true, Bool.and_eq_true] at h ⊢
    exact ⟨fun _ => h.1, h.2⟩
  · have hlf : c.last = false := by simpa using hl
    simp only [hlf, Bool.false_eq_true, if_false] at h ⊢
    exact ⟨fun hc => hc.elim, h⟩

/-- The whole run: never fails, keeps the invariant with every handed-out location recorded, and is
sharing-complete. -/
theorem run_spec {pre : Bytes} : ∀ (cs : List Call) {s : State} {ps : List PE} {opened : Bool} {acc : List Blk}
    {recs : List Rec} {loose : List (Nat × Call)}, Inv pre s ps opened acc recs loose → sizesOk cs → wf opened cs = true →
    ∃ s' locs ps' opened' acc', run s cs = .ok (s', locs) ∧
      Inv pre s' ps' opened' acc' (recs ++ recsOf acc cs locs) (loose ++ looseOf opened cs locs) ∧
      locs.length = cs.length ∧
      shareCompleteOk recs acc cs locs = true := by
  intro cs
  induction cs with
  | nil =>
    intro s ps opened acc recs loose h _ _
    exact ⟨s, [], ps, opened, acc, rfl, by simpa [recsOf, looseOf] using h, rfl, rfl⟩
  | cons c cs ih =>
    intro s ps opened acc recs loose h hsz hwf
    obtain ⟨hwf1, hwf2⟩ := wf_cons opened c cs hwf
    obtain ⟨s1, loc, ps1, hw, hinv1, hcomp⟩ := write_spec c h (hsz c (List.mem_cons_self ..)) hwf1
    obtain ⟨s', locs, ps', opened', acc', hr, hinv', hlen, hsc⟩ :=
      ih hinv1 (fun x hx => hsz x (List.mem_cons_of_mem _ hx)) hwf2
    refine ⟨s', loc :: locs, ps', opened', acc', ?_, ?_, by simp [hlen], ?_⟩
    · simp only [run, hw, hr]
    · have : recs ++ recsOf acc (c :: cs) (loc :: locs)
          = nextRecs recs c (fileStep acc c) loc ++ recsOf (fileStep acc c) cs locs := by
        simp only [recsOf, nextRecs]
        split <;> simp
      have this2 : loose ++ looseOf opened (c :: cs) (loc :: locs)
          = nextLoose loose opened c loc ++ looseOf (nextOpened opened c) cs locs := by
        simp only [looseOf, nextLoose, nextOpened]
        split <;> simp
      rw [this, this2]; exact hinv'
    · rw [shareCompleteOk, Bool.and_eq_true]
      refine ⟨?_, ?_⟩
      · split
        · rename_i hcond
          simp only [Bool.and_eq_true, Bool.not_eq_true', List.isEmpty_eq_false_iff] at hcond
          rw [List.all_eq_true]
          intro rc hrc
          rw [decide_eq_true_iff]
          intro hb
          exact hcomp hcond.1.1 hcond.1.2 hcond.2 rc hrc hb
        · rfl
      · unfold nextRecs at hsc; exact hsc

/-! ### from the invariant to the oracle predicates -/

theorem Inv_init (pre : Bytes) : Inv pre (init pre) [] false [] [] [] :=
  ⟨Abs_init pre, fun h => Bool.noConfusion h, fun _ h => (by cases h), fun _ h => (by cases h)⟩

theorem readback_of_recs (file : Bytes) : ∀ (cs : List Call) (acc : List Blk) (locs : List Nat),
    locs.length = cs.length →
    (∀ rc ∈ recsOf acc cs locs, slice file rc.loc (blkBytes rc.blks).length = blkBytes rc.blks) →
    readbackOk file (files acc cs) locs = true := by
  intro cs
  induction cs with
  | nil => intro acc locs hl _; cases locs with
    | nil => rfl
    | cons _ _ => simp at hl
  | cons c cs ih =>
    intro acc locs hl hrec
    cases locs with
    | nil => simp at hl
    | cons loc locs =>
      have hl' : locs.length = cs.length := by simpa using hl
      simp only [files]
      by_cases hlast : c.last = true
      · simp only [hlast, if_true, readbackOk, Bool.and_eq_true, beq_iff_eq]
        constructor
        · by_cases hne : fileStep acc c = []
          · rw [hne]; simp [blkBytes, slice]
          · apply hrec ⟨loc, fileStep acc c⟩
            simp [recsOf, hlast, hne]
        · apply ih _ _ hl'
          intro rc hrc
          apply hrec
          simp only [recsOf]
          split
          · exact List.mem_cons_of_mem _ hrc
          · exact hrc
      · have hlf : c.last = false := by simpa using hlast
        simp only [hlf, Bool.false_eq_true, if_false, readbackOk]
        apply ih _ _ hl'
        intro rc hrc
        apply hrec
        simp only [recsOf, hlf, Bool.false_and, Bool.false_eq_true, if_false]
        exact hrc

/-- from the two record lists to the oracle over every kept location -/
theorem holdsAll_of (file : Bytes) : ∀ (cs : List Call) (opened : Bool) (acc : List Blk) (locs : List Nat),
    locs.length = cs.length →
    (∀ rc ∈ recsOf acc cs locs, slice file rc.loc (blkBytes rc.blks).length = blkBytes rc.blks) →
    (∀ r ∈ looseOf opened cs locs, slice file r.1 r.2.data.length = r.2.data) →
    holdsAll file (claimsOf opened acc cs) locs = true := by
  intro cs
  induction cs with
  | nil => intro opened acc locs hl _ _; cases locs with
    | nil => rfl
    | cons _ _ => simp at hl
  | cons c cs ih =>
    intro opened acc locs hl hrec hloose
    cases locs with
    | nil => simp at hl
    | cons loc locs =>
      have hl' : locs.length = cs.length := by simpa using hl
      have hrec' : ∀ rc ∈ recsOf (fileStep acc c) cs locs,
          slice file rc.loc (blkBytes rc.blks).length = blkBytes rc.blks := by
        intro rc hrc
        apply hrec
        simp only [recsOf]
        split
        · exact List.mem_cons_of_mem _ hrc
        · exact hrc
      have hloose' : ∀ r ∈ looseOf (if c.last then false else opened || c.first) cs locs,
          slice file r.1 r.2.data.length = r.2.data := by
        intro r hr
        apply hloose
        simp only [looseOf]
        exact List.mem_append_right _ hr
      simp only [claimsOf]
      by_cases hlast : c.last = true
      · simp only [hlast, if_true, holdsAll, Bool.and_eq_true, beq_iff_eq]
        refine ⟨?_, ?_⟩
        · by_cases hne : fileStep acc c = []
          · rw [hne]; simp [blkBytes, slice]
          · apply hrec ⟨loc, fileStep acc c⟩
            simp [recsOf, hlast, hne]
        · have := ih false (fileStep acc c) locs hl' hrec'
          simp only [hlast, if_true] at hloose'
          exact this hloose'
      · have hlf : c.last = false := by simpa using hlast
        simp only [hlf, Bool.false_eq_true, if_false] at hloose' ⊢
        by_cases hout : (c.outside opened && c.stored) = true
        · simp only [hout, if_true, holdsAll, Bool.and_eq_true, beq_iff_eq]
          refine ⟨?_, ih _ _ locs hl' hrec' hloose'⟩
          apply hloose (loc, c)
          simp [looseOf, hout]
        · simp only [hout, Bool.false_eq_true, if_false, holdsAll]
          exact ih _ _ locs hl' hrec' hloose'

theorem wfS_wf : ∀ (cs : List Call) (opened : Bool), wfS opened cs = true → wf opened cs = true := by
  intro cs
  induction cs with
  | nil => intro _ _; rfl
  | cons c cs ih =>
    intro opened h
    unfold wfS at h
    unfold wf
    simp only [Bool.and_eq_true] at h
    by_cases hl : c.last = true
    · simp only [hl, if_true, Bool.and_eq_true] at h ⊢
      exact ⟨h.2.1, ih false h.2.2⟩
    · have hlf : c.last = false := by simpa using hl
      simp only [hlf, Bool.false_eq_true, if_false] at h ⊢
      exact ih _ h.2

/-- under the strengthened protocol every stored fragment block is a call outside every file -/
theorem fragBlocksOk_of (file : Bytes) : ∀ (cs : List Call) (opened : Bool) (locs : List Nat),
    locs.length = cs.length → wfS opened cs = true →
    (∀ r ∈ looseOf opened cs locs, slice file r.1 r.2.data.length = r.2.data) →
    fragBlocksOk file cs locs = true := by
  intro cs
  induction cs with
  | nil => intro opened locs hl _ _; cases locs with
    | nil => rfl
    | cons _ _ => simp at hl
  | cons c cs ih =>
    intro opened locs hl hwf hloose
    cases locs with
    | nil => simp at hl
    | cons loc locs =>
      have hl' : locs.length = cs.length := by simpa using hl
      unfold wfS at hwf
      simp only [Bool.and_eq_true] at hwf
      have hloose' : ∀ r ∈ looseOf (if c.last then false else opened || c.first) cs locs,
          slice file r.1 r.2.data.length = r.2.data := by
        intro r hr
        apply hloose
        simp only [looseOf]
        exact List.mem_append_right _ hr
      have hrest : fragBlocksOk file cs locs = true := by
        by_cases hlast : c.last = true
        · simp only [hlast, if_true, Bool.and_eq_true] at hwf hloose'
          exact ih false locs hl' hwf.2.2 hloose'
        · have hlf : c.last = false := by simpa using hlast
          simp only [hlf, Bool.false_eq_true, if_false] at hwf hloose'
          exact ih _ locs hl' hwf.2 hloose'
      simp only [fragBlocksOk, Bool.and_eq_true]
      refine ⟨?_, hrest⟩
      by_cases hfb : c.fragBlk = true ∧ c.stored = true
      · rw [if_pos hfb]
        have h1 := hwf.1
        rw [if_pos hfb.1] at h1
        simp only [Bool.and_eq_true, Bool.not_eq_true'] at h1
        rw [beq_iff_eq]
        apply hloose (loc, c)
        have hout : c.outside opened = true := by
          simp [Call.outside, h1.1.1, h1.1.2, h1.2]
        simp [looseOf, hout, hfb.2]
      · rw [if_neg hfb]

theorem slice_prefix (f : Bytes) (l n1 n2 : Nat) (h : n1 ≤ n2) : slice f l n1 = (slice f l n2).take n1 := by
  simp [slice, List.take_take, Nat.min_eq_left h]

end Sqfs.BlockWriter
