/-
C01 — every step of `sqfs_serialize_fstree` reads back: the inode from the reference the node is given, a directory's
listing from the position and with the size stored in its inode.
-/
import Sqfs.Model.EncTree
import Sqfs.Proofs.EncRaw
import Sqfs.Proofs.EncWf
import Sqfs.Proofs.EncInodeRT
import Sqfs.Proofs.EncDir
import Sqfs.Props.C03
namespace Sqfs.Enc
open Sqfs.Consts
open Sqfs.DirWriter (DEnt Run addEntry dirEnd dirEndGo encodeRun createInode createInodeCap dirSizeOf RunOk maxIndex)

/-! ### references of uncompressed metadata -/

/-! ### what `add_entry` lets through -/

theorem addAllEntries_spec : ∀ (ents : List (Bytes × Nat × Nat × Nat)) (des : List DEnt), addAllEntries ents = .ok des →
    ∀ e ∈ des, 1 ≤ e.name.length ∧ e.name.length ≤ 256 ∧ e.typ ≤ 7 ∧ ∃ x ∈ ents, e.inodeNum = x.2.1 ∧ e.inodeRef = x.2.2.1 := by
  intro ents
  induction ents with
  | nil => intro des h; simp only [addAllEntries, Except.ok.injEq] at h; subst h; simp
  | cons x rest ih =>
    intro des h
    obtain ⟨nm, n, r, m⟩ := x
    simp only [addAllEntries] at h
    cases ha : addEntry nm n r m with
    | unsupported => rw [ha] at h; cases h
    | argInvalid => rw [ha] at h; cases h
    | ok e0 =>
      rw [ha] at h
      simp only at h
      cases hr : addAllEntries rest with
      | error s => rw [hr] at h; cases h
      | ok l =>
        rw [hr] at h
        simp only [Except.ok.injEq] at h
        subst h
        intro e he
        rcases List.mem_cons.mp he with rfl | he
        · obtain ⟨_, h2, h3, _, _, _, h7⟩ := Sqfs.C03.add_entry_name_fits nm n r m e ha
          refine ⟨h2, h3, h7, (nm, n, r, m), List.mem_cons_self .., ?_, ?_⟩
          · unfold addEntry at ha; split at ha; cases ha; split at ha; cases ha; split at ha; cases ha; cases ha; rfl
          · unfold addEntry at ha; split at ha; cases ha; split at ha; cases ha; split at ha; cases ha; cases ha; rfl
        · obtain ⟨a, b, c, y, hy, d⟩ := ih l hr e he
          exact ⟨a, b, c, y, List.mem_cons_of_mem _ hy, d⟩

/-! ### the hypotheses on a node: "representable" -/

/-- the node's attributes lie within their C types (`tree_node_t`: `sqfs_u16 mode`, `sqfs_u32` for the rest), its mode
names the kind it is serialized as, the id table is in a state the serializer can have produced, and
* directory: the numbers/references handed to `add_entry` are a `sqfs_u32` / a 48-bit reference, the listing is
  shorter than 4 GiB;
* regular file: the block processor's inode is a file inode whose fields fit;
* others: device number and target length fit 32 bits. -/
structure NodeInOk (bs : Nat) (st : TreeSt) (n : NodeIn) : Prop where
  mode : n.attr.mode < 65536
  mtime : n.attr.mtime < 2 ^ 32
  inum : n.attr.inum < 2 ^ 32
  lc : n.attr.linkCount < 2 ^ 32
  xattr : n.attr.xattrIdx < 2 ^ 32
  ids : st.ids.length ≤ Sqfs.IdTable.limit ∧ st.ids.Nodup
  kind : match n.kind with
    | .dir ents => n.attr.mode / 4096 * 4096 = sIFDIR ∧ n.parentInum < 2 ^ 32
        ∧ (∀ e ∈ ents, e.2.1 < 2 ^ 32 ∧ e.2.2.1 < 2 ^ 48)
        ∧ (∀ des, addAllEntries ents = .ok des →
            listingSize rawCost (st.dirs.length / metaBlockSize * rawCost) (st.dirs.length % metaBlockSize) des + 3 < 2 ^ 32)
    | .reg inode => n.attr.mode / 4096 * 4096 = sIFREG ∧ inode.view.typeBits = sIFREG ∧ WfBody bs inode
    | .other devno target => devno < 2 ^ 32 ∧ target.length < 2 ^ 32
        ∧ ∀ i0, treeNodeToInode n.attr.mode n.attr.linkCount devno target = some i0 → n.attr.mode / 4096 * 4096 = i0.typeBits

/-! ### the common second half -/

theorem setIds_view (u g : Nat) (i : Inode) :
    (setIds u g i).view = { i.view with base := { i.view.base with uidIdx := u, gidIdx := g } } := by
  unfold setIds; rw [withBase_view]

theorem serializeStep_spec (bs : Nat) (st st' : TreeSt) (n : NodeIn) (i0 : Inode) (dirs later : Bytes)
    (hok : NodeInOk bs st n) (hbody : WfBody bs i0) (hmode : n.attr.mode / 4096 * 4096 = i0.typeBits)
    (h : serializeStep st n i0 dirs = .ok st') :
    ∃ ui gi, WfInode bs (setIds ui gi (serializeInode n.kind.isDir n.kind.isReg n.attr i0))
      ∧ st'.inodes = st.inodes ++ encInode (setIds ui gi (serializeInode n.kind.isDir n.kind.isReg n.attr i0))
      ∧ st'.dirs = dirs
      ∧ decInode bs ((st'.inodes ++ later).drop st.inodes.length)
          = .ok (setIds ui gi (serializeInode n.kind.isDir n.kind.isReg n.attr i0), later) := by
  unfold serializeStep at h
  simp only at h
  cases h1 : Sqfs.IdTable.step Sqfs.IdTable.limit st.ids n.uid with
  | none => rw [h1] at h; cases h
  | some r1 =>
    obtain ⟨ui, ids1⟩ := r1
    rw [h1] at h
    simp only at h
    cases h2 : Sqfs.IdTable.step Sqfs.IdTable.limit ids1 n.gid with
    | none => rw [h2] at h; cases h
    | some r2 =>
      obtain ⟨gi, ids2⟩ := r2
      rw [h2] at h
      simp only [Except.ok.injEq] at h
      subst h
      obtain ⟨a1, a2, _, a4, _⟩ := Sqfs.IdTable.step_spec _ _ _ _ _ hok.ids.1 hok.ids.2 h1
      obtain ⟨b1, b2, _, _, _⟩ := Sqfs.IdTable.step_spec _ _ _ _ _ a1 a4 h2
      have hl : Sqfs.IdTable.limit = 65535 := rfl
      have hwf := serialize_wf' bs n.kind.isDir n.kind.isReg n.attr ui gi i0 hbody ⟨hok.mode, hmode⟩ hok.mtime hok.inum hok.lc
        hok.xattr (by omega) (by omega)
      refine ⟨ui, gi, hwf, rfl, rfl, ?_⟩
      simp only [List.append_assoc, List.drop_left]
      exact decInode_encInode bs _ later hwf

theorem view_base (i : Inode) : i.view.base = i.base := by cases i <;> rfl

theorem base_setFileNlink (lc : Nat) (i : Inode) : (setFileNlink lc i).base = i.base := by
  cases i with
  | file b st fi fo sz blks => by_cases h : lc > 1 <;> simp [setFileNlink, h, makeExtended, Inode.base]
  | _ => rfl

theorem base_serializeInode (d r : Bool) (a : NodeAttr) (i0 : Inode) :
    (serializeInode d r a i0).base = { i0.base with mode := a.mode, mtime := a.mtime, inum := a.inum } := by
  unfold serializeInode setXattrIndex
  simp only
  have h1 : (if r = true then setFileNlink a.linkCount i0 else i0).base = i0.base := by
    split
    · exact base_setFileNlink _ _
    · rfl
  split <;> split <;> simp only [base_makeBasic, base_putXattr, base_makeExtended, base_withBase, h1]

theorem step_base (u g : Nat) (d r : Bool) (a : NodeAttr) (i0 : Inode) :
    (setIds u g (serializeInode d r a i0)).view.base.mode = a.mode
    ∧ (setIds u g (serializeInode d r a i0)).view.base.mtime = a.mtime
    ∧ (setIds u g (serializeInode d r a i0)).view.base.inum = a.inum := by
  rw [view_base]
  unfold setIds
  rw [base_withBase, base_serializeInode]
  exact ⟨rfl, rfl, rfl⟩

/-! ### directories -/

theorem toInode_typeBits (d : Sqfs.DirWriter.DirInode) : (DirInode.toInode d).view.typeBits = sIFDIR := by
  unfold DirInode.toInode; simp only; split <;> rfl

theorem setDirNlink_view_typeBits (lc : Nat) (i : Inode) : (setDirNlink lc i).view.typeBits = i.view.typeBits := by
  cases i <;> rfl

theorem view_typeBits (i : Inode) : i.view.typeBits = i.typeBits := by cases i <;> rfl

theorem createInode_spec (bs ref cnt xattr parent lc : Nat) (runs : List Run) (hlc : lc < 2 ^ 32)
    (hx : xattr < 2 ^ 32) (hpar : parent < 2 ^ 32)
    (hnames : ∀ r ∈ runs, ∃ first tl, r.ents = first :: tl ∧ 1 ≤ first.name.length ∧ first.name.length ≤ 256)
    (hsz : dirSizeOf runs + 3 < 2 ^ 32) :
    WfBody bs (setDirNlink lc (DirInode.toInode (createInode ref runs cnt 0 xattr parent)))
    ∧ (setDirNlink lc (DirInode.toInode (createInode ref runs cnt 0 xattr parent))).view.typeBits = sIFDIR
    ∧ ((setDirNlink lc (DirInode.toInode (createInode ref runs cnt 0 xattr parent))).isExt = false → xattr = NONE32)
    ∧ ∀ stream, openDir (setDirNlink lc (DirInode.toInode (createInode ref runs cnt 0 xattr parent))) stream
        = some ⟨stream, dirSizeOf runs + 3, 0, 0, 0⟩ := by
  unfold createInode createInodeCap
  simp only
  by_cases hext : (xattr ≠ 0xFFFFFFFF ∨ ref >>> 16 > 0xFFFFFFFF ∨ dirSizeOf runs > 0xFFFF - 3) ∨ cnt ≥ Sqfs.DirWriter.dirIndexThreshold
  · rw [if_pos hext]
    simp only [DirInode.toInode, if_true, setDirNlink, Sqfs.DirWriter.DirInode.indexCount, List.length_map, List.length_take]
    refine ⟨?_, ?_, ?_, ?_⟩
    · refine ⟨hlc, Nat.mod_lt _ (by decide), Nat.mod_lt _ (by decide), hpar, Nat.mod_lt _ (by decide), Nat.mod_lt _ (by decide), hx, ?_, ?_, ?_⟩
      · simp only [List.length_map, List.length_take, maxIndex]; omega
      · intro h0; omega
      · intro e he
        simp only [List.mem_map] at he
        obtain ⟨t, ⟨r, hr, rfl⟩, rfl⟩ := he
        have hrm : r ∈ runs := List.mem_of_mem_take hr
        obtain ⟨first, tl, hents, n1, n2⟩ := hnames r hrm
        refine ⟨Nat.mod_lt _ (by decide), Nat.mod_lt _ (by decide), ?_, ?_⟩ <;> simp only [hents] <;> omega
    · rfl
    · intro h; cases h
    · intro stream
      simp only [openDir]
      congr 2
      omega
  · rw [if_neg hext]
    simp only [DirInode.toInode, Bool.false_eq_true, if_false, setDirNlink]
    simp only [not_or, Nat.not_lt, ge_iff_le, Sqfs.DirWriter.dirIndexThreshold, Decidable.not_not] at hext
    obtain ⟨⟨hxx, _, hds⟩, _⟩ := hext
    refine ⟨⟨Nat.mod_lt _ (by decide), hlc, Nat.mod_lt _ (by decide), Nat.mod_lt _ (by decide), hpar⟩, ?_, ?_, ?_⟩
    · rfl
    · intro _; exact hxx
    · intro stream
      simp only [openDir]
      congr 2
      omega

/-- the inode built by `sqfs_dir_writer_create_inode` + link count fits its layout, and says where and how long the
listing is -/
theorem dirInodeOf_spec (bs dpos : Nat) (n : NodeIn) (des : List DEnt) (hlc : n.attr.linkCount < 2 ^ 32)
    (hx : n.attr.xattrIdx < 2 ^ 32) (hpar : n.parentInum < 2 ^ 32)
    (hnames : ∀ e ∈ des, 1 ≤ e.name.length ∧ e.name.length ≤ 256)
    (hsz : listingSize rawCost (dpos / metaBlockSize * rawCost) (dpos % metaBlockSize) des + 3 < 2 ^ 32) :
    WfBody bs (dirInodeOf dpos n des) ∧ (dirInodeOf dpos n des).view.typeBits = sIFDIR
    ∧ ((dirInodeOf dpos n des).isExt = false → n.attr.xattrIdx = NONE32)
    ∧ ∀ stream, openDir (dirInodeOf dpos n des) stream
        = some ⟨stream, listingSize rawCost (dpos / metaBlockSize * rawCost) (dpos % metaBlockSize) des + 3, 0, 0, 0⟩ := by
  have hruns := Sqfs.DirWriter.dirEndGo_runs_ok rawCost (des.length + 1) (dpos / metaBlockSize * rawCost) (dpos % metaBlockSize) 0 des
  have hflat := Sqfs.DirWriter.dirEndGo_flatten rawCost (des.length + 1) (dpos / metaBlockSize * rawCost) (dpos % metaBlockSize) 0 des (by omega)
  have hn : ∀ r ∈ dirEnd rawCost (dpos / metaBlockSize * rawCost) (dpos % metaBlockSize) des,
      ∃ first tl, r.ents = first :: tl ∧ 1 ≤ first.name.length ∧ first.name.length ≤ 256 := by
    intro r hr
    obtain ⟨first, tl, hents, _⟩ := hruns r hr
    have hfm : first ∈ des := by
      rw [← hflat]
      exact List.mem_flatten.mpr ⟨r.ents, List.mem_map.mpr ⟨r, hr, rfl⟩, by rw [hents]; exact List.mem_cons_self ..⟩
    exact ⟨first, tl, hents, hnames first hfm⟩
  exact createInode_spec bs _ des.length n.attr.xattrIdx n.parentInum n.attr.linkCount
    (dirEnd rawCost (dpos / metaBlockSize * rawCost) (dpos % metaBlockSize) des) hlc hx hpar hn hsz

theorem openDir_of_dir (i : Inode) (stream : Bytes) (h : i.view.typeBits = sIFDIR) :
    openDir i stream = some ⟨stream, i.view.nums.getD 1 0, 0, 0, 0⟩ := by
  cases i with
  | dir => rfl
  | dirExt => rfl
  | file => simp [Inode.view, sIFREG, sIFDIR] at h
  | fileExt => simp [Inode.view, sIFREG, sIFDIR] at h
  | slink => simp [Inode.view, sIFLNK, sIFDIR] at h
  | slinkExt => simp [Inode.view, sIFLNK, sIFDIR] at h
  | dev b c => cases c <;> simp [Inode.view, sIFCHR, sIFBLK, sIFDIR] at h
  | devExt b c => cases c <;> simp [Inode.view, sIFCHR, sIFBLK, sIFDIR] at h
  | ipc b c => cases c <;> simp [Inode.view, sIFIFO, sIFSOCK, sIFDIR] at h
  | ipcExt b c => cases c <;> simp [Inode.view, sIFIFO, sIFSOCK, sIFDIR] at h

/-- **Every step of the serializer reads back** (`Sqfs.C01.parse_serialize_partial`). -/
theorem serializeNode_readback (bs : Nat) (st st' : TreeSt) (n : NodeIn) (later : Bytes)
    (hn : NodeInOk bs st n) (h : serializeNode st n = .ok st') :
    ∃ i, WfInode bs i ∧ st'.inodes = st.inodes ++ encInode i
      ∧ decInode bs ((st'.inodes ++ later).drop st.inodes.length) = .ok (i, later)
      ∧ rawPos (rawRef st.inodes.length) = some st.inodes.length
      ∧ i.view.base.mode = n.attr.mode ∧ i.view.base.mtime = n.attr.mtime ∧ i.view.base.inum = n.attr.inum
      ∧ (1 ≤ n.attr.linkCount → i.view.nlink = n.attr.linkCount ∧ i.view.xattr = n.attr.xattrIdx)
      ∧ (∀ ents, n.kind = .dir ents → ∃ des, addAllEntries ents = .ok des ∧
          st'.dirs = st.dirs ++ encListing rawCost (st.dirs.length / metaBlockSize * rawCost) (st.dirs.length % metaBlockSize) des
          ∧ ∀ s, openDir i ((st'.dirs ++ later).drop st.dirs.length) = some s → readListing s = .ok (des.map DEnt.toEntry)) := by
  have hk := hn.kind
  unfold serializeNode at h
  cases hkind : n.kind with
  | dir ents =>
    rw [hkind] at h hk
    simp only at h hk
    obtain ⟨hm, hpar, hents, hsz⟩ := hk
    cases hae : addAllEntries ents with
    | error e => rw [hae] at h; cases h
    | ok des =>
      rw [hae] at h
      simp only at h
      have hspec := addAllEntries_spec ents des hae
      obtain ⟨w1, w2, w3, w4⟩ := dirInodeOf_spec bs st.dirs.length n des hn.lc hn.xattr hpar
        (fun e he => ⟨(hspec e he).1, (hspec e he).2.1⟩) (hsz des hae)
      have htb : n.attr.mode / 4096 * 4096 = (dirInodeOf st.dirs.length n des).typeBits := by rw [← view_typeBits, w2]; exact hm
      obtain ⟨ui, gi, s1, s2, s3, s4⟩ := serializeStep_spec bs st st' n _ _ later hn w1 htb h
      have hisd : n.kind.isDir = true ∧ n.kind.isReg = false := by rw [hkind]; exact ⟨rfl, rfl⟩
      rw [hisd.1, hisd.2] at s1 s2 s4
      -- the directory inode before `setDirNlink` (for `serialize_dir_view`)
      have hview : (serializeInode true false n.attr (dirInodeOf st.dirs.length n des)).view
          = wanted n.attr (dirInodeOf st.dirs.length n des).view := by
        obtain ⟨J, hJ⟩ : ∃ J, J = DirInode.toInode (createInode
            (((st.dirs.length / metaBlockSize * rawCost) <<< 16) ||| (st.dirs.length % metaBlockSize))
            (dirEnd rawCost (st.dirs.length / metaBlockSize * rawCost) (st.dirs.length % metaBlockSize) des) des.length 0
            n.attr.xattrIdx n.parentInum) := ⟨_, rfl⟩
        have hdef : dirInodeOf st.dirs.length n des = setDirNlink n.attr.linkCount J := by rw [hJ]; rfl
        have hJt : J.view.typeBits = sIFDIR := by rw [hJ]; exact toInode_typeBits _
        rw [hdef] at w3 ⊢
        have hx' : J.isExt = false → n.attr.xattrIdx = NONE32 := by
          intro hne; apply w3; cases J <;> first | rfl | cases hne
        rw [(serialize_dir_view n.attr J hJt hx').1]
        cases J <;> rfl
      obtain ⟨b1, b2, b3⟩ := step_base ui gi true false n.attr (dirInodeOf st.dirs.length n des)
      refine ⟨_, s1, s2, s4, rawPos_rawRef _, b1, b2, b3, ?_, ?_⟩
      · intro _; rw [setIds_view, hview]; exact ⟨rfl, rfl⟩
      · intro ents' he
        cases he
        refine ⟨des, hae, s3, ?_⟩
        intro s hs
        rw [s3, List.append_assoc, List.drop_left] at hs
        -- the size and position survive the second half
        have o1 := w4 (encListing rawCost (st.dirs.length / metaBlockSize * rawCost) (st.dirs.length % metaBlockSize) des ++ later)
        have hsame : openDir (setIds ui gi (serializeInode true false n.attr (dirInodeOf st.dirs.length n des)))
              (encListing rawCost (st.dirs.length / metaBlockSize * rawCost) (st.dirs.length % metaBlockSize) des ++ later)
            = openDir (dirInodeOf st.dirs.length n des)
              (encListing rawCost (st.dirs.length / metaBlockSize * rawCost) (st.dirs.length % metaBlockSize) des ++ later) := by
          have hv2 : (setIds ui gi (serializeInode true false n.attr (dirInodeOf st.dirs.length n des))).view.nums
              = (dirInodeOf st.dirs.length n des).view.nums := by rw [setIds_view, hview]; rfl
          have ht2 : (setIds ui gi (serializeInode true false n.attr (dirInodeOf st.dirs.length n des))).view.typeBits = sIFDIR := by
            rw [setIds_view, hview]; exact w2
          rw [openDir_of_dir _ _ ht2, openDir_of_dir _ _ w2, hv2]
        rw [hsame, o1] at hs
        simp only [Option.some.injEq] at hs
        subst hs
        apply readListing_encListing
        intro e he
        obtain ⟨a, b, c, x, hx, d1, d2⟩ := hspec e he
        obtain ⟨e1, e2⟩ := hents x hx
        exact ⟨a, by omega, by rw [d1]; exact e1, by omega, by rw [d2]; exact e2⟩
  | reg inode =>
    rw [hkind] at h hk
    simp only at h hk
    obtain ⟨hm, htb, hbody⟩ := hk
    have htb' : n.attr.mode / 4096 * 4096 = inode.typeBits := by rw [← view_typeBits, htb]; exact hm
    obtain ⟨ui, gi, s1, s2, s3, s4⟩ := serializeStep_spec bs st st' n inode st.dirs later hn hbody htb' h
    have hisd : n.kind.isDir = false ∧ n.kind.isReg = true := by rw [hkind]; exact ⟨rfl, rfl⟩
    rw [hisd.1, hisd.2] at s1 s2 s4
    obtain ⟨b1, b2, b3⟩ := step_base ui gi false true n.attr inode
    refine ⟨_, s1, s2, s4, rawPos_rawRef _, b1, b2, b3, ?_, ?_⟩
    · intro hl
      rw [setIds_view, serialize_file_view n.attr inode hl htb]
      exact ⟨rfl, rfl⟩
    · intro ents he; cases he
  | other devno target =>
    rw [hkind] at h hk
    simp only at h hk
    obtain ⟨hd, htl, hcons⟩ := hk
    cases ht : treeNodeToInode n.attr.mode n.attr.linkCount devno target with
    | none => rw [ht] at h; cases h
    | some i0 =>
      rw [ht] at h
      simp only at h
      have hbody : WfBody bs i0 := by
        unfold treeNodeToInode at ht
        simp only at ht
        have hl := hn.lc
        split at ht
        · cases ht; exact hl
        · split at ht
          · cases ht; exact hl
          · split at ht
            · cases ht; exact ⟨hl, htl, rfl⟩
            · split at ht
              · cases ht; exact ⟨hl, hd⟩
              · split at ht
                · cases ht; exact ⟨hl, hd⟩
                · cases ht
      obtain ⟨ui, gi, s1, s2, s3, s4⟩ := serializeStep_spec bs st st' n i0 st.dirs later hn hbody (hcons i0 ht) h
      have hisd : n.kind.isDir = false ∧ n.kind.isReg = false := by rw [hkind]; exact ⟨rfl, rfl⟩
      rw [hisd.1, hisd.2] at s1 s2 s4
      obtain ⟨b1, b2, b3⟩ := step_base ui gi false false n.attr i0
      refine ⟨_, s1, s2, s4, rawPos_rawRef _, b1, b2, b3, ?_, ?_⟩
      · intro _
        rw [setIds_view, (serialize_other n.attr devno target i0 ht).1]
        have hnl : i0.view.nlink = n.attr.linkCount := by
          unfold treeNodeToInode at ht
          simp only at ht
          split at ht
          · cases ht; rfl
          · split at ht
            · cases ht; rfl
            · split at ht
              · cases ht; rfl
              · split at ht
                · cases ht; rfl
                · split at ht
                  · cases ht; rfl
                  · cases ht
        exact ⟨rfl, rfl⟩
      · intro ents he; cases he

end Sqfs.Enc
