/-
The toy RLE codec of the C08/C02 harnesses meets the codec contract (`Codec.RoundTrip`): what it compressed, it
expands to the original.  So the fragment theorems, which hold for every codec with that contract, apply to
the codec the correspondence runs use — it is not merely assumed of it.
-/
import Sqfs.Model.ToyCodec
namespace Sqfs.ToyCodec
open Sqfs.FragDedup

theorem mem_takeWhile_sat {α} (p : α → Bool) : ∀ (t : List α) (x : α), x ∈ t.takeWhile p → p x = true := by
  intro t
  induction t with
  | nil => intro x hx; simp at hx
  | cons a r ih =>
    intro x hx
    rw [List.takeWhile_cons] at hx
    split at hx
    · rename_i hp
      rcases List.mem_cons.1 hx with rfl | h
      · exact hp
      · exact ih x h
    · simp at hx

theorem length_takeWhile_le' {α} (p : α → Bool) : ∀ (t : List α), (t.takeWhile p).length ≤ t.length := by
  intro t
  induction t with
  | nil => simp
  | cons a r ih =>
    rw [List.takeWhile_cons]
    split
    · simp; exact ih
    · simp

theorem take_takeWhile_all {α} (p : α → Bool) (t : List α) (n : Nat) (h : n ≤ (t.takeWhile p).length) :
    ∀ x ∈ t.take n, p x = true := by
  obtain ⟨rest, hr⟩ := List.takeWhile_prefix p (l := t)
  have : t.take n = (t.takeWhile p).take n := by
    conv => lhs; rw [← hr]
    exact List.take_append_of_le_length h
  intro x hx
  rw [this] at hx
  exact mem_takeWhile_sat p t x (List.mem_of_mem_take hx)

theorem u8_ofNat_toNat (k : Nat) (h : k < 256) : (UInt8.ofNat k).toNat = k := by
  simp [UInt8.toNat_ofNat', Nat.mod_eq_of_lt h]

theorem rleGo_expand (limit : Nat) : ∀ (fuel : Nat) (x : Bytes) (used : Nat), x.length ≤ fuel →
    used + x.length ≤ limit → expand limit (rleGo fuel x) used = some x := by
  intro fuel
  induction fuel with
  | zero =>
    intro x used h _
    have : x = [] := List.length_eq_zero_iff.1 (by omega)
    subst this; simp [rleGo, expand]
  | succ fuel ih =>
    intro x used hx hl
    cases x with
    | nil => simp [rleGo, expand]
    | cons b t =>
      simp only [rleGo]
      generalize hn : min (t.takeWhile (· == b)).length 254 = n
      have hn1 : n ≤ (t.takeWhile (· == b)).length := by omega
      have hn2 : n ≤ 254 := by omega
      have hnt : n ≤ t.length := Nat.le_trans hn1 (length_takeWhile_le' _ _)
      have htn : (UInt8.ofNat (n + 1)).toNat = n + 1 := u8_ofNat_toNat _ (by omega)
      have hne : UInt8.ofNat (n + 1) ≠ 0 := by
        intro h0
        have := congrArg UInt8.toNat h0
        rw [htn] at this; simp at this
      simp only [expand, hne, if_false, htn]
      simp only [List.length_cons] at hx hl
      rw [if_neg (by omega)]
      rw [ih (t.drop n) (used + (n + 1)) (by simp; omega) (by simp; omega)]
      simp only [Option.map_some, Option.some.injEq]
      have hall := take_takeWhile_all (· == b) t n hn1
      have htake : t.take n = List.replicate n b := by
        rw [List.eq_replicate_iff]
        refine ⟨by simp; omega, ?_⟩
        intro y hy
        have := hall y hy
        simpa using this
      rw [List.replicate_succ, List.cons_append, ← htake, List.take_append_drop]

/-- The toy codec meets the codec contract for blocks that fit the limit. -/
theorem toy_roundtrip (limit : Nat) (x y : Bytes) (hx : x.length ≤ limit) (h : compress x = some y) :
    expand limit y 0 = some x := by
  unfold compress at h
  simp only [] at h
  split at h
  · cases h
    exact rleGo_expand limit x.length x 0 (Nat.le_refl _) (by omega)
  · cases h


theorem codec_roundTrip (limit : Nat) : (codec limit).RoundTrip := by
  intro x y h
  simp only [codec] at h ⊢
  split at h
  · rename_i hx
    exact toy_roundtrip limit x y hx h
  · cases h

theorem ident_roundTrip : ident.RoundTrip := by
  intro x y h; simp [ident] at h

/-- the toy compressor only answers with something strictly smaller than its input, which has at most `limit` bytes -/
theorem codec_fits (limit : Nat) : ∀ x z, (codec limit).cmp x = some z → z.length ≤ limit := by
  intro x z h
  simp only [codec] at h
  split at h
  · rename_i hx
    unfold compress at h
    simp only [] at h
    split at h
    · cases h; omega
    · cases h
  · cases h

theorem ident_fits (limit : Nat) : ∀ x z, ident.cmp x = some z → z.length ≤ limit := by
  intro x z h; cases h

end Sqfs.ToyCodec
