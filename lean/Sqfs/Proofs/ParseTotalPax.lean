/-
Helper lemmas for C07: `read_pax_header` (framing, key/value split, handlers) never leaves the record
buffer and always stops.  The buffer is the record plus the NUL that `record_to_memory` appends; every
scan is bounded by a NUL at or after its start.
-/
import Sqfs.Proofs.ParseTotalTar
namespace Sqfs.ParseTotal

theorem isSpace_zero : isSpace 0 = false := by decide
theorem isDigit_zero : isDigit 0 = false := by decide

theorem strtolSkip_spec (buf : Bytes) (k : Nat) (hk : buf[k]? = some 0) : ∀ fuel i, i ≤ k → k - i + 1 ≤ fuel →
    ∃ j, strtolSkip buf fuel i = .ok j ∧ i ≤ j ∧ j ≤ k := by
  have hklt := getElem?_lt hk
  intro fuel
  induction fuel with
  | zero => intro i _ h; omega
  | succ f ih =>
    intro i hi hf
    obtain ⟨c, hc⟩ := get_some (buf := buf) (i := i) (by omega)
    simp only [strtolSkip, hc]
    by_cases hs : isSpace c = true
    · have hne : i ≠ k := by intro e; subst e; rw [hk] at hc; cases hc; simp [isSpace_zero] at hs
      simp only [hs, if_true]
      obtain ⟨j, h1, h2, h3⟩ := ih (i + 1) (by omega) (by omega)
      exact ⟨j, h1, by omega, h3⟩
    · simp only [hs, if_false]; exact ⟨i, rfl, Nat.le_refl _, hi⟩

theorem strtolDigits_spec (buf : Bytes) (k : Nat) (hk : buf[k]? = some 0) : ∀ fuel i acc, i ≤ k → k - i + 1 ≤ fuel →
    ∃ m e, strtolDigits buf fuel i acc = .ok (m, e) ∧ i ≤ e ∧ e ≤ k := by
  have hklt := getElem?_lt hk
  intro fuel
  induction fuel with
  | zero => intro i acc _ h; omega
  | succ f ih =>
    intro i acc hi hf
    obtain ⟨c, hc⟩ := get_some (buf := buf) (i := i) (by omega)
    simp only [strtolDigits, hc]
    by_cases hs : isDigit c = true
    · have hne : i ≠ k := by intro e; subst e; rw [hk] at hc; cases hc; simp [isDigit_zero] at hs
      simp only [hs, if_true]
      obtain ⟨m, e, h1, h2, h3⟩ := ih (i + 1) (acc * 10 + (c.toNat - 48)) (by omega) (by omega)
      exact ⟨m, e, h1, by omega, h3⟩
    · simp only [hs, if_false]; exact ⟨acc, i, rfl, Nat.le_refl _, hi⟩

/-- `strtol` on a buffer with a terminator at `k`: never past it; the end pointer is within `[start, k]` -/
theorem strtol10_spec (buf : Bytes) (k start : Nat) (hk : buf[k]? = some 0) (hs : start ≤ k) :
    ∃ v e, strtol10 buf start = .ok (v, e) ∧ start ≤ e ∧ e ≤ k := by
  have hklt := getElem?_lt hk
  unfold strtol10
  obtain ⟨i, h1, h2, h3⟩ := strtolSkip_spec buf k hk (buf.length + 1) start hs (by omega)
  simp only [h1]
  obtain ⟨s, hsg⟩ := get_some (buf := buf) (i := i) (by omega)
  simp only [hsg]
  have hj : (if s.toNat = 45 ∨ s.toNat = 43 then i + 1 else i) ≤ k := by
    by_cases hsign : s.toNat = 45 ∨ s.toNat = 43
    · simp only [hsign, if_true]
      have : i ≠ k := by
        intro e; subst e; rw [hk] at hsg; cases hsg
        rcases hsign with h | h <;> simp at h
      omega
    · simp only [hsign, if_false]; exact h3
  obtain ⟨d0, hd0⟩ := get_some (buf := buf) (i := if s.toNat = 45 ∨ s.toNat = 43 then i + 1 else i) (by omega)
  simp only [hd0]
  by_cases hd : isDigit d0 = true
  · simp only [hd, Bool.not_true, Bool.false_eq_true, if_false]
    obtain ⟨m, e, g1, g2, g3⟩ := strtolDigits_spec buf k hk (buf.length + 1) _ 0 hj (by omega)
    simp only [g1]
    refine ⟨_, e, rfl, ?_, g3⟩
    have : i ≤ (if s.toNat = 45 ∨ s.toNat = 43 then i + 1 else i) := by split <;> omega
    omega
  · simp only [hd, Bool.not_false, if_true]
    exact ⟨0, start, rfl, Nat.le_refl _, hs⟩

theorem scanKey_spec (buf : Bytes) (k : Nat) (hk : buf[k]? = some 0) : ∀ fuel i, i ≤ k → k - i + 1 ≤ fuel →
    ∃ q, scanKey buf fuel i = .ok q ∧ i ≤ q ∧ q ≤ k := by
  have hklt := getElem?_lt hk
  intro fuel
  induction fuel with
  | zero => intro i _ h; omega
  | succ f ih =>
    intro i hi hf
    obtain ⟨c, hc⟩ := get_some (buf := buf) (i := i) (by omega)
    simp only [scanKey, hc]
    by_cases hs : c.toNat = 0 ∨ c.toNat = 61
    · simp only [hs, if_true]; exact ⟨i, rfl, Nat.le_refl _, hi⟩
    · have hne : i ≠ k := by intro e; subst e; rw [hk] at hc; cases hc; simp at hs
      simp only [hs, if_false]
      obtain ⟨q, h1, h2, h3⟩ := ih (i + 1) (by omega) (by omega)
      exact ⟨q, h1, by omega, h3⟩

theorem cstr_safe (buf : Bytes) (k : Nat) (hk : buf[k]? = some 0) : ∀ fuel i, i ≤ k → k - i + 1 ≤ fuel →
    ∃ s, cstr buf fuel i = .ok s := by
  have hklt := getElem?_lt hk
  intro fuel
  induction fuel with
  | zero => intro i _ h; omega
  | succ f ih =>
    intro i hi hf
    obtain ⟨c, hc⟩ := get_some (buf := buf) (i := i) (by omega)
    simp only [cstr, hc]
    by_cases hz : c.toNat = 0
    · simp only [hz, if_true]; exact ⟨[], rfl⟩
    · have hne : i ≠ k := by intro e; subst e; rw [hk] at hc; cases hc; simp at hz
      simp only [hz, if_false]
      obtain ⟨s, h1⟩ := ih (i + 1) (by omega) (by omega)
      exact ⟨c :: s, by rw [h1]⟩

theorem skipSpaceTo_spec (buf : Bytes) (endIdx : Nat) (he : endIdx ≤ buf.length) : ∀ fuel i, i ≤ endIdx → endIdx - i + 1 ≤ fuel →
    ∃ p, skipSpaceTo buf endIdx fuel i = .ok p ∧ i ≤ p ∧ p ≤ endIdx := by
  intro fuel
  induction fuel with
  | zero => intro i _ h; omega
  | succ f ih =>
    intro i hi hf
    simp only [skipSpaceTo]
    by_cases hge : i ≥ endIdx
    · simp only [hge, if_true]; exact ⟨i, rfl, Nat.le_refl _, hi⟩
    · simp only [hge, if_false]
      obtain ⟨c, hc⟩ := get_some (buf := buf) (i := i) (by omega)
      simp only [hc]
      by_cases hs : isSpace c = true
      · simp only [hs, if_true]
        obtain ⟨p, h1, h2, h3⟩ := ih (i + 1) (by omega) (by omega)
        exact ⟨p, h1, by omega, h3⟩
      · simp only [hs, if_false]; exact ⟨i, rfl, Nat.le_refl _, hi⟩

theorem wr_spec {buf buf' : Bytes} {i : Nat} {c : UInt8} (h : wr buf i c = some buf') :
    buf'.length = buf.length ∧ buf'[i]? = some c ∧ ∀ j, j ≠ i → buf'[j]? = buf[j]? := by
  unfold wr at h
  split at h
  · rename_i hlt
    cases h
    refine ⟨by simp, by simp [hlt], fun j hj => ?_⟩
    rw [List.getElem?_set_ne (Ne.symm hj)]
  · cases h

theorem wr_some {buf : Bytes} {i : Nat} (c : UInt8) (h : i < buf.length) : ∃ b, wr buf i c = some b := by
  unfold wr; simp [h]

/-- what a successfully framed record guarantees to the handlers -/
structure FrameOK (endIdx line : Nat) (buf' : Bytes) (r : PaxRec) (next : Nat) : Prop where
  len : buf'.length = endIdx + 1
  nul : buf'[endIdx]? = some 0
  adv : line < next
  le : next ≤ endIdx
  /-- the key is terminated where the '=' was -/
  keyEnd : buf'[r.value - 1]? = some 0
  keyLe : r.key ≤ r.value - 1
  valPos : 1 ≤ r.value
  /-- the value is terminated by the NUL that replaced the record's newline -/
  valEnd : buf'[next - 1]? = some 0
  valLe : r.value ≤ next - 1
  valLen : r.value + r.valueLen = next - 1

theorem paxFrame_spec (buf : Bytes) (endIdx line : Nat) (hlen : buf.length = endIdx + 1)
    (hnul : buf[endIdx]? = some 0) (hl : line < endIdx) :
    match paxFrame buf endIdx line with
    | .oob => False
    | .spin => False
    | .fail _ => True
    | .frame buf' r next => FrameOK endIdx line buf' r next := by
  unfold paxFrame
  obtain ⟨len, ptr, h1, h2, h3⟩ := strtol10_spec buf endIdx line hnul (by omega)
  simp only [h1]
  obtain ⟨c, hc⟩ := get_some (buf := buf) (i := ptr) (by omega)
  simp only [hc]
  by_cases hbad : ptr = line ∨ (!isSpace c) = true ∨ len ≤ 0
  · simp only [hbad, if_true]
  · simp only [hbad, if_false]
    by_cases hov : len > ((endIdx : Int) - (line : Int))
    · simp only [hov, if_true]
    · simp only [hov, if_false]
      have hlenpos : 0 < len := by
        have : ¬ len ≤ 0 := fun h => hbad (Or.inr (Or.inr h))
        omega
      have hn : (len.toNat : Int) = len := Int.toNat_of_nonneg (by omega)
      have hn1 : 1 ≤ len.toNat := by omega
      have hn2 : line + len.toNat ≤ endIdx := by omega
      obtain ⟨buf1, hw1⟩ := wr_some (buf := buf) (i := line + len.toNat - 1) 0 (by omega)
      simp only [hw1]
      obtain ⟨l1, w1a, w1b⟩ := wr_spec hw1
      have hnul1 : buf1[endIdx]? = some 0 := by rw [w1b endIdx (by omega)]; exact hnul
      obtain ⟨p, g1, g2, g3⟩ := skipSpaceTo_spec buf1 endIdx (by omega) (buf1.length + 1) ptr h3 (by omega)
      simp only [g1]
      by_cases hp : p ≥ endIdx ∨ p - line ≥ len.toNat
      · simp only [hp, if_true]
      · simp only [hp, if_false]
        have hpk : p ≤ line + len.toNat - 1 := by omega
        obtain ⟨q, s1, s2, s3⟩ := scanKey_spec buf1 (line + len.toNat - 1) w1a (buf1.length + 1) p hpk (by omega)
        simp only [s1]
        obtain ⟨e, he⟩ := get_some (buf := buf1) (i := q) (by omega)
        simp only [he]
        by_cases hq : q = p ∨ e.toNat ≠ 61
        · simp only [hq, if_true]
        · simp only [hq, if_false]
          have hqne : q ≠ line + len.toNat - 1 := by
            intro e'; subst e'; rw [w1a] at he; cases he; simp at hq
          obtain ⟨buf2, hw2⟩ := wr_some (buf := buf1) (i := q) 0 (by omega)
          simp only [hw2]
          obtain ⟨l2, w2a, w2b⟩ := wr_spec hw2
          have hadd : q + 1 - 1 = q := by omega
          have hnext : line + len.toNat - 1 = (line + len.toNat) - 1 := rfl
          exact {
            len := by omega
            nul := by rw [w2b endIdx (by omega)]; exact hnul1
            adv := by omega
            le := hn2
            keyEnd := by show buf2[q + 1 - 1]? = some 0; rw [hadd]; exact w2a
            keyLe := by show p ≤ q + 1 - 1; omega
            valPos := by show 1 ≤ q + 1; omega
            valEnd := by rw [w2b _ (by omega)]; exact w1a
            valLe := by show q + 1 ≤ line + len.toNat - 1; omega
            valLen := by show q + 1 + (len.toNat - (q + 1 - line) - 1) = line + len.toNat - 1; omega }

theorem sparseMapLoop_safe (buf : Bytes) (k : Nat) (hk : buf[k]? = some 0) : ∀ fuel i acc, i ≤ k → k - i + 1 ≤ fuel →
    (sparseMapLoop buf fuel i acc).safe := by
  have hklt := getElem?_lt hk
  intro fuel
  induction fuel with
  | zero => intro i acc _ h; omega
  | succ f ih =>
    intro i acc hi hf
    simp only [sparseMapLoop]
    obtain ⟨p1, p2⟩ := parseU_safe_nul 10 buf i k true 0 0 hi hk
    cases hp : parseU 10 buf i none true 0 0 with
    | oob => rw [hp] at p1; exact p1.elim
    | spin => rw [hp] at p1; exact p1.elim
    | fail c => trivial
    | ok r =>
      obtain ⟨off, d1⟩ := r
      have hb := (p2 off d1 hp).2
      obtain ⟨c, hc⟩ := get_some (buf := buf) (i := i + d1) (by omega)
      simp only [hc]
      refine safe_ite (fun _ => by trivial) (fun hcomma => ?_)
      have hne : i + d1 ≠ k := by
        intro e; rw [e, hk] at hc; cases hc; simp at hcomma
      obtain ⟨q1, q2⟩ := parseU_safe_nul 10 buf (i + d1 + 1) k true 0 0 (by omega) hk
      cases hp2 : parseU 10 buf (i + d1 + 1) none true 0 0 with
      | oob => rw [hp2] at q1; exact q1.elim
      | spin => rw [hp2] at q1; exact q1.elim
      | fail c => trivial
      | ok r2 =>
        obtain ⟨cnt, d2⟩ := r2
        have hb2 := (q2 cnt d2 hp2).2
        obtain ⟨c2, hc2⟩ := get_some (buf := buf) (i := i + d1 + 1 + d2) (by omega)
        simp only [hc2]
        refine safe_ite (fun hcomma2 => ?_) (fun _ => by trivial)
        have hne2 : i + d1 + 1 + d2 ≠ k := by
          intro e; rw [e, hk] at hc2; cases hc2; simp at hcomma2
        exact ih _ _ (by omega) (by omega)

/-- a match that only renames the failure code keeps safety -/
theorem safe_of_cases {α β : Type} {r : R α} (hr : r.safe) (f : α → R β) (g : Nat → R β) (hf : ∀ a, (f a).safe)
    (hg : ∀ c, (g c).safe) :
    (match r with | .ok a => f a | .fail c => g c | .oob => .oob | .spin => .spin : R β).safe := by
  cases r with
  | ok a => exact hf a
  | fail c => exact hg c
  | oob => exact hr.elim
  | spin => exact hr.elim

/-- (kept as a name: the handlers' results are safe) -/
def OKst (r : R PaxOut) : Prop := r.safe

theorem okst_ite {c : Prop} [Decidable c] {a b : R PaxOut} (ha : c → OKst a) (hb : ¬ c → OKst b) :
    OKst (if c then a else b) := by
  by_cases h : c
  · simp only [h, if_true]; exact ha h
  · simp only [h, if_false]; exact hb h

theorem okst_fail (c : Nat) : OKst (.fail c) := trivial

theorem okst_ok {o : PaxOut} : OKst (.ok o) := trivial

theorem paxApply_safe (buf : Bytes) (r : PaxRec) (o : PaxOut) (k : Nat)
    (hkey : buf[r.value - 1]? = some 0) (hkl : r.key ≤ r.value - 1) (hvp : 1 ≤ r.value)
    (hk : buf[k]? = some 0) (hvl : r.value ≤ k) (hlen : r.value + r.valueLen = k) :
    OKst (paxApply buf r o) := by
  have hklt := getElem?_lt hk
  have hkeylt := getElem?_lt hkey
  unfold paxApply
  obtain ⟨key, hkeyv⟩ := cstr_safe buf (r.value - 1) hkey (buf.length + 1) r.key hkl (by omega)
  simp only [hkeyv]
  have hU := (parseU_safe_nul 10 buf r.value k true 0 0 hvl hk).1
  have hI := parseI_safe_nul buf r.value k true hvl hk
  obtain ⟨sv, hsv⟩ := cstr_safe buf k hk (buf.length + 1) r.value hvl (by omega)
  have hB := base64Decode_safe buf r.value r.valueLen r.valueLen (by omega)
  have hM := sparseMapLoop_safe buf k hk (buf.length + 1) r.value [] hvl (by omega)
  simp only [hsv]
  cases hpu : parseU 10 buf r.value none true 0 0 with
  | oob => rw [hpu] at hU; exact (hU : False).elim
  | spin => rw [hpu] at hU; exact (hU : False).elim
  | fail cu =>
    cases hpi : parseI buf r.value none true with
    | oob => rw [hpi] at hI; exact (hI : False).elim
    | spin => rw [hpi] at hI; exact (hI : False).elim
    | fail ci =>
      cases hpb : base64Decode buf r.value r.valueLen r.valueLen with
      | oob => rw [hpb] at hB; exact (hB : False).elim
      | spin => rw [hpb] at hB; exact (hB : False).elim
      | fail cb =>
        cases hpm : sparseMapLoop buf (buf.length + 1) r.value [] with
        | oob => rw [hpm] at hM; exact (hM : False).elim
        | spin => rw [hpm] at hM; exact (hM : False).elim
        | fail cm => repeat' (first | exact okst_ok | exact okst_fail _ | refine okst_ite (fun _ => ?_) (fun _ => ?_))
        | ok l => repeat' (first | exact okst_ok | exact okst_fail _ | refine okst_ite (fun _ => ?_) (fun _ => ?_))
      | ok vb =>
        cases hpm : sparseMapLoop buf (buf.length + 1) r.value [] with
        | oob => rw [hpm] at hM; exact (hM : False).elim
        | spin => rw [hpm] at hM; exact (hM : False).elim
        | fail cm => repeat' (first | exact okst_ok | exact okst_fail _ | refine okst_ite (fun _ => ?_) (fun _ => ?_))
        | ok l => repeat' (first | exact okst_ok | exact okst_fail _ | refine okst_ite (fun _ => ?_) (fun _ => ?_))
    | ok xi =>
      obtain ⟨vi, di⟩ := xi
      cases hpb : base64Decode buf r.value r.valueLen r.valueLen with
      | oob => rw [hpb] at hB; exact (hB : False).elim
      | spin => rw [hpb] at hB; exact (hB : False).elim
      | fail cb =>
        cases hpm : sparseMapLoop buf (buf.length + 1) r.value [] with
        | oob => rw [hpm] at hM; exact (hM : False).elim
        | spin => rw [hpm] at hM; exact (hM : False).elim
        | fail cm => repeat' (first | exact okst_ok | exact okst_fail _ | refine okst_ite (fun _ => ?_) (fun _ => ?_))
        | ok l => repeat' (first | exact okst_ok | exact okst_fail _ | refine okst_ite (fun _ => ?_) (fun _ => ?_))
      | ok vb =>
        cases hpm : sparseMapLoop buf (buf.length + 1) r.value [] with
        | oob => rw [hpm] at hM; exact (hM : False).elim
        | spin => rw [hpm] at hM; exact (hM : False).elim
        | fail cm => repeat' (first | exact okst_ok | exact okst_fail _ | refine okst_ite (fun _ => ?_) (fun _ => ?_))
        | ok l => repeat' (first | exact okst_ok | exact okst_fail _ | refine okst_ite (fun _ => ?_) (fun _ => ?_))
  | ok xu =>
    obtain ⟨vu, du⟩ := xu
    cases hpi : parseI buf r.value none true with
    | oob => rw [hpi] at hI; exact (hI : False).elim
    | spin => rw [hpi] at hI; exact (hI : False).elim
    | fail ci =>
      cases hpb : base64Decode buf r.value r.valueLen r.valueLen with
      | oob => rw [hpb] at hB; exact (hB : False).elim
      | spin => rw [hpb] at hB; exact (hB : False).elim
      | fail cb =>
        cases hpm : sparseMapLoop buf (buf.length + 1) r.value [] with
        | oob => rw [hpm] at hM; exact (hM : False).elim
        | spin => rw [hpm] at hM; exact (hM : False).elim
        | fail cm => repeat' (first | exact okst_ok | exact okst_fail _ | refine okst_ite (fun _ => ?_) (fun _ => ?_))
        | ok l => repeat' (first | exact okst_ok | exact okst_fail _ | refine okst_ite (fun _ => ?_) (fun _ => ?_))
      | ok vb =>
        cases hpm : sparseMapLoop buf (buf.length + 1) r.value [] with
        | oob => rw [hpm] at hM; exact (hM : False).elim
        | spin => rw [hpm] at hM; exact (hM : False).elim
        | fail cm => repeat' (first | exact okst_ok | exact okst_fail _ | refine okst_ite (fun _ => ?_) (fun _ => ?_))
        | ok l => repeat' (first | exact okst_ok | exact okst_fail _ | refine okst_ite (fun _ => ?_) (fun _ => ?_))
    | ok xi =>
      obtain ⟨vi, di⟩ := xi
      cases hpb : base64Decode buf r.value r.valueLen r.valueLen with
      | oob => rw [hpb] at hB; exact (hB : False).elim
      | spin => rw [hpb] at hB; exact (hB : False).elim
      | fail cb =>
        cases hpm : sparseMapLoop buf (buf.length + 1) r.value [] with
        | oob => rw [hpm] at hM; exact (hM : False).elim
        | spin => rw [hpm] at hM; exact (hM : False).elim
        | fail cm => repeat' (first | exact okst_ok | exact okst_fail _ | refine okst_ite (fun _ => ?_) (fun _ => ?_))
        | ok l => repeat' (first | exact okst_ok | exact okst_fail _ | refine okst_ite (fun _ => ?_) (fun _ => ?_))
      | ok vb =>
        cases hpm : sparseMapLoop buf (buf.length + 1) r.value [] with
        | oob => rw [hpm] at hM; exact (hM : False).elim
        | spin => rw [hpm] at hM; exact (hM : False).elim
        | fail cm => repeat' (first | exact okst_ok | exact okst_fail _ | refine okst_ite (fun _ => ?_) (fun _ => ?_))
        | ok l => repeat' (first | exact okst_ok | exact okst_fail _ | refine okst_ite (fun _ => ?_) (fun _ => ?_))

theorem paxLoop_safe (endIdx : Nat) : ∀ fuel buf line (o : PaxOut), buf.length = endIdx + 1 → buf[endIdx]? = some 0 →
    line ≤ endIdx → endIdx - line + 1 ≤ fuel → (paxLoop endIdx fuel buf line o).safe := by
  intro fuel
  induction fuel with
  | zero => intro buf line o _ _ _ h; omega
  | succ f ih =>
    intro buf line o hlen hnul hle hf
    simp only [paxLoop]
    refine safe_ite (fun _ => by trivial) (fun hlt => ?_)
    have hspec := paxFrame_spec buf endIdx line hlen hnul (by omega)
    cases hfr : paxFrame buf endIdx line with
    | oob => rw [hfr] at hspec; exact hspec.elim
    | spin => rw [hfr] at hspec; exact hspec.elim
    | fail c => trivial
    | frame buf' r next =>
      rw [hfr] at hspec
      have hok : FrameOK endIdx line buf' r next := hspec
      have a1 := paxApply_safe buf' r o (next - 1) hok.keyEnd hok.keyLe hok.valPos hok.valEnd hok.valLe hok.valLen
      simp only []
      cases hap : paxApply buf' r o with
      | oob => rw [hap] at a1; exact (a1 : False).elim
      | spin => rw [hap] at a1; exact (a1 : False).elim
      | fail c => trivial
      | ok o' =>
        have := hok.adv
        have := hok.le
        exact ih buf' next o' hok.len hok.nul hok.le (by omega)

/-- `read_pax_header` on **any** record: inside the `entsize + 1` byte buffer, and it returns -/
theorem readPaxHeader_safe (record : Bytes) : (readPaxHeader record).safe := by
  unfold readPaxHeader
  apply paxLoop_safe record.length (record.length + 1) (record ++ [0]) 0 {}
  · simp
  · simp
  · omega
  · omega

end Sqfs.ParseTotal
