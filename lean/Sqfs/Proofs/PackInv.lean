/-
Invariant framework for `packFiles` and the global (cross-file) lemmas behind `layout_follows_order`,
`dont_dedup_effect` and the fragment-block part of `dont_compress_effect`.
-/
import Sqfs.Proofs.PackStep
namespace Sqfs.Pack

/-! ## framework -/

section framework
variable (P : Params) (Inv : State → Prop) (Good : State → InFile → FileResult → Prop)
variable (hstep : ∀ σ f, Inv σ → Inv (packFile P σ f).1 ∧ Good (packFile P σ f).1 f (packFile P σ f).2)
variable (hmono : ∀ σ f g r, Inv σ → Good σ g r → Good (packFile P σ f).1 g r)
include hstep hmono

theorem packFiles_keeps (g : InFile) (r : FileResult) : ∀ (fs : List InFile) (σ : State), Inv σ → Good σ g r →
    Inv (packFiles P σ fs).1 ∧ Good (packFiles P σ fs).1 g r := by
  intro fs
  induction fs with
  | nil => intro σ hi hg; exact ⟨hi, hg⟩
  | cons f fs ih =>
    intro σ hi hg
    exact ih _ (hstep σ f hi).1 (hmono σ f g r hi hg)

/-- every result is `Good` in the final state -/
theorem packFiles_inv : ∀ (fs : List InFile) (σ : State), Inv σ →
    Inv (packFiles P σ fs).1 ∧
    ∀ i (h : i < fs.length), ∃ r, (packFiles P σ fs).2[i]? = some r ∧ Good (packFiles P σ fs).1 fs[i] r := by
  intro fs
  induction fs with
  | nil => intro σ hi; exact ⟨hi, fun i h => absurd h (by simp)⟩
  | cons f fs ih =>
    intro σ hi
    have h1 := hstep σ f hi
    have h2 := ih _ h1.1
    refine ⟨h2.1, ?_⟩
    intro i h
    cases i with
    | zero =>
      refine ⟨(packFile P σ f).2, by simp [packFiles], ?_⟩
      exact (packFiles_keeps P Inv Good hstep hmono f _ fs _ h1.1 h1.2).2
    | succ i =>
      obtain ⟨r, hr, hg⟩ := h2.2 i (by simpa using h)
      exact ⟨r, by simpa [packFiles] using hr, hg⟩

variable (Rel : InFile → FileResult → InFile → FileResult → Prop)
variable (hrel : ∀ σ g rg f, Inv σ → Good σ g rg → Rel g rg f (packFile P σ f).2)
include hrel

theorem packFiles_rel_later (g : InFile) (rg : FileResult) : ∀ (fs : List InFile) (σ : State), Inv σ → Good σ g rg →
    ∀ j (h : j < fs.length), ∃ r, (packFiles P σ fs).2[j]? = some r ∧ Rel g rg fs[j] r := by
  intro fs
  induction fs with
  | nil => intro σ _ _ j h; simp at h
  | cons f fs ih =>
    intro σ hi hg j h
    cases j with
    | zero => exact ⟨(packFile P σ f).2, by simp [packFiles], hrel σ g rg f hi hg⟩
    | succ j =>
      obtain ⟨r, hr, hR⟩ := ih _ (hstep σ f hi).1 (hmono σ f g rg hi hg) j (by simpa using h)
      exact ⟨r, by simpa [packFiles] using hr, hR⟩

/-- a relation between an earlier and a later file, established when the later one is packed -/
theorem packFiles_pairwise : ∀ (fs : List InFile) (σ : State), Inv σ →
    ∀ i j (hij : i < j) (hj : j < fs.length), ∃ ri rj, (packFiles P σ fs).2[i]? = some ri ∧ (packFiles P σ fs).2[j]? = some rj
      ∧ Rel (fs[i]'(by omega)) ri fs[j] rj := by
  intro fs
  induction fs with
  | nil => intro σ _ i j _ hj; simp at hj
  | cons f fs ih =>
    intro σ hi i j hij hj
    cases j with
    | zero => omega
    | succ j =>
      cases i with
      | zero =>
        have h1 := hstep σ f hi
        obtain ⟨r, hr, hR⟩ := packFiles_rel_later P Inv Good hstep hmono Rel hrel f _ fs _ h1.1 h1.2 j (by simpa using hj)
        exact ⟨_, r, by simp [packFiles], by simpa [packFiles] using hr, hR⟩
      | succ i =>
        obtain ⟨ri, rj, h1, h2, hR⟩ := ih _ (hstep σ f hi).1 i j (by omega) (by simpa using hj)
        exact ⟨ri, rj, by simpa [packFiles] using h1, by simpa [packFiles] using h2, hR⟩

end framework

/-! ## monotonicity of the state -/

theorem prefix_bytesOf_le {a b : List Stored} (h : a <+: b) : bytesOf a ≤ bytesOf b := by
  obtain ⟨t, rfl⟩ := h
  rw [bytesOf_append]; omega

theorem tailStep_hist_prefix {P : Params} {F : Flags} {t : Bytes} {σ σ' : State} {i o : Nat}
    (h : TailStep P F t σ σ' i o) : σ.hist <+: σ'.hist := by
  cases h with
  | hit => exact List.prefix_refl _
  | append => exact List.prefix_refl _
  | closeNew => exact List.prefix_append _ _
  | fresh => exact List.prefix_refl _

theorem afterBlocks_hist_prefix (P : Params) (σ : State) (f : InFile) : σ.hist <+: (afterBlocks P σ f).hist :=
  placeBlocks_prefix _ _ _ _

theorem packFile_hist_prefix (P : Params) (σ : State) (f : InFile) : σ.hist <+: (packFile P σ f).1.hist := by
  by_cases hne : f.data = []
  · rw [packFile_empty P σ f hne]; exact List.prefix_refl _
  · rcases (packFile_cases P σ f hne).2.2 with ⟨h, _⟩ | ⟨i, o, _, _, hts⟩
    · rw [h]; exact afterBlocks_hist_prefix P σ f
    · exact (afterBlocks_hist_prefix P σ f).trans (tailStep_hist_prefix hts)

/-! ## data blocks: where a file's blocks lie -/

/-- on-disk bytes referenced by the block words -/
def diskBytes (ws : List Word) : Nat := (ws.map Word.diskSize).sum

theorem diskBytes_append (a b : List Word) : diskBytes (a ++ b) = diskBytes a + diskBytes b := by
  simp [diskBytes]

theorem diskBytes_worked (l : List Worked) : diskBytes (l.map Worked.word) = bytesOf (l.filterMap Worked.stored?) := by
  induction l with
  | nil => rfl
  | cons w t ih =>
    cases w with
    | sparse n =>
      simp only [List.map_cons, List.filterMap_cons, Worked.stored?]
      simp only [diskBytes, List.map_cons, List.sum_cons, Worked.word, Word.diskSize] at ih ⊢
      omega
    | stored s =>
      simp only [List.map_cons, List.filterMap_cons, Worked.stored?, bytesOf_cons]
      simp only [diskBytes, List.map_cons, List.sum_cons, Worked.word, Stored.word, Word.diskSize] at ih ⊢
      omega

theorem dataWords_diskBytes (P : Params) (f : InFile) : diskBytes (dataWords P f) = bytesOf (mineOf P f) := by
  have := diskBytes_worked ((dataBlocksOf P.B f).map (workData P f.flags))
  simpa [dataWords, mineOf, List.map_map, Function.comp_def] using this

theorem packFile_diskBytes (P : Params) (σ : State) (f : InFile) :
    diskBytes (packFile P σ f).2.words = bytesOf (mineOf P f) := by
  by_cases hne : f.data = []
  · rw [packFile_empty P σ f hne]
    simp [diskBytes, mineOf, dataBlocksOf, fullBlocks, hne, bytesOf]
  · have hs := (packFile_shape P σ f hne _ rfl).2
    rcases hs with ⟨_, hw, _⟩ | ⟨_, _, _, hw, _⟩ | ⟨_, hw, _⟩
    · rw [hw, dataWords_diskBytes]
    · rw [hw, diskBytes_append, dataWords_diskBytes]; simp [diskBytes, Word.diskSize]
    · rw [hw, dataWords_diskBytes]

theorem bytesOf_take_add_le (l : List Stored) (i c : Nat) :
    bytesOf (l.take i) + bytesOf ((l.drop i).take c) ≤ bytesOf l := by
  have h1 : l = l.take i ++ ((l.drop i).take c ++ (l.drop i).drop c) := by
    rw [List.take_append_drop, List.take_append_drop]
  have h2 : bytesOf l = bytesOf (l.take i) + (bytesOf ((l.drop i).take c) + bytesOf ((l.drop i).drop c)) := by
    conv => lhs; rw [h1]
    rw [bytesOf_append, bytesOf_append]
  omega

/-- the file's blocks end inside the data area written so far -/
theorem packFile_end_le (P : Params) (σ : State) (f : InFile) :
    (packFile P σ f).2.start + diskBytes (packFile P σ f).2.words ≤ P.base + bytesOf (packFile P σ f).1.hist := by
  rw [packFile_diskBytes]
  by_cases hne : f.data = []
  · rw [packFile_empty P σ f hne]; simp [mineOf, dataBlocksOf, fullBlocks, hne, bytesOf]
  · obtain ⟨hstart, _, hcase⟩ := packFile_cases P σ f hne
    have hpre : (afterBlocks P σ f).hist <+: (packFile P σ f).1.hist := by
      rcases hcase with ⟨h, _⟩ | ⟨i, o, _, _, hts⟩
      · rw [h]; exact List.prefix_refl _
      · exact tailStep_hist_prefix hts
    have hle := prefix_bytesOf_le hpre
    rw [hstart]
    by_cases hm : mineOf P f = []
    · rw [hm, placeBlocks_nil]; simp [bytesOf]
    · obtain ⟨i, hs, hd, _, _, _⟩ := placeBlocks_spec P.base f.flags.dontDedup σ.hist (mineOf P f) hm
      rw [hs]
      have := bytesOf_take_add_le (placeBlocks P.base f.flags.dontDedup σ.hist (mineOf P f)).1 i (mineOf P f).length
      rw [hd] at this
      simp only [afterBlocks] at hle
      omega

/-- own (not shared) blocks start at the end of everything written before -/
theorem packFile_own_start (P : Params) (σ : State) (f : InFile) (hm : mineOf P f ≠ [])
    (hns : (packFile P σ f).2.shared = false) : (packFile P σ f).2.start = P.base + bytesOf σ.hist := by
  have hne : f.data ≠ [] := by
    intro e; apply hm; simp [mineOf, dataBlocksOf, fullBlocks, e]
  obtain ⟨hstart, hsh, _⟩ := packFile_cases P σ f hne
  obtain ⟨i, hs, _, _, hown, _⟩ := placeBlocks_spec P.base f.flags.dontDedup σ.hist (mineOf P f) hm
  rw [hsh] at hns
  obtain ⟨hi, hh⟩ := hown hns
  rw [hstart, hs, hh, hi, List.take_left]

theorem packFile_dontDedup_not_shared (P : Params) (σ : State) (f : InFile) (hdd : f.flags.dontDedup = true) :
    (packFile P σ f).2.shared = false := by
  by_cases hne : f.data = []
  · rw [packFile_empty P σ f hne]
  · obtain ⟨_, hsh, _⟩ := packFile_cases P σ f hne
    rw [hsh]
    by_cases hm : mineOf P f = []
    · rw [hm, placeBlocks_nil]
    · obtain ⟨i, _, _, _, _, h⟩ := placeBlocks_spec P.base f.flags.dontDedup σ.hist (mineOf P f) hm
      exact h hdd

/-- **Order / no sharing of data blocks**: if a later file owns its blocks, every earlier file's blocks end before
its first block. -/
theorem blocks_before (P : Params) (fs : List InFile) (i j : Nat) (hij : i < j) (hj : j < fs.length) :
    ∃ ri rj, (specPack P fs).files[i]? = some ri ∧ (specPack P fs).files[j]? = some rj ∧
      (rj.shared = false → diskBytes rj.words > 0 → ri.start + diskBytes ri.words ≤ rj.start)
      ∧ (fs[j].flags.dontDedup = true → rj.shared = false) := by
  rw [specPack_files]
  apply packFiles_pairwise P (fun _ => True)
    (fun σ _ r => r.start + diskBytes r.words ≤ P.base + bytesOf σ.hist)
    (fun σ f _ => ⟨trivial, packFile_end_le P σ f⟩)
    (fun σ f _ r _ h => Nat.le_trans h (Nat.add_le_add_left (prefix_bytesOf_le (packFile_hist_prefix P σ f)) _))
    (fun _ rg f r => (r.shared = false → diskBytes r.words > 0 → rg.start + diskBytes rg.words ≤ r.start)
        ∧ (f.flags.dontDedup = true → r.shared = false))
    ?_ fs {} trivial i j hij hj
  intro σ g rg f _ hg
  refine ⟨?_, packFile_dontDedup_not_shared P σ f⟩
  intro hns hpos
  have hm : mineOf P f ≠ [] := by
    intro e; rw [packFile_diskBytes, e] at hpos; simp [bytesOf] at hpos
  rw [packFile_own_start P σ f hm hns]
  exact hg

/-! ## fragments: where a file's tail lies -/

theorem tailOf_length (B : Nat) (d : Bytes) : (tailOf B d).length = d.length % B := by
  unfold tailOf
  rw [List.length_drop]
  by_cases hB : B = 0
  · subst hB; simp
  · have := Nat.div_add_mod d.length B
    have h2 : d.length / B * B = B * (d.length / B) := Nat.mul_comm _ _
    omega

/-- a fragment reference `(i, o)` of `n` bytes points into a written block or into the open block -/
def SlotOK (σ : State) (i o n : Nat) : Prop :=
  i < σ.frags.length ∨ (i = σ.frags.length ∧ ∃ fb, σ.openFrag = some fb ∧ o + n ≤ fb.data.length)

def ChunksOK (σ : State) : Prop := ∀ c ∈ σ.chunks, SlotOK σ c.index c.offset c.data.length

theorem slotOK_afterBlocks (P : Params) (σ : State) (f : InFile) (i o n : Nat) :
    SlotOK (afterBlocks P σ f) i o n ↔ SlotOK σ i o n := Iff.rfl

theorem tailStep_slot_mono {P : Params} {F : Flags} {t : Bytes} {σ σ' : State} {i o : Nat}
    (h : TailStep P F t σ σ' i o) (i' o' n : Nat) (hs : SlotOK σ i' o' n) : SlotOK σ' i' o' n := by
  cases h with
  | hit => exact hs
  | append fb ho hfit =>
    rcases hs with hs | ⟨hi, fb', hfb, hle⟩
    · exact Or.inl hs
    · right
      rw [ho] at hfb; cases hfb
      exact ⟨hi, _, rfl, by simp; omega⟩
  | closeNew fb ho hfit =>
    rcases hs with hs | ⟨hi, _⟩
    · left; simp; omega
    · left; simp; omega
  | fresh ho =>
    rcases hs with hs | ⟨_, fb', hfb, _⟩
    · exact Or.inl hs
    · rw [ho] at hfb; cases hfb

theorem tailStep_slot_new {P : Params} {F : Flags} {t : Bytes} {σ σ' : State} {i o : Nat}
    (h : TailStep P F t σ σ' i o) (hc : ChunksOK σ) : SlotOK σ' i o t.length := by
  cases h with
  | hit c hm hdc hdata hdd => exact hdata ▸ hc c hm
  | append fb ho hfit => exact Or.inr ⟨rfl, ⟨fb.data ++ t, fb.dontCompress || F.dontCompress⟩, rfl, by simp⟩
  | closeNew fb ho hfit => exact Or.inr ⟨by simp, ⟨t, F.dontCompress⟩, rfl, by simp⟩
  | fresh ho => exact Or.inr ⟨rfl, ⟨t, F.dontCompress⟩, rfl, by simp⟩

theorem tailStep_new_slot {P : Params} {F : Flags} {t : Bytes} {σ σ' : State} {i o : Nat}
    (h : TailStep P F t σ σ' i o) (hc : ChunksOK σ) : SlotOK σ' i o t.length ∧ ChunksOK σ' := by
  have hmono := tailStep_slot_mono h
  have hnew := tailStep_slot_new h hc
  refine ⟨hnew, ?_⟩
  cases h with
  | hit c hm hdc hdata hdd => exact hc
  | append fb ho hfit =>
    intro c hcm
    rcases List.mem_cons.1 hcm with rfl | hcm
    · exact hnew
    · exact hmono _ _ _ (hc c hcm)
  | closeNew fb ho hfit =>
    intro c hcm
    rcases List.mem_cons.1 hcm with rfl | hcm
    · exact hnew
    · exact hmono _ _ _ (hc c hcm)
  | fresh ho =>
    intro c hcm
    rcases List.mem_cons.1 hcm with rfl | hcm
    · exact hnew
    · exact hmono _ _ _ (hc c hcm)

/-- `Good` for fragment slots: the file's fragment reference covers `|data| % B` bytes of a block -/
def FragSlotGood (P : Params) (σ : State) (f : InFile) (r : FileResult) : Prop :=
  ∀ i o, r.frag = some (i, o) → SlotOK σ i o (f.data.length % P.B)

theorem fragSlot_step (P : Params) (σ : State) (f : InFile) (hi : ChunksOK σ) :
    ChunksOK (packFile P σ f).1 ∧ FragSlotGood P (packFile P σ f).1 f (packFile P σ f).2 := by
  by_cases hne : f.data = []
  · rw [packFile_empty P σ f hne]; exact ⟨hi, fun i o h => by simp at h⟩
  · rcases (packFile_cases P σ f hne).2.2 with ⟨h, hfr⟩ | ⟨i, o, _, hfr, hts⟩
    · rw [h]; exact ⟨hi, fun i o h' => by rw [hfr] at h'; cases h'⟩
    · have := tailStep_new_slot hts hi
      refine ⟨this.2, ?_⟩
      intro i' o' h'
      rw [hfr] at h'; cases h'
      rw [← tailOf_length]; exact this.1

theorem fragSlot_mono (P : Params) (σ : State) (f : InFile) (i o n : Nat) (h : SlotOK σ i o n) :
    SlotOK (packFile P σ f).1 i o n := by
  by_cases hne : f.data = []
  · rw [packFile_empty P σ f hne]; exact h
  · rcases (packFile_cases P σ f hne).2.2 with ⟨h', _⟩ | ⟨i', o', _, _, hts⟩
    · rw [h']; exact h
    · exact tailStep_slot_mono hts _ _ _ h

theorem tailStep_new_disjoint {P : Params} {F : Flags} {t : Bytes} {σ σ' : State} {b o' : Nat}
    (h : TailStep P F t σ σ' b o') (hdd : F.dontDedup = true) (a o n : Nat) (hs : SlotOK σ a o n) :
    a ≠ b ∨ o + n ≤ o' := by
  cases h with
  | hit c hm hdc hdata hd => rw [hdd] at hd; cases hd
  | append fb ho hfit =>
    rcases hs with hs | ⟨ha, fb', hfb, hle⟩
    · left; omega
    · right
      rw [ho] at hfb; cases hfb
      exact hle
  | closeNew fb ho hfit =>
    left
    rcases hs with hs | ⟨ha, _⟩ <;> omega
  | fresh ho =>
    rcases hs with hs | ⟨ha, fb', hfb, hle⟩
    · left; omega
    · rw [ho] at hfb; cases hfb

/-- **Own fragment slot**: the fragment of a `dont_deduplicate` file does not overlap the fragment of any
earlier file. -/
theorem frag_slot_disjoint (P : Params) (fs : List InFile) (i j : Nat) (hij : i < j) (hj : j < fs.length) :
    ∃ ri rj, (specPack P fs).files[i]? = some ri ∧ (specPack P fs).files[j]? = some rj ∧
      (fs[j].flags.dontDedup = true → ∀ a o b o', ri.frag = some (a, o) → rj.frag = some (b, o') →
        a ≠ b ∨ o + (fs[i]'(by omega)).data.length % P.B ≤ o') := by
  rw [specPack_files]
  apply packFiles_pairwise P ChunksOK (FragSlotGood P)
    (fun σ f hi => fragSlot_step P σ f hi)
    (fun σ f g r _ h i o hr => fragSlot_mono P σ f _ _ _ (h i o hr))
    (fun g rg f r => f.flags.dontDedup = true → ∀ a o b o', rg.frag = some (a, o) → r.frag = some (b, o') →
        a ≠ b ∨ o + g.data.length % P.B ≤ o')
    ?_ fs {} (fun c hc => by simp at hc) i j hij hj
  intro σ g rg f _ hg hdd a o b o' hra hrb
  have hne : f.data ≠ [] := by
    intro e; rw [packFile_empty P σ f e] at hrb; cases hrb
  rcases (packFile_cases P σ f hne).2.2 with ⟨_, hfr⟩ | ⟨i', o'', _, hfr, hts⟩
  · rw [hfr] at hrb; cases hrb
  · rw [hfr] at hrb; cases hrb
    exact tailStep_new_disjoint hts hdd a o _ (hg a o hra)

/-! ## `dont_compress`: the fragment block of such a tail is stored uncompressed -/

/-- fragment block `i` is stored raw, or it is the open block and already marked `DONT_COMPRESS` -/
def RawSlot (σ : State) (i : Nat) : Prop :=
  (∃ e, σ.frags[i]? = some e ∧ e.raw = true) ∨ (i = σ.frags.length ∧ ∃ fb, σ.openFrag = some fb ∧ fb.dontCompress = true)

def RawChunks (σ : State) : Prop := ∀ c ∈ σ.chunks, c.dontCompress = true → RawSlot σ c.index

theorem workFragBlock_raw (P : Params) (fb : FragBlock) (h : fb.dontCompress = true) : (workFragBlock P fb).raw = true := by
  simp [workFragBlock, encode, h]

theorem tailStep_raw_mono {P : Params} {F : Flags} {t : Bytes} {σ σ' : State} {i o : Nat}
    (h : TailStep P F t σ σ' i o) (k : Nat) (hs : RawSlot σ k) : RawSlot σ' k := by
  cases h with
  | hit => exact hs
  | append fb ho hfit =>
    rcases hs with hs | ⟨hk, fb', hfb, hdc⟩
    · exact Or.inl hs
    · right
      rw [ho] at hfb; cases hfb
      exact ⟨hk, _, rfl, by simp [hdc]⟩
  | closeNew fb ho hfit =>
    rcases hs with ⟨e, he, hr⟩ | ⟨hk, fb', hfb, hdc⟩
    · left
      refine ⟨e, ?_, hr⟩
      have hlt : k < σ.frags.length := by
        rcases Nat.lt_or_ge k σ.frags.length with h | h
        · exact h
        · rw [List.getElem?_eq_none_iff.2 h] at he; cases he
      simp only
      rw [List.getElem?_append_left hlt]; exact he
    · left
      rw [ho] at hfb; cases hfb
      refine ⟨⟨P.base + bytesOf σ.hist, (workFragBlock P fb).data.length, (workFragBlock P fb).raw⟩, ?_,
        workFragBlock_raw P fb hdc⟩
      simp only
      rw [hk, List.getElem?_append_right (Nat.le_refl _)]
      simp
  | fresh ho =>
    rcases hs with hs | ⟨_, fb', hfb, _⟩
    · exact Or.inl hs
    · rw [ho] at hfb; cases hfb

theorem tailStep_raw_new {P : Params} {F : Flags} {t : Bytes} {σ σ' : State} {i o : Nat}
    (h : TailStep P F t σ σ' i o) (hc : RawChunks σ) (hF : F.dontCompress = true) : RawSlot σ' i := by
  cases h with
  | hit c hm hdc hdata hdd => exact hc c hm (hdc.trans hF)
  | append fb ho hfit => exact Or.inr ⟨rfl, _, rfl, by simp [hF]⟩
  | closeNew fb ho hfit => exact Or.inr ⟨by simp, _, rfl, hF⟩
  | fresh ho => exact Or.inr ⟨rfl, _, rfl, hF⟩

theorem tailStep_raw_chunks {P : Params} {F : Flags} {t : Bytes} {σ σ' : State} {i o : Nat}
    (h : TailStep P F t σ σ' i o) (hc : RawChunks σ) : RawChunks σ' := by
  have hmono := tailStep_raw_mono h
  have hnew := tailStep_raw_new h hc
  cases h with
  | hit => exact hc
  | append fb ho hfit =>
    intro c hcm hdc
    rcases List.mem_cons.1 hcm with rfl | hcm
    · exact hnew hdc
    · exact hmono _ (hc c hcm hdc)
  | closeNew fb ho hfit =>
    intro c hcm hdc
    rcases List.mem_cons.1 hcm with rfl | hcm
    · exact hnew hdc
    · exact hmono _ (hc c hcm hdc)
  | fresh ho =>
    intro c hcm hdc
    rcases List.mem_cons.1 hcm with rfl | hcm
    · exact hnew hdc
    · exact hmono _ (hc c hcm hdc)

def RawGood (σ : State) (f : InFile) (r : FileResult) : Prop :=
  f.flags.dontCompress = true → ∀ i o, r.frag = some (i, o) → RawSlot σ i

theorem raw_step (P : Params) (σ : State) (f : InFile) (hi : RawChunks σ) :
    RawChunks (packFile P σ f).1 ∧ RawGood (packFile P σ f).1 f (packFile P σ f).2 := by
  by_cases hne : f.data = []
  · rw [packFile_empty P σ f hne]; exact ⟨hi, fun _ i o h => by simp at h⟩
  · rcases (packFile_cases P σ f hne).2.2 with ⟨h, hfr⟩ | ⟨i, o, _, hfr, hts⟩
    · rw [h]; exact ⟨hi, fun _ i o h' => by rw [hfr] at h'; cases h'⟩
    · refine ⟨tailStep_raw_chunks hts hi, ?_⟩
      intro hF i' o' h'
      rw [hfr] at h'; cases h'
      exact tailStep_raw_new hts hi hF

theorem raw_mono (P : Params) (σ : State) (f : InFile) (k : Nat) (h : RawSlot σ k) : RawSlot (packFile P σ f).1 k := by
  by_cases hne : f.data = []
  · rw [packFile_empty P σ f hne]; exact h
  · rcases (packFile_cases P σ f hne).2.2 with ⟨h', _⟩ | ⟨i', o', _, _, hts⟩
    · rw [h']; exact h
    · exact tailStep_raw_mono hts _ h

theorem closeOpen_raw (P : Params) (σ : State) (k : Nat) (h : RawSlot σ k) :
    ∃ e, (closeOpen P σ).frags[k]? = some e ∧ e.raw = true := by
  unfold closeOpen
  cases ho : σ.openFrag with
  | none =>
    rcases h with h | ⟨_, fb, hfb, _⟩
    · exact h
    · rw [ho] at hfb; cases hfb
  | some fb =>
    rcases h with ⟨e, he, hr⟩ | ⟨hk, fb', hfb, hdc⟩
    · have hlt : k < σ.frags.length := by
        rcases Nat.lt_or_ge k σ.frags.length with h | h
        · exact h
        · rw [List.getElem?_eq_none_iff.2 h] at he; cases he
      exact ⟨e, by simp only; rw [List.getElem?_append_left hlt]; exact he, hr⟩
    · rw [ho] at hfb; cases hfb
      refine ⟨⟨P.base + bytesOf σ.hist, (workFragBlock P fb).data.length, (workFragBlock P fb).raw⟩, ?_,
        workFragBlock_raw P fb hdc⟩
      simp only
      rw [hk, List.getElem?_append_right (Nat.le_refl _)]
      simp

/-- **`dont_compress`, fragment block**: the fragment block referenced by a `dont_compress` file is stored raw. -/
theorem dont_compress_frag_raw (P : Params) (fs : List InFile) (i : Nat) (h : i < fs.length)
    (hf : fs[i].flags.dontCompress = true) :
    ∃ r, (specPack P fs).files[i]? = some r ∧
      ∀ k o, r.frag = some (k, o) → ∃ e, (specPack P fs).frags[k]? = some e ∧ e.raw = true := by
  have := packFiles_inv P RawChunks RawGood (fun σ f hi => raw_step P σ f hi)
    (fun σ f g r _ hg hdc i o hr => raw_mono P σ f _ (hg hdc i o hr)) fs {} (fun c hc => by simp at hc)
  obtain ⟨r, hr, hg⟩ := this.2 i h
  refine ⟨r, by rw [specPack_files]; exact hr, ?_⟩
  intro k o hk
  exact closeOpen_raw P _ k (hg hf k o hk)

end Sqfs.Pack
