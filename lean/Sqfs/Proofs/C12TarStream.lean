/-
Helper lemmas for C12: the member stream of the tar iterator (model `Sqfs/Model/C12TarStream.lean`) inherits
script independence from the archive stream it wraps, and so do the head of `it_next` and a whole member run.
-/
import Sqfs.Proofs.IoXfrm
import Sqfs.Model.C12TarStream
namespace Sqfs.IoLoops
open Sqfs.IoLoops.Spec

/-- iterators over related archive streams that agree on every other field -/
def TItRel {σ τ : Type} (R : σ → τ → Prop) (a : TarIt σ) (b : TarIt τ) : Prop :=
  R a.stream b.stream ∧ a.state = b.state ∧ a.locked = b.locked ∧ a.recordSize = b.recordSize ∧
  a.fileSize = b.fileSize ∧ a.offset = b.offset ∧ a.padding = b.padding ∧ a.sparse = b.sparse ∧
  a.lastSparse = b.lastSparse ∧ a.compressed = b.compressed

/-- member streams over related iterators -/
def TRel {σ τ : Type} (R : σ → τ → Prop) (x : TarStrm σ) (y : TarStrm τ) : Prop :=
  TItRel R x.it y.it ∧ x.alive = y.alive ∧ x.state = y.state ∧ x.crashed = y.crashed

theorem tar_sim {σ τ : Type} {I : StreamI σ} {J : StreamI τ} {R : σ → τ → Prop} (hs : Sim I J R) :
    Sim (tarStream I) (tarStream J) (TRel R) where
  get := by
    intro x y want os hr hn
    obtain ⟨⟨xs, xst, xl, xr, xf, xo, xp, xsp, xls, xz⟩, xa, xstate, xc⟩ := x
    obtain ⟨⟨ys, yst, yl, yr, yf, yo, yp, ysp, yls, yz⟩, ya, ystate, yc⟩ := y
    simp only [TRel, TItRel] at hr
    obtain ⟨⟨hrs, rfl, rfl, rfl, rfl, rfl, rfl, rfl, rfl, rfl⟩, rfl, rfl, rfl⟩ := hr
    simp only [tarStream, tarGet]
    cases xc with
    | true => exact ⟨_, os, rfl, by simp [TRel, TItRel, hrs], hn⟩
    | false =>
      cases xa with
      | false => exact ⟨_, os, rfl, by simp [TRel, TItRel, hrs], hn⟩
      | true =>
        simp only [Bool.false_eq_true, if_false, Bool.not_true]
        by_cases hoff : xo ≥ xf
        · simp only [hoff, if_true]
          exact ⟨_, os, rfl, by simp [TRel, TItRel, tarEof, dropParent, hrs], hn⟩
        · simp only [hoff, if_false]
          generalize isSparseRegion xo xf xsp = r
          obtain ⟨sp, cnt⟩ := r
          simp only []
          by_cases h0 : cnt = 0
          · simp only [h0, if_true]
            exact ⟨_, os, rfl, by simp [TRel, TItRel, tarEof, dropParent, hrs], hn⟩
          · simp only [h0, if_false]
            generalize (if cnt > want then want else cnt) = diff
            cases sp with
            | true => exact ⟨_, os, rfl, by simp [TRel, TItRel, hrs], hn⟩
            | false =>
              simp only [Bool.false_eq_true, if_false]
              obtain ⟨s1, os1, hg, hr1, hn1⟩ := hs.get xs ys diff os hrs hn
              rw [hg]
              generalize J.get ys diff OS.full = jr at *
              obtain ⟨g, w, t1, o1⟩ := jr
              simp only at hr1 ⊢
              cases g with
              | ok => exact ⟨_, os1, rfl, by simp [TRel, TItRel, hr1], hn1⟩
              | eof => exact ⟨_, os1, rfl, by simp [TRel, TItRel, dropParent, hr1], hn1⟩
              | fail e => exact ⟨_, os1, rfl, by simp [TRel, TItRel, dropParent, hr1], hn1⟩
  pure := by
    intro y want osj
    obtain ⟨⟨ys, yst, yl, yr, yf, yo, yp, ysp, yls, yz⟩, ya, ystate, yc⟩ := y
    simp only [tarStream, tarGet]
    cases yc with
    | true => rfl
    | false =>
      cases ya with
      | false => rfl
      | true =>
        simp only [Bool.false_eq_true, if_false, Bool.not_true]
        by_cases hoff : yo ≥ yf
        · simp only [hoff, if_true]
        · simp only [hoff, if_false]
          generalize isSparseRegion yo yf ysp = r
          obtain ⟨sp, cnt⟩ := r
          simp only []
          by_cases h0 : cnt = 0
          · simp only [h0, if_true]
          · simp only [h0, if_false]
            generalize (if cnt > want then want else cnt) = diff
            cases sp with
            | true => rfl
            | false =>
              simp only [Bool.false_eq_true, if_false]
              rw [hs.pure ys diff osj]
              have hf := hs.pure ys diff OS.full
              generalize J.get ys diff OS.full = jr at *
              obtain ⟨g, w, t1, o1⟩ := jr
              cases g <;> rfl
  adv := by
    intro x y n hr
    obtain ⟨⟨xs, xst, xl, xr, xf, xo, xp, xsp, xls, xz⟩, xa, xstate, xc⟩ := x
    obtain ⟨⟨ys, yst, yl, yr, yf, yo, yp, ysp, yls, yz⟩, ya, ystate, yc⟩ := y
    simp only [TRel, TItRel] at hr
    obtain ⟨⟨hrs, rfl, rfl, rfl, rfl, rfl, rfl, rfl, rfl, rfl⟩, rfl, rfl, rfl⟩ := hr
    simp only [tarStream, tarAdv]
    cases xc <;> cases xa <;> cases xls <;> simp [TRel, TItRel, hrs, hs.adv _ _ _ hrs]
  bound := by
    intro x y hr
    obtain ⟨⟨_, _, _, _, h1, h2, _⟩, _⟩ := hr
    simp only [tarStream, h1, h2]

theorem istreamSkip_sim {σ τ : Type} {I : StreamI σ} {J : StreamI τ} {R : σ → τ → Prop} (hs : Sim I J R)
    (s : σ) (t : τ) (size : Nat) (os osj : OS) (hr : R s t) (hn : noHard os.sc = true) (hj : noHard osj.sc = true) :
    ∃ s' os', istreamSkip I s size os = ((istreamSkip J t size osj).1, s', os') ∧
      R s' (istreamSkip J t size osj).2.1 ∧ noHard os'.sc = true ∧ noHard (istreamSkip J t size osj).2.2.sc = true :=
  istreamSkipLoop_sim hs (size + 1) s t size os osj hr hn hj

theorem istreamRead_sim {σ τ : Type} {I : StreamI σ} {J : StreamI τ} {R : σ → τ → Prop} (hs : Sim I J R)
    (s : σ) (t : τ) (size : Nat) (os osj : OS) (hr : R s t) (hn : noHard os.sc = true) (hj : noHard osj.sc = true) :
    ∃ s' os', istreamRead I s size os = ((istreamRead J t size osj).1, s', os') ∧
      R s' (istreamRead J t size osj).2.1 ∧ noHard os'.sc = true ∧ noHard (istreamRead J t size osj).2.2.sc = true :=
  istreamReadLoop_sim hs _ s t _ [] os osj hr hn hj

theorem readHeaderHead_sim {σ τ : Type} {I : StreamI σ} {J : StreamI τ} {R : σ → τ → Prop} (hs : Sim I J R) :
    ∀ (fuel : Nat) (s : σ) (t : τ) (pz : Bool) (os osj : OS), R s t → noHard os.sc = true → noHard osj.sc = true →
    ∃ s' os', readHeaderHead I fuel s pz os = ((readHeaderHead J fuel t pz osj).1, s', os') ∧
      R s' (readHeaderHead J fuel t pz osj).2.1 ∧ noHard os'.sc = true ∧
      noHard (readHeaderHead J fuel t pz osj).2.2.sc = true := by
  intro fuel
  induction fuel with
  | zero => intro s t pz os osj hr hn hj; exact ⟨s, os, rfl, hr, hn, hj⟩
  | succ fuel ih =>
    intro s t pz os osj hr hn hj
    unfold readHeaderHead
    obtain ⟨s1, os1, h1, hr1, hn1, hj1⟩ := istreamRead_sim hs s t 512 os osj hr hn hj
    rw [h1]
    generalize istreamRead J t 512 osj = jr at *
    obtain ⟨r, t1, oj1⟩ := jr
    simp only at hr1 hj1 ⊢
    cases r with
    | fail e => exact ⟨s1, os1, rfl, hr1, hn1, hj1⟩
    | n d =>
      simp only []
      by_cases hd : d.length < 512
      · simp only [hd, if_true]; exact ⟨s1, os1, rfl, hr1, hn1, hj1⟩
      · simp only [hd, if_false]
        by_cases hz : allZero d = true
        · simp only [hz, if_true]
          cases pz with
          | true => exact ⟨s1, os1, rfl, hr1, hn1, hj1⟩
          | false => simp only [Bool.false_eq_true, if_false]; exact ih s1 t1 true os1 oj1 hr1 hn1 hj1
        · simp only [hz, if_false]; exact ⟨s1, os1, rfl, hr1, hn1, hj1⟩

theorem drainLoop_sim {σ τ : Type} {I : StreamI σ} {J : StreamI τ} {R : σ → τ → Prop} (hs : Sim I J R) :
    ∀ (fuel : Nat) (s : σ) (t : τ) (os osj : OS), R s t → noHard os.sc = true → noHard osj.sc = true →
    ∃ s' os', drainLoop I fuel s os = ((drainLoop J fuel t osj).1, s', os') ∧
      R s' (drainLoop J fuel t osj).2.1 ∧ noHard os'.sc = true ∧ noHard (drainLoop J fuel t osj).2.2.sc = true := by
  intro fuel
  induction fuel with
  | zero => intro s t os osj hr hn hj; exact ⟨s, os, rfl, hr, hn, hj⟩
  | succ fuel ih =>
    intro s t os osj hr hn hj
    unfold drainLoop
    obtain ⟨s1, os1, hg, hr1, hn1⟩ := hs.get s t 1 os hr hn
    rw [hg, hs.pure t 1 osj]
    generalize J.get t 1 OS.full = jr at *
    obtain ⟨r, w, t1, o⟩ := jr
    simp only at hr1 ⊢
    cases r with
    | eof => exact ⟨s1, os1, rfl, hr1, hn1, hj⟩
    | fail e => exact ⟨s1, os1, rfl, hr1, hn1, hj⟩
    | ok =>
      simp only []
      exact ih _ _ os1 osj (hs.adv _ _ _ hr1) hn1 hj

theorem tarNext_sim {σ τ : Type} {I : StreamI σ} {J : StreamI τ} {R : σ → τ → Prop} (hs : Sim I J R)
    (a : TarIt σ) (b : TarIt τ) (os osj : OS) (hr : TItRel R a b) (hn : noHard os.sc = true)
    (hj : noHard osj.sc = true) :
    ∃ a' os', tarNext I a os = ((tarNext J b osj).1, a', os') ∧ TItRel R a' (tarNext J b osj).2.1 ∧
      noHard os'.sc = true ∧ noHard (tarNext J b osj).2.2.sc = true := by
  obtain ⟨xs, xst, xl, xr, xf, xo, xp, xsp, xls, xz⟩ := a
  obtain ⟨ys, yst, yl, yr, yf, yo, yp, ysp, yls, yz⟩ := b
  simp only [TItRel] at hr
  obtain ⟨hrs, rfl, rfl, rfl, rfl, rfl, rfl, rfl, rfl, rfl⟩ := hr
  unfold tarNext
  simp only []
  cases xl with
  | true => exact ⟨_, os, rfl, by simp [TItRel, hrs], hn, hj⟩
  | false =>
    simp only [Bool.false_eq_true, if_false]
    by_cases hst : xst ≠ .ok
    · rw [if_pos hst, if_pos hst]; exact ⟨_, os, rfl, by simp [TItRel, hrs], hn, hj⟩
    · rw [if_neg hst, if_neg hst]
      -- skip what is left of the record
      have h1 : ∃ s1 os1, (if xr > 0 then istreamSkip I xs xr os else (Err.ok, xs, os)) =
            ((if xr > 0 then istreamSkip J ys xr osj else (Err.ok, ys, osj)).1, s1, os1) ∧
          R s1 (if xr > 0 then istreamSkip J ys xr osj else (Err.ok, ys, osj)).2.1 ∧ noHard os1.sc = true ∧
          noHard (if xr > 0 then istreamSkip J ys xr osj else (Err.ok, ys, osj)).2.2.sc = true := by
        by_cases hx : xr > 0
        · simp only [hx, if_true]; exact istreamSkip_sim hs xs ys xr os osj hrs hn hj
        · simp only [hx, if_false]; exact ⟨xs, os, rfl, hrs, hn, hj⟩
      obtain ⟨s1, os1, e1, hr1, hn1, hj1⟩ := h1
      rw [e1]
      generalize (if xr > 0 then istreamSkip J ys xr osj else (Err.ok, ys, osj)) = jr1 at *
      obtain ⟨r1, t1, oj1⟩ := jr1
      simp only at hr1 hj1 ⊢
      cases r1 with
      | ok =>
        simp only []
        have h2 : ∃ s2 os2, (if xp > 0 then istreamSkip I s1 xp os1 else (Err.ok, s1, os1)) =
              ((if xp > 0 then istreamSkip J t1 xp oj1 else (Err.ok, t1, oj1)).1, s2, os2) ∧
            R s2 (if xp > 0 then istreamSkip J t1 xp oj1 else (Err.ok, t1, oj1)).2.1 ∧ noHard os2.sc = true ∧
            noHard (if xp > 0 then istreamSkip J t1 xp oj1 else (Err.ok, t1, oj1)).2.2.sc = true := by
          by_cases hx : xp > 0
          · simp only [hx, if_true]; exact istreamSkip_sim hs s1 t1 xp os1 oj1 hr1 hn1 hj1
          · simp only [hx, if_false]; exact ⟨s1, os1, rfl, hr1, hn1, hj1⟩
        obtain ⟨s2, os2, e2, hr2, hn2, hj2⟩ := h2
        rw [e2]
        generalize (if xp > 0 then istreamSkip J t1 xp oj1 else (Err.ok, t1, oj1)) = jr2 at *
        obtain ⟨r2, t2, oj2⟩ := jr2
        simp only at hr2 hj2 ⊢
        cases r2 with
        | ok =>
          simp only []
          obtain ⟨s3, os3, e3, hr3, hn3, hj3⟩ := readHeaderHead_sim hs 3 s2 t2 false os2 oj2 hr2 hn2 hj2
          rw [e3]
          generalize readHeaderHead J 3 t2 false oj2 = jr3 at *
          obtain ⟨r3, t3, oj3⟩ := jr3
          simp only at hr3 hj3 ⊢
          cases r3 with
          | header d => exact ⟨_, os3, rfl, by simp [TItRel, hr3], hn3, hj3⟩
          | fail => exact ⟨_, os3, rfl, by simp [TItRel, hr3], hn3, hj3⟩
          | eof =>
            simp only []
            cases xz with
            | false => exact ⟨_, os3, rfl, by simp [TItRel, hr3], hn3, hj3⟩
            | true =>
              simp only [if_true]
              obtain ⟨s4, os4, e4, hr4, hn4, hj4⟩ :=
                drainLoop_sim hs (I.bound s3 + 2) s3 t3 os3 oj3 hr3 hn3 hj3
              rw [← hs.bound s3 t3 hr3, e4]
              generalize drainLoop J (I.bound s3 + 2) t3 oj3 = jr4 at *
              obtain ⟨r4, t4, oj4⟩ := jr4
              simp only at hr4 hj4 ⊢
              cases r4 <;> exact ⟨_, os4, rfl, by simp [TItRel, hr4], hn4, hj4⟩
        | io => exact ⟨_, os2, rfl, by simp [TItRel, hr2], hn2, hj2⟩
        | oob => exact ⟨_, os2, rfl, by simp [TItRel, hr2], hn2, hj2⟩
        | compressor => exact ⟨_, os2, rfl, by simp [TItRel, hr2], hn2, hj2⟩
        | corrupted => exact ⟨_, os2, rfl, by simp [TItRel, hr2], hn2, hj2⟩
        | fuel => exact ⟨_, os2, rfl, by simp [TItRel, hr2], hn2, hj2⟩
        | nullDeref => exact ⟨_, os2, rfl, by simp [TItRel, hr2], hn2, hj2⟩
      | io => exact ⟨_, os1, rfl, by simp [TItRel, hr1], hn1, hj1⟩
      | oob => exact ⟨_, os1, rfl, by simp [TItRel, hr1], hn1, hj1⟩
      | compressor => exact ⟨_, os1, rfl, by simp [TItRel, hr1], hn1, hj1⟩
      | corrupted => exact ⟨_, os1, rfl, by simp [TItRel, hr1], hn1, hj1⟩
      | fuel => exact ⟨_, os1, rfl, by simp [TItRel, hr1], hn1, hj1⟩
      | nullDeref => exact ⟨_, os1, rfl, by simp [TItRel, hr1], hn1, hj1⟩

theorem runOps_noHard {σ τ : Type} {I : StreamI σ} {J : StreamI τ} {R : σ → τ → Prop} (hs : Sim I J R) :
    ∀ (ops : List Op) (c : Client σ) (c' : Client τ) (os osj : OS), RC R c c' → noHard os.sc = true →
    noHard osj.sc = true →
    noHard (runOps I c ops os).2.2.sc = true ∧ noHard (runOps J c' ops osj).2.2.sc = true := by
  intro ops
  induction ops with
  | nil => intro c c' os osj _ hn hj; exact ⟨hn, hj⟩
  | cons op ops ih =>
    intro c c' os osj hr hn hj
    obtain ⟨_, h2, h3, h4⟩ := stepOp_sim hs c c' op os osj hr hn hj
    simp only [runOps]
    exact ih _ _ _ _ h2 h3 h4

/-- A member run from related iterators (`it_next`, the client's operations on the member stream, `it_next`) over
`I` under a script without hard events equals the run over `J`. -/
theorem tarRunFrom_sim {σ τ : Type} {I : StreamI σ} {J : StreamI τ} {R : σ → τ → Prop} (hs : Sim I J R)
    (a0 : TarIt σ) (b0 : TarIt τ) (g : MemberGeom) (o : OStream) (ops : List Op) (os0 osj : OS) (hit0 : TItRel R a0 b0)
    (hn0 : noHard os0.sc = true) (hj : noHard osj.sc = true) :
    (tarRunFrom I a0 g o ops os0).1 = (tarRunFrom J b0 g o ops osj).1 ∧
    (tarRunFrom I a0 g o ops os0).2.1 = (tarRunFrom J b0 g o ops osj).2.1 ∧
    (tarRunFrom I a0 g o ops os0).2.2.1 = (tarRunFrom J b0 g o ops osj).2.2.1 ∧
    TItRel R (tarRunFrom I a0 g o ops os0).2.2.2.1 (tarRunFrom J b0 g o ops osj).2.2.2.1 ∧
    (tarRunFrom I a0 g o ops os0).2.2.2.2.1 = (tarRunFrom J b0 g o ops osj).2.2.2.2.1 := by
  unfold tarRunFrom
  obtain ⟨a1, os1, e1, hr1, hn1, hj1⟩ := tarNext_sim hs a0 b0 os0 osj hit0 hn0 hj
  rw [e1]
  generalize tarNext J b0 osj = jr1 at *
  obtain ⟨r1, b1, oj1⟩ := jr1
  simp only at hr1 hj1 ⊢
  cases r1 with
  | sequence => exact ⟨rfl, rfl, rfl, hr1, rfl⟩
  | state st => exact ⟨rfl, rfl, rfl, hr1, rfl⟩
  | header d =>
    simp only []
    have hopen : RC (TRel R) (⟨tarOpen (a1.setMember g), o, 0⟩ : Client (TarStrm σ)) ⟨tarOpen (b1.setMember g), o, 0⟩ := by
      obtain ⟨h1, h2, h3, h4, h5, h6, h7, h8, h9, h10⟩ := hr1
      exact ⟨⟨⟨h1, h2, rfl, rfl, rfl, rfl, rfl, rfl, rfl, h10⟩, rfl, rfl, rfl⟩, rfl, rfl⟩
    obtain ⟨q1, q2⟩ := runOps_sim (tar_sim hs) ops _ _ os1 oj1 hopen hn1 hj1
    obtain ⟨n1, n2⟩ := runOps_noHard (tar_sim hs) ops _ _ os1 oj1 hopen hn1 hj1
    generalize runOps (tarStream I) ⟨tarOpen (a1.setMember g), o, 0⟩ ops os1 = ri at *
    generalize runOps (tarStream J) ⟨tarOpen (b1.setMember g), o, 0⟩ ops oj1 = rj at *
    obtain ⟨obsi, ci, osi⟩ := ri
    obtain ⟨obsj, cj, oj2⟩ := rj
    simp only at q1 q2 n1 n2 ⊢
    obtain ⟨qs, qo, _⟩ := q2
    have hclose : TItRel R (tarClose ci.s) (tarClose cj.s) := by
      obtain ⟨⟨h1, h2, h3, h4, h5, h6, h7, h8, h9, h10⟩, k1, k2, k3⟩ := qs
      unfold tarClose dropParent
      rw [← k1]
      cases hal : ci.s.alive <;> simp [TItRel, h1, h2, h3, h4, h5, h6, h7, h8, h9, h10]
    obtain ⟨a2, os3, e2, hr2, hn2, hj2⟩ := tarNext_sim hs (tarClose ci.s) (tarClose cj.s) osi oj2 hclose n1 n2
    rw [e2]
    generalize tarNext J (tarClose cj.s) oj2 = jr2 at *
    obtain ⟨r2, b2, oj3⟩ := jr2
    simp only at hr2 ⊢
    exact ⟨trivial, q1, trivial, hr2, qo⟩

/-- A whole member run (probe, `it_next`, the client's operations on the member stream, `it_next`) over `I` under
a script without hard events equals the run over `J`. -/
theorem tarMemberRun_sim {σ τ : Type} {I : StreamI σ} {J : StreamI τ} {R : σ → τ → Prop} (hs : Sim I J R)
    (s : σ) (t : τ) (g : MemberGeom) (o : OStream) (ops : List Op) (os osj : OS) (hr : R s t)
    (hn : noHard os.sc = true) (hj : noHard osj.sc = true) :
    (tarMemberRun I s g o ops os).1 = (tarMemberRun J t g o ops osj).1 ∧
    (tarMemberRun I s g o ops os).2.1 = (tarMemberRun J t g o ops osj).2.1 ∧
    (tarMemberRun I s g o ops os).2.2.1 = (tarMemberRun J t g o ops osj).2.2.1 ∧
    TItRel R (tarMemberRun I s g o ops os).2.2.2.1 (tarMemberRun J t g o ops osj).2.2.2.1 ∧
    (tarMemberRun I s g o ops os).2.2.2.2.1 = (tarMemberRun J t g o ops osj).2.2.2.2.1 := by
  unfold tarMemberRun
  obtain ⟨s0, os0, hg, hr0, hn0⟩ := hs.get s t 512 os hr hn
  rw [hg, hs.pure t 512 osj]
  generalize J.get t 512 OS.full = jr at *
  obtain ⟨g0, w0, t0, oj0⟩ := jr
  simp only at hr0 ⊢
  have hit0 : TItRel R (TarIt.init s0) (TarIt.init t0) := by simp [TItRel, TarIt.init, hr0]
  exact tarRunFrom_sim hs _ _ g o ops os0 osj hit0 hn0 hj

/-- The same for the compressed branch of `tar_open_stream`: probe on the raw streams, then the member run through
the transforming istreams (same codec, same initial codec state) with `compressed = true` — incl. the drain of the
rest of the stream at the end of the archive and the error it may report. -/
theorem tarMemberRunZ_sim {σ τ κ : Type} {I : StreamI σ} {J : StreamI τ} {R : σ → τ → Prop} (hs : Sim I J R)
    (C : Codec κ) (k0 : κ) (BX limit : Nat)
    (s : σ) (t : τ) (g : MemberGeom) (o : OStream) (ops : List Op) (os osj : OS) (hr : R s t)
    (hn : noHard os.sc = true) (hj : noHard osj.sc = true) :
    (tarMemberRunZ I C k0 BX limit s g o ops os).1 = (tarMemberRunZ J C k0 BX limit t g o ops osj).1 ∧
    (tarMemberRunZ I C k0 BX limit s g o ops os).2.1 = (tarMemberRunZ J C k0 BX limit t g o ops osj).2.1 ∧
    (tarMemberRunZ I C k0 BX limit s g o ops os).2.2.1 = (tarMemberRunZ J C k0 BX limit t g o ops osj).2.2.1 ∧
    TItRel (XRel R) (tarMemberRunZ I C k0 BX limit s g o ops os).2.2.2.1
      (tarMemberRunZ J C k0 BX limit t g o ops osj).2.2.2.1 ∧
    (tarMemberRunZ I C k0 BX limit s g o ops os).2.2.2.2.1 = (tarMemberRunZ J C k0 BX limit t g o ops osj).2.2.2.2.1 := by
  unfold tarMemberRunZ
  obtain ⟨s0, os0, hg, hr0, hn0⟩ := hs.get s t 512 os hr hn
  rw [hg, hs.pure t 512 osj]
  generalize J.get t 512 OS.full = jr at *
  obtain ⟨g0, w0, t0, oj0⟩ := jr
  simp only at hr0 ⊢
  have hit0 : TItRel (XRel R) { TarIt.init (⟨s0, k0, 0, []⟩ : XStream σ κ) with compressed := true }
      { TarIt.init (⟨t0, k0, 0, []⟩ : XStream τ κ) with compressed := true } := by
    simp [TItRel, TarIt.init, XRel, hr0]
  exact tarRunFrom_sim (xfrm_sim hs C BX limit) _ _ g o ops os0 osj hit0 hn0 hj

end Sqfs.IoLoops
