/-
C01 — lemmas about little-endian fields, structs (`encFields`/`decFields`/`readFields`) and word lists.
-/
import Sqfs.Model.EncBytes
import Sqfs.Proofs.WriterSuper
namespace Sqfs.Enc
open Sqfs.Consts
open Sqfs.Writer (le leVal le_length)

theorem leVal_le (n v : Nat) : leVal (le n v) = v % 256 ^ n := by
  induction n generalizing v with
  | zero => simp [le, leVal, Nat.mod_one]
  | succ n ih =>
    simp only [le, leVal, ih, UInt8.toNat_ofNat']
    have h1 : v % 256 % (2 ^ 7 * 2) = v % 256 := by omega
    rw [h1, Nat.pow_succ, Nat.mul_comm (256 ^ n) 256, Nat.mod_mul]

theorem leVal_le_of_lt {n v : Nat} (h : v < 256 ^ n) : leVal (le n v) = v := by
  rw [leVal_le, Nat.mod_eq_of_lt h]

theorem leVal_lt (bs : Bytes) : leVal bs < 256 ^ bs.length := by
  induction bs with
  | nil => simp [leVal]
  | cons b r ih =>
    simp only [leVal, List.length_cons, Nat.pow_succ]
    have := b.toNat_lt
    omega

theorem encFields_length (fs : List (Nat × Nat)) : (encFields fs).length = (fs.map (·.1)).sum := by
  induction fs with
  | nil => rfl
  | cons f r ih => obtain ⟨w, v⟩ := f; simp [encFields, le_length, ih]

/-- the values as a reader sees them: each reduced to its field width -/
def wrapFields (fs : List (Nat × Nat)) : List Nat := fs.map (fun f => f.2 % 256 ^ f.1)

theorem decFields_encFields (fs : List (Nat × Nat)) (rest : Bytes) :
    decFields (fs.map (·.1)) (encFields fs ++ rest) = wrapFields fs := by
  induction fs with
  | nil => rfl
  | cons f r ih =>
    obtain ⟨w, v⟩ := f
    simp only [List.map_cons, decFields, encFields, List.append_assoc, wrapFields]
    rw [List.take_left' (le_length w v), List.drop_left' (le_length w v), leVal_le]
    exact congrArg _ ih

theorem take?_append (a rest : Bytes) : take? a.length (a ++ rest) = .ok (a, rest) := by
  simp [take?]

theorem take?_append' {n : Nat} (a rest : Bytes) (h : a.length = n) : take? n (a ++ rest) = .ok (a, rest) := by
  subst h; exact take?_append a rest

theorem take?_ok {n : Nat} {bs a r : Bytes} (h : take? n bs = .ok (a, r)) : bs = a ++ r ∧ a.length = n := by
  unfold take? at h
  split at h
  · injection h with h; injection h with h1 h2
    subst h1; subst h2
    exact ⟨(List.take_append_drop n bs).symm, by simp; omega⟩
  · cases h

/-- reading back a struct that was appended as `encFields fs`: every field reduced to its width -/
theorem readFields_encFields (fs : List (Nat × Nat)) (rest : Bytes) :
    readFields (fs.map (·.1)) (encFields fs ++ rest) = .ok (wrapFields fs, rest) := by
  unfold readFields
  rw [take?_append' (encFields fs) rest (encFields_length fs)]
  have := decFields_encFields fs []
  simp only [List.append_nil] at this
  simp [this]

/-- … and unchanged when every value fits its field -/
theorem readFields_encFields_fit (fs : List (Nat × Nat)) (rest : Bytes) (h : ∀ f ∈ fs, f.2 < 256 ^ f.1) :
    readFields (fs.map (·.1)) (encFields fs ++ rest) = .ok (fs.map (·.2), rest) := by
  rw [readFields_encFields]
  congr 2
  unfold wrapFields
  apply List.map_congr_left
  intro f hf
  exact Nat.mod_eq_of_lt (h f hf)

theorem encWords_length (w : Nat) (l : List Nat) : (encWords w l).length = w * l.length := by
  induction l with
  | nil => rfl
  | cons v r ih => simp [encWords, le_length, ih, Nat.mul_add]; omega

theorem decWords_encWords (w : Nat) (l : List Nat) (rest : Bytes) (h : ∀ v ∈ l, v < 256 ^ w) :
    decWords w l.length (encWords w l ++ rest) = l := by
  induction l with
  | nil => rfl
  | cons v r ih =>
    simp only [List.length_cons, decWords, encWords, List.append_assoc]
    rw [List.take_left' (le_length w v), List.drop_left' (le_length w v),
      leVal_le_of_lt (h v (List.mem_cons_self ..)), ih (fun x hx => h x (List.mem_cons_of_mem _ hx))]

theorem decWords_length (w n : Nat) (bs : Bytes) : (decWords w n bs).length = n := by
  induction n generalizing bs with
  | zero => rfl
  | succ n ih => simp [decWords, ih]

end Sqfs.Enc
