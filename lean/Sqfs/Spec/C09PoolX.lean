/-
Specification side of the C09 extension: executable monitors on *observed* histories, evaluated by the check
on what the implementation did (driver ops `ctxmon`, `apimon`).

* context clause — "no two workers use the same per-worker context at the same time", under the usage
  discipline that a non-NULL pointer is handed to at most one worker (what the block processor does:
  `set_worker_ptr(i, worker_i)` with distinct `worker_i`, block_processor.c);
* API clause — what a client that only sees return values may rely on (used for the real-thread runs, where no
  state can be observed): FIFO hand-back, `NULL` only when empty or after a failure, a non-zero status is the
  return value of a submitted failing item and never changes again.
-/
import Sqfs.Model.C09PoolX
namespace Sqfs.Pool

/-! ### context clause -/

def setPtrEvents (log : List XEvent) : List (Nat × Nat) :=
  log.filterMap fun e => match e with | .setPtr i p => some (i, p) | _ => none

/-- usage discipline: a non-NULL pointer is never handed to two different workers -/
def disciplineOk (log : List XEvent) : Bool :=
  let sp := setPtrEvents log
  sp.all fun a => sp.all fun b => a.2 == 0 || a.2 != b.2 || a.1 == b.1

/-- replay of the log; `cur` = (worker, context) of the callbacks that are running -/
def exclusiveGo : List (Nat × Nat) → List XEvent → Bool
  | _, [] => true
  | cur, .enter w p _ :: r =>
      (p == 0 || cur.all (fun x => x.2 != p || x.1 == w)) && exclusiveGo ((w, p) :: cur.filter (·.1 != w)) r
  | cur, .leave w :: r => exclusiveGo (cur.filter (·.1 != w)) r
  | cur, _ :: r => exclusiveGo cur r

/-- no callback was entered with a non-NULL context that another worker's running callback was using -/
def exclusiveOk (log : List XEvent) : Bool := exclusiveGo [] log

/-- the context clause on an observed log -/
def ctxOk (log : List XEvent) : Bool := !disciplineOk log || exclusiveOk log

/-! ### API clause (return values only) -/

/-- `subs`: data of the accepted submissions so far; `nret`: items handed back so far; `seen`: a non-zero
status some call has already reported -/
def apiGo (rcOf : Nat → Int) : List Nat → Nat → Option Int → List (Op × Ret) → Bool
  | _, _, _, [] => true
  | subs, nret, seen, (.submit d, .submit rc) :: r =>
      if rc = 0 then seen.isNone && apiGo rcOf (subs ++ [d]) nret seen r
      else subs.any (fun d' => rcOf d' == rc) && (seen.isNone || seen == some rc) && apiGo rcOf subs nret (some rc) r
  | subs, nret, seen, (.dequeue, .deq (some d)) :: r =>
      subs[nret]? == some d && apiGo rcOf subs (nret + 1) seen r
  | subs, nret, seen, (.dequeue, .deq none) :: r =>
      (nret == subs.length || subs.any (fun d' => rcOf d' != 0)) && apiGo rcOf subs nret seen r
  | subs, nret, seen, (.getStatus, .status rc) :: r =>
      if rc = 0 then seen.isNone && apiGo rcOf subs nret seen r
      else subs.any (fun d' => rcOf d' == rc) && (seen.isNone || seen == some rc) && apiGo rcOf subs nret (some rc) r
  | _, _, _, (.destroy, .destroyed) :: r => r.isEmpty
  | _, _, _, _ :: _ => false

/-- the API clause on an observed sequence of (call, return value) -/
def apiOk (rcOf : Nat → Int) (h : List (Op × Ret)) : Bool := apiGo rcOf [] 0 none h

end Sqfs.Pool
