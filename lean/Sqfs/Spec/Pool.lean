/-
Specification side of C09.

* `SerialPool` — model of `lib/util/src/threadpool_serial.c` (work is done inside `dequeue`);
  it doubles as the abstract FIFO specification of the threaded pool.
* executable monitors of the property's clauses on an *observed* history
  (`submitted`, callback invocations, `returned`): used by the theorems and, through the
  driver's `monitor` op, on the implementation's own behaviour.
-/
import Sqfs.Model.Pool
namespace Sqfs.Pool

/-! ### threadpool_serial.c -/

structure Serial where
  queue : List Nat
  recycle : Nat
  status : Int
  /-- ghost: callback invocations, in order -/
  processed : List Nat
  rets : List Ret
deriving Repr

def Serial.init : Serial := { queue := [], recycle := 0, status := 0, processed := [], rets := [] }

/-- one API call of the serial pool (no blocking points: every call is one step) -/
def Serial.call (rcOf : Nat → Int) (s : Serial) : Op → Serial
  | .submit d =>
      if s.status ≠ 0 then { s with rets := s.rets ++ [.submit s.status] }
      else { s with queue := s.queue ++ [d], recycle := s.recycle - 1, rets := s.rets ++ [.submit 0] }
  | .dequeue =>
      match s.queue with
      | [] => { s with rets := s.rets ++ [.deq none] }
      | d :: q =>
          { s with queue := q, recycle := s.recycle + 1, processed := s.processed ++ [d],
                   status := if rcOf d ≠ 0 ∧ s.status = 0 then rcOf d else s.status,
                   rets := s.rets ++ [.deq (some d)] }
  | .getStatus => { s with rets := s.rets ++ [.status s.status] }
  | .destroy => { s with queue := [], recycle := 0, rets := s.rets ++ [.destroyed] }

def Serial.run (rcOf : Nat → Int) : Serial → List Op → Serial
  | s, [] => s
  | s, op :: ops => Serial.run rcOf (Serial.call rcOf s op) ops

theorem Serial.run_append (rcOf : Nat → Int) (s : Serial) (a b : List Op) :
    Serial.run rcOf s (a ++ b) = Serial.run rcOf (Serial.run rcOf s a) b := by
  induction a generalizing s with
  | nil => rfl
  | cons x xs ih => simp only [List.cons_append, Serial.run]; exact ih _

/-- the API call the main thread is inside of -/
def mainPending : MPc → Option Op
  | .submitLock d => some (.submit d)
  | .deqLock => some .dequeue
  | .deqWait _ => some .dequeue
  | .statusLock => some .getStatus
  | .destroyLock => some .destroy
  | .join _ => some .destroy
  | .idle => none
  | .finished => none

/-! ### "the call returns" -/

/-- `StaysInCall cfg s cs s'`: `cs` is a strict execution (every choice enabled, no spurious wake-up) from `s`
to `s'` during which the main thread never leaves the API call it is in (every state after `s` is still
inside the call). -/
inductive StaysInCall (cfg : Cfg) : State → List Choice → State → Prop where
  | nil (s : State) : StaysInCall cfg s [] s
  | cons {s s1 s2 : State} {c : Choice} {cs : List Choice} :
      stepStrict cfg s c = some s1 → mainInCall s1 = true → StaysInCall cfg s1 cs s2 →
      StaysInCall cfg s (c :: cs) s2

/-! ### monitors (the clauses of C09 on an observed history) -/

/-- `returned` is a prefix of `submitted` -/
def fifoOk (submitted returned : List Nat) : Bool := returned.isPrefixOf submitted

/-- no ticket's callback ran twice -/
def onceOk (startedTickets : List Nat) : Bool := startedTickets.Nodup

/-- every returned item had its callback run (exactly once, given `onceOk`) before it was handed back:
the first `k = returned.length` tickets all occur among the started ones -/
def processedOk (startedTickets : List Nat) (nReturned : Nat) : Bool :=
  (List.range nReturned).all (fun t => startedTickets.contains t)

end Sqfs.Pool
