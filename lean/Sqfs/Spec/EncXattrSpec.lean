/-
C01 — what a set of extended attributes *is*, on strings: the specification the xattr writer/reader pair is measured
against.  `sqfs_xattr_writer_add_kv` called for `(k₁,v₁), …` between `begin` and `end` records the map "last value given
for each key", keys in order of first appearance (`canonSet`); the reader returns those pairs in the order of the
writer's string-table indices (first appearance of the key string, then of the value string, over the whole run).
-/
namespace Sqfs.Enc

/-- one `add_kv` on the set collected so far: replace the value of a key that is already there, else append -/
def canonStep (acc : List (List UInt8 × List UInt8)) (kv : List UInt8 × List UInt8) : List (List UInt8 × List UInt8) :=
  if kv.1 ∈ acc.map (·.1) then acc.map (fun e => if e.1 = kv.1 then (kv.1, kv.2) else e) else acc ++ [kv]

/-- the set recorded by `begin; add_kv …; end` -/
def canonSet (kvs : List (List UInt8 × List UInt8)) : List (List UInt8 × List UInt8) := kvs.foldl canonStep []

end Sqfs.Enc
