/-
C01 — what a reader must see for a packed tree (`normalise`), and how the inodes found by the walk are compared with it
(`resolve`: owner ids **through the id table**, the writer's positions dropped).
-/
import Sqfs.Model.EncTree
namespace Sqfs.Enc
open Sqfs.Consts
open Sqfs.FsTree (TNode Path lookup Result)

/-- everything `rdsquashfs`/`sqfs_dir_entry_from_inode`/the data reader take from an inode, with the owner resolved:
`uid = id_table[uid_idx]` (`none`: the index lies outside the table).  For a directory the writer-chosen position of
its listing is not part of it; the parent inode number is. -/
structure VAttr where
  typeBits : Nat
  mode : Nat
  uid : Option Nat
  gid : Option Nat
  mtime : Nat
  inum : Nat
  nlink : Nat
  xattr : Nat
  /-- dir: parent inode number · file: blocks_start, file_size, sparse, frag idx, frag offset · dev: devno · symlink: size -/
  nums : List Nat
  words : List Nat
  bytes : Bytes
  deriving Repr, DecidableEq

/-- a tree as a reader sees it: every directory entry with the attributes of the inode behind it and, for a
directory, the entries below.  Hard links are further entries naming the same inode (equal `inum`). -/
inductive VNode where
  | mk (name : Bytes) (a : VAttr) (children : List VNode)
  deriving Repr

/-- the reader's side: an inode with its owner looked up in the id table read from the image -/
def Inode.resolve (ids : List Nat) (i : Inode) : VAttr :=
  let v := i.view
  ⟨v.typeBits, v.base.mode, ids[v.base.uidIdx]?, ids[v.base.gidIdx]?, v.base.mtime, v.base.inum, v.nlink, v.xattr,
   if v.typeBits = sIFDIR then [v.nums.getD 3 0] else v.nums, v.words, v.bytes⟩

mutual
def RNode.resolve (ids : List Nat) : RNode → VNode
  | .mk nm i cs => .mk nm (i.resolve ids) (resolveList ids cs)
def resolveList (ids : List Nat) : List RNode → List VNode
  | [] => []
  | c :: r => c.resolve ids :: resolveList ids r
end

/-- the input's side: the attributes of one node (what `serialize_tree_node` is handed, `NodeIn`) -/
def expectAttr (n : NodeIn) : Option VAttr :=
  let a := n.attr
  match n.kind with
  | .dir _ => some ⟨sIFDIR, a.mode, some n.uid, some n.gid, a.mtime, a.inum, a.linkCount, a.xattrIdx, [n.parentInum], [], []⟩
  | .reg inode =>
    some ⟨inode.view.typeBits, a.mode, some n.uid, some n.gid, a.mtime, a.inum, a.linkCount, a.xattrIdx,
      inode.view.nums, inode.view.words, inode.view.bytes⟩
  | .other devno target =>
    (treeNodeToInode a.mode a.linkCount devno target).map (fun i0 =>
      ⟨i0.view.typeBits, a.mode, some n.uid, some n.gid, a.mtime, a.inum, a.linkCount, a.xattrIdx,
        i0.view.nums, i0.view.words, i0.view.bytes⟩)

/-- the entries `(name, path of the node behind it)` and everything below them; one unit of fuel per level of
the expansion, exactly as the walk spends it (`readNodes`) -/
def normNodes (root : TNode) (inodes : List Path) (x : TreeExtra) : Nat → List (Bytes × Path) → Option (List VNode)
  | _, [] => some []
  | 0, _ :: _ => none
  | f + 1, (nm, tp) :: rest =>
    match lookup root tp with
    | none => none
    | some n =>
      match expectAttr (nodeIn root inodes x [] tp n) with
      | none => none
      | some a =>
        let below : Option (List VNode) :=
          if n.isDir then normNodes root inodes x f (n.children.map (fun c => (c.name, entryTarget tp c))) else some []
        match below, normNodes root inodes x f rest with
        | some cs, some l => some (.mk nm a cs :: l)
        | _, _ => none

/-- **the tree a reader must see** for the post-processed tree `r` (hard links as further names of their target's
inode, inode numbers as assigned, link counts as computed) with the xattr indices and file inodes of `x` -/
def normalise (r : Result) (x : TreeExtra) (fuel : Nat) : Option VNode :=
  match normNodes r.tree r.inodes x fuel [([], [])] with
  | some [v] => some v
  | _ => none

/-! ### what the theorem asks of the input -/

/-- the order `fs->inodes` must have for the serializer (children and hard-link targets before the directory naming
them — what `fstree_post_process` is there to establish), as a check -/
def orderOkB (r : Result) : Bool :=
  decide r.inodes.Nodup && r.inodes.contains [] &&
  (List.range r.inodes.length).all (fun k =>
    match lookup r.tree (r.inodes.getD k []) with
    | none => true
    | some n => !n.isDir || n.children.all (fun c => (r.inodes.take k).contains (entryTarget (r.inodes.getD k []) c)))

/-- one node's attributes within their C types and consistent with its kind -/
structure AttrOk (bs : Nat) (x : TreeExtra) (p : Path) (n : TNode) : Prop where
  mode : n.attr.mode < 65536
  mtime : n.attr.modTime < 2 ^ 32
  lc1 : 1 ≤ n.attr.linkCount
  lc : n.attr.linkCount < 2 ^ 32
  xattr : x.xattrOf p < 2 ^ 32
  reg : n.isDir = false → Sqfs.FsTree.isType n.attr.mode sIFREG = true →
    (x.fileInode p).view.typeBits = sIFREG ∧ WfBody bs (x.fileInode p)
  other : n.isDir = false → Sqfs.FsTree.isType n.attr.mode sIFREG = false →
    n.attr.rdev < 2 ^ 32 ∧ (match n.attr.extra with | .str s => s.length | _ => 0) < 2 ^ 32

instance (bs : Nat) (x : TreeExtra) (p : Path) (n : TNode) : Decidable (AttrOk bs x p n) :=
  decidable_of_iff
    (n.attr.mode < 65536 ∧ n.attr.modTime < 2 ^ 32 ∧ 1 ≤ n.attr.linkCount ∧ n.attr.linkCount < 2 ^ 32 ∧ x.xattrOf p < 2 ^ 32
      ∧ (n.isDir = false → Sqfs.FsTree.isType n.attr.mode sIFREG = true →
          (x.fileInode p).view.typeBits = sIFREG ∧ WfBody bs (x.fileInode p))
      ∧ (n.isDir = false → Sqfs.FsTree.isType n.attr.mode sIFREG = false →
          n.attr.rdev < 2 ^ 32 ∧ (match n.attr.extra with | .str s => s.length | _ => 0) < 2 ^ 32))
    ⟨fun ⟨a, b, c, d, e, f, g⟩ => ⟨a, b, c, d, e, f, g⟩, fun h => ⟨h.mode, h.mtime, h.lc1, h.lc, h.xattr, h.reg, h.other⟩⟩

/-- **what `parse_serialize` asks**: the order of `fs->inodes` (`orderOkB`), every node's attributes within their C
types (`AttrOk`), fewer than 2³² − 1 inodes, and an inode table and a directory table whose block starts fit the 32-bit
`start_block` fields (the format's own limit) -/
structure Representable (bs : Nat) (r : Result) (x : TreeExtra) (out : TreeOut) : Prop where
  order : orderOkB r = true
  attrs : ∀ p ∈ r.inodes, ∀ n ∈ lookup r.tree p, AttrOk bs x p n
  count : r.inodes.length + 1 < 2 ^ 32
  inodes : out.st.inodes.length / metaBlockSize * rawCost < 2 ^ 32
  dirs : out.st.dirs.length / metaBlockSize * rawCost < 2 ^ 32
  dirs2 : out.st.dirs.length + 3 < 2 ^ 32

instance (bs : Nat) (r : Result) (x : TreeExtra) (out : TreeOut) : Decidable (Representable bs r x out) :=
  decidable_of_iff
    (orderOkB r = true ∧ (∀ p ∈ r.inodes, ∀ n ∈ lookup r.tree p, AttrOk bs x p n) ∧ r.inodes.length + 1 < 2 ^ 32
      ∧ out.st.inodes.length / metaBlockSize * rawCost < 2 ^ 32 ∧ out.st.dirs.length / metaBlockSize * rawCost < 2 ^ 32
      ∧ out.st.dirs.length + 3 < 2 ^ 32)
    ⟨fun ⟨a, b, c, d, e, f⟩ => ⟨a, b, c, d, e, f⟩, fun h => ⟨h.order, h.attrs, h.count, h.inodes, h.dirs, h.dirs2⟩⟩

end Sqfs.Enc
