/-
Specification C06 is stated against: which part of a file system lies outside the unpack root, and what
"the run changed nothing there" means.
-/
import Sqfs.Model.Unpack
namespace Sqfs.Unpack

/-- `p` lies strictly below `R` (R itself is *not* below R) -/
def underB (R p : PathC) : Bool := R.isPrefixOf p && p != R

/-- the file system with everything strictly below `R` forgotten -/
def outside (R : PathC) (fs : Fs) : Fs := fun p => if underB R p then none else fs p

/-- `R` is a directory and nothing exists below it -/
def Fresh (fs : Fs) (R : PathC) : Prop :=
  (∃ a, fs R = some ⟨.dir, a⟩) ∧ ∀ p, underB R p = true → fs p = none

/-- the confinement property of a list of system calls issued with working directory `R` -/
def Confined (R : PathC) (fs₀ : Fs) (scs : List Syscall) : Prop :=
  outside R (exec R fs₀ scs) = outside R fs₀

/-- the same when calls may fail for reasons of the environment -/
def ConfinedF (R : PathC) (fs₀ : Fs) (scs : List Syscall) : Prop :=
  ∀ (flt : Faults) (i : Nat), outside R (run flt R i fs₀ scs).fs = outside R fs₀

/-- a traced call succeeded, or failed in a way the C code tolerates (`mkdir` answering `EEXIST`) -/
def Fine (x : Syscall × Option Errno) : Prop := x.2 = none ∨ ∃ e, x.2 = some e ∧ tolerated x.1 e = true

/-- `fs` is `fs₀` plus new, empty directories (mode 0755, no other attribute) at names where nothing was: all that
    establishing the unpack root (`mkdir_p`) may do to a file system -/
def OnlyNewDirs (fs₀ fs : Fs) : Prop :=
  ∀ p, fs p = fs₀ p ∨ (fs₀ p = none ∧ fs p = some ⟨.dir, { perm := 0o755 }⟩)

end Sqfs.Unpack
