/-
Specification C06 is stated against: which part of a file system lies outside the unpack root, and what
"the run changed nothing there" means.
-/
import Sqfs.Model.Unpack
namespace Sqfs.Unpack

/-- `p` lies strictly below `R` (R itself is *not* below R) -/
def underB (R p : PathC) : Bool := R.isPrefixOf p && p != R

/-- the file system with everything strictly below `R` forgotten -/
def outside (R : PathC) (fs : Fs) : Fs := fun p => if underB R p then none else fs p

/-- `R` is a directory and nothing exists below it -/
def Fresh (fs : Fs) (R : PathC) : Prop :=
  (∃ a, fs R = some ⟨.dir, a⟩) ∧ ∀ p, underB R p = true → fs p = none

/-- the confinement property of a list of system calls issued with working directory `R` -/
def Confined (R : PathC) (fs₀ : Fs) (scs : List Syscall) : Prop :=
  outside R (exec R fs₀ scs) = outside R fs₀

end Sqfs.Unpack
