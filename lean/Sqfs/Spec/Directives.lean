/-
The directive clauses of C17 as *executable* predicates on a layout (`Out`), so that the check can evaluate the
specification on the layout the **implementation** produced (`sqfsmodel c17 mon-effects`).  Each clause is the
statement of the theorem of the same name in `Sqfs/Props/C17.lean`, read as a test on one `Out`.
-/
import Sqfs.Spec.PackSpec
namespace Sqfs.Pack

def diskBytesW (ws : List Word) : Nat := (ws.map Word.diskSize).sum

def wordRawOrHole : Word → Bool
  | .sparse => true
  | .stored _ raw => raw

def isHole : Word → Bool
  | .sparse => true
  | .stored _ _ => false

/-- clauses about file `j` alone: `(F, size)` = flags handed to the block processor and input size -/
def localViolations (B : Nat) (frags : List FragEntry) (F : Flags) (size : Nat) (r : FileResult) : List String :=
  (if F.dontCompress && !(r.words.all wordRawOrHole) then ["dont_compress_words"] else [])
  ++ (if F.dontCompress then
        match r.frag with
        | some (k, _) => (match frags[k]? with
            | some e => if e.raw then [] else ["dont_compress_fragment_block"]
            | none => ["dont_compress_fragment_block"])
        | none => []
      else [])
  ++ (if F.dontFragment && (r.frag.isSome || r.words.length != size / B + (if size % B > 0 then 1 else 0))
      then ["dont_fragment_effect"] else [])
  ++ (if F.ignoreSparse && (r.words.any isHole || r.sparse != 0 || r.extended) then ["nosparse_effect"] else [])
  ++ (if F.ignoreSparse && size % B > 0 && !F.dontFragment then
        match r.frag with
        | none => ["nosparse_effect_tail"]
        | some (k, _) => (match frags[k]? with
            | some e => if e.size == 0 then ["nosparse_effect_tail_not_materialised"] else []
            | none => ["nosparse_effect_tail_not_materialised"])
      else [])

/-- clauses relating file `j` (flags `F`) to an earlier file `i` -/
def pairViolations (B : Nat) (sizeI : Nat) (ri : FileResult) (F : Flags) (rj : FileResult) : List String :=
  (if F.dontDedup && diskBytesW rj.words > 0 && !(ri.start + diskBytesW ri.words ≤ rj.start || diskBytesW ri.words == 0)
   then ["dont_dedup_effect_blocks"] else [])
  ++ (if F.dontDedup then
        match ri.frag, rj.frag with
        | some (a, o), some (b, o') => if a == b && !(o + sizeI % B ≤ o') then ["dont_dedup_effect_fragment"] else []
        | _, _ => []
      else [])

def earlierViolations (B : Nat) (F : Flags) (rj : FileResult) : List (Nat × FileResult) → List String
  | [] => []
  | (sz, ri) :: t => pairViolations B sz ri F rj ++ earlierViolations B F rj t

/-- all clauses, walking the files in packing order; `done` = earlier files (size, result) -/
def effectViolationsGo (B : Nat) (frags : List FragEntry) : List (Nat × FileResult) → List ((Flags × Nat) × FileResult) → List String
  | _, [] => []
  | done, ((F, size), r) :: t =>
    localViolations B frags F size r ++ earlierViolations B F r done ++ effectViolationsGo B frags (done ++ [(size, r)]) t

def effectViolations (B : Nat) (ins : List (Flags × Nat)) (o : Out) : List String :=
  effectViolationsGo B o.frags [] (ins.zip o.files)

end Sqfs.Pack
