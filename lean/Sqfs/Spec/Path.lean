/-
Specification the C18 theorems are stated against: a path is its list of
'/'-separated components; canonicalisation drops empty and "." components,
refuses when a component is "..", and joins the rest with single slashes.
-/
import Sqfs.Model.Path
namespace Sqfs.Path

/-- Split at every '/'.  Always returns a non-empty list (`split [] = [[]]`). -/
def splitSlash : Bytes → List Bytes
  | [] => [[]]
  | c :: t =>
    if c = SL then [] :: splitSlash t
    else match splitSlash t with
      | h :: r => (c :: h) :: r
      | [] => [[c]]

/-- Join with single '/' separators (no leading or trailing one). -/
def joinSlash : List Bytes → Bytes
  | [] => []
  | [c] => c
  | c :: d :: r => c ++ SL :: joinSlash (d :: r)

/-- component is not empty -/
def isNE (c : Bytes) : Bool := !c.isEmpty
/-- component is not "." -/
def notDot (c : Bytes) : Bool := c != [DOT]
/-- components that survive canonicalisation -/
def keep (c : Bytes) : Bool := isNE c && notDot c

def specCanon (s : Bytes) : Option Bytes :=
  let cs := splitSlash s
  if [DOT, DOT] ∈ cs then none else some (joinSlash (cs.filter keep))

end Sqfs.Path
