/-
C15 — what "transparent" means, in a form that reads in minutes.

`Dec : Bytes → Option Bytes` is the one-shot reference decoder of exactly **one** member (gzip member,
xz stream, zstd frame, bzip2 stream).  A compressed stream is a concatenation of members; its meaning
is the concatenation of the members' contents.
-/
import Sqfs.Model.Xfrm
namespace Sqfs.Xfrm.Spec
open Sqfs.Xfrm

/-- `ms` are members with contents `xs` -/
inductive Members (Dec : Bytes → Option Bytes) : List Bytes → List Bytes → Prop
  | nil : Members Dec [] []
  | cons {m x : Bytes} {ms xs : List Bytes} : Dec m = some x → Members Dec ms xs → Members Dec (m :: ms) (x :: xs)

/-- the byte string `s` is a sequence of members whose contents add up to `x` -/
def DecodesTo (Dec : Bytes → Option Bytes) (s x : Bytes) : Prop :=
  ∃ ms xs, Members Dec ms xs ∧ s = ms.flatten ∧ x = xs.flatten

/--
What a history of output operations asks to have written: the segments closed by a `flush` (a flush with
nothing appended since the last one closes nothing) and the still open segment.
-/
def opsSegs : List Bytes → Bytes → List OOp → List Bytes × Bytes
  | done, cur, [] => (done, cur)
  | done, cur, OOp.append d :: ops => opsSegs done (cur ++ d) ops
  | done, cur, OOp.flush :: ops => if cur = [] then opsSegs done [] ops else opsSegs (done ++ [cur]) [] ops

/-- executable version for the toy format: split at the `00` terminators (fuel = length); a stream that ends inside a member
(after a data byte, without terminator) is not a sequence of members -/
def toyDecodeAllAux : Nat → Bool → Bytes → Option Bytes
  | _, inMember, [] => if inMember then none else some []
  | 0, _, _ :: _ => none
  | k + 1, _, m :: r =>
    if m = 0 then toyDecodeAllAux k false r
    else if m = 1 then
      match r with
      | [] => none
      | b :: r' => (toyDecodeAllAux k true r').map (b :: ·)
    else none

def toyDecodeAll (s : Bytes) : Option Bytes := toyDecodeAllAux s.length false s

end Sqfs.Xfrm.Spec
