/-
Specification of tar numeric fields (what a field *means*, as an unbounded integer).

* octal: optional leading white space, then the value of the maximal run of octal digits;
* base-256 (first byte has the top bit set): first byte 0xFF → the whole field is a
  two's-complement big-endian negative number; otherwise the low 7 bits of the first byte
  and the remaining bytes are a big-endian non-negative number.
-/
import Sqfs.Model.TarNumber
namespace Sqfs.Tar

/-- value of the leading run of octal digits, continuing from `acc` (no bound) -/
def octRun (acc : Nat) : Bytes → Nat
  | [] => acc
  | c :: t => if isOctDigit c then octRun (acc * 8 + (c.toNat - 48)) t else acc

def specOctal (f : Bytes) : Nat := octRun 0 (skipSpaces f)

/-- big-endian value, continuing from `acc` (no bound) -/
def beVal (acc : Nat) : Bytes → Nat
  | [] => acc
  | b :: t => beVal (acc * 256 + b.toNat) t

def specBinary : Bytes → Int
  | [] => 0
  | b0 :: t =>
    if b0.toNat = 255 then (beVal 255 t : Int) - (256 : Int) ^ (t.length + 1)
    else (beVal (b0.toNat % 128) t : Int)

/-- The 64-bit pattern the reader is allowed to return for a field meaning `v`:
    `v` itself when `0 ≤ v < 2^64`, its two's complement when `-2^63 ≤ v < 0`, nothing otherwise. -/
def fits64 (v : Int) : Option Nat :=
  if 0 ≤ v ∧ v < (U64 : Int) then some v.toNat
  else if -9223372036854775808 ≤ v ∧ v < 0 then some (v + (U64 : Int)).toNat
  else none

/-- What `read_number` has to return: the exact value (as a 64-bit pattern) or an error. -/
def specNumber : Bytes → Option Nat
  | [] => some 0
  | b0 :: t =>
    if b0.toNat ≥ 128 then fits64 (specBinary (b0 :: t))
    else if specOctal (b0 :: t) < U64 then some (specOctal (b0 :: t)) else none

end Sqfs.Tar
