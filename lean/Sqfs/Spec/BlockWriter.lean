/-
Specification side of the block writer (C08): what a caller of `write_data_block` is entitled to.

A *file* is whatever was submitted between a call carrying `SQFS_BLK_FIRST_BLOCK` and the next call carrying
`SQFS_BLK_LAST_BLOCK` (both inclusive, possibly the same call).  Its *payload* is the concatenation of the
blocks that are actually stored (non-empty, not sparse) — exactly what `sqfs_data_reader_t` reads
sequentially from the location returned by the `LAST` call, using the block sizes recorded in the inode.

Read-back (`readbackOk`): at every later time the bytes at `[location, location + |payload|)` of the output
file are the payload.  That is the whole content of "deduplication never changes data": whatever location the
writer hands out — the file's own, or an older one — must hold the file's bytes.
-/
import Sqfs.Model.BlockWriter
namespace Sqfs.BlockWriter
open Sqfs.Consts

def Call.first (c : Call) : Bool := hasFlag c.flags blkFirstBlock
def Call.last (c : Call) : Bool := hasFlag c.flags blkLastBlock
/-- the call appends to the file (condition of line 138 of block_writer.c) -/
def Call.stored (c : Call) : Bool := c.data.length != 0 && !hasFlag c.flags blkIsSparse

/-- a stored block as the history sees it: upper and lower half of the 64-bit `hash`, and the bytes -/
structure Blk where
  word : Nat
  chk  : UInt32
  data : Bytes
deriving DecidableEq, Repr

/-- concatenated bytes of a list of stored blocks -/
def blkBytes : List Blk → Bytes
  | [] => []
  | b :: r => b.data ++ blkBytes r

def Call.blk (c : Call) : Blk := ⟨mkWord c.data.length c.flags, c.chk, c.data⟩
def Call.dontDedup (c : Call) : Bool := hasFlag c.flags blkDontDeduplicate

/-- stored blocks of the file being assembled, after one more call -/
def fileStep (acc : List Blk) (c : Call) : List Blk :=
  (if c.first then [] else acc) ++ (if c.stored then [c.blk] else [])

/-- per call: `some blocks` when the call ends a file, else `none` (`acc` = stored blocks so far) -/
def files (acc : List Blk) : List Call → List (Option (List Blk))
  | [] => []
  | c :: cs =>
    let acc' := fileStep acc c
    (if c.last then some acc' else none) :: files acc' cs

/-- Protocol the block processor follows (frontend.c: the first block of a file carries `FIRST`, the
sentinel / last block carries `LAST`; fragment blocks carry neither and are written between files):
every `LAST` is preceded, since the previous `LAST`, by a `FIRST` (possibly on the same call).
`opened` = a `FIRST` has been seen since the last `LAST`. -/
def wf (opened : Bool) : List Call → Bool
  | [] => true
  | c :: cs =>
    if c.last then (opened || c.first) && wf false cs
    else wf (opened || c.first) cs

/-- every block fits the 24-bit size field of the history word -/
def sizesOk (cs : List Call) : Prop := ∀ c ∈ cs, c.data.length < 2 ^ 24

/-- **The oracle.** Every file location handed out so far still holds that file's bytes:
`file[loc, loc + n) = concatenation of the file's stored blocks`. -/
def readbackOk (file : Bytes) : List (Option (List Blk)) → List Nat → Bool
  | [], [] => true
  | none :: ps, _ :: ls => readbackOk file ps ls
  | some b :: ps, loc :: ls => (slice file loc (blkBytes b).length == blkBytes b) && readbackOk file ps ls
  | _, _ => false

/-- a location handed out for a non-empty file -/
structure Rec where
  loc  : Nat
  blks : List Blk
deriving DecidableEq, Repr

/-- all (location, blocks) pairs handed out for non-empty files -/
def recsOf (acc : List Blk) : List Call → List Nat → List Rec
  | c :: cs, loc :: ls =>
    let acc' := fileStep acc c
    if c.last && !acc'.isEmpty then ⟨loc, acc'⟩ :: recsOf acc' cs ls else recsOf acc' cs ls
  | _, _ => []

/-- **Sharing is complete.** A non-empty file written without `DONT_DEDUPLICATE` whose stored blocks (sizes,
raw/compressed bits, checksums and bytes) equal those of an earlier file gets a location at or before that
earlier file's location (it is *the earliest* matching run, so it lies at or before every equal predecessor),
i.e. its own copy is given up.  `recs` = files seen before. -/
def shareCompleteOk (recs : List Rec) (acc : List Blk) : List Call → List Nat → Bool
  | [], [] => true
  | c :: cs, loc :: ls =>
    let acc' := fileStep acc c
    (if c.last && !acc'.isEmpty && !c.dontDedup
      then recs.all (fun r => decide (r.blks = acc' → loc ≤ r.loc)) else true)
    && shareCompleteOk (if c.last && !acc'.isEmpty then recs ++ [⟨loc, acc'⟩] else recs) acc' cs ls
  | _, _ => false

end Sqfs.BlockWriter
