/-
Specification side of the block writer (C08): what a caller of `write_data_block` is entitled to.

A *file* is whatever was submitted between a call carrying `SQFS_BLK_FIRST_BLOCK` and the next call carrying
`SQFS_BLK_LAST_BLOCK` (both inclusive, possibly the same call).  Its *payload* is the concatenation of the
blocks that are actually stored (non-empty, not sparse) — exactly what `sqfs_data_reader_t` reads
sequentially from the location returned by the `LAST` call, using the block sizes recorded in the inode.

Read-back (`readbackOk`): at every later time the bytes at `[location, location + |payload|)` of the output
file are the payload.  That is the whole content of "deduplication never changes data": whatever location the
writer hands out — the file's own, or an older one — must hold the file's bytes.
-/
import Sqfs.Model.BlockWriter
namespace Sqfs.BlockWriter
open Sqfs.Consts

def Call.first (c : Call) : Bool := hasFlag c.flags blkFirstBlock
def Call.last (c : Call) : Bool := hasFlag c.flags blkLastBlock
/-- the call appends to the file (condition of line 138 of block_writer.c) -/
def Call.stored (c : Call) : Bool := c.data.length != 0 && !hasFlag c.flags blkIsSparse

/-- a stored block as the history sees it: upper and lower half of the 64-bit `hash`, and the bytes -/
structure Blk where
  word : Nat
  chk  : UInt32
  data : Bytes
deriving DecidableEq, Repr

/-- concatenated bytes of a list of stored blocks -/
def blkBytes : List Blk → Bytes
  | [] => []
  | b :: r => b.data ++ blkBytes r

def Call.blk (c : Call) : Blk := ⟨mkWord c.data.length c.flags, c.chk, c.data⟩
def Call.dontDedup (c : Call) : Bool := hasFlag c.flags blkDontDeduplicate

/-- stored blocks of the file being assembled, after one more call -/
def fileStep (acc : List Blk) (c : Call) : List Blk :=
  (if c.first then [] else acc) ++ (if c.stored then [c.blk] else [])

/-- per call: `some blocks` when the call ends a file, else `none` (`acc` = stored blocks so far) -/
def files (acc : List Blk) : List Call → List (Option (List Blk))
  | [] => []
  | c :: cs =>
    let acc' := fileStep acc c
    (if c.last then some acc' else none) :: files acc' cs

/-- Protocol the block processor follows (frontend.c: the first block of a file carries `FIRST`, the
sentinel / last block carries `LAST`; fragment blocks carry neither and are written between files):
every `LAST` is preceded, since the previous `LAST`, by a `FIRST` (possibly on the same call).
`opened` = a `FIRST` has been seen since the last `LAST`. -/
def wf (opened : Bool) : List Call → Bool
  | [] => true
  | c :: cs =>
    if c.last then (opened || c.first) && wf false cs
    else wf (opened || c.first) cs

/-- every block fits the 24-bit size field of the history word -/
def sizesOk (cs : List Call) : Prop := ∀ c ∈ cs, c.data.length < 2 ^ 24

/-- **The oracle.** Every file location handed out so far still holds that file's bytes:
`file[loc, loc + n) = concatenation of the file's stored blocks`. -/
def readbackOk (file : Bytes) : List (Option (List Blk)) → List Nat → Bool
  | [], [] => true
  | none :: ps, _ :: ls => readbackOk file ps ls
  | some b :: ps, loc :: ls => (slice file loc (blkBytes b).length == blkBytes b) && readbackOk file ps ls
  | _, _ => false

/-! ### every location a caller keeps, and the strengthened protocol

`process_completed_block` (backend.c) keeps two kinds of locations: the one returned for a `LAST` call (inode
`block start`) and the one returned for a fragment block (`sqfs_frag_table_set`).  A fragment block is written
with neither `FIRST` nor `LAST`; what protects it from `deduplicate_blocks` is that it is written *between*
files: `file_start` is moved past it by the next `FIRST` before any truncation can happen.  `claimsOf` lists,
per call, the bytes the returned location has to hold for ever: a file's payload for a `LAST` call, the
block's own bytes for a stored call made outside every file; nothing for a call inside a file (its location
is not kept by anybody: the file may be given an older copy and its own blocks cut). -/

def Call.fragBlk (c : Call) : Bool := hasFlag c.flags blkFragmentBlock

/-- the call is made outside every file: no `FIRST` since the last `LAST`, and it carries neither -/
def Call.outside (opened : Bool) (c : Call) : Bool := !(opened || c.first) && !c.last

/-- per call: the bytes its location must keep holding (`opened`, `acc` as in `wf`, `files`) -/
def claimsOf (opened : Bool) (acc : List Blk) : List Call → List (Option Bytes)
  | [] => []
  | c :: cs =>
    let acc' := fileStep acc c
    (if c.last then some (blkBytes acc')
     else if c.outside opened && c.stored then some c.data else none)
      :: claimsOf (if c.last then false else opened || c.first) acc' cs

/-- **The oracle, every kept location.** -/
def holdsAll (file : Bytes) : List (Option Bytes) → List Nat → Bool
  | [], [] => true
  | none :: ps, _ :: ls => holdsAll file ps ls
  | some b :: ps, loc :: ls => (slice file loc b.length == b) && holdsAll file ps ls
  | _, _ => false

/-- The protocol the block processor really follows (proved for its model in `Sqfs.C08.stream_wfS`,
`Model/C08Stream.lean`): `wf`, and a fragment block (`SQFS_BLK_FRAGMENT_BLOCK`) is never written between a
`FIRST` and the matching `LAST`, and carries neither flag. -/
def wfS (opened : Bool) : List Call → Bool
  | [] => true
  | c :: cs =>
    (if c.fragBlk then !opened && !c.first && !c.last else true) &&
    (if c.last then (opened || c.first) && wfS false cs
     else wfS (opened || c.first) cs)

/-- **The oracle for fragment blocks**: the location returned for every stored fragment block holds the block. -/
def fragBlocksOk (file : Bytes) : List Call → List Nat → Bool
  | [], [] => true
  | c :: cs, loc :: ls =>
    (if c.fragBlk && c.stored then slice file loc c.data.length == c.data else true) && fragBlocksOk file cs ls
  | _, _ => false

/-- the stored calls made outside every file, with the location returned -/
def looseOf (opened : Bool) : List Call → List Nat → List (Nat × Call)
  | c :: cs, loc :: ls =>
    (if c.outside opened && c.stored then [(loc, c)] else []) ++
      looseOf (if c.last then false else opened || c.first) cs ls
  | _, _ => []

/-- a location handed out for a non-empty file -/
structure Rec where
  loc  : Nat
  blks : List Blk
deriving DecidableEq, Repr

/-- all (location, blocks) pairs handed out for non-empty files -/
def recsOf (acc : List Blk) : List Call → List Nat → List Rec
  | c :: cs, loc :: ls =>
    let acc' := fileStep acc c
    if c.last && !acc'.isEmpty then ⟨loc, acc'⟩ :: recsOf acc' cs ls else recsOf acc' cs ls
  | _, _ => []

/-- **Sharing is complete.** A non-empty file written without `DONT_DEDUPLICATE` whose stored blocks (sizes,
raw/compressed bits, checksums and bytes) equal those of an earlier file gets a location at or before that
earlier file's location (it is *the earliest* matching run, so it lies at or before every equal predecessor),
i.e. its own copy is given up.  `recs` = files seen before. -/
def shareCompleteOk (recs : List Rec) (acc : List Blk) : List Call → List Nat → Bool
  | [], [] => true
  | c :: cs, loc :: ls =>
    let acc' := fileStep acc c
    (if c.last && !acc'.isEmpty && !c.dontDedup
      then recs.all (fun r => decide (r.blks = acc' → loc ≤ r.loc)) else true)
    && shareCompleteOk (if c.last && !acc'.isEmpty then recs ++ [⟨loc, acc'⟩] else recs) acc' cs ls
  | _, _ => false

/-! ### A specification without checksums (the data-block clause of `specPack`, DESIGN.md Appendix B)

State: what the file held before, and the stored blocks (size word + bytes) in file order; the file *is*
`pre ++ blocks`.  On `LAST`: the smallest `r < file_start` whose `count` size words equal the file's **and**
whose bytes equal the file's bytes gives the location; the history is cut to `max (r + count) file_start`
entries.  No checksum appears: `Sqfs.C08.bw_refines_spec` shows the block writer computes exactly this for every
checksum function, so the checksum only ever saves comparisons. -/

structure SBlk where
  word : Nat
  data : Bytes
deriving DecidableEq, Repr

structure SState where
  pre       : Bytes
  hist      : List SBlk
  fileStart : Nat
deriving Repr

def sBytes : List SBlk → Bytes
  | [] => []
  | b :: r => b.data ++ sBytes r

def SState.file (ss : SState) : Bytes := ss.pre ++ sBytes ss.hist

/-- byte offset of stored block `i` -/
def sOffset (ss : SState) (i : Nat) : Nat := ss.pre.length + (sBytes (ss.hist.take i)).length

/-- does the run of `count` blocks at `r` carry the same size words and the same bytes as the blocks from `fs` on? -/
def sMatchAt (hist : List SBlk) (fs r : Nat) : Bool :=
  let own := hist.drop fs
  let cand := (hist.drop r).take own.length
  cand.map (·.word) == own.map (·.word) && sBytes cand == sBytes own

/-- smallest matching index below `fs`, else `fs` -/
def sFind (hist : List SBlk) (fs : Nat) : Nat := ((List.range fs).find? (sMatchAt hist fs)).getD fs

def specWrite (ss : SState) (flags : Nat) (data : Bytes) : SState × Nat :=
  let ss1 := if hasFlag flags blkFirstBlock then { ss with fileStart := ss.hist.length } else ss
  let loc := ss1.file.length
  let ss2 :=
    if data.length != 0 && !hasFlag flags blkIsSparse then
      { ss1 with hist := ss1.hist ++ [⟨mkWord data.length flags, data⟩] }
    else ss1
  if hasFlag flags blkLastBlock then
    let count := ss2.hist.length - ss2.fileStart
    if count = 0 then (ss2, 0)
    else if hasFlag flags blkDontDeduplicate then (ss2, sOffset ss2 ss2.fileStart)
    else
      let r := sFind ss2.hist ss2.fileStart
      if r < ss2.fileStart then
        ({ ss2 with hist := ss2.hist.take (max (r + count) ss2.fileStart) }, sOffset ss2 r)
      else (ss2, sOffset ss2 ss2.fileStart)
  else (ss2, loc)

/-- calls without checksums: `(flags, data)` -/
def specRun (ss : SState) : List (Nat × Bytes) → SState × List Nat
  | [] => (ss, [])
  | (fl, d) :: cs =>
    let r := specWrite ss fl d
    let rest := specRun r.1 cs
    (rest.1, r.2 :: rest.2)

end Sqfs.BlockWriter
