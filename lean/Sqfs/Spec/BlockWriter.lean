/-
Specification side of the block writer (C08): what a caller of `write_data_block` is entitled to.

A *file* is whatever was submitted between a call carrying `SQFS_BLK_FIRST_BLOCK` and the next call carrying
`SQFS_BLK_LAST_BLOCK` (both inclusive, possibly the same call).  Its *payload* is the concatenation of the
blocks that are actually stored (non-empty, not sparse) — exactly what `sqfs_data_reader_t` reads
sequentially from the location returned by the `LAST` call, using the block sizes recorded in the inode.

Read-back (`readbackOk`): at every later time the bytes at `[location, location + |payload|)` of the output
file are the payload.  That is the whole content of "deduplication never changes data": whatever location the
writer hands out — the file's own, or an older one — must hold the file's bytes.
-/
import Sqfs.Model.BlockWriter
namespace Sqfs.BlockWriter
open Sqfs.Consts

def Call.first (c : Call) : Bool := hasFlag c.flags blkFirstBlock
def Call.last (c : Call) : Bool := hasFlag c.flags blkLastBlock
/-- the call appends to the file (condition of line 138 of block_writer.c) -/
def Call.stored (c : Call) : Bool := c.data.length != 0 && !hasFlag c.flags blkIsSparse

/-- payload of the file being assembled, after one more call -/
def payloadStep (acc : Bytes) (c : Call) : Bytes :=
  (if c.first then [] else acc) ++ (if c.stored then c.data else [])

/-- per call: `some payload` when the call ends a file, else `none` (`acc` = payload so far) -/
def payloads (acc : Bytes) : List Call → List (Option Bytes)
  | [] => []
  | c :: cs =>
    let acc' := payloadStep acc c
    (if c.last then some acc' else none) :: payloads acc' cs

/-- Protocol the block processor follows (frontend.c: the first block of a file carries `FIRST`, the
sentinel / last block carries `LAST`; fragment blocks carry neither and are written between files):
every `LAST` is preceded, since the previous `LAST`, by a `FIRST` (possibly on the same call).
`opened` = a `FIRST` has been seen since the last `LAST`. -/
def wf (opened : Bool) : List Call → Bool
  | [] => true
  | c :: cs =>
    if c.last then (opened || c.first) && wf false cs
    else wf (opened || c.first) cs

/-- every block fits the 24-bit size field of the history word -/
def sizesOk (cs : List Call) : Prop := ∀ c ∈ cs, c.data.length < 2 ^ 24

/-- The oracle: every file location handed out so far still holds that file's payload. -/
def readbackOk (file : Bytes) : List (Option Bytes) → List Nat → Bool
  | [], [] => true
  | none :: ps, _ :: ls => readbackOk file ps ls
  | some p :: ps, loc :: ls => (slice file loc p.length == p) && readbackOk file ps ls
  | _, _ => false

/-- the own location of a file = where its first stored block went; `none` when nothing was stored -/
def sharedWithEarlier (ownLoc : Option Nat) (loc : Nat) : Bool :=
  match ownLoc with
  | none => false
  | some o => loc < o

end Sqfs.BlockWriter
