/-
Specification of C14, in terms of the output file only.

A *crash point* is a position `k` in the sequence `ops` of system calls a packer issued on its output file:
the process is killed after the first `k` of them.  The file left behind is `image (ops.take k)`.
The property: that file is either rejected by the readers, or it is the complete image (possibly still
lacking the trailing zero padding to the device block size).
-/
import Sqfs.Model.Writer
namespace Sqfs.Spec.Writer
open Sqfs.Writer

/-- `f` is the complete image `full`, up to trailing zero padding that has not been written yet -/
def CompleteUpToPadding (f full : Bytes) : Prop :=
  ∃ pad : Bytes, full = f ++ pad ∧ ∀ b ∈ pad, b = 0

/-- the C14 statement for one log -/
def CrashSafe (ops : List Op) : Prop :=
  ∀ k, readerAccepts (image (ops.take k)) = false ∨ CompleteUpToPadding (image (ops.take k)) (image ops)

/-- the C14 statement for the log of a run that *fails* before it commits (damaged input, write fault, failed
allocation): there is no complete image to compare with, so no crash point — the state at exit before the cleanup
`unlink` included — may be accepted by the readers -/
def NeverAccepted (ops : List Op) : Prop :=
  ∀ k, readerAccepts (image (ops.take k)) = false

/-- executable form of the two alternatives for the file `f` left at one crash point, given the complete image
`full` (used by the runner as a monitor on the *implementation's* log): `some true` = rejected,
`some false` = complete up to padding, `none` = neither, i.e. the property is violated at this crash point -/
def statusOf (f full : Bytes) : Option Bool :=
  if readerAccepts f = false then some true
  else if f.length ≤ full.length ∧ full.take f.length = f ∧ isZeros (full.drop f.length) then some false
  else none

/-- the monitor for one crash point of a *failing* run: `ref` is the complete image of the fault-free run on the
same input when there is one (write faults), `none` when the input itself is damaged.  `some true` = rejected,
`some false` = the complete image up to padding (only possible when the failure came after the commit, i.e. in the
padding), `none` = accepted although it is not the complete image: the property is violated -/
def failStatusOf (f : Bytes) (ref : Option Bytes) : Option Bool :=
  match ref with
  | none => if readerAccepts f = false then some true else none
  | some full => statusOf f full

def crashPointStatus (ops : List Op) (k : Nat) : Option Bool :=
  statusOf (image (ops.take k)) (image ops)

/-- the monitor agrees with the specification -/
theorem statusOf_sound (f full : Bytes) (h : (statusOf f full).isSome) :
    readerAccepts f = false ∨ CompleteUpToPadding f full := by
  unfold statusOf at h
  split at h
  · left; assumption
  · split at h
    · rename_i hc
      right
      refine ⟨full.drop f.length, ?_, ?_⟩
      · conv => lhs; rw [← List.take_append_drop f.length full]
        rw [hc.2.1]
      · have := hc.2.2
        simpa [isZeros] using this
    · simp at h

end Sqfs.Spec.Writer
