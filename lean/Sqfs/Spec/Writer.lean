/-
Specification of C14, in terms of the output file only.

A *crash point* is a position `k` in the sequence `ops` of system calls a packer issued on its output file:
the process is killed after the first `k` of them.  The file left behind is `image (ops.take k)`.
The property: that file is either rejected by the readers, or it is the complete image (possibly still
lacking the trailing zero padding to the device block size).
-/
import Sqfs.Model.Writer
namespace Sqfs.Spec.Writer
open Sqfs.Writer

/-- `f` is the complete image `full`, up to trailing zero padding that has not been written yet -/
def CompleteUpToPadding (f full : Bytes) : Prop :=
  ∃ pad : Bytes, full = f ++ pad ∧ ∀ b ∈ pad, b = 0

/-- the C14 statement for one log -/
def CrashSafe (ops : List Op) : Prop :=
  ∀ k, readerAccepts (image (ops.take k)) = false ∨ CompleteUpToPadding (image (ops.take k)) (image ops)

/-- executable form of the two alternatives for one crash point (used by the runner as a monitor on the
*implementation's* log): `some true` = rejected, `some false` = complete up to padding, `none` = neither -/
def crashPointStatus (ops : List Op) (k : Nat) : Option Bool :=
  let f := image (ops.take k)
  let full := image ops
  if readerAccepts f = false then some true
  else if f.length ≤ full.length ∧ full.take f.length = f ∧ isZeros (full.drop f.length) then some false
  else none

end Sqfs.Spec.Writer
