/-
Specification side of fragment deduplication (C08).

A fragment (tail end) that is not a hole is answered with a location `(index, offset)`; the inode stores it and
a reader later takes `size` bytes at `offset` of the *uncompressed* fragment block `index`.  The property:
those bytes are the fragment's bytes (`fragSoundOk`), whether the location is fresh or an older fragment's; and
a fragment equal to one stored before occupies no new space (`Sqfs.C08.frag_share`).
-/
import Sqfs.Model.FragDedup
namespace Sqfs.FragDedup
open Sqfs.Consts

/-- is the fragment taken for a hole (`IS_SPARSE` set by `process_block`)? -/
def isSparse (d : Bytes) (flags : Nat) : Bool := !hasFlag flags blkIgnoreSparse && allZero d

/-- The only requirement on a fragment: it is not empty (`frontend.c` only ever submits a tail end of
`size % block_size > 0` bytes; an empty one would make `chunk_info_equals` itself report `SQFS_ERROR_CORRUPTED`).
All-zero tail ends marked `nosparse` are covered since /repo 47f7b3d (a fragment block is never sparse). -/
def fragOk (d : Bytes) (_flags : Nat) : Prop := d ≠ []

def Ev.ok : Ev → Prop
  | .frag d fl => fragOk d fl
  | _ => True

def evsOk (evs : List Ev) : Prop := ∀ e ∈ evs, e.ok

/-- **The oracle.** `st` = state at the end of the run.  Every location handed out addresses, in what a reader
obtains for fragment block `index` (re-read from disk and uncompressed, or — for a block not yet written — the
bytes that will be written), exactly the fragment's bytes; `sparse` is answered only for holes. -/
def fragSoundOk (codec : Codec) (st : State) : List Ev → List (Option Res) → Bool
  | [], [] => true
  | .frag d _ :: es, some (.loc i o) :: rs =>
    (match readBlock codec st i with
      | some c => slice c o d.length == d
      | none => false) && fragSoundOk codec st es rs
  | .frag d fl :: es, some .sparse :: rs => isSparse d fl && fragSoundOk codec st es rs
  | .written _ :: es, none :: rs => fragSoundOk codec st es rs
  | .finish :: es, none :: rs => fragSoundOk codec st es rs
  | _, _ => false

/-- the fragments stored so far with the rest of their lookup key: the checksum they were stored under and their
`DONT_COMPRESS` flag -/
def seenOf (h : Bytes → UInt32) : List Ev → List (Bytes × UInt32 × Nat)
  | [] => []
  | .frag d fl :: es => seenOf h es ++ (if isSparse d fl then [] else [(d, fragHash h d fl, fl &&& blkDontCompress)])
  | _ :: es => seenOf h es

end Sqfs.FragDedup
