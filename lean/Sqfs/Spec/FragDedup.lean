/-
Specification side of fragment deduplication (C08).

A fragment (tail end) that is not a hole is answered with a location `(index, offset)`; the inode stores it and
a reader later takes `size` bytes at `offset` of the *uncompressed* fragment block `index`.  The property:
those bytes are the fragment's bytes (`fragSoundOk`), whether the location is fresh or an older fragment's; and
a fragment equal to one stored before occupies no new space (`Sqfs.C08.frag_share`).
-/
import Sqfs.Model.FragDedup
namespace Sqfs.FragDedup
open Sqfs.Consts

/-- is the fragment taken for a hole (`IS_SPARSE` set by `process_block`)? -/
def isSparse (d : Bytes) (flags : Nat) : Bool := !hasFlag flags blkIgnoreSparse && allZero d

/-- The inputs C08 speaks about: no all-zero tail end marked `nosparse`.  (Such a fragment can end up in a
fragment block that is entirely zero, which `process_block` takes for a hole and never writes — defect D24,
owned by C17.) -/
def fragOk (d : Bytes) (flags : Nat) : Prop := hasFlag flags blkIgnoreSparse = true → allZero d = false

def Ev.ok : Ev → Prop
  | .frag d fl => fragOk d fl
  | _ => True

def evsOk (evs : List Ev) : Prop := ∀ e ∈ evs, e.ok

/-- **The oracle.** `st` = state at the end of the run.  Every location handed out addresses, in what a reader
obtains for fragment block `index` (re-read from disk and uncompressed, or — for a block not yet written — the
bytes that will be written), exactly the fragment's bytes; `sparse` is answered only for holes. -/
def fragSoundOk (codec : Codec) (st : State) : List Ev → List (Option Res) → Bool
  | [], [] => true
  | .frag d _ :: es, some (.loc i o) :: rs =>
    (match readBlock codec st i with
      | some c => slice c o d.length == d
      | none => false) && fragSoundOk codec st es rs
  | .frag d fl :: es, some .sparse :: rs => isSparse d fl && fragSoundOk codec st es rs
  | .written _ :: es, none :: rs => fragSoundOk codec st es rs
  | .finish :: es, none :: rs => fragSoundOk codec st es rs
  | _, _ => false

/-- the fragments stored so far with the checksum they were stored under -/
def seenOf (h : Bytes → UInt32) : List Ev → List (Bytes × UInt32)
  | [] => []
  | .frag d fl :: es => seenOf h es ++ (if isSparse d fl then [] else [(d, fragHash h d fl)])
  | _ :: es => seenOf h es

end Sqfs.FragDedup
