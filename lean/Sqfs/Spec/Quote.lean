/-
Specification the C16 theorems are stated against: the `sqfs_dir_entry_t` (+ `extra`) that a line of
`rdsquashfs --describe` must decode to in `gensquashfs --pack-file` for the rebuilt image to have the same path,
type, permission bits, owner, symlink target, device number and (through the input location) file contents.
-/
import Sqfs.Model.Quote
import Sqfs.Spec.Path
namespace Sqfs.Quote
open Sqfs.Path (Bytes joinSlash)
open Sqfs.Consts

/-- the `S_IFMT` bits of a node kind -/
def ifmtOf : Kind → Nat
  | .dir => sIFDIR | .file => sIFREG | .slink => sIFLNK | .chr => sIFCHR
  | .blk => sIFBLK | .fifo => sIFIFO | .sock => sIFSOCK | .other => 0

/--
The entry that must reach `fstree_add_generic` for the node at `comps` (names from below the root down to the
node itself; `[]` is the root directory).  `none`: the node has a type that cannot be described.
* path  = the names joined by single slashes (what `canonicalize_name` leaves of the absolute path);
* mode  = type bits | permission bits;  uid/gid unchanged;
* rdev  = the device number for `nod`, 0 otherwise;
* extra = the symlink target, byte for byte; for a regular file the input location: the image path itself
          (relative to the pack directory) or `<unpack-root>/<image path>` when `--unpack-root` was given.
-/
def specEntry (unpackRoot : Option Bytes) (comps : List Bytes) (n : Node) : Option Entry :=
  let path := joinSlash comps
  let base : Entry := { name := path, mode := n.perm ||| ifmtOf n.kind, uid := n.uid, gid := n.gid, rdev := 0, extra := none }
  match n.kind with
  | .other => none
  | .slink => some { base with extra := some n.target }
  | .file => some { base with extra := some (match unpackRoot with | none => path | some r => r ++ SL :: path) }
  | .chr | .blk => some { base with rdev := n.devno }
  | .dir | .fifo | .sock => some base

/-- a name that can be a directory entry of an image whose describe output is line-oriented: non-empty, not "."
or "..", no '/', no NUL, no LF -/
def GoodName (c : Bytes) : Prop := c ≠ [] ∧ c ≠ [46] ∧ c ≠ [46, 46] ∧ SL ∉ c ∧ NUL ∉ c ∧ LF ∉ c

/-- a name that can be a directory entry of an image at all (what `sqfs_tree_node_get_path` accepts and a C string
can hold): `GoodName` without the line-feed clause -/
def ImgName (c : Bytes) : Prop := c ≠ [] ∧ c ≠ [46] ∧ c ≠ [46, 46] ∧ SL ∉ c ∧ NUL ∉ c

theorem GoodName.img {c : Bytes} (h : GoodName c) : ImgName c := ⟨h.1, h.2.1, h.2.2.1, h.2.2.2.1, h.2.2.2.2.1⟩

/-- a string that fits on a describe line -/
def LineSafe (s : Bytes) : Prop := NUL ∉ s ∧ LF ∉ s

/-- field widths of the on-disk inode / resolved ids; the target matters for symlinks only (`inode->extra` of any
other kind is never read by `describe_tree`) -/
def Node.Wf (n : Node) : Prop :=
  n.perm < 0o10000 ∧ n.uid < 2^32 ∧ n.gid < 2^32 ∧ n.devno < 2^32 ∧ (n.kind = .slink → LineSafe n.target)

end Sqfs.Quote

namespace Sqfs.Quote
open Sqfs.Path (Bytes)

mutual
/-- the entries the describe output of a (sub)tree must decode to: the node's own, then its children's, in
pre-order; only directories have children, node kinds that cannot be described contribute nothing -/
def specTree (unpackRoot : Option Bytes) (comps : List Bytes) : Tree → List Entry
  | .mk _ node children =>
    (specEntry unpackRoot comps node).toList ++
      (if node.kind = .dir then specForest unpackRoot comps children else [])
def specForest (unpackRoot : Option Bytes) (parents : List Bytes) : List Tree → List Entry
  | [] => []
  | .mk name node ch :: ts =>
    specTree unpackRoot (parents ++ [name]) (.mk name node ch) ++ specForest unpackRoot parents ts
end

mutual
/-- every name below is a good entry name and every node's fields are in range -/
def TreeOk : Tree → Prop
  | .mk name node children => GoodName name ∧ node.Wf ∧ ForestOk children
def ForestOk : List Tree → Prop
  | [] => True
  | t :: ts => TreeOk t ∧ ForestOk ts
end

/-- the tree of an image: a nameless root directory over good subtrees -/
def RootOk : Tree → Prop
  | .mk name node children => name = [] ∧ node.kind = .dir ∧ node.Wf ∧ ForestOk children

/-! ### the same without any line-feed clause: every tree an image can hold (C strings, 16/32-bit fields) -/

/-- field widths; a symlink target is a C string -/
def Node.WfN (n : Node) : Prop :=
  n.perm < 0o10000 ∧ n.uid < 2^32 ∧ n.gid < 2^32 ∧ n.devno < 2^32 ∧ (n.kind = .slink → NUL ∉ n.target)

mutual
def TreeOkN : Tree → Prop
  | .mk name node children => ImgName name ∧ node.WfN ∧ ForestOkN children
def ForestOkN : List Tree → Prop
  | [] => True
  | t :: ts => TreeOkN t ∧ ForestOkN ts
end

def RootOkN : Tree → Prop
  | .mk name node children => name = [] ∧ node.kind = .dir ∧ node.WfN ∧ ForestOkN children

end Sqfs.Quote
