/-
Specification for C12: what the clients of the I/O layer are entitled to see, stated without any
operating system.

* `slice`: the bytes of a file in a range; `pwriteBytes` (in the model file) is the effect of a positional write.
* `Ideal`: the file input stream as a *window over the file content*: `pos` bytes have been consumed, the next
  `avail` bytes are visible.  `get want` enlarges the window to `min B (bytes left)` when it is empty or
  smaller than `min want B`; `advance n` consumes `n` bytes (or the whole window).  No buffer, no OS.
* `nextLine`: the line `istream_get_line` must return from the bytes that are left.
-/
import Sqfs.Model.IoLoops
namespace Sqfs.IoLoops.Spec
open Sqfs.IoLoops

/-- `size` bytes of `file` starting at `off` (fewer if the file ends) -/
def slice (file : Bytes) (off size : Nat) : Bytes := (file.drop off).take size

/-- the ideal stream: a window `[pos, pos + avail)` over the content -/
structure Ideal where
  pos : Nat
  avail : Nat
  deriving DecidableEq, Repr

def idealGet (B : Nat) (data : Bytes) (s : Ideal) (want : Nat) (os : OS) : GRet × Bytes × Ideal × OS :=
  let w := if want > B then B else want
  let avail' := if s.avail = 0 ∨ s.avail < w then min B (data.length - s.pos) else s.avail
  (if avail' = 0 then .eof else .ok, slice data s.pos avail', { s with avail := avail' }, os)

def idealAdv (s : Ideal) (count : Nat) : Ideal :=
  if count < s.avail then ⟨s.pos + count, s.avail - count⟩ else ⟨s.pos + s.avail, 0⟩

def idealStream (B : Nat) (data : Bytes) : StreamI Ideal :=
  ⟨idealGet B data, idealAdv, fun s => data.length - s.pos⟩

/-- Split off the first line: the bytes before the first '\n' and the bytes after it; `none` when there is no '\n'. -/
def cutLine : Bytes → Option (Bytes × Bytes)
  | [] => none
  | c :: t =>
    if c = 10 then some ([], t)
    else match cutLine t with
      | some (l, r) => some (c :: l, r)
      | none => none

/-- What `istream_get_line` must deliver from the remaining bytes `rest` (fuel = `rest.length + 1` suffices):
the line (or `none` at end of input), the bytes left after it, the updated line counter. -/
def nextLine (flags : Nat) : Nat → Bytes → Nat → Option Bytes × Bytes × Nat
  | 0, rest, ln => (none, rest, ln)
  | fuel + 1, rest, ln =>
    match cutLine rest with
    | some (l, r) =>
      let t := trimFlags flags (stripCr l)
      if t.length > 0 ∨ !skipEmpty flags then (some t, r, ln) else nextLine flags fuel r (ln + 1)
    | none =>
      if rest.length = 0 then (none, [], ln)
      else
        let t := trimFlags flags rest
        if t.length > 0 ∨ !skipEmpty flags then (some t, [], ln) else (none, [], ln)

end Sqfs.IoLoops.Spec
