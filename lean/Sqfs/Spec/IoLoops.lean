/-
Specification for C12: what the clients of the I/O layer are entitled to see, stated without any
operating system.

* `slice`: the bytes of a file in a range; `pwriteBytes` (in the model file) is the effect of a positional write.
* `Ideal`: the file input stream as a *window over the file content*: `pos` bytes have been consumed, the next
  `avail` bytes are visible.  `get want` enlarges the window to `min B (bytes left)` when it is empty or
  smaller than `min want B`; `advance n` consumes `n` bytes (or the whole window).  No buffer, no OS.
* `nextLine`: the line `istream_get_line` must return from the bytes that are left (a byte-at-a-time scanner).
-/
import Sqfs.Model.IoLoops
namespace Sqfs.IoLoops.Spec
open Sqfs.IoLoops

/-- `size` bytes of `file` starting at `off` (fewer if the file ends) -/
def slice (file : Bytes) (off size : Nat) : Bytes := (file.drop off).take size

/-- the ideal stream: a window `[pos, pos + avail)` over the content -/
structure Ideal where
  pos : Nat
  avail : Nat
  deriving DecidableEq, Repr

def idealGet (B : Nat) (data : Bytes) (s : Ideal) (want : Nat) (os : OS) : GRet × Bytes × Ideal × OS :=
  let w := if want > B then B else want
  let avail' := if s.avail = 0 ∨ s.avail < w then min B (data.length - s.pos) else s.avail
  (if avail' = 0 then .eof else .ok, slice data s.pos avail', { s with avail := avail' }, os)

def idealAdv (s : Ideal) (count : Nat) : Ideal :=
  if count < s.avail then ⟨s.pos + count, s.avail - count⟩ else ⟨s.pos + s.avail, 0⟩

def idealStream (B : Nat) (data : Bytes) : StreamI Ideal :=
  ⟨idealGet B data, idealAdv, fun s => data.length - s.pos⟩

/-- What `istream_get_line` must deliver from the bytes `rest` that are left, read one byte at a time:
`cur` is the line collected so far.  Result: the line (`none` = end of input), the bytes left after it, the
updated line counter.  A line ends at '\n' (one '\r' before it is dropped) or at the end of the input (where an
empty remainder is not a line); the flags trim it; with `SKIP_EMPTY` empty lines are counted and skipped. -/
def nextLineAux (flags : Nat) : Bytes → Bytes → Nat → Option Bytes × Bytes × Nat
  | cur, [], ln =>
    if cur.length = 0 then (none, [], ln)
    else
      let t := trimFlags flags cur
      if t.length > 0 ∨ !skipEmpty flags then (some t, [], ln) else (none, [], ln)
  | cur, c :: r, ln =>
    if c = 10 then
      let t := trimFlags flags (stripCr cur)
      if t.length > 0 ∨ !skipEmpty flags then (some t, r, ln) else nextLineAux flags [] r (ln + 1)
    else nextLineAux flags (cur ++ [c]) r ln

def nextLine (flags : Nat) (rest : Bytes) (ln : Nat) : Option Bytes × Bytes × Nat :=
  nextLineAux flags [] rest ln

end Sqfs.IoLoops.Spec
