/-
Specification for the C04 fix-point: which flat trees come out of an image (`FromImage`), stated explicitly.
-/
import Sqfs.Model.TarFix
import Sqfs.Spec.TarHeader
namespace Sqfs.Tar
open Sqfs.Path (SL DOT canonicalize joinSlash)

/-- a path component as SquashFS stores it: not empty, not "." or "..", no '/', no NUL -/
def CleanComp (c : Bytes) : Prop := c ≠ [] ∧ c ≠ [DOT] ∧ c ≠ [DOT, DOT] ∧ SL ∉ c ∧ (0 : UInt8) ∉ c

instance (c : Bytes) : Decidable (CleanComp c) := by unfold CleanComp; infer_instance

/--
One node of a tree read from an image, together with the image's side data for it.

* `path` — non-empty, clean components (names canonical);
* `kind` — one of the six types tar can express (sockets are skipped by sqfs2tar with a warning and are not part of the claim);
* `explicit` — an image has no "implicitly created" directories;
* `uid`, `gid`, `mtime` — 32-bit on disk;
* `lnkMode` — symbolic links carry `0777` (what tar2sqfs stores), a hard link is reported as `S_IFLNK | 0777` (`dir_hl.c`);
* `lnkTarget` — links have a NUL-free target of at most `TAR_MAX_SYMLINK_LEN` bytes, `hardTarget`: a hard link's target is the
  canonical path of the first occurrence; `noTarget`: nothing else has a target;
* `dev` — 12 + 20 bit device numbers;
* `nameLen`, `contentLen`, `keyNul`, `paxLen` — the limits of the tar reader (`Encodable`).
-/
structure NodeOK (img : ImgData) (n : TNode) : Prop where
  pathNe : n.path ≠ []
  comps : ∀ c ∈ n.path, CleanComp c
  kind : fmt n.mode = S_IFREG ∨ fmt n.mode = S_IFDIR ∨ fmt n.mode = S_IFLNK ∨ fmt n.mode = S_IFCHR ∨ fmt n.mode = S_IFBLK ∨
         fmt n.mode = S_IFIFO
  explicit : n.implicit = false
  uid : n.uid ≤ 0xFFFFFFFF
  gid : n.gid ≤ 0xFFFFFFFF
  mtime : n.modTime ≤ 0xFFFFFFFF
  lnkMode : fmt n.mode = S_IFLNK → n.mode = S_IFLNK + 0o777
  hardMode : n.hardLink = true → fmt n.mode = S_IFLNK
  lnkTarget : fmt n.mode = S_IFLNK → ∃ tg, n.target = some tg ∧ (∀ x ∈ tg, x ≠ 0) ∧ tg.length ≤ 65536
  hardTarget : n.hardLink = true → ∃ tg, n.target = some tg ∧ canonicalize tg = some tg
  noTarget : fmt n.mode ≠ S_IFLNK → n.target = none
  dev : fmt n.mode = S_IFCHR ∨ fmt n.mode = S_IFBLK → (img.dev n.path).1 < 4096 ∧ (img.dev n.path).2 < 1048576
  nameLen : (joinSlash n.path).length + 1 ≤ 65536
  contentLen : (img.content n.path).length < U64
  keyNul : ∀ kv ∈ img.xattr n.path, ∀ x ∈ kv.1, x ≠ 0
  paxLen : (paxPayload (img.xattr n.path).reverse).length ≤ 65536

/--
**`FromImage img t`**: `t` is the flat tree of an image in the order its directory iterator reports it
(`sqfs_dir_iterator_create_recursive`: a directory before its content), without sockets:
every node is well-formed, no path occurs twice, and every proper prefix of a node's path is an earlier directory node.
-/
structure FromImage (img : ImgData) (t : List TNode) : Prop where
  nodes : ∀ n ∈ t, NodeOK img n
  distinct : ∀ i j (hi : i < t.length) (hj : j < t.length), t[i].path = t[j].path → i = j
  parents : ∀ i (hi : i < t.length) k, 0 < k → k < t[i].path.length →
    ∃ j, ∃ hj : j < t.length, j < i ∧ t[j].path = t[i].path.take k ∧ isDirMode t[j].mode = true

end Sqfs.Tar
