/-
C13 — the fail-stop property as a predicate on what can be observed of one run of a tool
(exit status, terminating signal / sanitizer report / hang, stderr, the output).  This is the oracle the
correspondence check evaluates on every real run; `Sqfs.C13.packer_meets_spec` / `reader_meets_spec` prove it of every run
of the model (with `sameAsFaultFree` read as "same step sequence").
-/
namespace Sqfs.FailStop.Spec

structure Observed where
  crashed : Bool          -- killed by a signal, sanitizer report, or timeout
  exit0 : Bool            -- exit status 0
  diagnostic : Bool       -- something was written to stderr
  packer : Bool           -- gensquashfs / tar2sqfs (must remove their partial output)
  outputLeft : Bool       -- the output file exists after the run
  sameAsFaultFree : Bool  -- output byte-identical to the fault-free run's
  deriving Repr, DecidableEq

/-- The property, per run in which a fault was injected. -/
def failStopOk (o : Observed) : Bool :=
  !o.crashed &&
  (if o.exit0 then o.sameAsFaultFree
   else o.diagnostic && (!o.packer || !o.outputLeft))

/-- Which clause fails (for reports). -/
def verdict (o : Observed) : String :=
  if o.crashed then "crash"
  else if o.exit0 then (if o.sameAsFaultFree then "ok" else "exit0-different-output")
  else if o.packer && o.outputLeft then "failure-output-left"
  else if !o.diagnostic then "failure-no-diagnostic"
  else "ok"

theorem verdict_ok_iff (o : Observed) : verdict o = "ok" ↔ failStopOk o = true := by
  cases o with
  | mk a b c d e f => cases a <;> cases b <;> cases c <;> cases d <;> cases e <;> cases f <;> decide

end Sqfs.FailStop.Spec
