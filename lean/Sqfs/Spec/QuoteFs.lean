/-
Specification for the step after the C16 round trip: the tree `gensquashfs` holds in memory (`fstree_t`) after it
has read the listing `rdsquashfs --describe` printed for the tree `t` of an image — what `rebuild_fstree` in
`Sqfs/Props/C16.lean` says `Sqfs.QuoteFs.buildFromFile` yields.

The rebuilt node of a node of `t` has
* the same name, the same owner, the same type and permission bits — except that every symbolic link gets
  `S_IFLNK | 0777` (`mknode` ignores a link's permission bits);
* the same link target / device number; for a regular file the input location `<path>` or `<unpack-root>/<path>`;
* `link_count` 1, for a directory 2 + the number of its children that were described;
* no node is a hard link (`FLAG_LINK_IS_HARD`): `rdsquashfs --describe` prints every name of a hard-link group as a
  `file` line of its own, never a `link` line — the names of a group come back as independent regular files;
* the modification time of `fstree_defaults_t` (a listing carries no time stamps);
and its children are the rebuilt children of the node, inserted one after the other with `insert_sorted` (for
pairwise different names the result is the list sorted by `strcmp`, whatever the order of insertion — a fact about
`insert_sorted` that is not needed and not proved here).  Nodes of a type that cannot be described are absent.
-/
import Sqfs.Model.QuoteFs
import Sqfs.Spec.Quote
namespace Sqfs.QuoteFs
open Sqfs.Path (Bytes joinSlash)
open Sqfs.Quote
open Sqfs.Consts

/-- attributes of the rebuilt node; `nkids` = number of children that were described -/
def attrOf (d : Defaults) (unpackRoot : Option Bytes) (comps : List Bytes) (n : Node) (nkids : Nat) : FAttr :=
  { mode := if n.kind = .slink then sIFLNK ||| 0o777 else n.perm ||| ifmtOf n.kind
    uid := n.uid
    gid := n.gid
    mtime := d.mtime
    linkCount := if n.kind = .dir then 2 + nkids else 1
    implicit := false
    rdev := if n.kind = .chr ∨ n.kind = .blk then n.devno else 0
    extra := match n.kind with
      | .slink => some n.target
      | .file => some (match unpackRoot with | none => joinSlash comps | some r => r ++ SL :: joinSlash comps)
      | _ => none }

mutual
/-- the rebuilt node of a describable node -/
def normTree (d : Defaults) (unpackRoot : Option Bytes) (comps : List Bytes) : Tree → FNode
  | .mk name node children =>
    let kids := if node.kind = .dir then normForest d unpackRoot comps [] children else []
    .mk name (attrOf d unpackRoot comps node kids.length) kids
/-- the children list after the rebuilt children `ts` were linked, one after the other, into a directory that held
`acc` (nodes of a type that cannot be described are skipped) -/
def normForest (d : Defaults) (unpackRoot : Option Bytes) (parents : List Bytes) (acc : List FNode) : List Tree → List FNode
  | [] => acc
  | .mk name node ch :: ts =>
    if node.kind = .other then normForest d unpackRoot parents acc ts
    else normForest d unpackRoot parents (insertSorted (normTree d unpackRoot (parents ++ [name]) (.mk name node ch)) acc) ts
end

mutual
/-- sibling names are pairwise different (in every directory of any image the reader accepts) and every directory
has fewer than 2³² − 3 children (`link_count` is 32 bits wide) -/
def Distinct : Tree → Prop
  | .mk _ _ children => ((children.map Tree.name).Nodup ∧ children.length < 2^32 - 3) ∧ DistinctF children
def DistinctF : List Tree → Prop
  | [] => True
  | t :: ts => Distinct t ∧ DistinctF ts
end

mutual
/-- no directory is nested deeper than SQFS_MAX_DIR_NESTING (`k` = depth of the node, root = 0) — true of every tree the
readers hand out (they refuse to descend further) -/
def Shallow (k : Nat) : Tree → Prop
  | .mk _ node children => (node.kind = .dir → k ≤ sqfsMaxDirNesting) ∧ ShallowF (k + 1) children
def ShallowF (k : Nat) : List Tree → Prop
  | [] => True
  | t :: ts => Shallow k t ∧ ShallowF k ts
end

end Sqfs.QuoteFs
