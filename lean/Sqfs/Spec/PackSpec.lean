/-
`specPack` — DESIGN.md Appendix B: what the data area, the fragment table and the per-file inode results of a
packed image must be, as a direct function of

  * the ordered file list (each file = user flags + content),
  * the block size `B`, the offset `base` at which the data area starts,
  * the block codec `c` (a parameter: `cmp`/`unc`) and the checksum function `h` (a parameter).

Nothing here mentions a queue, worker threads, the backlog or a schedule.  C02 proves that the implementation
model (`Sqfs/Model/BlockWriter.lean`, `FragDedup.lean`, block processor) computes exactly this for every
`(jobs, backlog, schedule)` (`Sqfs.C02.run_eq_specPack`, `Sqfs.C02.threaded_eq_specPack` in `Sqfs/Props/C02.lean`); C08
and C17 state their theorems against it, and `Sqfs.C02.threaded_directives` / `threaded_readback` carry them over.

Source of every clause (/repo working tree, squashfs-tools-ng 1.2.0 + fixes):
  frontend.c   `sqfs_block_processor_append` / `_end_file`      → block decomposition   (`fullBlocks`, `packFile`)
  block_processor.c `process_block`                              → per-block worker rule (`workData`, `fragKey`, `workFragBlock`)
  backend.c    `process_completed_block`                         → block words, sparse counter, start
  block_writer.c `write_data_block` / `deduplicate_blocks`       → history, whole-file dedup, truncation (`placeBlocks`)
  backend.c    `process_completed_fragment`                      → fragment dedup, packing, closing (`placeTail`, `addFragment`, `closeOpen`)
  block_processor.c `sqfs_block_processor_finish`                → `closeOpen` of the last open fragment block

Current behaviour (since /repo 47f7b3d, DESIGN.md §5 D24): a fragment block is **never** treated as sparse
(`workFragBlock` has no sparse branch; `process_block` tests `SQFS_BLK_FRAGMENT_BLOCK`).  The rule before that fix —
the fragment block inherits only `DONT_COMPRESS` from its members, so `process_block` may flag an all-zero fragment
block `IS_SPARSE` — is kept in `Sqfs/Model/PackCur.lean` / `Sqfs/Witness/C17.lean`.

Conventions.  A block size word is a `Word` (`sparse` = the C value 0, `stored n raw` = `n | (raw ? 1<<24 : 0)`),
`Word.toNat` gives the C value.  The writer's history entry `Stored` carries the payload itself, so the data
area is simply the concatenation of the payloads of `Out.blocks`, the block with index `i` lying at offset
`base + Σ_{j<i} |payload j|` (the writer appends at the end of the file and truncates only to the end of a
kept entry, so entries are contiguous — `block_writer.c`).
-/
import Sqfs.Generated.Consts
namespace Sqfs.Pack

abbrev Bytes := List UInt8

/-! ## inputs -/

/-- the user-settable `SQFS_BLK_*` flags that reach the block processor for one file -/
structure Flags where
  dontCompress : Bool := false     -- SQFS_BLK_DONT_COMPRESS      (sort file: `dont_compress`)
  dontHash : Bool := false         -- SQFS_BLK_DONT_HASH          (never set by the tools)
  dontFragment : Bool := false     -- SQFS_BLK_DONT_FRAGMENT      (sort file: `dont_fragment`; `-T` for files > B)
  dontDedup : Bool := false        -- SQFS_BLK_DONT_DEDUPLICATE   (sort file: `dont_deduplicate`)
  ignoreSparse : Bool := false     -- SQFS_BLK_IGNORE_SPARSE      (sort file: `nosparse`)
  deriving DecidableEq, Repr

def testBit (n bit : Nat) : Bool := n &&& bit != 0

/-- decode a C flag word with the constants regenerated from `sqfs/block.h` -/
def Flags.ofNat (n : Nat) : Flags :=
  { dontCompress := testBit n Consts.blkDontCompress
    dontHash := testBit n Consts.blkDontHash
    dontFragment := testBit n Consts.blkDontFragment
    dontDedup := testBit n Consts.blkDontDeduplicate
    ignoreSparse := testBit n Consts.blkIgnoreSparse }

structure InFile where
  flags : Flags
  data : Bytes
  deriving Repr

/-- the block compressor.  `cmp x = some z`: `do_block` returned `|z| > 0` and `z` replaces the data;
`none`: it returned 0 (the result would not be smaller) and the input is kept.  `unc` is the matching
uncompressor (only used by the read-back specification). -/
structure Codec where
  cmp : Bytes → Option Bytes
  unc : Bytes → Bytes

/-- the assumed contract of a block codec (trusted base; D11 is LZ4 breaking `smaller`) -/
structure Codec.Ok (c : Codec) : Prop where
  smaller : ∀ x z, c.cmp x = some z → 0 < z.length ∧ z.length < x.length
  roundTrip : ∀ x z, c.cmp x = some z → c.unc z = x

structure Params where
  B : Nat                          -- block size (`max_block_size`)
  base : Nat                       -- file offset where the first data block lands (super block + compressor options)
  codec : Codec
  h : Bytes → UInt32               -- block checksum (xxh32 in the implementation; arbitrary here)

/-! ## outputs -/

/-- one 32-bit block size word of a file inode -/
inductive Word where
  | sparse                                   -- 0: a hole of one block
  | stored (size : Nat) (raw : Bool)         -- on-disk size, bit 24 set ⇔ `raw` (stored uncompressed)
  deriving DecidableEq, Repr

/-- `1 << 24`, regenerated from `SQFS_IS_BLOCK_COMPRESSED` of the working tree's `sqfs/block.h` -/
def rawBit : Nat := Consts.blockWordRawFlag

def Word.toNat : Word → Nat
  | .sparse => 0
  | .stored n raw => n ||| (if raw then rawBit else 0)

def Word.diskSize : Word → Nat
  | .sparse => 0
  | .stored n _ => n

/-- one entry of the block writer's history = one block of the data area -/
structure Stored where
  raw : Bool                                 -- stored uncompressed (`!IS_COMPRESSED`)
  cksum : UInt32
  data : Bytes                               -- payload as written
  deriving DecidableEq, Repr

def Stored.word (s : Stored) : Word := .stored s.data.length s.raw

/-- fragment table entry -/
structure FragEntry where
  start : Nat
  size : Nat
  raw : Bool
  deriving DecidableEq, Repr

/-- what ends up in the inode of one file -/
structure FileResult where
  size : Nat                                 -- file_size
  words : List Word                          -- extra[0..]
  start : Nat                                -- blocks_start
  frag : Option (Nat × Nat)                  -- (fragment index, offset); `none` = 0xFFFFFFFF/0xFFFFFFFF
  sparse : Nat                               -- `sparse` counter of the extended inode
  shared : Bool                              -- ghost: `start` was taken from an earlier identical run of blocks
  deriving DecidableEq, Repr

/-- the inode is written as an *extended* file inode (no hard links, no xattrs, 32-bit sizes assumed) -/
def FileResult.extended (r : FileResult) : Bool := r.sparse > 0

structure Out where
  blocks : List Stored                       -- the data area, in disk order
  frags : List FragEntry                     -- the fragment table
  files : List FileResult                    -- per input file, same order as the input
  deriving DecidableEq, Repr

/-! ## block decomposition (front end) -/

/-- block `i` of the file: bytes `[i*B, (i+1)*B)` -/
def blockAt (B : Nat) (d : Bytes) (i : Nat) : Bytes := (d.drop (i * B)).take B

/-- blocks `0..k-1`, `k = |d| / B` -/
def fullBlocks (B : Nat) (d : Bytes) : List Bytes := (List.range (d.length / B)).map (blockAt B d)

/-- the tail end: the last `|d| % B` bytes -/
def tailOf (B : Nat) (d : Bytes) : Bytes := d.drop (d.length / B * B)

/-! ## per-block worker rule -/

def allZero (d : Bytes) : Bool := d.all (· == 0)

inductive Worked where
  | sparse (n : Nat)                         -- IS_SPARSE: nothing stored, `sparse += n`, word 0
  | stored (s : Stored)
  deriving DecidableEq, Repr

def Worked.word : Worked → Word
  | .sparse _ => .sparse
  | .stored s => s.word

def Worked.sparseBytes : Worked → Nat
  | .sparse n => n
  | .stored _ => 0

def Worked.stored? : Worked → Option Stored
  | .sparse _ => none
  | .stored s => some s

def cksumOf (P : Params) (F : Flags) (d : Bytes) : UInt32 := if F.dontHash then 0 else P.h d

/-- store `d`, compressed when allowed and when the codec makes it smaller -/
def encode (P : Params) (dontCompress : Bool) (ck : UInt32) (d : Bytes) : Stored :=
  if dontCompress then ⟨true, ck, d⟩
  else match P.codec.cmp d with
    | some z => ⟨false, ck, z⟩
    | none => ⟨true, ck, d⟩

/-- `process_block` on a (non-empty) data block of a file with flags `F`.  (A size-0 block — the sentinel that
only carries `LAST_BLOCK` — is left untouched and produces neither a word nor a stored block.) -/
def workData (P : Params) (F : Flags) (d : Bytes) : Worked :=
  if !F.ignoreSparse && allZero d then .sparse d.length
  else .stored (encode P F.dontCompress (cksumOf P F d) d)

/-- the open fragment block: payload so far and the union of its members' `DONT_COMPRESS` -/
structure FragBlock where
  data : Bytes
  dontCompress : Bool
  deriving DecidableEq, Repr

/-- `process_block` on a closed fragment block: flags are `(⋃ members' DONT_COMPRESS) | FRAGMENT_BLOCK`, so it is
hashed and, unless `DONT_COMPRESS`, compressed.  Repaired rule: no sparse branch (D24). -/
def workFragBlock (P : Params) (fb : FragBlock) : Stored :=
  encode P fb.dontCompress (P.h fb.data) fb.data

/-! ## data blocks: placement and whole-file deduplication (block writer) -/

def bytesOf (l : List Stored) : Nat := (l.map (·.data.length)).sum

/-- smallest `i < |hist|` such that the `|mine|` history entries from `i` on equal the file's own entries
(size word, checksum **and** bytes; the window may run into the file's own entries) -/
def findMatch (hist mine : List Stored) : Option Nat :=
  (List.range hist.length).find? (fun i => ((hist ++ mine).drop i).take mine.length == mine)

/-- The file's stored blocks `mine` are appended to the history; on `LAST_BLOCK`:
no stored block → start 0; `DONT_DEDUPLICATE` → own offset; else the first earlier identical run → its offset, and
the history is cut to `max (i + count) file_start` entries; else own offset.
Returns (new history, start, shared). -/
def placeBlocks (base : Nat) (dontDedup : Bool) (hist mine : List Stored) : List Stored × Nat × Bool :=
  if mine = [] then (hist, 0, false)
  else if dontDedup then (hist ++ mine, base + bytesOf hist, false)
  else match findMatch hist mine with
    | some i => ((hist ++ mine).take (max (i + mine.length) hist.length), base + bytesOf (hist.take i), true)
    | none => (hist ++ mine, base + bytesOf hist, false)

/-! ## fragments -/

/-- a recorded fragment (hash-table entry): where it lives and its key (size is `data.length`).
Current rule (since /repo fcd11e4, finding D27; `chunk_info_equals` compares `flags`): the key also contains the
member's `DONT_COMPRESS`, so that a `dont_compress` tail is never deduplicated into a fragment block that gets
compressed (before the fix the key was `(size, checksum, bytes)` only — `Sqfs/Model/PackCur.lean`). -/
structure Chunk where
  index : Nat
  offset : Nat
  dontCompress : Bool
  cksum : UInt32
  data : Bytes
  deriving DecidableEq, Repr

structure State where
  hist : List Stored := []                   -- writer history = data area so far
  frags : List FragEntry := []               -- table entries of the closed fragment blocks (index = position)
  openFrag : Option FragBlock := none        -- the open fragment block; its table index is `frags.length`
  chunks : List Chunk := []                  -- recorded fragments, newest first (insert replaces an equal key)
  deriving Repr

/-- close the open fragment block: it goes through the worker as a data block and is appended to the data area;
its table entry is filled in -/
def closeOpen (P : Params) (σ : State) : State :=
  match σ.openFrag with
  | none => σ
  | some fb =>
    let s := workFragBlock P fb
    { σ with hist := σ.hist ++ [s]
             frags := σ.frags ++ [⟨P.base + bytesOf σ.hist, s.data.length, s.raw⟩]
             openFrag := none }

/-- append the tail `t` (key checksum `ck`) to the open fragment block, closing it first if `t` does not fit -/
def addFragment (P : Params) (σ : State) (F : Flags) (ck : UInt32) (t : Bytes) : State × (Nat × Nat) :=
  let σ1 := match σ.openFrag with
    | some fb => if fb.data.length + t.length > P.B then closeOpen P σ else σ
    | none => σ
  let idx := σ1.frags.length
  match σ1.openFrag with
  | none =>
    ({ σ1 with openFrag := some ⟨t, F.dontCompress⟩, chunks := ⟨idx, 0, F.dontCompress, ck, t⟩ :: σ1.chunks }, (idx, 0))
  | some fb =>
    ({ σ1 with openFrag := some ⟨fb.data ++ t, fb.dontCompress || F.dontCompress⟩
               chunks := ⟨idx, fb.data.length, F.dontCompress, ck, t⟩ :: σ1.chunks }, (idx, fb.data.length))

def lookupChunk (chunks : List Chunk) (dc : Bool) (ck : UInt32) (t : Bytes) : Option Chunk :=
  chunks.find? (fun c => c.dontCompress == dc && c.cksum == ck && c.data == t)

/-- result of handling the tail end of a file -/
inductive TailResult where
  | sparse                                   -- all zero, not `IGNORE_SPARSE`: word 0 at index k, `sparse += r`
  | frag (index offset : Nat)
  deriving DecidableEq, Repr

/-- `process_block` + `process_completed_fragment` for the tail `t` of a file with flags `F` -/
def placeTail (P : Params) (σ : State) (F : Flags) (t : Bytes) : State × TailResult :=
  if !F.ignoreSparse && allZero t then (σ, .sparse)
  else
    let ck := cksumOf P F t
    match (if F.dontDedup then none else lookupChunk σ.chunks F.dontCompress ck t) with
    | some c => (σ, .frag c.index c.offset)
    | none =>
      let r := addFragment P σ F ck t
      (r.1, .frag r.2.1 r.2.2)

/-! ## one file, all files -/

/-- the blocks of the file that are submitted as *data* blocks: the full blocks, plus the tail when
`DONT_FRAGMENT` -/
def dataBlocksOf (B : Nat) (f : InFile) : List Bytes :=
  fullBlocks B f.data ++ (if f.data.length % B > 0 && f.flags.dontFragment then [tailOf B f.data] else [])

/-- is the tail end submitted as a fragment? -/
def hasTailFrag (B : Nat) (f : InFile) : Bool := f.data.length % B > 0 && !f.flags.dontFragment

def packFile (P : Params) (σ : State) (f : InFile) : State × FileResult :=
  if f.data = [] then (σ, ⟨0, [], 0, none, 0, false⟩)      -- nothing is submitted
  else
    let worked := (dataBlocksOf P.B f).map (workData P f.flags)
    let words := worked.map Worked.word
    let sparse := (worked.map Worked.sparseBytes).sum
    let pl := placeBlocks P.base f.flags.dontDedup σ.hist (worked.filterMap Worked.stored?)
    let σ1 := { σ with hist := pl.1 }
    if hasTailFrag P.B f then
      let t := tailOf P.B f.data
      match placeTail P σ1 f.flags t with
      | (σ2, .sparse) => (σ2, ⟨f.data.length, words ++ [.sparse], pl.2.1, none, sparse + t.length, pl.2.2⟩)
      | (σ2, .frag i o) => (σ2, ⟨f.data.length, words, pl.2.1, some (i, o), sparse, pl.2.2⟩)
    else (σ1, ⟨f.data.length, words, pl.2.1, none, sparse, pl.2.2⟩)

def packFiles (P : Params) : State → List InFile → State × List FileResult
  | σ, [] => (σ, [])
  | σ, f :: fs =>
    let r := packFile P σ f
    let rs := packFiles P r.1 fs
    (rs.1, r.2 :: rs.2)

/-- **The specification.** -/
def specPack (P : Params) (files : List InFile) : Out :=
  let r := packFiles P {} files
  let σ := closeOpen P r.1                               -- `sqfs_block_processor_finish`
  ⟨σ.hist, σ.frags, r.2⟩

/-! ## reading a file back from the layout (what a reader does with the inode and the tables) -/

def Out.area (o : Out) : Bytes := o.blocks.flatMap (·.data)

/-- `len` bytes of the image at absolute offset `off` (the data area starts at `base`) -/
def readAt (base : Nat) (area : Bytes) (off len : Nat) : Bytes := (area.drop (off - base)).take len

def decodeBlock (c : Codec) (raw : Bool) (p : Bytes) : Bytes := if raw then p else c.unc p

/-- the data blocks of a file: `off` = running disk offset, `rem` = bytes of the file not yet produced -/
def readBlocks (c : Codec) (B base : Nat) (area : Bytes) : Nat → Nat → List Word → Bytes
  | _, _, [] => []
  | off, rem, .sparse :: ws => List.replicate (min B rem) 0 ++ readBlocks c B base area off (rem - min B rem) ws
  | off, rem, .stored n raw :: ws =>
    decodeBlock c raw (readAt base area off n) ++ readBlocks c B base area (off + n) (rem - min B rem) ws

def readFrag (c : Codec) (base : Nat) (area : Bytes) (frags : List FragEntry) (len : Nat) : Option (Nat × Nat) → Bytes
  | none => []
  | some (i, o) =>
    match frags[i]? with
    | none => []
    | some e => ((decodeBlock c e.raw (readAt base area e.start e.size)).drop o).take len

def readFile (P : Params) (o : Out) (r : FileResult) : Bytes :=
  readBlocks P.codec P.B P.base o.area r.start r.size r.words
    ++ readFrag P.codec P.base o.area o.frags (r.size % P.B) r.frag

/-! ## option handling of the packers (`mkfs.c: pack_file`, `tar2sqfs: write_file`) -/

/-- `flags = n->data.file.flags; if (opt->no_tail_packing && filesize > opt->cfg.block_size) flags |= DONT_FRAGMENT;` -/
def effectiveFlags (noTailPacking : Bool) (B : Nat) (size : Nat) (F : Flags) : Flags :=
  if noTailPacking && size > B then { F with dontFragment := true } else F

/-! ## export table (`dir_writer.c: add_export_table_entry`, `sqfs_dir_writer_write_export_table`) -/

def noRef : UInt64 := 0xFFFFFFFFFFFFFFFF

/-- `add_export_table_entry(writer, inum, iref)` with `inum ≥ 1`: grow with 0xFF…FF, then `ptr[inum - 1] = iref` -/
def addExport (tbl : List UInt64) (inum : Nat) (iref : UInt64) : List UInt64 :=
  let t := if inum - 1 ≥ tbl.length then tbl ++ List.replicate (inum - tbl.length) noRef else tbl
  t.set (inum - 1) iref

/-- the table after all directory entries (in the order they are written) and finally the root -/
def exportTable (entries : List (Nat × UInt64)) (root : Nat × UInt64) : List UInt64 :=
  (entries ++ [root]).foldl (fun t e => addExport t e.1 e.2) []

end Sqfs.Pack
