/-
Specification for hard-link resolution (C07): what a hard link *means*, independent of
any algorithm.  A link names a path; following the names link after link either ends at
an object that is not a link, or hits a name that does not resolve, or goes round a cycle.
-/
import Sqfs.Model.HardLink
namespace Sqfs.HardLink

/-- `i` is a hard link whose target path resolves to node `j` -/
def Step (g : Graph) (i j : Nat) : Prop := g[i]? = some (.hlink (.found j))

/-- `j` is reached from `i` by following hard-link targets (zero or more times) -/
inductive Chain (g : Graph) : Nat → Nat → Prop
  | refl (i : Nat) : Chain g i i
  | step {i j k : Nat} : Step g i j → Chain g j k → Chain g i k

/-- node `i` exists and is not a hard link -/
def NonLink (g : Graph) (i : Nat) : Prop := g[i]? = some .other ∨ g[i]? = some .dir

/-- the chain of links starting at `i` ends at the non-link node `t` -/
def EndsAt (g : Graph) (i t : Nat) : Prop := Chain g i t ∧ NonLink g t

/-- the chain starting at `i` reaches a link whose target path does not resolve (`errno` = `e`) -/
def Dangling (g : Graph) (i : Nat) (e : LErr) : Prop := ∃ k, Chain g i k ∧ g[k]? = some (.hlink (.fail e))

/-- the chain starting at `i` runs into a cycle (which need not contain `i`) -/
def Cyclic (g : Graph) (i : Nat) : Prop := ∃ k m, Chain g i k ∧ Step g k m ∧ Chain g m k

/-- the chain starting at `i` reaches an index outside the graph (impossible for graphs built from a tree) -/
def Escapes (g : Graph) (i : Nat) : Prop := ∃ k, Chain g i k ∧ g[k]? = none

/-- every link target that resolves, resolves to a node of the graph -/
def WF (g : Graph) : Prop := ∀ i j, Step g i j → j < g.length

/-! Executable form of the same classification, used by the check to judge the *implementation's* answers. -/

inductive Class
  | endsAt (t : Nat) | dangling (e : LErr) | cyclic | escapes
  deriving DecidableEq, Repr

def classify (g : Graph) : Nat → Nat → Class
  | 0, _ => .cyclic
  | f + 1, i =>
    match g[i]? with
    | none => .escapes
    | some (.hlink (.found j)) => classify g f j
    | some (.hlink (.fail e)) => .dangling e
    | some _ => .endsAt i

/-- following more than `|g|` links means some node was visited twice -/
def specClass (g : Graph) (i : Nat) : Class := classify g (g.length + 1) i

end Sqfs.HardLink

namespace Sqfs.HardLink

/--
What one call of `resolve_link` on link `n` must answer, given the current link counts:
`none` = success with `target_node = t`, `some e` = failure with that `errno`.
-/
def Expected (g : Graph) (cnt : Nat → Nat) (n : Nat) : Option Nat × Option Errno → Prop
  | (some t, none) => EndsAt g n t ∧ g[t]? = some .other ∧ cnt t ≠ linkCountMax
  | (none, some .EPERM) => ∃ t, EndsAt g n t ∧ g[t]? = some .dir
  | (none, some .EMLINK) => Cyclic g n ∨ ∃ t, EndsAt g n t ∧ g[t]? = some .other ∧ cnt t = linkCountMax
  | (none, some .ENOENT) => Dangling g n .ENOENT
  | (none, some .ENOTDIR) => Dangling g n .ENOTDIR
  | _ => False

end Sqfs.HardLink
