/-
Specification side of C10 for the data reader: coherence of the block cache and of the fragment cache, and
the consistency condition ("same location ⇒ same size word") under which the location-keyed cache of the
current code is sound.
-/
import Sqfs.Model.DataReaderCache
namespace Sqfs.DataReader
open Sqfs.Consts Sqfs.MetaReader

/-- the size word the cached data block is taken to have been decoded with: the recorded one (repaired code)
or the one the image assigns to that location (current code, images on which that is a function) -/
def wordOf (kw : Bool) (sw : Nat → Nat) (d : DR) : Nat := if kw then d.currentWord else sw d.currentBlock

/-- **Cache coherence** of the data reader: a cached data block is what `get_block` yields now for its key;
a cached fragment block is what `get_block` yields now for its table entry. -/
def DCoh (kw : Bool) (f : File) (unc : Codec) (sw : Nat → Nat) (d : DR) : Prop :=
  (∀ b, d.dataBlock = some b → getBlock f unc d.currentBlock (wordOf kw sw d) d.blockSize = .ok b) ∧
  (∀ fb, d.fragBlock = some fb →
    ∃ ent, d.tbl[d.currentFrag]? = some ent ∧ getBlock f unc ent.1 ent.2 d.blockSize = .ok fb)

/-- an access `(location, size word)` is consistent with the image's location → size-word function
(no condition for the repaired code) -/
def Cons (kw : Bool) (sw : Nat → Nat) (p : Nat × Nat) : Prop := kw = true ∨ sw p.1 = p.2

/-- every block access an inode can cause is consistent -/
def ConsIno (kw : Bool) (sw : Nat → Nat) (ino : Inode) : Prop :=
  ∀ p ∈ accesses ino.blocks ino.blocksStart, Cons kw sw p

/-! ### files the library itself wrote, and the three ways to read one -/

/-- the data block with size word `w` stored at `off` holds the `u` bytes `data`: it is sparse (all zero), stored
raw with exactly `u` bytes, or stored compressed (smaller than `u`) and unpacks to `data` whenever at least `u`
bytes of room are offered (no decompressor looks at the room beyond checking that the output fits) -/
def BlockIs (f : File) (unc : Codec) (off w u : Nat) (data : Bytes) : Prop :=
  (isSparse w = true ∧ data = zeros u) ∨
  (isSparse w = false ∧ onDisk w ≤ u ∧ ∃ raw, f.readAt off (onDisk w) = .ok raw ∧
    ((isCompressed w = true ∧ data.length = u ∧ 0 < u ∧ ∀ room, u ≤ room → unc raw room = .ok data) ∨
     (isCompressed w = false ∧ onDisk w = u ∧ data = raw)))

/-- the block list `ws` starting at `off` holds the first bytes of a file of which `rem` bytes are still to come,
block by block (`datas`): every block is full (`bs` bytes) except that the last may hold the short rest -/
def BlocksAre (f : File) (unc : Codec) (bs : Nat) : List Nat → Nat → Nat → List Bytes → Prop
  | [], _, _, ds => ds = []
  | w :: ws, off, rem, ds =>
    ∃ d rest, ds = d :: rest ∧ 0 < rem ∧ BlockIs f unc off w (if rem < bs then rem else bs) d ∧
      BlocksAre f unc bs ws (off + onDisk w) (rem - (if rem < bs then rem else bs)) rest

/-- **an inode and its data as the library writes them** (block processor + fragment table): the blocks hold
`datas`, and what is left after them (`tail`, shorter than a block) lies in the fragment block the inode names -/
structure Written (f : File) (unc : Codec) (bs : Nat) (tbl : List (Nat × Nat)) (ino : Inode) (datas : List Bytes) (tail : Bytes) : Prop where
  bsPos : 0 < bs
  /-- `block_size` is a `sqfs_u32` -/
  bsU32 : bs < 4294967296
  /-- one positional read may ask for the whole file (`size` is a `sqfs_u32` capped at 0x7FFFFFFE) -/
  small : ino.fileSize ≤ 2147483646
  blocks : BlocksAre f unc bs ino.blocks ino.blocksStart ino.fileSize datas
  covered : (datas.map List.length).sum ≤ ino.fileSize
  tailLen : tail.length = ino.fileSize - (datas.map List.length).sum
  tailShort : tail.length < bs
  frag : tail ≠ [] → ∃ ent fb, tbl[ino.fragIdx]? = some ent ∧ getBlock f unc ent.1 ent.2 bs = .ok fb ∧
    ino.fragOff + tail.length ≤ fb.2 ∧ fb.2 ≤ bs ∧ tail = (fb.1.drop ino.fragOff).take tail.length

/-- the first `n` blocks through `sqfs_data_reader_get_block`, concatenated; the first error wins -/
def catBlocks (f : File) (unc : Codec) (bs : Nat) (ino : Inode) : Nat → Except Status Bytes
  | 0 => .ok []
  | n + 1 =>
    match catBlocks f unc bs ino n with
    | .error e => .error e
    | .ok a =>
      match getBlockApi f unc bs ino n with
      | .error e => .error e
      | .ok b => .ok (a ++ b)

/-- a whole file through per-block access: `get_block` for every index, then `get_fragment` -/
def viaBlocks (f : File) (unc : Codec) (bs : Nat) (tbl : List (Nat × Nat)) (ino : Inode) : Except Status Bytes :=
  match catBlocks f unc bs ino ino.blocks.length with
  | .error e => .error e
  | .ok a =>
    match getFragmentSpec f unc bs tbl ino with
    | .error e => .error e
    | .ok t => .ok (a ++ t)

/-- model-only: fuel of the stream loop exhausted -/
def streamFuelSt : Status := 1003

/-- a whole file through a stream: `get_buffered_data`, take everything, `advance_buffer`, until the end -/
def streamAllGo (f : File) (unc : Codec) (bs : Nat) (tbl : List (Nat × Nat)) : Nat → Stream → Bytes → Except Status Bytes
  | 0, _, _ => .error streamFuelSt
  | n + 1, s, acc =>
    match streamGetSpec true f unc bs tbl s with
    | (.eof, _) => .ok acc
    | (.err e, _) => .error e
    | (.data b, s') => streamAllGo f unc bs tbl n (streamAdvance s' b.length) (acc ++ b.filterMap id)

def viaStream (f : File) (unc : Codec) (bs : Nat) (tbl : List (Nat × Nat)) (ino : Inode) : Except Status Bytes :=
  streamAllGo f unc bs tbl (ino.blocks.length + 2) (streamOpen bs ino) []

end Sqfs.DataReader
