/-
Specification side of C10 for the data reader: coherence of the block cache and of the fragment cache, and
the consistency condition ("same location ⇒ same size word") under which the location-keyed cache of the
current code is sound.
-/
import Sqfs.Model.DataReaderCache
namespace Sqfs.DataReader
open Sqfs.Consts Sqfs.MetaReader

/-- the size word the cached data block is taken to have been decoded with: the recorded one (repaired code)
or the one the image assigns to that location (current code, images on which that is a function) -/
def wordOf (kw : Bool) (sw : Nat → Nat) (d : DR) : Nat := if kw then d.currentWord else sw d.currentBlock

/-- **Cache coherence** of the data reader: a cached data block is what `get_block` yields now for its key;
a cached fragment block is what `get_block` yields now for its table entry. -/
def DCoh (kw : Bool) (f : File) (unc : Codec) (sw : Nat → Nat) (d : DR) : Prop :=
  (∀ b, d.dataBlock = some b → getBlock f unc d.currentBlock (wordOf kw sw d) d.blockSize = .ok b) ∧
  (∀ fb, d.fragBlock = some fb →
    ∃ ent, d.tbl[d.currentFrag]? = some ent ∧ getBlock f unc ent.1 ent.2 d.blockSize = .ok fb)

/-- an access `(location, size word)` is consistent with the image's location → size-word function
(no condition for the repaired code) -/
def Cons (kw : Bool) (sw : Nat → Nat) (p : Nat × Nat) : Prop := kw = true ∨ sw p.1 = p.2

/-- every block access an inode can cause is consistent -/
def ConsIno (kw : Bool) (sw : Nat → Nat) (ino : Inode) : Prop :=
  ∀ p ∈ accesses ino.blocks ino.blocksStart, Cons kw sw p

end Sqfs.DataReader
