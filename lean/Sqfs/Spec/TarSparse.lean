/-
Specification of sparse file expansion.

A map is *well formed* from position `pos` when its entries are in ascending order, do not overlap and end
within the file (`zero-length` entries and adjacent regions are allowed, as GNU tar writes them).  The expanded
file is then: for every entry, zeros up to its offset followed by its `count` bytes taken in order from the
archive's data, and zeros from the last entry to the file size.
-/
import Sqfs.Model.TarSparse
namespace Sqfs.Tar

def WellFormedMap (pos : Nat) : List (Nat × Nat) → Nat → Prop
  | [], fileSize => pos ≤ fileSize
  | (o, c) :: t, fileSize => pos ≤ o ∧ WellFormedMap (o + c) t fileSize

def specExpand (pos : Nat) : List (Nat × Nat) → Nat → Bytes → Bytes
  | [], fileSize, _ => zeros (fileSize - pos)
  | (o, c) :: t, fileSize, data => zeros (o - pos) ++ data.take c ++ specExpand (o + c) t fileSize (data.drop c)

/-- Σ count -/
def dataBytes : List (Nat × Nat) → Nat
  | [] => 0
  | (_, c) :: t => c + dataBytes t

end Sqfs.Tar
