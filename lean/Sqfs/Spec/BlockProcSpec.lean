/-
`packRef` — the **queue-free, backlog-free reference** the block processor is compared against (C02).

Nothing here mentions a pool, `backlog`, `max_backlog`, `io_queue`, the in-flight copies or the block cache.  The
result is computed in three passes over the input:

 1. **front end** (`feFiles`, pure mirror of `begin_file` / `append` / `end_file` of frontend.c): the blocks handed to
    `enqueue_block`, in order, and the file sizes;
 2. **fragment pass** (`fStep`): what the main thread does with an item the pool hands back — a data block gets the next
    I/O sequence number; a fragment is a hole, or is found in the fragment table (compared against the *content* of
    the fragment block, wherever the implementation currently keeps it), or is packed into the open fragment block,
    which is closed first — and numbered at that very moment — when the fragment does not fit.  The result is the
    numbered block stream;
 3. **writer pass** (`wStep`): the numbered blocks go through `process_completed_block` in sequence order.

This is what `threadpool_serial.c` with an immediate drain after every submission computes (each item is worked,
taken back and written before the next one is submitted), regrouped by pass; `Sqfs.C02.run_eq_spec` shows that the
model of the implementation computes the same for *every* `max_backlog`.

Inode updates are collected as `Eff` values (`FE`: sizes; fragment pass: fragment location / sparse tail; writer pass:
block words, sparse blocks, start) and applied at the end.
-/
import Sqfs.Model.BlockProc
namespace Sqfs.BlockProc
open Sqfs.Consts
open Sqfs.BlockWriter (hasFlag)

/-! ### inode updates as data -/

inductive InoEff where
  | size (n : Nat)                 -- `file_size += n`                                     (append)
  | fragLoc (i o : Nat)            -- `sqfs_inode_set_frag_location`                        (process_completed_fragment)
  | sparse (k n : Nat)             -- make_extended; `extra[k] = 0`; `sparse += n`          (sparse block / sparse tail)
  | word (k v : Nat)               -- `set_block_size(inode, k, v)`                         (process_completed_block)
  | start (loc : Nat)              -- `sqfs_inode_set_file_block_start`                     (LAST block)
deriving DecidableEq, Repr

def InoEff.app : InoEff → Inode → Inode
  | .size n, i => { i with size := i.size + n }
  | .fragLoc x o, i => { i with fragIdx := x, fragOff := o }
  | .sparse k n, i => ({ i with extended := true, sparse := i.sparse + n } : Inode).setBlockSize k 0
  | .word k v, i => i.setBlockSize k v
  | .start loc, i => { i with start := loc }

/-- an update of the inode of file `id` -/
structure Eff where
  id : Nat
  e : InoEff
deriving DecidableEq, Repr

def applyEff (l : List Inode) (x : Eff) : List Inode := l.modify x.id x.e.app

def applyEffs (l : List Inode) (xs : List Eff) : List Inode := xs.foldl applyEff l

def mkEff (i : Option Nat) (e : InoEff) : List Eff :=
  match i with
  | none => []
  | some id => [⟨id, e⟩]

/-! ### 1. the front end, without the pool -/

structure Front where
  beginCalled : Bool := false
  inode : Option Nat := none
  blkFlags : Nat := 0
  blkIndex : Nat := 0
  blkCurrent : Option Blk := none
deriving DecidableEq, Repr

def Proc.fe (s : Proc) : Front := ⟨s.beginCalled, s.inode, s.blkFlags, s.blkIndex, s.blkCurrent⟩

/-- `appendGo` without `get_new_block`'s drain and with `enqueue_block` replaced by "emit" -/
def feAppendGo (B : Nat) : Nat → Front → Bytes → Option (Front × List Blk)
  | 0, _, _ => none
  | fuel + 1, f, data =>
    if data.length = 0 then
      match f.blkCurrent with
      | none => none
      | some cur => if cur.data.length = B then some ({ f with blkCurrent := none }, [cur]) else some (f, [])
    else
      match f.blkCurrent with
      | none =>
        feAppendGo B fuel
          { f with blkCurrent := some { flags := f.blkFlags, inode := f.inode, index := f.blkIndex },
                   blkIndex := f.blkIndex + 1, blkFlags := clearFlag f.blkFlags blkFirstBlock } data
      | some cur =>
        let diff := B - cur.data.length
        if diff = 0 then
          match feAppendGo B fuel { f with blkCurrent := none } data with
          | none => none
          | some r => some (r.1, cur :: r.2)
        else
          let n := min diff data.length
          feAppendGo B fuel { f with blkCurrent := some { cur with data := cur.data ++ data.take n } } (data.drop n)

def feAppend (B : Nat) (f : Front) (data : Bytes) : Option (Front × List Blk) :=
  feAppendGo B (3 * data.length + 3) f data

def feSentinel (f : Front) : Blk := { inode := f.inode, flags := f.blkFlags ||| blkLastBlock }

/-- `end_file`: the blocks it hands to `enqueue_block` -/
def feEndItems (f : Front) : List Blk :=
  match f.blkCurrent with
  | none => if !hasFlag f.blkFlags blkFirstBlock then [feSentinel f] else []
  | some cur =>
    if hasFlag f.blkFlags blkDontFragment then [{ cur with flags := cur.flags ||| blkLastBlock }]
    else (if !hasFlag cur.flags blkFirstBlock then [feSentinel f] else []) ++ [{ cur with flags := cur.flags ||| blkIsFragment }]

def feEnd (f : Front) : Front := { f with beginCalled := false, inode := none, blkFlags := 0, blkCurrent := none }

def feBegin (f : Front) (id : Nat) (flags : Nat) : Front :=
  { f with beginCalled := true, inode := some id, blkFlags := flags ||| blkFirstBlock, blkIndex := 0 }

/-- all blocks of file number `id`, in submission order.  `begin_file` refuses flags that are not user settable;
`Err.fuel`: the append loop ran out of fuel (never, `Sqfs.BlockProc.feFile_ok`) -/
def feFile (B : Nat) (id : Nat) (f : InFile) : Except Err (List Blk) :=
  if f.flags &&& blkUserSettable != f.flags then .error .unsupported
  else
    let f0 := feBegin {} id f.flags
    if f.data.length = 0 then .ok (feEndItems f0)
    else
      match feAppend B f0 f.data with
      | none => .error .fuel
      | some r => .ok (r.2 ++ feEndItems r.1)

def feFiles (B : Nat) : Nat → List InFile → Except Err (List Blk)
  | _, [] => .ok []
  | id, f :: fs =>
    match feFile B id f with
    | .error e => .error e
    | .ok a =>
      match feFiles B (id + 1) fs with
      | .error e => .error e
      | .ok b => .ok (a ++ b)

/-- the `size` updates of `append` -/
def feEffs : Nat → List InFile → List Eff
  | _, [] => []
  | id, f :: fs => (if f.data.length = 0 then [] else [⟨id, .size f.data.length⟩]) ++ feEffs (id + 1) fs

/-! ### 2. the fragment pass -/

structure FSt where
  opn : Option Blk := none                   -- `proc->frag_block`
  ht : List Chunk := []                      -- `proc->frag_ht`
  closed : List (Nat × Bytes) := []          -- content of every closed fragment block, newest first
  ntbl : Nat := 0                            -- length of the fragment table
  stream : List Blk := []                    -- the numbered blocks so far (`seq` = position)
  effs : List Eff := []

/-- the (uncompressed) bytes of fragment block `idx` -/
def FSt.fragData (F : FSt) (idx : Nat) : Option Bytes :=
  match openBytes F.opn idx with
  | some d => some d
  | none => (F.closed.find? (fun e => e.1 == idx)).map (·.2)

/-- `chunk_info_equals` against the content of the block -/
def chunkEqRef (byteCompare : Bool) (F : FSt) (d : Bytes) (hd : UInt32) (kf : Nat) (c : Chunk) : Bool :=
  if c.size != d.length || c.hash != hd || c.flags != kf then false
  else if !byteCompare then true
  else
    match F.fragData c.index with
    | none => false
    | some blk => BlockWriter.slice blk c.offset c.size == d

/-- `hash_table_insert_pre_hashed` on a list -/
def insertRef (eq : Chunk → Bool) (new : Chunk) : List Chunk → List Chunk
  | [] => [new]
  | c :: rest => if eq c then new :: rest else c :: insertRef eq new rest

/-- `blk->io_seq_num = n` -/
def Blk.withSeq (b : Blk) (n : Nat) : Blk := { b with seq := n }

@[simp] theorem Blk.withSeq_seq (b : Blk) (n : Nat) : (b.withSeq n).seq = n := rfl
@[simp] theorem Blk.withSeq_flags (b : Blk) (n : Nat) : (b.withSeq n).flags = b.flags := rfl
@[simp] theorem Blk.withSeq_data (b : Blk) (n : Nat) : (b.withSeq n).data = b.data := rfl
@[simp] theorem Blk.withSeq_chk (b : Blk) (n : Nat) : (b.withSeq n).chk = b.chk := rfl
@[simp] theorem Blk.withSeq_index (b : Blk) (n : Nat) : (b.withSeq n).index = b.index := rfl
@[simp] theorem Blk.withSeq_inode (b : Blk) (n : Nat) : (b.withSeq n).inode = b.inode := rfl

/-- hand the open fragment block to the pool: it is numbered now -/
def FSt.close (P : Params) (F : FSt) : FSt :=
  match F.opn with
  | none => F
  | some fb =>
    { F with opn := none, closed := (fb.index, fb.data) :: F.closed,
             stream := F.stream ++ [processBlock P (fb.withSeq F.stream.length)] }

/-- the open block is closed first when a fragment of `len` bytes does not fit -/
def FSt.makeRoom (P : Params) (F : FSt) (len : Nat) : FSt :=
  match F.opn with
  | some fb => if fb.data.length + len > P.B then F.close P else F
  | none => F

/-- the fragment becomes the new open block (next table index, offset 0) or is appended to the open one;
result: new state, index, offset -/
def FSt.place (F : FSt) (x : Blk) : FSt × Nat × Nat :=
  match F.opn with
  | none =>
    ({ F with ntbl := F.ntbl + 1,
              opn := some { x with index := F.ntbl, flags := (x.flags &&& blkDontCompress) ||| blkFragmentBlock } }, F.ntbl, 0)
  | some fb =>
    ({ F with opn := some { fb with data := fb.data ++ x.data, flags := fb.flags ||| (x.flags &&& blkDontCompress) } },
     fb.index, fb.data.length)

/-- a fragment that was not found in the table is stored and recorded -/
def FSt.store (P : Params) (F : FSt) (x : Blk) : FSt :=
  let r := (F.makeRoom P x.data.length).place x
  let kf := x.flags &&& blkDontCompress
  { r.1 with ht := insertRef (chunkEqRef P.byteCompare r.1 x.data x.chk kf) ⟨r.2.1, r.2.2, x.data.length, x.chk, kf⟩ r.1.ht,
             effs := r.1.effs ++ mkEff x.inode (.fragLoc r.2.1 r.2.2) }

/-- the table lookup of `process_completed_fragment` -/
def FSt.lookup (P : Params) (F : FSt) (x : Blk) : Option Chunk :=
  if !hasFlag x.flags blkDontDeduplicate then F.ht.find? (chunkEqRef P.byteCompare F x.data x.chk (x.flags &&& blkDontCompress))
  else none

/-- one item handed back by the pool (already worked) -/
def fStep (P : Params) (F : FSt) (x : Blk) : FSt :=
  if hasFlag x.flags blkIsFragment then
    if hasFlag x.flags blkIsSparse then
      { F with effs := F.effs ++ mkEff x.inode (.sparse x.index x.data.length) }
    else
      match F.lookup P x with
      | some c => { F with effs := F.effs ++ mkEff x.inode (.fragLoc c.index c.offset) }
      | none => F.store P x
  else { F with stream := F.stream ++ [x.withSeq F.stream.length] }

def fRun (P : Params) (F : FSt) (xs : List Blk) : FSt := xs.foldl (fStep P) F

/-! ### 3. the writer pass -/

structure WSt where
  wr : BlockWriter.State
  calls : List WrCall := []
  sets : List (Nat × Nat × Nat) := []        -- `sqfs_frag_table_set(index, location, size)` in order
  effs : List Eff := []

/-- the inode updates of `process_completed_block` for block `b` written at `loc` -/
def blockEffs (b : Blk) (loc : Nat) : List Eff :=
  (if hasFlag b.flags blkIsSparse then mkEff b.inode (.sparse b.index b.data.length)
   else if b.data.length != 0 && !hasFlag b.flags blkFragmentBlock then mkEff b.inode (.word b.index (sizeWord b))
   else [])
  ++ (if hasFlag b.flags blkLastBlock then mkEff b.inode (.start loc) else [])

def wStep (W : WSt) (b : Blk) : Except Err WSt :=
  match BlockWriter.writeDataBlock W.wr b.chk (clearFlag b.flags blkFlagInternal) b.data with
  | .error e => .error (.writer e)
  | .ok (wr', loc) =>
    .ok { wr := wr', calls := W.calls ++ [⟨b.chk, clearFlag b.flags blkFlagInternal, b.data⟩],
          sets := if !hasFlag b.flags blkIsSparse && b.data.length != 0 && hasFlag b.flags blkFragmentBlock
                  then W.sets ++ [(b.index, loc, sizeWord b)] else W.sets,
          effs := W.effs ++ blockEffs b loc }

def wRun : WSt → List Blk → Except Err WSt
  | W, [] => .ok W
  | W, b :: bs =>
    match wStep W b with
    | .error e => .error e
    | .ok W' => wRun W' bs

/-! ### the reference -/

def applySets (tbl : List (Nat × Nat)) (sets : List (Nat × Nat × Nat)) : List (Nat × Nat) :=
  sets.foldl (fun t s => t.set s.1 (s.2.1, s.2.2)) tbl

/-- the observables from the three passes (`n` files) -/
def assemble (n : Nat) (fe : List Eff) (F : FSt) (W : WSt) : Output :=
  ⟨W.calls, W.wr.file, applySets (List.replicate F.ntbl (0, 0)) W.sets,
   (applyEffs (List.replicate n {}) (fe ++ F.effs ++ W.effs)).map Inode.res⟩

/-- **the reference**: no pool, no backlog, no queue -/
def packRef (P : Params) (files : List InFile) : Except Err Output :=
  match feFiles P.B 0 files with
  | .error e => .error e
  | .ok items =>
    let F := (fRun P {} (items.map (processBlock P))).close P           -- `finish` closes the last open block
    match wRun { wr := BlockWriter.init P.pre } F.stream with
    | .error e => .error e
    | .ok W => .ok (assemble files.length (feEffs 0 files) F W)

end Sqfs.BlockProc
