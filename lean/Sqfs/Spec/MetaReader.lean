/-
Specification side of C10 for the metadata reader: the cache-coherence invariant and the
relation "indistinguishable through the API".
-/
import Sqfs.Model.MetaReader
namespace Sqfs.MetaReader
open Sqfs.Consts

/-- assumed contract of a block decompressor (`do_block(.., out, outsize)`): it never reports more output than
the room it was given, and a failure is a non-zero (in C: negative) `SQFS_ERROR_*` status (so not one of the
model-only codes ≥ 1000).  Nothing else about the codec is used: not that it inverts a compressor, only that
it is a function of its input. -/
def CodecOK (unc : Codec) : Prop :=
  (∀ x n out, unc x n = .ok out → out.length ≤ n) ∧ (∀ x n e, unc x n = .error e → 0 < e ∧ e < crashSt)

/-- shape invariant of the object: the cursor is inside the valid part of the 8 KiB buffer
(so that `data_used - offset` does not wrap: D3); `limit` is a `sqfs_u64` -/
def Inv (m : MR) : Prop :=
  m.offset ≤ m.dataUsed ∧ m.dataUsed ≤ m.data.length ∧ m.data.length = metaBlockSize ∧ m.limit ≤ NONE

/-- **Cache coherence.**  Either nothing is cached (and then nothing is readable), or the cached fields are
exactly what loading the block at the tag from the file yields now. -/
def Coherent (f : File) (unc : Codec) (m : MR) : Prop :=
  Inv m ∧
  (m.tag = NONE → m.dataUsed = 0) ∧
  (m.tag ≠ NONE → ∃ raw blk size, loadBlock f unc m.limit m.tag = .done raw blk size ∧
      m.data.take m.dataUsed = blk ∧ m.dataUsed = blk.length ∧ m.nextBlock = wrap64 (m.tag + size + 2))

/-- two reader objects that no sequence of API calls can tell apart: equal in everything except the stale
bytes of `data` beyond `data_used` -/
def Sim (m₁ m₂ : MR) : Prop :=
  m₁.start = m₂.start ∧ m₁.limit = m₂.limit ∧ m₁.tag = m₂.tag ∧ m₁.nextBlock = m₂.nextBlock ∧
  m₁.dataUsed = m₂.dataUsed ∧ m₁.offset = m₂.offset ∧ m₁.data.length = m₂.data.length ∧
  m₁.data.take m₁.dataUsed = m₂.data.take m₂.dataUsed

end Sqfs.MetaReader
