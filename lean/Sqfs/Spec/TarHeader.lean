/-
Specification of the tar header round trip (C04): what `read_header` must deliver for the records
`write_tar_header` emitted for one entry, and for which entries the writer can be expected to do so.
-/
import Sqfs.Model.TarRead
import Sqfs.Spec.TarNumber
namespace Sqfs.Tar

/--
The header `read_header` is expected to return for the entry `(e, tgt, xs)` handed to `write_tar_header`
(`xs` in the order the reader reports them).

* name and link target come back byte for byte (whatever their length);
* uid, gid, mtime (signed) and, for regular files, the size come back exactly;
* device numbers only for device nodes, everything else has 0;
* the mode comes back completely, **except** for symbolic links, which the reader always gives `0777`
  (`decode_header`: `out->mode = S_IFLNK | 0777`) — their permission bits have no meaning;
* a hard link comes back as a hard link to `tgt` carrying only the permission bits, and without extended
  attributes (`write_hard_link` emits none: they belong to the inode the link points to).
-/
def decodedOf (e : WEntry) (tgt : Option Bytes) (xs : List (Bytes × Bytes)) : Decoded :=
  if e.hardLink then
    { name := some e.name, link := some (tgt.getD []), hardLink := true, mode := perm e.mode,
      uid := e.uid, gid := e.gid, mtime := e.mtime, recordSize := 0, actualSize := 0 }
  else
    let isLnk := fmt e.mode = S_IFLNK
    let isDev := fmt e.mode = S_IFCHR ∨ fmt e.mode = S_IFBLK
    let size := if fmt e.mode = S_IFREG then e.size else 0
    { name := some e.name,
      link := if isLnk then some ((tgt.getD []).take e.size) else none,
      mode := if isLnk then S_IFLNK + 0o777 else e.mode,
      uid := e.uid, gid := e.gid, mtime := e.mtime,
      recordSize := size, actualSize := size,
      devMajor := if isDev then e.devMajor else 0,
      devMinor := if isDev then e.devMinor else 0,
      xattr := xs }

/-- the payload of the `pax/xattrN` member -/
def paxPayload (xs : List (Bytes × Bytes)) : Bytes := (xs.map fun kv => schilyRecord kv.1 kv.2).flatten

/--
The entries for which the round trip is claimed.  Every clause is either part of the C calling convention
(strings are NUL-terminated, `ent->size` is the length of the link target, integer types) or a documented limit of the
format / of this reader; none excludes an entry kind, a name length or a numeric encoding:

* `nameNul`, `tgtNul`, `keyNul` — C strings;
* `size`, `mtime` — `sqfs_u64` / `sqfs_s64`;
* `uid`, `gid` — an 8-byte base-256 field holds 63 bits minus the marker: values from `0x7F·2^56` on do not survive
  (sharp, see `Sqfs.C04`'s `example`); SquashFS ids are 32 bit;
* `dev` — `int maj = major(rdev)` is sign-extended into the `sqfs_u64` argument of `write_number`; SquashFS has 12 + 20 bits;
* `nameLen`, `tgtLen`, `paxLen` — `read_header` refuses (error, nothing stored) GNU 'L'/'K' and PAX records longer than
  `TAR_MAX_PATH_LEN` / `TAR_MAX_SYMLINK_LEN` / `TAR_MAX_PAX_LEN` = 65536 bytes;
* `slink` — `write_header` copies `ent->size` bytes of the target: the caller passes the target's length there;
* `hlink` — `write_hard_link` calls `strlen(target)`: a hard link has a target.
-/
structure Encodable (e : WEntry) (tgt : Option Bytes) (xs : List (Bytes × Bytes)) : Prop where
  nameNul : ∀ x ∈ e.name, x ≠ 0
  tgtNul : ∀ x ∈ tgt.getD [], x ≠ 0
  keyNul : ∀ kv ∈ xs, ∀ x ∈ kv.1, x ≠ 0
  size : e.size < U64
  mtime : -9223372036854775808 ≤ e.mtime ∧ e.mtime < 9223372036854775808
  uid : e.uid < 127 * 2 ^ 56
  gid : e.gid < 127 * 2 ^ 56
  dev : e.devMajor < 2147483648 ∧ e.devMinor < 2147483648
  nameLen : e.name.length ≤ 65536
  tgtLen : (tgt.getD []).length ≤ 65536
  paxLen : e.hardLink = false → (paxPayload xs).length ≤ 65536
  slink : e.hardLink = false → fmt e.mode = S_IFLNK → e.size ≤ (tgt.getD []).length
  hlink : e.hardLink = true → tgt.isSome

/-- a PAX extended header record as every writer emits it: `"%d %s=%s\n"`, the decimal length in front counting itself -/
def paxRecord (kw value : Bytes) : Bytes :=
  let len := kw.length + value.length + 3
  decStr (len + prefixDigitLen len) ++ [32] ++ kw ++ [61] ++ value ++ [10]

/-! ### reading a header block of *any* dialect (v7, pre-POSIX/GNU, POSIX ustar): field-by-field specification -/

/-- the name a header block carries: POSIX ustar joins a non-empty `prefix` field and the `name` field with '/';
    v7 and pre-POSIX/GNU blocks have no prefix (that area holds other data) -/
def specName (h : Bytes) (v : Version) : Bytes :=
  if (slice h 345 155).headD 0 ≠ 0 ∧ v = .posix then strn (slice h 345 155) ++ [47] ++ strn (slice h 0 100)
  else strn (slice h 0 100)

/-- a numeric field, unless a PAX record already supplied the value (`set_by_pax`): its exact meaning
    (`specNumber`: octal digit run or base-256 two's complement) or failure -/
def specField (mask flag : Nat) (cur : Option α) (f : Bytes) (conv : Nat → α) : Option α :=
  if hasFlag mask flag then cur else (specNumber f).map conv

/--
What `decode_header` must deliver for a 512-byte block `h` of dialect `v`, given what the extension records before it
already set (`mask`, `out`): every numeric field is the exact value its bytes encode or the whole header is refused; PAX
values win over header fields; the type flag selects the file type bits ('0', NUL and 'S' regular file, '1' hard link —
permission bits only —, '2' symbolic link with `0777`, '3'…'6' devices, directory, FIFO); anything else is an unknown
record (to be skipped by the iterator); the link target of '1'/'2' comes from the `linkname` field unless a GNU 'K' /
PAX `linkpath` record set it.
-/
def specDecode (h : Bytes) (mask : Nat) (out : Decoded) (v : Version) : Option Decoded := do
  let size ← specField mask PAX_SIZE (some out.recordSize) (slice h 124 12) id
  let uid ← specField mask PAX_UID (some out.uid) (slice h 108 8) id
  let gid ← specField mask PAX_GID (some out.gid) (slice h 116 8) id
  let maj ← specField mask PAX_DEV_MAJ (some out.devMajor) (slice h 329 8) (· % 4294967296)
  let min ← specField mask PAX_DEV_MIN (some out.devMinor) (slice h 337 8) (· % 4294967296)
  let mt ← specField mask PAX_MTIME (some out.mtime) (slice h 136 12) toSigned
  let md ← specNumber (slice h 100 8)
  let tf := (slice h 156 1).headD 0
  let perm := md % 4096
  let known := tf = 0 ∨ tf = 48 ∨ tf = 83 ∨ tf = 49 ∨ tf = 50 ∨ tf = 51 ∨ tf = 52 ∨ tf = 53 ∨ tf = 54
  pure { out with
    name := if hasFlag mask PAX_NAME then out.name else some (specName h v)
    link := if (tf = 49 ∨ tf = 50) ∧ ¬ hasFlag mask PAX_SLINK_TARGET then some (strn (slice h 157 100)) else out.link
    recordSize := size, uid := uid, gid := gid, devMajor := maj, devMinor := min, mtime := mt
    mode := if tf = 0 ∨ tf = 48 ∨ tf = 83 then perm + S_IFREG else if tf = 49 then perm else if tf = 50 then S_IFLNK + 0o777
            else if tf = 51 then perm + S_IFCHR else if tf = 52 then perm + S_IFBLK else if tf = 53 then perm + S_IFDIR
            else if tf = 54 then perm + S_IFIFO else perm
    hardLink := if tf = 0 ∨ tf = 48 ∨ tf = 83 then out.hardLink else if tf = 49 then true else out.hardLink
    unknown := decide (¬ known) }

end Sqfs.Tar
